/-
Regular expressions vs. model, part 4: `Expect.duration` and `Dur.parse`.
-/
import KlogV.Lemmas.RegexModel1
import KlogV.Lemmas.Grammar2
namespace KlogV

/-- the value part of `Dur.parse` (Go: everything after `FindStringSubmatch` succeeded), as a function of
the captured pieces: group 1 (sign, `[]` if absent), group 3 (hour digits), group 5 (minute digits) -/
def Dur.ofParts (sg hd md : List Char) : Res Dur :=
  let sign : Int := if sg = ['-'] then -1 else 1
  if hd.isEmpty && md.isEmpty then .err else       -- `match[3] == "" && match[5] == ""`
  match (if hd.isEmpty then Res.ok 0 else atoi hd), (if md.isEmpty then Res.ok 0 else atoi md) with
  | .ok h, .ok m =>
    if !hd.isEmpty && m ≥ 60 then .err else
    let zs : Int := if h == 0 && m == 0 && !sg.isEmpty then sign else 0
    match safeMul (sign * h) 60 with
    | .ok hm => (match safeAdd hm (sign * m) with
      | .ok tot => .ok ⟨tot, sg == ['+'], zs⟩
      | _ => .panic)
    | _ => .panic
  | _, _ => .panic

namespace RxM
open KlogV.Rx

variable {env : Env}

theorem ofParts_eq_eval (sg hd md : List Char) :
    Dur.ofParts sg hd md = if hd.isEmpty && md.isEmpty then .err
      else Dur.eval (if sg = ['-'] then -1 else 1) (!sg.isEmpty) (sg == ['+']) hd md := rfl

/-! ### Shape -/

theorem sign_iff {x : List Char} : ((∃ c ∈ ['-', '+'], x = [c]) ∨ x = []) ↔ (x = [] ∨ x = ['-'] ∨ x = ['+']) := by
  simp only [List.mem_cons, List.not_mem_nil, or_false]
  constructor
  · rintro (⟨c, (rfl | rfl), rfl⟩ | rfl) <;> simp
  · rintro (rfl | rfl | rfl)
    · exact .inr rfl
    · exact .inl ⟨_, .inl rfl, rfl⟩
    · exact .inl ⟨_, .inr rfl, rfl⟩

theorem unit_iff {x : List Char} {c : Char} :
    ((∃ a b, x = a ++ b ∧ (a ≠ [] ∧ a.all isDigit = true) ∧ b = [c]) ∨ x = []) ↔
      ∃ ds, ds.all isDigit = true ∧ x = if ds.isEmpty then [] else ds ++ [c] := by
  constructor
  · rintro (⟨a, _, rfl, ⟨hne, hd⟩, rfl⟩ | rfl)
    · refine ⟨a, hd, ?_⟩
      cases a with
      | nil => exact absurd rfl hne
      | cons _ _ => rfl
    · exact ⟨[], rfl, rfl⟩
  · rintro ⟨ds, hd, rfl⟩
    cases ds with
    | nil => exact .inr rfl
    | cons d ds => exact .inl ⟨d :: ds, _, rfl, ⟨by simp, hd⟩, rfl⟩

theorem duration_shape (s : List Char) :
    Matches env Expect.duration (codes s) ↔
      ∃ sg hd md : List Char,
        s = sg ++ (if hd.isEmpty then [] else hd ++ ['h']) ++ (if md.isEmpty then [] else md ++ ['m']) ∧
        (sg = [] ∨ sg = ['-'] ∨ sg = ['+']) ∧ hd.all isDigit = true ∧ md.all isDigit = true := by
  simp only [Expect.duration, Re.catl, m_cat_codes, m_opt_codes, matches_group, m_oneOf_codes, m_plus_digit_codes,
    m_ch_codes, m_eps_codes, sign_iff, unit_iff]
  constructor
  · rintro ⟨sg, _, rfl, hsg, _, _, rfl, ⟨hd, hh, rfl⟩, _, _, rfl, ⟨md, hm, rfl⟩, rfl⟩
    exact ⟨sg, hd, md, by simp, hsg, hh, hm⟩
  · rintro ⟨sg, hd, md, rfl, hsg, hh, hm⟩
    exact ⟨sg, _, by simp, hsg, _, _, rfl, ⟨hd, hh, rfl⟩, _, _, rfl, ⟨md, hm, rfl⟩, rfl⟩

theorem mark_duration : mark Expect.duration = Re.catl [Re.opt (G 1 (Expect.oneOf ['-', '+'])),
    Re.opt (G 2 (.cat (G 3 (Re.plus Expect.digit)) (Expect.ch 'h'))),
    Re.opt (G 4 (.cat (G 5 (Re.plus Expect.digit)) (Expect.ch 'm')))] := rfl

theorem signM_iff {x : List Nat} :
    ((∃ v, (∃ c ∈ ['-', '+'], v = [c.toNat]) ∧ x = grp 1 v) ∨ x = []) ↔
      ∃ sg : List Char, (sg = [] ∨ sg = ['-'] ∨ sg = ['+']) ∧
        x = if sg.isEmpty then [] else openSym 1 :: codes sg ++ [closeSym 1] := by
  simp only [List.mem_cons, List.not_mem_nil, or_false]
  constructor
  · rintro (⟨_, ⟨c, (rfl | rfl), rfl⟩, rfl⟩ | rfl)
    · exact ⟨['-'], by simp, rfl⟩
    · exact ⟨['+'], by simp, rfl⟩
    · exact ⟨[], by simp, rfl⟩
  · rintro ⟨sg, (rfl | rfl | rfl), rfl⟩
    · exact .inr rfl
    · exact .inl ⟨_, ⟨_, .inl rfl, rfl⟩, rfl⟩
    · exact .inl ⟨_, ⟨_, .inr rfl, rfl⟩, rfl⟩

theorem unitM_iff {x : List Nat} {i j : Nat} {c : Char} :
    ((∃ v, (∃ u w, (∃ v', (∃ ds, ds ≠ [] ∧ ds.all isDigit = true ∧ v' = codes ds) ∧ u = grp j v') ∧ w = [c.toNat] ∧ v = u ++ w)
        ∧ x = grp i v) ∨ x = []) ↔
      ∃ ds, ds.all isDigit = true ∧
        x = if ds.isEmpty then [] else openSym i :: openSym j :: codes ds ++ [closeSym j, c.toNat, closeSym i] := by
  constructor
  · rintro (⟨_, ⟨_, _, ⟨_, ⟨ds, hne, hd, rfl⟩, rfl⟩, rfl, rfl⟩, rfl⟩ | rfl)
    · refine ⟨ds, hd, ?_⟩
      cases ds with
      | nil => exact absurd rfl hne
      | cons _ _ => simp [grp]
    · exact ⟨[], rfl, rfl⟩
  · rintro ⟨ds, hd, rfl⟩
    cases ds with
    | nil => exact .inr rfl
    | cons d ds => exact .inl ⟨_, ⟨_, _, ⟨_, ⟨d :: ds, by simp, hd, rfl⟩, rfl⟩, rfl, rfl⟩, by simp [grp]⟩

theorem duration_marked (m : List Nat) :
    Matches env (mark Expect.duration) m ↔
      ∃ sg hd md : List Char,
        (sg = [] ∨ sg = ['-'] ∨ sg = ['+']) ∧ hd.all isDigit = true ∧ md.all isDigit = true ∧
        m = (if sg.isEmpty then [] else openSym 1 :: codes sg ++ [closeSym 1]) ++
            (if hd.isEmpty then [] else openSym 2 :: openSym 3 :: codes hd ++ [closeSym 3, 'h'.toNat, closeSym 2]) ++
            (if md.isEmpty then [] else openSym 4 :: openSym 5 :: codes md ++ [closeSym 5, 'm'.toNat, closeSym 4]) := by
  rw [mark_duration]
  simp only [Re.catl, matches_cat, matches_opt, m_G, m_oneOf, m_plus_digit, m_ch, matches_eps, signM_iff, unitM_iff]
  constructor
  · rintro ⟨_, _, ⟨sg, hsg, rfl⟩, ⟨_, _, ⟨hd, hh, rfl⟩, ⟨_, _, ⟨md, hm, rfl⟩, rfl, rfl⟩, rfl⟩, rfl⟩
    exact ⟨sg, hd, md, hsg, hh, hm, by simp⟩
  · rintro ⟨sg, hd, md, hsg, hh, hm, rfl⟩
    exact ⟨_, _, ⟨sg, hsg, rfl⟩, ⟨_, _, ⟨hd, hh, rfl⟩, ⟨_, _, ⟨md, hm, rfl⟩, rfl, rfl⟩, rfl⟩, by simp⟩

/-! ### Link to `Dur.parse` -/

/-- the hour and minute parts of a duration text -/
def units (hd md : List Char) : List Char :=
  (if hd.isEmpty then [] else hd ++ ['h']) ++ (if md.isEmpty then [] else md ++ ['m'])

theorem shape_units (hd md : List Char) (hh : hd.all isDigit = true) (hm : md.all isDigit = true) :
    Dur.shape (units hd md) = if hd.isEmpty && md.isEmpty then none else some (hd, md) := by
  unfold units
  cases hd with
  | nil =>
    cases md with
    | nil => rfl
    | cons c' cs' => simpa using Dur.shape_m c' cs' hm
  | cons c cs =>
    cases md with
    | nil => simpa using Dur.shape_h c cs hh
    | cons c' cs' => simpa using Dur.shape_hm c cs c' cs' hh hm

theorem parseS_units (sign : Int) (sg plus : Bool) (hd md : List Char) (hh : hd.all isDigit = true) (hm : md.all isDigit = true) :
    Dur.parseS sign sg plus (units hd md) = if hd.isEmpty && md.isEmpty then .err else Dur.eval sign sg plus hd md := by
  unfold Dur.parseS
  rw [shape_units hd md hh hm]
  cases (hd.isEmpty && md.isEmpty) <;> rfl

theorem units_head (hd md : List Char) (hh : hd.all isDigit = true) (hm : md.all isDigit = true)
    (hne : (hd.isEmpty && md.isEmpty) = false) : ∃ c r, units hd md = c :: r ∧ isDigit c = true := by
  unfold units
  cases hd with
  | nil =>
    cases md with
    | nil => cases hne
    | cons c' cs' =>
      simp only [List.all_cons, Bool.and_eq_true] at hm
      exact ⟨c', _, rfl, hm.1⟩
  | cons c cs =>
    simp only [List.all_cons, Bool.and_eq_true] at hh
    exact ⟨c, _, rfl, hh.1⟩

theorem units_nil : units [] [] = [] := rfl

theorem duration_parse_shape (sg hd md : List Char) (hsg : sg = [] ∨ sg = ['-'] ∨ sg = ['+'])
    (hh : hd.all isDigit = true) (hm : md.all isDigit = true) :
    Dur.parse (sg ++ (if hd.isEmpty then [] else hd ++ ['h']) ++ (if md.isEmpty then [] else md ++ ['m'])) =
      Dur.ofParts sg hd md := by
  rw [List.append_assoc, show (if hd.isEmpty then [] else hd ++ ['h']) ++ (if md.isEmpty then [] else md ++ ['m']) = units hd md from rfl,
    ofParts_eq_eval]
  rcases hsg with rfl | rfl | rfl
  · rw [List.nil_append]
    cases hne : (hd.isEmpty && md.isEmpty)
    · obtain ⟨c, r, e, hc⟩ := units_head hd md hh hm hne
      have := parseS_units 1 false false hd md hh hm
      rw [e] at this ⊢
      rw [Dur.parse_nosign c r (isDigit_ne c '-' hc (by decide)) (isDigit_ne c '+' hc (by decide)), this, hne]
      rfl
    · simp only [Bool.and_eq_true, List.isEmpty_iff] at hne
      obtain ⟨rfl, rfl⟩ := hne
      rfl
  · show Dur.parse ('-' :: units hd md) = _
    rw [Dur.parse_minus, parseS_units _ _ _ hd md hh hm]
    rfl
  · show Dur.parse ('+' :: units hd md) = _
    rw [Dur.parse_plus, parseS_units _ _ _ hd md hh hm]
    rfl

theorem parseS_shape {sign : Int} {sg plus : Bool} {r : List Char} (h : Dur.parseS sign sg plus r ≠ .err) :
    ∃ hd md, hd.all isDigit = true ∧ md.all isDigit = true ∧ r = units hd md := by
  unfold Dur.parseS at h
  split at h
  · exact absurd rfl h
  · rename_i hd md hsh
    obtain ⟨a1, a2, hc⟩ := GrammarLemmas.shape_inv hsh
    refine ⟨hd, md, a1, a2, ?_⟩
    unfold units
    rcases hc with ⟨rfl, hne, rfl⟩ | ⟨hne, rfl, rfl⟩ | ⟨hne1, hne2, rfl⟩
    · cases md with
      | nil => exact absurd rfl hne
      | cons _ _ => rfl
    · cases hd with
      | nil => exact absurd rfl hne
      | cons _ _ => simp
    · cases hd with
      | nil => exact absurd rfl hne1
      | cons _ _ =>
        cases md with
        | nil => exact absurd rfl hne2
        | cons _ _ => simp

theorem duration_parse_matches {s : List Char} (h : Dur.parse s ≠ .err) : Matches env Expect.duration (codes s) := by
  rw [duration_shape]
  cases s with
  | nil => exact absurd Dur.parse_nil h
  | cons c r =>
    by_cases h1 : c = '-'
    · subst h1
      rw [Dur.parse_minus] at h
      obtain ⟨hd, md, a1, a2, rfl⟩ := parseS_shape h
      exact ⟨['-'], hd, md, by simp [units], by simp, a1, a2⟩
    · by_cases h2 : c = '+'
      · subst h2
        rw [Dur.parse_plus] at h
        obtain ⟨hd, md, a1, a2, rfl⟩ := parseS_shape h
        exact ⟨['+'], hd, md, by simp [units], by simp, a1, a2⟩
      · rw [Dur.parse_nosign c r h1 h2] at h
        obtain ⟨hd, md, a1, a2, e⟩ := parseS_shape h
        exact ⟨[], hd, md, by rw [e]; simp [units], by simp, a1, a2⟩


/-! ### The pieces are determined by the string: the marked word over a given string is unique -/

theorem units_inj {hd md hd' md' : List Char} (hh : hd.all isDigit = true) (hm : md.all isDigit = true)
    (hh' : hd'.all isDigit = true) (hm' : md'.all isDigit = true) (h : units hd md = units hd' md') :
    hd = hd' ∧ md = md' := by
  have s1 := shape_units hd md hh hm
  have s2 := shape_units hd' md' hh' hm'
  rw [h, s2] at s1
  cases e : (hd.isEmpty && md.isEmpty) <;> cases e' : (hd'.isEmpty && md'.isEmpty) <;> rw [e, e'] at s1
  · simp only [Bool.false_eq_true, if_false, Option.some.injEq, Prod.mk.injEq] at s1
    exact ⟨s1.1.symm, s1.2.symm⟩
  · simp at s1
  · simp at s1
  · simp only [Bool.and_eq_true, List.isEmpty_iff] at e e'
    rw [e.1, e.2, e'.1, e'.2]; exact ⟨rfl, rfl⟩

theorem units_head' (hd md : List Char) (hh : hd.all isDigit = true) (hm : md.all isDigit = true) :
    units hd md = [] ∨ ∃ c r, units hd md = c :: r ∧ isDigit c = true := by
  cases e : (hd.isEmpty && md.isEmpty)
  · exact .inr (units_head hd md hh hm e)
  · simp only [Bool.and_eq_true, List.isEmpty_iff] at e
    rw [e.1, e.2]; exact .inl rfl

theorem durText_inj {sg hd md sg' hd' md' : List Char} (hsg : sg = [] ∨ sg = ['-'] ∨ sg = ['+'])
    (hh : hd.all isDigit = true) (hm : md.all isDigit = true)
    (hsg' : sg' = [] ∨ sg' = ['-'] ∨ sg' = ['+']) (hh' : hd'.all isDigit = true) (hm' : md'.all isDigit = true)
    (h : sg ++ units hd md = sg' ++ units hd' md') : sg = sg' ∧ hd = hd' ∧ md = md' := by
  have nd1 : isDigit '-' = false := by decide
  have nd2 : isDigit '+' = false := by decide
  have key : sg = sg' ∧ units hd md = units hd' md' := by
    rcases units_head' hd md hh hm with e | ⟨c, r, e, hc⟩ <;>
    rcases units_head' hd' md' hh' hm' with e' | ⟨c', r', e', hc'⟩ <;>
    rw [e, e'] at h ⊢ <;>
    rcases hsg with rfl | rfl | rfl <;> rcases hsg' with rfl | rfl | rfl <;>
    simp only [List.nil_append, List.cons_append, List.append_nil, List.cons.injEq, reduceCtorEq, and_true, and_false, true_and,
      Char.reduceEq] at h ⊢ <;>
    first
      | exact h
      | trivial
      | (exfalso; first
          | (rw [h.1] at hc; rw [hc] at nd1; cases nd1)
          | (rw [h.1] at hc; rw [hc] at nd2; cases nd2)
          | (rw [← h.1] at hc'; rw [hc'] at nd1; cases nd1)
          | (rw [← h.1] at hc'; rw [hc'] at nd2; cases nd2)
          | exact h.elim)
  obtain ⟨e1, e2⟩ := key
  exact ⟨e1, units_inj hh hm hh' hm' e2⟩

theorem erase_duration_marked (sg hd md : List Char) :
    erase ((if sg.isEmpty then [] else openSym 1 :: codes sg ++ [closeSym 1]) ++
          (if hd.isEmpty then [] else openSym 2 :: openSym 3 :: codes hd ++ [closeSym 3, 'h'.toNat, closeSym 2]) ++
          (if md.isEmpty then [] else openSym 4 :: openSym 5 :: codes md ++ [closeSym 5, 'm'.toNat, closeSym 4])) =
      codes (sg ++ (if hd.isEmpty then [] else hd ++ ['h']) ++ (if md.isEmpty then [] else md ++ ['m'])) := by
  have e : ∀ (x : Char) w, erase (x.toNat :: w) = x.toNat :: erase w := fun x w => erase_cons_lt (toNat_lt_maxRune x)
  cases sg <;> cases hd <;> cases md <;>
    simp only [List.isEmpty_nil, List.isEmpty_cons, Bool.false_eq_true, if_true, if_false, List.nil_append, List.cons_append,
      List.append_assoc, erase_append, erase_cons_ge (openSym_ge _), erase_cons_ge (closeSym_ge _), e, erase_codes, erase_nil,
      codes_append, codes_cons, codes_nil, List.append_nil]

theorem duration_groups (sg hd md : List Char) (m : List Nat) (hsg : sg = [] ∨ sg = ['-'] ∨ sg = ['+'])
    (hh : hd.all isDigit = true) (hmd : md.all isDigit = true)
    (hm : Matches env (mark Expect.duration) m)
    (he : erase m = codes (sg ++ (if hd.isEmpty then [] else hd ++ ['h']) ++ (if md.isEmpty then [] else md ++ ['m']))) :
    m = (if sg.isEmpty then [] else openSym 1 :: codes sg ++ [closeSym 1]) ++
        (if hd.isEmpty then [] else openSym 2 :: openSym 3 :: codes hd ++ [closeSym 3, 'h'.toNat, closeSym 2]) ++
        (if md.isEmpty then [] else openSym 4 :: openSym 5 :: codes md ++ [closeSym 5, 'm'.toNat, closeSym 4]) := by
  obtain ⟨sg', hd', md', hsg', hh', hm', rfl⟩ := (duration_marked m).1 hm
  rw [erase_duration_marked, codes_inj, List.append_assoc, List.append_assoc] at he
  obtain ⟨rfl, rfl, rfl⟩ := durText_inj hsg' hh' hm' hsg hh hmd he
  rfl

theorem duration_parse_no_match {s : List Char} (h : ¬ Matches env Expect.duration (codes s)) : Dur.parse s = .err := by
  cases e : Dur.parse s with
  | err => rfl
  | ok d => exact absurd (duration_parse_matches (by rw [e]; exact fun x => by cases x)) h
  | panic => exact absurd (duration_parse_matches (by rw [e]; exact fun x => by cases x)) h

/-! ### Which matched strings are rejected, and the value of the accepted ones -/

theorem hval_eq (hd : List Char) :
    (if hd.isEmpty then Res.ok 0 else atoi hd) = if (digitsVal hd : Int) ≤ maxInt then Res.ok (digitsVal hd : Int) else .panic := by
  cases hd with
  | nil => rfl
  | cons c cs => simp only [List.isEmpty_cons, Bool.false_eq_true, if_false, atoi]

theorem eval_err_iff (sign : Int) (sg plus : Bool) (hd md : List Char) :
    Dur.eval sign sg plus hd md = .err ↔
      hd ≠ [] ∧ (digitsVal hd : Int) ≤ maxInt ∧ (digitsVal md : Int) ≤ maxInt ∧ 60 ≤ digitsVal md := by
  unfold Dur.eval
  rw [hval_eq hd, hval_eq md]
  by_cases c1 : (digitsVal hd : Int) ≤ maxInt
  · by_cases c2 : (digitsVal md : Int) ≤ maxInt
    · simp only [c1, c2, if_true, true_and]
      by_cases c3 : (!hd.isEmpty && decide ((digitsVal md : Int) ≥ 60)) = true
      · simp only [c3, if_true, true_iff]
        simp only [Bool.and_eq_true, Bool.not_eq_true', decide_eq_true_eq] at c3
        refine ⟨?_, by omega⟩
        intro e; rw [e] at c3; simp at c3
      · simp only [c3, Bool.false_eq_true, if_false]
        constructor
        · intro h
          exfalso
          revert h
          split
          · split
            · intro h; cases h
            · intro h; cases h
          · intro h; cases h
        · rintro ⟨hne, h60⟩
          exfalso
          apply c3
          simp only [Bool.and_eq_true, Bool.not_eq_true', decide_eq_true_eq]
          refine ⟨?_, by omega⟩
          cases hd with
          | nil => exact absurd rfl hne
          | cons _ _ => rfl
    · simp only [c1, c2, if_true, if_false]
      constructor
      · intro h; cases h
      · rintro ⟨_, _, h, _⟩; exact h.elim
  · simp only [c1, if_false]
    constructor
    · intro h; cases h
    · rintro ⟨_, h, _⟩; exact h.elim

theorem duration_err_iff (sg hd md : List Char) :
    Dur.ofParts sg hd md = .err ↔
      (hd = [] ∧ md = []) ∨ (hd ≠ [] ∧ (digitsVal hd : Int) ≤ maxInt ∧ (digitsVal md : Int) ≤ maxInt ∧ 60 ≤ digitsVal md) := by
  rw [ofParts_eq_eval]
  cases hne : (hd.isEmpty && md.isEmpty)
  · simp only [Bool.false_eq_true, if_false, eval_err_iff]
    constructor
    · intro h; exact .inr h
    · rintro (⟨rfl, rfl⟩ | h)
      · cases hne
      · exact h
  · simp only [if_true, true_iff]
    simp only [Bool.and_eq_true, List.isEmpty_iff] at hne
    exact .inl hne

theorem duration_value (sg hd md : List Char) (d : Dur) (hsg : sg = [] ∨ sg = ['-'] ∨ sg = ['+'])
    (h : Dur.ofParts sg hd md = .ok d) :
    d.mins = (if sg = ['-'] then -1 else 1) * ((digitsVal hd * 60 + digitsVal md : Nat) : Int) ∧
    d.forcePlus = (sg == ['+']) ∧
    d.zeroSign = (if digitsVal hd * 60 + digitsVal md = 0 ∧ sg ≠ [] then (if sg = ['-'] then -1 else 1) else 0) := by
  rw [ofParts_eq_eval] at h
  split at h
  · cases h
  · have hs : (if sg = ['-'] then (-1 : Int) else 1) = 1 ∨ (if sg = ['-'] then (-1 : Int) else 1) = -1 := by
      split
      · exact .inr rfl
      · exact .inl rfl
    obtain ⟨rfl, _⟩ := GrammarLemmas.eval_inv h hs
    refine ⟨rfl, rfl, ?_⟩
    show GrammarLemmas.zs2 _ _ _ = _
    unfold GrammarLemmas.zs2
    rcases hsg with rfl | rfl | rfl <;> by_cases h0 : digitsVal hd * 60 + digitsVal md = 0 <;> simp [h0]

end RxM
end KlogV
