/-
Regular expressions vs. model, part 1: the tool kit.
`codes`, `rxEnv`, membership in the classes of KlogV/Regex/Expect.lean, iterated classes,
matching on `codes s`, group brackets of marked words.
-/
import KlogV.Regex.Lemmas
import KlogV.Regex.Expect
import KlogV.Lemmas.Values
import KlogV.Model.Tags
namespace KlogV
open KlogV.Rx

/-- the word of code points of a string -/
def codes (s : List Char) : List Nat := s.map Char.toNat

/-- the interpretation of the named classes: 0 = `\p{L}` (the model's Unicode-table parameter), 1 = `\p{Zs}` -/
def rxEnv (u : UTab) : Rx.Env := fun k a =>
  if a < Rx.maxRune then (match k with | 0 => u.isLetter (Char.ofNat a) | 1 => isZs (Char.ofNat a) | _ => false) else false

namespace RxM

variable {env : Env}

/-! ### `codes` -/

@[simp] theorem codes_nil : codes [] = [] := rfl
@[simp] theorem codes_cons (c : Char) (s : List Char) : codes (c :: s) = c.toNat :: codes s := rfl
@[simp] theorem codes_append (s t : List Char) : codes (s ++ t) = codes s ++ codes t := by simp [codes]
@[simp] theorem codes_length (s : List Char) : (codes s).length = s.length := by simp [codes]

theorem codes_eq_nil {s : List Char} : codes s = [] ↔ s = [] := by simp [codes]

theorem codes_inj {s t : List Char} : codes s = codes t ↔ s = t := by
  constructor
  · intro h
    induction s generalizing t with
    | nil => cases t with
      | nil => rfl
      | cons _ _ => simp [codes] at h
    | cons c s ih =>
      cases t with
      | nil => simp [codes] at h
      | cons d t =>
        simp only [codes_cons, List.cons.injEq] at h
        rw [Char.toNat_inj.1 h.1, ih h.2]
  · rintro rfl; rfl

theorem codes_eq_cons {s : List Char} {a : Nat} {v : List Nat} :
    codes s = a :: v ↔ ∃ c t, s = c :: t ∧ c.toNat = a ∧ codes t = v := by
  unfold codes; exact List.map_eq_cons_iff

theorem codes_eq_append {s : List Char} {u v : List Nat} :
    codes s = u ++ v ↔ ∃ s1 s2, s = s1 ++ s2 ∧ codes s1 = u ∧ codes s2 = v := by
  unfold codes; exact List.map_eq_append_iff

theorem toNat_lt_maxRune (c : Char) : c.toNat < maxRune := by
  have h := c.valid
  have e : c.toNat = c.val.toNat := rfl
  unfold UInt32.isValidChar Nat.isValidChar at h
  unfold maxRune
  omega

theorem codes_lt (s : List Char) : ∀ a ∈ codes s, a < maxRune := by
  intro a ha
  obtain ⟨c, _, rfl⟩ := List.mem_map.1 ha
  exact toNat_lt_maxRune c

theorem erase_codes (s : List Char) : erase (codes s) = codes s := erase_of_lt (codes_lt s)

theorem mem_codes {s : List Char} {x : Char} : x.toNat ∈ codes s ↔ x ∈ s := by
  constructor
  · intro h
    obtain ⟨c, hc, e⟩ := List.mem_map.1 h
    rw [← Char.toNat_inj.1 e]; exact hc
  · intro h; exact List.mem_map.2 ⟨x, h, rfl⟩

theorem forall_codes {s : List Char} {P : Nat → Prop} : (∀ a ∈ codes s, P a) ↔ ∀ x ∈ s, P x.toNat := by
  simp [codes]

/-! ### Decimal digits as code points -/

theorem toNat_ofNat_digit : ∀ k : Fin 10, (Char.ofNat (48 + k.val)).toNat = 48 + k.val := by decide

theorem digit_code {a : Nat} (h : 48 ≤ a ∧ a ≤ 57) : ∃ c : Char, isDigit c = true ∧ c.toNat = a := by
  have h1 := toNat_ofNat_digit ⟨a - 48, by omega⟩
  have e : 48 + (a - 48) = a := by omega
  simp only [e] at h1
  exact ⟨Char.ofNat a, (isDigit_iff _).2 (by omega), h1⟩

theorem digits_codes {w : List Nat} (h : ∀ a ∈ w, 48 ≤ a ∧ a ≤ 57) :
    ∃ ds : List Char, ds.all isDigit = true ∧ w = codes ds := by
  induction w with
  | nil => exact ⟨[], rfl, rfl⟩
  | cons a w ih =>
    obtain ⟨ds, h1, h2⟩ := ih (fun b hb => h b (by simp [hb]))
    obtain ⟨c, hc, rfl⟩ := digit_code (h a (by simp))
    exact ⟨c :: ds, by simp [hc, h1], by simp [h2]⟩

theorem all_digits_codes {ds : List Char} (h : ds.all isDigit = true) : ∀ a ∈ codes ds, 48 ≤ a ∧ a ≤ 57 := by
  rw [forall_codes]
  intro x hx
  exact (isDigit_iff x).1 (List.all_eq_true.1 h x hx)

/-! ### Membership in the classes of `Expect` -/

theorem mem_digit {a : Nat} : Cls.mem env ⟨false, [('0'.toNat, '9'.toNat)], []⟩ a = true ↔ 48 ≤ a ∧ a ≤ 57 := by
  simp [Cls.mem, Cls.pos]

theorem mem_digit_char {c : Char} : Cls.mem env ⟨false, [('0'.toNat, '9'.toNat)], []⟩ c.toNat = true ↔ isDigit c = true := by
  rw [mem_digit, isDigit_iff]

theorem pos_singles {cs : List Char} {a : Nat} :
    Cls.pos env ⟨false, cs.map (fun c => (c.toNat, c.toNat)), []⟩ a = true ↔ ∃ c ∈ cs, c.toNat = a := by
  simp only [Cls.pos, List.any_map, List.any_nil, Bool.or_false, List.any_eq_true, Function.comp,
    Bool.and_eq_true, decide_eq_true_eq]
  constructor
  · rintro ⟨c, hc, h1, h2⟩; exact ⟨c, hc, Nat.le_antisymm h1 h2⟩
  · rintro ⟨c, hc, rfl⟩; exact ⟨c, hc, Nat.le_refl _, Nat.le_refl _⟩

theorem pos_singles' {b : Bool} {cs : List Char} {a : Nat} :
    Cls.pos env ⟨b, cs.map (fun c => (c.toNat, c.toNat)), []⟩ a = Cls.pos env ⟨false, cs.map (fun c => (c.toNat, c.toNat)), []⟩ a := rfl

theorem mem_oneOf {cs : List Char} {a : Nat} :
    Cls.mem env ⟨false, cs.map (fun c => (c.toNat, c.toNat)), []⟩ a = true ↔ ∃ c ∈ cs, c.toNat = a := by
  simp only [Cls.mem, Bool.false_eq_true, if_false]
  exact pos_singles

theorem mem_oneOf_char {cs : List Char} {x : Char} :
    Cls.mem env ⟨false, cs.map (fun c => (c.toNat, c.toNat)), []⟩ x.toNat = true ↔ x ∈ cs := by
  rw [mem_oneOf]
  constructor
  · rintro ⟨c, hc, e⟩; rw [← Char.toNat_inj.1 e]; exact hc
  · intro h; exact ⟨x, h, rfl⟩

theorem mem_noneOf {cs : List Char} {a : Nat} :
    Cls.mem env ⟨true, cs.map (fun c => (c.toNat, c.toNat)), []⟩ a = true ↔ a < maxRune ∧ ¬ ∃ c ∈ cs, c.toNat = a := by
  simp only [Cls.mem, if_true, Bool.and_eq_true, decide_eq_true_eq, Bool.not_eq_true', ← Bool.not_eq_true]
  rw [pos_singles', pos_singles]

theorem mem_noneOf_char {cs : List Char} {x : Char} :
    Cls.mem env ⟨true, cs.map (fun c => (c.toNat, c.toNat)), []⟩ x.toNat = true ↔ x ∉ cs := by
  rw [mem_noneOf]
  constructor
  · rintro ⟨_, h⟩ hx; exact h ⟨x, hx, rfl⟩
  · intro h
    refine ⟨toNat_lt_maxRune x, ?_⟩
    rintro ⟨c, hc, e⟩
    rw [Char.toNat_inj.1 e] at hc; exact h hc

theorem rxEnv_letter (u : UTab) (c : Char) : rxEnv u 0 c.toNat = u.isLetter c := by
  simp [rxEnv, toNat_lt_maxRune]

theorem rxEnv_zs (u : UTab) (c : Char) : rxEnv u 1 c.toNat = isZs c := by
  simp [rxEnv, toNat_lt_maxRune]

theorem rxEnv_runeOnly (u : UTab) : ∀ k a, rxEnv u k a = true → a < maxRune := by
  intro k a h
  unfold rxEnv at h
  split at h
  · assumption
  · cases h

/-- `[\p{L}\d_-]` -/
theorem mem_tagChar (u : UTab) (c : Char) :
    Cls.mem (rxEnv u) ⟨false, [('0'.toNat, '9'.toNat), ('_'.toNat, '_'.toNat), ('-'.toNat, '-'.toNat)], [0]⟩ c.toNat = true
      ↔ u.isNameChar c = true := by
  have e1 : (c == '_') = true ↔ c.toNat = 95 := by
    rw [beq_iff_eq, ← Char.toNat_inj]; rfl
  have e2 : (c == '-') = true ↔ c.toNat = 45 := by
    rw [beq_iff_eq, ← Char.toNat_inj]; rfl
  simp only [Cls.mem, Cls.pos, Bool.false_eq_true, if_false, List.any_cons, List.any_nil, Bool.or_false,
    rxEnv_letter, UTab.isNameChar, Bool.or_eq_true, Bool.and_eq_true, decide_eq_true_eq, e1, e2, isDigit_iff]
  simp only [Char.reduceToNat]
  by_cases hL : u.isLetter c = true
  · simp [hL]
  · simp only [hL, Bool.false_eq_true, false_or, or_false, Rx.Sym]; constructor <;> intro h <;> omega

/-- `[\p{Zs}\t]` -/
theorem mem_zsTab (u : UTab) (c : Char) :
    Cls.mem (rxEnv u) ⟨false, [('\t'.toNat, '\t'.toNat)], [1]⟩ c.toNat = true ↔ isZsTab c = true := by
  have e1 : (c == '\t') = true ↔ c.toNat = 9 := by
    rw [beq_iff_eq, ← Char.toNat_inj]; rfl
  simp only [Cls.mem, Cls.pos, Bool.false_eq_true, if_false, List.any_cons, List.any_nil, Bool.or_false,
    rxEnv_zs, isZsTab, Bool.or_eq_true, Bool.and_eq_true, decide_eq_true_eq, e1]
  simp only [Char.reduceToNat]
  by_cases hL : isZs c = true
  · simp [hL]
  · simp only [hL, Bool.false_eq_true, false_or, or_false, Rx.Sym]; constructor <;> intro h <;> omega

/-! ### Iterated classes (words of code points) -/

theorem m_star_cls {c : Cls} {w : List Sym} :
    Matches env (.star (.cls c)) w ↔ ∀ a ∈ w, c.mem env a = true := by
  induction w with
  | nil => exact ⟨fun _ => by simp, fun _ => .starNil⟩
  | cons a w ih =>
    rw [matches_star_cons]
    constructor
    · rintro ⟨u, v, h1, h2, rfl⟩
      obtain ⟨a', e, ha⟩ := matches_cls.1 h1
      simp only [List.cons.injEq] at e
      obtain ⟨rfl, rfl⟩ := e
      intro b hb
      rcases List.mem_cons.1 hb with rfl | hb
      · exact ha
      · exact ih.1 h2 b (by simpa using hb)
    · intro h
      exact ⟨[], w, matches_cls.2 ⟨a, rfl, h a (by simp)⟩, ih.2 (fun b hb => h b (by simp [hb])), rfl⟩

theorem m_plus_cls {c : Cls} {w : List Sym} :
    Matches env (Re.plus (.cls c)) w ↔ w ≠ [] ∧ ∀ a ∈ w, c.mem env a = true := by
  rw [matches_plus]
  constructor
  · rintro ⟨u, v, h1, h2, rfl⟩
    obtain ⟨a, rfl, ha⟩ := matches_cls.1 h1
    refine ⟨by simp, ?_⟩
    intro b hb
    rcases List.mem_cons.1 hb with rfl | hb
    · exact ha
    · exact m_star_cls.1 h2 b hb
  · rintro ⟨hne, h⟩
    cases w with
    | nil => exact absurd rfl hne
    | cons a w =>
      exact ⟨[a], w, matches_cls.2 ⟨a, rfl, h a (by simp)⟩, m_star_cls.2 (fun b hb => h b (by simp [hb])), rfl⟩

theorem m_rep_cls {c : Cls} {n : Nat} {w : List Sym} :
    Matches env (Re.rep (.cls c) n) w ↔ w.length = n ∧ ∀ a ∈ w, c.mem env a = true := by
  induction n generalizing w with
  | zero =>
    simp only [Re.rep, matches_eps]
    constructor
    · rintro rfl; simp
    · rintro ⟨h, _⟩; exact List.eq_nil_of_length_eq_zero h
  | succ n ih =>
    simp only [Re.rep, matches_cat]
    constructor
    · rintro ⟨u, v, h1, h2, rfl⟩
      obtain ⟨a, rfl, ha⟩ := matches_cls.1 h1
      obtain ⟨hl, hv⟩ := ih.1 h2
      refine ⟨by simp [hl], ?_⟩
      intro b hb
      rcases List.mem_cons.1 hb with rfl | hb
      · exact ha
      · exact hv b hb
    · rintro ⟨hl, h⟩
      cases w with
      | nil => simp at hl
      | cons a w =>
        exact ⟨[a], w, matches_cls.2 ⟨a, rfl, h a (by simp)⟩,
          ih.2 ⟨by simpa using hl, fun b hb => h b (by simp [hb])⟩, rfl⟩

theorem m_optN_cls {c : Cls} {k : Nat} {w : List Sym} :
    Matches env (Re.optN (.cls c) k) w ↔ w.length ≤ k ∧ ∀ a ∈ w, c.mem env a = true := by
  induction k generalizing w with
  | zero =>
    simp only [Re.optN, matches_eps]
    constructor
    · rintro rfl; simp
    · rintro ⟨h, _⟩; exact List.eq_nil_of_length_eq_zero (Nat.le_zero.1 h)
  | succ k ih =>
    simp only [Re.optN, matches_opt, matches_cat]
    constructor
    · rintro (⟨u, v, h1, h2, rfl⟩ | rfl)
      · obtain ⟨a, rfl, ha⟩ := matches_cls.1 h1
        obtain ⟨hl, hv⟩ := ih.1 h2
        refine ⟨by simp; omega, ?_⟩
        intro b hb
        rcases List.mem_cons.1 hb with rfl | hb
        · exact ha
        · exact hv b hb
      · simp
    · rintro ⟨hl, h⟩
      cases w with
      | nil => exact .inr rfl
      | cons a w =>
        exact .inl ⟨[a], w, matches_cls.2 ⟨a, rfl, h a (by simp)⟩,
          ih.2 ⟨by simp at hl; omega, fun b hb => h b (by simp [hb])⟩, rfl⟩

theorem m_repRange_cls {c : Cls} {lo hi : Nat} {w : List Sym} :
    Matches env (Re.repRange (.cls c) lo hi) w ↔
      lo ≤ w.length ∧ w.length ≤ max lo hi ∧ ∀ a ∈ w, c.mem env a = true := by
  unfold Re.repRange
  rw [matches_cat]
  constructor
  · rintro ⟨u, v, h1, h2, rfl⟩
    obtain ⟨hl1, hu⟩ := m_rep_cls.1 h1
    obtain ⟨hl2, hv⟩ := m_optN_cls.1 h2
    refine ⟨by simp; omega, by simp; omega, ?_⟩
    intro b hb
    rcases List.mem_append.1 hb with hb | hb
    · exact hu b hb
    · exact hv b hb
  · rintro ⟨h1, h2, h⟩
    refine ⟨w.take lo, w.drop lo, m_rep_cls.2 ⟨by simp; omega, fun b hb => h b (List.mem_of_mem_take hb)⟩,
      m_optN_cls.2 ⟨by simp; omega, fun b hb => h b (List.mem_of_mem_drop hb)⟩, (List.take_append_drop _ _).symm⟩

/-! ### The pieces of the expected expressions, on arbitrary words -/

theorem m_ch {c : Char} {w : List Sym} : Matches env (Expect.ch c) w ↔ w = [c.toNat] := matches_sym

theorem m_str {x : String} {w : List Sym} : Matches env (Expect.str x) w ↔ w = codes x.toList := matches_lit

theorem m_oneOf {cs : List Char} {w : List Sym} :
    Matches env (Expect.oneOf cs) w ↔ ∃ c ∈ cs, w = [c.toNat] := by
  unfold Expect.oneOf
  rw [matches_cls]
  constructor
  · rintro ⟨a, rfl, h⟩
    obtain ⟨c, hc, rfl⟩ := mem_oneOf.1 h
    exact ⟨c, hc, rfl⟩
  · rintro ⟨c, hc, rfl⟩
    exact ⟨_, rfl, mem_oneOf.2 ⟨c, hc, rfl⟩⟩

theorem m_digit {w : List Sym} : Matches env Expect.digit w ↔ ∃ c, isDigit c = true ∧ w = [c.toNat] := by
  unfold Expect.digit
  rw [matches_cls]
  constructor
  · rintro ⟨a, rfl, h⟩
    obtain ⟨c, hc, rfl⟩ := digit_code (mem_digit.1 h)
    exact ⟨c, hc, rfl⟩
  · rintro ⟨c, hc, rfl⟩
    exact ⟨_, rfl, mem_digit_char.2 hc⟩

theorem forall_digit_iff {w : List Sym} :
    (∀ a ∈ w, Cls.mem env ⟨false, [('0'.toNat, '9'.toNat)], []⟩ a = true) ↔ ∃ ds, ds.all isDigit = true ∧ w = codes ds := by
  constructor
  · intro h
    exact digits_codes (fun a ha => mem_digit.1 (h a ha))
  · rintro ⟨ds, h, rfl⟩ a ha
    exact mem_digit.2 (all_digits_codes h a ha)

theorem m_rep_digit {n : Nat} {w : List Sym} :
    Matches env (Re.rep Expect.digit n) w ↔ ∃ ds, ds.length = n ∧ ds.all isDigit = true ∧ w = codes ds := by
  unfold Expect.digit
  rw [m_rep_cls, forall_digit_iff]
  constructor
  · rintro ⟨hl, ds, h, rfl⟩; exact ⟨ds, by simpa using hl, h, rfl⟩
  · rintro ⟨ds, hl, h, rfl⟩; exact ⟨by simpa using hl, ds, h, rfl⟩

theorem m_plus_digit {w : List Sym} :
    Matches env (Re.plus Expect.digit) w ↔ ∃ ds, ds ≠ [] ∧ ds.all isDigit = true ∧ w = codes ds := by
  unfold Expect.digit
  rw [m_plus_cls, forall_digit_iff]
  constructor
  · rintro ⟨hl, ds, h, rfl⟩; exact ⟨ds, by simpa [codes] using hl, h, rfl⟩
  · rintro ⟨ds, hl, h, rfl⟩; exact ⟨by simpa [codes] using hl, ds, h, rfl⟩

theorem m_repRange_digit {lo hi : Nat} {w : List Sym} :
    Matches env (Re.repRange Expect.digit lo hi) w ↔
      ∃ ds, lo ≤ ds.length ∧ ds.length ≤ max lo hi ∧ ds.all isDigit = true ∧ w = codes ds := by
  unfold Expect.digit
  rw [m_repRange_cls, forall_digit_iff]
  constructor
  · rintro ⟨h1, h2, ds, h, rfl⟩; exact ⟨ds, by simpa using h1, by simpa using h2, h, rfl⟩
  · rintro ⟨ds, h1, h2, h, rfl⟩; exact ⟨by simpa using h1, by simpa using h2, ds, h, rfl⟩

/-! ### Group brackets of marked words -/

/-- a captured piece: the word between the two markers of group `i` -/
def grp (i : Nat) (w : List Nat) : List Nat := openSym i :: (w ++ [closeSym i])

theorem m_grp {i : Nat} {r : Re} {w : List Sym} :
    Matches env (.cat (sym (openSym i)) (.cat r (sym (closeSym i)))) w ↔ ∃ v, Matches env r v ∧ w = grp i v := by
  simp only [matches_cat, matches_sym]
  constructor
  · rintro ⟨_, _, rfl, ⟨v, _, hv, rfl, rfl⟩, rfl⟩
    exact ⟨v, hv, rfl⟩
  · rintro ⟨v, hv, rfl⟩
    exact ⟨_, _, rfl, ⟨v, _, hv, rfl, rfl⟩, rfl⟩

/-- the marked form of a capture group -/
def G (i : Nat) (r : Re) : Re := .cat (sym (openSym i)) (.cat r (sym (closeSym i)))

theorem mark_group (i : Nat) (r : Re) : mark (.group i r) = G i (mark r) := rfl

theorem m_G {i : Nat} {r : Re} {w : List Sym} : Matches env (G i r) w ↔ ∃ v, Matches env r v ∧ w = grp i v := m_grp

theorem openSym_ge (i : Nat) : maxRune ≤ openSym i := by unfold openSym; omega
theorem closeSym_ge (i : Nat) : maxRune ≤ closeSym i := by unfold closeSym; omega

theorem erase_cons_ge {a : Nat} {w : List Nat} (h : maxRune ≤ a) : erase (a :: w) = erase w := by
  unfold erase
  rw [List.filter_cons_of_neg]
  simpa using h

theorem erase_cons_lt {a : Nat} {w : List Nat} (h : a < maxRune) : erase (a :: w) = a :: erase w := by
  unfold erase
  rw [List.filter_cons_of_pos]
  simpa using h

theorem erase_grp (i : Nat) (w : List Nat) : erase (grp i w) = erase w := by
  unfold grp
  rw [erase_cons_ge (openSym_ge i), erase_append, erase_cons_ge (closeSym_ge i), erase_nil, List.append_nil]

/-! ### Matching on `codes s` -/

theorem m_cat_codes {a b : Re} {s : List Char} :
    Matches env (.cat a b) (codes s) ↔ ∃ s1 s2, s = s1 ++ s2 ∧ Matches env a (codes s1) ∧ Matches env b (codes s2) := by
  rw [matches_cat]
  constructor
  · rintro ⟨u, v, h1, h2, e⟩
    obtain ⟨s1, s2, rfl, rfl, rfl⟩ := codes_eq_append.1 e
    exact ⟨s1, s2, rfl, h1, h2⟩
  · rintro ⟨s1, s2, rfl, h1, h2⟩
    exact ⟨_, _, h1, h2, codes_append _ _⟩

theorem m_eps_codes {s : List Char} : Matches env .eps (codes s) ↔ s = [] := by
  rw [matches_eps, codes_eq_nil]

theorem m_opt_codes {a : Re} {s : List Char} : Matches env (Re.opt a) (codes s) ↔ Matches env a (codes s) ∨ s = [] := by
  rw [matches_opt, codes_eq_nil]

theorem m_cls_codes {c : Cls} {s : List Char} :
    Matches env (.cls c) (codes s) ↔ ∃ x, s = [x] ∧ c.mem env x.toNat = true := by
  rw [matches_cls]
  constructor
  · rintro ⟨a, e, h⟩
    obtain ⟨x, t, rfl, rfl, e2⟩ := codes_eq_cons.1 e
    rw [codes_eq_nil.1 e2]
    exact ⟨x, rfl, h⟩
  · rintro ⟨x, rfl, h⟩; exact ⟨_, rfl, h⟩

theorem m_ch_codes {c : Char} {s : List Char} : Matches env (Expect.ch c) (codes s) ↔ s = [c] := by
  rw [m_ch, show [c.toNat] = codes [c] from rfl, codes_inj]

theorem m_str_codes {x : String} {s : List Char} : Matches env (Expect.str x) (codes s) ↔ s = x.toList := by
  rw [m_str, codes_inj]

theorem m_oneOf_codes {cs : List Char} {s : List Char} : Matches env (Expect.oneOf cs) (codes s) ↔ ∃ c ∈ cs, s = [c] := by
  rw [m_oneOf]
  constructor
  · rintro ⟨c, hc, e⟩; exact ⟨c, hc, codes_inj.1 e⟩
  · rintro ⟨c, hc, rfl⟩; exact ⟨c, hc, rfl⟩

theorem m_digit_codes {s : List Char} : Matches env Expect.digit (codes s) ↔ ∃ c, isDigit c = true ∧ s = [c] := by
  rw [m_digit]
  constructor
  · rintro ⟨c, hc, e⟩; exact ⟨c, hc, codes_inj.1 e⟩
  · rintro ⟨c, hc, rfl⟩; exact ⟨c, hc, rfl⟩

theorem m_rep_digit_codes {n : Nat} {s : List Char} :
    Matches env (Re.rep Expect.digit n) (codes s) ↔ s.length = n ∧ s.all isDigit = true := by
  rw [m_rep_digit]
  constructor
  · rintro ⟨ds, h1, h2, e⟩; rw [codes_inj.1 e]; exact ⟨h1, h2⟩
  · rintro ⟨h1, h2⟩; exact ⟨s, h1, h2, rfl⟩

theorem m_plus_digit_codes {s : List Char} :
    Matches env (Re.plus Expect.digit) (codes s) ↔ s ≠ [] ∧ s.all isDigit = true := by
  rw [m_plus_digit]
  constructor
  · rintro ⟨ds, h1, h2, e⟩; rw [codes_inj.1 e]; exact ⟨h1, h2⟩
  · rintro ⟨h1, h2⟩; exact ⟨s, h1, h2, rfl⟩

theorem m_repRange_digit_codes {lo hi : Nat} {s : List Char} :
    Matches env (Re.repRange Expect.digit lo hi) (codes s) ↔ lo ≤ s.length ∧ s.length ≤ max lo hi ∧ s.all isDigit = true := by
  rw [m_repRange_digit]
  constructor
  · rintro ⟨ds, h1, h2, h3, e⟩; rw [codes_inj.1 e]; exact ⟨h1, h2, h3⟩
  · rintro ⟨h1, h2, h3⟩; exact ⟨s, h1, h2, h3, rfl⟩

theorem m_star_cls_codes {c : Cls} {s : List Char} :
    Matches env (.star (.cls c)) (codes s) ↔ ∀ x ∈ s, c.mem env x.toNat = true := by
  rw [m_star_cls, forall_codes]

theorem m_plus_cls_codes {c : Cls} {s : List Char} :
    Matches env (Re.plus (.cls c)) (codes s) ↔ s ≠ [] ∧ ∀ x ∈ s, c.mem env x.toNat = true := by
  rw [m_plus_cls, forall_codes, Ne, codes_eq_nil]

/-! ### Lists of a given length -/

theorem len1 {α} (l : List α) (h : l.length = 1) : ∃ a, l = [a] := by
  match l, h with
  | [a], _ => exact ⟨a, rfl⟩

theorem len2 {α} (l : List α) (h : l.length = 2) : ∃ a b, l = [a, b] := by
  match l, h with
  | [a, b], _ => exact ⟨a, b, rfl⟩

theorem len4 {α} (l : List α) (h : l.length = 4) : ∃ a b c d, l = [a, b, c, d] := by
  match l, h with
  | [a, b, c, d], _ => exact ⟨a, b, c, d, rfl⟩

end RxM
end KlogV
