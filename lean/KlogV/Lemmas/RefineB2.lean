/-
Helper lemmas for C04b, part 2: the definitions used in the statements of Props/C04b.lean, what a
successful `reconcileFile` consists of, the summary the flags select, the previous record, and
bytes of ASCII text.
-/
import KlogV.Lemmas.RefineB1
namespace KlogV

/-! ## definitions used in the statements of C04b -/

/-- summary lines as typed: clean, and lines after the first are not blank-only -/
def CleanSummary (ls : List Bytes) : Prop :=
  (∀ l ∈ ls, CleanLine l) ∧ ∀ l ∈ ls.drop 1, okEntrySummaryCont (decodeGo l) = true

/-- the record `--resume`/`--resume-nth` look at: the target record, or the fresh record about to
be created -/
def currentRecord (rs : List Record) (d : Date) (cfgShould : Option Int) : Record :=
  match Spec.targetIdx rs d with
  | some i => (rs[i]?).getD ⟨d, cfgShould, [], []⟩
  | none => ⟨d, cfgShould, [], []⟩

/-- the record `stop` acts on and the time relative to it: the record for the date; or — only when
neither a date nor a time was given and there is no record for the date — the record of the day
before, with the time shifted by 24 hours -/
def StopTarget (rs : List Record) (a : AtArgs) (d : Date) (t : Time) (i : Nat) (t' : Time) : Prop :=
  (Spec.targetIdx rs d = some i ∧ t' = t) ∨
  (Spec.targetIdx rs d = none ∧ a.date.isExplicit = false ∧ a.time = none ∧
    ∃ y, d.plusDays (-1) = some y ∧ Spec.targetIdx rs y = some i ∧ t.plus 1440 = some t')

/-- the record `pause` acts on: today's, else yesterday's -/
def PauseTarget (rs : List Record) (today : Date) (i : Nat) : Prop :=
  Spec.targetIdx rs today = some i ∨
  (Spec.targetIdx rs today = none ∧ ∃ y, today.plusDays (-1) = some y ∧ Spec.targetIdx rs y = some i)

namespace RefineBLemmas
open KlogV.RefineLemmas KlogV.EditLemmas

/-! ## `reconcileFile` -/

theorem reconcileFile_inv (file : Bytes) (creators : List Record → List BlockOut → Option Reconciler)
    (steps : List (Reconciler → Res Reconciler)) (rs : List Record) (bos : List BlockOut) (f' : Bytes)
    (hp : parseDoc file = .records rs bos) (h : (reconcileFile file creators steps).1 = .ok f') :
    ∃ r0 r1 rs' bos', creators rs bos = some r0 ∧
      steps.foldl (fun (acc : Res Reconciler) st => acc.bind st) (Res.ok r0) = .ok r1 ∧
      f' = joinLines r1.lines ∧ parseDoc f' = .records rs' bos' := by
  unfold reconcileFile at h
  rw [hp] at h
  dsimp only at h
  split at h
  · cases h
  · rename_i r0 hc
    split at h
    · cases h
    · cases h
    · rename_i r1 hf
      cases hm : r1.makeResult with
      | err => rw [hm] at h; cases h
      | panic => rw [hm] at h; cases h
      | ok p =>
        obtain ⟨text, rec⟩ := p
        rw [hm] at h
        simp only [CmdOut.ok.injEq] at h
        subst h
        obtain ⟨rs', bos', hp'⟩ := SafeLemmas.makeResult_ok_valid r1 text rec hm
        exact ⟨r0, r1, rs', bos', hc, hf, makeResult_text r1 text rec hm, hp'⟩

theorem reconcileFile_not_ok (file : Bytes) (creators : List Record → List BlockOut → Option Reconciler)
    (steps : List (Reconciler → Res Reconciler)) (rs : List Record) (bos : List BlockOut)
    (hp : parseDoc file = .records rs bos)
    (hno : ∀ r0, creators rs bos = some r0 →
      ∀ r1, steps.foldl (fun (acc : Res Reconciler) st => acc.bind st) (Res.ok r0) ≠ .ok r1) :
    ∀ f', (reconcileFile file creators steps).1 ≠ .ok f' := by
  intro f' h
  obtain ⟨r0, r1, _, _, hc, hf, _, _⟩ := reconcileFile_inv file creators steps rs bos f' hp h
  exact hno r0 hc r1 hf

/-! ## the summary the flags select -/

theorem findNth_last (r : Record) : findNthEntry r (-1) = r.entries.getLast? := by
  unfold findNthEntry
  have h0 : ¬ ((-1 : Int) > 0) := by decide
  simp only [h0, if_false]
  cases h : r.entries with
  | nil => simp
  | cons x xs =>
    have hlen : ((x :: xs).length : Int) = (xs.length : Int) + 1 := by simp
    have hi : ¬ ((((x :: xs).length : Int) + -1 < 0) ∨ (((x :: xs).length : Int) + -1 > ((x :: xs).length : Int) - 1)) := by
      omega
    simp only [Bool.or_eq_true, decide_eq_true_eq, hi, if_false]
    have : (((x :: xs).length : Int) + -1).toNat = (x :: xs).length - 1 := by
      rw [hlen]; simp; omega
    rw [this, List.getLast?_eq_getElem?]

theorem summaryBytes_decode (e : Entry) : (summaryBytes e).map decodeGo = e.summary := by
  unfold summaryBytes bytesOfChars
  rw [List.map_map]
  have : (decodeGo ∘ encode) = id := by funext cs; exact decodeGo_encode cs
  rw [this, List.map_id]

/-- the summary the model selects is the one of the abstract semantics -/
theorem summaryOf_chosen (s : SummaryArgs) (cur : Record) (prev : Option Record) :
    (summaryOf s cur prev).map (fun sm => sm.map decodeGo) =
      Spec.chosenSummary (s.text.map (fun t => t.map decodeGo)) s.resume s.resumeNth cur prev := by
  unfold summaryOf Spec.chosenSummary
  simp only [Option.isSome_map]
  split
  · rfl
  · split
    · rfl
    · cases ht : s.text with
      | some t => rfl
      | none =>
        dsimp only [Option.map_none]
        split
        · rw [findNth_last]
          cases hl : cur.entries.getLast? with
          | some e => simp [summaryBytes_decode]
          | none =>
            dsimp only
            cases prev with
            | none => rfl
            | some p =>
              simp only [Option.bind_some]
              rw [findNth_last]
              cases p.entries.getLast? with
              | some e => simp [summaryBytes_decode]
              | none => rfl
        · split
          · unfold findNthEntry
            dsimp only
            generalize (if s.resumeNth > 0 then s.resumeNth - 1 else (cur.entries.length : Int) + s.resumeNth) = i
            split
            · rfl
            · simp [Option.map_map, Function.comp_def, summaryBytes_decode]
          · rfl

/-! ## the previous record -/

theorem sameDay_of_dateLe (a b : Date) (h : Spec.dateLe b a = true) : a.sameDay b = Spec.dateLe a b := by
  rw [Bool.eq_iff_iff, dateLe_iff]
  rw [dateLe_iff] at h
  simp only [Date.sameDay, Bool.and_eq_true, beq_iff_eq]
  omega

theorem previousRecord_eq (d : Date) (rs : List Record) : previousRecord d rs = Spec.previousOf rs d := by
  unfold previousRecord Spec.previousOf
  dsimp only
  have hf : (fun (r : Record) => !r.date.afterOrEqual d) = (fun r => !Spec.dateLe d r.date) := by
    funext r; rw [afterOrEqual_eq_dateLe]
  rw [hf]
  congr 1
  funext best r
  cases best with
  | none => rfl
  | some b =>
    dsimp only
    rw [afterOrEqual_eq_dateLe]
    cases hle : Spec.dateLe b.date r.date with
    | false => rfl
    | true => rw [sameDay_of_dateLe r.date b.date hle]

/-! ## ASCII -/

theorem ofNat_toNat (c : Char) : Char.ofNat c.toNat = c := by
  apply char_eq_of_toNat
  have hv := char_valid c
  unfold Char.ofNat
  split
  · rfl
  · rename_i h
    exfalso
    apply h
    rcases hv with h1 | ⟨h1, h2⟩
    · left; exact h1
    · right; exact ⟨h1, h2⟩

theorem encodeChar_ascii (c : Char) (h : c.toNat < 0x80) : encodeChar c = [c.toNat.toUInt8] := by
  unfold encodeChar
  simp [h]

theorem encode_ascii (cs : List Char) (h : ∀ c ∈ cs, c.toNat < 0x80) :
    (∀ b ∈ encode cs, b.toNat < 0x80) ∧ asciiChars (encode cs) = cs := by
  induction cs with
  | nil => exact ⟨by simp [encode_nil], rfl⟩
  | cons c cs ih =>
    obtain ⟨i1, i2⟩ := ih (fun x hx => h x (by simp [hx]))
    have hc := h c (by simp)
    rw [encode_cons, encodeChar_ascii c hc]
    have hb : c.toNat.toUInt8.toNat = c.toNat := u8 _ (by omega)
    constructor
    · intro b hb'
      simp only [List.cons_append, List.nil_append, List.mem_cons] at hb'
      rcases hb' with rfl | hb'
      · rw [hb]; exact hc
      · exact i1 b hb'
    · simp only [asciiChars, List.cons_append, List.nil_append, List.map_cons, hb, ofNat_toNat]
      congr 1

/-- decoding text that starts with the bytes of ASCII characters -/
theorem decodeGo_encode_ascii (cs : List Char) (h : ∀ c ∈ cs, c.toNat < 0x80) (rest : Bytes) :
    decodeGo (encode cs ++ rest) = cs ++ decodeGo rest := by
  obtain ⟨h1, h2⟩ := encode_ascii cs h
  rw [decodeGo_append_ascii _ h1, h2]

theorem timeChar_ascii (c : Char) (h : timeChar c = true) : c.toNat < 0x80 := by
  unfold timeChar at h
  simp only [Bool.or_eq_true, beq_iff_eq] at h
  rcases h with (((((h | h) | h) | h) | h) | h) | h
  · have := (isDigit_iff c).mp h; omega
  all_goals (subst h; decide)

theorem durChar_ascii (c : Char) (h : durChar c = true) : c.toNat < 0x80 := by
  unfold durChar at h
  simp only [Bool.or_eq_true, beq_iff_eq] at h
  rcases h with (((h | h) | h) | h) | h
  · have := (isDigit_iff c).mp h; omega
  all_goals (subst h; decide)

theorem entryVal_print_ascii (v : EntryVal) : ∀ c ∈ v.print, c.toNat < 0x80 ∧ c ≠ '\n' ∧ c ≠ '\r' ∧ c ≠ '\t' := by
  intro c hc
  have hsp : ∀ (b : Bool), ∀ c ∈ (if b then [' '] else []), c = ' ' := by
    intro b c hc
    cases b <;> simp at hc
    exact hc
  have ht : ∀ c, timeChar c = true → c.toNat < 0x80 ∧ c ≠ '\n' ∧ c ≠ '\r' ∧ c ≠ '\t' := by
    intro c h
    refine ⟨timeChar_ascii c h, ?_, ?_, ?_⟩ <;> (intro e; subst e; exact absurd h (by decide))
  have hd : ∀ c, durChar c = true → c.toNat < 0x80 ∧ c ≠ '\n' ∧ c ≠ '\r' ∧ c ≠ '\t' := by
    intro c h
    refine ⟨durChar_ascii c h, ?_, ?_, ?_⟩ <;> (intro e; subst e; exact absurd h (by decide))
  cases v with
  | range s t spaced =>
    simp only [EntryVal.print, List.mem_append, List.mem_singleton] at hc
    rcases hc with (((h | h) | h) | h) | h
    · exact ht c (Time.print_all s c h)
    · rw [hsp _ c h]; decide
    · subst h; decide
    · rw [hsp _ c h]; decide
    · exact ht c (Time.print_all t c h)
  | dur d => exact hd c (Dur.print_all d c hc)
  | openRange s spaced n =>
    simp only [EntryVal.print, List.mem_append, List.mem_singleton] at hc
    rcases hc with (((h | h) | h) | h) | h
    · exact ht c (Time.print_all s c h)
    · rw [hsp _ c h]; decide
    · subst h; decide
    · rw [hsp _ c h]; decide
    · rw [List.eq_of_mem_replicate h]; decide

/-- bytes of ASCII characters other than LF / CR: a clean line when something clean follows -/
theorem cleanLine_encode_append (cs : List Char) (h : ∀ c ∈ cs, c ≠ '\n' ∧ c ≠ '\r') (tl : Bytes)
    (ht : CleanLine tl) : CleanLine (encode cs ++ tl) := by
  obtain ⟨t1, t2⟩ := ht
  constructor
  · intro hm
    rcases List.mem_append.mp hm with hm | hm
    · exact (h _ (LF_mem_encode cs hm)).1 rfl
    · exact t1 hm
  · by_cases hn : tl = []
    · subst hn
      rw [List.append_nil]
      intro hl
      have := encode_getLast_CR cs hl
      exact (h _ (List.mem_of_getLast? this)).2 rfl
    · rw [getLast?_append_of_ne_nil _ _ hn]; exact t2

theorem cleanLine_cons_sp (tl : Bytes) (ht : CleanLine tl) : CleanLine (SP :: tl) := by
  obtain ⟨t1, t2⟩ := ht
  constructor
  · intro hm
    rcases List.mem_cons.mp hm with hm | hm
    · exact absurd hm (by decide)
    · exact t1 hm
  · cases tl with
    | nil => simp [SP]
    | cons b tl => rw [List.getLast?_cons_cons]; exact t2

end RefineBLemmas
end KlogV
