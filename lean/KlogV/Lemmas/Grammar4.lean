/- C01 lemmas, part 4: headline, record summary, indentation. -/
import KlogV.Lemmas.Grammar3
namespace KlogV.GrammarLemmas
open KlogV

theorem blank_iff (c : Char) : Spec.Blank c ↔ isSpTab c = true := (isSpTab_iff c).symm

theorem dropWhile_blanks (b : List Char) (c : Char) (r : List Char) (hb : ∀ x ∈ b, Spec.Blank x)
    (hc : isSpTab c = false) : (b ++ c :: r).dropWhile isSpTab = c :: r :=
  (takeWhile_stop isSpTab b c r (fun x hx => (blank_iff x).mp (hb x hx)) hc).2

theorem dropWhile_all_blank (b : List Char) (hb : ∀ x ∈ b, Spec.Blank x) : b.dropWhile isSpTab = [] :=
  (takeWhile_end isSpTab b (fun x hx => (blank_iff x).mp (hb x hx))).2

theorem blanks_split (r : List Char) :
    ∃ b, (∀ x ∈ b, Spec.Blank x) ∧ r = b ++ r.dropWhile isSpTab := by
  refine ⟨r.takeWhile isSpTab, ?_, (List.takeWhile_append_dropWhile).symm⟩
  intro c hc
  exact (blank_iff c).mpr ((List.all_eq_true.mp (List.all_takeWhile (p := isSpTab) (l := r))) c hc)

theorem tailOK_blanks (b : List Char) (hb : ∀ x ∈ b, Spec.Blank x) : TailOK b := by
  cases b with
  | nil => left; rfl
  | cons c r => right; exact ⟨c, r, rfl, (blank_iff c).mp (hb c (by simp))⟩

/-! ## headline: completeness -/

theorem parseHeadline_date' (nr : Nat) (s : List Char) (d : Date) (hd : Date.parse s = some d) (sfx : List Char)
    (hs : TailOK sfx) :
    parseHeadline nr (s ++ sfx) = phRest nr (s ++ sfx).length d (sfx.dropWhile isSpTab) := by
  obtain ⟨hall, c, r, e⟩ := parse_date_chars hd
  have hpeek : peekUntil isSpTab (s ++ sfx) = s := peekUntil_run _ _ _ hall hs
  have h0 : isSpTab c = false := hall c (by rw [e]; simp)
  rw [parseHeadline_eq]
  split
  · rename_i heq; rw [e] at heq; simp at heq
  · rename_i c0 tail heq
    have hc0 : c0 = c := by
      rw [e] at heq; simp only [List.cons_append, List.cons.injEq] at heq; exact heq.1.symm
    simp only [hc0, h0, Bool.false_eq_true, if_false, hpeek, hd, List.drop_left]

theorem phRest_blank (nr : Nat) (total : Int) (x : Date) (trail : List Char) (ht : ∀ c ∈ trail, Spec.Blank c)
    (hne : ∀ r, trail ≠ '(' :: r) :
    phRest nr total x trail = .ok (some ⟨x, none⟩, []) := by
  unfold phRest
  split
  · rename_i r1; exact absurd rfl (hne r1)
  · simp [dropWhile_all_blank trail ht]

theorem ne_of_not_durChar {ds : List Char} (hch : ∀ c ∈ ds, isDurChar c) (q : Char) (hq : ¬ isDurChar q) :
    ∀ y ∈ ds, (y == q) = false := by
  intro y hy
  cases h : (y == q) with
  | false => rfl
  | true => rw [beq_iff_eq] at h; subst h; exact absurd (hch y hy) hq

theorem phRest_should' (nr : Nat) (total : Int) (x : Date) (d : Dur) (ds b2 b3 trail : List Char)
    (hd : Dur.parse ds = .ok d) (h2 : ∀ c ∈ b2, Spec.Blank c) (h3 : ∀ c ∈ b3, Spec.Blank c)
    (ht : ∀ c ∈ trail, Spec.Blank c) :
    phRest nr total x ('(' :: (b2 ++ ds ++ ['!'] ++ b3 ++ [')'] ++ trail)) = .ok (some ⟨x, some d.mins⟩, []) := by
  obtain ⟨hch, c, r, e⟩ := parse_dur_ok_chars hd
  have hc : isSpTab c = false := isDurChar_not_spTab (hch c (by rw [e]; simp))
  have hr2 : (b2 ++ ds ++ ['!'] ++ b3 ++ [')'] ++ trail).dropWhile isSpTab = ds ++ '!' :: (b3 ++ ')' :: trail) := by
    have := dropWhile_blanks b2 c (r ++ '!' :: (b3 ++ ')' :: trail)) h2 hc
    rw [e]
    simpa using this
  have hall : peekUntil (· == ')') (ds ++ '!' :: (b3 ++ ')' :: trail)) = ds ++ '!' :: b3 := by
    have := peekUntil_run (· == ')') (ds ++ '!' :: b3) (')' :: trail) (by
      intro y hy
      simp only [List.mem_append, List.mem_cons] at hy
      rcases hy with hy | rfl | hy
      · exact ne_of_not_durChar hch ')' (by unfold isDurChar; decide) y hy
      · decide
      · rcases h3 y hy with rfl | rfl <;> decide) (Or.inr ⟨')', trail, rfl, by decide⟩)
    simpa using this
  have hsh : peekUntil (· == '!') (ds ++ '!' :: (b3 ++ ')' :: trail)) = ds :=
    peekUntil_run (· == '!') ds _ (ne_of_not_durChar hch '!' (by unfold isDurChar; decide))
      (Or.inr ⟨'!', _, rfl, by decide⟩)
  have l1 : ((ds ++ '!' :: b3).length == (ds ++ '!' :: (b3 ++ ')' :: trail)).length) = false := by
    simp
  have l2 : ((ds ++ '!' :: b3).length == 0) = false := by simp
  have l3 : (ds.length == (ds ++ '!' :: (b3 ++ ')' :: trail)).length) = false := by simp
  have hr3 : (b3 ++ ')' :: trail).dropWhile isSpTab = ')' :: trail := dropWhile_blanks b3 ')' trail h3 (by decide)
  unfold phRest
  simp only [hr2, hall, hsh, l1, l2, l3, Bool.false_eq_true, if_false, hd, List.drop_left, List.drop_succ_cons,
    List.drop_zero, hr3, dropWhile_all_blank trail ht]
  simp

theorem headline_parse {hl : List Char} {d : Date} {should : Option Int} (h : Spec.Headline hl d should)
    (hn : ¬ HasLongDigitRun hl) (nr : Nat) : parseHeadline nr hl = .ok (some ⟨d, should⟩, []) := by
  cases h with
  | plain s trail d hd ht =>
    rw [parseHeadline_date' nr s d (dateLit_parse hd) trail (tailOK_blanks trail ht),
      dropWhile_all_blank trail ht]
    exact phRest_nil _ _ _
  | should s b1 b2 b3 trail ds d dur hd hdur h1 h2 =>
    have hform : s ++ b1 ++ ['('] ++ b2 ++ ds ++ ['!'] ++ b3 ++ [')'] ++ trail =
        s ++ (b1 ++ '(' :: (b2 ++ ds ++ ['!'] ++ b3 ++ [')'] ++ trail)) := by simp
    have hn' : ¬ HasLongDigitRun ds := by
      apply noLong_of_infix _ hn
      exact ⟨s ++ b1 ++ ['('] ++ b2, ['!'] ++ b3 ++ [')'] ++ trail, by simp⟩
    have hx : TailOK (b1 ++ '(' :: (b2 ++ ds ++ ['!'] ++ b3 ++ [')'] ++ trail)) := by
      cases hb1 : b1 with
      | nil => exact absurd hb1 h1.1
      | cons c r => right; exact ⟨c, _, rfl, (blank_iff c).mp (h1.2 c (by rw [hb1]; simp))⟩
    rw [hform, parseHeadline_date' nr s d (dateLit_parse hd) _ hx, dropWhile_blanks b1 '(' _ h1.2 (by decide)]
    exact phRest_should' _ _ _ dur ds b2 b3 trail (durLit_parse hdur hn') h2.1 h2.2.1 h2.2.2

/-! ## headline: soundness -/

theorem peek_bang (r2 : List Char) (h : ¬ (peekUntil (· == '!') r2).length = r2.length) :
    ∃ y, r2 = peekUntil (· == '!') r2 ++ '!' :: y ∧
      ((r2.drop (peekUntil (· == '!') r2).length).drop 1) = y := by
  obtain ⟨k1, _, k3⟩ := peek_split (· == '!') r2
  rcases k3 with k3 | ⟨c, y, k3, hc⟩
  · exfalso; apply h
    rw [k3, List.append_nil] at k1
    rw [← k1]
  · rw [beq_iff_eq] at hc
    subst hc
    refine ⟨y, by rw [← k3]; exact k1, by rw [k3]; rfl⟩

theorem finish_nil {r : List Char} (h : ¬ (r.dropWhile isSpTab).length > 0) : ∀ c ∈ r, Spec.Blank c := by
  have : r.dropWhile isSpTab = [] := by
    cases hh : r.dropWhile isSpTab with
    | nil => rfl
    | cons a b => rw [hh] at h; simp at h
  intro c hc
  have e := List.takeWhile_append_dropWhile (p := isSpTab) (l := r)
  rw [this, List.append_nil] at e
  rw [← e] at hc
  exact (blank_iff c).mpr ((List.all_eq_true.mp (List.all_takeWhile (p := isSpTab) (l := r))) c hc)

theorem phRest_sound {nr : Nat} {total : Int} {date : Date} {rest : List Char} {h : Head}
    (hp : phRest nr total date rest = .ok (some h, [])) :
    (h = ⟨date, none⟩ ∧ (∀ c ∈ rest, Spec.Blank c)) ∨
    (∃ b2 ds b3 trail dur, rest = '(' :: (b2 ++ ds ++ ['!'] ++ b3 ++ [')'] ++ trail) ∧
      (∀ c ∈ b2, Spec.Blank c) ∧ (∀ c ∈ b3, Spec.Blank c) ∧ (∀ c ∈ trail, Spec.Blank c) ∧
      Spec.DurLit ds dur ∧ h = ⟨date, some dur.mins⟩) := by
  unfold phRest at hp
  dsimp only at hp
  split at hp
  · rename_i r1
    right
    obtain ⟨b2, hb2, e2⟩ := blanks_split r1
    generalize r1.dropWhile isSpTab = r2 at *
    split at hp
    · cases hp
    · split at hp
      · cases hp
      · split at hp
        · cases hp
        · rename_i hB
          simp only [beq_iff_eq] at hB
          obtain ⟨y, e3, e4⟩ := peek_bang r2 hB
          generalize peekUntil (fun x => x == '!') r2 = st at *
          split at hp
          · cases hp
          · cases hp
          · rename_i d hd
            rw [e4] at hp
            obtain ⟨b3, hb3, e5⟩ := blanks_split y
            generalize y.dropWhile isSpTab = r3 at *
            split at hp
            · rename_i r4
              split at hp
              · cases hp
              · rename_i hfin
                simp only [Res.ok.injEq, Prod.mk.injEq, Option.some.injEq, and_true] at hp
                refine ⟨b2, _, b3, r4, d, ?_, hb2, hb3, finish_nil hfin, parse_durLit hd, hp.symm⟩
                rw [e2, e3, e5]; simp
            · cases hp
  · left
    split at hp
    · cases hp
    · rename_i hfin
      simp only [Res.ok.injEq, Prod.mk.injEq, Option.some.injEq, and_true] at hp
      exact ⟨hp.symm, finish_nil hfin⟩

theorem parseHeadline_sound {nr : Nat} {hl : List Char} {h : Head}
    (hp : parseHeadline nr hl = .ok (some h, [])) : Spec.Headline hl h.date h.should := by
  rw [parseHeadline_eq] at hp
  split at hp
  · simp at hp
  · rename_i c0 tl
    generalize c0 :: tl = hl at *
    split at hp
    · simp at hp
    · split at hp
      · simp at hp
      · rename_i date hd
        obtain ⟨k1, _, k3⟩ := peek_split isSpTab hl
        obtain ⟨b1, hb1, e1⟩ := blanks_split (hl.drop (peekUntil isSpTab hl).length)
        have hdl := parse_dateLit hd
        rcases phRest_sound hp with ⟨rfl, hblank⟩ | ⟨b2, ds, b3, trail, dur, e, h2, h3, ht, hdur, rfl⟩
        · have := Spec.Headline.plain (peekUntil isSpTab hl) (hl.drop (peekUntil isSpTab hl).length) date hdl (by
            intro c hc
            rw [e1] at hc
            rcases List.mem_append.mp hc with hc | hc
            · exact hb1 c hc
            · exact hblank c hc)
          rw [← k1] at this
          exact this
        · rw [e] at e1
          have hne : b1 ≠ [] := by
            intro hb
            rw [hb, List.nil_append] at e1
            rcases k3 with k3 | ⟨c, r, k3, hc⟩
            · rw [k3] at e1; cases e1
            · rw [k3] at e1
              simp only [List.cons.injEq] at e1
              rw [e1.1] at hc
              exact absurd hc (by decide)
          have := Spec.Headline.should (peekUntil isSpTab hl) b1 b2 b3 trail ds date dur hdl hdur ⟨hne, hb1⟩ ⟨h2, h3, ht⟩
          have e' : hl = peekUntil isSpTab hl ++ b1 ++ ['('] ++ b2 ++ ds ++ ['!'] ++ b3 ++ [')'] ++ trail := by
            conv => lhs; rw [k1, e1]
            simp
          rw [← e'] at this
          exact this

/-! ## record summary -/

theorem summaryLine_ok {l : List Char} (h : Spec.SummaryLine l) : okRecordSummaryLine l = true := by
  obtain ⟨c, r, rfl, hc⟩ := h
  simp [okRecordSummaryLine, hc]

theorem ok_summaryLine {l : List Char} (h : okRecordSummaryLine l = true) : Spec.SummaryLine l := by
  cases l with
  | nil => simp [okRecordSummaryLine] at h
  | cons c r =>
    simp only [okRecordSummaryLine, Bool.not_eq_true'] at h
    exact ⟨c, r, rfl, h⟩

/-- what the lines after the record summary look like: none, or a first one that is indented -/
def EntriesStart (E : List (List Char)) : Prop :=
  E = [] ∨ ∃ l ls ind, E = l :: ls ∧ indentatorOf l = some ind

theorem summaryGo_complete (sum : List (List Char)) (E : List (List Char))
    (hsum : ∀ l ∈ sum, okRecordSummaryLine l = true) (hE : EntriesStart E) : ∀ nr,
    summaryGo nr (sum ++ E) = (sum, [], nr + sum.length, E) := by
  induction sum with
  | nil =>
    intro nr
    rcases hE with rfl | ⟨l, ls, ind, rfl, hi⟩
    · rfl
    · simp only [List.nil_append, summaryGo, hi]; rfl
  | cons l sum ih =>
    intro nr
    have hl := hsum l (by simp)
    simp only [List.cons_append, summaryGo, indentatorOf_none l hl, hl, if_true,
      ih (fun x hx => hsum x (by simp [hx])) (nr + 1), List.length_cons]
    congr 3
    omega

theorem summaryGo_sound (ls : List (List Char)) : ∀ (nr : Nat) (sum : List (List Char)) (nr' : Nat)
    (rest : List (List Char)), summaryGo nr ls = (sum, [], nr', rest) →
    ls = sum ++ rest ∧ (∀ l ∈ sum, Spec.SummaryLine l) ∧ EntriesStart rest := by
  induction ls with
  | nil =>
    intro nr sum nr' rest h
    simp only [summaryGo, Prod.mk.injEq] at h
    obtain ⟨rfl, _, _, rfl⟩ := h
    exact ⟨rfl, by simp, Or.inl rfl⟩
  | cons l ls ih =>
    intro nr sum nr' rest h
    unfold summaryGo at h
    split at h
    · rename_i ind hi
      simp only [Prod.mk.injEq] at h
      obtain ⟨rfl, _, _, rfl⟩ := h
      exact ⟨rfl, by simp, Or.inr ⟨l, ls, ind, rfl, hi⟩⟩
    · cases hrec : summaryGo (nr + 1) ls with
      | mk sum0 r0 =>
      obtain ⟨errs0, nr0, rest0⟩ := r0
      rw [hrec] at h
      dsimp only at h
      split at h
      · rename_i hok
        simp only [Prod.mk.injEq] at h
        obtain ⟨rfl, rfl, _, rfl⟩ := h
        obtain ⟨i1, i2, i3⟩ := ih _ _ _ _ hrec
        refine ⟨by rw [i1]; rfl, ?_, i3⟩
        intro x hx
        rcases List.mem_cons.mp hx with rfl | hx
        · exact ok_summaryLine hok
        · exact i2 x hx
      · simp only [Prod.mk.injEq] at h
        exact absurd h.2.1 (by simp)

/-! ## indentation -/

theorem indentatorOf_indent' {ind : List Char} (hi : Spec.Indent ind) (c : Char) (r : List Char)
    (hc : isSpTab c = false) : indentatorOf (ind ++ c :: r) = some ind := by
  have h1 : ¬ ' ' = c := by intro e; subst e; exact absurd hc (by decide)
  rcases hi with rfl | rfl | rfl | rfl <;> simp [indentatorOf, indentations, List.isPrefixOf, h1]

theorem indentatorOf_some {l ind : List Char} (h : indentatorOf l = some ind) :
    Spec.Indent ind ∧ ∃ s, l = ind ++ s := by
  unfold indentatorOf at h
  have hm := List.mem_of_find?_eq_some h
  have hp := List.find?_some h
  refine ⟨?_, ?_⟩
  · simp only [indentations, List.mem_cons, List.not_mem_nil, or_false] at hm
    exact hm
  · obtain ⟨s, hs⟩ := List.isPrefixOf_iff_prefix.mp hp
    exact ⟨s, hs.symm⟩

/-- the doubled indentation is not a prefix of an entry line -/
theorem dbl_not_prefix {ind : List Char} (hi : Spec.Indent ind) (c : Char) (r : List Char)
    (hc : isSpTab c = false) : (ind ++ ind).isPrefixOf (ind ++ c :: r) = false := by
  have h1 : ¬ ' ' = c := by intro e; subst e; exact absurd hc (by decide)
  have h2 : ¬ '\t' = c := by intro e; subst e; exact absurd hc (by decide)
  rcases hi with rfl | rfl | rfl | rfl <;> simp [List.isPrefixOf, h1, h2]

theorem indent_ne_nil {ind : List Char} (hi : Spec.Indent ind) : ind ≠ [] := by
  rcases hi with rfl | rfl | rfl | rfl <;> simp

end KlogV.GrammarLemmas
