/- C01 lemmas, part 2: duration literals of the grammar vs. `Dur.parse`. -/
import KlogV.Lemmas.Grammar1
namespace KlogV.GrammarLemmas
open KlogV

theorem short_of_infix {ds s : List Char} (hi : ds <:+: s) (hd : ds.all isDigit = true)
    (hn : ¬ HasLongDigitRun s) : ds.length < 18 := by
  rcases Nat.lt_or_ge ds.length 18 with h | h
  · exact h
  · exact absurd (HasLongDigitRun.of_infix hi ⟨[], ds, [], by simp, h, hd⟩) hn

theorem noLong_of_infix {t s : List Char} (hi : t <:+: s) (hn : ¬ HasLongDigitRun s) : ¬ HasLongDigitRun t :=
  fun h => hn (HasLongDigitRun.of_infix hi h)

theorem hval_ok (hd : List Char) (h : (digitsVal hd : Int) ≤ maxInt) :
    (if hd.isEmpty then Res.ok 0 else atoi hd) = Res.ok (digitsVal hd : Int) := by
  cases hd with
  | nil => rfl
  | cons c cs => simp only [List.isEmpty_cons, Bool.false_eq_true, if_false, atoi, h, if_true]

theorem hval_cases (hd : List Char) :
    (if hd.isEmpty then Res.ok 0 else atoi hd) = Res.ok (digitsVal hd : Int) ∨
      (if hd.isEmpty then Res.ok 0 else atoi hd) = Res.panic := by
  cases hd with
  | nil => left; rfl
  | cons c cs =>
    simp only [List.isEmpty_cons, Bool.false_eq_true, if_false, atoi]
    split
    · left; rfl
    · right; rfl

/-- the sign-on-zero field computed by `Dur.eval` -/
def zsOf (sign : Int) (sg : Bool) (H M : Nat) : Int :=
  if ((H : Int) == 0 && (M : Int) == 0 && sg) then sign else 0

def zs2 (sign : Int) (sg : Bool) (n : Nat) : Int := if (decide (n = 0) && sg) then sign else 0

theorem zsOf_eq (sign : Int) (sg : Bool) (H M : Nat) : zsOf sign sg H M = zs2 sign sg (H * 60 + M) := by
  unfold zsOf zs2
  by_cases h : H * 60 + M = 0
  · have : H = 0 ∧ M = 0 := by omega
    obtain ⟨rfl, rfl⟩ := this
    cases sg <;> rfl
  · have : ((H : Int) == 0 && (M : Int) == 0) = false := by
      by_cases hH : H = 0
      · have hM : ((M : Int) == 0) = false := by
          rw [beq_eq_false_iff_ne]; omega
        rw [hM, Bool.and_false]
      · have hH' : ((H : Int) == 0) = false := by
          rw [beq_eq_false_iff_ne]; omega
        rw [hH', Bool.false_and]
    have h2 : decide (H * 60 + M = 0) = false := decide_eq_false h
    rw [this, h2]

theorem eval_ok (sign : Int) (sg plus : Bool) (hd md : List Char) (hs : sign = 1 ∨ sign = -1)
    (h1 : hd.all isDigit = true) (h2 : md.all isDigit = true) (l1 : hd.length < 18) (l2 : md.length < 18)
    (hm : hd ≠ [] → digitsVal md < 60) :
    Dur.eval sign sg plus hd md =
      .ok ⟨sign * ((digitsVal hd * 60 + digitsVal md : Nat) : Int), plus, zs2 sign sg (digitsVal hd * 60 + digitsVal md)⟩ := by
  have b1 := digitsVal_small hd h1 l1
  have b2 := digitsVal_small md h2 l2
  rw [← zsOf_eq]
  generalize hH : digitsVal hd = H at *
  generalize hM : digitsVal md = M at *
  have e1 : (if hd.isEmpty then Res.ok 0 else atoi hd) = Res.ok (H : Int) := by
    rw [← hH]; apply hval_ok; unfold maxInt; omega
  have e2 : (if md.isEmpty then Res.ok 0 else atoi md) = Res.ok (M : Int) := by
    rw [← hM]; apply hval_ok; unfold maxInt; omega
  unfold Dur.eval
  rw [e1, e2]
  dsimp only
  have c1 : (!hd.isEmpty && decide ((M : Int) ≥ 60)) = false := by
    cases hd with
    | nil => rfl
    | cons c cs =>
      have := hm (by simp)
      have : decide ((M : Int) ≥ 60) = false := decide_eq_false (by omega)
      rw [this, Bool.and_false]
  simp only [c1, Bool.false_eq_true, if_false]
  have r1 : inRange (sign * (H : Int)) = true := by rw [inRange_iff]; rcases hs with rfl | rfl <;> omega
  have r2 : inRange 60 = true := by decide
  have r3 : inRange (sign * (H : Int) * 60) = true := by rw [inRange_iff]; rcases hs with rfl | rfl <;> omega
  have r4 : inRange (sign * (M : Int)) = true := by rw [inRange_iff]; rcases hs with rfl | rfl <;> omega
  have r5 : inRange (sign * (H : Int) * 60 + sign * (M : Int)) = true := by
    rw [inRange_iff]; rcases hs with rfl | rfl <;> omega
  rw [safeMul_eq _ _ r1 r2 r3]
  dsimp only
  rw [safeAdd_eq _ _ r3 r4 r5]
  dsimp only
  have : sign * (H : Int) * 60 + sign * (M : Int) = sign * ((H * 60 + M : Nat) : Int) := by
    rcases hs with rfl | rfl <;> omega
  rw [this]
  rfl

theorem eval_inv {sign : Int} {sg plus : Bool} {hd md : List Char} {d : Dur}
    (e : Dur.eval sign sg plus hd md = .ok d) (hs : sign = 1 ∨ sign = -1) :
    d = ⟨sign * ((digitsVal hd * 60 + digitsVal md : Nat) : Int), plus, zs2 sign sg (digitsVal hd * 60 + digitsVal md)⟩ ∧
      (hd ≠ [] → digitsVal md < 60) := by
  unfold Dur.eval at e
  rcases hval_cases hd with e1 | e1 <;> rcases hval_cases md with e2 | e2 <;> rw [e1, e2] at e <;>
    try (cases e; done)
  dsimp only at e
  split at e
  · cases e
  · rename_i hc
    split at e
    · rename_i hm heq
      obtain ⟨rfl, _⟩ := safeMul_ok _ _ _ heq
      split at e
      · rename_i tot heq2
        obtain ⟨rfl, hr⟩ := safeAdd_ok _ _ _ heq2
        simp only [Res.ok.injEq] at e
        subst e
        refine ⟨?_, ?_⟩
        · rw [← zsOf_eq]
          have : sign * (digitsVal hd : Int) * 60 + sign * (digitsVal md : Int) =
              sign * ((digitsVal hd * 60 + digitsVal md : Nat) : Int) := by
            rcases hs with rfl | rfl <;> omega
          rw [this]
          rfl
        · intro hne
          cases hd with
          | nil => exact absurd rfl hne
          | cons c cs =>
            simp at hc
            omega
      · cases e
    · cases e

theorem shape_inv {s hd md : List Char} (h : Dur.shape s = some (hd, md)) :
    hd.all isDigit = true ∧ md.all isDigit = true ∧
      ((hd = [] ∧ md ≠ [] ∧ s = md ++ ['m']) ∨ (hd ≠ [] ∧ md = [] ∧ s = hd ++ ['h']) ∨
        (hd ≠ [] ∧ md ≠ [] ∧ s = hd ++ ['h'] ++ md ++ ['m'])) := by
  unfold Dur.shape at h
  simp only [] at h
  have e1 := List.takeWhile_append_dropWhile (p := isDigit) (l := s)
  have a1 : (s.takeWhile isDigit).all isDigit = true := List.all_takeWhile
  generalize s.takeWhile isDigit = d1 at *
  generalize s.dropWhile isDigit = r1 at *
  split at h
  · cases h
  · rename_i hne
    simp only [Option.some.injEq, Prod.mk.injEq] at h
    obtain ⟨rfl, rfl⟩ := h
    exact ⟨rfl, a1, Or.inl ⟨rfl, hne, e1.symm⟩⟩
  · rename_i r2 hne
    have hd1 : d1 ≠ [] := hne
    have e2 := List.takeWhile_append_dropWhile (p := isDigit) (l := r2)
    have a2 : (r2.takeWhile isDigit).all isDigit = true := List.all_takeWhile
    generalize r2.takeWhile isDigit = d2 at *
    generalize r2.dropWhile isDigit = r3 at *
    split at h
    · simp only [Option.some.injEq, Prod.mk.injEq] at h
      obtain ⟨rfl, rfl⟩ := h
      subst e2
      exact ⟨a1, rfl, Or.inr (Or.inl ⟨hd1, rfl, by simpa using e1.symm⟩)⟩
    · cases h
    · rename_i hne2
      simp only [Option.some.injEq, Prod.mk.injEq] at h
      obtain ⟨rfl, rfl⟩ := h
      have hd2 : d2 ≠ [] := hne2
      subst e2
      exact ⟨a1, a2, Or.inr (Or.inr ⟨hd1, hd2, by rw [← e1]; simp⟩)⟩
    · cases h
  · cases h

theorem digits_cons {hs : List Char} {h : Nat} (hh : Spec.Digits hs h) :
    ∃ c cs, hs = c :: cs ∧ (c :: cs).all isDigit = true ∧ isDigit c = true := by
  obtain ⟨hne, hd, _⟩ := hh
  cases hs with
  | nil => exact absurd rfl hne
  | cons c cs => exact ⟨c, cs, rfl, all_of_forall hd, hd c (by simp)⟩

/-- `Dur.parseS` on a duration body of the grammar. -/
theorem parseS_body {b : List Char} {n : Nat} (hb : Spec.DurBody b n) (hn : ¬ HasLongDigitRun b)
    (sign : Int) (sg plus : Bool) (hs : sign = 1 ∨ sign = -1) :
    Dur.parseS sign sg plus b = .ok ⟨sign * (n : Int), plus, zs2 sign sg n⟩ ∧
      ∃ c r, b = c :: r ∧ isDigit c = true := by
  have e0 : digitsVal [] = 0 := rfl
  cases hb with
  | hm hs' ms h m hh hm hlt =>
    obtain ⟨c, cs, rfl, hc, hc0⟩ := digits_cons hh
    obtain ⟨c', cs', rfl, hc', _⟩ := digits_cons hm
    have l1 := short_of_infix (s := c :: cs ++ ['h'] ++ (c' :: cs') ++ ['m']) ⟨[], ['h'] ++ (c' :: cs') ++ ['m'], by simp⟩ hc hn
    have l2 := short_of_infix (s := c :: cs ++ ['h'] ++ (c' :: cs') ++ ['m']) ⟨c :: cs ++ ['h'], ['m'], by simp⟩ hc' hn
    have hsh := Dur.shape_hm c cs c' cs' hc hc'
    have e : c :: cs ++ ['h'] ++ (c' :: cs') ++ ['m'] = (c :: cs) ++ 'h' :: ((c' :: cs') ++ ['m']) := by simp
    refine ⟨?_, c, cs ++ ['h'] ++ (c' :: cs') ++ ['m'], by simp, hc0⟩
    rw [e]
    unfold Dur.parseS
    rw [hsh]
    dsimp only
    rw [eval_ok sign sg plus _ _ hs hc hc' l1 l2 (fun _ => by rw [hm.2.2]; exact hlt), hh.2.2, hm.2.2]
  | h hs' h hh =>
    obtain ⟨c, cs, rfl, hc, hc0⟩ := digits_cons hh
    have l1 := short_of_infix (s := c :: cs ++ ['h']) ⟨[], ['h'], by simp⟩ hc hn
    refine ⟨?_, c, cs ++ ['h'], by simp, hc0⟩
    unfold Dur.parseS
    rw [Dur.shape_h c cs hc]
    dsimp only
    rw [eval_ok sign sg plus _ _ hs hc rfl l1 (by simp) (fun _ => by decide), hh.2.2, e0, Nat.add_zero]
  | m ms m hm =>
    obtain ⟨c, cs, rfl, hc, hc0⟩ := digits_cons hm
    have l1 := short_of_infix (s := c :: cs ++ ['m']) ⟨[], ['m'], by simp⟩ hc hn
    refine ⟨?_, c, cs ++ ['m'], by simp, hc0⟩
    unfold Dur.parseS
    rw [Dur.shape_m c cs hc]
    dsimp only
    rw [eval_ok sign sg plus _ _ hs rfl hc (by simp) l1 (fun h => absurd rfl h), hm.2.2, e0, Nat.zero_mul, Nat.zero_add]

theorem zs2_plain (n : Nat) : zs2 1 false n = 0 := by
  unfold zs2; rw [Bool.and_false]; rfl

theorem zs2_plus (n : Nat) : zs2 1 true n = if n = 0 then 1 else 0 := by
  unfold zs2; rw [Bool.and_true]
  by_cases h : n = 0
  · rw [if_pos h, decide_eq_true h]; rfl
  · rw [if_neg h, decide_eq_false h]; rfl

theorem zs2_minus (n : Nat) : zs2 (-1) true n = if n = 0 then -1 else 0 := by
  unfold zs2; rw [Bool.and_true]
  by_cases h : n = 0
  · rw [if_pos h, decide_eq_true h]; rfl
  · rw [if_neg h, decide_eq_false h]; rfl

/-- Completeness of `Dur.parse` w.r.t. the grammar (numbers of fewer than 18 digits). -/
theorem durLit_parse {s : List Char} {d : Dur} (h : Spec.DurLit s d) (hn : ¬ HasLongDigitRun s) :
    Dur.parse s = .ok d := by
  cases h with
  | plain b n hb =>
    obtain ⟨h1, c, r, rfl, hc⟩ := parseS_body hb hn 1 false false (Or.inl rfl)
    rw [Dur.parse_nosign c r (isDigit_ne c '-' hc (by decide)) (isDigit_ne c '+' hc (by decide)), h1,
      zs2_plain, Int.one_mul]
  | plus b n hb =>
    have hn' : ¬ HasLongDigitRun b := noLong_of_infix (List.suffix_cons _ _).isInfix hn
    obtain ⟨h1, _⟩ := parseS_body hb hn' 1 true true (Or.inl rfl)
    rw [Dur.parse_plus, h1, zs2_plus, Int.one_mul]
  | minus b n hb =>
    have hn' : ¬ HasLongDigitRun b := noLong_of_infix (List.suffix_cons _ _).isInfix hn
    obtain ⟨h1, _⟩ := parseS_body hb hn' (-1) true false (Or.inr rfl)
    rw [Dur.parse_minus, h1, zs2_minus, Int.neg_one_mul]

theorem parseS_inv {sign : Int} {sg plus : Bool} {s : List Char} {d : Dur}
    (h : Dur.parseS sign sg plus s = .ok d) (hs : sign = 1 ∨ sign = -1) :
    ∃ n, Spec.DurBody s n ∧ d = ⟨sign * (n : Int), plus, zs2 sign sg n⟩ := by
  have e0 : digitsVal [] = 0 := rfl
  unfold Dur.parseS at h
  split at h
  · cases h
  · rename_i hd md hsh
    obtain ⟨a1, a2, hcases⟩ := shape_inv hsh
    obtain ⟨rfl, hm⟩ := eval_inv h hs
    rcases hcases with ⟨rfl, hne, rfl⟩ | ⟨hne, rfl, rfl⟩ | ⟨hne1, hne2, rfl⟩
    · refine ⟨digitsVal md, Spec.DurBody.m md _ ⟨hne, forall_of_all a2, rfl⟩, ?_⟩
      rw [e0, Nat.zero_mul, Nat.zero_add]
    · refine ⟨digitsVal hd * 60, Spec.DurBody.h hd _ ⟨hne, forall_of_all a1, rfl⟩, ?_⟩
      rw [e0, Nat.add_zero]
    · exact ⟨digitsVal hd * 60 + digitsVal md,
        Spec.DurBody.hm hd md _ _ ⟨hne1, forall_of_all a1, rfl⟩ ⟨hne2, forall_of_all a2, rfl⟩ (hm hne1), rfl⟩

/-- Soundness of `Dur.parse` w.r.t. the grammar. -/
theorem parse_durLit {s : List Char} {d : Dur} (h : Dur.parse s = .ok d) : Spec.DurLit s d := by
  cases s with
  | nil => cases h
  | cons c r =>
    by_cases h1 : c = '-'
    · subst h1
      rw [Dur.parse_minus] at h
      obtain ⟨n, hb, rfl⟩ := parseS_inv h (Or.inr rfl)
      rw [zs2_minus, Int.neg_one_mul]
      exact Spec.DurLit.minus r n hb
    · by_cases h2 : c = '+'
      · subst h2
        rw [Dur.parse_plus] at h
        obtain ⟨n, hb, rfl⟩ := parseS_inv h (Or.inl rfl)
        rw [zs2_plus, Int.one_mul]
        exact Spec.DurLit.plus r n hb
      · rw [Dur.parse_nosign c r h1 h2] at h
        obtain ⟨n, hb, rfl⟩ := parseS_inv h (Or.inl rfl)
        rw [zs2_plain, Int.one_mul]
        exact Spec.DurLit.plain _ n hb

/-! ### characters of durations -/

theorem isDurChar_not_spTab {c : Char} (h : isDurChar c) : isSpTab c = false := by
  cases hs : isSpTab c with
  | false => rfl
  | true =>
    rcases (isSpTab_iff c).mp hs with rfl | rfl <;> exact absurd h (by unfold isDurChar; decide)

theorem parse_dur_ok_chars {s : List Char} {d : Dur} (h : Dur.parse s = .ok d) :
    (∀ c ∈ s, isDurChar c) ∧ ∃ c r, s = c :: r := by
  refine ⟨Dur.parse_chars s (by rw [h]; exact fun e => by cases e), ?_⟩
  cases s with
  | nil => cases h
  | cons c r => exact ⟨c, r, rfl⟩

/-- a string with a character that no duration contains is not a duration -/
theorem parse_dur_err_of_mem {s : List Char} (c : Char) (hc : c ∈ s) (hnd : ¬ isDurChar c) : Dur.parse s = .err := by
  cases h : Dur.parse s with
  | err => rfl
  | ok d => exact absurd (Dur.parse_chars s (by rw [h]; exact fun e => by cases e) c hc) hnd
  | panic => exact absurd (Dur.parse_chars s (by rw [h]; exact fun e => by cases e) c hc) hnd

end KlogV.GrammarLemmas
