/- Helper lemmas for KlogV/Lemmas/GoTxt.lean: rune bytes, the last rune of the forward decoding, the pure block machine. Core Lean only. -/
import KlogV.Lemmas.GoTxt4
namespace KlogV.GoL.T
open KlogV.Go

/-! ### runes: the bytes of one rune -/

/-- bytes of a decoded rune: the first byte and continuation bytes -/
theorem decodeRune_take (b : UInt8) (rest : Bytes) :
    ∃ cs, (b :: rest).take (decodeRune (b :: rest)).2 = b :: cs ∧ (∀ c ∈ cs, isCont c = true) ∧
      (cs ≠ [] → 0xC2 ≤ b.toNat) := by
  have sh := decodeRune_shape b rest
  generalize decodeRune (b :: rest) = r at sh
  cases sh with
  | ascii _ _ h => exact ⟨[], by simp, by simp, by simp⟩
  | bad _ _ h => exact ⟨[], by simp, by simp, by simp⟩
  | two _ b1 tl v h h1 hv => exact ⟨[b1], by simp, by simpa using h1, fun _ => h⟩
  | three _ b1 b2 tl v h h1 h2 hv => exact ⟨[b1, b2], by simp, by simp [h1, h2], fun _ => h⟩
  | four _ b1 b2 b3 tl v h h1 h2 h3 hv => exact ⟨[b1, b2, b3], by simp, by simp [h1, h2, h3], fun _ => h⟩

theorem isCont_ne_LF (c : UInt8) (h : isCont c = true) : c ≠ LF := by
  intro e; subst e; revert h; decide

/-- width of the first rune, at least 1 -/
def W (bs : Bytes) : Nat := max (decodeRune bs).2 1

theorem W_cons (b : UInt8) (rest : Bytes) : W (b :: rest) = (decodeRune (b :: rest)).2 := by
  have := decodeRune_width_bounds b rest
  unfold W; omega

theorem W_le (b : UInt8) (rest : Bytes) : 1 ≤ W (b :: rest) ∧ W (b :: rest) ≤ (b :: rest).length := by
  have := decodeRune_width_bounds b rest
  rw [W_cons]; omega

theorem LF_not_mem_take (b : UInt8) (rest : Bytes) (hb : b ≠ LF) : LF ∉ (b :: rest).take (W (b :: rest)) := by
  rw [W_cons]
  obtain ⟨cs, e, hc, _⟩ := decodeRune_take b rest
  rw [e]
  intro hm
  rcases List.mem_cons.mp hm with h | h
  · exact hb h.symm
  · exact isCont_ne_LF _ (hc _ h) rfl

/-- width of the last rune of the forward decoding; fuelled by the length -/
def lastW : Nat → Bytes → Nat
  | 0, _ => 0
  | _, [] => 0
  | fuel + 1, b :: rest =>
    if (b :: rest).drop (W (b :: rest)) = [] then W (b :: rest) else lastW fuel ((b :: rest).drop (W (b :: rest)))

theorem lastW_le (fuel : Nat) : ∀ bs, lastW fuel bs ≤ bs.length := by
  induction fuel with
  | zero => intro bs; simp [lastW]
  | succ fuel ih =>
    intro bs
    cases bs with
    | nil => simp [lastW]
    | cons b rest =>
      unfold lastW
      split
      · exact (W_le b rest).2
      · have := ih ((b :: rest).drop (W (b :: rest)))
        simp only [List.length_drop] at this
        omega

/-! ### the pure machine on lines -/

def firstRun : Mode → List Line → List Line → Mode × List Line
  | m, cur, [] => (m, cur)
  | .pre, cur, l :: ls => if l.isBlank then firstRun .pre (cur ++ [l]) ls else firstRun .sig (cur ++ [l]) ls
  | .sig, cur, l :: ls => if l.isBlank then firstRun .post (cur ++ [l]) ls else firstRun .sig (cur ++ [l]) ls
  | .post, cur, l :: ls => if l.isBlank then firstRun .post (cur ++ [l]) ls else (.post, cur)

theorem firstRun_spec (ls : List Line) : ∀ (m : Mode) (cur : List Line),
    ((firstRun m cur ls).1 = .pre → blocksGo m cur ls = [] ∧ (firstRun m cur ls).2 = cur ++ ls) ∧
    ((firstRun m cur ls).1 ≠ .pre → ∃ rest, blocksGo m cur ls = (firstRun m cur ls).2 :: rest) := by
  induction ls with
  | nil =>
    intro m cur
    cases m <;> simp [firstRun, blocksGo]
  | cons l ls ih =>
    intro m cur
    cases m <;> cases hb : l.isBlank <;> simp only [firstRun, blocksGo, hb, if_true, if_false, Bool.false_eq_true]
    · have := ih .sig (cur ++ [l]); simpa using this
    · have := ih .pre (cur ++ [l]); simpa using this
    · have := ih .sig (cur ++ [l]); simpa using this
    · have := ih .post (cur ++ [l]); simpa using this
    · simp
    · have := ih .post (cur ++ [l]); simpa using this

def modeInt : Mode → Int
  | .pre => 0
  | .sig => 1
  | .post => 2

end KlogV.GoL.T
