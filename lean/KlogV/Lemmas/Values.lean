/- Lemmas about the value layer (decimal digits, Date, Time, Dur). -/
import KlogV.Model.Values
namespace KlogV

/-! ## Decimal digits -/

theorem isDigit_ofNat_aux : ∀ k : Fin 10, isDigit (Char.ofNat (48 + k.val)) = true := by decide

theorem digitVal_ofNat_aux : ∀ k : Fin 10, digitVal (Char.ofNat (48 + k.val)) = k.val := by decide

theorem isDigit_digitChar (n : Nat) : isDigit (digitChar n) = true := by
  have := isDigit_ofNat_aux ⟨n % 10, Nat.mod_lt _ (by decide)⟩
  simpa [digitChar] using this

theorem digitVal_digitChar (n : Nat) : digitVal (digitChar n) = n % 10 := by
  have := digitVal_ofNat_aux ⟨n % 10, Nat.mod_lt _ (by decide)⟩
  simpa [digitChar] using this

theorem isDigit_iff (c : Char) : isDigit c = true ↔ 48 ≤ c.toNat ∧ c.toNat ≤ 57 := by
  simp only [isDigit, Bool.and_eq_true, decide_eq_true_eq, Char.le_def]
  rfl

theorem digitVal_lt (c : Char) (h : isDigit c = true) : digitVal c < 10 := by
  rw [isDigit_iff] at h
  have : '0'.toNat = 48 := by decide
  unfold digitVal; omega

theorem digitChar_digitVal (c : Char) (h : isDigit c = true) : digitChar (digitVal c) = c := by
  rw [isDigit_iff] at h
  have h0 : '0'.toNat = 48 := by decide
  unfold digitChar digitVal
  rw [h0]
  have : 48 + (c.toNat - 48) % 10 = c.toNat := by omega
  rw [this]
  exact Char.ofNat_toNat c

/-- `digitChar` of a small number whose value is that of a digit char. -/
theorem digitChar_eq_of_val (c : Char) (h : isDigit c = true) (n : Nat) (hn : n % 10 = digitVal c) :
    digitChar n = c := by
  have := digitChar_digitVal c h
  rw [← this]
  unfold digitChar
  rw [hn, Nat.mod_eq_of_lt (digitVal_lt c h)]

theorem digitsVal_append (a b : List Char) :
    digitsVal (a ++ b) = b.foldl (fun acc c => acc * 10 + digitVal c) (digitsVal a) := by
  simp [digitsVal, List.foldl_append]

theorem digitsVal_snoc (a : List Char) (c : Char) : digitsVal (a ++ [c]) = digitsVal a * 10 + digitVal c := by
  simp [digitsVal_append]

theorem natDigitsAux_acc (fuel n : Nat) (acc : List Char) :
    natDigitsAux fuel n acc = natDigitsAux fuel n [] ++ acc := by
  induction fuel generalizing n acc with
  | zero => simp [natDigitsAux]
  | succ f ih =>
    unfold natDigitsAux
    split
    · simp
    · rw [ih (n / 10) (digitChar n :: acc), ih (n / 10) [digitChar n]]; simp

theorem natDigitsAux_fuel (f1 f2 n : Nat) (h1 : n < f1) (h2 : n < f2) :
    natDigitsAux f1 n [] = natDigitsAux f2 n [] := by
  induction f1 generalizing f2 n with
  | zero => omega
  | succ f ih =>
    cases f2 with
    | zero => omega
    | succ g =>
      unfold natDigitsAux
      split
      · rfl
      · rw [natDigitsAux_acc f, natDigitsAux_acc g, ih g (n / 10) (by omega) (by omega)]

theorem natDigits_lt (n : Nat) (h : n < 10) : natDigits n = [digitChar n] := by
  simp [natDigits, natDigitsAux, h]

theorem natDigits_ge (n : Nat) (h : ¬ n < 10) : natDigits n = natDigits (n / 10) ++ [digitChar n] := by
  unfold natDigits
  rw [natDigitsAux]
  simp only [h, if_false]
  rw [natDigitsAux_acc, natDigitsAux_fuel n (n / 10 + 1) (n / 10) (by omega) (by omega)]

theorem natDigits_all (n : Nat) : (natDigits n).all isDigit = true := by
  induction n using Nat.strongRecOn with
  | _ n ih =>
    by_cases h : n < 10
    · simp [natDigits_lt n h, isDigit_digitChar]
    · rw [natDigits_ge n h]; simp [ih (n / 10) (by omega), isDigit_digitChar]

theorem digitsVal_natDigits (n : Nat) : digitsVal (natDigits n) = n := by
  induction n using Nat.strongRecOn with
  | _ n ih =>
    by_cases h : n < 10
    · simp [natDigits_lt n h, digitsVal, digitVal_digitChar]; omega
    · rw [natDigits_ge n h, digitsVal_snoc, ih (n / 10) (by omega), digitVal_digitChar]; omega

theorem natDigits_ne_nil (n : Nat) : natDigits n ≠ [] := by
  by_cases h : n < 10
  · simp [natDigits_lt n h]
  · rw [natDigits_ge n h]; simp

theorem natDigits_lt100 (n : Nat) (h1 : ¬ n < 10) (h : n < 100) :
    natDigits n = [digitChar (n / 10), digitChar n] := by
  rw [natDigits_ge n h1, natDigits_lt (n / 10) (by omega)]; rfl

/-- Shape of `natDigits`: a digit followed by digits. -/
theorem natDigits_cons (n : Nat) : ∃ c cs, natDigits n = c :: cs ∧ isDigit c = true ∧ cs.all isDigit = true := by
  have h := natDigits_all n
  match hm : natDigits n with
  | [] => exact absurd hm (natDigits_ne_nil n)
  | c :: cs =>
    rw [hm] at h
    simp only [List.all_cons, Bool.and_eq_true] at h
    exact ⟨c, cs, rfl, h.1, h.2⟩

theorem takeWhile_digits (ds : List Char) (c : Char) (rest : List Char)
    (h : ds.all isDigit = true) (hc : isDigit c = false) :
    (ds ++ c :: rest).takeWhile isDigit = ds ∧ (ds ++ c :: rest).dropWhile isDigit = c :: rest := by
  induction ds with
  | nil => simp [hc]
  | cons d ds ih =>
    simp only [List.all_cons, Bool.and_eq_true] at h
    simp [h.1, ih h.2]

theorem takeWhile_digits_nil (ds : List Char) (h : ds.all isDigit = true) :
    ds.takeWhile isDigit = ds ∧ ds.dropWhile isDigit = [] := by
  induction ds with
  | nil => simp
  | cons d ds ih =>
    simp only [List.all_cons, Bool.and_eq_true] at h
    simp [h.1, ih h.2]

theorem digitsVal_pad2 (n : Nat) (h : n < 100) : digitsVal (pad2 n) = n := by
  simp [pad2, digitsVal, digitVal_digitChar]; omega

theorem digitsVal_pad4 (n : Nat) (h : n < 10000) : digitsVal (pad4 n) = n := by
  simp [pad4, digitsVal, digitVal_digitChar]; omega

/-! ## Date -/

theorem pad2_digits (a b : Char) (ha : isDigit a = true) (hb : isDigit b = true) :
    pad2 (digitsVal [a, b]) = [a, b] := by
  have la := digitVal_lt a ha
  have lb := digitVal_lt b hb
  have e : digitsVal [a, b] = digitVal a * 10 + digitVal b := by simp [digitsVal]
  rw [e]; unfold pad2
  rw [digitChar_eq_of_val a ha _ (by omega), digitChar_eq_of_val b hb _ (by omega)]

theorem pad4_digits (a b c d : Char) (ha : isDigit a = true) (hb : isDigit b = true)
    (hc : isDigit c = true) (hd : isDigit d = true) :
    pad4 (digitsVal [a, b, c, d]) = [a, b, c, d] := by
  have la := digitVal_lt a ha
  have lb := digitVal_lt b hb
  have lc := digitVal_lt c hc
  have ld := digitVal_lt d hd
  have e : digitsVal [a, b, c, d] = ((digitVal a * 10 + digitVal b) * 10 + digitVal c) * 10 + digitVal d := by
    simp [digitsVal]
  rw [e]; unfold pad4
  rw [digitChar_eq_of_val a ha _ (by omega), digitChar_eq_of_val b hb _ (by omega),
    digitChar_eq_of_val c hc _ (by omega), digitChar_eq_of_val d hd _ (by omega)]

theorem Date.parse_sound (s : List Char) (x : Date) (h : Date.parse s = some x) :
    x.valid = true ∧ x.print = s := by
  unfold Date.parse at h
  split at h
  · rename_i y1 y2 y3 y4 s1 m1 m2 s2 d1 d2
    split at h
    · rename_i hc
      simp only [List.all_cons, List.all_nil, Bool.and_true, Bool.and_eq_true, Bool.or_eq_true,
        beq_iff_eq] at hc
      obtain ⟨⟨⟨⟨hy1, hy2, hy3, hy4, hm1, hm2, hd1, hd2⟩, hs1⟩, _⟩, hs12⟩ := hc
      dsimp only at h
      split at h
      · rename_i hv
        simp only [Option.some.injEq] at h
        subst h
        refine ⟨hv, ?_⟩
        subst hs12
        simp only [Date.print, pad4_digits _ _ _ _ hy1 hy2 hy3 hy4, pad2_digits _ _ hm1 hm2,
          pad2_digits _ _ hd1 hd2]
        rcases hs1 with rfl | rfl <;> simp
      · cases h
    · cases h
  · cases h

theorem daysIn_le (y m : Nat) : daysIn y m ≤ 31 := by
  unfold daysIn; repeat' split <;> try omega

theorem Date.parse_print (x : Date) (h : x.valid = true) : Date.parse x.print = some x := by
  obtain ⟨y, m, d, dashes⟩ := x
  have hv := h
  simp only [Date.valid, Bool.and_eq_true, decide_eq_true_eq] at h
  obtain ⟨⟨⟨⟨hy, _⟩, hm⟩, _⟩, hd⟩ := h
  have hd' := daysIn_le y m
  have e4 := digitsVal_pad4 y (by omega)
  have em := digitsVal_pad2 m (by omega)
  have ed := digitsVal_pad2 d (by omega)
  simp only [pad2, pad4] at e4 em ed
  cases dashes <;>
    simp [Date.print, Date.parse, pad2, pad4, isDigit_digitChar, e4, em, ed, hv]

/-! ## Time -/

theorem Time.wf_iff (t : Time) :
    t.wf = true ↔ t.h < 24 ∧ t.min < 60 ∧ (t.shift = -1 ∨ t.shift = 0 ∨ t.shift = 1) := by
  simp [Time.wf, and_assoc, or_assoc]

theorem Time.offset_inj (a b : Time) (ha : a.wf = true) (hb : b.wf = true) (h : a.offset = b.offset) :
    a.h = b.h ∧ a.min = b.min ∧ a.shift = b.shift := by
  rw [Time.wf_iff] at ha hb
  obtain ⟨ah, am, as⟩ := ha
  obtain ⟨bh, bm, bs⟩ := hb
  unfold Time.offset at h
  rcases as with as | as | as <;> rcases bs with bs | bs | bs <;> rw [as, bs] at h ⊢ <;>
    simp only [Int.reduceNeg, Int.reduceLT, if_true, if_false] at h <;> omega

theorem Time.mk'_lt (h m : Nat) (sh : Int) (b : Bool) (hh : h < 24) (hm : m < 60) :
    Time.mk' h m sh b = some ⟨h, m, sh, b⟩ := by
  have : (h == 24) = false := by simp; omega
  simp [Time.mk', this, hh, hm]

theorem Time.mk'_24 (sh : Int) (b : Bool) (hs : sh ≤ 0) :
    Time.mk' 24 0 sh b = some ⟨0, 0, sh + 1, b⟩ := by
  simp [Time.mk', hs]

theorem Time.plus_some (t : Time) (d : Int) (h1 : -1440 ≤ t.offset + d) (h2 : t.offset + d < 2880) :
    ∃ t', t.plus d = some t' ∧ t'.wf = true ∧ t'.offset = t.offset + d ∧ t'.is24 = t.is24 := by
  unfold Time.plus
  generalize t.offset + d = m at h1 h2
  have hc : ¬ (m ≥ 2880 ∨ m < -1440) := by omega
  simp only [Bool.or_eq_true, decide_eq_true_eq, hc, if_false]
  by_cases c1 : m < 0
  · simp only [c1, if_true]
    rw [Time.mk'_lt _ _ _ _ (by omega) (by omega)]
    refine ⟨_, rfl, ?_, ?_, rfl⟩
    · rw [Time.wf_iff]; refine ⟨?_, ?_, ?_⟩ <;> dsimp only <;> omega
    · simp only [Time.offset]; omega
  · simp only [c1, if_false]
    by_cases c2 : m > 1440
    · simp only [c2, if_true]
      rw [Time.mk'_lt _ _ _ _ (by omega) (by omega)]
      refine ⟨_, rfl, ?_, ?_, rfl⟩
      · rw [Time.wf_iff]; refine ⟨?_, ?_, ?_⟩ <;> dsimp only <;> omega
      · simp only [Time.offset]; omega
    · simp only [c2, if_false]
      by_cases c3 : m = 1440
      · subst c3
        have e1 : ((1440 : Int) / 60).toNat = 24 := by decide
        have e2 : ((1440 : Int) % 60).toNat = 0 := by decide
        rw [e1, e2, Time.mk'_24 _ _ (by omega)]
        refine ⟨_, rfl, ?_, ?_, rfl⟩
        · rw [Time.wf_iff]; refine ⟨?_, ?_, ?_⟩ <;> dsimp only <;> omega
        · simp [Time.offset]
      · rw [Time.mk'_lt _ _ _ _ (by omega) (by omega)]
        refine ⟨_, rfl, ?_, ?_, rfl⟩
        · rw [Time.wf_iff]; refine ⟨?_, ?_, ?_⟩ <;> dsimp only <;> omega
        · simp only [Time.offset]; omega

theorem Time.plus_out (t : Time) (d : Int) (h : ¬ (-1440 ≤ t.offset + d ∧ t.offset + d < 2880)) :
    t.plus d = none := by
  unfold Time.plus
  have hc : (t.offset + d ≥ 2880 ∨ t.offset + d < -1440) := by omega
  simp only [Bool.or_eq_true, decide_eq_true_eq, hc, if_true]

theorem Time.plus_spec (t : Time) (d : Int) (_h : t.wf = true) :
    (∃ t', t.plus d = some t' ∧ t'.wf = true ∧ t'.offset = t.offset + d ∧ t'.is24 = t.is24) ↔
      (-1440 ≤ t.offset + d ∧ t.offset + d < 2880) := by
  constructor
  · intro ⟨t', h1, _⟩
    by_cases c : (-1440 ≤ t.offset + d ∧ t.offset + d < 2880)
    · exact c
    · rw [Time.plus_out t d c] at h1; cases h1
  · intro ⟨h1, h2⟩; exact Time.plus_some t d h1 h2

theorem Time.plus_none (t : Time) (d : Int) (_h : t.wf = true) :
    t.plus d = none ↔ ¬ (-1440 ≤ t.offset + d ∧ t.offset + d < 2880) := by
  constructor
  · intro hn ⟨h1, h2⟩
    obtain ⟨t', e, _⟩ := Time.plus_some t d h1 h2
    rw [hn] at e; cases e
  · exact Time.plus_out t d

theorem Time.mk'_wf (h m : Nat) (sh : Int) (b : Bool) (t : Time)
    (hs : sh = -1 ∨ sh = 0 ∨ sh = 1) (e : Time.mk' h m sh b = some t) : t.wf = true := by
  by_cases c : h = 24 ∧ m = 0 ∧ sh ≤ 0
  · obtain ⟨rfl, rfl, c3⟩ := c
    rw [Time.mk'_24 _ _ c3] at e
    simp only [Option.some.injEq] at e; subst e
    rw [Time.wf_iff]; dsimp only; omega
  · have c' : (h == 24 && m == 0 && decide (sh ≤ 0)) = false := by
      simp only [Bool.and_eq_false_iff, beq_eq_false_iff_ne, decide_eq_false_iff_not]; omega
    simp only [Time.mk', c', Bool.false_eq_true, if_false] at e
    split at e
    · rename_i hlt
      simp only [Bool.and_eq_true, decide_eq_true_eq] at hlt
      simp only [Option.some.injEq] at e; subst e
      rw [Time.wf_iff]; dsimp only; omega
    · cases e

theorem isDigit_ne (c d : Char) (hc : isDigit c = true) (hd : isDigit d = false) : c ≠ d := by
  intro e; subst e; rw [hc] at hd; cases hd

def Time.apChars : Option Bool → List Char
  | none => []
  | some false => ['a', 'm']
  | some true => ['p', 'm']

def Time.hour12 (pm : Bool) (hour : Nat) : Nat :=
  if !pm && hour == 12 then 0 else if pm && hour < 12 then hour + 12 else hour

/-- Last stage of `Time.parse`: everything after the optional `>` has been split off. -/
def Time.parseD (lt : Bool) (hd : List Char) (m1 m2 : Char) (ampm : Option Bool) (gt : Bool)
    (rest : List Char) : Option Time :=
  if !rest.isEmpty || (lt && gt) then none else
  let hour := digitsVal hd
  let minute := digitsVal [m1, m2]
  let shift : Int := if lt then -1 else if gt then 1 else 0
  match ampm with
  | none => Time.mk' hour minute shift true
  | some pm =>
    if hour < 1 || hour > 12 then none else
    let hour := if !pm && hour == 12 then 0 else if pm && hour < 12 then hour + 12 else hour
    Time.mk' hour minute shift false

def Time.parseB (lt : Bool) (hd : List Char) (m1 m2 : Char) (rest : List Char) : Option Time :=
  let (ampm, rest) : Option Bool × List Char := match rest with
    | 'a' :: 'm' :: r => (some false, r)
    | 'p' :: 'm' :: r => (some true, r)
    | _ => (none, rest)
  let (gt, rest) := match rest with | '>' :: r => (true, r) | _ => (false, rest)
  Time.parseD lt hd m1 m2 ampm gt rest

def Time.parseA (lt : Bool) (s : List Char) : Option Time :=
  let hd := s.takeWhile isDigit
  let s := s.dropWhile isDigit
  if hd.length < 1 || hd.length > 2 then none else
  match s with
  | ':' :: m1 :: m2 :: rest =>
    if !(isDigit m1 && isDigit m2) then none else Time.parseB lt hd m1 m2 rest
  | _ => none

theorem Time.parse_lt (r : List Char) : Time.parse ('<' :: r) = Time.parseA true r := rfl

theorem Time.parse_nlt (c : Char) (r : List Char) (hc : c ≠ '<') :
    Time.parse (c :: r) = Time.parseA false (c :: r) := by
  unfold Time.parse
  split
  rename_i lt s' heq
  split at heq
  · rename_i heq2
    simp only [List.cons.injEq] at heq2
    exact absurd heq2.1 hc
  · simp only [Prod.mk.injEq] at heq
    obtain ⟨rfl, rfl⟩ := heq
    rfl

theorem Time.parseB_ap (lt gt : Bool) (hd : List Char) (m1 m2 : Char) (ap : Option Bool) :
    Time.parseB lt hd m1 m2 (Time.apChars ap ++ (if gt then ['>'] else [])) =
      Time.parseD lt hd m1 m2 ap gt [] := by
  rcases ap with _ | (_ | _) <;> cases gt <;> rfl

theorem Time.parseA_digits (lt : Bool) (c : Char) (cs : List Char) (m1 m2 : Char) (rest : List Char)
    (hc : isDigit c = true) (hcs : cs.all isDigit = true) (hlen : cs.length ≤ 1)
    (hm1 : isDigit m1 = true) (hm2 : isDigit m2 = true) :
    Time.parseA lt (c :: (cs ++ ':' :: m1 :: m2 :: rest)) = Time.parseB lt (c :: cs) m1 m2 rest := by
  have hall : (c :: cs).all isDigit = true := by simp [hc, hcs]
  have hcolon : isDigit ':' = false := by decide
  have key := takeWhile_digits (c :: cs) ':' (m1 :: m2 :: rest) hall hcolon
  simp only [List.cons_append] at key
  have hl1 : ¬ (cs.length + 1 < 1) := by omega
  have hl2 : ¬ (cs.length + 1 > 2) := by omega
  simp only [Time.parseA, key.1, key.2, List.length_cons, hl1, hl2, hm1, hm2, decide_false,
    Bool.or_false, Bool.false_eq_true, if_false, Bool.and_self, Bool.not_true]

theorem Time.parse_core (lt gt : Bool) (c : Char) (cs : List Char) (m1 m2 : Char)
    (hc : isDigit c = true) (hcs : cs.all isDigit = true) (hlen : cs.length ≤ 1)
    (hm1 : isDigit m1 = true) (hm2 : isDigit m2 = true) (ap : Option Bool) :
    Time.parse ((if lt then ['<'] else []) ++ (c :: cs) ++ [':'] ++ [m1, m2] ++ Time.apChars ap
        ++ (if gt then ['>'] else []))
      = Time.parseD lt (c :: cs) m1 m2 ap gt [] := by
  have hclt : c ≠ '<' := isDigit_ne c '<' hc (by decide)
  rw [← Time.parseB_ap, ← Time.parseA_digits lt c cs m1 m2 _ hc hcs hlen hm1 hm2]
  cases lt
  · simp only [Bool.false_eq_true, if_false, List.nil_append, List.cons_append, List.append_assoc]
    exact Time.parse_nlt c _ hclt
  · simp only [if_true, List.nil_append, List.cons_append, List.append_assoc]
    exact Time.parse_lt _

theorem Time.parse_cases (s : List Char) : ∃ lt s', Time.parse s = Time.parseA lt s' := by
  match s with
  | [] => exact ⟨false, [], rfl⟩
  | c :: r =>
    by_cases h : c = '<'
    · subst h; exact ⟨true, r, Time.parse_lt r⟩
    · exact ⟨false, c :: r, Time.parse_nlt c r h⟩

theorem Time.parseB_cases (lt : Bool) (hd : List Char) (m1 m2 : Char) (rest : List Char) :
    ∃ ap gt r, Time.parseB lt hd m1 m2 rest = Time.parseD lt hd m1 m2 ap gt r :=
  ⟨_, _, _, rfl⟩

theorem Time.parseD_wf (lt : Bool) (hd : List Char) (m1 m2 : Char) (ap : Option Bool) (gt : Bool)
    (r : List Char) (t : Time) (h : Time.parseD lt hd m1 m2 ap gt r = some t) : t.wf = true := by
  have hs : (if lt then (-1 : Int) else if gt then 1 else 0) = -1 ∨
      (if lt then (-1 : Int) else if gt then 1 else 0) = 0 ∨
      (if lt then (-1 : Int) else if gt then 1 else 0) = 1 := by
    cases lt <;> cases gt <;> decide
  unfold Time.parseD at h
  split at h
  · cases h
  · cases ap with
    | none => exact Time.mk'_wf _ _ _ _ _ hs h
    | some pm =>
      dsimp only at h
      split at h
      · cases h
      · exact Time.mk'_wf _ _ _ _ _ hs h

theorem Time.parse_wf (s : List Char) (t : Time) (h : Time.parse s = some t) : t.wf = true := by
  obtain ⟨lt, s', e⟩ := Time.parse_cases s
  rw [e] at h
  unfold Time.parseA at h
  dsimp only at h
  split at h
  · cases h
  · split at h
    · split at h
      · cases h
      · rename_i m1 m2 rest _ _
        obtain ⟨ap, gt, r, e2⟩ := Time.parseB_cases lt (List.takeWhile isDigit s') m1 m2 rest
        rw [e2] at h
        exact Time.parseD_wf _ _ _ _ _ _ _ _ h
    · cases h

def Time.printHour (t : Time) : Nat :=
  if t.is24 then t.h else if t.h == 12 then 12 else if t.h > 12 then t.h - 12
  else if t.h == 0 then 12 else t.h

def Time.printAp (t : Time) : Option Bool :=
  if t.is24 then none else some (decide (t.h ≥ 12))

theorem Time.print_eq (t : Time) :
    t.print = (if decide (t.shift < 0) then ['<'] else []) ++ natDigits t.printHour ++ [':']
      ++ [digitChar (t.min / 10), digitChar t.min] ++ Time.apChars t.printAp
      ++ (if decide (t.shift > 0) then ['>'] else []) := by
  obtain ⟨h, min, shift, is24⟩ := t
  unfold Time.print Time.printHour Time.printAp
  cases is24
  · by_cases c1 : h = 12
    · subst c1; simp [Time.apChars, pad2]
    · by_cases c2 : h > 12
      · have : h ≥ 12 := by omega
        simp [Time.apChars, pad2, c1, c2, this]
      · by_cases c3 : h = 0
        · subst c3; simp [Time.apChars, pad2]
        · have : ¬ h ≥ 12 := by omega
          simp [Time.apChars, pad2, c1, c2, c3, this]
  · simp [Time.apChars, pad2]

theorem natDigits_small (n : Nat) (h : n < 100) :
    ∃ c cs, natDigits n = c :: cs ∧ isDigit c = true ∧ cs.all isDigit = true ∧ cs.length ≤ 1 := by
  by_cases h1 : n < 10
  · exact ⟨_, [], natDigits_lt n h1, isDigit_digitChar _, rfl, by simp⟩
  · exact ⟨_, _, natDigits_lt100 n h1 h, isDigit_digitChar _, by simp [isDigit_digitChar], by simp⟩

theorem Time.parse_print (t : Time) (h : t.wf = true) : Time.parse t.print = some t := by
  rw [Time.wf_iff] at h
  obtain ⟨hh, hm, hs⟩ := h
  have hH : t.printHour < 100 := by
    unfold Time.printHour; (repeat' split) <;> omega
  obtain ⟨c, cs, e, hc, hcs, hlen⟩ := natDigits_small t.printHour hH
  rw [Time.print_eq, e, Time.parse_core _ _ c cs _ _ hc hcs hlen (isDigit_digitChar _) (isDigit_digitChar _),
    ← e]
  have em := digitsVal_pad2 t.min (by omega)
  simp only [pad2] at em
  unfold Time.parseD
  simp only [digitsVal_natDigits, em]
  obtain ⟨h, min, shift, is24⟩ := t
  dsimp only at hh hm hs ⊢
  clear e hH em
  have hsh : (if decide (shift < 0) = true then (-1 : Int) else if decide (shift > 0) = true then 1 else 0)
      = shift := by
    rcases hs with rfl | rfl | rfl <;> decide
  have hlg : (decide (shift < 0) && decide (shift > 0)) = false := by
    rcases hs with rfl | rfl | rfl <;> decide
  rw [hsh, hlg]
  simp only [List.isEmpty_nil, Bool.not_true, Bool.or_false, Bool.false_eq_true, if_false]
  cases is24
  · simp only [Time.printAp, Time.printHour, Bool.false_eq_true, if_false]
    by_cases c1 : h = 12
    · subst c1; simp [Time.mk'_lt _ _ _ _ (by omega : 12 < 24) hm]
    · by_cases c2 : h > 12
      · have a1 : h ≥ 12 := by omega
        have a2 : ¬ (h - 12 < 1) := by omega
        have a3 : ¬ (h - 12 > 12) := by omega
        have a4 : h - 12 < 12 := by omega
        have a5 : h - 12 + 12 = h := by omega
        simp [c1, c2, a1, a2, a3, a4, a5, Time.mk'_lt _ _ _ _ hh hm]
      · by_cases c3 : h = 0
        · subst c3; simp [Time.mk'_lt _ _ _ _ (by omega : 0 < 24) hm]
        · have a1 : ¬ h ≥ 12 := by omega
          have a2 : ¬ (h < 1) := by omega
          simp [c1, c2, c3, a1, a2, Time.mk'_lt _ _ _ _ hh hm]
  · simp only [Time.printAp, Time.printHour, if_true]
    exact Time.mk'_lt _ _ _ _ hh hm

/-! ## Dur -/

def Dur.WF (d : Dur) : Prop :=
  inRange d.mins = true ∧
  (d.mins = 0 → (d.zeroSign = -1 ∨ d.zeroSign = 0 ∨ d.zeroSign = 1) ∧ d.forcePlus = decide (d.zeroSign = 1)) ∧
  (d.mins ≠ 0 → d.zeroSign = 0 ∧ (d.forcePlus = true → d.mins > 0))

/-- The shape analysis of `Dur.parse` (hour digits, minute digits). -/
def Dur.shape (s : List Char) : Option (List Char × List Char) :=
  let d1 := s.takeWhile isDigit
  let r1 := s.dropWhile isDigit
  match d1, r1 with
  | [], _ => none
  | _, ['m'] => some ([], d1)
  | _, 'h' :: r2 =>
    let d2 := r2.takeWhile isDigit
    let r3 := r2.dropWhile isDigit
    (match d2, r3 with
      | [], [] => some (d1, [])
      | [], _ => none
      | _, ['m'] => some (d1, d2)
      | _, _ => none)
  | _, _ => none

/-- The arithmetic part of `Dur.parse`. -/
def Dur.eval (sign : Int) (signGiven plus : Bool) (hd md : List Char) : Res Dur :=
  match (if hd.isEmpty then Res.ok 0 else atoi hd), (if md.isEmpty then Res.ok 0 else atoi md) with
  | .ok h, .ok m =>
    if !hd.isEmpty && m ≥ 60 then .err else
    let zs : Int := if h == 0 && m == 0 && signGiven then sign else 0
    match safeMul (sign * h) 60 with
    | .ok hm => (match safeAdd hm (sign * m) with
      | .ok tot => .ok ⟨tot, plus, zs⟩
      | _ => .panic)
    | _ => .panic
  | _, _ => .panic

def Dur.parseS (sign : Int) (signGiven plus : Bool) (s : List Char) : Res Dur :=
  match Dur.shape s with
  | none => .err
  | some (hd, md) => Dur.eval sign signGiven plus hd md

theorem Dur.parse_minus (r : List Char) : Dur.parse ('-' :: r) = Dur.parseS (-1) true false r := rfl
theorem Dur.parse_plus (r : List Char) : Dur.parse ('+' :: r) = Dur.parseS 1 true true r := rfl

theorem Dur.parse_nosign (c : Char) (r : List Char) (h1 : c ≠ '-') (h2 : c ≠ '+') :
    Dur.parse (c :: r) = Dur.parseS 1 false false (c :: r) := by
  unfold Dur.parse
  split
  rename_i sign sg plus s' heq
  split at heq
  · rename_i heq2
    simp only [List.cons.injEq] at heq2
    exact absurd heq2.1 h1
  · rename_i heq2
    simp only [List.cons.injEq] at heq2
    exact absurd heq2.1 h2
  · simp only [Prod.mk.injEq] at heq
    obtain ⟨rfl, rfl, rfl, rfl⟩ := heq
    rfl

theorem Dur.parse_nil : Dur.parse [] = .err := rfl

theorem Dur.parse_cases (s : List Char) :
    ∃ sign sg plus s', Dur.parse s = Dur.parseS sign sg plus s' ∧
      ((sign = -1 ∧ sg = true ∧ plus = false) ∨ (sign = 1 ∧ sg = true ∧ plus = true) ∨
        (sign = 1 ∧ sg = false ∧ plus = false)) := by
  match s with
  | [] => exact ⟨1, false, false, [], rfl, by simp⟩
  | c :: r =>
    by_cases h1 : c = '-'
    · subst h1; exact ⟨_, _, _, _, Dur.parse_minus r, by simp⟩
    · by_cases h2 : c = '+'
      · subst h2; exact ⟨_, _, _, _, Dur.parse_plus r, by simp⟩
      · exact ⟨_, _, _, _, Dur.parse_nosign c r h1 h2, by simp⟩

theorem Dur.hval_nonneg (hd : List Char) (h : Int)
    (e : (if hd.isEmpty then Res.ok 0 else atoi hd) = .ok h) : 0 ≤ h := by
  split at e
  · simp only [Res.ok.injEq] at e; omega
  · unfold atoi at e
    dsimp only at e
    split at e
    · simp only [Res.ok.injEq] at e; omega
    · cases e

theorem inRange_iff (x : Int) : inRange x = true ↔ -9223372036854775807 ≤ x ∧ x ≤ 9223372036854775807 := by
  unfold inRange maxInt
  rw [Bool.and_eq_true, decide_eq_true_iff, decide_eq_true_iff]

theorem safeMul_ok (a b c : Int) (e : safeMul a b = .ok c) : c = a * b ∧ inRange c = true := by
  unfold safeMul at e
  split at e
  · rename_i hr
    simp only [Res.ok.injEq] at e
    simp only [Bool.and_eq_true] at hr
    subst e; exact ⟨rfl, hr.2⟩
  · cases e

theorem safeAdd_ok (a b c : Int) (e : safeAdd a b = .ok c) : c = a + b ∧ inRange c = true := by
  unfold safeAdd at e
  split at e
  · rename_i hr
    simp only [Res.ok.injEq] at e
    simp only [Bool.and_eq_true] at hr
    subst e; exact ⟨rfl, hr.2⟩
  · cases e

theorem Dur.wf_arith (sign : Int) (sg plus : Bool) (h m : Int) (nh : 0 ≤ h) (nm : 0 ≤ m)
    (hs : (sign = -1 ∧ sg = true ∧ plus = false) ∨ (sign = 1 ∧ sg = true ∧ plus = true) ∨
        (sign = 1 ∧ sg = false ∧ plus = false))
    (hr : inRange (sign * h * 60 + sign * m) = true) :
    Dur.WF ⟨sign * h * 60 + sign * m, plus, if h == 0 && m == 0 && sg then sign else 0⟩ := by
  unfold Dur.WF
  refine ⟨hr, ?_, ?_⟩
  · dsimp only
    intro h0
    have hh : h = 0 := by rcases hs with ⟨rfl, _⟩ | ⟨rfl, _⟩ | ⟨rfl, _⟩ <;> omega
    have hm : m = 0 := by rcases hs with ⟨rfl, _⟩ | ⟨rfl, _⟩ | ⟨rfl, _⟩ <;> omega
    subst hh hm
    rcases hs with ⟨rfl, rfl, rfl⟩ | ⟨rfl, rfl, rfl⟩ | ⟨rfl, rfl, rfl⟩ <;> decide
  · dsimp only
    intro h0
    have hz : (h == 0 && m == 0 && sg) = false := by
      by_cases hh : h = 0
      · by_cases hm : m = 0
        · subst hh hm; simp at h0
        · simp [hm]
      · simp [hh]
    simp only [hz, Bool.false_eq_true, if_false, true_and]
    intro hp
    rcases hs with ⟨rfl, rfl, rfl⟩ | ⟨rfl, rfl, rfl⟩ | ⟨rfl, rfl, rfl⟩
    · cases hp
    · omega
    · cases hp

theorem Dur.eval_wf (sign : Int) (sg plus : Bool) (hd md : List Char) (d : Dur)
    (hs : (sign = -1 ∧ sg = true ∧ plus = false) ∨ (sign = 1 ∧ sg = true ∧ plus = true) ∨
        (sign = 1 ∧ sg = false ∧ plus = false))
    (e : Dur.eval sign sg plus hd md = .ok d) : Dur.WF d := by
  unfold Dur.eval at e
  have nh := Dur.hval_nonneg hd
  have nm := Dur.hval_nonneg md
  generalize (if hd.isEmpty then Res.ok (0 : Int) else atoi hd) = rh at e nh
  generalize (if md.isEmpty then Res.ok (0 : Int) else atoi md) = rm at e nm
  cases rh <;> cases rm <;> try (cases e; done)
  rename_i h m
  have nh := nh h rfl
  have nm := nm m rfl
  dsimp only at e
  split at e
  · cases e
  · split at e
    · rename_i hm heq
      obtain ⟨rfl, _⟩ := safeMul_ok _ _ _ heq
      split at e
      · rename_i tot heq2
        obtain ⟨rfl, hr⟩ := safeAdd_ok _ _ _ heq2
        simp only [Res.ok.injEq] at e
        subst e
        exact Dur.wf_arith sign sg plus h m nh nm hs hr
      · cases e
    · cases e

theorem Dur.parse_wf (s : List Char) (d : Dur) (h : Dur.parse s = .ok d) : Dur.WF d := by
  obtain ⟨sign, sg, plus, s', e, hs⟩ := Dur.parse_cases s
  rw [e] at h
  unfold Dur.parseS at h
  split at h
  · cases h
  · exact Dur.eval_wf _ _ _ _ _ _ hs h

def Dur.body (H M : Nat) : List Char :=
  (if H > 0 then natDigits H ++ ['h'] else []) ++ (if M > 0 then natDigits M ++ ['m'] else [])

def Dur.digitsOr (n : Nat) : List Char := if n > 0 then natDigits n else []

theorem Dur.shape_hm (c : Char) (cs : List Char) (c' : Char) (cs' : List Char)
    (hc : (c :: cs).all isDigit = true) (hc' : (c' :: cs').all isDigit = true) :
    Dur.shape ((c :: cs) ++ 'h' :: ((c' :: cs') ++ ['m'])) = some (c :: cs, c' :: cs') := by
  have k1 := takeWhile_digits (c :: cs) 'h' ((c' :: cs') ++ ['m']) hc (by decide)
  have k2 := takeWhile_digits (c' :: cs') 'm' [] hc' (by decide)
  unfold Dur.shape
  simp only [k1.1, k1.2, k2.1, k2.2]

theorem Dur.shape_h (c : Char) (cs : List Char) (hc : (c :: cs).all isDigit = true) :
    Dur.shape ((c :: cs) ++ ['h']) = some (c :: cs, []) := by
  have k1 := takeWhile_digits (c :: cs) 'h' [] hc (by decide)
  unfold Dur.shape
  simp only [k1.1, k1.2, List.takeWhile_nil, List.dropWhile_nil]

theorem Dur.shape_m (c : Char) (cs : List Char) (hc : (c :: cs).all isDigit = true) :
    Dur.shape ((c :: cs) ++ ['m']) = some ([], c :: cs) := by
  have k1 := takeWhile_digits (c :: cs) 'm' [] hc (by decide)
  unfold Dur.shape
  simp only [k1.1, k1.2]

theorem natDigits_cons' (n : Nat) : ∃ c cs, natDigits n = c :: cs ∧ (c :: cs).all isDigit = true := by
  obtain ⟨c, cs, e, h1, h2⟩ := natDigits_cons n
  exact ⟨c, cs, e, by simp [h1, h2]⟩

theorem Dur.shape_body (H M : Nat) (hpos : H > 0 ∨ M > 0) :
    Dur.shape (Dur.body H M) = some (Dur.digitsOr H, Dur.digitsOr M) := by
  obtain ⟨c, cs, e, hc⟩ := natDigits_cons' H
  obtain ⟨c', cs', e', hc'⟩ := natDigits_cons' M
  unfold Dur.body Dur.digitsOr
  by_cases h1 : H > 0
  · by_cases h2 : M > 0
    · simp only [h1, h2, if_true, e, e']
      have := Dur.shape_hm c cs c' cs' hc hc'
      simpa only [List.append_assoc, List.cons_append, List.nil_append] using this
    · simp only [h1, h2, if_true, if_false, e, List.append_nil]
      exact Dur.shape_h c cs hc
  · have h2 : M > 0 := by omega
    simp only [h1, h2, if_true, if_false, e', List.nil_append]
    exact Dur.shape_m c' cs' hc'

theorem Dur.body_cons (H M : Nat) (hpos : H > 0 ∨ M > 0) :
    ∃ c r, Dur.body H M = c :: r ∧ isDigit c = true := by
  obtain ⟨c, cs, e, hc, _⟩ := natDigits_cons H
  obtain ⟨c', cs', e', hc', _⟩ := natDigits_cons M
  unfold Dur.body
  by_cases h1 : H > 0
  · exact ⟨c, _, by simp only [h1, if_true, e, List.cons_append]; rfl, hc⟩
  · have h2 : M > 0 := by omega
    exact ⟨c', _, by simp only [h1, h2, if_true, if_false, e', List.nil_append, List.cons_append]; rfl, hc'⟩

theorem Dur.hval_digitsOr (n : Nat) (hn : (n : Int) ≤ maxInt) :
    (if (Dur.digitsOr n).isEmpty then Res.ok 0 else atoi (Dur.digitsOr n)) = Res.ok (n : Int) := by
  unfold Dur.digitsOr
  by_cases h : n > 0
  · have ne := natDigits_ne_nil n
    have : (natDigits n).isEmpty = false := by
      cases hnd : natDigits n with
      | nil => exact absurd hnd ne
      | cons _ _ => rfl
    simp only [h, if_true, this, Bool.false_eq_true, if_false, atoi, digitsVal_natDigits, hn]
  · have : n = 0 := by omega
    subst this
    simp

theorem safeMul_eq (a b : Int) (h1 : inRange a = true) (h2 : inRange b = true) (h3 : inRange (a * b) = true) :
    safeMul a b = .ok (a * b) := by
  simp only [safeMul, h1, h2, h3, Bool.and_self, if_true]

theorem safeAdd_eq (a b : Int) (h1 : inRange a = true) (h2 : inRange b = true) (h3 : inRange (a + b) = true) :
    safeAdd a b = .ok (a + b) := by
  simp only [safeAdd, h1, h2, h3, Bool.and_self, if_true]

theorem Dur.eval_body (sign : Int) (sg plus : Bool) (H M : Nat) (hs : sign = 1 ∨ sign = -1)
    (hM : M < 60) (hpos : H > 0 ∨ M > 0) (hr : (H : Int) * 60 + (M : Int) ≤ 9223372036854775807) :
    Dur.eval sign sg plus (Dur.digitsOr H) (Dur.digitsOr M)
      = .ok ⟨sign * ((H : Int) * 60 + (M : Int)), plus, 0⟩ := by
  have hH : (H : Int) ≤ maxInt := by unfold maxInt; omega
  have hM' : (M : Int) ≤ maxInt := by unfold maxInt; omega
  unfold Dur.eval
  rw [Dur.hval_digitsOr H hH, Dur.hval_digitsOr M hM']
  dsimp only
  have c1 : decide ((M : Int) ≥ 60) = false := by simp; omega
  have c2 : ((H : Int) == 0 && (M : Int) == 0 && sg) = false := by
    rcases hpos with h | h
    · have : ((H : Int) == 0) = false := by simp; omega
      simp [this]
    · have : ((M : Int) == 0) = false := by simp; omega
      simp [this]
  simp only [c1, c2, Bool.and_false, Bool.false_eq_true, if_false]
  have r1 : inRange (sign * (H : Int)) = true := by rw [inRange_iff]; rcases hs with rfl | rfl <;> omega
  have r2 : inRange 60 = true := by decide
  have r3 : inRange (sign * (H : Int) * 60) = true := by rw [inRange_iff]; rcases hs with rfl | rfl <;> omega
  have r4 : inRange (sign * (M : Int)) = true := by rw [inRange_iff]; rcases hs with rfl | rfl <;> omega
  have r5 : inRange (sign * (H : Int) * 60 + sign * (M : Int)) = true := by
    rw [inRange_iff]; rcases hs with rfl | rfl <;> omega
  rw [safeMul_eq _ _ r1 r2 r3]
  dsimp only
  rw [safeAdd_eq _ _ r3 r4 r5]
  dsimp only
  have : sign * (H : Int) * 60 + sign * (M : Int) = sign * ((H : Int) * 60 + (M : Int)) := by
    rcases hs with rfl | rfl <;> omega
  rw [this]

theorem Dur.parseS_body (sign : Int) (sg plus : Bool) (H M : Nat) (hs : sign = 1 ∨ sign = -1)
    (hM : M < 60) (hpos : H > 0 ∨ M > 0) (hr : (H : Int) * 60 + (M : Int) ≤ 9223372036854775807) :
    Dur.parseS sign sg plus (Dur.body H M) = .ok ⟨sign * ((H : Int) * 60 + (M : Int)), plus, 0⟩ := by
  unfold Dur.parseS
  rw [Dur.shape_body H M hpos]
  exact Dur.eval_body sign sg plus H M hs hM hpos hr

theorem Dur.print_nonzero (d : Dur) (h : d.mins ≠ 0) :
    d.print = (if d.mins < 0 then ['-'] else if d.forcePlus then ['+'] else [])
      ++ Dur.body (d.mins.natAbs / 60) (d.mins.natAbs % 60) := by
  have : (d.mins == 0) = false := by simp [h]
  simp only [Dur.print, this, Bool.false_eq_true, if_false, Dur.body, List.append_assoc]

theorem Dur.parse_print (d : Dur) (h : Dur.WF d) : Dur.parse d.print = .ok d := by
  obtain ⟨mins, fp, zs⟩ := d
  obtain ⟨hr, h0, h1⟩ := h
  dsimp only at hr h0 h1
  by_cases hz : mins = 0
  · subst hz
    obtain ⟨hzs, hfp⟩ := h0 rfl
    have hfp' : fp = decide (zs = 1) := hfp
    clear h0 h1 hfp
    subst hfp'
    rcases hzs with rfl | rfl | rfl <;> rfl
  · obtain ⟨rfl, hfp⟩ := h1 hz
    rw [inRange_iff] at hr
    rw [Dur.print_nonzero _ hz]
    dsimp only
    have hM : mins.natAbs % 60 < 60 := Nat.mod_lt _ (by decide)
    have hpos : mins.natAbs / 60 > 0 ∨ mins.natAbs % 60 > 0 := by omega
    have hb : ((mins.natAbs / 60 : Nat) : Int) * 60 + ((mins.natAbs % 60 : Nat) : Int) ≤ 9223372036854775807 := by
      omega
    by_cases hneg : mins < 0
    · simp only [hneg, if_true, List.cons_append, List.nil_append]
      rw [Dur.parse_minus, Dur.parseS_body _ _ _ _ _ (Or.inr rfl) hM hpos hb]
      have hf : fp = false := by
        cases fp
        · rfl
        · have := hfp rfl; omega
      subst hf
      congr 2
      omega
    · simp only [hneg, if_false]
      cases fp
      · simp only [Bool.false_eq_true, if_false, List.nil_append]
        obtain ⟨c, r, e, hc⟩ := Dur.body_cons _ _ hpos
        have n1 : c ≠ '-' := isDigit_ne c '-' hc (by decide)
        have n2 : c ≠ '+' := isDigit_ne c '+' hc (by decide)
        have := Dur.parse_nosign c r n1 n2
        rw [← e] at this
        rw [this, Dur.parseS_body _ _ _ _ _ (Or.inl rfl) hM hpos hb]
        congr 2
        omega
      · simp only [if_true, List.cons_append, List.nil_append]
        rw [Dur.parse_plus, Dur.parseS_body _ _ _ _ _ (Or.inl rfl) hM hpos hb]
        congr 2
        omega

end KlogV
