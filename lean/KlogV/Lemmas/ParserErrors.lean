/- Lemmas for C10: where the record parser reports its errors. -/
import KlogV.Model.Document
import KlogV.Lemmas.Lines
import KlogV.Lemmas.DurFacts
namespace KlogV

theorem length_takeWhile_le {α} (p : α → Bool) (s : List α) : (s.takeWhile p).length ≤ s.length :=
  (List.takeWhile_prefix p).length_le
theorem length_dropWhile_le {α} (p : α → Bool) (s : List α) : (s.dropWhile p).length ≤ s.length :=
  (List.dropWhile_suffix p).length_le
theorem peekUntil_length_le (p : Char → Bool) (s : List Char) : (peekUntil p s).length ≤ s.length :=
  length_takeWhile_le _ _

/-- Position facts for the outcome of `parseValue`. -/
def ValueRes.Fits (p0 : Int) (n : Nat) : ValueRes → Prop
  | .ok v => v.startPos = p0 ∧ 0 ≤ v.spanLen ∧ p0 + v.spanLen ≤ p0 + n + 1
  | .bad pos len => p0 ≤ pos ∧ 0 ≤ len ∧ pos + len ≤ p0 + n + 1
  | .illegalRange pos len => p0 ≤ pos ∧ 0 ≤ len ∧ pos + len ≤ p0 + n + 1
  | .panic => True

theorem parseValue_fits (p0 : Int) (s : List Char) : (parseValue p0 s).Fits p0 s.length := by
  unfold parseValue
  simp only []
  have h0 := peekUntil_length_le isSpTab s
  split
  · trivial
  · (simp only [ValueRes.Fits]; refine ⟨?_, ?_, ?_⟩ <;> first | trivial | omega)
  · generalize hA : peekUntil (fun c => c == '-' || c == ' ') s = A
    have hAl : A.length ≤ s.length := hA ▸ peekUntil_length_le _ s
    have h1 : (s.drop A.length).length = s.length - A.length := List.length_drop
    have h2 := length_dropWhile_le (fun x => x == ' ') (s.drop A.length)
    split
    · (simp only [ValueRes.Fits]; refine ⟨?_, ?_, ?_⟩ <;> first | trivial | omega)
    · split
      · (simp only [ValueRes.Fits]; refine ⟨?_, ?_, ?_⟩ <;> first | trivial | omega)
      · split
        · rename_i r3 h3
          have h3l := congrArg List.length h3
          simp only [List.length_cons] at h3l
          have h4 := length_dropWhile_le (fun x => x == ' ') r3
          split
          · rename_i r5 h5
            have h5l := congrArg List.length h5
            simp only [List.length_cons] at h5l
            have h6 := peekUntil_length_le isSpTab r5
            have h7 : (r5.drop (peekUntil isSpTab r5).length).length = r5.length - (peekUntil isSpTab r5).length := List.length_drop
            split
            · (simp only [ValueRes.Fits]; refine ⟨?_, ?_, ?_⟩ <;> first | trivial | omega)
            · (simp only [ValueRes.Fits]; refine ⟨?_, ?_, ?_⟩ <;> first | trivial | omega)
          · generalize hr4 : List.dropWhile (fun x => x == ' ') r3 = r4 at *
            have h6 := peekUntil_length_le isSpTab r4
            have h7 : (r4.drop (peekUntil isSpTab r4).length).length = r4.length - (peekUntil isSpTab r4).length := List.length_drop
            split
            · (simp only [ValueRes.Fits]; refine ⟨?_, ?_, ?_⟩ <;> first | trivial | omega)
            · split
              · (simp only [ValueRes.Fits]; refine ⟨?_, ?_, ?_⟩ <;> first | trivial | omega)
              · split
                · (simp only [ValueRes.Fits]; refine ⟨?_, ?_, ?_⟩ <;> first | trivial | omega)
                · (simp only [ValueRes.Fits]; refine ⟨?_, ?_, ?_⟩ <;> first | trivial | omega)
        · (simp only [ValueRes.Fits]; refine ⟨?_, ?_, ?_⟩ <;> first | trivial | omega)

theorem mem_dropWhile_of_false {α} (p : α → Bool) (x : α) (l : List α) (hx : x ∈ l) (hp : p x = false) :
    x ∈ l.dropWhile p := by
  induction l with
  | nil => cases hx
  | cons a l ih =>
    rw [List.dropWhile_cons]
    split
    · rcases List.mem_cons.mp hx with rfl | hx
      · simp_all
      · exact ih hx
    · exact hx

/-- If the text up to `!` is a well-formed duration and there is a `)` somewhere, then something
is left after the `!` (namely at least the `)`). -/
theorem after_bang_nonempty (r2 : List Char)
    (hP : (peekUntil (fun x => x == ')') r2).length ≠ r2.length)
    (hB : (peekUntil (fun x => x == '!') r2).length ≠ r2.length)
    (hd : Dur.parse (peekUntil (fun x => x == '!') r2) ≠ .err) :
    ')' ∈ List.dropWhile isSpTab (List.drop 1 (List.drop (peekUntil (fun x => x == '!') r2).length r2)) := by
  apply mem_dropWhile_of_false _ _ _ _ (by decide)
  -- a `)` occurs in r2
  have hmem : ')' ∈ r2 := by
    unfold peekUntil at hP
    have e := List.takeWhile_append_dropWhile (p := fun c => !(c == ')')) (l := r2)
    have hne : r2.dropWhile (fun c => !(c == ')')) ≠ [] := by
      intro h0; rw [h0, List.append_nil] at e; rw [e] at hP; exact hP rfl
    have hh := List.head_dropWhile_not (fun c => !(c == ')')) hne
    simp only [Bool.not_eq_false', beq_iff_eq] at hh
    have : (r2.dropWhile (fun c => !(c == ')'))).head hne ∈ r2 :=
      (List.dropWhile_sublist _).subset (List.head_mem hne)
    rwa [hh] at this
  unfold peekUntil at hB hd ⊢
  have e := List.takeWhile_append_dropWhile (p := fun c => !(c == '!')) (l := r2)
  have hne : r2.dropWhile (fun c => !(c == '!')) ≠ [] := by
    intro h0; rw [h0, List.append_nil] at e; rw [e] at hB; exact hB rfl
  have hnot : ')' ∉ r2.takeWhile (fun c => !(c == '!')) := fun hc =>
    not_isDurChar_paren (Dur.parse_chars _ hd _ hc)
  generalize r2.takeWhile (fun c => !(c == '!')) = T at *
  have hh := List.head_dropWhile_not (fun c => !(c == '!')) hne
  simp only [Bool.not_eq_false', beq_iff_eq] at hh
  generalize r2.dropWhile (fun c => !(c == '!')) = D at *
  subst e
  rw [List.drop_left]
  cases D with
  | nil => exact absurd rfl hne
  | cons x D' =>
    simp only [List.head_cons] at hh
    subst hh
    simp only [List.drop_succ_cons, List.drop_zero]
    simp only [List.mem_append, List.mem_cons] at hmem
    rcases hmem with h | h | h
    · exact absurd h hnot
    · cases h
    · exact h
def HeadGood (nr : Nat) (hl : List Char) : Res (Option Head × List Err) → Prop
  | .ok (head, es) => es.length ≤ 1 ∧
      (∀ e ∈ es, e.line = nr ∧ 0 ≤ e.pos ∧ 0 ≤ e.len ∧ e.pos + e.len ≤ hl.length + 1) ∧
      (head = none → es ≠ [])
  | .err => False
  | .panic => ∃ t, t <:+: hl ∧ Dur.parse t = .panic

theorem parseHeadline_good (nr : Nat) (hl : List Char) : HeadGood nr hl (parseHeadline nr hl) := by
  unfold parseHeadline
  simp only []
  split
  · simp [HeadGood]
  · rename_i c0 tl
    generalize hhl : c0 :: tl = hl
    have h0 := peekUntil_length_le isSpTab hl
    split
    · simp [HeadGood]; omega
    · split
      · simp [HeadGood]; omega
      · have h1 : (hl.drop (peekUntil isSpTab hl).length).length = hl.length - (peekUntil isSpTab hl).length := List.length_drop
        have h2 := length_dropWhile_le isSpTab (hl.drop (peekUntil isSpTab hl).length)
        have s2 : List.dropWhile isSpTab (hl.drop (peekUntil isSpTab hl).length) <:+ hl :=
          (List.dropWhile_suffix _).trans (List.drop_suffix _ _)
        generalize List.dropWhile isSpTab (hl.drop (peekUntil isSpTab hl).length) = rest at *
        split
        · rename_i r1
          have h3 := length_dropWhile_le isSpTab r1
          have s3 : List.dropWhile isSpTab r1 <:+ hl :=
            ((List.dropWhile_suffix _).trans (List.suffix_cons _ _)).trans s2
          generalize List.dropWhile isSpTab r1 = r2 at *
          have h4 := peekUntil_length_le (fun x => x == ')') r2
          have h5 := peekUntil_length_le (fun x => x == '!') r2
          simp only [List.length_cons] at h2
          split
          · simp [HeadGood]
          · split
            · simp [HeadGood]; omega
            · split
              · rename_i hP _ hB
                simp only [beq_iff_eq] at hP hB
                simp [HeadGood]; omega
              · rename_i hP _ hB
                simp only [beq_iff_eq] at hP hB
                split
                · rename_i hpan
                  exact ⟨_, (List.takeWhile_prefix _).isInfix.trans s3.isInfix, hpan⟩
                · simp [HeadGood]; omega
                · rename_i d hd
                  have hmem := after_bang_nonempty r2 hP hB (by rw [hd]; exact fun h => by cases h)
                  have h6 : (List.drop 1 (List.drop (peekUntil (fun x => x == '!') r2).length r2)).length ≤ r2.length := by
                    simp only [List.length_drop]; omega
                  have h7 := length_dropWhile_le isSpTab (List.drop 1 (List.drop (peekUntil (fun x => x == '!') r2).length r2))
                  generalize List.dropWhile isSpTab (List.drop 1 (List.drop (peekUntil (fun x => x == '!') r2).length r2)) = r3 at *
                  have h8 : 1 ≤ r3.length := List.length_pos_of_mem hmem
                  split
                  · rename_i r4
                    have h9 := length_dropWhile_le isSpTab r4
                    simp only [List.length_cons] at h7
                    split
                    · simp [HeadGood]; omega
                    · simp [HeadGood]
                  · simp [HeadGood]; omega
        · have h3 := length_dropWhile_le isSpTab rest
          split
          · simp [HeadGood]; omega
          · simp [HeadGood]
/-- An error sits on a line of `input` (whose first line has number `nr`) and its span fits. -/
def SpanOK (nr : Nat) (input : List (List Char)) (e : Err) : Prop :=
  nr ≤ e.line ∧ e.line < nr + input.length ∧ 0 ≤ e.pos ∧ 0 ≤ e.len ∧
    e.pos + e.len ≤ ((input[e.line - nr]?).getD []).length + 1

theorem SpanOK.cons {nr : Nat} {l : List Char} {ls : List (List Char)} {e : Err}
    (h : SpanOK (nr + 1) ls e) : SpanOK nr (l :: ls) e := by
  obtain ⟨h1, h2, h3, h4, h5⟩ := h
  refine ⟨by omega, by simp only [List.length_cons]; omega, h3, h4, ?_⟩
  have : e.line - nr = (e.line - (nr + 1)) + 1 := by omega
  rw [this, List.getElem?_cons_succ]; exact h5

theorem summaryGo_spec (nr : Nat) (ls : List (List Char)) :
    ∃ k, (summaryGo nr ls).2.2.1 = nr + k ∧ (summaryGo nr ls).2.2.2 = ls.drop k ∧ k ≤ ls.length ∧
      (∀ e ∈ (summaryGo nr ls).2.1, SpanOK nr ls e ∧ e.line < nr + k) ∧
      ((summaryGo nr ls).2.1.map (·.line)).Pairwise (· < ·) := by
  induction ls generalizing nr with
  | nil => exact ⟨0, by simp [summaryGo]⟩
  | cons l ls ih =>
    unfold summaryGo
    split
    · exact ⟨0, by simp⟩
    · obtain ⟨k, h1, h2, h3, h4, h5⟩ := ih (nr + 1)
      generalize summaryGo (nr + 1) ls = r at *
      obtain ⟨sum, errs, nr', rest⟩ := r
      simp only at h1 h2 h4 h5 ⊢
      refine ⟨k + 1, ?_⟩
      split
      · refine ⟨by simp only; omega, by simpa using h2, by simp; omega, ?_, h5⟩
        intro e he
        exact ⟨(h4 e he).1.cons, by have := (h4 e he).2; omega⟩
      · refine ⟨by simp only; omega, by simpa using h2, by simp; omega, ?_, ?_⟩
        · intro e he
          rcases List.mem_cons.mp he with rfl | he
          · refine ⟨⟨Nat.le_refl _, by simp, Int.le_refl _, by simp, by simp; omega⟩, by simp⟩
          · exact ⟨(h4 e he).1.cons, by have := (h4 e he).2; omega⟩
        · simp only [List.map_cons, List.pairwise_cons]
          refine ⟨?_, h5⟩
          intro a ha
          obtain ⟨e, he, rfl⟩ := List.mem_map.mp ha
          have := (h4 e he).1.1
          omega
/-- Invariant of the entries pass. -/
def PInv (base : Nat) (all : List (List Char)) (nr : Nat) (st : PState) : Prop :=
  (∀ e ∈ st.errs, SpanOK base all e ∧ e.line < nr) ∧
  (st.errs.map (·.line)).Pairwise (· < ·) ∧
  (∀ p, st.pending = some p → p.line < nr ∧
    SpanOK base all ⟨p.line, p.startPos, p.spanLen, .duplicateOpenRange⟩ ∧ ∀ e ∈ st.errs, e.line < p.line)

theorem PInv.mono {base all nr st} (h : PInv base all nr st) : PInv base all (nr + 1) st := by
  obtain ⟨h1, h2, h3⟩ := h
  refine ⟨fun e he => ⟨(h1 e he).1, by have := (h1 e he).2; omega⟩, h2, fun p hp => ?_⟩
  obtain ⟨a, b, c⟩ := h3 p hp
  exact ⟨by omega, b, c⟩

theorem pairwise_append_singleton (l : List Nat) (a : Nat) (hl : l.Pairwise (· < ·)) (ha : ∀ x ∈ l, x < a) :
    (l ++ [a]).Pairwise (· < ·) := by
  rw [List.pairwise_append]
  refine ⟨hl, by simp, ?_⟩
  intro x hx y hy
  simp only [List.mem_singleton] at hy
  subst hy; exact ha x hx

theorem PInv.commit {base all nr st} (h : PInv base all nr st) :
    PInv base all nr st.commit ∧ st.commit.pending = none := by
  obtain ⟨h1, h2, h3⟩ := h
  unfold PState.commit
  split
  · rename_i hp
    exact ⟨⟨h1, h2, h3⟩, hp⟩
  · rename_i p hp
    obtain ⟨a, b, c⟩ := h3 p hp
    split
    · refine ⟨⟨?_, ?_, ?_⟩, rfl⟩
      · intro e he
        simp only [List.mem_append, List.mem_singleton] at he
        rcases he with he | rfl
        · exact h1 e he
        · exact ⟨b, a⟩
      · simp only [List.map_append, List.map_cons, List.map_nil]
        apply pairwise_append_singleton _ _ h2
        intro x hx
        obtain ⟨e, he, rfl⟩ := List.mem_map.mp hx
        exact c e he
      · intro p' hp'; cases hp'
    · refine ⟨⟨h1, h2, ?_⟩, rfl⟩
      intro p' hp'; cases hp'

/-- Appending an error for the current line when nothing is pending. -/
theorem PInv.addErr {base all nr} {st st' : PState} (h : PInv base all nr st) (e : Err)
    (he : SpanOK base all e) (hl : e.line = nr) (herrs : st'.errs = st.errs ++ [e])
    (hpend : st'.pending = none) : PInv base all (nr + 1) st' := by
  obtain ⟨h1, h2, h3⟩ := h
  refine ⟨?_, ?_, ?_⟩
  · intro e' he'
    rw [herrs] at he'
    simp only [List.mem_append, List.mem_singleton] at he'
    rcases he' with he' | rfl
    · exact ⟨(h1 e' he').1, by have := (h1 e' he').2; omega⟩
    · exact ⟨he, by omega⟩
  · rw [herrs]
    simp only [List.map_append, List.map_cons, List.map_nil]
    apply pairwise_append_singleton _ _ h2
    intro x hx
    obtain ⟨e', he', rfl⟩ := List.mem_map.mp hx
    have := (h1 e' he').2; omega
  · intro p hp; rw [hpend] at hp; cases hp

theorem spanOK_of_line {base : Nat} {all : List (List Char)} {nr : Nat} {l : List Char}
    (hb : base ≤ nr) (hl : all[nr - base]? = some l) (pos len : Int) (c : ErrCode)
    (h1 : 0 ≤ pos) (h2 : 0 ≤ len) (h3 : pos + len ≤ l.length + 1) : SpanOK base all ⟨nr, pos, len, c⟩ := by
  have hlt : nr - base < all.length := by
    rcases Nat.lt_or_ge (nr - base) all.length with h | h
    · exact h
    · rw [List.getElem?_eq_none h] at hl; cases hl
  refine ⟨hb, by simp only; omega, h1, h2, ?_⟩
  simp only [hl, Option.getD_some]; exact h3

theorem entryStep_inv (style : List Char) {base : Nat} {all : List (List Char)} {nr : Nat} {st : PState}
    {l : List Char} (h : PInv base all nr st) (hb : base ≤ nr) (hl : all[nr - base]? = some l) :
    PInv base all (nr + 1) (entryStep style st nr l) := by
  unfold entryStep
  split
  · exact h.mono
  · simp only []
    have hmain : PInv base all (nr + 1)
        (if (!style.isPrefixOf l) = true then
          { st.commit with stopped := true, errs := st.commit.errs ++ [⟨nr, 0, l.length, .illegalIndentation⟩] }
        else
          if (match l.drop style.length with | c :: _ => isSpTab c | [] => false) = true then
            { st.commit with stopped := true, errs := st.commit.errs ++ [⟨nr, 0, l.length, .illegalIndentation⟩] }
          else match parseValue style.length (l.drop style.length) with
            | .panic => { st.commit with panicked := true }
            | .bad pos len => { st.commit with errs := st.commit.errs ++ [⟨nr, pos, len, .malformedEntry⟩] }
            | .illegalRange pos len => { st.commit with errs := st.commit.errs ++ [⟨nr, pos, len, .illegalRange⟩] }
            | .ok v =>
              let first : List Char := match v.rest with
                | c :: r => if isSpTab c then r else []
                | [] => []
              { st.commit with pending := some ⟨v.val, [first], nr, v.startPos, v.spanLen⟩ }) := by
      obtain ⟨hc, hcp⟩ := h.commit
      split
      · exact hc.addErr _ (spanOK_of_line hb hl _ _ _ (Int.le_refl _) (by omega) (by omega)) rfl rfl hcp
      · rename_i hpre
        simp only [Bool.not_eq_true, Bool.not_eq_false'] at hpre
        have hpre' : style <+: l := List.isPrefixOf_iff_prefix.mp hpre
        have hlen : l.length = style.length + (l.drop style.length).length := by
          have := hpre'.length_le
          simp only [List.length_drop]; omega
        have hf := parseValue_fits style.length (l.drop style.length)
        have hrest : PInv base all (nr + 1)
            (match parseValue style.length (l.drop style.length) with
            | .panic => { st.commit with panicked := true }
            | .bad pos len => { st.commit with errs := st.commit.errs ++ [⟨nr, pos, len, .malformedEntry⟩] }
            | .illegalRange pos len => { st.commit with errs := st.commit.errs ++ [⟨nr, pos, len, .illegalRange⟩] }
            | .ok v =>
              let first : List Char := match v.rest with
                | c :: r => if isSpTab c then r else []
                | [] => []
              { st.commit with pending := some ⟨v.val, [first], nr, v.startPos, v.spanLen⟩ }) := by
          split
          · rename_i hv
            exact ⟨hc.mono.1, hc.mono.2.1, by simp only [hcp]; intro p hp; cases hp⟩
          · rename_i pos len hv
            rw [hv] at hf; simp only [ValueRes.Fits] at hf
            exact hc.addErr _ (spanOK_of_line hb hl _ _ _ (by omega) (by omega) (by omega)) rfl rfl hcp
          · rename_i pos len hv
            rw [hv] at hf; simp only [ValueRes.Fits] at hf
            exact hc.addErr _ (spanOK_of_line hb hl _ _ _ (by omega) (by omega) (by omega)) rfl rfl hcp
          · rename_i v hv
            rw [hv] at hf; simp only [ValueRes.Fits] at hf
            refine ⟨hc.mono.1, hc.mono.2.1, ?_⟩
            intro p hp
            simp only [Option.some.injEq] at hp
            subst hp
            refine ⟨by simp, ?_, ?_⟩
            · show SpanOK base all ⟨nr, v.startPos, v.spanLen, _⟩
              exact spanOK_of_line hb hl _ _ _ (by omega) (by omega) (by omega)
            intro e he
            exact (hc.1 e he).2
        split
        · split
          · exact hc.addErr _ (spanOK_of_line hb hl _ _ _ (Int.le_refl _) (by omega) (by omega)) rfl rfl hcp
          · exact hrest
        · simp only [Bool.false_eq_true, if_false]
          exact hrest
    split
    · rename_i p hp hdbl
      split
      · obtain ⟨h1, h2, h3⟩ := h.mono
        refine ⟨h1, h2, ?_⟩
        intro p' hp'
        simp only [Option.some.injEq] at hp'
        subst hp'
        exact h3 p hp
      · exact PInv.addErr (st := st.commit) h.commit.1 _
          (spanOK_of_line hb hl _ _ _ (Int.le_refl _) (by omega) (by omega)) rfl rfl h.commit.2
    · exact hmain
theorem entriesGo_inv (style : List Char) (base : Nat) (all : List (List Char)) :
    ∀ (ls pre : List (List Char)) (st : PState), all = pre ++ ls → PInv base all (base + pre.length) st →
      (∀ e ∈ (entriesGo style st (base + pre.length) ls).errs, SpanOK base all e) ∧
      ((entriesGo style st (base + pre.length) ls).errs.map (·.line)).Pairwise (· < ·) := by
  intro ls
  induction ls with
  | nil =>
    intro pre st _ h
    unfold entriesGo
    have := h.commit.1
    exact ⟨fun e he => (this.1 e he).1, this.2.1⟩
  | cons l ls ih =>
    intro pre st hall h
    unfold entriesGo
    have hl : all[base + pre.length - base]? = some l := by
      rw [hall, Nat.add_sub_cancel_left]; simp
    have := entryStep_inv style h (Nat.le_add_right _ _) hl
    have h2 := ih (pre ++ [l]) (entryStep style st (base + pre.length) l) (by simp [hall])
      (by simpa [Nat.add_assoc] using this)
    simpa [Nat.add_assoc] using h2

theorem PInv.init (base : Nat) (all : List (List Char)) : PInv base all base {} :=
  ⟨fun e he => (by cases he), List.Pairwise.nil, fun p hp => (by cases hp)⟩

/-- How the error list of `parseRecord` is composed. -/
theorem parseRecord_errors_decomp (offset : Nat) (hl : List Char) (rest : List (List Char)) (es : List Err)
    (h : parseRecord offset (hl :: rest) = .errors es) :
    ∃ head herrs, parseHeadline offset hl = .ok (head, herrs) ∧
      es = herrs ++ (summaryGo (offset + 1) rest).2.1 ++
        (entriesGo (((summaryGo (offset + 1) rest).2.2.2.head?.bind indentatorOf).getD []) {}
          (summaryGo (offset + 1) rest).2.2.1 (summaryGo (offset + 1) rest).2.2.2).errs ∧
      (head = none ∨ es ≠ []) := by
  unfold parseRecord at h
  simp only [] at h
  split at h
  · cases h
  · cases h
  · rename_i head herrs hh
    refine ⟨head, herrs, hh, ?_⟩
    generalize summaryGo (offset + 1) rest = r at *
    obtain ⟨sum, serrs, nr, rest2⟩ := r
    simp only at h ⊢
    split at h
    · cases h
    · split at h
      · cases h
      · rename_i hne
        simp only [ParseOut.errors.injEq] at h
        subst h
        refine ⟨rfl, ?_⟩
        rename_i head0 _ _
        cases hd0 : head0 with
        | none => exact Or.inl rfl
        | some hd =>
          right
          intro h0
          exact hne hd hd0 h0
theorem SpanOK.drop {nr k : Nat} {ls : List (List Char)} {e : Err}
    (h : SpanOK (nr + k) (ls.drop k) e) : SpanOK nr ls e := by
  obtain ⟨h1, h2, h3, h4, h5⟩ := h
  simp only [List.length_drop] at h2
  refine ⟨by omega, by omega, h3, h4, ?_⟩
  rw [List.getElem?_drop] at h5
  have : e.line - nr = k + (e.line - (nr + k)) := by omega
  rw [this]; exact h5

theorem parseRecord_errors_all (offset : Nat) (lines : List (List Char)) (es : List Err)
    (h : parseRecord offset lines = .errors es) :
    (∀ e ∈ es, SpanOK offset lines e) ∧ (es.map (·.line)).Pairwise (· < ·) ∧ (lines ≠ [] → es ≠ []) := by
  cases lines with
  | nil =>
    simp only [parseRecord, ParseOut.errors.injEq] at h
    subst h
    exact ⟨fun e he => (by cases he), List.Pairwise.nil, fun h => absurd rfl h⟩
  | cons hl rest =>
    obtain ⟨head, herrs, hh, hes, hne⟩ := parseRecord_errors_decomp offset hl rest es h
    have hg := parseHeadline_good offset hl
    rw [hh] at hg
    obtain ⟨g1, g2, g3⟩ := hg
    obtain ⟨k, s1, s2, s3, s4, s5⟩ := summaryGo_spec (offset + 1) rest
    generalize summaryGo (offset + 1) rest = r at *
    obtain ⟨sum, serrs, nr, rest2⟩ := r
    simp only at s1 s2 s4 s5 hes
    obtain ⟨e1, e2⟩ := entriesGo_inv ((rest2.head?.bind indentatorOf).getD []) nr rest2 rest2 [] {} rfl
      (PInv.init nr rest2)
    simp only [List.length_nil, Nat.add_zero] at e1 e2
    generalize (entriesGo ((rest2.head?.bind indentatorOf).getD []) {} nr rest2).errs = eerrs at *
    have hH : ∀ e ∈ herrs, SpanOK offset (hl :: rest) e ∧ e.line = offset := by
      intro e he
      obtain ⟨a, b, c, d⟩ := g2 e he
      refine ⟨⟨by omega, by simp only [List.length_cons]; omega, b, c, ?_⟩, a⟩
      rw [a]; simpa using d
    have hS : ∀ e ∈ serrs, SpanOK offset (hl :: rest) e ∧ offset + 1 ≤ e.line ∧ e.line < nr := by
      intro e he
      obtain ⟨a, b⟩ := s4 e he
      exact ⟨a.cons, a.1, by omega⟩
    have hE : ∀ e ∈ eerrs, SpanOK offset (hl :: rest) e ∧ nr ≤ e.line := by
      intro e he
      have a := e1 e he
      refine ⟨SpanOK.cons (SpanOK.drop (k := k) ?_), a.1⟩
      rw [← s1, ← s2]; exact a
    refine ⟨?_, ?_, fun _ => ?_⟩
    · intro e he
      rw [hes] at he
      simp only [List.mem_append] at he
      rcases he with (he | he) | he
      · exact (hH e he).1
      · exact (hS e he).1
      · exact (hE e he).1
    · rw [hes]
      simp only [List.map_append]
      rw [List.pairwise_append, List.pairwise_append]
      refine ⟨⟨?_, s5, ?_⟩, e2, ?_⟩
      · match herrs, g1 with
        | [], _ => exact List.Pairwise.nil
        | [x], _ => simp
      · intro a ha b hb
        obtain ⟨x, hx, rfl⟩ := List.mem_map.mp ha
        obtain ⟨y, hy, rfl⟩ := List.mem_map.mp hb
        have := (hH x hx).2; have := (hS y hy).2.1; omega
      · intro a ha b hb
        obtain ⟨y, hy, rfl⟩ := List.mem_map.mp hb
        have := (hE y hy).2
        rcases List.mem_append.mp ha with ha | ha
        · obtain ⟨x, hx, rfl⟩ := List.mem_map.mp ha
          have := (hH x hx).2; omega
        · obtain ⟨x, hx, rfl⟩ := List.mem_map.mp ha
          have := (hS x hx).2.2; omega
    · rcases hne with hn | hn
      · have := g3 hn
        rw [hes]
        intro h0
        simp only [List.append_eq_nil_iff] at h0
        exact this h0.1.1
      · exact hn

theorem parseRecord_line_in_block (offset : Nat) (lines : List (List Char)) (es : List Err)
    (h : parseRecord offset lines = .errors es) :
    ∀ e ∈ es, offset ≤ e.line ∧ e.line < offset + lines.length := fun e he =>
  have := (parseRecord_errors_all offset lines es h).1 e he
  ⟨this.1, this.2.1⟩

theorem parseRecord_span_in_line (offset : Nat) (lines : List (List Char)) (es : List Err)
    (h : parseRecord offset lines = .errors es) :
    ∀ e ∈ es, 0 ≤ e.pos ∧ 0 ≤ e.len ∧ e.pos + e.len ≤ ((lines[e.line - offset]?).getD []).length + 1 :=
  fun e he =>
  have := (parseRecord_errors_all offset lines es h).1 e he
  ⟨this.2.2.1, this.2.2.2.1, this.2.2.2.2⟩

theorem parseRecord_ascending (offset : Nat) (lines : List (List Char)) (es : List Err)
    (h : parseRecord offset lines = .errors es) : (es.map (·.line)).Pairwise (· < ·) :=
  (parseRecord_errors_all offset lines es h).2.1

theorem parseRecord_errors_nonempty (offset : Nat) (lines : List (List Char)) (es : List Err)
    (hl : lines ≠ []) (h : parseRecord offset lines = .errors es) : es ≠ [] :=
  (parseRecord_errors_all offset lines es h).2.2 hl
theorem significant_bound (b : List Line) : (significant b).2.1 + (significant b).1.length ≤ b.length := by
  unfold significant
  simp only []
  have e := List.takeWhile_append_dropWhile (p := Line.isBlank) (l := b)
  have h1 := length_takeWhile_le (fun l => !l.isBlank) (b.dropWhile Line.isBlank)
  have h2 := congrArg List.length e
  simp only [List.length_append] at h2
  omega

/-- Facts about the global errors of one block. -/
theorem gerrsOf_block (b : List Line) (n : Nat) :
    ((gerrsOf ⟨b, n, parseBlock b⟩).map (·.lineNumber)).Pairwise (· < ·) ∧
    ∀ e ∈ gerrsOf ⟨b, n, parseBlock b⟩, e.lineText.isSome = true ∧ n + 1 ≤ e.lineNumber ∧
      e.lineNumber ≤ n + b.length := by
  unfold gerrsOf
  simp only []
  split
  · rename_i es hes
    unfold parseBlock at hes
    have hb := significant_bound b
    generalize significant b = sg at *
    obtain ⟨sig, head, tl⟩ := sg
    simp only at hes hb
    have h1 := parseRecord_line_in_block _ _ _ hes
    have h2 := parseRecord_ascending _ _ _ hes
    simp only [List.length_map] at h1
    refine ⟨?_, ?_⟩
    · simp only [List.map_map]
      have : ((fun x : GErr => x.lineNumber) ∘ fun e : Err =>
          (⟨n + e.line + 1, e.pos, e.len, e.code, Option.map (fun x => x.text) b[e.line]?⟩ : GErr))
          = (fun k => n + k + 1) ∘ (fun e : Err => e.line) := rfl
      rw [this, ← List.map_map]
      rw [List.pairwise_map]
      exact h2.imp (by intro a b hab; omega)
    · intro e he
      obtain ⟨x, hx, rfl⟩ := List.mem_map.mp he
      obtain ⟨a, c⟩ := h1 x hx
      have hlt : x.line < b.length := by omega
      simp only [List.getElem?_eq_getElem hlt, Option.map_some, Option.isSome_some, true_and]
      omega
  · exact ⟨List.Pairwise.nil, fun e he => (by cases he)⟩

theorem blockOuts_errs (bs : List (List Line)) (n : Nat) :
    let es := (((bs.zip (firstLineIndices n bs)).map
      (fun (b, i) => (⟨b, i, parseBlock b⟩ : BlockOut))).map gerrsOf).flatten
    (es.map (·.lineNumber)).Pairwise (· < ·) ∧
    ∀ e ∈ es, e.lineText.isSome = true ∧ n + 1 ≤ e.lineNumber ∧
      e.lineNumber ≤ n + (bs.map List.length).sum := by
  induction bs generalizing n with
  | nil => exact ⟨List.Pairwise.nil, fun e he => (by cases he)⟩
  | cons b bs ih =>
    obtain ⟨i1, i2⟩ := ih (n + b.length)
    obtain ⟨g1, g2⟩ := gerrsOf_block b n
    simp only [firstLineIndices, List.zip_cons_cons, List.map_cons, List.flatten_cons, List.map_append,
      List.sum_cons] at i1 i2 ⊢
    refine ⟨?_, ?_⟩
    · rw [List.pairwise_append]
      refine ⟨g1, i1, ?_⟩
      intro a ha c hc
      obtain ⟨x, hx, rfl⟩ := List.mem_map.mp ha
      obtain ⟨y, hy, rfl⟩ := List.mem_map.mp hc
      have := (g2 x hx).2.2
      have := (i2 y hy).2.1
      omega
    · intro e he
      rcases List.mem_append.mp he with he | he
      · obtain ⟨a, c, d⟩ := g2 e he
        exact ⟨a, c, by omega⟩
      · obtain ⟨a, c, d⟩ := i2 e he
        exact ⟨a, by omega, by omega⟩

theorem blocksOf_total (t : Bytes) : ((blocksOf t).map List.length).sum ≤ (splitLines t).length := by
  unfold blocksOf blocksOfLines
  generalize splitLines t = ls
  by_cases h : ∃ l ∈ ls, l.isBlank = false
  · have := blocksGo_flatten .pre [] ls (Or.inr h)
    have h2 := congrArg List.length this
    rw [List.length_flatten] at h2
    simp only [List.nil_append] at h2
    omega
  · have : ∀ l ∈ ls, l.isBlank = true := by
      intro l hl
      cases hb : l.isBlank with
      | true => rfl
      | false => exact absurd ⟨l, hl, hb⟩ h
    rw [blocksGo_pre_allBlank [] ls this]
    simp

theorem parseDoc_errors_ascending (t : Bytes) (es : List GErr) (h : parseDoc t = .errors es) :
    (es.map (·.lineNumber)).Pairwise (· < ·) ∧ ∀ e ∈ es, e.lineText.isSome = true ∧ 1 ≤ e.lineNumber ∧
      e.lineNumber ≤ (splitLines t).length := by
  unfold parseDoc assemble at h
  simp only [] at h
  split at h
  · cases h
  · split at h
    · simp only [DocOut.errors.injEq] at h
      subst h
      obtain ⟨a, b⟩ := blockOuts_errs (blocksOf t) 0
      refine ⟨a, ?_⟩
      intro e he
      obtain ⟨x, y, z⟩ := b e he
      have := blocksOf_total t
      exact ⟨x, by omega, by omega⟩
    · cases h
end KlogV
