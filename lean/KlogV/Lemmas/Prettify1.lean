/- C10 lemmas, part 1: `splitOnChar`, `joinWith`, and the structure of `reflowWords`. -/
import KlogV.Model.Prettify
namespace KlogV.PrettifyLemmas

/-! ## `splitOnChar` and `joinWith` -/

theorem splitOnChar_sep (c : Char) (s : List Char) : splitOnChar c (c :: s) = [] :: splitOnChar c s := by
  simp [splitOnChar]

theorem splitOnChar_ne_nil (c : Char) (s : List Char) : splitOnChar c s ≠ [] := by
  induction s with
  | nil => simp [splitOnChar]
  | cons d s ih =>
    unfold splitOnChar
    split
    · simp
    · split <;> simp

theorem splitOnChar_cons_ne (c d : Char) (s p : List Char) (ps : List (List Char)) (h : d ≠ c)
    (hs : splitOnChar c s = p :: ps) : splitOnChar c (d :: s) = (d :: p) :: ps := by
  have : (d == c) = false := by simpa using h
  simp [splitOnChar, this, hs]

/-- a piece before the first separator -/
theorem splitOnChar_append_sep (c : Char) (a b : List Char) (h : c ∉ a) :
    splitOnChar c (a ++ c :: b) = a :: splitOnChar c b := by
  induction a with
  | nil => exact splitOnChar_sep c b
  | cons d a ih =>
    have hd : d ≠ c := fun e => h (by simp [e])
    have ha : c ∉ a := fun e => h (List.mem_cons_of_mem _ e)
    rw [List.cons_append]
    exact splitOnChar_cons_ne c d _ _ _ hd (ih ha)

theorem splitOnChar_not_mem (c : Char) (a : List Char) (h : c ∉ a) : splitOnChar c a = [a] := by
  induction a with
  | nil => rfl
  | cons d a ih =>
    have hd : d ≠ c := fun e => h (by simp [e])
    have ha : c ∉ a := fun e => h (List.mem_cons_of_mem _ e)
    exact splitOnChar_cons_ne c d _ _ _ hd (ih ha)

/-- no piece contains the separator; every character of a piece is one of the text -/
theorem mem_splitOnChar (c : Char) (s : List Char) :
    ∀ p ∈ splitOnChar c s, c ∉ p ∧ ∀ x ∈ p, x ∈ s := by
  induction s with
  | nil => intro p hp; simp [splitOnChar] at hp; subst hp; simp
  | cons d s ih =>
    by_cases hd : d = c
    · subst hd
      rw [splitOnChar_sep]
      intro p hp
      rcases List.mem_cons.mp hp with rfl | hp
      · simp
      · obtain ⟨a, b⟩ := ih p hp
        exact ⟨a, fun x hx => List.mem_cons_of_mem _ (b x hx)⟩
    · cases hs : splitOnChar c s with
      | nil => exact absurd hs (splitOnChar_ne_nil c s)
      | cons q qs =>
        rw [splitOnChar_cons_ne c d s q qs hd hs]
        rw [hs] at ih
        intro p hp
        rcases List.mem_cons.mp hp with rfl | hp
        · obtain ⟨a, b⟩ := ih q List.mem_cons_self
          refine ⟨?_, ?_⟩
          · intro hm
            rcases List.mem_cons.mp hm with e | e
            · exact hd e.symm
            · exact a e
          · intro x hx
            rcases List.mem_cons.mp hx with e | e
            · simp [e]
            · exact List.mem_cons_of_mem _ (b x e)
        · obtain ⟨a, b⟩ := ih p (List.mem_cons_of_mem _ hp)
          exact ⟨a, fun x hx => List.mem_cons_of_mem _ (b x hx)⟩

theorem joinWith_cons_cons (sep p q : List Char) (ps : List (List Char)) :
    joinWith sep (p :: q :: ps) = p ++ sep ++ joinWith sep (q :: ps) := rfl

theorem joinWith_append (sep : List Char) (a b : List (List Char)) (ha : a ≠ []) (hb : b ≠ []) :
    joinWith sep (a ++ b) = joinWith sep a ++ sep ++ joinWith sep b := by
  induction a with
  | nil => exact absurd rfl ha
  | cons p a ih =>
    cases a with
    | nil =>
      cases b with
      | nil => exact absurd rfl hb
      | cons q b => rfl
    | cons q a =>
      rw [List.cons_append, List.cons_append, joinWith_cons_cons, ← List.cons_append, ih (by simp),
        joinWith_cons_cons]
      simp only [List.append_assoc]

theorem joinWith_singleton (sep p : List Char) : joinWith sep [p] = p := rfl

theorem mem_joinWith (sep : List Char) (ls : List (List Char)) (x : Char) (h : x ∈ joinWith sep ls) :
    x ∈ sep ∨ ∃ l ∈ ls, x ∈ l := by
  induction ls with
  | nil => simp [joinWith] at h
  | cons p ls ih =>
    cases ls with
    | nil => exact Or.inr ⟨p, List.mem_cons_self, h⟩
    | cons q ls =>
      rw [joinWith_cons_cons] at h
      rcases List.mem_append.mp h with h | h
      · rcases List.mem_append.mp h with h | h
        · exact Or.inr ⟨p, List.mem_cons_self, h⟩
        · exact Or.inl h
      · rcases ih h with h | ⟨l, hl, hx⟩
        · exact Or.inl h
        · exact Or.inr ⟨l, List.mem_cons_of_mem _ hl, hx⟩

/-- splitting a joined text that is followed by one more separator -/
theorem splitOnChar_joinWith_sep (c : Char) (ls : List (List Char)) (rest : List Char) (hne : ls ≠ [])
    (h : ∀ l ∈ ls, c ∉ l) : splitOnChar c (joinWith [c] ls ++ c :: rest) = ls ++ splitOnChar c rest := by
  induction ls with
  | nil => exact absurd rfl hne
  | cons p ls ih =>
    cases ls with
    | nil => exact splitOnChar_append_sep c p rest (h p List.mem_cons_self)
    | cons q ls =>
      rw [joinWith_cons_cons]
      simp only [List.append_assoc, List.cons_append, List.nil_append]
      rw [splitOnChar_append_sep c p _ (h p List.mem_cons_self),
        ih (by simp) (fun l hl => h l (List.mem_cons_of_mem _ hl))]
      rfl

theorem splitOnChar_joinWith (c : Char) (ls : List (List Char)) (hne : ls ≠ [])
    (h : ∀ l ∈ ls, c ∉ l) : splitOnChar c (joinWith [c] ls) = ls := by
  induction ls with
  | nil => exact absurd rfl hne
  | cons p ls ih =>
    cases ls with
    | nil => exact splitOnChar_not_mem c p (h p List.mem_cons_self)
    | cons q ls =>
      rw [joinWith_cons_cons]
      simp only [List.append_assoc, List.cons_append, List.nil_append]
      rw [splitOnChar_append_sep c p _ (h p List.mem_cons_self),
        ih (by simp) (fun l hl => h l (List.mem_cons_of_mem _ hl))]

/-- joining joined groups is joining the concatenation of the groups -/
theorem joinWith_map_joinWith (sep : List Char) (lss : List (List (List Char))) (h : ∀ ls ∈ lss, ls ≠ []) :
    joinWith sep (lss.map (joinWith sep)) = joinWith sep lss.flatten := by
  induction lss with
  | nil => rfl
  | cons ls lss ih =>
    cases lss with
    | nil => simp [joinWith]
    | cons ls2 lss =>
      have h1 : ls ≠ [] := h ls List.mem_cons_self
      have h2 : ls2 ≠ [] := h ls2 (List.mem_cons_of_mem _ List.mem_cons_self)
      have e : (ls :: ls2 :: lss).flatten = ls ++ (ls2 :: lss).flatten := rfl
      rw [e, joinWith_append sep ls _ h1 (by simp [h2]), ← ih (fun l hl => h l (List.mem_cons_of_mem _ hl))]
      rfl

/-! ## `reflowWords` -/

/-- the decision to close the current line before placing a word (looks at the NEXT word) -/
def brkOf (maxLen : Nat) (rest : List (List Char)) (cur : List Char) : Bool :=
  match rest with
  | nxt :: _ => decide (byteLen cur + byteLen nxt > maxLen)
  | [] => false

theorem reflowWords_cons (m : Nat) (P : List (List Char)) (w : List Char) (rest done : List (List Char))
    (cur cp : List Char) :
    reflowWords m P (w :: rest) done cur cp =
      if brkOf m rest cur then
        reflowWords m P rest (done ++ [cur]) ((P[(done ++ [cur]).length]?).getD cp ++ w)
          ((P[(done ++ [cur]).length]?).getD cp)
      else if cur.isEmpty then
        reflowWords m P rest done ((P[done.length]?).getD cp ++ w) ((P[done.length]?).getD cp)
      else reflowWords m P rest done (cur ++ [' '] ++ w) cp := by
  cases rest with
  | nil =>
    by_cases h : cur = [] <;> simp [reflowWords, brkOf, h]
  | cons nxt r =>
    conv => lhs; rw [reflowWords]
    by_cases h : byteLen cur + byteLen nxt > m
    · simp [brkOf, h]
    · simp [brkOf, h]

/-- a line: the prefix and the words placed on it -/
def line (pfx : List Char) (ws : List (List Char)) : List Char := pfx ++ joinWith [' '] ws

/-- The loop once a word has been placed: the finished lines and the current one are `line`s of
non-empty groups of words; the result continues these groups with the remaining words. -/
theorem reflowWords_started (m : Nat) (pfx : List Char) (hp : pfx ≠ []) (words : List (List Char)) :
    ∀ (gs : List (List (List Char))) (ws : List (List Char)), ws ≠ [] → (∀ g ∈ gs, g ≠ []) →
      ∃ gs' : List (List (List Char)), reflowWords m [pfx] words (gs.map (line pfx)) (line pfx ws) pfx = gs'.map (line pfx) ∧
        (∀ g ∈ gs', g ≠ []) ∧ gs'.flatten = gs.flatten ++ ws ++ words := by
  induction words with
  | nil =>
    intro gs ws hws hgs
    refine ⟨gs ++ [ws], by simp [reflowWords], ?_, by simp⟩
    intro g hg
    rcases List.mem_append.mp hg with hg | hg
    · exact hgs g hg
    · simp at hg; subst hg; exact hws
  | cons w rest ih =>
    intro gs ws hws hgs
    rw [reflowWords_cons]
    have hne : (line pfx ws).isEmpty = false := by
      cases pfx with
      | nil => exact absurd rfl hp
      | cons a b => rfl
    split
    · have hidx : ([pfx][(gs.map (line pfx) ++ [line pfx ws]).length]?).getD pfx = pfx := by
        simp
      rw [hidx]
      have hgs' : ∀ g ∈ gs ++ [ws], g ≠ [] := by
        intro g hg
        rcases List.mem_append.mp hg with hg | hg
        · exact hgs g hg
        · simp at hg; subst hg; exact hws
      obtain ⟨gs', h1, h2, h3⟩ := ih (gs ++ [ws]) [w] (by simp) hgs'
      refine ⟨gs', ?_, h2, ?_⟩
      · rw [← h1]; simp [line, joinWith]
      · rw [h3]; simp
    · rw [hne]
      simp only [Bool.false_eq_true, if_false]
      obtain ⟨gs', h1, h2, h3⟩ := ih gs (ws ++ [w]) (by simp) hgs
      refine ⟨gs', ?_, h2, ?_⟩
      · rw [← h1]
        simp only [line, joinWith_append [' '] ws [w] hws (by simp), joinWith_singleton, List.append_assoc]
      · rw [h3]; simp

/-- The structure of the result for one prefix, when the loop does not close the (empty) first
line before the first word, i.e. when the second word is not longer than the line. -/
theorem reflowWords_struct (m : Nat) (pfx : List Char) (hp : pfx ≠ []) (words : List (List Char))
    (hne : words ≠ []) (h1 : ∀ w, words[1]? = some w → byteLen w ≤ m) :
    ∃ gs : List (List (List Char)), reflowWords m [pfx] words [] [] [] = gs.map (line pfx) ∧ (∀ g ∈ gs, g ≠ []) ∧
      gs.flatten = words := by
  cases words with
  | nil => exact absurd rfl hne
  | cons w rest =>
    rw [reflowWords_cons]
    have hb : brkOf m rest [] = false := by
      cases rest with
      | nil => rfl
      | cons nxt r =>
        have := h1 nxt rfl
        simp only [brkOf, byteLen, List.map_nil, List.sum_nil, Nat.zero_add, decide_eq_false_iff_not]
        simp only [byteLen] at this
        omega
    rw [hb]
    simp only [Bool.false_eq_true, if_false, List.isEmpty_nil, if_true, List.length_nil]
    obtain ⟨gs', a, b, c⟩ := reflowWords_started m pfx hp rest [] [w] (by simp) (by simp)
    refine ⟨gs', ?_, b, by simpa using c⟩
    rw [← a]
    simp [line, joinWith]

/-- when the first line IS closed at once, the result starts with an empty line -/
theorem reflowWords_first_break (m : Nat) (P : List (List Char)) (w nxt : List Char) (rest : List (List Char))
    (h : byteLen nxt > m) : ∃ ls, reflowWords m P (w :: nxt :: rest) [] [] [] = [] :: ls := by
  rw [reflowWords_cons]
  have hb : brkOf m (nxt :: rest) [] = true := by
    simp only [brkOf, byteLen, List.map_nil, List.sum_nil, Nat.zero_add, decide_eq_true_eq]
    exact h
  rw [hb]
  simp only [if_true]
  have : ∀ (ws done : List (List Char)) (cur cp : List Char),
      ∃ ls, reflowWords m P ws ([] :: done) cur cp = [] :: ls := by
    intro ws
    induction ws with
    | nil => intro done cur cp; exact ⟨done ++ [cur], by simp [reflowWords]⟩
    | cons x ws ih =>
      intro done cur cp
      rw [reflowWords_cons]
      split
      · exact ih _ _ _
      · split
        · exact ih _ _ _
        · exact ih _ _ _
  exact this _ [] _ _

theorem line_prefix (pfx : List Char) (g : List (List Char)) : pfx <+: line pfx g :=
  List.prefix_append _ _

theorem line_drop (pfx : List Char) (g : List (List Char)) :
    (line pfx g).drop pfx.length = joinWith [' '] g := by
  simp [line]

theorem line_not_mem (c : Char) (hc : c ≠ ' ') (pfx : List Char) (g : List (List Char)) (hp : c ∉ pfx)
    (hg : ∀ w ∈ g, c ∉ w) : c ∉ line pfx g := by
  intro h
  rcases List.mem_append.mp h with h | h
  · exact hp h
  · rcases mem_joinWith _ _ _ h with h | ⟨l, hl, hx⟩
    · simp at h; exact hc h
    · exact hg l hl hx

end KlogV.PrettifyLemmas
