/- Round trip (C09), part 7: printed record lines are LineOK and non-blank; the main theorem. -/
import KlogV.Lemmas.RoundtripRecord
namespace KlogV

def plain (c : Char) : Prop := c ≠ '\n' ∧ c ≠ '\r'

theorem plain_of_timeChar (c : Char) (h : timeChar c = true) : plain c := by
  constructor <;> (intro e; subst e; exact absurd h (by decide))

theorem plain_of_durChar (c : Char) (h : durChar c = true) : plain c := by
  constructor <;> (intro e; subst e; exact absurd h (by decide))

theorem plain_of_digit (c : Char) (h : isDigit c = true) : plain c :=
  plain_of_timeChar c (digit_timeChar c h)

theorem LineOK_nil : LineOK [] := ⟨by simp, by simp⟩

theorem LineOK_append_plain (a b : List Char) (ha : ∀ c ∈ a, plain c) (hb : LineOK b) : LineOK (a ++ b) := by
  constructor
  · intro hm
    rcases List.mem_append.mp hm with h | h
    · exact (ha _ h).1 rfl
    · exact hb.1 h
  · cases b with
    | nil =>
      rw [List.append_nil]
      intro h
      exact (ha _ (List.mem_of_getLast? h)).2 rfl
    | cons x b =>
      rw [getLast?_append_of_ne_nil _ _ (by simp)]
      exact hb.2

theorem LineOK_of_plain (a : List Char) (ha : ∀ c ∈ a, plain c) : LineOK a := by
  have := LineOK_append_plain a [] ha LineOK_nil
  rwa [List.append_nil] at this

theorem Date.print_plain (x : Date) : ∀ c ∈ x.print, plain c := by
  intro c hc
  have hd : ∀ n, plain (digitChar n) := fun n => plain_of_digit _ (isDigit_digitChar n)
  unfold Date.print pad4 pad2 at hc
  simp only [List.mem_append, List.mem_cons, List.not_mem_nil, or_false] at hc
  have hsep : plain (if x.dashes = true then '-' else '/') := by
    split <;> (constructor <;> decide)
  rcases hc with (((((h | h | h | h) | h) | (h | h)) | h) | (h | h)) <;> subst h <;>
    first | exact hd _ | exact hsep

theorem plain_sp : plain ' ' := ⟨by decide, by decide⟩

theorem EntryVal.print_plain (v : EntryVal) : ∀ c ∈ v.print, plain c := by
  intro c hc
  have hsp : ∀ (b : Bool), ∀ c ∈ (if b then [' '] else []), plain c := by
    intro b c hc
    cases b <;> simp at hc
    subst hc; exact plain_sp
  cases v with
  | range s t spaced =>
    simp only [EntryVal.print, List.mem_append, List.mem_singleton] at hc
    rcases hc with (((h | h) | h) | h) | h
    · exact plain_of_timeChar c (Time.print_all s c h)
    · exact hsp _ c h
    · subst h; exact ⟨by decide, by decide⟩
    · exact hsp _ c h
    · exact plain_of_timeChar c (Time.print_all t c h)
  | dur d => exact plain_of_durChar c (Dur.print_all d c hc)
  | openRange s spaced n =>
    simp only [EntryVal.print, List.mem_append, List.mem_singleton] at hc
    rcases hc with (((h | h) | h) | h) | h
    · exact plain_of_timeChar c (Time.print_all s c h)
    · exact hsp _ c h
    · subst h; exact ⟨by decide, by decide⟩
    · exact hsp _ c h
    · rw [List.eq_of_mem_replicate h]; exact ⟨by decide, by decide⟩

theorem headOf_plain (r : Record) : ∀ c ∈ headOf r, plain c := by
  intro c hc
  unfold headOf at hc
  rcases List.mem_append.mp hc with h | h
  · exact Date.print_plain _ c h
  · split at h
    · simp only [List.mem_append, List.mem_cons, List.not_mem_nil, or_false] at h
      rcases h with ((h | h) | h) | (h | h)
      · subst h; exact plain_sp
      · subst h; exact ⟨by decide, by decide⟩
      · exact plain_of_durChar c (Dur.print_all _ c h)
      · subst h; exact ⟨by decide, by decide⟩
      · subst h; exact ⟨by decide, by decide⟩
    · simp at h

theorem canonicalIndent_plain : ∀ c ∈ canonicalIndent, plain c := by
  intro c hc
  simp [canonicalIndent] at hc
  subst hc; exact plain_sp

theorem entryLines_ok (e : Entry) (he : EntryWF e) : ∀ l ∈ entryLines e, LineOK l ∧ NB l := by
  obtain ⟨_, hne, hok, hcont⟩ := he
  intro l hl
  unfold entryLines at hl
  simp only [List.mem_cons, List.mem_map] at hl
  rcases hl with rfl | ⟨text, ht, rfl⟩
  · constructor
    · apply LineOK_append_plain
      · intro c hc
        rcases List.mem_append.mp hc with h | h
        · exact canonicalIndent_plain c h
        · exact EntryVal.print_plain _ c h
      · cases hs : e.summary with
        | nil => exact LineOK_nil
        | cons l0 ls =>
          dsimp only
          split
          · exact LineOK_nil
          · have : ' ' :: l0 = [' '] ++ l0 := rfl
            rw [this]
            exact LineOK_append_plain _ _ (by intro c hc; simp at hc; subst hc; exact plain_sp)
              (hok l0 (by rw [hs]; simp))
    · obtain ⟨c, r, e1, hc⟩ := EntryVal.print_head e.val
      refine ⟨c, by rw [e1]; simp, ?_, ?_⟩ <;> (intro h; subst h; exact absurd hc (by decide))
  · have hmem : text ∈ e.summary := List.mem_of_mem_drop ht
    have hcnt := hcont text ht
    constructor
    · exact LineOK_append_plain _ _ (by
        intro c hc
        rcases List.mem_append.mp hc with h | h <;> exact canonicalIndent_plain c h) (hok text hmem)
    · simp only [okEntrySummaryCont, Bool.and_eq_true, Bool.not_eq_true'] at hcnt
      obtain ⟨c, hc, hz⟩ := List.all_eq_false.mp hcnt.2
      refine ⟨c, by simp [hc], ?_, ?_⟩
      · intro h; subst h; exact hz isZsTab_sp
      · intro h; subst h; exact hz isZsTab_tab

theorem recordLines_ok (r : Record) (h : RecordWF r) : ∀ l ∈ recordLines r, LineOK l ∧ NB l := by
  obtain ⟨_, _, hsum, hent, _⟩ := h
  intro l hl
  have hlines : recordLines r = headOf r :: (r.summary ++ r.entries.flatMap entryLines) := by
    unfold recordLines headOf; rfl
  rw [hlines] at hl
  simp only [List.mem_cons, List.mem_append, List.mem_flatMap] at hl
  rcases hl with rfl | h | ⟨e, he, hle⟩
  · refine ⟨LineOK_of_plain _ (headOf_plain r), ?_⟩
    obtain ⟨tl, e⟩ := Date.print_cons r.date
    have h0 : isSpTab (digitChar (r.date.y / 1000)) = false :=
      timeChar_not_spTab _ (digit_timeChar _ (isDigit_digitChar _))
    refine ⟨digitChar (r.date.y / 1000), by unfold headOf; rw [e]; simp, ?_, ?_⟩ <;>
      (intro hh; rw [hh] at h0; exact absurd h0 (by decide))
  · refine ⟨(hsum l h).2, ?_⟩
    obtain ⟨c, r', e, h1, h2⟩ := okRecordSummaryLine_head l (hsum l h).1
    exact ⟨c, by rw [e]; simp, h1, h2⟩
  · exact entryLines_ok e (hent e he) l hle

/-- The main theorem: the printed text parses back to the (canonicalised) records. -/
theorem print_parse_roundtrip (rs : List Record) (h : ∀ r ∈ rs, RecordWF r) :
    ∃ bos, parseDoc (encode (printRecords rs)) = .records (rs.map Record.canon) bos :=
  roundtrip_of_records rs (fun r hr l hl => (recordLines_ok r (h r hr) l hl).1)
    (fun r hr l hl => (recordLines_ok r (h r hr) l hl).2)
    (fun r hr => record_roundtrip r (h r hr))

end KlogV
