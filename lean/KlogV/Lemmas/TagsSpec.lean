/-
Helper lemmas for C14 (tags): the scanner against the declarative grammar `Spec.TagsOf`,
tag sets (`lookupSet`), totals by tag (`aggregateTags`).
-/
import KlogV.Spec.Tags
namespace KlogV
namespace TagLemmas

/-! ### Name characters -/

theorem isNameChar_iff (u : UTab) (c : Char) : u.isNameChar c = true ↔ Spec.NameChar u c := by
  simp [UTab.isNameChar, Spec.NameChar, or_assoc]

theorem isNameChar_false_iff (u : UTab) (c : Char) : u.isNameChar c = false ↔ ¬ Spec.NameChar u c := by
  rw [← isNameChar_iff]; simp

/-! ### `takeWhile` of a maximal run -/

theorem takeWhile_max {α} (p : α → Bool) (a b : List α) (ha : ∀ c ∈ a, p c = true)
    (hb : ∀ c r, b = c :: r → p c = false) : (a ++ b).takeWhile p = a := by
  rw [List.takeWhile_append_of_pos ha]
  cases b with
  | nil => simp
  | cons c r => simp [hb c r rfl]

theorem takeWhile_dropWhile_max {α} (p : α → Bool) (l : List α) :
    (∀ c ∈ l.takeWhile p, p c = true) ∧ (∀ c r, l.dropWhile p = c :: r → p c = false) := by
  constructor
  · intro c hc
    exact (List.all_eq_true.mp (List.all_takeWhile (l := l) (p := p))) c hc
  · intro c r h
    have hne : l.dropWhile p ≠ [] := by rw [h]; simp
    have := List.head_dropWhile_not p hne
    simpa [h] using this

theorem maxRun_iff (u : UTab) (a b : List Char) :
    Spec.MaxRun u a b ↔ (∀ c ∈ a, u.isNameChar c = true) ∧ (∀ c r, b = c :: r → u.isNameChar c = false) := by
  simp only [Spec.MaxRun, isNameChar_iff, isNameChar_false_iff]

theorem maxRun_split (u : UTab) (l : List Char) :
    Spec.MaxRun u (l.takeWhile u.isNameChar) (l.dropWhile u.isNameChar) := by
  rw [maxRun_iff]; exact takeWhile_dropWhile_max _ l

theorem takeWhile_of_maxRun (u : UTab) (a b : List Char) (h : Spec.MaxRun u a b) :
    (a ++ b).takeWhile u.isNameChar = a := by
  rw [maxRun_iff] at h; exact takeWhile_max _ a b h.1 h.2

/-! ### `scanValue` -/

theorem takeWhile_ne_quote (q : Char) (body rest : List Char) (hb : q ∉ body) :
    (body ++ q :: rest).takeWhile (· != q) = body := by
  apply takeWhile_max
  · intro c hc
    have : c ≠ q := fun h => hb (h ▸ hc)
    simpa using this
  · intro c r h
    cases h; simp

theorem takeWhile_ne_quote_all (q : Char) (rest : List Char) (hb : q ∉ rest) :
    rest.takeWhile (· != q) = rest := by
  have := takeWhile_max (· != q) rest [] (by
    intro c hc
    have : c ≠ q := fun h => hb (h ▸ hc)
    simpa using this) (by intro c r h; cases h)
  simpa using this

theorem scanValue_of_valuePart (u : UTab) (a v c : List Char) (h : Spec.ValuePart u a v c) :
    ∀ s, a = '=' :: s → scanValue u s = (v, c.length - 1) := by
  cases h with
  | absent s h => intro s' hs; exact absurd hs (h s')
  | quoted q body rest hq hb =>
    intro s hs
    simp only [List.cons_append, List.cons.injEq, true_and] at hs
    subst hs
    rcases hq with rfl | rfl
    · simp only [scanValue, takeWhile_ne_quote _ v rest hb]; simp
    · simp only [scanValue, takeWhile_ne_quote _ v rest hb]; simp
  | unterminated q rest hq hb =>
    intro s hs
    simp only [List.cons.injEq, true_and] at hs
    subst hs
    rcases hq with rfl | rfl
    · simp only [scanValue, takeWhile_ne_quote_all _ rest hb]; simp
    · simp only [scanValue, takeWhile_ne_quote_all _ rest hb]; simp
  | unquoted v rest hm hnq =>
    intro s hs
    simp only [List.cons_append, List.cons.injEq, true_and] at hs
    subst hs
    unfold scanValue
    split
    · next r heq => exact absurd heq (hnq r).1
    · next r heq => exact absurd heq (hnq r).2
    · simp [takeWhile_of_maxRun u v rest hm]

theorem exists_first (q : Char) (r : List Char) (h : q ∈ r) :
    ∃ body rest, r = body ++ q :: rest ∧ q ∉ body := by
  induction r with
  | nil => cases h
  | cons c r ih =>
    by_cases hc : c = q
    · exact ⟨[], r, by simp [hc], by simp⟩
    · have : q ∈ r := by
        rcases List.mem_cons.mp h with h | h
        · exact absurd h.symm hc
        · exact h
      obtain ⟨body, rest, h1, h2⟩ := ih this
      refine ⟨c :: body, rest, by simp [h1], ?_⟩
      intro hm
      rcases List.mem_cons.mp hm with h | h
      · exact hc h.symm
      · exact h2 h

/-- Every text has a value part (the grammar's value alternatives are exhaustive). -/
theorem valuePart_exists (u : UTab) (a : List Char) :
    ∃ v c rest, Spec.ValuePart u a v c ∧ a = c ++ rest := by
  by_cases h : ∃ s, a = '=' :: s
  · obtain ⟨s, rfl⟩ := h
    by_cases hq : ∃ q r, s = q :: r ∧ (q = '"' ∨ q = '\'')
    · obtain ⟨q, r, rfl, hq⟩ := hq
      by_cases hm : q ∈ r
      · obtain ⟨body, rest, rfl, hb⟩ := exists_first q r hm
        exact ⟨body, '=' :: q :: body ++ [q], rest, .quoted q body rest hq hb, by simp⟩
      · exact ⟨[], ['='], q :: r, .unterminated q r hq hm, by simp⟩
    · refine ⟨s.takeWhile u.isNameChar, '=' :: s.takeWhile u.isNameChar, s.dropWhile u.isNameChar, ?_, by simp⟩
      have := Spec.ValuePart.unquoted (u := u) _ _ (maxRun_split u s) (by
        intro r
        rw [List.takeWhile_append_dropWhile]
        constructor
        · intro hs; exact hq ⟨_, _, hs, .inl rfl⟩
        · intro hs; exact hq ⟨_, _, hs, .inr rfl⟩)
      simpa using this
  · exact ⟨[], [], a, .absent a (fun r hr => h ⟨r, hr⟩), by simp⟩

/-! ### `matchTag` -/

theorem matchTag_of_tag (u : UTab) (name afterName value consumed : List Char)
    (hn : name ≠ []) (hm : Spec.MaxRun u name afterName)
    (hv : Spec.ValuePart u afterName value consumed) :
    matchTag u ('#' :: name ++ afterName) =
      some (⟨name.map u.lower, value⟩, 1 + name.length + consumed.length) := by
  have hne : name.isEmpty = false := by cases name <;> simp_all
  simp only [matchTag, List.cons_append, takeWhile_of_maxRun u name afterName hm, hne,
    List.drop_left, Bool.false_eq_true, if_false]
  by_cases h : ∃ s, afterName = '=' :: s
  · obtain ⟨s, rfl⟩ := h
    have hs := scanValue_of_valuePart u _ _ _ hv s rfl
    have hc : 1 ≤ consumed.length := by
      cases hv <;> simp_all
    simp [hs]; omega
  · split
    · next r2 => exact absurd ⟨r2, rfl⟩ h
    · cases hv with
      | absent => simp
      | quoted => exact absurd ⟨_, rfl⟩ h
      | unterminated => exact absurd ⟨_, rfl⟩ h
      | unquoted => exact absurd ⟨_, rfl⟩ h

theorem matchTag_none_iff (u : UTab) (c : Char) (r : List Char) :
    matchTag u (c :: r) = none ↔ (c ≠ '#' ∨ r = [] ∨ ∃ c' r', r = c' :: r' ∧ ¬ Spec.NameChar u c') := by
  by_cases hc : c = '#'
  · subst hc
    cases r with
    | nil => simp [matchTag]
    | cons c' r' =>
      by_cases hn : u.isNameChar c' = true
      · have hn' := (isNameChar_iff u c').mp hn
        simp only [matchTag, List.takeWhile_cons, hn, if_true]
        simp only [List.isEmpty_cons, Bool.false_eq_true, if_false]
        constructor
        · intro h; split at h <;> simp at h
        · intro h; simp [hn'] at h
      · have hn' : ¬ Spec.NameChar u c' := by rw [← isNameChar_iff]; exact hn
        simp [matchTag, hn, hn']
  · have : matchTag u (c :: r) = none := by
      unfold matchTag
      split
      · next heq => simp at heq; exact absurd heq.1 hc
      · rfl
    simp [this, hc]

/-! ### The scanner against the grammar -/

theorem scanTagsAux_sound (u : UTab) : ∀ fuel s, s.length < fuel → Spec.TagsOf u s (scanTagsAux u fuel s) := by
  intro fuel
  induction fuel with
  | zero => intro s h; omega
  | succ fuel ih =>
    intro s hlen
    cases s with
    | nil => simp only [scanTagsAux]; exact .nil
    | cons c r =>
      simp only [scanTagsAux]
      cases hmt : matchTag u (c :: r) with
      | none =>
        simp only
        exact .skip c r _ ((matchTag_none_iff u c r).mp hmt) (ih r (by simpa using hlen))
      | some tn =>
        obtain ⟨t, n⟩ := tn
        simp only
        -- the match succeeded, so `c = '#'` and the name is non-empty
        have hnone : ¬ (c ≠ '#' ∨ r = [] ∨ ∃ c' r', r = c' :: r' ∧ ¬ Spec.NameChar u c') := by
          rw [← matchTag_none_iff, hmt]; simp
        have hc : c = '#' := by
          apply Classical.byContradiction; intro h; exact hnone (.inl h)
        subst hc
        have hm := maxRun_split u r
        have hn : r.takeWhile u.isNameChar ≠ [] := by
          cases r with
          | nil => exact absurd (.inr (.inl rfl)) hnone
          | cons c' r' =>
            have : u.isNameChar c' = true := by
              apply Classical.byContradiction; intro h
              exact hnone (.inr (.inr ⟨c', r', rfl, by rw [← isNameChar_iff]; exact h⟩))
            simp [this]
        obtain ⟨v, cs, rest, hv, hsplit⟩ := valuePart_exists u (r.dropWhile u.isNameChar)
        have hmt' := matchTag_of_tag u _ _ _ _ hn hm hv
        have hr : '#' :: List.takeWhile u.isNameChar r ++ List.dropWhile u.isNameChar r = '#' :: r := by
          simp
        rw [hr, hmt] at hmt'
        simp only [Option.some.injEq, Prod.mk.injEq] at hmt'
        obtain ⟨ht, hnn⟩ := hmt'
        have hdrop : ('#' :: r).drop n = rest := by
          have : '#' :: r = ('#' :: List.takeWhile u.isNameChar r ++ cs) ++ rest := by
            rw [← hr, hsplit]; simp
          rw [this]
          apply List.drop_left'
          simp; omega
        rw [hdrop, ht, ← hr]
        refine .tag _ _ _ cs rest _ hn hm hv hsplit (ih rest ?_)
        have : ('#' :: r).length = ('#' :: List.takeWhile u.isNameChar r ++ cs ++ rest).length := by
          rw [← hr, hsplit]; simp
        simp at this hlen
        omega

theorem scanTagsAux_complete (u : UTab) (s : List Char) (ts : List Tag) (h : Spec.TagsOf u s ts) :
    ∀ fuel, s.length < fuel → ts = scanTagsAux u fuel s := by
  induction h with
  | nil => intro fuel _; cases fuel <;> simp [scanTagsAux]
  | skip c r ts h _ ih =>
    intro fuel hlen
    cases fuel with
    | zero => omega
    | succ fuel =>
      simp only [scanTagsAux, (matchTag_none_iff u c r).mpr h]
      exact ih fuel (by simpa using hlen)
  | tag name afterName value consumed rest ts hn hm hv hr _ ih =>
    intro fuel hlen
    cases fuel with
    | zero => omega
    | succ fuel =>
      have hmt := matchTag_of_tag u _ _ _ _ hn hm hv
      simp only [List.cons_append] at hmt hlen ⊢
      simp only [scanTagsAux, hmt]
      have hdrop : ('#' :: (name ++ afterName)).drop (1 + name.length + consumed.length) = rest := by
        have : '#' :: (name ++ afterName) = ('#' :: name ++ consumed) ++ rest := by
          rw [hr]; simp
        rw [this]
        apply List.drop_left'
        simp; omega
      rw [hdrop]
      congr 1
      apply ih
      rw [hr] at hlen
      simp at hlen
      omega

theorem tagsOf_name_lower (u : UTab) (hl : ∀ c, u.lower (u.lower c) = u.lower c) (s : List Char)
    (ts : List Tag) (h : Spec.TagsOf u s ts) : ∀ t ∈ ts, t.name.map u.lower = t.name := by
  induction h with
  | nil => intro t ht; cases ht
  | skip c r ts h _ ih => exact ih
  | tag name afterName value consumed rest ts hn hm hv hr _ ih =>
    intro t ht
    rcases List.mem_cons.mp ht with rfl | ht
    · simp [hl]
    · exact ih t ht

theorem valuePart_infix (u : UTab) (a v c : List Char) (h : Spec.ValuePart u a v c) :
    ∃ pre post, a = pre ++ v ++ post := by
  cases h with
  | absent s h => exact ⟨[], a, by simp⟩
  | quoted q body rest hq hb => exact ⟨['=', q], q :: rest, by simp⟩
  | unterminated q rest hq hb => exact ⟨[], _, by simp; rfl⟩
  | unquoted v rest hm hnq => exact ⟨['='], rest, by simp⟩

theorem tagsOf_value_infix (u : UTab) (s : List Char) (ts : List Tag) (h : Spec.TagsOf u s ts) :
    ∀ t ∈ ts, ∃ pre post, s = pre ++ t.value ++ post := by
  induction h with
  | nil => intro t ht; cases ht
  | skip c r ts h _ ih =>
    intro t ht
    obtain ⟨pre, post, h⟩ := ih t ht
    exact ⟨c :: pre, post, by simp [h]⟩
  | tag name afterName value consumed rest ts hn hm hv hr _ ih =>
    intro t ht
    rcases List.mem_cons.mp ht with rfl | ht
    · obtain ⟨pre, post, h⟩ := valuePart_infix u _ _ _ hv
      exact ⟨'#' :: name ++ pre, post, by simp [h]⟩
    · obtain ⟨pre, post, h⟩ := ih t ht
      exact ⟨'#' :: name ++ consumed ++ pre, post, by simp [hr, h]⟩

/-! ### `eraseDups`, `lookupSet` -/

theorem nodup_eraseDups {α} [BEq α] [LawfulBEq α] : ∀ (n : Nat) (l : List α), l.length ≤ n → l.eraseDups.Nodup := by
  intro n
  induction n with
  | zero => intro l h; cases l <;> simp_all
  | succ n ih =>
    intro l h
    cases l with
    | nil => simp
    | cons a as =>
      rw [List.eraseDups_cons, List.nodup_cons]
      constructor
      · simp [List.mem_eraseDups]
      · apply ih
        have := List.length_filter_le (fun b => !b == a) as
        simp at h; omega

theorem nodup_lookupSet (ts : List Tag) : (lookupSet ts).Nodup :=
  nodup_eraseDups _ _ (Nat.le_refl _)

theorem filter_beq_nodup {α} [BEq α] [LawfulBEq α] (l : List α) (h : l.Nodup) (t : α) :
    l.filter (· == t) = if l.contains t then [t] else [] := by
  induction l with
  | nil => simp
  | cons a l ih =>
    rw [List.nodup_cons] at h
    by_cases hat : a = t
    · subst hat
      have : l.filter (· == a) = [] := by
        rw [ih h.2]; simp [h.1]
      simp [this]
    · have hat' : (a == t) = false := by simpa using hat
      have hta : (t == a) = false := by simpa using (fun h => hat h.symm)
      simp only [List.filter_cons, hat', List.contains_cons, hta, Bool.false_or]
      simpa using ih h.2

/-! ### `addStat` and the fold -/

/-- The invariant of the statistics list after the contributions `cs` have been added. -/
def Inv (st : List TagStat) (cs : List (Tag × Int)) : Prop :=
  (st.map (·.tag)).Nodup ∧
  (∀ s ∈ st, s.total = ((cs.filter (·.1 == s.tag)).map (·.2)).sum ∧
      s.count = (cs.filter (·.1 == s.tag)).length ∧ 0 < s.count) ∧
  (∀ t, t ∈ st.map (·.tag) ↔ t ∈ cs.map (·.1))

theorem inv_nil : Inv [] [] := by simp [Inv]

theorem inv_addStat (st : List TagStat) (cs : List (Tag × Int)) (t : Tag) (d : Int) (h : Inv st cs) :
    Inv (addStat st t d) (cs ++ [(t, d)]) := by
  obtain ⟨h1, h2, h3⟩ := h
  unfold addStat
  by_cases hany : st.any (·.tag == t) = true
  · rw [if_pos hany]
    have hmem : t ∈ st.map (·.tag) := by
      simp only [List.any_eq_true, beq_iff_eq] at hany
      obtain ⟨s, hs, rfl⟩ := hany
      exact List.mem_map_of_mem hs
    have hmap : (st.map (fun s => if s.tag == t then { s with total := s.total + d, count := s.count + 1 } else s)).map (·.tag)
        = st.map (·.tag) := by
      rw [List.map_map]
      apply List.map_congr_left
      intro s _
      simp only [Function.comp]
      split <;> rfl
    refine ⟨by rw [hmap]; exact h1, ?_, ?_⟩
    · intro s' hs'
      obtain ⟨s, hs, rfl⟩ := List.mem_map.mp hs'
      obtain ⟨e1, e2, e3⟩ := h2 s hs
      by_cases hst : s.tag = t
      · subst hst
        simp [List.filter_append, e1, e2]
      · have hts : ¬ t = s.tag := fun h => hst h.symm
        have hif : (if (s.tag == t) = true then { s with total := s.total + d, count := s.count + 1 } else s) = s := by
          simp [hst]
        rw [hif]
        refine ⟨?_, ?_, e3⟩
        · simp [List.filter_append, hts, ← e1]
        · simp [List.filter_append, hts, ← e2]
    · intro t'
      rw [hmap, h3 t']
      have := (h3 t).mp hmem
      simp only [List.map_append, List.mem_append, List.map_cons, List.map_nil, List.mem_singleton]
      constructor
      · exact .inl
      · rintro (h | rfl)
        · exact h
        · exact this
  · rw [if_neg hany]
    have hnmem : t ∉ st.map (·.tag) := by
      intro hm
      apply hany
      obtain ⟨s, hs, rfl⟩ := List.mem_map.mp hm
      simp only [List.any_eq_true, beq_iff_eq]
      exact ⟨s, hs, rfl⟩
    have hncs : t ∉ cs.map (·.1) := fun h => hnmem ((h3 t).mpr h)
    refine ⟨?_, ?_, ?_⟩
    · rw [List.map_append, List.nodup_append]
      refine ⟨h1, by simp, ?_⟩
      intro a ha b hb
      simp at hb
      subst hb
      intro hab; subst hab; exact hnmem ha
    · intro s hs
      rcases List.mem_append.mp hs with hs1 | hs1
      · obtain ⟨e1, e2, e3⟩ := h2 s hs1
        have hst : ¬ t = s.tag := by
          intro h; apply hnmem; rw [h]; exact List.mem_map_of_mem hs1
        refine ⟨?_, ?_, e3⟩
        · simp [List.filter_append, hst, ← e1]
        · simp [List.filter_append, hst, ← e2]
      · simp only [List.mem_singleton] at hs1
        subst hs1
        have : cs.filter (·.1 == t) = [] := by
          rw [List.filter_eq_nil_iff]
          intro c hc hct
          apply hncs
          simp only [beq_iff_eq] at hct
          subst hct
          exact List.mem_map_of_mem hc
        simp [List.filter_append, this]
    · intro t'
      rw [List.map_append, List.mem_append, h3 t']
      simp

theorem inv_foldl (cs : List (Tag × Int)) : ∀ (st : List TagStat) (cs0 : List (Tag × Int)), Inv st cs0 →
    Inv (cs.foldl (fun acc c => addStat acc c.1 c.2) st) (cs0 ++ cs) := by
  induction cs with
  | nil => intro st cs0 h; simpa using h
  | cons c cs ih =>
    intro st cs0 h
    have := ih _ _ (inv_addStat st cs0 c.1 c.2 h)
    simpa using this

/-- All (record, entry) pairs of a list of records, in order. -/
def allEntries (rs : List Record) : List (Record × Entry) := rs.flatMap (fun r => r.entries.map (fun e => (r, e)))

/-- The (tag, minutes) contributions in the order `aggregateTags` processes them. -/
def contribs (u : UTab) (rs : List Record) : List (Tag × Int) :=
  (allEntries rs).flatMap (fun p => (entryTagSet u p.1 p.2).map (fun t => (t, p.2.minutes)))

theorem aggregateTags_eq (u : UTab) (rs : List Record) :
    aggregateTags u rs = (contribs u rs).foldl (fun acc c => addStat acc c.1 c.2) [] := by
  unfold aggregateTags contribs allEntries
  simp only [List.foldl_flatMap, List.foldl_map]

theorem contribs_filter (u : UTab) (rs : List Record) (t : Tag) :
    ((contribs u rs).filter (·.1 == t)).map (·.2) =
      ((allEntries rs).filter (fun p => (entryTagSet u p.1 p.2).contains t)).map (fun p => p.2.minutes) := by
  unfold contribs
  induction allEntries rs with
  | nil => simp
  | cons p ps ih =>
    rw [List.flatMap_cons, List.filter_append, List.map_append, ih]
    have hnd : (entryTagSet u p.1 p.2).Nodup := nodup_lookupSet _
    have h1 : ((entryTagSet u p.1 p.2).map (fun t => (t, p.2.minutes))).filter (·.1 == t)
        = ((entryTagSet u p.1 p.2).filter (· == t)).map (fun t => (t, p.2.minutes)) := by
      rw [List.filter_map]; rfl
    rw [h1, filter_beq_nodup _ hnd t, List.filter_cons]
    split <;> simp

theorem aggregateTags_inv (u : UTab) (rs : List Record) : Inv (aggregateTags u rs) (contribs u rs) := by
  rw [aggregateTags_eq]
  simpa using inv_foldl (contribs u rs) [] [] inv_nil

end TagLemmas

open TagLemmas

theorem scanTags_sound (u : UTab) (line : List Char) : Spec.TagsOf u line (scanTags u line) :=
  scanTagsAux_sound u _ _ (Nat.lt_succ_self _)

theorem scanTags_complete (u : UTab) (line : List Char) (ts : List Tag) (h : Spec.TagsOf u line ts) :
    ts = scanTags u line :=
  scanTagsAux_complete u line ts h _ (Nat.lt_succ_self _)

theorem scanTags_name_lower (u : UTab) (hl : ∀ c, u.lower (u.lower c) = u.lower c) (line : List Char) :
    ∀ t ∈ scanTags u line, t.name.map u.lower = t.name :=
  tagsOf_name_lower u hl line _ (scanTags_sound u line)

theorem scanTags_value_infix (u : UTab) (line : List Char) :
    ∀ t ∈ scanTags u line, ∃ pre post, line = pre ++ t.value ++ post :=
  tagsOf_value_infix u line _ (scanTags_sound u line)

theorem mem_lookupSet (ts : List Tag) (t : Tag) :
    t ∈ lookupSet ts ↔ (t ∈ ts ∨ (t.value = [] ∧ ∃ t' ∈ ts, t'.name = t.name)) := by
  simp only [lookupSet, List.mem_eraseDups, List.mem_flatMap, List.mem_cons, List.not_mem_nil, or_false]
  constructor
  · rintro ⟨t', ht', rfl | rfl⟩
    · exact .inl ht'
    · exact .inr ⟨rfl, t', ht', rfl⟩
  · rintro (h | ⟨hv, t', ht', hn⟩)
    · exact ⟨t, h, .inl rfl⟩
    · refine ⟨t', ht', .inr ?_⟩
      cases t; simp_all

theorem entryTagSet_iff (u : UTab) (r : Record) (e : Entry) (t : Tag) :
    t ∈ entryTagSet u r e ↔ (t ∈ lookupSet (summaryTags u r.summary) ∨ t ∈ lookupSet (summaryTags u e.summary)) := by
  simp only [entryTagSet, lookupSet, List.mem_eraseDups, List.flatMap_append, List.mem_append]

theorem aggregateTags_spec (u : UTab) (rs : List Record) :
    ((aggregateTags u rs).map (·.tag)).Nodup ∧
    ∀ s ∈ aggregateTags u rs,
      s.total = (((rs.flatMap (fun r => r.entries.map (fun e => (r, e)))).filter
        (fun p => (entryTagSet u p.1 p.2).contains s.tag)).map (fun p => p.2.minutes)).sum ∧
      s.count = ((rs.flatMap (fun r => r.entries.map (fun e => (r, e)))).filter
        (fun p => (entryTagSet u p.1 p.2).contains s.tag)).length ∧ 0 < s.count := by
  obtain ⟨h1, h2, _⟩ := aggregateTags_inv u rs
  refine ⟨h1, ?_⟩
  intro s hs
  obtain ⟨e1, e2, e3⟩ := h2 s hs
  have hf := contribs_filter u rs s.tag
  refine ⟨?_, ?_, e3⟩
  · rw [e1, hf]; rfl
  · have := congrArg List.length hf
    simp only [List.length_map] at this
    rw [e2, this]; rfl

theorem aggregateTags_mem (u : UTab) (rs : List Record) (t : Tag) :
    t ∈ (aggregateTags u rs).map (·.tag) ↔
      ∃ p ∈ rs.flatMap (fun r => r.entries.map (fun e => (r, e))), t ∈ entryTagSet u p.1 p.2 := by
  obtain ⟨_, _, h3⟩ := aggregateTags_inv u rs
  rw [h3 t]
  show t ∈ (contribs u rs).map (·.1) ↔ ∃ p ∈ allEntries rs, t ∈ entryTagSet u p.1 p.2
  unfold contribs
  simp only [List.mem_map, List.mem_flatMap]
  constructor
  · rintro ⟨c, ⟨p, hp, t', ht', rfl⟩, rfl⟩
    exact ⟨p, hp, ht'⟩
  · rintro ⟨p, hp, ht⟩
    exact ⟨(t, p.2.minutes), ⟨p, hp, t, ht, rfl⟩, rfl⟩

end KlogV
