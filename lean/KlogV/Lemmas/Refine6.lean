/-
Helper lemmas for C04, part 6: simulation between two runs of the entries pass over the same
lines (different line numbers, different entries already read).
-/
import KlogV.Lemmas.Refine5
namespace KlogV.RefineLemmas

def pend (st : PState) : Option (EntryVal × List (List Char)) := st.pending.map (fun p => (p.val, p.summary))

/-- `b` is `a` with `E` already read before (`H`: an open range among them).  The entries and the
open-range flag are only related as long as there is no error: after a malformed continuation line
the pending entry is committed on both sides, with different outcomes when `H` holds. -/
structure Sim (E : List Entry) (H : Bool) (a b : PState) : Prop where
  entries : a.errs = [] → b.entries = E ++ a.entries
  errs : a.errs = [] ↔ b.errs = []
  hasOpen : a.errs = [] → b.hasOpen = (H || a.hasOpen)
  stopped : a.stopped = b.stopped
  panicked : a.panicked = b.panicked
  pending : pend a = pend b

theorem pend_none (a : PState) : pend a = none ↔ a.pending = none := by
  simp [pend]

theorem commit_of_none (a : PState) (h : a.pending = none) : a.commit = a := by
  unfold PState.commit; rw [h]

theorem commit_pend_none (st : PState) : pend st.commit = none := by
  rw [pend_none]
  unfold PState.commit
  split
  · assumption
  · split <;> rfl

/-- once there is an error, the commit keeps the (then weak) relation -/
theorem commit_sim_err (E : List Entry) (H : Bool) (a b : PState) (h : Sim E H a b)
    (hae : a.errs ≠ []) : Sim E H a.commit b.commit := by
  have hbe : b.errs ≠ [] := fun e => hae (h.errs.mpr e)
  have hac := commit_errs_mono a hae
  have hbc := commit_errs_mono b hbe
  refine ⟨fun e => absurd e hac, ⟨fun e => absurd e hac, fun e => absurd e hbc⟩, fun e => absurd e hac, ?_, ?_, ?_⟩
  · rw [commit_stopped, commit_stopped]; exact h.stopped
  · rw [commit_panicked, commit_panicked]; exact h.panicked
  · rw [commit_pend_none, commit_pend_none]

theorem commit_sim (E : List Entry) (H : Bool) (a b : PState) (h : Sim E H a b)
    (hc : H = false ∨ a.pending = none) : Sim E H a.commit b.commit := by
  cases ha : a.pending with
  | none =>
    have hb : b.pending = none := by
      rw [← pend_none, ← h.pending, pend_none]; exact ha
    rw [commit_of_none a ha, commit_of_none b hb]; exact h
  | some p =>
    have hH : H = false := by
      rcases hc with h0 | h0
      · exact h0
      · rw [ha] at h0; cases h0
    cases hb : b.pending with
    | none =>
      have := h.pending
      simp [pend, ha, hb] at this
    | some q =>
      have hpq := h.pending
      simp only [pend, ha, hb, Option.map_some, Option.some.injEq, Prod.mk.injEq] at hpq
      obtain ⟨hv, hs⟩ := hpq
      by_cases hae : a.errs = []
      · have hopen : b.hasOpen = a.hasOpen := by rw [h.hasOpen hae, hH]; rfl
        unfold PState.commit
        simp only [ha, hb]
        rw [← hv, hopen]
        split
        · exact ⟨by simp, by simp, by simp, h.stopped, h.panicked, rfl⟩
        · refine ⟨fun _ => ?_, h.errs, fun _ => ?_, h.stopped, h.panicked, rfl⟩
          · simp [h.entries hae, hs]
          · simp [hH]
      · exact commit_sim_err E H a b h hae

theorem entryStepB_sim (style : List Char) (E : List Entry) (H : Bool) (a b : PState) (nr nr' : Nat)
    (l : List Char) (h : Sim E H a b) :
    Sim E H (entryStepB style a nr l) (entryStepB style b nr' l) := by
  unfold entryStepB
  dsimp only
  repeat' split
  all_goals
    first
    | exact ⟨by simp, by simp, by simp, rfl, h.panicked, h.pending⟩
    | exact ⟨h.entries, h.errs, h.hasOpen, h.stopped, rfl, h.pending⟩
    | exact ⟨by simp, by simp, by simp, h.stopped, h.panicked, h.pending⟩
    | exact ⟨h.entries, h.errs, h.hasOpen, h.stopped, h.panicked, rfl⟩
    | simp_all

theorem entryStep_sim (style : List Char) (E : List Entry) (H : Bool) (a b : PState) (nr nr' : Nat)
    (l : List Char) (h : Sim E H a b)
    (hc : H = false ∨ a.pending = none ∨ (style ++ style).isPrefixOf l = true) :
    Sim E H (entryStep style a nr l) (entryStep style b nr' l) := by
  rw [entryStep_eq, entryStep_eq, ← h.stopped, ← h.panicked]
  split
  · exact h
  · cases ha : a.pending with
    | none =>
      have hb : b.pending = none := by
        rw [← pend_none, ← h.pending, pend_none]; exact ha
      rw [hb]
      exact entryStepB_sim style E H _ _ nr nr' l (commit_sim E H a b h (Or.inr ha))
    | some p =>
      cases hb : b.pending with
      | none =>
        have := h.pending
        simp [pend, ha, hb] at this
      | some q =>
        have hpq := h.pending
        simp only [pend, ha, hb, Option.map_some, Option.some.injEq, Prod.mk.injEq] at hpq
        obtain ⟨hv, hs⟩ := hpq
        cases hd : (style ++ style).isPrefixOf l with
        | true =>
          dsimp only
          split
          · refine ⟨h.entries, h.errs, h.hasOpen, rfl, rfl, ?_⟩
            simp [pend, hv, hs]
          · have hc1 : (a.commit.errs ++ [(⟨nr, 0, l.length, .malformedSummary⟩ : Err)]) ≠ [] := by simp
            have hc2 : (b.commit.errs ++ [(⟨nr', 0, l.length, .malformedSummary⟩ : Err)]) ≠ [] := by simp
            refine ⟨fun e => absurd e hc1, ⟨fun e => absurd e hc1, fun e => absurd e hc2⟩,
              fun e => absurd e hc1, ?_, ?_, ?_⟩
            · show a.commit.stopped = b.commit.stopped
              rw [commit_stopped, commit_stopped]; exact h.stopped
            · show a.commit.panicked = b.commit.panicked
              rw [commit_panicked, commit_panicked]; exact h.panicked
            · show pend a.commit = pend b.commit
              rw [commit_pend_none, commit_pend_none]
        | false =>
          have hH : H = false := by
            rcases hc with h0 | h0 | h0
            · exact h0
            · rw [ha] at h0; cases h0
            · rw [hd] at h0; cases h0
          exact entryStepB_sim style E H _ _ nr nr' l (commit_sim E H a b h (Or.inl hH))

theorem stepsGo_sim (style : List Char) (E : List Entry) (H : Bool) (ls : List (List Char))
    (hls : H = false ∨ ∀ l ∈ ls, (style ++ style).isPrefixOf l = true) :
    ∀ (a b : PState) (nr nr' : Nat), Sim E H a b → Sim E H (stepsGo style a nr ls) (stepsGo style b nr' ls) := by
  induction ls with
  | nil => intro a b nr nr' h; exact h
  | cons l ls ih =>
    intro a b nr nr' h
    simp only [stepsGo]
    apply ih
    · rcases hls with h0 | h0
      · exact Or.inl h0
      · exact Or.inr (fun x hx => h0 x (by simp [hx]))
    · apply entryStep_sim _ _ _ _ _ _ _ _ h
      rcases hls with h0 | h0
      · exact Or.inl h0
      · exact Or.inr (Or.inr (h0 l (by simp)))

/-- line numbers only matter for the positions of errors -/
theorem entriesGo_indep (style : List Char) (ls : List (List Char)) (nr nr' : Nat) :
    Sim [] false (entriesGo style {} nr ls) (entriesGo style {} nr' ls) := by
  rw [entriesGo_eq, entriesGo_eq]
  have h0 : Sim [] false ({} : PState) {} := ⟨fun _ => rfl, Iff.rfl, fun _ => rfl, rfl, rfl, rfl⟩
  exact commit_sim _ _ _ _ (stepsGo_sim style [] false ls (Or.inl rfl) _ _ nr nr' h0) (Or.inl rfl)

/-- the result of `parseRecord`, as far as it does not depend on the offset -/
theorem parseRecord_indep (o o' : Nat) (lines : List (List Char)) (r : Record)
    (h : parseRecord o lines = .record r) : parseRecord o' lines = .record r := by
  unfold parseRecord at h ⊢
  cases lines with
  | nil => simp at h
  | cons hl rest =>
    dsimp only at h ⊢
    obtain ⟨hk, hpanic, herr⟩ := parseHeadline_indep o o' hl
    cases hph : parseHeadline o hl with
    | panic => rw [hph] at h; simp at h
    | err => rw [hph] at h; simp at h
    | ok p =>
      obtain ⟨head, herrs⟩ := p
      obtain ⟨herrs', hph', hiff⟩ := hk head herrs hph
      rw [hph] at h
      rw [hph']
      dsimp only at h ⊢
      obtain ⟨s1, s2, s3⟩ := summaryGo_indep rest (o + 1) (o' + 1)
      cases ha : summaryGo (o + 1) rest with
      | mk sum r1 =>
      obtain ⟨serrs, nr, rest2⟩ := r1
      cases hb : summaryGo (o' + 1) rest with
      | mk sum' r2 =>
      obtain ⟨serrs', nr', rest2'⟩ := r2
      rw [ha, hb] at s1 s2 s3
      simp only at s1 s2 s3
      subst s1 s3
      rw [ha] at h
      dsimp only at h ⊢
      have hsim := entriesGo_indep ((rest2.head?.bind indentatorOf).getD []) rest2 nr nr'
      generalize entriesGo ((rest2.head?.bind indentatorOf).getD []) {} nr rest2 = A at h hsim
      generalize entriesGo ((rest2.head?.bind indentatorOf).getD []) {} nr' rest2 = B at hsim
      rw [← hsim.panicked]
      split at h
      · cases h
      · rename_i hnp
        rw [if_neg hnp]
        split at h
        · rename_i hd heq
          simp only [ParseOut.record.injEq] at h
          have e1 : herrs = [] := by
            simp only [List.append_eq_nil_iff] at heq; exact heq.1.1
          have e2 : serrs = [] := by
            simp only [List.append_eq_nil_iff] at heq; exact heq.1.2
          have e3 : A.errs = [] := by
            simp only [List.append_eq_nil_iff] at heq; exact heq.2
          have e1' := hiff.mpr e1
          have e2' := s2.mp e2
          have e3' := hsim.errs.mp e3
          have e4 : B.entries = A.entries := by simpa using hsim.entries e3
          simp only [e1', e2', e3', e4, List.append_nil]
          exact congrArg _ h
        · cases h

end KlogV.RefineLemmas
