/- Helper lemmas for KlogV/Props/GoSrc.lean (the translated Go source computes the model's functions), part B. Core Lean only. -/
import KlogV.GoSem.Abs
import KlogV.Lemmas.GoSrcB1
import KlogV.Lemmas.GoSrcB2
import KlogV.Lemmas.GoSrcB3
namespace KlogV.GoL
open KlogV.Go

theorem newDurationWithFormat_eq (h m : Int) (f : GoSrc.DurationFormat) :
    (GoSrc.NewDurationWithFormat h m f).res =
      ((safeMul h 60).bind fun x => safeAdd x m).map (fun tot => (⟨tot, f⟩ : GoSrc.duration)) := by
  exact B.newDurationWithFormat_eq h m f

theorem newDuration_eq (h m : Int) :
    (GoSrc.NewDuration h m).res = ((safeMul h 60).bind fun x => safeAdd x m).map durOfMins := by
  exact B.newDuration_eq h m

theorem duration_plus_eq (a b : GoSrc.duration) :
    (a.Plus b).res = (safeAdd a.minutes b.minutes).map durOfMins := by
  exact B.duration_plus_eq a b

theorem duration_minus_eq (a b : GoSrc.duration) (hb : inInt64 b.minutes) :
    (a.Minus b).res = (safeAdd a.minutes (-b.minutes)).map durOfMins := by
  exact B.duration_minus_eq a b hb

theorem duration_toString_eq (d : Dur) (h : inInt64 d.mins) : d.toGo.ToString = .ok d.print := by
  exact B.duration_toString_eq d h

theorem duration_toStringWithSign_eq (d : Dur) (h : inInt64 d.mins) : d.toGo.ToStringWithSign = .ok d.printSigned := by
  exact B.duration_toStringWithSign_eq d h

theorem newRounding_eq (r : Int) :
    (GoSrc.NewRounding r).res = if 0 ≤ r ∧ validRoundings.contains r.toNat = true then .ok ⟨r⟩ else .err := by
  exact B.newRounding_eq r

theorem newRoundingFromString_eq (s : List Char) :
    (GoSrc.NewRoundingFromString s).res = (optRes (parseRounding s)).map (fun n => (⟨(n : Int)⟩ : GoSrc.rounding)) := by
  exact B.newRoundingFromString_eq s

theorem roundToNearest_eq (t : Time) (v : Nat) (h : t.wf = true) (h0 : t.shift = 0) (h24 : t.is24 = true)
    (hv : validRoundings.contains v = true) :
    GoSrc.RoundToNearest t.toGo ⟨v⟩ = .ok (roundToNearest t v).toGo := by
  exact B.roundToNearest_eq t v h h0 h24 hv

end KlogV.GoL
