/- Helper lemmas for KlogV/Props/GoSpec15.lean (end-to-end corollaries about the translated date.go / service/period). Core Lean only. -/
import KlogV.GoSem.SpecDefsCal
import KlogV.Props.GoCal
import KlogV.Props.C15
namespace KlogV.GoL
open KlogV.Go KlogV.GoTie

theorem res_ok_cal {α} {x : G α} {a : α} (h : x.res = .ok a) : x = .ok a := by
  cases x with
  | ok b => simp only [G.res] at h; cases h; rfl
  | error e => cases e <;> simp [G.res] at h

theorem goDate_lift (x : GoCal.date) (hx : GoDateValid x) :
    ∃ x' : Date, x'.valid = true ∧ x'.toGo = x ∧ dayNumber x' = goDayNumber x ∧
      (x'.y : Int) = x.year ∧ (x'.m : Int) = x.month ∧ (x'.d : Int) = x.day := by
  obtain ⟨y, m, d, ⟨f⟩⟩ := x
  obtain ⟨y0, y1, m0, m1, d0, d1⟩ := hx
  simp only at y0 y1 m0 m1 d0 d1
  have ey := Int.toNat_of_nonneg y0
  have em := Int.toNat_of_nonneg (show 0 ≤ m by omega)
  have ed := Int.toNat_of_nonneg (show 0 ≤ d by omega)
  refine ⟨⟨y.toNat, m.toNat, d.toNat, f⟩, ?_, ?_, rfl, ey, em, ed⟩
  · rw [valid_iff]
    have := daysInInt_cast y.toNat m.toNat
    rw [ey, em] at this
    simp only
    omega
  · simp only [Date.toGo, ey, em, ed]

theorem toGo_dateValid (r : Date) (h : r.valid = true) :
    GoDateValid r.toGo ∧ goDayNumber r.toGo = dayNumber r := by
  rw [valid_iff] at h
  refine ⟨?_, ?_⟩
  · simp only [GoDateValid, Date.toGo, daysInInt_cast]; omega
  · simp only [goDayNumber, Date.toGo, Int.toNat_natCast]; rfl


/-- The statement as first written claimed an ERROR whenever the sum lies outside the window.  It is false: for `t = 0:01`,
`d = 9223372036854775807` minutes the hypotheses hold and `t.Plus d` PANICS ("Integer overflow" of the checked addition). -/
theorem go_plusDays (x : GoCal.date) (n : Int) (hx : GoDateValid x) :
    ((0 ≤ goDayNumber x + n ∧ goDayNumber x + n ≤ 3652424) →
        ∃ r, x.PlusDays n = .ok r ∧ GoDateValid r ∧ goDayNumber r = goDayNumber x + n ∧ r.format = x.format) ∧
    (¬ (0 ≤ goDayNumber x + n ∧ goDayNumber x + n ≤ 3652424) → (x.PlusDays n).res = .panic) := by
  obtain ⟨x', hv, rfl, hdn, _⟩ := goDate_lift x hx
  rw [← hdn]
  have h := date_plusDays_eq x' n hv
  have hnone := C15.plusDays_none_iff x' n hv
  refine ⟨fun hr => ?_, fun hr => ?_⟩
  · cases hp : x'.plusDays n with
    | none => rw [hp] at hnone; have := hnone.1 rfl; omega
    | some r =>
      rw [hp] at h
      obtain ⟨hrv, hrdn⟩ := C15.plusDays_some x' r n hv hp
      refine ⟨r.toGo, res_ok_cal h, (toGo_dateValid r hrv).1, ?_, ?_⟩
      · rw [(toGo_dateValid r hrv).2, hrdn]
      · simp only [Date.toGo, plusDays_dashes x' r n hp]
  · have hp : x'.plusDays n = none := hnone.2 (by omega)
    rw [hp] at h
    exact h

theorem weekday_cast (x : Date) : (x.weekday : Int) = (dayNumber x + 5) % 7 + 1 := by
  simp only [Date.weekday, weekdayOfNumber]
  omega

theorem go_weekday (x : GoCal.date) (hx : GoDateValid x) :
    x.Weekday = .ok ((goDayNumber x + 5) % 7 + 1) := by
  obtain ⟨x', hv, rfl, hdn, _⟩ := goDate_lift x hx
  rw [date_weekday_eq x' hv, weekday_cast, hdn]

theorem go_week_period (x : GoCal.date) (hx : GoDateValid x) (p : GoCal.periodData)
    (hp : GoCal.Week.Period ⟨x⟩ = .ok p) :
    GoDateValid p.since ∧ GoDateValid p.until_ ∧ p.since.Weekday = .ok 1 ∧ p.until_.Weekday = .ok 7 ∧
      goDayNumber p.until_ = goDayNumber p.since + 6 ∧ goDayNumber p.since ≤ goDayNumber x ∧ goDayNumber x ≤ goDayNumber p.until_ := by
  obtain ⟨x', hv, rfl, hdn, _⟩ := goDate_lift x hx
  rw [← hdn]
  have h := week_period_eq x' hv
  rw [hp] at h
  cases hw : weekPeriod x' with
  | none => rw [hw] at h; simp [G.res] at h
  | some p' =>
    rw [hw] at h
    have e : p = p'.toGo := by simpa [G.res] using h
    subst e
    obtain ⟨h1, h2, h3, h4, h5, h6, h7⟩ := C15.weekPeriod_spec x' hv p' hw
    obtain ⟨a1, a2⟩ := toGo_dateValid p'.since h1
    obtain ⟨b1, b2⟩ := toGo_dateValid p'.until_ h2
    simp only [Period.toGo]
    refine ⟨a1, b1, ?_, ?_, ?_, ?_, ?_⟩
    · rw [date_weekday_eq _ h1, h3]; rfl
    · rw [date_weekday_eq _ h2, h4]; rfl
    · rw [a2, b2, h5]
    · rw [a2]; exact h6
    · rw [b2]; exact h7

theorem go_month_period (x : GoCal.date) (hx : GoDateValid x) :
    GoCal.Month.Period ⟨x⟩ =
      .ok ⟨⟨x.year, x.month, 1, ⟨true⟩⟩, ⟨x.year, x.month, daysInInt x.year x.month, ⟨true⟩⟩⟩ := by
  obtain ⟨x', hv, rfl, _, _⟩ := goDate_lift x hx
  rw [res_ok_cal (month_period_eq x' hv)]
  simp only [monthPeriod, Period.toGo, Date.toGo, daysInInt_cast]
  rfl

theorem go_year_period (x : GoCal.date) (hx : GoDateValid x) :
    GoCal.Year.Period ⟨x⟩ = .ok ⟨⟨x.year, 1, 1, ⟨true⟩⟩, ⟨x.year, 12, 31, ⟨true⟩⟩⟩ := by
  obtain ⟨x', hv, rfl, _, _⟩ := goDate_lift x hx
  rw [res_ok_cal (year_period_eq x' hv)]
  simp only [yearPeriod, Period.toGo, Date.toGo]
  rfl

theorem go_quarter_period (x : GoCal.date) (hx : GoDateValid x) :
    x.Quarter = .ok ((x.month + 2) / 3) ∧
    GoCal.Quarter.Period ⟨x⟩ =
      .ok ⟨⟨x.year, 3 * ((x.month + 2) / 3) - 2, 1, ⟨true⟩⟩,
           ⟨x.year, 3 * ((x.month + 2) / 3), daysInInt x.year (3 * ((x.month + 2) / 3)), ⟨true⟩⟩⟩ := by
  obtain ⟨x', hv, rfl, _, _⟩ := goDate_lift x hx
  have hq : ((x'.quarter : Nat) : Int) = ((x'.m : Int) + 2) / 3 := by
    simp only [Date.quarter]; omega
  obtain ⟨q1, q2, _, _⟩ := C15.quarter_spec x' hv
  obtain ⟨_, _, hs, hu, _, _⟩ := C15.quarterPeriod_spec x' hv
  refine ⟨?_, ?_⟩
  · rw [date_quarter_eq x' hv, hq]; rfl
  · rw [res_ok_cal (quarter_period_eq x' hv)]
    simp only [Period.toGo, hs, hu, Date.toGo]
    have e1 : ((3 * x'.quarter - 2 : Nat) : Int) = 3 * (((x'.m : Int) + 2) / 3) - 2 := by omega
    have e2 : ((3 * x'.quarter : Nat) : Int) = 3 * (((x'.m : Int) + 2) / 3) := by omega
    rw [← daysInInt_cast, e1, e2]
    rfl


end KlogV.GoL
