/-
Helper lemmas for C04, part 14: the reconciler's position for a new record is the abstract one.
-/
import KlogV.Lemmas.Refine1
namespace KlogV.RefineLemmas

theorem afterOrEqual_eq_dateLe (a b : Date) : a.afterOrEqual b = Spec.dateLe b a := by
  rw [Bool.eq_iff_iff, dateLe_iff]
  unfold Date.afterOrEqual
  by_cases h1 : a.y = b.y
  · by_cases h2 : a.m = b.m
    · simp [h1, h2]
    · simp [h1, h2]; omega
  · simp [h1]; omega

theorem newRecordPosition_slot (d : Date) (rest : List Record) : ∀ (r : Record) (k : Nat),
    (k ≠ 0 ∨ Spec.dateLe r.date d = true) →
    newRecordPosition d k (r :: rest) = some (Spec.slotAfter d k (r :: rest)) := by
  induction rest with
  | nil =>
    intro r k hk
    unfold newRecordPosition
    have : (k == 0 && !d.afterOrEqual r.date) = false := by
      rcases hk with h | h
      · simp [h]
      · simp [afterOrEqual_eq_dateLe, h]
    simp [this, Spec.slotAfter]
  | cons nxt rest ih =>
    intro r k hk
    unfold newRecordPosition
    have : (k == 0 && !Spec.dateLe r.date d) = false := by
      rcases hk with h | h
      · simp [h]
      · simp [h]
    simp only [afterOrEqual_eq_dateLe, this, Bool.false_eq_true, if_false, Spec.slotAfter]
    split
    · rfl
    · exact ih nxt (k + 1) (Or.inl (by omega))

theorem slotAfter_lt (d : Date) (rest : List Record) : ∀ (r : Record) (k : Nat),
    Spec.slotAfter d k (r :: rest) < k + (r :: rest).length := by
  induction rest with
  | nil => intro r k; simp [Spec.slotAfter]
  | cons nxt rest ih =>
    intro r k
    simp only [Spec.slotAfter]
    split
    · simp
    · have := ih nxt (k + 1)
      simp only [List.length_cons] at this ⊢
      omega

/-- (POS) `newRecordPosition` and `Spec.insertPos` -/
theorem newRecordPosition_spec (d : Date) (rs : List Record) (hne : rs ≠ []) :
    (newRecordPosition d 0 rs = none ∧ Spec.insertPos rs d = 0) ∨
    (∃ i, newRecordPosition d 0 rs = some i ∧ Spec.insertPos rs d = i + 1 ∧ i < rs.length) := by
  obtain ⟨r0, tl, rfl⟩ := List.exists_cons_of_ne_nil hne
  cases h0 : Spec.dateLe r0.date d with
  | false =>
    left
    constructor
    · unfold newRecordPosition
      simp [afterOrEqual_eq_dateLe, h0]
    · simp [Spec.insertPos, h0]
  | true =>
    right
    refine ⟨Spec.slotAfter d 0 (r0 :: tl), newRecordPosition_slot d tl r0 0 (Or.inr h0), ?_, ?_⟩
    · simp [Spec.insertPos, h0]
    · have := slotAfter_lt d tl r0 0
      omega

end KlogV.RefineLemmas
