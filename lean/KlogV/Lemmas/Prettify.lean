/- C10 lemmas: the terminal rendering of parser errors (Model/Prettify.lean). -/
import KlogV.Model.Prettify
import KlogV.Lemmas.ParserErrors
import KlogV.Lemmas.Strip
import KlogV.Lemmas.Prettify1
import KlogV.Lemmas.Prettify2
import KlogV.Lemmas.Prettify3
namespace KlogV
open PrettifyLemmas StripLemmas

theorem prettyErrors_isSome (t : Bytes) (es : List GErr) (st : Styler) (origin : List Char)
    (h : parseDoc t = .errors es) : (prettyErrors st origin es).isSome = true := by
  apply prettyErrors_isSome_of
  intro e he
  have h1 := ((parseDoc_errors_ascending t es h).2 e he).1
  have h2 := parseDoc_spans t es h e he
  exact ⟨h1, h2.1, h2.2⟩

theorem prettyError_lines (origin : List Char) (e : GErr) (text : Bytes) (h : e.lineText = some text)
    (hp : 0 ≤ e.pos) (hl : 0 ≤ e.len) (hn : '\n' ∉ decodeGo text) (ho : '\n' ∉ origin) :
    ∃ (b : List Char) (msg : List (List Char)),
      prettyError noColour origin e = some b ∧
      splitOnChar '\n' b = [[], "[SYNTAX ERROR] in line ".toList ++ natDigits e.lineNumber ++
          (if origin.isEmpty then [] else " of file ".toList ++ origin), INDENT ++ tabsToSpaces (decodeGo text),
        INDENT ++ List.replicate e.pos.toNat ' ' ++ List.replicate e.len.toNat '^'] ++ msg ++ [[]] ∧
      msg ≠ [] ∧ (∀ m ∈ msg, INDENT <+: m) := by
  obtain ⟨msg, hm, hne, hall⟩ := message_lines e.code
  have hc : (decide (e.pos < 0) || decide (e.len < 0)) = false := by
    simp only [Bool.or_eq_false_iff, decide_eq_false_iff_not]
    omega
  refine ⟨block noColour origin e.lineNumber (INDENT ++ tabsToSpaces (decodeGo text))
    (INDENT ++ List.replicate e.pos.toNat ' ' ++ List.replicate e.len.toNat '^')
    (reflow 80 [INDENT] (errMessage e.code)), msg, ?_, ?_, hne, fun m hm => (hall m hm).1⟩
  · rw [prettyError_eq, h]
    simp only [hc, Bool.false_eq_true, if_false]
  · rw [block_noColour, hm]
    apply split_block _ _ _ _ ?_ ?_ ?_ hne (fun l hl => (hall l hl).2)
    · intro hmem
      rcases List.mem_append.mp hmem with hmem | hmem
      · rcases List.mem_append.mp hmem with hmem | hmem
        · exact absurd hmem (by decide)
        · exact natDigits_no_nl _ hmem
      · cases hoe : origin.isEmpty with
        | true => rw [hoe] at hmem; simp at hmem
        | false =>
          rw [hoe] at hmem
          simp only [Bool.false_eq_true, if_false] at hmem
          rcases List.mem_append.mp hmem with hmem | hmem
          · exact absurd hmem (by decide)
          · exact ho hmem
    · intro hmem
      rcases List.mem_append.mp hmem with hmem | hmem
      · exact indent_no_nl hmem
      · exact tabsToSpaces_no_nl _ hn hmem
    · intro hmem
      rcases List.mem_append.mp hmem with hmem | hmem
      · rcases List.mem_append.mp hmem with hmem | hmem
        · exact indent_no_nl hmem
        · exact replicate_no_nl _ _ (by decide) hmem
      · exact replicate_no_nl _ _ (by decide) hmem

-- FALSE: when the SECOND word is longer than `maxLen` the loop closes the still empty first line
-- before the first word is placed, and the first word then gets no prefix (index 1 of `[pfx]`, carried
-- prefix `[]`):  reflowWords 3 ["> "] (splitOnChar ' ' "a bcde") [] [] [] = ["", "a bcde"]
-- (see `PrettifyLemmas.reflowWords_first_break`).  Original statement:
-- theorem reflowWords_words (maxLen : Nat) (pfx para : List Char) (hp : pfx ≠ []) (hn : '\n' ∉ para) :
--     let ls := reflowWords maxLen [pfx] (splitOnChar ' ' para) [] [] []
--     (∀ l ∈ ls, pfx <+: l) ∧ (ls.map (fun l => splitOnChar ' ' (l.drop pfx.length))).flatten = splitOnChar ' ' para
/-- Corrected: the second word of the paragraph (if there is one) is not longer than a line. -/
theorem reflowWords_words (maxLen : Nat) (pfx para : List Char) (hp : pfx ≠ []) (_hn : '\n' ∉ para)
    (hw : ∀ w, (splitOnChar ' ' para)[1]? = some w → byteLen w ≤ maxLen) :
    let ls := reflowWords maxLen [pfx] (splitOnChar ' ' para) [] [] []
    (∀ l ∈ ls, pfx <+: l) ∧ (ls.map (fun l => splitOnChar ' ' (l.drop pfx.length))).flatten = splitOnChar ' ' para := by
  intro ls
  obtain ⟨gs, e, hg, hf⟩ := reflowWords_struct maxLen pfx hp (splitOnChar ' ' para)
    (splitOnChar_ne_nil _ _) hw
  have els : ls = gs.map (line pfx) := e
  rw [els]
  refine ⟨?_, ?_⟩
  · intro l hl
    obtain ⟨g, _, rfl⟩ := List.mem_map.mp hl
    exact line_prefix pfx g
  · rw [List.map_map]
    have : gs.map ((fun l => splitOnChar ' ' (l.drop pfx.length)) ∘ line pfx) = gs := by
      conv => rhs; rw [← List.map_id gs]
      apply List.map_congr_left
      intro g hgm
      simp only [Function.comp, line_drop, id]
      apply splitOnChar_joinWith ' ' g (hg g hgm)
      intro w hwm
      have : w ∈ splitOnChar ' ' para := by
        rw [← hf]; exact List.mem_flatten.mpr ⟨g, hgm, hwm⟩
      exact (mem_splitOnChar ' ' para w this).1
    rw [this, hf]

theorem prettyErrors_strip (st : Styler) (hs : IsSeqs st.reset ∧ ∀ p, IsSeqs (st.seqs p)) (origin : List Char) (es : List GErr) :
    (prettyErrors st origin es).map strip = (prettyErrors noColour origin es).map strip := by
  induction es with
  | nil => rfl
  | cons e es ih =>
    simp only [prettyErrors]
    rw [prettyError_eq, prettyError_eq]
    cases e.lineText with
    | none => rfl
    | some text =>
      simp only []
      cases (decide (e.pos < 0) || decide (e.len < 0)) with
      | true => rfl
      | false =>
        simp only [Bool.false_eq_true, if_false]
        cases h1 : prettyErrors st origin es with
        | none =>
          cases h2 : prettyErrors noColour origin es with
          | none => rfl
          | some b2 => rw [h1, h2] at ih; cases ih
        | some b1 =>
          cases h2 : prettyErrors noColour origin es with
          | none => rw [h1, h2] at ih; cases ih
          | some b2 =>
            rw [h1, h2] at ih
            simp only [Option.map_some, Option.some.injEq] at ih ⊢
            rw [strip_block st hs, strip_block noColour seqSt_noColour, ih]

end KlogV
