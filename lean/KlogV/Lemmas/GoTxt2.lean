/- Helper lemmas for KlogV/Lemmas/GoTxt.lean: shapes of the UTF-8 decoder. Core Lean only. -/
import KlogV.Lemmas.GoTxt1
namespace KlogV.GoL.T
open KlogV.Go

theorem ofNat_toNat (n : Nat) : (Char.ofNat n).toNat = n ∨ (Char.ofNat n).toNat = 0 := by
  unfold Char.ofNat
  split
  · left; rfl
  · right; rfl

theorem runeError_toNat : runeError.toNat = 0xFFFD := by decide

theorem u8_lt (b : UInt8) : b.toNat < 256 := b.toNat_lt

theorem isCont_iff (b : UInt8) : isCont b = true ↔ 0x80 ≤ b.toNat ∧ b.toNat ≤ 0xBF := by
  unfold isCont
  rw [Bool.and_eq_true, decide_eq_true_eq, decide_eq_true_eq, UInt8.le_iff_toNat_le, UInt8.le_iff_toNat_le]
  rfl

/-- an ASCII first byte is the rune, of width 1 -/
theorem decodeRune_ascii (b : UInt8) (rest : Bytes) (h : b.toNat < 0x80) :
    decodeRune (b :: rest) = (Char.ofNat b.toNat, 1) := by
  unfold decodeRune
  simp only [h, if_true]

theorem ofNat_toNat_ascii (n : Nat) (h : n < 0x80) : (Char.ofNat n).toNat = n := by
  unfold Char.ofNat
  rw [dif_pos (by unfold Nat.isValidChar; omega)]
  rfl

/-- the shapes of a decoded rune -/
inductive RuneShape : Bytes → Char × Nat → Prop
  | ascii (b : UInt8) (rest : Bytes) (h : b.toNat < 0x80) : RuneShape (b :: rest) (Char.ofNat b.toNat, 1)
  | bad (b : UInt8) (rest : Bytes) (h : 0x80 ≤ b.toNat) : RuneShape (b :: rest) (runeError, 1)
  | two (b b1 : UInt8) (tl : Bytes) (v : Nat) (h : 0xC2 ≤ b.toNat) (h1 : isCont b1 = true) (hv : 0x80 ≤ v) :
      RuneShape (b :: b1 :: tl) (Char.ofNat v, 2)
  | three (b b1 b2 : UInt8) (tl : Bytes) (v : Nat) (h : 0xC2 ≤ b.toNat) (h1 : isCont b1 = true) (h2 : isCont b2 = true)
      (hv : 0x80 ≤ v) : RuneShape (b :: b1 :: b2 :: tl) (Char.ofNat v, 3)
  | four (b b1 b2 b3 : UInt8) (tl : Bytes) (v : Nat) (h : 0xC2 ≤ b.toNat) (h1 : isCont b1 = true) (h2 : isCont b2 = true)
      (h3 : isCont b3 = true) (hv : 0x80 ≤ v) : RuneShape (b :: b1 :: b2 :: b3 :: tl) (Char.ofNat v, 4)

theorem decodeRune_shape (b : UInt8) (rest : Bytes) : RuneShape (b :: rest) (decodeRune (b :: rest)) := by
  have hb := u8_lt b
  unfold decodeRune
  simp only
  by_cases c1 : b.toNat < 0x80
  · rw [if_pos c1]; exact .ascii b rest c1
  · rw [if_neg c1]
    by_cases c2 : (decide (b.toNat < 0xC2) || decide (b.toNat > 0xF4)) = true
    · rw [if_pos c2]; exact .bad b rest (by omega)
    · rw [if_neg c2]
      simp only [Bool.or_eq_true, decide_eq_true_eq, not_or, Nat.not_lt] at c2
      by_cases c3 : b.toNat < 0xE0
      · rw [if_pos c3]
        cases rest with
        | nil => exact .bad b _ (by omega)
        | cons b1 tl =>
          simp only
          by_cases c4 : isCont b1 = true
          · rw [if_pos c4]; exact .two b b1 tl _ (by omega) c4 (by omega)
          · rw [if_neg c4]; exact .bad b _ (by omega)
      · rw [if_neg c3]
        by_cases c5 : b.toNat < 0xF0
        · rw [if_pos c5]
          match rest with
          | [] => exact .bad b _ (by omega)
          | [_] => exact .bad b _ (by omega)
          | b1 :: b2 :: tl =>
            simp only
            generalize hlo : (if (b.toNat == 0xE0) = true then 0xA0 else 0x80 : Nat) = lo
            generalize hhi : (if (b.toNat == 0xED) = true then 0x9F else 0xBF : Nat) = hi
            have l1 : 0x80 ≤ lo ∧ (b.toNat = 0xE0 → lo = 0xA0) := by
              subst hlo; by_cases he : b.toNat = 0xE0 <;> simp [he]
            have l2 : hi ≤ 0xBF := by
              subst hhi; by_cases he : b.toNat = 0xED <;> simp [he]
            by_cases hc : (decide (lo ≤ b1.toNat) && decide (b1.toNat ≤ hi) && isCont b2) = true
            · rw [if_pos hc]
              simp only [Bool.and_eq_true, decide_eq_true_eq] at hc
              obtain ⟨⟨hc1, hc2⟩, hc3⟩ := hc
              have hb1 := u8_lt b1
              refine .three b b1 b2 tl _ (by omega) ((isCont_iff b1).mpr ⟨by omega, by omega⟩) hc3 ?_
              by_cases he : b.toNat = 0xE0
              · have := l1.2 he; omega
              · omega
            · rw [if_neg hc]; exact .bad b _ (by omega)
        · rw [if_neg c5]
          match rest with
          | [] => exact .bad b _ (by omega)
          | [_] => exact .bad b _ (by omega)
          | [_, _] => exact .bad b _ (by omega)
          | b1 :: b2 :: b3 :: tl =>
            simp only
            generalize hlo : (if (b.toNat == 0xF0) = true then 0x90 else 0x80 : Nat) = lo
            generalize hhi : (if (b.toNat == 0xF4) = true then 0x8F else 0xBF : Nat) = hi
            have l1 : 0x80 ≤ lo ∧ (b.toNat = 0xF0 → lo = 0x90) := by
              subst hlo; by_cases he : b.toNat = 0xF0 <;> simp [he]
            have l2 : hi ≤ 0xBF := by
              subst hhi; by_cases he : b.toNat = 0xF4 <;> simp [he]
            by_cases hc : (decide (lo ≤ b1.toNat) && decide (b1.toNat ≤ hi) && isCont b2 && isCont b3) = true
            · rw [if_pos hc]
              simp only [Bool.and_eq_true, decide_eq_true_eq] at hc
              obtain ⟨⟨⟨hc1, hc2⟩, hc3⟩, hc4⟩ := hc
              have hb1 := u8_lt b1
              refine .four b b1 b2 b3 tl _ (by omega) ((isCont_iff b1).mpr ⟨by omega, by omega⟩) hc3 hc4 ?_
              by_cases he : b.toNat = 0xF0
              · have := l1.2 he; omega
              · omega
            · rw [if_neg hc]; exact .bad b _ (by omega)

end KlogV.GoL.T
