/-
C04b, part 11: `pause` (without `--extend`).
-/
import KlogV.Lemmas.RefineB10
namespace KlogV.RefineBLemmas
open KlogV KlogV.RefineLemmas KlogV.EditLemmas KlogV.GrammarLemmas

/-- `pause` (corrected: `hu2`, the case-folding table yields no line break characters and CR is
not a letter — only needed when tags are appended) -/
theorem pause_refines_core (u : UTab) (cfg : Config) (now : Instant) (summary : Option (List Bytes)) (noTags : Bool)
    (ticks : List Int) (file file' : Bytes) (rs : List Record) (bos : List BlockOut)
    (hp : parseDoc file = .records rs bos) (hs : CleanSummary (summary.getD [])) (hcr : file.getLast? ≠ some 13)
    (hu2 : noTags = false → u.isLetter '\r' = false ∧ ∀ c, u.lower c ≠ '\n' ∧ u.lower c ≠ '\r')
    (h : runCmd u cfg now (.pause summary noTags false ticks) file = .ok file') :
    ∃ rs' bos' i r oe, parseDoc file' = .records rs' bos' ∧ PauseTarget rs now.date i ∧ rs[i]? = some r ∧
      oe ∈ r.entries ∧ isOpen oe.val = true ∧
      Spec.PauseAppend rs i (Spec.captured ticks)
        (Spec.pauseSummary ((summary.getD []).map decodeGo)
          (if noTags then none else some (tagsText u oe.summary))) rs' := by
  obtain ⟨yesterday, f1, hy, hf1, hfold⟩ := runCmd_pause_eq u cfg now summary noTags false ticks file file'
    (fun h => by cases h) h
  simp only [Bool.false_eq_true, if_false] at hf1
  obtain ⟨r0, r1, rs1, bos1, hc, hf, hfile, hp1⟩ := reconcileFile_inv file _ _ rs bos f1 hp hf1
  simp only [List.foldl_cons, List.foldl_nil, Res.bind] at hf
  obtain ⟨r, bo, i, hT, hr, hbo, hr0⟩ := pause_creator_cases file rs bos hp now.date yesterday hy r0 hc
  cases hap : r0.appendPause u (summary.getD []) (!noTags) with
  | none => rw [hap] at hf; simp [optRes] at hf
  | some r1' =>
  rw [hap] at hf
  simp only [optRes, Res.ok.injEq] at hf
  subst hf
  obtain ⟨oi, oe, ho1, ho2, ho3, hae⟩ := appendPause_inv u r0 r1' _ _ hap
  subst hr0
  dsimp only at ho1 ho2 hae
  have hoe : oe ∈ r.entries := List.mem_of_getElem? ho2
  have hwf0 := parseDoc_wf0 file rs bos hp r (List.mem_of_getElem? hr)
  have hoeLF : ∀ l ∈ oe.summary, '\n' ∉ l := (hwf0.2.2.2.1 oe hoe).2.2.1
  generalize htags : (if (!noTags) = true then some (encode (tagsText u oe.summary)) else none) = tags at hae
  have htc : ∀ j, tags = some j → CleanLine j := by
    intro j hj
    cases noTags with
    | true => simp at htags; rw [← htags] at hj; cases hj
    | false =>
      simp at htags
      rw [← htags] at hj
      cases hj
      exact tagsText_clean u (hu2 rfl) oe.summary hoeLF
  have htd : tags.map decodeGo = (if noTags then none else some (tagsText u oe.summary)) := by
    cases noTags with
    | true => simp at htags; rw [← htags]; rfl
    | false => simp at htags; rw [← htags]; simp [decodeGo_encode]
  obtain ⟨a1, _, _, _, _⟩ := appendEntry_spec _ r1' _ hae
  dsimp only at a1
  subst hfile
  rw [a1] at hp1 hfold
  obtain ⟨ind0, hind0⟩ : ∃ ind0 : List Char, Spec.Indent ind0 := ⟨_, Or.inl rfl⟩
  obtain ⟨b0, tl, rest, e1, e2, e3, e4, _⟩ := pause_lines ind0 (summary.getD []) hs tags htc
  rw [e1] at hp1 hfold
  obtain ⟨t1, ind, e, t2, t3, t4⟩ := track_existing file hcr rs bos hp i r bo hr hbo b0 tl rest e2 e3 e4 rs1 bos1 hp1
  obtain ⟨b0', tl', rest', e1', _, _, _, e5⟩ := pause_lines ind (summary.getD []) hs tags htc
  rw [e1] at e1'
  simp only [List.cons.injEq] at e1'
  obtain ⟨⟨rfl, rfl⟩, rfl⟩ := e1'
  have he := denotes_of_grp ind t2 _ _ e _ t3 e5
  have hilt : i < rs.length := by
    apply Classical.byContradiction
    intro hn
    rw [List.getElem?_eq_none (by omega)] at hr
    cases hr
  have hopenr : r.hasOpen = true := by
    unfold Record.hasOpen
    exact List.any_eq_true.mpr ⟨oe, hoe, ho3⟩
  generalize hsm : Spec.pauseSummary ((summary.getD []).map decodeGo) (tags.map decodeGo) = sm at he
  have hA0 : Spec.PauseAppend rs i 0 sm rs1 := by
    refine ⟨r, e, hr, hopenr, ?_, hilt, t4⟩
    rw [he]
    exact ⟨rfl, rfl⟩
  obtain ⟨hsum, hpos⟩ := pauseIncrements_spec ticks
  obtain ⟨rs', bos', hp', hR⟩ := pauseFold_gen now.date yesterday hy rs i hT (fun a rs' => Spec.PauseAppend rs i a sm rs')
    (fun a rs' hR => pauseAppend_dates rs rs' i a sm hR)
    (fun a b rsa rsb ha hR hE => pauseAppend_comp rs rsa rsb i a b sm ha hR hE)
    (pauseIncrements ticks 0) 0 _ file' rs1 bos1 hp1 t1 (Int.le_refl 0) hA0 hpos hfold
  refine ⟨rs', bos', i, r, oe, hp', hT, hr, hoe, ho3, ?_⟩
  rw [← htd, hsm, ← hsum]
  simpa using hR

end KlogV.RefineBLemmas
