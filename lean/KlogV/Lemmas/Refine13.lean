/-
Helper lemmas for C04, part 13: `track` into an existing record.
-/
import KlogV.Lemmas.Refine9
import KlogV.Lemmas.Refine12
namespace KlogV.RefineLemmas
open KlogV.EditLemmas

theorem list_split_at {α} (l : List α) (i : Nat) (x : α) (h : l[i]? = some x) :
    l = l.take i ++ x :: l.drop (i + 1) ∧ (l.take i).length = i := by
  have hi : i < l.length := by
    apply Classical.byContradiction
    intro hn
    rw [List.getElem?_eq_none (by omega)] at h
    cases h
  constructor
  · have h1 : l.drop i = x :: l.drop (i + 1) := by
      rw [List.drop_eq_getElem_cons hi]
      congr 1
      rw [List.getElem?_eq_getElem hi] at h
      exact Option.some.inj h
    rw [← h1, List.take_append_drop]
  · rw [List.length_take]; omega

theorem goodStyle_at (r : Record) (b : List Line) (rs : List Record) (bs : List (List Line)) :
    GoodStyle (elect (determine r b) rs bs) :=
  ⟨elect_indentation_mem _ _ _ (determine_indentation_mem r b),
   elect_lineEnding_ne _ _ _ (determine_lineEnding_ne r b)⟩

theorem goodStyle_new (rs : List Record) (bs : List (List Line)) : GoodStyle (elect {} rs bs) :=
  ⟨elect_indentation_mem _ _ _ (by decide), elect_lineEnding_ne _ _ _ (by decide)⟩

/-- (SETUP) everything about the text after `track` into the record of block `i` -/
theorem track_at_record_setup (file : Bytes) (hcr : file.getLast? ≠ some 13) (rs : List Record) (bos : List BlockOut)
    (hp : parseDoc file = .records rs bos) (i : Nat) (r : Record) (bo : BlockOut)
    (hr : rs[i]? = some r) (hbo : bos[i]? = some bo) (first : Bytes) (rest : List Bytes)
    (hclean : ∀ l ∈ first :: rest, CleanLine l) (hnb : ∀ l ∈ first :: rest, l.all isBlankByte = false) :
    ∃ (B1 B2 : List (List Line)) (pre _post : List Line) (hlL : Line) (restL : List Line) (b' : List Line),
      GoodStyle (elect (determine r bo.lines) rs (bos.map (·.lines))) ∧
      blocksOf file = B1 ++ bo.lines :: B2 ∧ B1.length = i ∧
      blocksOf (joinLines (insertLines (elect (determine r bo.lines) rs (bos.map (·.lines))) (bos.map (·.lines)).flatten
        (indexOfLastSignificantLine bo.first bo.lines) (toMultilineEntryTexts [] (first :: rest)))) = B1 ++ b' :: B2 ∧
      (joinLines (insertLines (elect (determine r bo.lines) rs (bos.map (·.lines))) (bos.map (·.lines)).flatten
        (indexOfLastSignificantLine bo.first bo.lines) (toMultilineEntryTexts [] (first :: rest)))).getLast? ≠ some 13 ∧
      parseBlock bo.lines = parseRecord pre.length (decodeGo hlL.text :: restL.map (fun l => decodeGo l.text)) ∧
      parseBlock bo.lines = .record r ∧
      parseBlock b' = parseRecord pre.length (decodeGo hlL.text :: (restL.map (fun l => decodeGo l.text) ++
        (asciiChars (elect (determine r bo.lines) rs (bos.map (·.lines))).indentation.1 ++ decodeGo first) ::
          rest.map (fun l => asciiChars (elect (determine r bo.lines) rs (bos.map (·.lines))).indentation.1 ++
            asciiChars (elect (determine r bo.lines) rs (bos.map (·.lines))).indentation.1 ++ decodeGo l))) ∧
      (∀ x, (summaryGo (pre.length + 1) (restL.map (fun l => decodeGo l.text))).2.2.2.head? = some x →
        indentatorOf x = some (asciiChars (elect (determine r bo.lines) rs (bos.map (·.lines))).indentation.1)) := by
  obtain ⟨p1, p2, p3, p4⟩ := parseDoc_records file rs bos hp
  rw [p3]
  generalize hst : elect (determine r bo.lines) rs (blocksOf file) = st
  have hG : GoodStyle st := by rw [← hst]; exact goodStyle_at _ _ _ _
  rw [p1] at hbo
  obtain ⟨q1, q2⟩ := blockOuts_getElem? _ _ _ hbo
  obtain ⟨hsplit, hlen⟩ := list_split_at _ _ _ q1
  generalize hB1 : (blocksOf file).take i = B1 at hsplit hlen q2
  generalize hB2 : (blocksOf file).drop (i + 1) = B2 at hsplit
  have hrec : parseBlock bo.lines = .record r := by
    have h1 : ((blocksOf file).map parseBlock)[i]? = some (parseBlock bo.lines) := by
      rw [List.getElem?_map, q1]; rfl
    rw [p2, List.getElem?_map, hr] at h1
    exact (Option.some.inj h1).symm
  have hNEWclean := entry_lines_clean st hG first rest hclean
  have hNEWsig := entry_lines_sig st first rest hnb
  obtain ⟨R2, pre, sig, post, e1, e2, e3, e4, e5, a1, a2, a3, a4, a5, a6, a7, hins, hsp, hno⟩ :=
    ins_at_block file hcr B1 bo.lines B2 hsplit st hG (entryLinesOf st first rest) hNEWclean (by simp [entryLinesOf])
  obtain ⟨hlL, restL, hsig⟩ := List.exists_cons_of_ne_nil a2
  have hlines : insertLines st (blocksOf file).flatten (indexOfLastSignificantLine bo.first bo.lines)
      (toMultilineEntryTexts [] (first :: rest)) =
      B1.flatten ++ (pre ++ fixLast st sig ++ entryLinesOf st first rest ++ post ++ R2) := by
    rw [insertLines_ins, entry_lines_eq st hG first rest hclean, q2, hins]
  rw [hlines]
  have hblocks := blocks_after_append B1 B2 R2 pre (fixLast st sig) (entryLinesOf st first rest) post e3 e4
    (by intro h; rw [e2, h]; rfl) a1 (fixLast_ne_nil st sig a2) (fixLast_allSig st sig a3) a4 hNEWsig a5 a6 a7
  have hs2 : fixLast st sig ++ entryLinesOf st first rest ≠ [] := by simp [entryLinesOf]
  have hs3 : AllSig (fixLast st sig ++ entryLinesOf st first rest) := by
    intro l hl
    rcases List.mem_append.mp hl with h | h
    · exact fixLast_allSig st sig a3 l h
    · exact hNEWsig l h
  have hpb : parseBlock bo.lines = parseRecord pre.length (decodeGo hlL.text :: restL.map (fun l => decodeGo l.text)) := by
    rw [e5, parseBlock_shape pre sig post a1 a2 a3 a4, hsig]; rfl
  refine ⟨B1, B2, pre, post, hlL, restL, pre ++ (fixLast st sig ++ entryLinesOf st first rest) ++ post,
    hG, hsplit, hlen, ?_, hno, hpb, hrec, ?_, ?_⟩
  · unfold blocksOf
    rw [hsp]
    exact hblocks
  · rw [parseBlock_shape pre _ post a1 hs2 hs3 a4, List.map_append, fixLast_map_decode,
      entry_lines_decode st hG first rest, hsig]
    rfl
  · intro x hx
    rw [hpb] at hrec
    obtain ⟨j, j1, j2⟩ := determine_agrees pre.length r pre sig post hlL restL a1 hsig a3 a4
      (by rw [hsig]; exact hrec) x hx
    have : st.indentation = (j, true) := by
      rw [← hst, ← e5] at *
      rw [(elect_own_style _ rs (blocksOf file)).2.1 (by rw [j1])]
      exact j1
    rw [this]
    exact j2

end KlogV.RefineLemmas
