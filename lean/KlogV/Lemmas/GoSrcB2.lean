/- Helper lemmas for KlogV/Lemmas/GoSrcB.lean, part 2: MidnightOffset, time.Plus. Core Lean only. -/
import KlogV.Lemmas.GoSrcB1
namespace KlogV.GoL.B
open KlogV.Go

theorem wf_bounds (t : Time) (h : t.wf = true) : t.h < 24 ∧ t.min < 60 ∧ (t.shift = -1 ∨ t.shift = 0 ∨ t.shift = 1) := by
  unfold Time.wf at h; simpa [and_assoc, or_assoc] using h

theorem add_int (a b : Int) : add a b = wrap (a + b) := rfl
theorem add_small (a b : Int) (ha : -1000000000 ≤ a ∧ a ≤ 1000000000) (hb : -1000000000 ≤ b ∧ b ≤ 1000000000) : add a b = a + b := by
  rw [add_int]; apply wrap_id; unfold inInt64; omega
theorem sub_small (a b : Int) (ha : -1000000000 ≤ a ∧ a ≤ 1000000000) (hb : -1000000000 ≤ b ∧ b ≤ 1000000000) : sub a b = a - b := by
  unfold sub; apply wrap_id; unfold inInt64; omega

theorem ok_congr {α} {a b : α} (h : a = b) : (Except.ok a : G α) = .ok b := by rw [h]
theorem pure_eq {α} (a : α) : (pure a : G α) = .ok a := rfl
theorem bind_ok {α β} (a : α) (f : α → G β) : (bind (Except.ok a : G α) f) = f a := rfl
theorem bind_err {α β} (e : Exc) (f : α → G β) : (bind (Except.error e : G α) f) = .error e := rfl

theorem d1 : decide ((-1:Int) < 0) = true := by decide
theorem d2 : ¬ decide ((0:Int) < 0) = true := by decide
theorem d3 : ¬ decide ((0:Int) > 0) = true := by decide
theorem d4 : ¬ decide ((1:Int) < 0) = true := by decide
theorem d5 : decide ((1:Int) > 0) = true := by decide
theorem d6 : ¬ ((0:Int) < 0) := by decide
theorem d7 : ¬ ((0:Int) > 0) := by decide
theorem d8 : ¬ ((1:Int) < 0) := by decide
theorem d9 : ((1:Int) > 0) := by decide
theorem d10 : ((-1:Int) < 0) := by decide

theorem midnightOffset_spec (t : Time) (h : t.wf = true) : t.toGo.MidnightOffset = .ok (durOfMins t.offset) := by
  obtain ⟨h1, h2, h3⟩ := wf_bounds t h
  obtain ⟨hh, mm, sh, f⟩ := t
  simp only at h1 h2 h3
  have n23 : neg 23 = -23 := by decide
  have n60 : neg 60 = -60 := by decide
  have a1 : add (-23 : Int) (hh : Int) = -23 + hh := add_small _ _ (by omega) (by omega)
  have a2 : add (-60 : Int) (mm : Int) = -60 + mm := add_small _ _ (by omega) (by omega)
  have a3 : add (24 : Int) (hh : Int) = 24 + hh := add_small _ _ (by omega) (by omega)
  unfold GoSrc.time.MidnightOffset GoSrc.time.IsYesterday GoSrc.time.IsTomorrow GoSrc.time.Hour GoSrc.time.Minute Time.offset Time.toGo
  simp only [Go.lt, Go.gt]
  simp only [pure_eq]
  rcases h3 with h3 | h3 | h3 <;> subst h3
  · rw [bind_ok, if_pos d1, bind_ok, bind_ok, if_pos d10]
    rw [n23, n60, a1, a2, newDuration_small _ _ (by omega) (by omega)]
    apply ok_congr; apply congrArg
    omega
  · rw [bind_ok, if_neg d2, bind_ok, if_neg d3, bind_ok, bind_ok, if_neg d6, if_neg d7]
    rw [newDuration_small _ _ (by omega) (by omega)]
  · rw [bind_ok, if_neg d4, bind_ok, if_pos d5, bind_ok, bind_ok, if_neg d8, if_pos d9]
    rw [a3, newDuration_small _ _ (by omega) (by omega)]
    apply ok_congr; apply congrArg
    omega

def timeRel (x : G GoSrc.time) (y : Option Time) : Prop :=
  match y with
  | some r => x = .ok r.toGo
  | none => ∃ m, x = .error (.err m)

theorem m1 : mul 24 60 = 1440 := by decide
theorem m2 : mul 2 1440 = 2880 := by decide
theorem m3 : mul 1440 (-1) = -1440 := by decide

theorem duration_plus_small (a b : Int) (ha : -1000000 ≤ a ∧ a ≤ 1000000) (hb : -1000000 ≤ b ∧ b ≤ 1000000) :
    (durOfMins a).Plus (durOfMins b) = .ok (durOfMins (a + b)) := by
  apply res_ok
  rw [duration_plus_eq]
  have h1 : inRange a = true := (inRange_iff _).2 (by omega)
  have h2 : inRange b = true := (inRange_iff _).2 (by omega)
  have h3 : inRange (a + b) = true := (inRange_iff _).2 (by omega)
  show Res.map durOfMins (safeAdd a b) = _
  unfold safeAdd; rw [h1, h2, h3]; rfl

theorem divmod_nonneg (m : Int) (hm : 0 ≤ m ∧ m ≤ 10000000) :
    div m 60 = .ok ((m / 60).toNat : Int) ∧ mod m 60 = .ok ((m % 60).toNat : Int) := by
  constructor
  · rw [div60_spec m (by unfold inInt64; omega), Int.tdiv_eq_ediv_of_nonneg hm.1]
    apply ok_congr; omega
  · rw [mod60_spec, Int.tmod_eq_emod_of_nonneg hm.1]
    apply ok_congr; omega

theorem offset_bounds (t : Time) (h : t.wf = true) : -1440 ≤ t.offset ∧ t.offset < 2880 := by
  obtain ⟨h1, h2, h3⟩ := wf_bounds t h
  unfold Time.offset
  split
  · omega
  · split <;> omega

theorem timeRel_newTime (hh mm : Nat) (s : Int) (hs : -1 ≤ s ∧ s ≤ 1) (f : Bool) :
    timeRel (GoSrc.newTime hh mm s ⟨f⟩) (Time.mk' hh mm s f) := by
  rw [newTime_spec hh mm s hs f]
  cases Time.mk' hh mm s f with
  | some r => rfl
  | none => exact ⟨_, rfl⟩

theorem ge_eq (a b : Int) : ge a b = decide (a ≥ b) := rfl
theorem gt_eq (a b : Int) : gt a b = decide (a > b) := rfl
theorem lt_eq (a b : Int) : Go.lt a b = decide (a < b) := rfl

theorem time_plus_spec (t : Time) (h : t.wf = true) (d : Int) (hd : -1000000 ≤ d ∧ d ≤ 1000000) :
    timeRel (t.toGo.Plus (durOfMins d)) (t.plus d) := by
  have hob := offset_bounds t h
  unfold GoSrc.time.Plus
  rw [midnightOffset_spec t h]
  simp only [m1, m2, m3, neg_one]
  rw [bind_ok, duration_plus_small _ _ (by omega) hd, bind_ok]
  unfold GoSrc.duration.InMinutes
  rw [pure_eq, bind_ok]
  show timeRel _ (t.plus d)
  unfold Time.plus
  have hfmt : t.toGo.format = ⟨t.is24⟩ := rfl
  rw [hfmt]
  simp only [durOfMins]
  generalize hM : t.offset + d = M
  have hMb : -2000000 ≤ M ∧ M ≤ 2000000 := by omega
  simp only [ge_eq, lt_eq, gt_eq]
  by_cases c1 : M ≥ 2880 ∨ M < -1440
  · have c1' : (decide (M ≥ 2880) || decide (M < -1440)) = true := by simpa using c1
    simp only [c1', ↓reduceIte]
    exact ⟨_, rfl⟩
  · have c1' : (decide (M ≥ 2880) || decide (M < -1440)) = false := by simpa using c1
    simp only [c1', Bool.false_eq_true, ↓reduceIte]
    by_cases c2 : M < 0
    · simp only [c2, ↓reduceIte]
      rw [add_small 1440 M (by omega) (by omega)]
      obtain ⟨e1, e2⟩ := divmod_nonneg (1440 + M) (by omega)
      rw [e1, e2, bind_ok, bind_ok]
      exact timeRel_newTime _ _ _ (by omega) _
    · simp only [c2, ↓reduceIte]
      by_cases c3 : M > 1440
      · simp only [c3, ↓reduceIte]
        rw [sub_small M 1440 (by omega) (by omega)]
        obtain ⟨e1, e2⟩ := divmod_nonneg (M - 1440) (by omega)
        rw [e1, e2, bind_ok, bind_ok]
        exact timeRel_newTime _ _ _ (by omega) _
      · simp only [c3, ↓reduceIte]
        obtain ⟨e1, e2⟩ := divmod_nonneg M (by omega)
        rw [e1, e2, bind_ok, bind_ok]
        exact timeRel_newTime _ _ _ (by omega) _
end KlogV.GoL.B
