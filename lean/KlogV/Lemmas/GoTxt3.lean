/- Helper lemmas for KlogV/Lemmas/GoTxt.lean: consequences of the decoder shapes; Line.IsBlank. Core Lean only. -/
import KlogV.Lemmas.GoTxt2
namespace KlogV.GoL.T
open KlogV.Go

/-- the rune is a given ASCII code (other than NUL) iff the first byte is -/
theorem decodeRune_code_iff (b : UInt8) (rest : Bytes) (c : Nat) (hc0 : 0 < c) (hc : c < 0x80) :
    (((decodeRune (b :: rest)).1.toNat : Int) = (c : Int)) ↔ b.toNat = c := by
  have sh := decodeRune_shape b rest
  generalize decodeRune (b :: rest) = r at sh
  rw [Int.natCast_inj]
  cases sh with
  | ascii _ _ h => simp only; rw [ofNat_toNat_ascii _ h]
  | bad _ _ h => simp only; rw [runeError_toNat]; omega
  | two _ _ _ v h _ hv => simp only; rcases ofNat_toNat v with e | e <;> rw [e] <;> omega
  | three _ _ _ _ v h _ _ hv => simp only; rcases ofNat_toNat v with e | e <;> rw [e] <;> omega
  | four _ _ _ _ _ v h _ _ _ hv => simp only; rcases ofNat_toNat v with e | e <;> rw [e] <;> omega

theorem decodeRune_width_ascii (b : UInt8) (rest : Bytes) (h : b.toNat < 0x80) : (decodeRune (b :: rest)).2 = 1 := by
  rw [decodeRune_ascii b rest h]

theorem decodeRune_width_bounds (b : UInt8) (rest : Bytes) :
    1 ≤ (decodeRune (b :: rest)).2 ∧ (decodeRune (b :: rest)).2 ≤ (b :: rest).length ∧ (decodeRune (b :: rest)).2 ≤ 4 := by
  have sh := decodeRune_shape b rest
  generalize decodeRune (b :: rest) = r at sh
  cases sh <;> simp

theorem rangeStrAux_nil (fuel off : Nat) : rangeStrAux fuel off [] = [] := by
  cases fuel <;> rfl

theorem isBlankByte_iff (b : UInt8) : isBlankByte b = true ↔ (b.toNat = 32 ∨ b.toNat = 9) := by
  unfold isBlankByte SP TAB
  rw [Bool.or_eq_true, beq_iff_eq, beq_iff_eq, ← UInt8.toNat_inj, ← UInt8.toNat_inj]
  rfl

theorem isBlank_loop (fuel : Nat) : ∀ (off : Nat) (bs : Bytes), bs.length ≤ fuel →
    forIn (m := G) (rangeStrAux fuel off bs) ((none : Option Bool), ()) (fun x __s =>
      if (x.snd != 32 && x.snd != 9) = true then Except.ok (ForInStep.done (some false, ()))
      else Except.ok (ForInStep.yield (none, ()))) =
    .ok (if bs.all isBlankByte then (none, ()) else (some false, ())) := by
  induction fuel with
  | zero =>
    intro off bs h
    have : bs = [] := List.eq_nil_of_length_eq_zero (by omega)
    subst this; rfl
  | succ fuel ih =>
    intro off bs h
    cases bs with
    | nil => rfl
    | cons b rest =>
      unfold rangeStrAux
      simp only [List.forIn_cons, List.all_cons]
      have e32 := decodeRune_code_iff b rest 32 (by omega) (by omega)
      have e9 := decodeRune_code_iff b rest 9 (by omega) (by omega)
      by_cases hb : isBlankByte b = true
      · have hb' := (isBlankByte_iff b).mp hb
        have hw := decodeRune_width_ascii b rest (by omega)
        have c : ((((decodeRune (b :: rest)).1.toNat : Int) != 32 && ((decodeRune (b :: rest)).1.toNat : Int) != 9) = true) = False := by
          simp only [Bool.and_eq_true, bne_iff_ne, ne_eq, eq_iff_iff, iff_false, not_and, Decidable.not_not]
          intro h1
          rcases hb' with h2 | h2
          · exact absurd (e32.mpr h2) h1
          · exact e9.mpr h2
        simp only [c, if_false, bind, Except.bind, hw, hb, Bool.true_and]
        exact ih _ _ (by simpa using h)
      · have hb' : ¬ (b.toNat = 32 ∨ b.toNat = 9) := fun h => hb ((isBlankByte_iff b).mpr h)
        have c : ((((decodeRune (b :: rest)).1.toNat : Int) != 32 && ((decodeRune (b :: rest)).1.toNat : Int) != 9) = true) = True := by
          simp only [Bool.and_eq_true, bne_iff_ne, ne_eq, eq_iff_iff, iff_true]
          exact ⟨fun h => hb' (Or.inl (e32.mp h)), fun h => hb' (Or.inr (e9.mp h))⟩
        have hb2 : isBlankByte b = false := by simpa using hb
        simp only [c, if_true, bind, Except.bind, hb2, Bool.false_and]
        rfl

theorem line_isBlank_eq (l : Line) : l.toGo.IsBlank = .ok l.isBlank := by
  unfold GoTxt.Line.IsBlank
  simp only [bind, Except.bind, pure, Except.pure]
  have := isBlank_loop l.text.length 0 l.text (Nat.le_refl _)
  unfold rangeStr
  have e : l.toGo.Text = l.text := rfl
  rw [e, this]
  unfold Line.isBlank
  by_cases h0 : (len l.text == 0) = true
  · rw [if_pos h0]
    have : l.text = [] := by
      unfold len at h0
      simp only [beq_iff_eq] at h0
      exact List.eq_nil_of_length_eq_zero (by omega)
    rw [this]; rfl
  · rw [if_neg h0]
    cases l.text.all isBlankByte <;> rfl


end KlogV.GoL.T
