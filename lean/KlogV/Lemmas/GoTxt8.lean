/- Helper lemmas for KlogV/Lemmas/GoTxt.lean: the last rune of the forward decoding, seen from the end. Core Lean only. -/
import KlogV.Lemmas.GoTxt7
set_option linter.unusedSimpArgs false
namespace KlogV.GoL.T
open KlogV.Go

/-- a rune of width ≥ 2 starts with a start byte -/
theorem width_ge2_start (c : UInt8) (r : Bytes) (h : 2 ≤ (decodeRune (c :: r)).2) : 0xC2 ≤ c.toNat := by
  have sh := decodeRune_shape c r
  generalize decodeRune (c :: r) = x at sh h
  cases sh with
  | ascii _ _ _ => simp at h
  | bad _ _ _ => simp at h
  | two _ _ _ _ h' _ _ => exact h'
  | three _ _ _ _ _ h' _ _ _ => exact h'
  | four _ _ _ _ _ _ h' _ _ _ _ => exact h'

/-- the last `k ≥ 2` bytes are a rune of width `k` -/
def Tail (s : Bytes) (k : Nat) : Prop := 2 ≤ k ∧ k ≤ s.length ∧ (decodeRune (s.drop (s.length - k))).2 = k

theorem tail_of_drop (bs : Bytes) (w k : Nat) (hw : w ≤ bs.length) (h : Tail (bs.drop w) k) : Tail bs k := by
  obtain ⟨h1, h2, h3⟩ := h
  simp only [List.length_drop] at h2 h3
  refine ⟨h1, by omega, ?_⟩
  rw [List.drop_drop] at h3
  have : w + (bs.length - w - k) = bs.length - k := by omega
  rw [this] at h3; exact h3

theorem tail_to_drop (bs : Bytes) (w k : Nat) (hw : w ≤ bs.length) (hk : k ≤ bs.length - w) (h : Tail bs k) :
    Tail (bs.drop w) k := by
  obtain ⟨h1, h2, h3⟩ := h
  refine ⟨h1, by simp only [List.length_drop]; omega, ?_⟩
  simp only [List.length_drop, List.drop_drop]
  have : w + (bs.length - w - k) = bs.length - k := by omega
  rw [this]; exact h3

theorem lastW_pos (fuel : Nat) : ∀ bs : Bytes, bs ≠ [] → bs.length ≤ fuel → 1 ≤ lastW fuel bs := by
  induction fuel with
  | zero => intro bs h1 h2; exact absurd (List.eq_nil_of_length_eq_zero (by omega)) h1
  | succ fuel ih =>
    intro bs h1 h2
    cases bs with
    | nil => exact absurd rfl h1
    | cons b rest =>
      have hw := W_le b rest
      unfold lastW
      split
      · exact hw.1
      · rename_i hd
        exact ih _ hd (by simp only [List.length_drop]; simp only [List.length_cons] at h2 hw ⊢; omega)

theorem lastW_tail (fuel : Nat) : ∀ bs : Bytes, bs.length ≤ fuel → 2 ≤ lastW fuel bs → Tail bs (lastW fuel bs) := by
  induction fuel with
  | zero => intro bs _ h; simp [lastW] at h
  | succ fuel ih =>
    intro bs hf h
    cases bs with
    | nil => simp [lastW] at h
    | cons b rest =>
      have hw := W_le b rest
      unfold lastW at h ⊢
      split
      · rename_i hd
        rw [if_pos hd] at h
        have hl : W (b :: rest) = (b :: rest).length := by
          have := congrArg List.length hd
          simp only [List.length_drop, List.length_nil] at this
          omega
        refine ⟨h, hw.2, ?_⟩
        rw [hl, Nat.sub_self, List.drop_zero, ← W_cons, hl]
      · rename_i hd
        rw [if_neg hd] at h
        exact tail_of_drop _ _ _ hw.2
          (ih _ (by simp only [List.length_drop]; simp only [List.length_cons] at hf hw ⊢; omega) h)

theorem lastW_noTail (fuel : Nat) : ∀ bs : Bytes, bs.length ≤ fuel → lastW fuel bs = 1 → ∀ k, ¬ Tail bs k := by
  induction fuel with
  | zero =>
    intro bs hf _ k ht
    obtain ⟨h1, h2, _⟩ := ht
    omega
  | succ fuel ih =>
    intro bs hf h k ht
    cases bs with
    | nil => obtain ⟨h1, h2, _⟩ := ht; simp at h2; omega
    | cons b rest =>
      have hw := W_le b rest
      unfold lastW at h
      by_cases hd : (b :: rest).drop (W (b :: rest)) = []
      · rw [if_pos hd] at h
        have hl : W (b :: rest) = (b :: rest).length := by
          have := congrArg List.length hd
          simp only [List.length_drop, List.length_nil] at this
          omega
        obtain ⟨h1, h2, _⟩ := ht
        omega
      · rw [if_neg hd] at h
        have ihx := ih _ (by simp only [List.length_drop]; simp only [List.length_cons] at hf hw ⊢; omega) h
        by_cases hk : k ≤ (b :: rest).length - W (b :: rest)
        · exact ihx k (tail_to_drop _ _ _ hw.2 hk ht)
        · obtain ⟨h1, h2, h3⟩ := ht
          by_cases hj : (b :: rest).length - k = 0
          · rw [hj, List.drop_zero, ← W_cons] at h3
            apply hd
            rw [h3]
            have : k = (b :: rest).length := by omega
            rw [this, List.drop_length]
          · -- the rune would start inside the first rune
            obtain ⟨cs, e, hc, _⟩ := decodeRune_take b rest
            rw [← W_cons] at e
            have hsplit : (b :: cs) ++ (b :: rest).drop (W (b :: rest)) = b :: rest := by
              rw [← e]; exact List.take_append_drop _ _
            have hcl : cs.length + 1 = W (b :: rest) := by
              have := congrArg List.length e
              simp only [List.length_take, List.length_cons] at this
              simp only [List.length_cons] at hw
              omega
            obtain ⟨j, hjj⟩ : ∃ j, (b :: rest).length - k = j + 1 := ⟨(b :: rest).length - k - 1, by omega⟩
            have hjlt : j < cs.length := by omega
            rw [hjj, ← hsplit, List.cons_append, List.drop_succ_cons,
              List.drop_append_of_le_length (by omega), List.drop_eq_getElem_cons hjlt, List.cons_append] at h3
            have := width_ge2_start _ _ (by rw [h3]; exact h1)
            have hcont := (isCont_iff _).mp (hc _ (List.getElem_mem hjlt))
            omega

end KlogV.GoL.T
