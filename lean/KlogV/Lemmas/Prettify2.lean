/- C10 lemmas, part 2: the lines of `reflow`, the generated messages, the uncoloured block. -/
import KlogV.Lemmas.Prettify1
import KlogV.Lemmas.Values
namespace KlogV.PrettifyLemmas

/-! ## the lines of `reflow` -/

/-- the second word of the paragraph (if any) fits on a line: the word loop does not close the
empty first line (see `reflowWords_first_break` for what happens otherwise) -/
def secondFits (m : Nat) (para : List Char) : Bool :=
  match splitOnChar ' ' para with
  | _ :: w :: _ => decide (byteLen w ≤ m)
  | _ => true

theorem secondFits_spec (m : Nat) (para : List Char) (h : secondFits m para = true) :
    ∀ w, (splitOnChar ' ' para)[1]? = some w → byteLen w ≤ m := by
  intro w hw
  unfold secondFits at h
  split at h
  · rename_i a w' r e
    rw [e] at hw
    simp only [List.getElem?_cons_succ, List.getElem?_cons_zero, Option.some.injEq] at hw
    subst hw
    simpa using h
  · rename_i hno
    cases e : splitOnChar ' ' para with
    | nil => rw [e] at hw; simp at hw
    | cons a r =>
      cases r with
      | nil => rw [e] at hw; simp at hw
      | cons b r => exact absurd e (hno a b r)

theorem reflow_lines (m : Nat) (pfx text : List Char) (hp : pfx ≠ []) (hpn : '\n' ∉ pfx)
    (h : ∀ para ∈ splitOnChar '\n' text, secondFits m para = true) :
    ∃ msg : List (List Char), reflow m [pfx] text = joinWith ['\n'] msg ∧ msg ≠ [] ∧
      ∀ l ∈ msg, pfx <+: l ∧ '\n' ∉ l := by
  have key : ∀ para ∈ splitOnChar '\n' text,
      reflowWords m [pfx] (splitOnChar ' ' para) [] [] [] ≠ [] ∧
      ∀ l ∈ reflowWords m [pfx] (splitOnChar ' ' para) [] [] [], pfx <+: l ∧ '\n' ∉ l := by
    intro para hpara
    obtain ⟨gs, e, hg, hf⟩ := reflowWords_struct m pfx hp (splitOnChar ' ' para)
      (splitOnChar_ne_nil _ _) (secondFits_spec m para (h para hpara))
    rw [e]
    refine ⟨?_, ?_⟩
    · intro hnil
      have : gs = [] := by simpa using hnil
      rw [this] at hf
      exact splitOnChar_ne_nil _ _ hf.symm
    · intro l hl
      obtain ⟨g, hgm, rfl⟩ := List.mem_map.mp hl
      refine ⟨line_prefix pfx g, line_not_mem '\n' (by decide) pfx g hpn ?_⟩
      intro w hw hmem
      have hw' : w ∈ splitOnChar ' ' para := by
        rw [← hf]; exact List.mem_flatten.mpr ⟨g, hgm, hw⟩
      have h1 := (mem_splitOnChar ' ' para w hw').2 _ hmem
      exact (mem_splitOnChar '\n' text para hpara).1 h1
  refine ⟨((splitOnChar '\n' text).map
    (fun para => reflowWords m [pfx] (splitOnChar ' ' para) [] [] [])).flatten, ?_, ?_, ?_⟩
  · unfold reflow
    rw [← joinWith_map_joinWith, List.map_map]
    · rfl
    · intro ls hls
      obtain ⟨para, hpara, rfl⟩ := List.mem_map.mp hls
      exact (key para hpara).1
  · cases e : splitOnChar '\n' text with
    | nil => exact absurd e (splitOnChar_ne_nil _ _)
    | cons para r =>
      have := (key para (by rw [e]; exact List.mem_cons_self)).1
      simp only [List.map_cons, List.flatten_cons]
      intro hnil
      exact this (List.append_eq_nil_iff.mp hnil).1
  · intro l hl
    obtain ⟨ls, hls, hl⟩ := List.mem_flatten.mp hl
    obtain ⟨para, hpara, rfl⟩ := List.mem_map.mp hls
    exact (key para hpara).2 l hl

/-! ## the generated messages -/

/-- evaluate `String.toList` of a literal cheaply: the kernel compares the literal with
`String.ofList L` instead of decoding its bytes -/
theorem toList_of_eq_ofList (s : String) (L : List Char) (h : s = String.ofList L) : s.toList = L :=
  h ▸ String.toList_ofList

def msgOk (msg : List Char) : Bool := (splitOnChar '\n' msg).all (secondFits 80)

set_option maxRecDepth 10000 in
/-- In every paragraph of every message of the generated table the second word fits on a line. -/
theorem errMessage_ok (c : ErrCode) : msgOk (errMessage c) = true := by
  cases c <;>
  · unfold errMessage
    rw [toList_of_eq_ofList (Gen.errorTitle _) _ rfl, toList_of_eq_ofList (Gen.errorDetails _) _ rfl]
    decide +kernel

theorem indent_ne_nil : INDENT ≠ [] := by decide
theorem indent_no_nl : '\n' ∉ INDENT := by decide

theorem message_lines (c : ErrCode) :
    ∃ msg : List (List Char), reflow 80 [INDENT] (errMessage c) = joinWith ['\n'] msg ∧ msg ≠ [] ∧
      ∀ l ∈ msg, INDENT <+: l ∧ '\n' ∉ l := by
  apply reflow_lines 80 INDENT _ indent_ne_nil indent_no_nl
  intro para hpara
  have := errMessage_ok c
  unfold msgOk at this
  exact List.all_eq_true.mp this para hpara

/-! ## the uncoloured block -/

theorem natDigits_no_nl (n : Nat) : '\n' ∉ natDigits n := by
  intro h
  have := List.all_eq_true.mp (natDigits_all n) _ h
  exact absurd this (by decide)

theorem tabsToSpaces_no_nl (s : List Char) (h : '\n' ∉ s) : '\n' ∉ tabsToSpaces s := by
  intro hm
  unfold tabsToSpaces at hm
  obtain ⟨c, hc, e⟩ := List.mem_map.mp hm
  by_cases ht : c = '\t'
  · subst ht; simp at e
  · have : (c == '\t') = false := by simpa using ht
    rw [this] at e
    simp only [Bool.false_eq_true, if_false] at e
    subst e; exact h hc

theorem replicate_no_nl (k : Nat) (c : Char) (hc : c ≠ '\n') : '\n' ∉ List.replicate k c := by
  intro h
  exact hc (List.eq_of_mem_replicate h).symm

/-- the four parts of the block and the message, split at the line ends -/
theorem split_block (H Q C : List Char) (msg : List (List Char)) (hH : '\n' ∉ H) (hQ : '\n' ∉ Q)
    (hC : '\n' ∉ C) (hne : msg ≠ []) (hm : ∀ l ∈ msg, '\n' ∉ l) :
    splitOnChar '\n' ('\n' :: (H ++ '\n' :: (Q ++ '\n' :: (C ++ '\n' :: (joinWith ['\n'] msg ++ ['\n'])))))
      = [[], H, Q, C] ++ msg ++ [[]] := by
  rw [splitOnChar_sep, splitOnChar_append_sep _ _ _ hH, splitOnChar_append_sep _ _ _ hQ,
    splitOnChar_append_sep _ _ _ hC, splitOnChar_joinWith_sep _ _ _ hne hm]
  simp [splitOnChar]

end KlogV.PrettifyLemmas
