/- C06/C12 lemmas: `klog report` never fails on records with valid dates. -/
import KlogV.Lemmas.Report
import KlogV.Lemmas.RoundtripWF3
import KlogV.Model.JsonView
namespace KlogV

theorem allDatesRange_isSome (b : Date) (hb : b.valid = true) (fuel : Nat) (a : Date) (ha : a.valid = true) :
    (allDatesRange a b fuel).isSome = true := by
  induction fuel generalizing a with
  | zero => simp [allDatesRange]
  | succ fuel ih =>
    unfold allDatesRange
    by_cases hab : a.afterOrEqual b = true
    · rw [if_pos hab]; rfl
    · rw [if_neg hab]
      rw [afterOrEqual_iff_dayNumber a b ha hb] at hab
      have hbr := dayNumber_range b hb
      have har := dayNumber_range a ha
      cases hp : a.plusDays 1 with
      | none =>
        have := (plusDays_none_iff a 1 ha).mp hp
        omega
      | some nx =>
        have hnx := plusDays_some a nx 1 ha hp
        have := ih nx hnx.1
        simp only [Option.isSome_map]
        exact this

/-- The report of records with valid dates (all parsed records have one) never fails, for every
aggregation, with and without gap filling. -/
theorem reportRows_isSome (k : PeriodKind) (fill : Bool) (rs : List Record) (hv : ∀ r ∈ rs, r.date.valid = true) :
    (reportRows k fill rs).isSome = true := by
  have hperm := sortRecords_perm true rs
  cases hs : sortRecords true rs with
  | nil => rw [reportRows_nil k fill rs hs]; rfl
  | cons first rest =>
    cases hl : (first :: rest).getLast? with
    | none => simp at hl
    | some last =>
      rw [reportRows_cons k fill rs first rest last hs hl]
      have hf : first ∈ sortRecords true rs := by rw [hs]; simp
      have hlm : last ∈ sortRecords true rs := by rw [hs]; exact List.mem_of_getLast? hl
      have hfv := hv first ((hperm.mem_iff).mp hf)
      have hlv := hv last ((hperm.mem_iff).mp hlm)
      simp only [Option.isSome_map]
      cases fill with
      | true => simp only [if_true]; exact allDatesRange_isSome _ hlv _ _ hfv
      | false => simp

/-- every record the parser returns has a date of the calendar -/
theorem parseDoc_dates_valid (t : Bytes) (rs : List Record) (bos : List BlockOut)
    (h : parseDoc t = .records rs bos) : ∀ r ∈ rs, r.date.valid = true := by
  intro r hr
  unfold parseDoc at h
  obtain ⟨bo, hbo, hout⟩ := assemble_inv _ _ _ h r hr
  obtain ⟨b, hb, hpb⟩ := rt_blockOuts_mem _ bo hbo
  rw [hpb] at hout
  exact (parseBlock_inv b r (blocksOf_text_noLF t b hb) hout).1

theorem splitCurrentOther_isSome (today : Date) (rs : List Record) (h : (today.plusDays (-1)).isSome = true) :
    (splitCurrentOther today rs).isSome = true := by
  unfold splitCurrentOther
  simp only [Option.isSome_map]
  exact h

theorem toJson_isSome (u : UTab) (file : List Char) (pretty : Bool) (d : DocOut) (h : ∀ x, d = x → x ≠ .panic) :
    (toJson u file pretty d).isSome = true := by
  unfold toJson
  simp only [Option.isSome_map]
  cases d with
  | records rs bos => rfl
  | errors es => rfl
  | panic => exact absurd rfl (h _ rfl)

end KlogV
