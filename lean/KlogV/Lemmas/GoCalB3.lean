/- Month / quarter / year periods of the translated period code, used by GoCalB.lean. Core Lean only. -/
import KlogV.Lemmas.GoCalB2
set_option linter.unusedSimpArgs false
namespace KlogV.GoL.B
open KlogV.Go

/-! ### Month.Period -/

def moBody (s : GoCal.date × Bool) : G (ForInStep (GoCal.date × Bool)) := do
  let c ← (do
    let c ← (do
      let y ← s.1.Year
      if (y == 9999) = true then do
        let m ← s.1.Month
        pure (m == 12)
      else pure false)
    if c = true then do
      let d ← s.1.Day
      pure (d == 31)
    else pure false)
  if c = true then pure (ForInStep.done (s.1, true))
  else do
    let next ← s.1.PlusDays 1
    let a ← next.Month
    let b ← s.1.Month
    if (a != b) = true then pure (ForInStep.done (s.1, true))
    else pure (ForInStep.yield (next, s.2))

theorem month_period_unfold (m : GoCal.Month) (since until_ : GoCal.date)
    (h1 : GoCal.NewDate m.date.year m.date.month 1 = .ok since)
    (h2 : GoCal.NewDate m.date.year m.date.month 28 = .ok until_) :
    GoCal.Month.Period m =
      match loopN moBody 64 (until_, false) with
      | .error e => .error e
      | .ok s =>
        if s.2 = false then .error (Exc.err "klogv: loop fuel exhausted") else .ok ⟨since, s.1⟩ := by
  have e1 := forIn_const (List.range 64) (until_, false) moBody
  rw [List.length_range] at e1
  unfold GoCal.Month.Period
  conv at e1 => lhs; unfold moBody
  simp only [GoCal.date.Year, GoCal.date.Month, bind, Except.bind, pure, Except.pure, h1, h2, try2] at e1 ⊢
  rw [e1]
  cases loopN moBody 64 (until_, false) with
  | error e => rfl
  | ok s =>
    obtain ⟨s1, s2⟩ := s
    cases s2 <;> rfl

theorem plusDays_one (u : Date) : u.plusDays 1 = if isLastDay u then none else some (nextDay u) := by
  simp [Date.plusDays, plusDaysFwd]

theorem toGo_year (u : Date) : u.toGo.year = (u.y : Int) := rfl
theorem toGo_month (u : Date) : u.toGo.month = (u.m : Int) := rfl
theorem toGo_day (u : Date) : u.toGo.day = (u.d : Int) := rfl

theorem moBody_spec (s : GoCal.date) (b : Bool) :
    moBody (s, b) =
      if s.year = 9999 ∧ s.month = 12 ∧ s.day = 31 then .ok (.done (s, true)) else
      match s.PlusDays 1 with
      | .error e => .error e
      | .ok v => if v.month = s.month then .ok (.yield (v, b)) else .ok (.done (s, true)) := by
  simp only [moBody, GoCal.date.Year, GoCal.date.Month, GoCal.date.Day, bind, Except.bind, pure, Except.pure]
  by_cases a1 : s.year = 9999
  · by_cases a2 : s.month = 12
    · by_cases a3 : s.day = 31
      · simp [a1, a2, a3]
      · simp [a1, a2, a3]
        cases s.PlusDays 1 with
        | error e => rfl
        | ok v => rfl
    · simp [a1, a2]
      cases s.PlusDays 1 with
      | error e => rfl
      | ok v => rfl
  · simp [a1]
    cases s.PlusDays 1 with
    | error e => rfl
    | ok v => rfl

theorem moBody_loop (k : Nat) : ∀ (u : Date) (b : Bool), u.valid = true → daysIn u.y u.m + 1 ≤ k + u.d →
    loopN moBody k (u.toGo, b) = .ok (({ u with d := daysIn u.y u.m } : Date).toGo, true) := by
  induction k with
  | zero =>
    intro u b hv hk
    have := (valid_iff u).1 hv
    omega
  | succ k ih =>
    intro u b hv hk
    have v := (valid_iff u).1 hv
    unfold loopN
    rw [moBody_spec]
    cases hl : isLastDay u with
    | true =>
      have l := (isLastDay_iff u).1 hl
      have e : ({ u with d := daysIn u.y u.m } : Date) = u := by
        have : daysIn u.y u.m = u.d := by rw [l.1, l.2.1, l.2.2]; decide
        rw [this]
      rw [e, if_pos (by rw [toGo_year, toGo_month, toGo_day]; omega)]
    | false =>
      have l : ¬ (u.y = 9999 ∧ u.m = 12 ∧ u.d = 31) := by
        intro c; rw [(isLastDay_iff u).2 c] at hl; cases hl
      have pd := date_plusDays_eq' u 1 hv
      rw [plusDays_one, hl] at pd
      simp only [Bool.false_eq_true, if_false] at pd
      rw [if_neg (by rw [toGo_year, toGo_month, toGo_day]; omega), pd]
      simp only []
      by_cases hd : u.d < daysIn u.y u.m
      · have nd : nextDay u = { u with d := u.d + 1 } := by unfold nextDay; rw [if_pos hd]
        have nv := nextDay_valid u hv hl
        have := ih (nextDay u) b nv (by rw [nd]; simp only; omega)
        have e : ({ nextDay u with d := daysIn (nextDay u).y (nextDay u).m } : Date) = { u with d := daysIn u.y u.m } := by
          rw [nd]
        rw [e] at this
        have hm : (nextDay u).toGo.month = u.toGo.month := by rw [nd]; rfl
        rw [if_pos hm]
        exact this
      · have hde : u.d = daysIn u.y u.m := by omega
        have e : ({ u with d := daysIn u.y u.m } : Date) = u := by rw [← hde]
        rw [e]
        have hm : ¬ (nextDay u).toGo.month = u.toGo.month := by
          rw [toGo_month, toGo_month]; unfold nextDay; rw [if_neg hd]
          split
          · simp only; omega
          · simp only; omega
        rw [if_neg hm]

theorem month_period_go (x : Date) (h : x.valid = true) :
    GoCal.Month.Period ⟨x.toGo⟩ = .ok (monthPeriod x).toGo := by
  have v := (valid_iff x).1 h
  have dp := daysIn_pos x.y x.m
  have v1 : (⟨x.y, x.m, 1, true⟩ : Date).valid = true := by rw [valid_iff]; simp only; omega
  have v28 : (⟨x.y, x.m, 28, true⟩ : Date).valid = true := by rw [valid_iff]; simp only; omega
  rw [month_period_unfold ⟨x.toGo⟩ _ _ (newDate_ok x.y x.m 1 v1) (newDate_ok x.y x.m 28 v28)]
  rw [moBody_loop 64 ⟨x.y, x.m, 28, true⟩ false v28 (by simp only; omega)]
  rfl

end KlogV.GoL.B
