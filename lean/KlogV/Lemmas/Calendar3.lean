/- Calendar lemmas, part 3: bucket hashes and keys, previous periods, patterns. -/
import KlogV.Lemmas.Calendar2
namespace KlogV
set_option linter.unusedSimpArgs false

/-- The key that identifies the period of a date, per kind. -/
def bucketKey (k : PeriodKind) (x : Date) : Int × Nat × Nat :=
  match k with
  | .day => (x.y, x.m, x.d)
  | .week => (x.isoWeek.1, x.isoWeek.2, 0)
  | .month => (x.y, x.m, 0)
  | .quarter => (x.y, x.quarter, 0)
  | .year => (x.y, 0, 0)

theorem or_shl (a b n : Nat) (h : a < 2 ^ n) : a ||| (b <<< n) = a + b * 2 ^ n := by
  rw [Nat.or_comm, ← Nat.shiftLeft_add_eq_or_of_lt h, Nat.shiftLeft_eq]; omega

theorem hash_day (x : Date) (h : x.valid = true) : hashOf .day x = x.d + x.m * 64 + x.y * 2048 := by
  rw [valid_iff] at h
  have := daysIn_pos x.y x.m
  simp only [hashOf, populate, bitsDay, bitsMonth, bitsYear]
  rw [or_shl 0 x.d 0 (by decide)]
  have e1 : (0 + x.d * 2 ^ 0) % 4294967296 = x.d := by omega
  rw [e1, or_shl x.d x.m (0 + 6) (by simp; omega)]
  have e2 : (x.d + x.m * 2 ^ (0 + 6)) % 4294967296 = x.d + x.m * 64 := by omega
  rw [e2, or_shl _ x.y (0 + 6 + 5) (by simp; omega)]
  omega

theorem hash_month (x : Date) (h : x.valid = true) : hashOf .month x = x.m + x.y * 32 := by
  rw [valid_iff] at h
  simp only [hashOf, populate, bitsMonth, bitsYear]
  rw [or_shl 0 x.m 0 (by decide)]
  have e1 : (0 + x.m * 2 ^ 0) % 4294967296 = x.m := by omega
  rw [e1, or_shl x.m x.y (0 + 5) (by simp; omega)]
  omega

theorem hash_quarter (x : Date) (h : x.valid = true) : hashOf .quarter x = x.quarter + x.y * 8 := by
  have hq := quarter_spec x h
  rw [valid_iff] at h
  simp only [hashOf, populate, bitsQuarter, bitsYear]
  rw [or_shl 0 x.quarter 0 (by decide)]
  have e1 : (0 + x.quarter * 2 ^ 0) % 4294967296 = x.quarter := by omega
  rw [e1, or_shl x.quarter x.y (0 + 3) (by simp; omega)]
  omega

theorem hash_year (x : Date) (h : x.valid = true) : hashOf .year x = x.y := by
  rw [valid_iff] at h
  simp only [hashOf, populate, bitsYear]
  rw [or_shl 0 x.y 0 (by decide)]
  omega

theorem hash_week (x : Date) (h : x.valid = true) :
    hashOf .week x = (x.isoWeek.2 + u32 x.isoWeek.1 * 128) % 4294967296 := by
  have hs := isoWeek_spec x h
  simp only at hs
  obtain ⟨_, _, hw1, hw2, _, _⟩ := hs
  simp only [hashOf, populate, bitsWeek, bitsYear]
  rw [or_shl 0 _ 0 (by decide)]
  have e1 : (0 + x.isoWeek.2 * 2 ^ 0) % 4294967296 = x.isoWeek.2 := by omega
  rw [e1, or_shl _ _ (0 + 7) (by simp; omega)]

theorem isoWeek_year_range (x : Date) :
    (x.y : Int) - 1 ≤ x.isoWeek.1 ∧ x.isoWeek.1 ≤ (x.y : Int) + 1 := by
  unfold Date.isoWeek; simp only
  split
  · omega
  · split <;> omega


theorem hash_eq_iff (k : PeriodKind) (x y : Date) (hx : x.valid = true) (hy : y.valid = true) :
    hashOf k x = hashOf k y ↔ bucketKey k x = bucketKey k y := by
  have vx := (valid_iff x).1 hx
  have vy := (valid_iff y).1 hy
  have dx := daysIn_pos x.y x.m
  have dy := daysIn_pos y.y y.m
  cases k with
  | day =>
    rw [hash_day x hx, hash_day y hy]
    simp only [bucketKey, Prod.mk.injEq]
    omega
  | month =>
    rw [hash_month x hx, hash_month y hy]
    simp only [bucketKey, Prod.mk.injEq, and_true]
    omega
  | quarter =>
    have qx := quarter_spec x hx
    have qy := quarter_spec y hy
    rw [hash_quarter x hx, hash_quarter y hy]
    simp only [bucketKey, Prod.mk.injEq, and_true]
    omega
  | year =>
    rw [hash_year x hx, hash_year y hy]
    simp only [bucketKey, Prod.mk.injEq, and_true]
    omega
  | week =>
    have sx := isoWeek_spec x hx
    have sy := isoWeek_spec y hy
    simp only at sx sy
    have rx := isoWeek_year_range x
    have ry := isoWeek_year_range y
    rw [hash_week x hx, hash_week y hy]
    simp only [bucketKey, Prod.mk.injEq, u32, and_true]
    omega


theorem digitChar_spec (n : Nat) : isDigit (digitChar n) = true ∧ digitVal (digitChar n) = n % 10 := by
  unfold digitChar
  have h : n % 10 < 10 := Nat.mod_lt _ (by decide)
  generalize n % 10 = k at h
  have : k = 0 ∨ k = 1 ∨ k = 2 ∨ k = 3 ∨ k = 4 ∨ k = 5 ∨ k = 6 ∨ k = 7 ∨ k = 8 ∨ k = 9 := by omega
  rcases this with e | e | e | e | e | e | e | e | e | e <;> subst e <;> decide

theorem pattern_year (y : Nat) (hy : y ≤ 9999) :
    periodFromPattern (pad4 y) = .ok ⟨⟨y, 1, 1, true⟩, ⟨y, 12, 31, true⟩⟩ := by
  have h1 := digitChar_spec (y / 1000)
  have h2 := digitChar_spec (y / 100)
  have h3 := digitChar_spec (y / 10)
  have h4 := digitChar_spec y
  have hv : digitsVal [digitChar (y / 1000), digitChar (y / 100), digitChar (y / 10), digitChar y] = y := by
    simp only [digitsVal, List.foldl, h1.2, h2.2, h3.2, h4.2]; omega
  have hm : mkDate y 1 1 = some ⟨y, 1, 1, true⟩ := by
    unfold mkDate; simp only
    have : (⟨y, 1, 1, true⟩ : Date).valid = true := by
      rw [valid_iff]; have := daysIn_pos y 1; simp only; omega
    rw [if_pos this]
  unfold periodFromPattern pad4
  simp only [allDigits, List.all_cons, List.all_nil, h1.1, h2.1, h3.1, h4.1, Bool.and_self, if_true, hv, hm,
    Option.map_some, yearPeriod]


theorem natCast_succ (n : Nat) : ((n + 1 : Nat) : Int) = (n : Int) + 1 := by omega

/-- A valid date whose day number lies within months `m1 … m2` of year `Y` lies in those months. -/
theorem in_span (b : Date) (hb : b.valid = true) (Y m1 m2 : Nat) (_h1 : 1 ≤ m1) (h2 : m2 ≤ 12)
    (lo : daysBeforeYear Y + daysBeforeMonth Y m1 ≤ dayNumber b)
    (hi : dayNumber b < daysBeforeYear Y + daysBeforeMonth Y (m2 + 1)) :
    b.y = Y ∧ m1 ≤ b.m ∧ b.m ≤ m2 := by
  have vb := (valid_iff b).1 hb
  have g1 := dayNumber_ge_year b hb
  have g2 := dayNumber_lt_next_year b hb
  have g3 := dayNumber_lt_next_month b hb
  have ey : b.y = Y := by
    apply Classical.byContradiction; intro hn
    rcases Nat.lt_or_gt_of_ne hn with g | g
    · have := dby_mono (b.y + 1) Y (by omega)
      rw [natCast_succ] at this
      omega
    · have := dby_mono (Y + 1) b.y (by omega)
      rw [natCast_succ, dby_succ'] at this
      have := dbm_mono Y (m2 + 1) 13 (by omega) (by omega)
      rw [dbm_13] at this
      omega
  subst ey
  refine ⟨rfl, ?_, ?_⟩
  · apply Classical.byContradiction; intro hn
    have := dbm_mono b.y (b.m + 1) m1 (by omega) (by omega)
    omega
  · apply Classical.byContradiction; intro hn
    have := dbm_mono b.y (m2 + 1) b.m (by omega) (by omega)
    unfold dayNumber at hi
    omega

/-- Start of the month of `a` as a day number. -/
def monthStart (a : Date) : Int := daysBeforeYear a.y + daysBeforeMonth a.y a.m

theorem monthStart_le (a : Date) (h : a.valid = true) : monthStart a ≤ dayNumber a ∧ dayNumber a < monthStart a + daysIn a.y a.m := by
  have := dayNumber_lt_next_month a h
  have v := (valid_iff a).1 h
  rw [daysBeforeMonth_succ _ _ v.2.1] at this
  unfold monthStart dayNumber at *; omega

theorem same_month_of_between (a b : Date) (ha : a.valid = true) (hb : b.valid = true)
    (lo : monthStart a ≤ dayNumber b) (hi : dayNumber b < monthStart a + daysIn a.y a.m) :
    b.y = a.y ∧ b.m = a.m := by
  have v := (valid_iff a).1 ha
  have := in_span b hb a.y a.m a.m v.2.1 v.2.2.1 lo (by
    rw [daysBeforeMonth_succ _ _ v.2.1]; unfold monthStart at hi; omega)
  omega

/-- A valid date at most 28 days before the start of the month of `a` lies in the previous month. -/
theorem prev_month_of_between (a b : Date) (ha : a.valid = true) (hb : b.valid = true)
    (lo : monthStart a - 28 ≤ dayNumber b) (hi : dayNumber b < monthStart a) :
    b.m ≠ a.m ∧ monthStart b + daysIn b.y b.m = monthStart a := by
  have v := (valid_iff a).1 ha
  have rb := dayNumber_range b hb
  by_cases hm : 2 ≤ a.m
  · have hs := daysBeforeMonth_succ a.y (a.m - 1) (by omega)
    have e : a.m - 1 + 1 = a.m := by omega
    rw [e] at hs
    have hd := daysIn_pos a.y (a.m - 1)
    have := in_span b hb a.y (a.m - 1) (a.m - 1) (by omega) (by omega)
      (by unfold monthStart at lo; omega) (by rw [e]; exact hi)
    obtain ⟨e1, e2, e3⟩ := this
    have e4 : b.m = a.m - 1 := by omega
    refine ⟨by omega, ?_⟩
    unfold monthStart; rw [e1, e4]; omega
  · have hm1 : a.m = 1 := by omega
    unfold monthStart at lo hi ⊢
    rw [hm1, daysBeforeMonth_one] at lo hi ⊢
    by_cases hy0 : a.y = 0
    · rw [hy0] at hi; have := dby_zero; simp at hi; omega
    · have hs := dby_succ' (a.y - 1)
      have e : ((a.y - 1 : Nat) : Int) + 1 = (a.y : Int) := by omega
      rw [e] at hs
      have h12 := dbm_spec (a.y - 1) 12 (by omega) (by omega)
      have h13 : daysBeforeMonth (a.y - 1) (12 + 1) = 365 + leap (a.y - 1) := dbm_13 (a.y - 1)
      have hL := leap_le (a.y - 1)
      have := in_span b hb (a.y - 1) 12 12 (by omega) (by omega) (by omega) (by omega)
      obtain ⟨e1, e2, e3⟩ := this
      have e4 : b.m = 12 := by omega
      refine ⟨by omega, ?_⟩
      rw [e1, e4]
      have : daysIn (a.y - 1) 12 = 31 := by simp [daysIn_eq]
      omega


theorem prevMonthDate_spec (n : Nat) (x y : Date) (hx : x.valid = true)
    (h : prevMonthDate n x.m x = some y) :
    y.valid = true ∧ monthStart y + daysIn y.y y.m = monthStart x := by
  induction n generalizing x with
  | zero => simp [prevMonthDate] at h
  | succ n ih =>
    unfold prevMonthDate at h
    cases hp : x.plusDays (-25) with
    | none => rw [hp] at h; simp at h
    | some r =>
      rw [hp] at h; simp only at h
      have hr := plusDays_some x r _ hx hp
      have ms := monthStart_le x hx
      by_cases c : dayNumber r < monthStart x
      · have := prev_month_of_between x r hx hr.1 (by omega) c
        have hne : (r.m != x.m) = true := by simp [this.1]
        rw [hne] at h; simp only [if_true] at h
        cases h
        exact ⟨hr.1, this.2⟩
      · have := same_month_of_between x r hx hr.1 (by omega) (by omega)
        have hne : (r.m != x.m) = false := by simp [this.2]
        rw [hne] at h; simp only [Bool.false_eq_true, if_false] at h
        rw [← this.2] at h
        have := ih r hr.1 h
        have e : monthStart r = monthStart x := by unfold monthStart; rw [‹r.y = x.y ∧ r.m = x.m›.1, ‹r.y = x.y ∧ r.m = x.m›.2]
        rw [e] at this; exact this


theorem dbm_q (y : Nat) : daysBeforeMonth y 1 = 0 ∧ daysBeforeMonth y 4 = 90 + leap y ∧
    daysBeforeMonth y 7 = 181 + leap y ∧ daysBeforeMonth y 10 = 273 + leap y ∧ daysBeforeMonth y 13 = 365 + leap y := by
  refine ⟨?_, ?_, ?_, ?_, ?_⟩ <;> rw [dbm_eq _ _ (by omega) (by omega)] <;> simp

def quarterStart (a : Date) : Int := daysBeforeYear a.y + daysBeforeMonth a.y (3 * a.quarter - 2)
def quarterNext (a : Date) : Int := daysBeforeYear a.y + daysBeforeMonth a.y (3 * a.quarter + 1)

theorem quarter_cases (a : Date) (h : a.valid = true) :
    a.quarter = 1 ∨ a.quarter = 2 ∨ a.quarter = 3 ∨ a.quarter = 4 := by
  have := quarter_spec a h; omega

theorem quarter_len (a : Date) (h : a.valid = true) : quarterStart a + 90 ≤ quarterNext a := by
  have t := dbm_q a.y
  have hL := leap_le a.y
  unfold quarterStart quarterNext
  rcases quarter_cases a h with e | e | e | e <;> rw [e] <;> simp only [Nat.reduceMul, Nat.reduceSub, Nat.reduceAdd] <;> omega

theorem quarterStart_le (a : Date) (h : a.valid = true) : quarterStart a ≤ dayNumber a ∧ dayNumber a < quarterNext a := by
  have q := quarter_spec a h
  have v := (valid_iff a).1 h
  have h1 := dayNumber_lt_next_month a h
  have m1 := dbm_mono a.y (3 * a.quarter - 2) a.m (by omega) (by omega)
  have m2 := dbm_mono a.y (a.m + 1) (3 * a.quarter + 1) (by omega) (by omega)
  unfold quarterStart quarterNext
  unfold dayNumber at *
  omega

theorem same_quarter_of_between (a b : Date) (ha : a.valid = true) (hb : b.valid = true)
    (lo : quarterStart a ≤ dayNumber b) (hi : dayNumber b < quarterNext a) :
    b.y = a.y ∧ b.quarter = a.quarter := by
  have q := quarter_spec a ha
  have := in_span b hb a.y (3 * a.quarter - 2) (3 * a.quarter) (by omega) (by omega) lo hi
  refine ⟨this.1, ?_⟩
  unfold Date.quarter at *
  omega

theorem prev_quarter_of_between (a b : Date) (ha : a.valid = true) (hb : b.valid = true)
    (lo : quarterStart a - 80 ≤ dayNumber b) (hi : dayNumber b < quarterStart a) :
    b.quarter ≠ a.quarter ∧ quarterNext b = quarterStart a := by
  have rb := dayNumber_range b hb
  have t := dbm_q a.y
  have hL := leap_le a.y
  have key : ∀ (Y q : Nat), 1 ≤ q → q ≤ 4 → q ≠ a.quarter →
      daysBeforeYear Y + daysBeforeMonth Y (3 * q - 2) ≤ dayNumber b →
      dayNumber b < daysBeforeYear Y + daysBeforeMonth Y (3 * q + 1) →
      daysBeforeYear Y + daysBeforeMonth Y (3 * q + 1) = quarterStart a →
      b.quarter ≠ a.quarter ∧ quarterNext b = quarterStart a := by
    intro Y q q1 q4 qne l h e
    have := in_span b hb Y (3 * q - 2) (3 * q) (by omega) (by omega) l h
    have bq : b.quarter = q := by unfold Date.quarter; omega
    refine ⟨by omega, ?_⟩
    rw [← e]; unfold quarterNext; rw [bq, this.1]
  unfold quarterStart at lo hi
  rcases quarter_cases a ha with e | e | e | e
  · by_cases hy0 : a.y = 0
    · rw [e] at hi; simp only [Nat.reduceMul, Nat.reduceSub, Nat.reduceAdd] at hi; rw [t.1, hy0] at hi; have := dby_zero; simp at hi; omega
    · have hs := dby_succ' (a.y - 1)
      have e' : ((a.y - 1 : Nat) : Int) + 1 = (a.y : Int) := by omega
      rw [e'] at hs
      have t' := dbm_q (a.y - 1)
      have hL' := leap_le (a.y - 1)
      rw [e] at lo hi
      simp only [Nat.reduceMul, Nat.reduceSub, Nat.reduceAdd] at lo hi
      apply key (a.y - 1) 4 (by omega) (by omega) (by omega)
      · simp only [Nat.reduceMul, Nat.reduceSub, Nat.reduceAdd]; omega
      · simp only [Nat.reduceMul, Nat.reduceSub, Nat.reduceAdd]; omega
      · unfold quarterStart; rw [e]; simp only [Nat.reduceMul, Nat.reduceSub, Nat.reduceAdd]; omega
  · rw [e] at lo hi; simp only [Nat.reduceMul, Nat.reduceSub, Nat.reduceAdd] at lo hi
    apply key a.y 1 (by omega) (by omega) (by omega)
    · simp only [Nat.reduceMul, Nat.reduceSub, Nat.reduceAdd]; omega
    · simp only [Nat.reduceMul, Nat.reduceSub, Nat.reduceAdd]; omega
    · unfold quarterStart; rw [e]
  · rw [e] at lo hi; simp only [Nat.reduceMul, Nat.reduceSub, Nat.reduceAdd] at lo hi
    apply key a.y 2 (by omega) (by omega) (by omega)
    · simp only [Nat.reduceMul, Nat.reduceSub, Nat.reduceAdd]; omega
    · simp only [Nat.reduceMul, Nat.reduceSub, Nat.reduceAdd]; omega
    · unfold quarterStart; rw [e]
  · rw [e] at lo hi; simp only [Nat.reduceMul, Nat.reduceSub, Nat.reduceAdd] at lo hi
    apply key a.y 3 (by omega) (by omega) (by omega)
    · simp only [Nat.reduceMul, Nat.reduceSub, Nat.reduceAdd]; omega
    · simp only [Nat.reduceMul, Nat.reduceSub, Nat.reduceAdd]; omega
    · unfold quarterStart; rw [e]


theorem prevQuarterDate_spec (n : Nat) (x y : Date) (hx : x.valid = true)
    (h : prevQuarterDate n x.quarter x = some y) :
    y.valid = true ∧ quarterNext y = quarterStart x := by
  induction n generalizing x with
  | zero => simp [prevQuarterDate] at h
  | succ n ih =>
    unfold prevQuarterDate at h
    cases hp : x.plusDays (-80) with
    | none => rw [hp] at h; simp at h
    | some r =>
      rw [hp] at h; simp only at h
      have hr := plusDays_some x r _ hx hp
      have ms := quarterStart_le x hx
      have ql := quarter_len x hx
      by_cases c : dayNumber r < quarterStart x
      · have := prev_quarter_of_between x r hx hr.1 (by omega) c
        have hne : (r.quarter != x.quarter) = true := by simp [this.1]
        rw [hne] at h; simp only [if_true] at h
        cases h
        exact ⟨hr.1, this.2⟩
      · have hs := same_quarter_of_between x r hx hr.1 (by omega) (by omega)
        have hne : (r.quarter != x.quarter) = false := by simp [hs.2]
        rw [hne] at h; simp only [Bool.false_eq_true, if_false] at h
        rw [← hs.2] at h
        have := ih r hr.1 h
        have e : quarterStart r = quarterStart x := by unfold quarterStart; rw [hs.1, hs.2]
        rw [e] at this; exact this

theorem previous_adjacent (k : PeriodKind) (x y : Date) (h : x.valid = true) (p q : Period)
    (hy : previousDate k x = some y) (hp : periodOf k x = some p) (hq : periodOf k y = some q) :
    y.valid = true ∧ dayNumber q.until_ + 1 = dayNumber p.since := by
  cases k with
  | day =>
    simp only [previousDate, periodOf, Option.some.injEq] at hy hp hq
    have := plusDays_some x y _ h hy
    subst hp; subst hq
    refine ⟨this.1, ?_⟩; simp only; omega
  | week =>
    simp only [previousDate, periodOf] at hy hp hq
    have hyv := plusDays_some x y _ h hy
    have sp := weekPeriod_spec' x h p hp
    have sq := weekPeriod_spec' y hyv.1 q hq
    have e1 := weekday_eq x
    have e2 := weekday_eq y
    refine ⟨hyv.1, ?_⟩; omega
  | month =>
    simp only [previousDate, periodOf, Option.some.injEq] at hy hp hq
    have := prevMonthDate_spec 4 x y h hy
    subst hp; subst hq
    refine ⟨this.1, ?_⟩
    have vy := (valid_iff y).1 this.1
    have := this.2
    unfold monthStart at this
    simp only [monthPeriod, dayNumber]
    omega
  | quarter =>
    simp only [previousDate, periodOf, Option.some.injEq] at hy hp hq
    have := prevQuarterDate_spec 4 x y h hy
    subst hp; subst hq
    refine ⟨this.1, ?_⟩
    have qy := quarter_spec y this.1
    rw [quarterPeriod_eq x h, quarterPeriod_eq y this.1]
    have := this.2
    unfold quarterStart quarterNext at this
    rw [daysBeforeMonth_succ _ _ (by omega)] at this
    simp only [dayNumber]
    omega
  | year =>
    simp only [previousDate, periodOf, Option.some.injEq] at hy hp hq
    have v := (valid_iff x).1 h
    split at hy
    · cases hy
    · rename_i hne
      have hy0 : x.y ≠ 0 := by simpa using hne
      simp only [Option.some.injEq] at hy
      subst hy; subst hp; subst hq
      have hs := dby_succ' (x.y - 1)
      have e' : ((x.y - 1 : Nat) : Int) + 1 = (x.y : Int) := by omega
      rw [e'] at hs
      have t := dbm_spec (x.y - 1) 12 (by omega) (by omega)
      have t1 := daysBeforeMonth_one x.y
      refine ⟨?_, ?_⟩
      · rw [valid_iff]; have := daysIn_pos (x.y - 1) 1; simp only; omega
      · simp only [yearPeriod, dayNumber]; omega


theorem dby_strictMono (a b : Int) (h : a < b) : daysBeforeYear a < daysBeforeYear b := by
  unfold daysBeforeYear; omega

theorem sameDay_iff (a b : Date) : a.sameDay b = true ↔ (a.y = b.y ∧ a.m = b.m ∧ a.d = b.d) := by
  unfold Date.sameDay; simp only [Bool.and_eq_true, beq_iff_eq]; omega

theorem dayNumber_of_sameDay (a b : Date) (h : a.sameDay b = true) : dayNumber a = dayNumber b := by
  rw [sameDay_iff] at h
  unfold dayNumber; rw [h.1, h.2.1, h.2.2]

theorem sameDay_iff_dayNumber (a b : Date) (ha : a.valid = true) (hb : b.valid = true) :
    a.sameDay b = true ↔ dayNumber a = dayNumber b :=
  ⟨dayNumber_of_sameDay a b, dayNumber_inj a b ha hb⟩

theorem isoWeek_eq_iff (x y : Date) (hx : x.valid = true) (hy : y.valid = true) :
    (x.isoWeek.1 = y.isoWeek.1 ∧ x.isoWeek.2 = y.isoWeek.2) ↔
      dayNumber x + 4 - (x.weekday : Int) = dayNumber y + 4 - (y.weekday : Int) := by
  have sx := isoWeek_spec x hx
  have sy := isoWeek_spec y hy
  simp only at sx sy
  have ex := weekday_eq x
  have ey := weekday_eq y
  generalize x.isoWeek.1 = Yx at *
  generalize y.isoWeek.1 = Yy at *
  generalize x.isoWeek.2 = wx at *
  generalize y.isoWeek.2 = wy at *
  constructor
  · rintro ⟨e1, e2⟩
    subst e1; subst e2
    omega
  · intro e
    have : Yx = Yy := by
      apply Classical.byContradiction; intro hn
      rcases Int.lt_or_gt_of_ne hn with g | g
      · have := dby_strictMono Yx Yy g
        have m : daysBeforeYear (Yx + 1) ≤ daysBeforeYear Yy := by
          by_cases c : Yx + 1 = Yy
          · rw [c]; exact Int.le_refl _
          · exact Int.le_of_lt (dby_strictMono _ _ (by omega))
        omega
      · have := dby_strictMono Yy Yx g
        have m : daysBeforeYear (Yy + 1) ≤ daysBeforeYear Yx := by
          by_cases c : Yy + 1 = Yx
          · rw [c]; exact Int.le_refl _
          · exact Int.le_of_lt (dby_strictMono _ _ (by omega))
        omega
    subst this
    refine ⟨rfl, ?_⟩
    omega


theorem same_period_iff_key (k : PeriodKind) (x y : Date) (hx : x.valid = true) (hy : y.valid = true)
    (p q : Period) (hp : periodOf k x = some p) (hq : periodOf k y = some q) :
    (p.since.sameDay q.since = true ∧ p.until_.sameDay q.until_ = true) ↔ bucketKey k x = bucketKey k y := by
  cases k with
  | day =>
    simp only [periodOf, Option.some.injEq] at hp hq
    subst hp; subst hq
    simp only [bucketKey, Prod.mk.injEq, sameDay_iff]
    omega
  | week =>
    simp only [periodOf] at hp hq
    have sp := weekPeriod_spec' x hx p hp
    have sq := weekPeriod_spec' y hy q hq
    rw [sameDay_iff_dayNumber _ _ sp.1 sq.1, sameDay_iff_dayNumber _ _ sp.2.1 sq.2.1]
    simp only [bucketKey, Prod.mk.injEq, and_true]
    rw [isoWeek_eq_iff x y hx hy]
    omega
  | month =>
    simp only [periodOf, Option.some.injEq] at hp hq
    subst hp; subst hq
    simp only [bucketKey, Prod.mk.injEq, sameDay_iff, monthPeriod, and_true]
    constructor
    · intro h; omega
    · rintro ⟨h1, h2⟩
      have : x.y = y.y := by omega
      rw [this, h2]; omega
  | quarter =>
    simp only [periodOf, Option.some.injEq] at hp hq
    subst hp; subst hq
    have qx := quarter_spec x hx
    have qy := quarter_spec y hy
    rw [quarterPeriod_eq x hx, quarterPeriod_eq y hy]
    simp only [bucketKey, Prod.mk.injEq, sameDay_iff, and_true]
    constructor
    · intro h; omega
    · rintro ⟨h1, h2⟩
      have : x.y = y.y := by omega
      rw [this, h2]; omega
  | year =>
    simp only [periodOf, Option.some.injEq] at hp hq
    subst hp; subst hq
    simp only [bucketKey, Prod.mk.injEq, sameDay_iff, yearPeriod, and_true]
    omega


end KlogV
