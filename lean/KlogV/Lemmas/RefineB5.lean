/-
C04b, part 5: editing lines in place: the list of lines after `modifyLine` / `insertLines` is read
back as itself; the context of one block of the file.
-/
import KlogV.Lemmas.RefineB4
namespace KlogV.RefineBLemmas
open KlogV KlogV.RefineLemmas KlogV.EditLemmas KlogV.GrammarLemmas

/-! ## single lines -/

theorem splitRaw_noLF (x : Bytes) (h : LF ∉ x) (hne : x ≠ []) : splitRaw x = [x] := by
  induction x with
  | nil => exact absurd rfl hne
  | cons b x ih =>
    simp only [List.mem_cons, not_or] at h
    have hb : b ≠ LF := fun e => h.1 e.symm
    cases x with
    | nil => simp [splitRaw, if_neg hb]
    | cons c x =>
      have := ih h.2 (by simp)
      simp only [splitRaw, if_neg hb] at this ⊢
      rw [this]

/-- a line that is read back as itself (possibly the last one of the file, without ending) -/
def LineGood (l : Line) : Prop :=
  LF ∉ l.text ∧ (l.ending = .lf → l.text.getLast? ≠ some CR) ∧ (l.ending = .none → l.text ≠ [])

theorem lineGood_split (l : Line) (h : LineGood l) : splitLines l.original = [l] := by
  obtain ⟨h1, h2, h3⟩ := h
  by_cases hn : l.ending = .none
  · obtain ⟨text, ending⟩ := l
    simp only at hn h1 h3
    subst hn
    have hne := h3 rfl
    simp only [Line.original, Ending.bytes, List.append_nil, splitLines]
    rw [splitRaw_noLF text h1 hne]
    simp only [List.map_cons, List.map_nil]
    rw [ofRaw_none text (fun hl => h1 (List.mem_of_getLast? hl))]
  · exact (clean_split l ⟨h1, hn, h2⟩).1

theorem original_ne_nil_of_split (l : Line) (h : splitLines l.original = [l]) : l.original ≠ [] := by
  intro h0
  rw [h0] at h
  simp [splitLines, splitRaw] at h

/-- what a line of a list that is read back as itself satisfies -/
theorem good_line (file : Bytes) (Lr X Y : List Line) (l : Line) (G : GoodLines file Lr) (hXY : Lr = X ++ l :: Y) :
    splitLines (joinLines X) = X ∧ (X = [] ∨ (joinLines X).getLast? = some LF) ∧
      splitLines l.original = [l] ∧ splitLines (joinLines Y) = Y ∧ (Y ≠ [] → l.ending ≠ .none) := by
  have hsplit := G.split
  rw [hXY] at hsplit
  have p1 := splitLines_parts _ X (l :: Y) hsplit
  have p2 := splitLines_parts _ [l] Y (show splitLines (joinLines (l :: Y)) = [l] ++ Y from p1.2.1)
  have hl : l ∈ Lr := by rw [hXY]; simp
  have horig : splitLines l.original = [l] := by
    have := p2.1
    simpa [joinLines_cons, joinLines_nil] using this
  refine ⟨p1.1, p1.2.2 (by simp), horig, p2.2.1, ?_⟩
  intro hY hn
  have hne := original_ne_nil_of_split l horig
  rcases p2.2.2 hY with h | h
  · simp at h
  · rw [joinLines_cons, joinLines_nil, List.append_nil] at h
    have : l.original = l.text := by simp [Line.original, hn, Ending.bytes]
    rw [this] at h
    exact G.noLF l hl (List.mem_of_getLast? h)

theorem lineGood_of_good (file : Bytes) (Lr : List Line) (G : GoodLines file Lr) (l : Line) (hl : l ∈ Lr) :
    LineGood l := by
  obtain ⟨X, Y, hXY⟩ := List.append_of_mem hl
  obtain ⟨_, _, horig, _, _⟩ := good_line file Lr X Y l G hXY
  refine ⟨G.noLF l hl, ?_, ?_⟩
  · intro hlf hcr
    obtain ⟨text, ending⟩ := l
    simp only at hlf hcr
    subst hlf
    obtain ⟨t', ht'⟩ : ∃ t', text = t' ++ [CR] := by
      rcases eq_nil_or_snoc text with rfl | ⟨d, x, rfl⟩
      · simp at hcr
      · simp at hcr; exact ⟨d, by rw [hcr]⟩
    subst ht'
    have : (⟨t' ++ [CR], Ending.lf⟩ : Line).original = t' ++ [CR, LF] := by
      simp [Line.original, Ending.bytes]
    rw [this] at horig
    simp only [splitLines] at horig
    have hnolf : LF ∉ t' ++ [CR] := G.noLF _ hl
    have e : t' ++ [CR, LF] = (t' ++ [CR]) ++ [LF] := by simp
    rw [e, splitRaw_line _ hnolf] at horig
    simp only [List.map_cons, List.map_nil, List.cons.injEq, and_true] at horig
    rw [← e, ofRaw_crlf] at horig
    exact absurd (congrArg Line.ending horig) (by simp)
  · intro hn h0
    have := original_ne_nil_of_split l horig
    apply this
    simp [Line.original, hn, h0, Ending.bytes]

/-- (REPLACE) one line is replaced by a good line with the same ending -/
theorem good_replace (file : Bytes) (Lr X Y : List Line) (l l' : Line) (G : GoodLines file Lr) (hXY : Lr = X ++ l :: Y)
    (he : l'.ending = l.ending) (hg : LineGood l') (hcr : l'.ending = .none → l'.text.getLast? ≠ some CR) :
    GoodLines (joinLines (X ++ l' :: Y)) (X ++ l' :: Y) := by
  obtain ⟨gX, gXl, _, gY, gE⟩ := good_line file Lr X Y l G hXY
  have hs' := lineGood_split l' hg
  refine ⟨?_, ?_, ?_, Or.inr rfl⟩
  · rw [joinLines_append, joinLines_cons]
    have hJ : joinLines X = [] ∨ (joinLines X).getLast? = some LF := by
      rcases gXl with h | h
      · left; rw [h]; rfl
      · right; exact h
    rw [splitLines_append _ _ hJ, gX]
    congr 1
    by_cases hY : Y = []
    · subst hY
      simpa [joinLines_nil] using hs'
    · have hend : l'.ending ≠ .none := by rw [he]; exact gE hY
      rw [splitLines_append _ _ (Or.inr (original_getLast l' hend)), hs', gY]
      rfl
  · intro x hx
    rcases List.mem_append.mp hx with h | h
    · exact G.noLF x (by rw [hXY]; simp [h])
    · rcases List.mem_cons.mp h with rfl | h
      · exact hg.1
      · exact G.noLF x (by rw [hXY]; simp [h])
  · intro x hx hn
    rcases List.mem_append.mp hx with h | h
    · exact G.noCR x (by rw [hXY]; simp [h]) hn
    · rcases List.mem_cons.mp h with rfl | h
      · exact hcr hn
      · exact G.noCR x (by rw [hXY]; simp [h]) hn

theorem fixLast_mem (st : Style) (A : List Line) (x : Line) (hx : x ∈ fixLast st A) :
    ∃ y ∈ A, x.text = y.text ∧ (x = y ∨ x.ending ≠ .none ∨ st.lineEnding.1 = .none) := by
  rcases eq_nil_or_snoc A with rfl | ⟨D, l, rfl⟩
  · rw [fixLast_nil] at hx; cases hx
  · rw [fixLast_snoc] at hx
    rcases List.mem_append.mp hx with h | h
    · exact ⟨x, by simp [h], rfl, Or.inl rfl⟩
    · simp only [List.mem_singleton] at h
      subst h
      refine ⟨l, by simp, setEndingIfNone_text st l, ?_⟩
      rw [setEndingIfNone_eq]
      by_cases hn : l.ending = .none
      · simp only [hn, if_true]
        by_cases hs : st.lineEnding.1 = .none
        · right; right; exact hs
        · right; left; exact hs
      · left
        simp [hn]

/-- (INSERT) clean lines are spliced in -/
theorem good_insert (file : Bytes) (Lr : List Line) (G : GoodLines file Lr) (st : Style) (hst : st.lineEnding.1 ≠ .none)
    (idx : Nat) (new : List Line) (hnew : ∀ l ∈ new, Clean l) :
    GoodLines (joinLines (ins st Lr idx new)) (ins st Lr idx new) := by
  refine ⟨insert_split file Lr G st hst idx new hnew, ?_, ?_, Or.inr rfl⟩
  · intro x hx
    unfold ins at hx
    rcases List.mem_append.mp hx with h | h
    · rcases List.mem_append.mp h with h | h
      · obtain ⟨y, hy, e, _⟩ := fixLast_mem st _ x h
        rw [e]; exact G.noLF y (List.mem_of_mem_take hy)
      · exact (hnew x h).1
    · exact G.noLF x (List.mem_of_mem_drop h)
  · intro x hx hn
    unfold ins at hx
    rcases List.mem_append.mp hx with h | h
    · rcases List.mem_append.mp h with h | h
      · obtain ⟨y, hy, e, hc⟩ := fixLast_mem st _ x h
        rcases hc with rfl | hc | hc
        · exact G.noCR x (List.mem_of_mem_take hy) hn
        · exact absurd hn hc
        · exact absurd hc hst
      · exact absurd hn (hnew x h).2.1
    · exact G.noCR x (List.mem_of_mem_drop h) hn

theorem good_noCR_end (file : Bytes) (Lr : List Line) (G : GoodLines file Lr) : (joinLines Lr).getLast? ≠ some 13 := by
  rcases eq_nil_or_snoc Lr with rfl | ⟨D, l, rfl⟩
  · simp [joinLines_nil]
  · obtain ⟨_, _, horig, _, _⟩ := good_line file _ D [] l G rfl
    have hne := original_ne_nil_of_split l horig
    rw [joinLines_append, joinLines_cons, joinLines_nil, List.append_nil, getLast?_append_of_ne_nil _ _ hne]
    by_cases hn : l.ending = .none
    · have : l.original = l.text := by simp [Line.original, hn, Ending.bytes]
      rw [this]
      exact G.noCR l (by simp) hn
    · rw [original_getLast l hn]
      simp [LF]

theorem modifyLine_split (X Y : List Line) (l : Line) (f : Bytes → Bytes) :
    modifyLine (X ++ l :: Y) X.length f = X ++ { l with text := f l.text } :: Y := by
  apply List.ext_getElem?
  intro j
  obtain ⟨m1, m2, m3⟩ := modifyLine_spec (X ++ l :: Y) X.length f
  by_cases hj : j = X.length
  · subst hj
    rw [m3 l (by simp)]
    simp
  · rw [m2 j hj]
    by_cases hlt : j < X.length
    · rw [List.getElem?_append_left hlt, List.getElem?_append_left hlt]
    · have : X.length < j := by omega
      rw [List.getElem?_append_right (by omega), List.getElem?_append_right (by omega)]
      obtain ⟨k, hk⟩ : ∃ k, j - X.length = k + 1 := ⟨j - X.length - 1, by omega⟩
      rw [hk]
      rfl

/-! ## the context of one block -/

/-- everything about block `i` of a file that is read without error -/
theorem block_setup (file : Bytes) (hcr : file.getLast? ≠ some 13) (rs : List Record) (bos : List BlockOut)
    (hp : parseDoc file = .records rs bos) (i : Nat) (r : Record) (bo : BlockOut)
    (hr : rs[i]? = some r) (hbo : bos[i]? = some bo) :
    ∃ (B1 B2 : List (List Line)) (R2 pre sig post : List Line),
      blocksOf file = B1 ++ bo.lines :: B2 ∧ B1.length = i ∧
      (bos.map (·.lines)).flatten = B1.flatten ++ (pre ++ sig ++ post ++ R2) ∧
      GoodLines file (B1.flatten ++ (pre ++ sig ++ post ++ R2)) ∧
      indexOfLastSignificantLine bo.first bo.lines = (B1.flatten ++ pre ++ sig).length ∧
      sig ≠ [] ∧ AllSig sig ∧
      parseRecord pre.length (sig.map (fun l => decodeGo l.text)) = .record r ∧
      GoodStyle (elect (determine r bo.lines) rs (bos.map (·.lines))) ∧
      (∀ (x : List Char), (((sig.map (fun l => decodeGo l.text)).drop 1).dropWhile (fun c => (indentatorOf c).isNone)).head? = some x →
        indentatorOf x = some (asciiChars (elect (determine r bo.lines) rs (bos.map (·.lines))).indentation.1)) ∧
      ∀ sig' : List Line, sig' ≠ [] → AllSig sig' →
        blocksOfLines (B1.flatten ++ (pre ++ sig' ++ post ++ R2)) = B1 ++ (pre ++ sig' ++ post) :: B2 ∧
        parseBlock (pre ++ sig' ++ post) = parseRecord pre.length (sig'.map (fun l => decodeGo l.text)) ∧
        ∀ (rs' : List Record) (bos' : List BlockOut),
          splitLines (joinLines (B1.flatten ++ (pre ++ sig' ++ post ++ R2))) = B1.flatten ++ (pre ++ sig' ++ post ++ R2) →
          parseDoc (joinLines (B1.flatten ++ (pre ++ sig' ++ post ++ R2))) = .records rs' bos' →
          ∃ r', parseRecord pre.length (sig'.map (fun l => decodeGo l.text)) = .record r' ∧
            rs' = rs.take i ++ [r'] ++ rs.drop (i + 1) := by
  obtain ⟨p1, p2, p3, p4⟩ := parseDoc_records file rs bos hp
  rw [p3]
  have hbo' := hbo
  rw [p1] at hbo'
  obtain ⟨q1, q2⟩ := blockOuts_getElem? _ _ _ hbo'
  obtain ⟨hsplit, hlen⟩ := list_split_at _ _ _ q1
  generalize hB1 : (blocksOf file).take i = B1 at hsplit hlen q2
  generalize hB2 : (blocksOf file).drop (i + 1) = B2 at hsplit
  have hrec : parseBlock bo.lines = .record r := by
    have h1 : ((blocksOf file).map parseBlock)[i]? = some (parseBlock bo.lines) := by
      rw [List.getElem?_map, q1]; rfl
    rw [p2, List.getElem?_map, hr] at h1
    exact (Option.some.inj h1).symm
  have hne' : blocksOf file ≠ [] := by rw [hsplit]; simp
  have hbl := blocksOfLines_flatten_blocksOf file hne'
  rw [hsplit] at hbl
  obtain ⟨R2, pre, sig, post, e1, e2, e3, e4, e5, a1, a2, a3, a4, a5, a6, a7⟩ :=
    blocks_splice (B1 ++ bo.lines :: B2).flatten B1 bo.lines B2 hbl
  have hG := goodLines_blocks file hcr
  have hL : (blocksOf file).flatten = B1.flatten ++ (pre ++ sig ++ post ++ R2) := by
    rw [hsplit, e1, e5]; simp
  have hptr : indexOfLastSignificantLine bo.first bo.lines = (B1.flatten ++ pre ++ sig).length := by
    rw [q2]
    unfold indexOfLastSignificantLine
    rw [e5, significant_shape pre sig post a1 a2 a3 a4]
    simp [List.length_flatten, Nat.add_assoc]
  have hpb : parseBlock bo.lines = parseRecord pre.length (sig.map (fun l => decodeGo l.text)) := by
    rw [e5, parseBlock_shape pre sig post a1 a2 a3 a4]
  obtain ⟨hlL, restL, hsig⟩ := List.exists_cons_of_ne_nil a2
  refine ⟨B1, B2, R2, pre, sig, post, hsplit, hlen, hL, by rw [← hL]; exact hG, hptr, a2, a3, by rw [← hpb]; exact hrec,
    goodStyle_at _ _ _ _, ?_, ?_⟩
  · intro x hx
    rw [hsig] at hx
    simp only [List.map_cons, List.drop_succ_cons, List.drop_zero] at hx
    have hx' : (summaryGo (pre.length + 1) (restL.map (fun l => decodeGo l.text))).2.2.2.head? = some x := by
      rw [summaryGo_rest]; exact hx
    obtain ⟨j, j1, j2⟩ := determine_agrees pre.length r pre sig post hlL restL a1 hsig a3 a4
      (by rw [← hpb]; exact hrec) x hx'
    have : (elect (determine r bo.lines) rs (blocksOf file)).indentation = (j, true) := by
      rw [e5]
      rw [(elect_own_style _ rs (blocksOf file)).2.1 (by rw [j1])]
      exact j1
    rw [this]
    exact j2
  · intro sig' hne hsig'
    have hblocks := blocks_after_append B1 B2 R2 pre sig' [] post e3 e4
      (by intro h; rw [e2, h]; rfl) a1 hne hsig' a4 (by intro l hl; cases hl) a5 a6 a7
    simp only [List.append_nil] at hblocks
    have hpb' := parseBlock_shape pre sig' post a1 hne hsig' a4
    refine ⟨hblocks, hpb', ?_⟩
    intro rs' bos' hsp hp'
    obtain ⟨_, q2', _, _⟩ := parseDoc_records _ rs' bos' hp'
    unfold blocksOf at q2'
    rw [hsp, hblocks] at q2'
    rw [hsplit] at p2
    obtain ⟨r_, r', k1, k2, k3, k4⟩ := records_replace B1 bo.lines _ B2 rs rs' p2 q2'
    rw [hlen] at k4
    rw [hpb'] at k3
    exact ⟨r', k3, k4⟩

end KlogV.RefineBLemmas
