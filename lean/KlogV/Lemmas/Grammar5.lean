/- C01 lemmas, part 5: the entries pass and the record parser on lines of the grammar (completeness). -/
import KlogV.Lemmas.Grammar4
namespace KlogV.GrammarLemmas
open KlogV

theorem commit_flags (st : PState) : st.commit.stopped = st.stopped ∧ st.commit.panicked = st.panicked := by
  unfold PState.commit
  split
  · exact ⟨rfl, rfl⟩
  · split <;> exact ⟨rfl, rfl⟩

theorem isPrefixOf_append (a b : List Char) : a.isPrefixOf (a ++ b) = true :=
  List.isPrefixOf_iff_prefix.mpr (List.prefix_append a b)

theorem entryStep_first' {ind : List Char} (hi : Spec.Indent ind) (st : PState) (nr : Nat) {vs : List Char}
    {v : EntryVal} (hv : Spec.EntryValue vs v) (hn : ¬ HasLongDigitRun vs) (tail : List Char) (hx : TailOK tail)
    (h1 : st.stopped = false) (h2 : st.panicked = false) :
    ∃ sp sl, entryStep ind st nr (ind ++ vs ++ tail) =
      { st.commit with pending := some ⟨v, [firstOf tail], nr, sp, sl⟩ } := by
  obtain ⟨c, r, e, hc⟩ := entryValue_head hv hn
  obtain ⟨sp, sl, hpv⟩ := entryValue_parse hv hn tail hx ind.length
  refine ⟨sp, sl, ?_⟩
  have hform : ind ++ vs ++ tail = ind ++ c :: (r ++ tail) := by rw [e]; simp
  have hdbl : (ind ++ ind).isPrefixOf (ind ++ vs ++ tail) = false := by
    rw [hform]; exact dbl_not_prefix hi c _ hc
  have hpre : ind.isPrefixOf (ind ++ vs ++ tail) = true := by
    rw [List.append_assoc]; exact isPrefixOf_append _ _
  have hdrop : (ind ++ vs ++ tail).drop ind.length = vs ++ tail := by
    rw [List.append_assoc, List.drop_left]
  rw [entryStep_eq]
  simp only [h1, h2, Bool.or_self, Bool.false_eq_true, if_false, hdbl]
  split
  · rename_i heq; cases heq
  · unfold entryStepB
    simp only [hpre, Bool.not_true, Bool.false_eq_true, if_false, hdrop]
    simp only [hpv]
    rw [if_neg (by rw [e]; simp [hc])]
    rfl

theorem entryStep_cont' (ind : List Char) (st : PState) (nr : Nat) (p : Pending) (text : List Char)
    (hp : st.pending = some p) (ht : okEntrySummaryCont text = true)
    (h1 : st.stopped = false) (h2 : st.panicked = false) :
    entryStep ind st nr (ind ++ ind ++ text) =
      { st with pending := some { p with summary := p.summary ++ [text] } } := by
  have hdbl : (ind ++ ind).isPrefixOf (ind ++ ind ++ text) = true := isPrefixOf_append _ _
  unfold entryStep
  simp only [h1, h2, Bool.or_self, Bool.false_eq_true, if_false, hdbl, hp, List.drop_left, ht, if_true]

theorem contLine_ok {ind l text : List Char} (h : Spec.ContLine ind l text) : okEntrySummaryCont text = true := by
  obtain ⟨_, hne, c, hc, hz⟩ := h
  unfold okEntrySummaryCont
  have h1 : text.isEmpty = false := by
    cases text with
    | nil => exact absurd rfl hne
    | cons _ _ => rfl
  have h2 : text.all isZsTab = false := by
    cases hh : text.all isZsTab with
    | false => rfl
    | true => rw [List.all_eq_true.mp hh c hc] at hz; cases hz
  rw [h1, h2]; rfl

theorem entriesGo_cont' {ind : List Char} {conts texts : List (List Char)}
    (hc : Spec.Forall2 (fun l t => Spec.ContLine ind l t) conts texts) : ∀ (st : PState) (nr : Nat) (p : Pending)
    (rest : List (List Char)), st.pending = some p → st.stopped = false → st.panicked = false →
    entriesGo ind st nr (conts ++ rest) =
      entriesGo ind { st with pending := some { p with summary := p.summary ++ texts } }
        (nr + conts.length) rest := by
  induction hc with
  | nil =>
    intro st nr p rest hp _ _
    simp only [List.nil_append, List.append_nil, List.length_nil, Nat.add_zero]
    congr 1
    cases st
    simp only at hp
    subst hp
    rfl
  | @cons l t ls ts h _ ih =>
    intro st nr p rest hp h1 h2
    obtain ⟨rfl, _⟩ := id h
    simp only [List.cons_append, entriesGo]
    rw [entryStep_cont' ind st nr p t hp (contLine_ok h) h1 h2]
    rw [ih { st with pending := some { p with summary := p.summary ++ [t] } } (nr + 1)
      { p with summary := p.summary ++ [t] } rest rfl h1 h2]
    simp only [List.append_assoc, List.cons_append, List.nil_append, List.length_cons]
    congr 1
    omega

theorem sep_tail {sepOpt first : List Char}
    (hsep : (sepOpt = [] ∧ first = []) ∨ (∃ b, sepOpt = [b] ∧ Spec.Blank b)) :
    TailOK (sepOpt ++ first) ∧ firstOf (sepOpt ++ first) = first := by
  rcases hsep with ⟨rfl, rfl⟩ | ⟨b, rfl, hb⟩
  · exact ⟨Or.inl rfl, rfl⟩
  · have hb' := (blank_iff b).mp hb
    refine ⟨Or.inr ⟨b, first, rfl, hb'⟩, ?_⟩
    simp [firstOf, hb']

/-- the lines of one entry of the grammar turn into a pending entry -/
theorem entriesGo_entry' {ind : List Char} {ls : List (List Char)} {e : Entry} (hi : Spec.Indent ind)
    (he : Spec.EntryLines ind ls e) (hn : ∀ l ∈ ls, ¬ HasLongDigitRun l) (st : PState) (nr : Nat)
    (rest : List (List Char)) (h1 : st.stopped = false) (h2 : st.panicked = false) :
    ∃ nr' sp sl, entriesGo ind st nr (ls ++ rest) =
      entriesGo ind { st.commit with pending := some ⟨e.val, e.summary, nr, sp, sl⟩ } nr' rest := by
  cases he with
  | mk vs v first sepOpt conts texts hv hsep hc =>
    obtain ⟨hx, hf⟩ := sep_tail hsep
    have hnv : ¬ HasLongDigitRun vs := by
      apply noLong_of_infix _ (hn _ List.mem_cons_self)
      exact ⟨ind, sepOpt ++ first, by simp⟩
    have hform : ind ++ vs ++ sepOpt ++ first = ind ++ vs ++ (sepOpt ++ first) := by simp
    obtain ⟨sp, sl, hstep⟩ := entryStep_first' hi st nr hv hnv _ hx h1 h2
    rw [hf] at hstep
    obtain ⟨hc1, hc2⟩ := commit_flags st
    refine ⟨nr + 1 + conts.length, sp, sl, ?_⟩
    simp only [List.cons_append, entriesGo]
    rw [hform, hstep]
    rw [entriesGo_cont' hc { st.commit with pending := some ⟨v, [first], nr, sp, sl⟩ } (nr + 1)
      ⟨v, [first], nr, sp, sl⟩ rest rfl (by rw [← h1]; exact hc1) (by rw [← h2]; exact hc2)]
    rfl

theorem entriesGo_entries' {ind : List Char} {els : List (List Char)} {es : List Entry} (hi : Spec.Indent ind)
    (h : Spec.EntriesLines ind els es) : ∀ (done : List Entry) (st : PState) (nr : Nat),
    (∀ l ∈ els, ¬ HasLongDigitRun l) →
    st.stopped = false → st.panicked = false → st.commit = doneState done →
    ((done ++ es).filter (fun e => isOpen e.val)).length ≤ 1 →
    entriesGo ind st nr els = doneState (done ++ es) := by
  induction h with
  | nil =>
    intro done st nr _ _ _ hc _
    simp only [entriesGo, List.append_nil]
    exact hc
  | cons ls rest e es he _ ih =>
    intro done st nr hn h1 h2 hc hopen
    obtain ⟨nr', sp, sl, hgo⟩ := entriesGo_entry' hi he (fun l hl => hn l (by simp [hl])) st nr rest h1 h2
    rw [hgo, hc]
    have := ih (done ++ [e]) { doneState done with pending := some ⟨e.val, e.summary, nr, sp, sl⟩ } nr'
      (fun l hl => hn l (by simp [hl])) rfl rfl ?_ (by simpa using hopen)
    · simpa using this
    · unfold PState.commit
      simp only [doneState]
      have hno : (isOpen e.val && done.any (fun e => isOpen e.val)) = false := by
        cases ho : isOpen e.val with
        | false => rfl
        | true => simp [filter_open_any done e es hopen ho]
      simp only [hno, Bool.false_eq_true, if_false, List.any_append, List.any_cons, List.any_nil,
        Bool.or_false]

theorem entriesLines_start {ind : List Char} {els : List (List Char)} {es : List Entry} (hi : Spec.Indent ind)
    (h : Spec.EntriesLines ind els es) (hn : ∀ l ∈ els, ¬ HasLongDigitRun l) :
    (els = [] ∧ es = []) ∨ ∃ l ls, els = l :: ls ∧ indentatorOf l = some ind := by
  cases h with
  | nil => exact Or.inl ⟨rfl, rfl⟩
  | cons ls rest e es he hr =>
    right
    cases he with
    | mk vs v first sepOpt conts texts hv hsep hc =>
      refine ⟨_, conts ++ rest, rfl, ?_⟩
      have hnv : ¬ HasLongDigitRun vs := by
        apply noLong_of_infix _ (hn (ind ++ vs ++ sepOpt ++ first) (by simp))
        exact ⟨ind, sepOpt ++ first, by simp⟩
      obtain ⟨c, r, e, hc⟩ := entryValue_head hv hnv
      have hform : ind ++ vs ++ sepOpt ++ first = ind ++ c :: (r ++ sepOpt ++ first) := by rw [e]; simp
      rw [hform]
      exact indentatorOf_indent' hi c _ hc

end KlogV.GrammarLemmas

namespace KlogV
open GrammarLemmas

/-- Completeness of the record parser w.r.t. the grammar. -/
theorem parseRecord_complete (offset : Nat) (ls : List (List Char)) (r : Record) (h : Spec.RecordLines ls r)
    (hn : ∀ l ∈ ls, ¬ HasLongDigitRun l) : parseRecord offset ls = .record r := by
  cases h with
  | mk hl sums els ind d should es hh hs hi he hopen =>
    have hhead := headline_parse hh (hn hl (by simp)) offset
    have hnE : ∀ l ∈ els, ¬ HasLongDigitRun l := fun l hl' => hn l (by simp [hl'])
    have hstart := entriesLines_start hi he hnE
    have hE : EntriesStart els := by
      rcases hstart with ⟨h0, _⟩ | ⟨l, ls', h1, h2⟩
      · exact Or.inl h0
      · exact Or.inr ⟨l, ls', ind, h1, h2⟩
    have hsg := summaryGo_complete sums els (fun l hl' => summaryLine_ok (hs l hl')) hE (offset + 1)
    have hgo : ∀ nr, entriesGo ((els.head?.bind indentatorOf).getD []) {} nr els = doneState es := by
      intro nr
      rcases hstart with ⟨rfl, rfl⟩ | ⟨l, ls', h1, h2⟩
      · rfl
      · have hst : (els.head?.bind indentatorOf).getD [] = ind := by
          rw [h1]; simp [h2]
        rw [hst]
        have := entriesGo_entries' hi he [] {} nr hnE rfl rfl rfl (by simpa using hopen)
        simpa using this
    rw [List.cons_append]
    unfold parseRecord
    simp only [hhead, hsg, hgo]
    simp [doneState]

end KlogV
