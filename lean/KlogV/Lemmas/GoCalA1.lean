/- Spec lemmas for the translated klog/date.go (KlogV/Gen/GoCal.lean), used by GoCalA.lean. Core Lean only. -/
import KlogV.GoSem.AbsCal
import KlogV.Lemmas.Values
import KlogV.Lemmas.Calendar1
set_option linter.unusedSimpArgs false
namespace KlogV.GoL
open KlogV.Go

theorem fmtD0_pad2_cal (n : Nat) (h : n < 100) : fmtD0 2 (n : Int) = pad2 n := by
  have h0 : ¬ ((n : Int) < 0) := by omega
  by_cases h1 : n < 10
  · have : n / 10 = 0 := by omega
    have d0 : digitChar 0 = '0' := by decide
    simp [fmtD0, h0, natDigits_lt n h1, pad2, this, d0]
  · simp [fmtD0, h0, natDigits_lt100 n h1 h, pad2]


theorem isLeapInt_cast (y : Nat) : isLeapInt (y : Int) = isLeap y := by
  unfold isLeapInt isLeap
  rw [Bool.eq_iff_iff]
  simp only [Bool.and_eq_true, Bool.or_eq_true, beq_iff_eq, bne_iff_ne, ne_eq]
  omega

theorem daysInInt_cast (y m : Nat) : daysInInt (y : Int) (m : Int) = (daysIn y m : Nat) := by
  unfold daysInInt daysIn
  rw [isLeapInt_cast]
  have e2 : ((m : Int) == 2) = (m == 2) := by rw [Bool.eq_iff_iff]; simp only [beq_iff_eq]; omega
  have e4 : ((m : Int) == 4) = (m == 4) := by rw [Bool.eq_iff_iff]; simp only [beq_iff_eq]; omega
  have e6 : ((m : Int) == 6) = (m == 6) := by rw [Bool.eq_iff_iff]; simp only [beq_iff_eq]; omega
  have e9 : ((m : Int) == 9) = (m == 9) := by rw [Bool.eq_iff_iff]; simp only [beq_iff_eq]; omega
  have e11 : ((m : Int) == 11) = (m == 11) := by rw [Bool.eq_iff_iff]; simp only [beq_iff_eq]; omega
  rw [e2, e4, e6, e9, e11]
  split
  · split <;> rfl
  · split <;> rfl

theorem daysInInt_bounds (y m : Int) : 28 ≤ daysInInt y m ∧ daysInInt y m ≤ 31 := by
  unfold daysInInt
  split
  · split <;> omega
  · split <;> omega

/-- what `civil2Date` computes -/
theorem civil2Date_spec (cd : CivilDate) (f : GoCal.DateFormat) :
    GoCal.civil2Date cd f =
      if (1 ≤ cd.Month ∧ cd.Month ≤ 12 ∧ 1 ≤ cd.Day ∧ cd.Day ≤ daysInInt cd.Year cd.Month) ∧ 0 ≤ cd.Year ∧ cd.Year ≤ 9999
      then .ok ⟨cd.Year, cd.Month, cd.Day, f⟩ else .error (.err "UNREPRESENTABLE_DATE") := by
  by_cases hv : 1 ≤ cd.Month ∧ cd.Month ≤ 12 ∧ 1 ≤ cd.Day ∧ cd.Day ≤ daysInInt cd.Year cd.Month
  · by_cases hy : 0 ≤ cd.Year ∧ cd.Year ≤ 9999
    · rw [if_pos ⟨hv, hy⟩]
      have c : (lt cd.Year 0 || gt cd.Year 9999) = false := by
        simp only [lt, gt, Bool.or_eq_false_iff, decide_eq_false_iff_not]; omega
      simp [GoCal.civil2Date, CivilDate.IsValid, hv, c, toInt, GToInt.toInt, bind, Except.bind, pure, Except.pure]
    · rw [if_neg (fun h => hy h.2)]
      have c : (lt cd.Year 0 || gt cd.Year 9999) = true := by
        simp only [lt, gt, Bool.or_eq_true, decide_eq_true_eq]; omega
      simp [GoCal.civil2Date, CivilDate.IsValid, hv, c, bind, Except.bind, pure, Except.pure, throw, throwThe, MonadExceptOf.throw]
  · rw [if_neg (fun h => hv h.1)]
    have : decide (1 ≤ cd.Month ∧ cd.Month ≤ 12 ∧ 1 ≤ cd.Day ∧ cd.Day ≤ daysInInt cd.Year cd.Month) = false := by simpa using hv
    simp only [GoCal.civil2Date, CivilDate.IsValid, this, bind, Except.bind, pure, Except.pure, throw, throwThe, MonadExceptOf.throw]
    simp

theorem newDate_spec (y m d : Int) :
    GoCal.NewDate y m d =
      if (1 ≤ m ∧ m ≤ 12 ∧ 1 ≤ d ∧ d ≤ daysInInt y m) ∧ 0 ≤ y ∧ y ≤ 9999
      then .ok ⟨y, m, d, ⟨true⟩⟩ else .error (.err "UNREPRESENTABLE_DATE") := by
  simp only [GoCal.NewDate, GoCal.DefaultDateFormat, bind, Except.bind, pure, Except.pure, civil2Date_spec]


theorem natDigits_lt1000 (n : Nat) (h1 : ¬ n < 100) (h : n < 1000) :
    natDigits n = [digitChar (n / 100), digitChar (n / 10), digitChar n] := by
  rw [natDigits_ge n (by omega), natDigits_lt100 (n / 10) (by omega) (by omega)]
  have : n / 10 / 10 = n / 100 := by omega
  rw [this]; rfl

theorem natDigits_lt10000 (n : Nat) (h1 : ¬ n < 1000) (h : n < 10000) :
    natDigits n = [digitChar (n / 1000), digitChar (n / 100), digitChar (n / 10), digitChar n] := by
  rw [natDigits_ge n (by omega), natDigits_lt1000 (n / 10) (by omega) (by omega)]
  have e1 : n / 10 / 100 = n / 1000 := by omega
  have e2 : n / 10 / 10 = n / 100 := by omega
  rw [e1, e2]; rfl

theorem fmtD0_pad4 (n : Nat) (h : n < 10000) : fmtD0 4 (n : Int) = pad4 n := by
  have h0 : ¬ ((n : Int) < 0) := by omega
  have d0 : digitChar 0 = '0' := by decide
  by_cases h1 : n < 10
  · have e1 : n / 10 = 0 := by omega
    have e2 : n / 100 = 0 := by omega
    have e3 : n / 1000 = 0 := by omega
    simp [fmtD0, h0, natDigits_lt n h1, pad4, e1, e2, e3, d0, List.replicate]
  · by_cases h2 : n < 100
    · have e2 : n / 100 = 0 := by omega
      have e3 : n / 1000 = 0 := by omega
      simp [fmtD0, h0, natDigits_lt100 n h1 h2, pad4, e2, e3, d0, List.replicate]
    · by_cases h3 : n < 1000
      · have e3 : n / 1000 = 0 := by omega
        simp [fmtD0, h0, natDigits_lt1000 n h2 h3, pad4, e3, d0, List.replicate]
      · simp [fmtD0, h0, natDigits_lt10000 n h3 h, pad4]

/-! ### the `dashes` field rides along in the model's calendar -/

def setDashes (b : Bool) (x : Date) : Date := { x with dashes := b }

theorem setDashes_self (x : Date) : setDashes x.dashes x = x := rfl

theorem nextDay_setDashes (b : Bool) (x : Date) : nextDay (setDashes b x) = setDashes b (nextDay x) := by
  unfold nextDay setDashes
  simp only
  split
  · rfl
  · split <;> rfl

theorem prevDay_setDashes (b : Bool) (x : Date) : prevDay (setDashes b x) = setDashes b (prevDay x) := by
  unfold prevDay setDashes
  simp only
  split
  · rfl
  · split <;> rfl

theorem plusDaysFwd_setDashes (b : Bool) (n : Nat) (x : Date) :
    plusDaysFwd n (setDashes b x) = (plusDaysFwd n x).map (setDashes b) := by
  induction n generalizing x with
  | zero => rfl
  | succ n ih =>
    unfold plusDaysFwd
    have : isLastDay (setDashes b x) = isLastDay x := rfl
    rw [this, nextDay_setDashes, ih]
    split <;> rfl

theorem plusDaysBwd_setDashes (b : Bool) (n : Nat) (x : Date) :
    plusDaysBwd n (setDashes b x) = (plusDaysBwd n x).map (setDashes b) := by
  induction n generalizing x with
  | zero => rfl
  | succ n ih =>
    unfold plusDaysBwd
    have : isFirstDay (setDashes b x) = isFirstDay x := rfl
    rw [this, prevDay_setDashes, ih]
    split <;> rfl

theorem plusDays_setDashes (b : Bool) (x : Date) (n : Int) :
    (setDashes b x).plusDays n = (x.plusDays n).map (setDashes b) := by
  unfold Date.plusDays
  split
  · exact plusDaysFwd_setDashes b _ x
  · exact plusDaysBwd_setDashes b _ x

theorem plusDays_dashes (x y : Date) (n : Int) (h : x.plusDays n = some y) : y.dashes = x.dashes := by
  have := plusDays_setDashes x.dashes x n
  rw [setDashes_self, h] at this
  simp only [Option.map, Option.some.injEq] at this
  rw [this]; rfl

theorem dayNumber_setDashes (b : Bool) (x : Date) : dayNumber (setDashes b x) = dayNumber x := rfl
theorem weekday_setDashes (b : Bool) (x : Date) : (setDashes b x).weekday = x.weekday := rfl
theorem isoWeek_setDashes (b : Bool) (x : Date) : (setDashes b x).isoWeek = x.isoWeek := rfl

/-- the civil date of a model date, read back -/
theorem toModel_ofDate (x : Date) : (⟨x.y, x.m, x.d⟩ : CivilDate).toModel = setDashes true x := by
  simp [CivilDate.toModel, setDashes]

end KlogV.GoL
