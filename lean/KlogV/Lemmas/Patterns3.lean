/- C15 pattern lemmas, part 3: whatever is accepted is a period of a valid date. -/
import KlogV.Lemmas.Patterns2
namespace KlogV.PatternLemmas
open KlogV

theorem yearAlt_sound (s : List Char) (p : Period) (h : yearAlt s = some p) :
    ∃ x : Date, x.valid = true ∧ p = yearPeriod x := by
  unfold yearAlt at h
  split at h
  · split at h
    · cases hm : mkDate (digitsVal _) 1 1 with
      | none => rw [hm] at h; cases h
      | some x =>
        rw [hm] at h; simp only [Option.map_some, Option.some.injEq] at h
        exact ⟨x, (mkDate_valid _ _ _ _ hm).1, h.symm⟩
    · cases h
  · cases h

theorem monthAlt_sound (s : List Char) (p : Period) (h : monthAlt s = some p) :
    ∃ x : Date, x.valid = true ∧ p = monthPeriod x := by
  unfold monthAlt at h
  split at h
  · split at h
    · cases hm : mkDate (digitsVal _) (digitsVal _) 1 with
      | none => rw [hm] at h; cases h
      | some x =>
        rw [hm] at h; simp only [Option.map_some, Option.some.injEq] at h
        exact ⟨x, (mkDate_valid _ _ _ _ hm).1, h.symm⟩
    · cases h
  · cases h

theorem quarterAlt_sound (s : List Char) (p : Period) (h : quarterAlt s = some p) :
    ∃ x : Date, x.valid = true ∧ p = quarterPeriod x := by
  unfold quarterAlt at h
  split at h
  · split at h
    · cases hm : mkDate (digitsVal _) (digitVal _ * 3) 1 with
      | none => rw [hm] at h; cases h
      | some x =>
        rw [hm] at h; simp only [Option.map_some, Option.some.injEq] at h
        exact ⟨x, (mkDate_valid _ _ _ _ hm).1, h.symm⟩
    · cases h
  · cases h

theorem weekBody_valid (y w : Nat) (d : Date) (h : weekBody y w = .ok d) : d.valid = true := by
  unfold weekBody at h
  split at h
  · cases h
  · cases hm : mkDate y 7 1 with
    | none => rw [hm] at h; cases h
    | some ref0 =>
      rw [hm] at h; simp only at h
      have hv0 := (mkDate_valid _ _ _ _ hm).1
      have hwd := weekday_bounds ref0
      have ts := toMonday_spec 7 ref0 hv0 (by omega)
      cases ht : toMonday 7 ref0 with
      | none => rw [ht] at h; cases h
      | some ref1 =>
        rw [ht] at h; simp only at h
        have hv1 : ref1.valid = true := by
          by_cases c : 0 ≤ dayNumber ref0 - ((ref0.weekday : Int) - 1)
          · obtain ⟨s, hs, hsv, _⟩ := ts.2 c
            rw [ht] at hs; cases hs; exact hsv
          · have := ts.1 (by omega); rw [ht] at this; cases this
        cases h2 : ref1.plusDays (((w : Int) - ref1.isoWeek.2) * 7) with
        | none => rw [h2] at h; cases h
        | some ref2 =>
          rw [h2] at h; simp only at h
          split at h
          · cases h
          · cases h
            exact (plusDays_some ref1 _ _ hv1 h2).1

theorem weekFromString_valid (s : List Char) (d : Date) (h : weekFromString s = .ok d) : d.valid = true := by
  have h' := h
  unfold weekFromString at h'
  split at h'
  · rw [week_W] at h
    split at h
    · cases h
    · exact weekBody_valid _ _ _ h
  · cases h'

theorem weekAlt_sound (s : List Char) (p : Period) (h : weekAlt s = .ok p) :
    ∃ x : Date, x.valid = true ∧ weekPeriod x = some p := by
  unfold weekAlt at h
  cases hw : weekFromString s with
  | err => rw [hw] at h; cases h
  | panic => rw [hw] at h; cases h
  | ok d =>
    rw [hw] at h; simp only at h
    cases hp : weekPeriod d with
    | none => rw [hp] at h; cases h
    | some q =>
      rw [hp] at h; simp only at h
      cases h
      exact ⟨d, weekFromString_valid s d hw, hp⟩

theorem pattern_sound' (s : List Char) (p : Period) (h : periodFromPattern s = .ok p) :
    ∃ x : Date, x.valid = true ∧ (p = yearPeriod x ∨ p = monthPeriod x ∨ p = quarterPeriod x ∨ weekPeriod x = some p) := by
  rw [pfp_eq] at h
  cases h1 : yearAlt s with
  | some q =>
    rw [h1] at h; simp only at h; cases h
    obtain ⟨x, hx, e⟩ := yearAlt_sound s p h1
    exact ⟨x, hx, Or.inl e⟩
  | none =>
    rw [h1] at h; simp only at h
    cases h2 : monthAlt s with
    | some q =>
      rw [h2] at h; simp only at h; cases h
      obtain ⟨x, hx, e⟩ := monthAlt_sound s p h2
      exact ⟨x, hx, Or.inr (Or.inl e)⟩
    | none =>
      rw [h2] at h; simp only at h
      cases h3 : quarterAlt s with
      | some q =>
        rw [h3] at h; simp only at h; cases h
        obtain ⟨x, hx, e⟩ := quarterAlt_sound s p h3
        exact ⟨x, hx, Or.inr (Or.inr (Or.inl e))⟩
      | none =>
        rw [h3] at h; simp only at h
        obtain ⟨x, hx, e⟩ := weekAlt_sound s p h
        exact ⟨x, hx, Or.inr (Or.inr (Or.inr e))⟩

end KlogV.PatternLemmas
