/- Helper lemmas for KlogV/Props/GoSrc.lean (the translated Go source computes the model's functions), part C. Core Lean only. -/
import KlogV.GoSem.Abs
import KlogV.Lemmas.GoSrcC1
import KlogV.Lemmas.GoSrcC3
namespace KlogV.GoL
open KlogV.Go KlogV.GoL.C

theorem newTimeFromString_eq (find : Str → List Str) (hf : TimeFind find) (s : List Char) :
    (GoSrc.NewTimeFromString find s).res = (optRes (Time.parse s)).map Time.toGo := by
  by_cases hm : ∃ (lt : Bool) (hd : List Char) (m1 m2 : Char) (ap : Option Bool) (gt : Bool),
        s = (if lt then ['<'] else []) ++ hd ++ [':'] ++ [m1, m2] ++ Time.apChars ap ++ (if gt then ['>'] else []) ∧
        (hd.length = 1 ∨ hd.length = 2) ∧ hd.all isDigit = true ∧ isDigit m1 = true ∧ isDigit m2 = true
  · obtain ⟨lt, hd, m1, m2, ap, gt, rfl, hlen, hdig, hm1, hm2⟩ := hm
    rw [RxM.time_parse_shape lt hd m1 m2 ap gt hlen hdig hm1 hm2]
    exact ntfs_core find _ _ lt hd m1 m2 ap gt hlen hdig hm1 hm2 (hf.1 lt hd m1 m2 ap gt hlen hdig hm1 hm2)
  · have hno : ∀ env, ¬ Rx.Matches env Rx.Expect.time (codes s) := fun env h => hm ((RxM.time_shape s).1 h)
    rw [RxM.time_parse_no_match (hno (fun _ _ => false))]
    simp only [GoSrc.NewTimeFromString, hf.2 s hno]
    rfl

theorem newDurationFromString_eq (find : Str → List Str) (hf : DurFind find) (s : List Char) :
    (GoSrc.NewDurationFromString find s).res = (Dur.parse s).map Dur.toGo := by
  by_cases hm : ∃ sg hd md : List Char,
        s = sg ++ (if hd.isEmpty then [] else hd ++ ['h']) ++ (if md.isEmpty then [] else md ++ ['m']) ∧
        (sg = [] ∨ sg = ['-'] ∨ sg = ['+']) ∧ hd.all isDigit = true ∧ md.all isDigit = true
  · obtain ⟨sg, hd, md, rfl, hsg, hh, hmd⟩ := hm
    rw [RxM.duration_parse_shape sg hd md hsg hh hmd]
    exact ndfs_core find _ _ _ _ sg hd md hsg hh hmd (hf.1 sg hd md hsg hh hmd)
  · have hno : ∀ env, ¬ Rx.Matches env Rx.Expect.duration (codes s) := fun env h => hm ((RxM.duration_shape s).1 h)
    rw [RxM.duration_parse_no_match (hno (fun _ _ => false))]
    simp only [GoSrc.NewDurationFromString, hf.2 s hno]
    rfl

end KlogV.GoL
