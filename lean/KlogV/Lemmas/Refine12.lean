/-
Helper lemmas for C04, part 12: splicing lines behind the significant lines of one block of a
file: the lines and blocks of the new text.
-/
import KlogV.Lemmas.Refine10
import KlogV.Lemmas.Refine11
namespace KlogV.RefineLemmas
open KlogV.EditLemmas

theorem blocksOfLines_flatten_blocksOf (file : Bytes) (h : blocksOf file ≠ []) :
    blocksOfLines (blocksOf file).flatten = blocksOf file := by
  have : (blocksOf file).flatten = splitLines file := blocksOfLines_flatten _ h
  rw [this]; rfl

/-- (AT) the edit position "behind the last significant line of block `b`", and the new list of
lines, read back as itself -/
theorem ins_at_block (file : Bytes) (hcr : file.getLast? ≠ some 13) (B1 : List (List Line)) (b : List Line)
    (B2 : List (List Line)) (hbs : blocksOf file = B1 ++ b :: B2) (st : Style) (hst : GoodStyle st)
    (NEW : List Line) (hclean : ∀ l ∈ NEW, Clean l) (hne : NEW ≠ []) :
    ∃ R2 pre sig post, (blocksOf file).flatten = B1.flatten ++ b ++ R2 ∧ R2 = B2.flatten ∧ (B2 ≠ [] → StartsSig R2) ∧
      blocksOfLines R2 = B2 ∧
      b = pre ++ sig ++ post ∧ AllBlank pre ∧ sig ≠ [] ∧ AllSig sig ∧ AllBlank post ∧
      (B1 ≠ [] → pre = []) ∧ (B2 ≠ [] → post ≠ []) ∧
      (∀ mid, (B1 ≠ [] → StartsSig mid) → blocksOfLines (B1.flatten ++ mid) = B1 ++ blocksOfLines mid) ∧
      ins st (blocksOf file).flatten (indexOfLastSignificantLine ((B1.map List.length).sum) b) NEW =
        B1.flatten ++ (pre ++ fixLast st sig ++ NEW ++ post ++ R2) ∧
      splitLines (joinLines (B1.flatten ++ (pre ++ fixLast st sig ++ NEW ++ post ++ R2))) =
        B1.flatten ++ (pre ++ fixLast st sig ++ NEW ++ post ++ R2) ∧
      (joinLines (B1.flatten ++ (pre ++ fixLast st sig ++ NEW ++ post ++ R2))).getLast? ≠ some 13 := by
  have hne' : blocksOf file ≠ [] := by rw [hbs]; simp
  have hbl := blocksOfLines_flatten_blocksOf file hne'
  rw [hbs] at hbl
  obtain ⟨R2, pre, sig, post, e1, e2, e3, e4, e5, a1, a2, a3, a4, a5, a6, a7⟩ :=
    blocks_splice (B1 ++ b :: B2).flatten B1 b B2 hbl
  have hG := goodLines_blocks file hcr
  rw [hbs] at hG ⊢
  have hptr : indexOfLastSignificantLine ((B1.map List.length).sum) b = (B1.flatten ++ pre ++ sig).length := by
    unfold indexOfLastSignificantLine
    rw [e5, significant_shape pre sig post a1 a2 a3 a4]
    simp [List.length_flatten, Nat.add_assoc]
  have hL : (B1 ++ b :: B2).flatten = (B1.flatten ++ pre ++ sig) ++ (post ++ R2) := by
    rw [e1, e5]; simp
  have hins : ins st (B1 ++ b :: B2).flatten (indexOfLastSignificantLine ((B1.map List.length).sum) b) NEW =
      B1.flatten ++ (pre ++ fixLast st sig ++ NEW ++ post ++ R2) := by
    unfold ins
    rw [hptr, hL, List.take_left' rfl, List.drop_left' rfl, fixLast_append st _ sig a2]
    simp
  refine ⟨R2, pre, sig, post, e1, e2, e3, e4, e5, a1, a2, a3, a4, a5, a6, a7, hins, ?_, ?_⟩
  · rw [← hins]
    exact insert_split file _ hG st hst.ending _ NEW hclean
  · rw [← hins]
    exact insert_noCR file hcr _ hG st _ NEW hclean hne

/-- (TRACK-BLOCKS) new significant lines directly behind the significant lines of a block extend
that block -/
theorem blocks_after_append (B1 : List (List Line)) (B2 : List (List Line)) (R2 pre sig' new post : List Line)
    (hR2 : B2 ≠ [] → StartsSig R2) (hB2 : blocksOfLines R2 = B2) (hR2nil : B2 = [] → R2 = [])
    (a1 : AllBlank pre) (a2 : sig' ≠ []) (a3 : AllSig sig') (a4 : AllBlank post) (hnew : AllSig new)
    (a5 : B1 ≠ [] → pre = []) (a6 : B2 ≠ [] → post ≠ [])
    (a7 : ∀ mid, (B1 ≠ [] → StartsSig mid) → blocksOfLines (B1.flatten ++ mid) = B1 ++ blocksOfLines mid) :
    blocksOfLines (B1.flatten ++ (pre ++ sig' ++ new ++ post ++ R2)) = B1 ++ (pre ++ (sig' ++ new) ++ post) :: B2 := by
  have hs2 : sig' ++ new ≠ [] := by simp [a2]
  have hs3 : AllSig (sig' ++ new) := by
    intro l hl
    rcases List.mem_append.mp hl with h | h
    · exact a3 l h
    · exact hnew l h
  have hmid : pre ++ sig' ++ new ++ post ++ R2 = pre ++ (sig' ++ new) ++ post ++ R2 := by simp
  rw [hmid, a7]
  · congr 1
    by_cases hB : B2 = []
    · rw [hR2nil hB, hB, List.append_nil]
      exact (blocks_single pre (sig' ++ new) post a1 hs2 hs3 a4).1
    · rw [blocks_cons pre (sig' ++ new) post R2 a1 hs2 hs3 a4 (a6 hB) (hR2 hB), hB2]
  · intro hB1
    rw [a5 hB1]
    obtain ⟨y, ys, hy⟩ := List.exists_cons_of_ne_nil hs2
    refine ⟨y, ys ++ post ++ R2, by rw [hy]; simp, ?_⟩
    exact hs3 y (by rw [hy]; simp)

theorem parseBlock_shape (pre sig post : List Line) (a1 : AllBlank pre) (a2 : sig ≠ []) (a3 : AllSig sig)
    (a4 : AllBlank post) :
    parseBlock (pre ++ sig ++ post) = parseRecord pre.length (sig.map (fun l => decodeGo l.text)) := by
  unfold parseBlock
  rw [significant_shape pre sig post a1 a2 a3 a4]

end KlogV.RefineLemmas
