/-
Regular expressions vs. model, part 6: summary lines, tag values, and the three unanchored patterns
(shape of the unmarked language only).
-/
import KlogV.Lemmas.RegexModel1
namespace KlogV.RxM
open KlogV.Rx

variable {env : Env}

/-! ### `^[\p{Zs}\t]` and `^[\p{Zs}\t]*$` -/

theorem recordStart_shape (u : UTab) (s : List Char) :
    Matches (rxEnv u) Expect.recordSummaryLineStart (codes s) ↔ ∃ c, s = [c] ∧ isZsTab c = true := by
  simp only [Expect.recordSummaryLineStart, Expect.zsTab, m_cls_codes, mem_zsTab]

theorem recordStart_link (u : UTab) (l : List Char) (hl : l ≠ []) :
    okRecordSummaryLine l = false ↔
      ∃ c rest, l = c :: rest ∧ Matches (rxEnv u) Expect.recordSummaryLineStart [c.toNat] := by
  cases l with
  | nil => exact absurd rfl hl
  | cons c rest =>
    have e : Matches (rxEnv u) Expect.recordSummaryLineStart [c.toNat] ↔ isZsTab c = true := by
      rw [show [c.toNat] = codes [c] from rfl, recordStart_shape]
      constructor
      · rintro ⟨c', e, h⟩
        simp only [List.cons.injEq, and_true] at e
        rw [e]; exact h
      · intro h; exact ⟨c, rfl, h⟩
    simp only [okRecordSummaryLine, Bool.not_eq_false', List.cons.injEq]
    constructor
    · intro h; exact ⟨c, rest, ⟨rfl, rfl⟩, e.2 h⟩
    · rintro ⟨c', rest', ⟨rfl, rfl⟩, h⟩; exact e.1 h

/-- the same with "some prefix of the line matches" (the pattern is anchored at the start only) -/
theorem recordStart_prefix (u : UTab) (l : List Char) :
    okRecordSummaryLine l = true ↔
      l ≠ [] ∧ ¬ ∃ p r, l = p ++ r ∧ Matches (rxEnv u) Expect.recordSummaryLineStart (codes p) := by
  cases l with
  | nil => simp [okRecordSummaryLine]
  | cons c rest =>
    simp only [okRecordSummaryLine, Bool.not_eq_true', ne_eq, reduceCtorEq, not_false_eq_true, true_and, recordStart_shape]
    constructor
    · rintro h ⟨p, r, e, c', rfl, hc⟩
      simp only [List.cons_append, List.nil_append, List.cons.injEq] at e
      rw [← e.1, h] at hc; cases hc
    · intro h
      cases hz : isZsTab c with
      | false => rfl
      | true => exact absurd ⟨[c], rest, rfl, c, rfl, hz⟩ h

theorem blankLine_shape (u : UTab) (s : List Char) :
    Matches (rxEnv u) Expect.blankLine (codes s) ↔ s.all isZsTab = true := by
  simp only [Expect.blankLine, Expect.zsTab, m_star_cls_codes, mem_zsTab, List.all_eq_true]

theorem blankLine_link (u : UTab) (l : List Char) :
    okEntrySummaryCont l = true ↔ l ≠ [] ∧ ¬ Matches (rxEnv u) Expect.blankLine (codes l) := by
  rw [blankLine_shape]
  cases l with
  | nil => simp [okEntrySummaryCont]
  | cons c r =>
    simp only [okEntrySummaryCont, List.isEmpty_cons, Bool.not_false, Bool.true_and, Bool.not_eq_true', ne_eq,
      reduceCtorEq, not_false_eq_true, true_and, Bool.not_eq_true]

/-- the empty line matches the pattern too, so Go's separate `len(l) == 0` test is redundant here -/
theorem blankLine_link' (u : UTab) (l : List Char) :
    okEntrySummaryCont l = true ↔ ¬ Matches (rxEnv u) Expect.blankLine (codes l) := by
  rw [blankLine_link]
  constructor
  · exact fun h => h.2
  · intro h
    refine ⟨?_, h⟩
    rintro rfl
    exact h ((blankLine_shape u []).2 rfl)

/-! ### `^[\p{L}\d_-]+$` -/

theorem unquoted_shape (u : UTab) (s : List Char) :
    Matches (rxEnv u) Expect.unquotedValue (codes s) ↔
      s ≠ [] ∧ ∀ c ∈ s, u.isLetter c = true ∨ isDigit c = true ∨ c = '_' ∨ c = '-' := by
  simp only [Expect.unquotedValue, Expect.tagChar, m_plus_cls_codes, mem_tagChar, UTab.isNameChar, Bool.or_eq_true,
    beq_iff_eq, or_assoc]

theorem unquoted_link (u : UTab) (v : List Char) :
    isUnquotedValue u v = true ↔ Matches (rxEnv u) Expect.unquotedValue (codes v) := by
  simp only [Expect.unquotedValue, Expect.tagChar, m_plus_cls_codes, mem_tagChar, isUnquotedValue, Bool.and_eq_true,
    Bool.not_eq_true', List.all_eq_true, List.isEmpty_eq_false_iff]

/-! ### Unanchored patterns: shape of the unmarked language -/

theorem m_plus_tagChar_codes (u : UTab) (s : List Char) :
    Matches (rxEnv u) (Re.plus Expect.tagChar) (codes s) ↔ s ≠ [] ∧ s.all u.isNameChar = true := by
  simp only [Expect.tagChar, m_plus_cls_codes, mem_tagChar, List.all_eq_true]

theorem m_star_tagChar_codes (u : UTab) (s : List Char) :
    Matches (rxEnv u) (.star Expect.tagChar) (codes s) ↔ s.all u.isNameChar = true := by
  simp only [Expect.tagChar, m_star_cls_codes, mem_tagChar, List.all_eq_true]

theorem m_star_noneOf_codes (cs s : List Char) :
    Matches env (.star (Expect.noneOf cs)) (codes s) ↔ ∀ c ∈ s, c ∉ cs := by
  simp only [Expect.noneOf, m_star_cls_codes, mem_noneOf_char]

theorem m_plus_ch_codes (c : Char) (s : List Char) :
    Matches env (Re.plus (Expect.ch c)) (codes s) ↔ s ≠ [] ∧ ∀ x ∈ s, x = c := by
  have e : ∀ x : Char, Cls.mem env ⟨false, [(c.toNat, c.toNat)], []⟩ x.toNat = true ↔ x = c := by
    intro x
    rw [show [(c.toNat, c.toNat)] = [c].map (fun c => (c.toNat, c.toNat)) from rfl, mem_oneOf_char]
    simp
  simp only [Expect.ch, sym, m_plus_cls_codes, e]

theorem quoted_iff (q : Char) (x : List Char) :
    (∃ s1 s2, x = s1 ++ s2 ∧ s1 = [q] ∧ ∃ s3 s4, s2 = s3 ++ s4 ∧ (∀ c ∈ s3, c ∉ [q]) ∧ ∃ s5 s6, s4 = s5 ++ s6 ∧ s5 = [q] ∧ s6 = []) ↔
      ∃ v, x = q :: v ++ [q] ∧ q ∉ v := by
  constructor
  · rintro ⟨_, _, rfl, rfl, v, _, rfl, hv, _, _, rfl, rfl, rfl⟩
    refine ⟨v, by simp, ?_⟩
    intro h; exact hv q h (by simp)
  · rintro ⟨v, rfl, hv⟩
    refine ⟨[q], _, rfl, rfl, v, [q], rfl, ?_, [q], [], rfl, rfl, rfl⟩
    intro c hc h
    simp only [List.mem_singleton] at h
    subst h; exact hv hc

theorem hashTag_shape (u : UTab) (s : List Char) :
    Matches (rxEnv u) Expect.hashTag (codes s) ↔
      ∃ name val, s = '#' :: name ++ val ∧ name ≠ [] ∧ name.all u.isNameChar = true ∧
        (val = [] ∨ ∃ v, (val = '=' :: '"' :: v ++ ['"'] ∧ '"' ∉ v) ∨ (val = '=' :: '\'' :: v ++ ['\''] ∧ '\'' ∉ v) ∨
          (val = '=' :: v ∧ v.all u.isNameChar = true)) := by
  simp only [Expect.hashTag, Re.catl, Re.altl, m_cat_codes, m_opt_codes, matches_group, matches_alt, m_ch_codes,
    m_plus_tagChar_codes, m_star_tagChar_codes, m_star_noneOf_codes, m_eps_codes, quoted_iff]
  constructor
  · rintro ⟨_, _, rfl, rfl, name, _, rfl, ⟨hne, hn⟩, val, _, rfl, hval, rfl⟩
    refine ⟨name, val, by simp, hne, hn, ?_⟩
    rcases hval with ⟨_, x, rfl, rfl, h⟩ | rfl
    · right
      rcases h with ⟨v, rfl, hv⟩ | ⟨v, rfl, hv⟩ | h | h
      · exact ⟨v, .inl ⟨rfl, hv⟩⟩
      · exact ⟨v, .inr (.inl ⟨rfl, hv⟩)⟩
      · exact ⟨x, .inr (.inr ⟨rfl, h⟩)⟩
      · exact absurd h matches_zero
    · exact .inl rfl
  · rintro ⟨name, val, rfl, hne, hn, hval⟩
    refine ⟨['#'], _, rfl, rfl, name, _, rfl, ⟨hne, hn⟩, val, [], by simp, ?_, rfl⟩
    rcases hval with rfl | ⟨v, ⟨rfl, hv⟩ | ⟨rfl, hv⟩ | ⟨rfl, hv⟩⟩
    · exact .inr rfl
    · exact .inl ⟨['='], _, rfl, rfl, .inl ⟨v, rfl, hv⟩⟩
    · exact .inl ⟨['='], _, rfl, rfl, .inr (.inl ⟨v, rfl, hv⟩)⟩
    · exact .inl ⟨['='], _, rfl, rfl, .inr (.inr (.inl hv))⟩

theorem closePlaceholder_shape (s : List Char) :
    Matches env Expect.closePlaceholder (codes s) ↔
      ∃ a q b, s = a ++ q ++ b ∧ '\n' ∉ a ∧ q ≠ [] ∧ (∀ c ∈ q, c = '?') ∧ '\n' ∉ b := by
  simp only [Expect.closePlaceholder, Expect.dot, Re.catl, m_cat_codes, matches_group, m_star_noneOf_codes, m_plus_ch_codes,
    m_eps_codes, List.mem_singleton]
  constructor
  · rintro ⟨a, _, rfl, ha, q, _, rfl, ⟨hq, hq2⟩, b, _, rfl, hb, rfl⟩
    exact ⟨a, q, b, by simp, fun h => ha _ h rfl, hq, hq2, fun h => hb _ h rfl⟩
  · rintro ⟨a, q, b, rfl, ha, hq, hq2, hb⟩
    refine ⟨a, q ++ b, by simp, ?_, q, b, rfl, ⟨hq, hq2⟩, b, [], by simp, ?_, rfl⟩
    · intro c hc e; subst e; exact ha hc
    · intro c hc e; subst e; exact hb hc

/-- equivalently: a line (no line feed) that contains a question mark -/
theorem closePlaceholder_shape' (s : List Char) :
    Matches env Expect.closePlaceholder (codes s) ↔ '?' ∈ s ∧ '\n' ∉ s := by
  rw [closePlaceholder_shape]
  constructor
  · rintro ⟨a, q, b, rfl, ha, hq, hq2, hb⟩
    cases q with
    | nil => exact absurd rfl hq
    | cons c q =>
      have : c = '?' := hq2 c (by simp)
      subst this
      refine ⟨by simp, ?_⟩
      simp only [List.mem_append, List.mem_cons, not_or]
      refine ⟨⟨ha, by decide, ?_⟩, hb⟩
      intro h; exact absurd (hq2 '\n' (List.mem_cons_of_mem _ h)) (by decide)
  · rintro ⟨h1, h2⟩
    obtain ⟨a, b, rfl⟩ := List.append_of_mem h1
    simp only [List.mem_append, List.mem_cons, not_or] at h2
    exact ⟨a, ['?'], b, by simp, h2.1, by simp, by simp, h2.2.2⟩

theorem ansi_shape (s : List Char) :
    Matches env Expect.ansiSequence (codes s) ↔
      ∃ ps, s = Char.ofNat 27 :: '[' :: ps ++ ['m'] ∧ ps ≠ [] ∧ ∀ c ∈ ps, isDigit c = true ∨ c = ';' := by
  have e : ([27, '['.toNat] : List Nat) = codes [Char.ofNat 27, '['] := by decide
  have hm : ∀ x : Char, Cls.mem env ⟨false, [('0'.toNat, '9'.toNat), (';'.toNat, ';'.toNat)], []⟩ x.toNat = true ↔
      (isDigit x = true ∨ x = ';') := by
    intro x
    have e1 : x = ';' ↔ x.toNat = 59 := by rw [← Char.toNat_inj]; rfl
    simp only [Cls.mem, Cls.pos, Bool.false_eq_true, if_false, List.any_cons, List.any_nil, Bool.or_false,
      Bool.or_eq_true, Bool.and_eq_true, decide_eq_true_eq, e1, isDigit_iff, Char.reduceToNat, Rx.Sym]
    constructor <;> intro h <;> omega
  simp only [Expect.ansiSequence, Re.catl, m_cat_codes, e, matches_lit, codes_inj, m_plus_cls_codes, hm, m_ch_codes, m_eps_codes]
  constructor
  · rintro ⟨_, _, rfl, rfl, ps, _, rfl, ⟨hne, hps⟩, _, _, rfl, rfl, rfl⟩
    exact ⟨ps, by simp, hne, hps⟩
  · rintro ⟨ps, rfl, hne, hps⟩
    exact ⟨[Char.ofNat 27, '['], ps ++ ['m'], rfl, rfl, ps, ['m'], rfl, ⟨hne, hps⟩, ['m'], [], rfl, rfl, rfl⟩

end KlogV.RxM
