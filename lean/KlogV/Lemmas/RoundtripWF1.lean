/- Parser output is well-formed (C09), part 1: no line feed is ever decoded from a line text. -/
import KlogV.Lemmas.RoundtripLines
namespace KlogV

theorem char_ofNat_LF (x : Nat) (h : Char.ofNat x = '\n') : x = 10 := by
  have h2 : (Char.ofNat x).toNat = 10 := by rw [h]; rfl
  unfold Char.ofNat at h2
  split at h2
  · simpa [Char.ofNatAux, Char.toNat] using h2
  · cases h2

theorem runeError_ne_LF : runeError ≠ '\n' := by decide

theorem isCont_range (b : UInt8) (h : isCont b = true) : 0x80 ≤ b.toNat ∧ b.toNat ≤ 0xBF := by
  unfold isCont at h
  simp only [Bool.and_eq_true, decide_eq_true_eq, UInt8.le_iff_toNat_le] at h
  exact h

theorem ite_fst_LF (c : Bool) (X w : Nat)
    (h : (if c = true then (Char.ofNat X, w) else (runeError, 1)).1 = '\n') : c = true ∧ X = 10 := by
  cases c with
  | false => exact absurd h runeError_ne_LF
  | true => exact ⟨rfl, char_ofNat_LF X h⟩

theorem decodeRune_LF (bs : Bytes) (h : (decodeRune bs).1 = '\n') : ∃ rest, bs = LF :: rest := by
  cases bs with
  | nil => exact absurd h runeError_ne_LF
  | cons b0 rest =>
  by_cases h1 : b0.toNat < 0x80
  · simp only [decodeRune, h1, if_true] at h
    have := char_ofNat_LF _ h
    exact ⟨rest, by congr 1; exact UInt8.toNat_inj.mp this⟩
  · exfalso
    by_cases h2 : (b0.toNat < 0xC2 ∨ b0.toNat > 0xF4)
    · simp only [decodeRune, h1, h2, if_true, if_false, Bool.or_eq_true, decide_eq_true_eq] at h
      exact absurd h runeError_ne_LF
    · by_cases h3 : b0.toNat < 0xE0
      · cases rest with
        | nil =>
          simp only [decodeRune, h1, h2, h3, if_true, if_false, Bool.or_eq_true, decide_eq_true_eq] at h
          exact absurd h runeError_ne_LF
        | cons b1 rest =>
          simp only [decodeRune, h1, h2, h3, if_true, if_false, Bool.or_eq_true, decide_eq_true_eq] at h
          split at h
          · have := char_ofNat_LF _ h; omega
          · exact absurd h runeError_ne_LF
      · by_cases h4 : b0.toNat < 0xF0
        · match rest with
          | [] | [_] =>
            simp only [decodeRune, h1, h2, h3, h4, if_false, Bool.or_eq_true, decide_eq_true_eq] at h
            exact absurd h runeError_ne_LF
          | b1 :: b2 :: rest =>
            simp only [decodeRune, h1, h2, h3, h4, if_true, if_false, Bool.or_eq_true, decide_eq_true_eq] at h
            obtain ⟨hc, this⟩ := ite_fst_LF _ _ _ h
            simp only [Bool.and_eq_true, decide_eq_true_eq] at hc
            obtain ⟨⟨hc1, hc2⟩, hc3⟩ := hc
            have hhi : (if (b0.toNat == 237) = true then 159 else 191) ≤ 191 := by split <;> omega
            by_cases hE : b0.toNat = 0xE0
            · simp [hE] at hc1; omega
            · omega
        · match rest with
          | [] | [_] | [_, _] =>
            simp only [decodeRune, h1, h2, h3, h4, if_false, Bool.or_eq_true, decide_eq_true_eq] at h
            exact absurd h runeError_ne_LF
          | b1 :: b2 :: b3 :: rest =>
            simp only [decodeRune, h1, h2, h3, h4, if_false, Bool.or_eq_true, decide_eq_true_eq] at h
            obtain ⟨hc, this⟩ := ite_fst_LF _ _ _ h
            simp only [Bool.and_eq_true, decide_eq_true_eq] at hc
            obtain ⟨⟨⟨hc1, hc2⟩, hc3⟩, hc4⟩ := hc
            have hhi : (if (b0.toNat == 244) = true then 143 else 191) ≤ 191 := by split <;> omega
            by_cases hE : b0.toNat = 0xF0
            · simp [hE] at hc1; omega
            · omega

theorem decodeGoAux_noLF : ∀ (fuel : Nat) (bs : Bytes), LF ∉ bs → '\n' ∉ decodeGoAux fuel bs := by
  intro fuel
  induction fuel with
  | zero => intro bs _; simp [decodeGoAux]
  | succ fuel ih =>
    intro bs hbs
    cases bs with
    | nil => simp [decodeGoAux]
    | cons b rest =>
      unfold decodeGoAux
      simp only [List.mem_cons, not_or]
      constructor
      · intro h
        obtain ⟨rest', e⟩ := decodeRune_LF (b :: rest) h.symm
        rw [e] at hbs
        exact hbs (by simp)
      · exact ih _ (fun hm => hbs (List.mem_of_mem_drop hm))

theorem decodeGo_noLF (bs : Bytes) (h : LF ∉ bs) : '\n' ∉ decodeGo bs := decodeGoAux_noLF _ bs h

/-- every raw line has a line feed at most at its end -/
theorem splitRaw_mem (t : Bytes) : ∀ raw ∈ splitRaw t, ∃ x, LF ∉ x ∧ (raw = x ++ [LF] ∨ raw = x) := by
  induction t with
  | nil => intro raw h; simp [splitRaw] at h
  | cons b rest ih =>
    intro raw h
    unfold splitRaw at h
    by_cases hb : b = LF
    · simp only [hb, if_true, List.mem_cons] at h
      rcases h with rfl | h
      · exact ⟨[], by simp, Or.inl rfl⟩
      · exact ih raw h
    · simp only [hb, if_false] at h
      cases hs : splitRaw rest with
      | nil =>
        rw [hs] at h
        simp only [List.mem_singleton] at h
        subst h
        exact ⟨[b], by simpa using fun e => hb e.symm, Or.inr rfl⟩
      | cons l ls =>
        rw [hs] at h ih
        simp only [List.mem_cons] at h
        rcases h with rfl | h
        · obtain ⟨x, hx, hl⟩ := ih l (by simp)
          refine ⟨b :: x, ?_, ?_⟩
          · simp only [List.mem_cons, not_or]; exact ⟨fun e => hb e.symm, hx⟩
          · rcases hl with rfl | rfl
            · left; rfl
            · right; rfl
        · exact ih raw (by simp [h])

theorem ofRaw_text_noLF (raw x : Bytes) (hx : LF ∉ x) (h : raw = x ++ [LF] ∨ raw = x) :
    LF ∉ (Line.ofRaw raw).text := by
  rcases h with rfl | rfl
  · by_cases hcr : x.getLast? = some CR
    · obtain ⟨y, rfl⟩ : ∃ y, x = y ++ [CR] := List.getLast?_eq_some_iff.mp hcr
      have : (y ++ [CR]) ++ [LF] = y ++ [CR, LF] := by simp
      rw [this, ofRaw_crlf]
      intro hm; exact hx (by simp [hm])
    · rw [ofRaw_lf x hcr]; exact hx
  · rw [ofRaw_none raw (fun h => hx (List.mem_of_getLast? h))]; exact hx

theorem splitLines_text_noLF (t : Bytes) : ∀ l ∈ splitLines t, LF ∉ l.text := by
  intro l hl
  unfold splitLines at hl
  obtain ⟨raw, hraw, rfl⟩ := List.mem_map.mp hl
  obtain ⟨x, hx, h⟩ := splitRaw_mem t raw hraw
  exact ofRaw_text_noLF raw x hx h

theorem blocksGo_mem (m : Mode) (cur ls : List Line) :
    ∀ b ∈ blocksGo m cur ls, ∀ l ∈ b, l ∈ cur ∨ l ∈ ls := by
  induction ls generalizing m cur with
  | nil =>
    intro b hb l hl
    cases m <;> simp [blocksGo] at hb <;> (subst hb; left; exact hl)
  | cons x ls ih =>
    intro b hb l hl
    by_cases he : m = .post ∧ x.isBlank = false
    · obtain ⟨rfl, hx⟩ := he
      rw [blocksGo_post_sig _ _ _ hx] at hb
      simp only [List.mem_cons] at hb
      rcases hb with rfl | hb
      · left; exact hl
      · rcases ih _ _ b hb l hl with h | h
        · simp only [List.mem_singleton] at h; right; simp [h]
        · right; simp [h]
    · rw [blocksGo_cons_noemit _ _ _ _ he] at hb
      rcases ih _ _ b hb l hl with h | h
      · simp only [List.mem_append, List.mem_singleton] at h
        rcases h with h | h
        · left; exact h
        · right; simp [h]
      · right; simp [h]

theorem blocksOf_text_noLF (t : Bytes) : ∀ b ∈ blocksOf t, ∀ l ∈ b, LF ∉ l.text := by
  intro b hb l hl
  rcases blocksGo_mem .pre [] _ b hb l hl with h | h
  · simp at h
  · exact splitLines_text_noLF t l h

end KlogV
