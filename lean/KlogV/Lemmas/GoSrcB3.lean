/- Helper lemmas for KlogV/Lemmas/GoSrcB.lean, part 3: RoundToNearest. Core Lean only. -/
import KlogV.Lemmas.GoSrcB2
namespace KlogV.GoL.B
open KlogV.Go

theorem newTime00 : GoSrc.NewTime 0 0 = .ok (Time.toGo ⟨0, 0, 0, true⟩) := by
  unfold GoSrc.NewTime GoSrc.DefaultTimeFormat
  rw [pure_eq, bind_ok]
  have := newTime_spec 0 0 0 (by omega) true
  have e : Time.mk' 0 0 0 true = some ⟨0, 0, 0, true⟩ := by decide
  rw [e] at this
  exact this

theorem newTimeTomorrow2359 : GoSrc.NewTimeTomorrow 23 59 = .ok (Time.toGo ⟨23, 59, 1, true⟩) := by
  unfold GoSrc.NewTimeTomorrow GoSrc.DefaultTimeFormat
  rw [pure_eq, bind_ok]
  have := newTime_spec 23 59 1 (by omega) true
  have e : Time.mk' 23 59 1 true = some ⟨23, 59, 1, true⟩ := by decide
  rw [e] at this
  exact this

theorem try2_ok {α} [Inhabited α] (a : α) : try2 (Except.ok a : G α) = .ok (a, none) := rfl
theorem try2_err {α} [Inhabited α] (m : String) : try2 (Except.error (.err m) : G α) = .ok (default, some (.err m)) := rfl

theorem mod_nonneg (a b : Int) (ha : 0 ≤ a) (hb : b ≠ 0) : mod a b = .ok (a % b) := by
  unfold mod
  have : (b == 0) = false := by simpa using hb
  rw [this, Int.tmod_eq_emod_of_nonneg ha]; rfl

theorem div2_nonneg (a : Int) (ha : 0 ≤ a ∧ a ≤ 1000000) : div a 2 = .ok (a / 2) := by
  unfold div
  have : ((2 : Int) == 0) = false := by decide
  rw [this, Int.tdiv_eq_ediv_of_nonneg ha.1, wrap_id (by unfold inInt64; omega)]; rfl

theorem valid_cases (v : Nat) (hv : validRoundings.contains v = true) : 5 ≤ v ∧ v ≤ 60 := by
  have : v = 5 ∨ v = 10 ∨ v = 12 ∨ v = 15 ∨ v = 20 ∨ v = 30 ∨ v = 60 := by
    simpa [validRoundings] using hv
  omega

theorem roundToNearest_eq (t : Time) (v : Nat) (h : t.wf = true) (h0 : t.shift = 0) (_h24 : t.is24 = true)
    (hv : validRoundings.contains v = true) :
    GoSrc.RoundToNearest t.toGo ⟨v⟩ = .ok (roundToNearest t v).toGo := by
  obtain ⟨hv1, hv2⟩ := valid_cases v hv
  obtain ⟨b1, b2, _⟩ := wf_bounds t h
  have hoff : t.offset = (t.h : Int) * 60 + t.min := by
    unfold Time.offset; rw [h0, if_neg d6, if_neg d7]
  have hob : 0 ≤ t.offset ∧ t.offset < 1440 := by omega
  unfold GoSrc.RoundToNearest roundToNearest
  rw [midnightOffset_spec t h, bind_ok]
  unfold GoSrc.duration.InMinutes GoSrc.rounding.ToInt
  rw [pure_eq, bind_ok, pure_eq, bind_ok]
  have e0 : toInt (⟨(v:Int)⟩ : GoSrc.rounding) = (v : Int) := rfl
  rw [e0]
  simp only [durOfMins]
  have hvne : (v : Int) ≠ 0 := by omega
  rw [mod_nonneg _ _ hob.1 hvne, bind_ok, div2_nonneg _ (by omega), bind_ok, mod_nonneg _ _ (by omega) (by decide), bind_ok]
  have hrem : 0 ≤ t.offset % (v : Int) ∧ t.offset % (v : Int) < v :=
    ⟨Int.emod_nonneg _ hvne, Int.emod_lt_of_pos _ (by omega)⟩
  generalize t.offset % (v : Int) = rem at hrem ⊢
  rw [add_small ((v : Int) / 2) ((v : Int) % 2) (by omega) (by omega)]
  have ec : ((v / 2 + v % 2 : Nat) : Int) = (v : Int) / 2 + (v : Int) % 2 := by omega
  rw [ec, ge_eq]
  have key : ∀ up : Int, 0 ≤ up ∧ up ≤ 60 →
      (do
        let __x ← try2 (GoSrc.NewTime 0 0)
        let __do_lift ← GoSrc.NewDuration 0 (add (sub t.offset rem) up)
        let __x ← try2 (__x.fst.Plus __do_lift)
        if (!isNil __x.snd) = true then do
            let __x ← try2 (GoSrc.NewTimeTomorrow 23 59)
            pure __x.fst
          else pure __x.fst : G GoSrc.time) =
      Except.ok
        (match ({ h := 0, min := 0, shift := 0 } : Time).plus (t.offset - rem + up) with
          | some r => r
          | none => { h := 23, min := 59, shift := 1 }).toGo := by
    intro up hup
    rw [newTime00, try2_ok, bind_ok, sub_small _ _ (by omega) (by omega), add_small _ _ (by omega) (by omega),
      newDuration_small _ _ (by omega) (by omega), bind_ok]
    have e1 : (0 : Int) * 60 + (t.offset - rem + up) = t.offset - rem + up := by omega
    rw [e1]
    have hp := time_plus_spec ⟨0, 0, 0, true⟩ (by decide) (t.offset - rem + up) (by omega)
    cases hpl : Time.plus ⟨0, 0, 0, true⟩ (t.offset - rem + up) with
    | some r =>
      rw [hpl] at hp; simp only [timeRel] at hp
      rw [hp, try2_ok, bind_ok]
      rfl
    | none =>
      rw [hpl] at hp; obtain ⟨m, hm⟩ := hp
      rw [hm, try2_err, bind_ok]
      show (do let __x ← try2 (GoSrc.NewTimeTomorrow 23 59); pure __x.fst : G GoSrc.time) = _
      rw [newTimeTomorrow2359, try2_ok, bind_ok]
      rfl
  by_cases c : rem ≥ (v : Int) / 2 + (v : Int) % 2
  · rw [if_pos c, if_pos (by simpa using c), pure_eq, bind_ok]
    exact key _ (by omega)
  · rw [if_neg c, if_neg (by simpa using c), pure_eq, bind_ok]
    exact key _ (by omega)
end KlogV.GoL.B
