/- Round trip (C09), part 5: `parseValue` of a printed value; entries. -/
import KlogV.Lemmas.RoundtripValues
namespace KlogV

def SfxOK (sfx : List Char) : Prop := sfx = [] ∨ ∃ r, sfx = ' ' :: r

theorem SfxOK.spTab {sfx : List Char} (h : SfxOK sfx) :
    sfx = [] ∨ ∃ c r, sfx = c :: r ∧ isSpTab c = true := by
  rcases h with h | ⟨r, h⟩
  · left; exact h
  · right; exact ⟨' ', r, h, by decide⟩

theorem peekUntil_append_left (p : Char → Bool) (a y : List Char) (ha : ∀ x ∈ a, p x = false) :
    peekUntil p (a ++ y) = a ++ peekUntil p y := by
  unfold peekUntil
  induction a with
  | nil => rfl
  | cons x a ih =>
    simp only [List.cons_append, List.takeWhile_cons, ha x (by simp), Bool.not_false, if_true]
    rw [ih (fun z hz => ha z (by simp [hz]))]

theorem parseValue_dur (d : Dur) (hv : Dur.WF d) (sfx : List Char) (hs : SfxOK sfx) (p0 : Int) :
    ∃ sp sl, parseValue p0 (d.print ++ sfx) = .ok ⟨.dur d, sfx, sp, sl⟩ := by
  have hpeek : peekUntil isSpTab (d.print ++ sfx) = d.print :=
    peekUntil_run _ _ _ (fun x hx => durChar_not_spTab x (Dur.print_all d x hx)) hs.spTab
  unfold parseValue
  simp only [hpeek, Dur.parse_print d hv, List.drop_left]
  exact ⟨_, _, rfl⟩


theorem Time.print_ne_nil (t : Time) : t.print ≠ [] := by
  obtain ⟨c, r, e, _⟩ := Time.print_head t
  rw [e]; simp

/-- the part of `parseValue` after the dash and the spaces around it -/
def pvEnd (p0 total : Int) (start : Time) (spaced : Bool) (r4 : List Char) : ValueRes :=
  let pos (r : List Char) : Int := total - r.length
  match r4 with
  | '?' :: r5 =>
    let rep := peekUntil isSpTab r5
    if rep.all (· == '?') then
      let r6 := r5.drop rep.length
      .ok ⟨.openRange start spaced rep.length, r6, p0, pos r6 - p0⟩
    else .bad (pos r5) rep.length
  | _ =>
    let endCand := peekUntil isSpTab r4
    if endCand.length == 0 then .bad (pos r4) 1 else
    match Time.parse endCand with
    | none => .bad (pos r4) endCand.length
    | some e =>
      let r5 := r4.drop endCand.length
      if e.afterOrEqual start then .ok ⟨.range start e spaced, r5, p0, pos r5 - p0⟩
      else .illegalRange p0 (pos r5 - p0)

/-- the part of `parseValue` after the start time -/
def pvTail (p0 total : Int) (start : Time) (r1 : List Char) : ValueRes :=
  let pos (r : List Char) : Int := total - r.length
  let r2 := r1.dropWhile (· == ' ')
  let spaced := r2.length != r1.length
  match r2 with
  | '-' :: r3 => pvEnd p0 total start spaced (r3.dropWhile (· == ' '))
  | _ => .bad (pos r2) 1

theorem parseValue_start (s : Time) (hs : s.wf = true) (c : Char) (rest : List Char)
    (hc : (c == '-' || c == ' ') = true) (p0 : Int) :
    parseValue p0 (s.print ++ c :: rest) =
      pvTail p0 (p0 + (s.print ++ c :: rest).length) s (c :: rest) := by
  have hdur : Dur.parse (peekUntil isSpTab (s.print ++ c :: rest)) = .err := by
    rw [peekUntil_append_left _ _ _ (fun x hx => timeChar_not_spTab x (Time.print_all s x hx))]
    exact Dur.parse_time s _
  have hstart : peekUntil (fun c => c == '-' || c == ' ') (s.print ++ c :: rest) = s.print :=
    peekUntil_run _ _ _ (fun x hx => timeChar_not_sep x (Time.print_all s x hx))
      (Or.inr ⟨c, _, rfl, hc⟩)
  have hlen : (s.print.length == 0) = false := by
    have := Time.print_ne_nil s
    cases h : s.print with
    | nil => exact absurd h this
    | cons c r => simp
  unfold parseValue
  simp only [hdur, hstart, hlen, Time.parse_print s hs, List.drop_left]
  rfl

theorem pvTail_unspaced (p0 total : Int) (s : Time) (r3 : List Char) :
    pvTail p0 total s ('-' :: r3) = pvEnd p0 total s false (r3.dropWhile (· == ' ')) := by
  unfold pvTail
  have : List.dropWhile (fun x => x == ' ') ('-' :: r3) = '-' :: r3 := by
    rw [List.dropWhile_cons_of_neg (by decide)]
  simp only [this, bne_self_eq_false]

theorem pvTail_spaced (p0 total : Int) (s : Time) (r3 : List Char) :
    pvTail p0 total s (' ' :: '-' :: r3) = pvEnd p0 total s true (r3.dropWhile (· == ' ')) := by
  unfold pvTail
  have : List.dropWhile (fun x => x == ' ') (' ' :: '-' :: r3) = '-' :: r3 := by
    rw [List.dropWhile_cons_of_pos (by decide), List.dropWhile_cons_of_neg (by decide)]
  have h2 : (('-' :: r3).length != (' ' :: '-' :: r3).length) = true := by simp
  simp only [this, h2]

theorem pvEnd_time (p0 total : Int) (s t : Time) (ht : t.wf = true) (ho : s.offset ≤ t.offset)
    (spaced : Bool) (sfx : List Char) (hx : SfxOK sfx) :
    ∃ sp sl, pvEnd p0 total s spaced (t.print ++ sfx) = .ok ⟨.range s t spaced, sfx, sp, sl⟩ := by
  obtain ⟨c, r, e, hc, _⟩ := Time.print_head t
  have hend : peekUntil isSpTab (t.print ++ sfx) = t.print :=
    peekUntil_run _ _ _ (fun x hx => timeChar_not_spTab x (Time.print_all t x hx)) hx.spTab
  have hlen : (t.print.length == 0) = false := by rw [e]; simp
  have hq : c ≠ '?' := by intro h; subst h; exact absurd hc (by decide)
  have hao : t.afterOrEqual s = true := by simp [Time.afterOrEqual, ho]
  unfold pvEnd
  split
  · rename_i r5 heq
    rw [e] at heq
    simp only [List.cons_append, List.cons.injEq] at heq
    exact absurd heq.1 hq
  · simp only [hend, hlen, Time.parse_print t ht, hao, List.drop_left, if_true]
    exact ⟨_, _, rfl⟩

theorem pvEnd_open (p0 total : Int) (s : Time) (spaced : Bool) (n : Nat) (sfx : List Char) (hx : SfxOK sfx) :
    ∃ sp sl, pvEnd p0 total s spaced ('?' :: (List.replicate n '?' ++ sfx)) =
      .ok ⟨.openRange s spaced n, sfx, sp, sl⟩ := by
  have hrep : peekUntil isSpTab (List.replicate n '?' ++ sfx) = List.replicate n '?' :=
    peekUntil_run _ _ _ (fun x hx => by rw [List.eq_of_mem_replicate hx]; decide) hx.spTab
  have hall : (List.replicate n '?').all (· == '?') = true := by
    simp
  unfold pvEnd
  simp only [hrep, hall, if_true, List.drop_left', List.length_replicate]
  exact ⟨_, _, rfl⟩

theorem dropWhile_sp_head (c : Char) (r : List Char) (hc : c ≠ ' ') :
    (c :: r).dropWhile (· == ' ') = c :: r := by
  rw [List.dropWhile_cons_of_neg (by simpa using hc)]

theorem parseValue_print (v : EntryVal) (hv : ValWF v) (sfx : List Char) (hx : SfxOK sfx) (p0 : Int) :
    ∃ sp sl, parseValue p0 (v.print ++ sfx) = .ok ⟨v, sfx, sp, sl⟩ := by
  cases v with
  | dur d => exact parseValue_dur d hv sfx hx p0
  | range s t spaced =>
    obtain ⟨hs, ht, ho⟩ := hv
    obtain ⟨c, r, e, hc, _⟩ := Time.print_head t
    have hsp : c ≠ ' ' := by intro h; subst h; exact absurd hc (by decide)
    cases spaced with
    | false =>
      have : (EntryVal.range s t false).print ++ sfx = s.print ++ '-' :: (t.print ++ sfx) := by
        simp [EntryVal.print]
      rw [this, parseValue_start s hs '-' _ (by decide), pvTail_unspaced]
      rw [e, List.cons_append, dropWhile_sp_head c _ hsp, ← List.cons_append, ← e]
      exact pvEnd_time _ _ s t ht ho false sfx hx
    | true =>
      have : (EntryVal.range s t true).print ++ sfx = s.print ++ ' ' :: '-' :: ' ' :: (t.print ++ sfx) := by
        simp [EntryVal.print]
      rw [this, parseValue_start s hs ' ' _ (by decide), pvTail_spaced]
      rw [List.dropWhile_cons_of_pos (by decide)]
      rw [e, List.cons_append, dropWhile_sp_head c _ hsp, ← List.cons_append, ← e]
      exact pvEnd_time _ _ s t ht ho true sfx hx
  | openRange s spaced n =>
    have hs : s.wf = true := hv
    cases spaced with
    | false =>
      have : (EntryVal.openRange s false n).print ++ sfx = s.print ++ '-' :: '?' :: (List.replicate n '?' ++ sfx) := by
        simp [EntryVal.print, List.replicate_succ, Nat.add_comm 1 n]
      rw [this, parseValue_start s hs '-' _ (by decide), pvTail_unspaced]
      rw [dropWhile_sp_head '?' _ (by decide)]
      exact pvEnd_open _ _ s false n sfx hx
    | true =>
      have : (EntryVal.openRange s true n).print ++ sfx =
          s.print ++ ' ' :: '-' :: ' ' :: '?' :: (List.replicate n '?' ++ sfx) := by
        simp [EntryVal.print, List.replicate_succ, Nat.add_comm 1 n]
      rw [this, parseValue_start s hs ' ' _ (by decide), pvTail_spaced]
      rw [List.dropWhile_cons_of_pos (by decide), dropWhile_sp_head '?' _ (by decide)]
      exact pvEnd_open _ _ s true n sfx hx


/-! ## `entryStep` on printed entry lines -/

def firstOf (sfx : List Char) : List Char :=
  match sfx with
  | c :: r => if isSpTab c then r else []
  | [] => []

theorem entryStep_first (st : PState) (nr : Nat) (v : EntryVal) (hv : ValWF v) (sfx : List Char)
    (hx : SfxOK sfx) (h1 : st.stopped = false) (h2 : st.panicked = false) :
    ∃ sp sl, entryStep canonicalIndent st nr (canonicalIndent ++ v.print ++ sfx) =
      { st.commit with pending := some ⟨v, [firstOf sfx], nr, sp, sl⟩ } := by
  obtain ⟨c, r, e, hc⟩ := EntryVal.print_head v
  obtain ⟨sp, sl, hpv⟩ := parseValue_print v hv sfx hx (canonicalIndent.length)
  refine ⟨sp, sl, ?_⟩
  have hcs : c ≠ ' ' := by intro h; subst h; exact absurd hc (by decide)
  have hdbl : (canonicalIndent ++ canonicalIndent).isPrefixOf (canonicalIndent ++ v.print ++ sfx) = false := by
    rw [e]; simp [canonicalIndent, List.isPrefixOf]
    intro h; exact absurd h.symm hcs
  have hpre : canonicalIndent.isPrefixOf (canonicalIndent ++ v.print ++ sfx) = true := by
    simp [canonicalIndent, List.isPrefixOf]
  have hdrop : (canonicalIndent ++ v.print ++ sfx).drop canonicalIndent.length = v.print ++ sfx := by
    rw [List.append_assoc, List.drop_left]
  unfold entryStep
  simp only [h1, h2, Bool.or_self, Bool.false_eq_true, if_false, hdbl]
  split
  · rename_i heq; cases heq
  · simp only [hpre, Bool.not_true, Bool.false_eq_true, if_false, hdrop]
    simp only [hpv]
    rw [if_neg (by rw [e]; simp [hc])]
    rfl

theorem entryStep_cont (st : PState) (nr : Nat) (p : Pending) (text : List Char)
    (hp : st.pending = some p) (ht : okEntrySummaryCont text = true)
    (h1 : st.stopped = false) (h2 : st.panicked = false) :
    entryStep canonicalIndent st nr (canonicalIndent ++ canonicalIndent ++ text) =
      { st with pending := some { p with summary := p.summary ++ [text] } } := by
  have hdbl : (canonicalIndent ++ canonicalIndent).isPrefixOf (canonicalIndent ++ canonicalIndent ++ text) = true := by
    simp [canonicalIndent, List.isPrefixOf]
  unfold entryStep
  simp only [h1, h2, Bool.or_self, Bool.false_eq_true, if_false, hdbl, hp, List.drop_left, ht, if_true]


theorem entriesGo_cont (texts : List (List Char)) : ∀ (st : PState) (nr : Nat) (p : Pending)
    (rest : List (List Char)), st.pending = some p → (∀ t ∈ texts, okEntrySummaryCont t = true) →
    st.stopped = false → st.panicked = false →
    entriesGo canonicalIndent st nr
        (texts.map (fun l => canonicalIndent ++ canonicalIndent ++ l) ++ rest) =
      entriesGo canonicalIndent { st with pending := some { p with summary := p.summary ++ texts } }
        (nr + texts.length) rest := by
  induction texts with
  | nil =>
    intro st nr p rest hp _ _ _
    simp only [List.map_nil, List.nil_append, List.append_nil, List.length_nil, Nat.add_zero]
    congr 1
    cases st
    simp only at hp
    subst hp
    rfl
  | cons t texts ih =>
    intro st nr p rest hp ht h1 h2
    simp only [List.map_cons, List.cons_append, entriesGo]
    rw [entryStep_cont st nr p t hp (ht t (by simp)) h1 h2]
    rw [ih { st with pending := some { p with summary := p.summary ++ [t] } } (nr + 1)
      { p with summary := p.summary ++ [t] } rest rfl
      (fun x hx => ht x (by simp [hx])) h1 h2]
    simp only [List.append_assoc, List.cons_append, List.nil_append, List.length_cons]
    congr 1
    omega

/-- the lines of one printed entry turn into a pending entry -/
theorem entriesGo_entry (e : Entry) (he : EntryWF e) (st : PState) (nr : Nat) (rest : List (List Char))
    (h1 : st.stopped = false) (h2 : st.panicked = false) :
    ∃ nr' sp sl, entriesGo canonicalIndent st nr (entryLines e ++ rest) =
      entriesGo canonicalIndent { st.commit with pending := some ⟨e.val, e.summary, nr, sp, sl⟩ } nr' rest := by
  obtain ⟨hv, hne, _, hcont⟩ := he
  cases hsum : e.summary with
  | nil => exact absurd hsum hne
  | cons l0 conts =>
    rw [hsum] at hcont
    simp only [List.drop_succ_cons, List.drop_zero] at hcont
    have hx : SfxOK (if l0.isEmpty then [] else ' ' :: l0) := by
      split
      · left; rfl
      · right; exact ⟨l0, rfl⟩
    have hf : firstOf (if l0.isEmpty then [] else ' ' :: l0) = l0 := by
      cases l0 with
      | nil => rfl
      | cons c r => rfl
    obtain ⟨sp, sl, hstep⟩ := entryStep_first st nr e.val hv _ hx h1 h2
    rw [hf] at hstep
    have hc1 : st.commit.stopped = false := by
      unfold PState.commit; split
      · exact h1
      · split <;> exact h1
    have hc2 : st.commit.panicked = false := by
      unfold PState.commit; split
      · exact h2
      · split <;> exact h2
    refine ⟨nr + 1 + conts.length, sp, sl, ?_⟩
    unfold entryLines
    simp only [hsum, List.drop_succ_cons, List.drop_zero, List.cons_append, entriesGo]
    rw [hstep]
    rw [entriesGo_cont conts { st.commit with pending := some ⟨e.val, [l0], nr, sp, sl⟩ } (nr + 1)
      ⟨e.val, [l0], nr, sp, sl⟩ rest rfl hcont hc1 hc2]
    rfl

def doneState (done : List Entry) : PState :=
  ⟨done, [], done.any (fun e => isOpen e.val), none, false, false⟩

theorem filter_open_any (done : List Entry) (e : Entry) (es : List Entry)
    (h : ((done ++ e :: es).filter (fun e => isOpen e.val)).length ≤ 1) (he : isOpen e.val = true) :
    done.any (fun e => isOpen e.val) = false := by
  rw [List.filter_append, List.length_append, List.filter_cons_of_pos (by simpa using he),
    List.length_cons] at h
  have h0 : (done.filter (fun e => isOpen e.val)).length = 0 := by omega
  have h1 : done.filter (fun e => isOpen e.val) = [] := List.eq_nil_of_length_eq_zero h0
  rw [List.filter_eq_nil_iff] at h1
  cases ha : done.any (fun e => isOpen e.val) with
  | false => rfl
  | true =>
    obtain ⟨x, hx, hxo⟩ := List.any_eq_true.mp ha
    exact absurd hxo (h1 x hx)

theorem entriesGo_entries (es : List Entry) : ∀ (done : List Entry) (st : PState) (nr : Nat),
    st.stopped = false → st.panicked = false → st.commit = doneState done →
    (∀ e ∈ es, EntryWF e) →
    ((done ++ es).filter (fun e => isOpen e.val)).length ≤ 1 →
    entriesGo canonicalIndent st nr (es.flatMap entryLines) = doneState (done ++ es) := by
  induction es with
  | nil =>
    intro done st nr _ _ hc _ _
    simp only [List.flatMap_nil, entriesGo, List.append_nil]
    exact hc
  | cons e es ih =>
    intro done st nr h1 h2 hc hwf hopen
    obtain ⟨nr', sp, sl, hgo⟩ := entriesGo_entry e (hwf e (by simp)) st nr (es.flatMap entryLines) h1 h2
    rw [List.flatMap_cons, hgo, hc]
    have := ih (done ++ [e]) { doneState done with pending := some ⟨e.val, e.summary, nr, sp, sl⟩ } nr'
      rfl rfl ?_ (fun x hx => hwf x (by simp [hx])) (by simpa using hopen)
    · simpa using this
    · unfold PState.commit
      simp only [doneState]
      have hno : (isOpen e.val && done.any (fun e => isOpen e.val)) = false := by
        cases ho : isOpen e.val with
        | false => rfl
        | true => simp [filter_open_any done e es hopen ho]
      simp only [hno, Bool.false_eq_true, if_false, List.any_append, List.any_cons, List.any_nil,
        Bool.or_false]

end KlogV
