/- Helper lemmas for KlogV/Lemmas/GoTxt.lean: block.SignificantLines. Core Lean only. -/
import KlogV.Lemmas.GoTxt3
namespace KlogV.GoL.T
open KlogV.Go

/-! ### block.SignificantLines -/

def enumFromI {α} : Nat → List α → List (Int × α)
  | _, [] => []
  | k, x :: xs => ((k : Int), x) :: enumFromI (k + 1) xs

theorem enum_range' {α} (xs : List α) : ∀ k, ((List.range' k xs.length).zip xs).map (fun (p : Nat × α) => ((p.1 : Int), p.2)) = enumFromI k xs := by
  induction xs with
  | nil => intro k; rfl
  | cons x xs ih =>
    intro k
    simp only [List.length_cons, List.range'_succ, List.zip_cons_cons, List.map_cons, enumFromI]
    rw [ih]

theorem enumSlice_eq {α} (xs : List α) : enumSlice xs = enumFromI 0 xs := by
  unfold enumSlice
  rw [List.range_eq_range']
  exact enum_range' xs 0

def slSpec (i : Int) (blank : Bool) (s : Int × Int × Bool) : ForInStep (Int × Int × Bool) :=
  if s.2.2 = false then (if blank then .yield s else .yield (i, s.2.1, true))
  else (if blank then .done (s.1, i, s.2.2) else .yield s)

abbrev SlBody := Int × GoTxt.Line → Int × Int × Bool → G (ForInStep (Int × Int × Bool))
def SlOK (F : SlBody) : Prop := ∀ (i : Int) (l : Line) s, F (i, l.toGo) s = .ok (slSpec i l.isBlank s)

def phase2 : Nat → Int → List Line → Int
  | _, L, [] => L
  | k, L, x :: xs => if x.isBlank then (k : Int) else phase2 (k + 1) L xs

def phase1 : Nat → Int → Int → List Line → Int × Int × Bool
  | _, f, L, [] => (f, L, false)
  | k, f, L, x :: xs => if x.isBlank then phase1 (k + 1) f L xs else ((k : Int), phase2 (k + 1) L xs, true)

theorem loop2 (F : SlBody) (hF : SlOK F) (xs : List Line) : ∀ (k : Nat) (f L : Int),
    forIn (enumFromI k (xs.map Line.toGo)) (f, L, true) F = .ok (f, phase2 k L xs, true) := by
  induction xs with
  | nil => intro k f L; rfl
  | cons x xs ih =>
    intro k f L
    simp only [List.map_cons, enumFromI, List.forIn_cons, phase2, hF _ _ _, slSpec]
    cases hb : x.isBlank with
    | true => rfl
    | false =>
      simp only [bind, Except.bind, Bool.true_eq_false, Bool.false_eq_true, if_false]
      exact ih _ _ _

theorem loop1 (F : SlBody) (hF : SlOK F) (xs : List Line) : ∀ (k : Nat) (f L : Int),
    forIn (enumFromI k (xs.map Line.toGo)) (f, L, false) F = .ok (phase1 k f L xs) := by
  induction xs with
  | nil => intro k f L; rfl
  | cons x xs ih =>
    intro k f L
    simp only [List.map_cons, enumFromI, List.forIn_cons, phase1, hF _ _ _, slSpec]
    cases hb : x.isBlank with
    | true =>
      simp only [bind, Except.bind, if_true]
      exact ih _ _ _
    | false =>
      simp only [bind, Except.bind, Bool.false_eq_true, if_false, if_true]
      exact loop2 F hF _ _ _ _

theorem phase2_eq (xs : List Line) : ∀ k : Nat,
    phase2 k ((k + xs.length : Nat) : Int) xs = ((k + (xs.takeWhile (fun l => !l.isBlank)).length : Nat) : Int) := by
  induction xs with
  | nil => intro k; rfl
  | cons x xs ih =>
    intro k
    simp only [phase2, List.takeWhile_cons]
    cases hb : x.isBlank with
    | true => simp
    | false =>
      simp only [Bool.false_eq_true, if_false, Bool.not_false, if_true, List.length_cons]
      have := ih (k + 1)
      have e : k + (xs.length + 1) = k + 1 + xs.length := by omega
      rw [e, this]
      congr 1; omega

theorem phase1_eq (xs : List Line) (h : xs.any (fun l => !l.isBlank) = true) : ∀ (k : Nat) (f : Int),
    phase1 k f ((k + xs.length : Nat) : Int) xs =
      (((k + (significant xs).2.1 : Nat) : Int), ((k + (significant xs).2.1 + (significant xs).1.length : Nat) : Int), true) := by
  induction xs with
  | nil => simp at h
  | cons x xs ih =>
    intro k f
    unfold significant
    simp only [phase1, List.takeWhile_cons, List.dropWhile_cons]
    cases hb : x.isBlank with
    | true =>
      simp only [if_true, List.length_cons]
      have h' : xs.any (fun l => !l.isBlank) = true := by simpa [hb] using h
      have := ih h' (k + 1) f
      have e : k + (xs.length + 1) = k + 1 + xs.length := by omega
      rw [e, this]
      unfold significant
      simp only
      refine Prod.ext ?_ (Prod.ext ?_ rfl)
      · simp only; congr 1; omega
      · simp only; congr 1; omega
    | false =>
      simp only [Bool.false_eq_true, if_false, List.length_nil, List.length_cons, List.takeWhile_cons, hb,
        Bool.not_false, if_true]
      have := phase2_eq xs (k + 1)
      have e : k + (xs.length + 1) = k + 1 + xs.length := by omega
      rw [e, this]
      refine Prod.ext ?_ (Prod.ext ?_ rfl)
      · simp
      · simp only; congr 1; omega

theorem take_takeWhile {α} (p : α → Bool) (xs : List α) : xs.take (xs.takeWhile p).length = xs.takeWhile p := by
  induction xs with
  | nil => rfl
  | cons x xs ih =>
    simp only [List.takeWhile_cons]
    cases p x with
    | true => simp [ih]
    | false => simp

theorem drop_takeWhile {α} (p : α → Bool) (xs : List α) : xs.drop (xs.takeWhile p).length = xs.dropWhile p := by
  induction xs with
  | nil => rfl
  | cons x xs ih =>
    simp only [List.takeWhile_cons, List.dropWhile_cons]
    cases p x with
    | true => simp [ih]
    | false => simp

theorem significant_len (b : List Line) : (significant b).2.1 + (significant b).1.length ≤ b.length := by
  unfold significant
  simp only
  have h1 := congrArg List.length (List.takeWhile_append_dropWhile (p := Line.isBlank) (l := b))
  have h2 := congrArg List.length (List.takeWhile_append_dropWhile (p := fun l => !l.isBlank) (l := b.dropWhile Line.isBlank))
  simp only [List.length_append] at h1 h2
  omega

theorem significantLines_eq (b : List Line) (n : Int) (h : b.any (fun l => !l.isBlank) = true)
    (hlen : (b.length : Int) < 9223372036854775808) :
    (⟨n, b.map Line.toGo⟩ : GoTxt.block).SignificantLines =
      .ok ((significant b).1.map Line.toGo, ((significant b).2.1 : Int), ((significant b).2.2 : Int)) := by
  unfold GoTxt.block.SignificantLines
  simp only [bind, Except.bind, pure, Except.pure]
  have hl : len (b.map Line.toGo) = ((0 + b.length : Nat) : Int) := by unfold len; simp
  have e : ∀ F, SlOK F → _ := fun F hF => loop1 F hF b 0 0 (len (b.map Line.toGo))
  rw [hl, phase1_eq b h 0 0] at e
  rw [enumSlice_eq]
  rw [hl, e _ (by
    intro i l s
    obtain ⟨s1, s2, s3⟩ := s
    simp only [line_isBlank_eq, slSpec]
    cases s3 <;> cases l.isBlank <;> rfl)]
  simp only
  have sl := significant_len b
  rw [slice_ok _ _ _ (by omega) (by omega) (by simp; omega)]
  simp only
  rw [sub_eq _ _ (by unfold inInt64; omega)]
  refine congrArg Except.ok (Prod.ext ?_ (Prod.ext ?_ ?_))
  · simp only
    have e1 : ((0 + (significant b).2.1 : Nat) : Int).toNat = (significant b).2.1 := by omega
    have e2 : (((0 + (significant b).2.1 + (significant b).1.length : Nat) : Int) - ((0 + (significant b).2.1 : Nat) : Int)).toNat = (significant b).1.length := by omega
    rw [e1, e2, ← List.map_drop, ← List.map_take]
    congr 1
    unfold significant
    simp only
    rw [drop_takeWhile, take_takeWhile]
  · simp
  · simp only
    have : (significant b).2.2 = b.length - (significant b).2.1 - (significant b).1.length := rfl
    rw [this]; omega

end KlogV.GoL.T
