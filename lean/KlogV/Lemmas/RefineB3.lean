/-
Helper lemmas for C04b, part 3: the lines written for a new entry with a printed value (`start`,
`pause`), and the entry they are read back as.
-/
import KlogV.Lemmas.RefineB2
namespace KlogV.RefineBLemmas
open KlogV KlogV.RefineLemmas KlogV.EditLemmas KlogV.GrammarLemmas

theorem parseDoc_wf0 (t : Bytes) (rs : List Record) (bos : List BlockOut)
    (h : parseDoc t = .records rs bos) : ∀ r ∈ rs, RecordWF0 r := by
  intro r hr
  unfold parseDoc at h
  obtain ⟨bo, hbo, hout⟩ := assemble_inv _ _ _ h r hr
  obtain ⟨b, hb, hpb⟩ := rt_blockOuts_mem _ bo hbo
  rw [hpb] at hout
  exact parseBlock_inv b r (blocksOf_text_noLF t b hb) hout

/-- first line of the text of an entry written by `toMultilineEntryTexts` -/
def firstText (value : Bytes) (sm : List Bytes) : Bytes :=
  match sm with
  | [] => value
  | s0 :: _ => value ++ (if !value.isEmpty && !s0.isEmpty then [SP] else []) ++ s0

theorem toMulti_eq (value : Bytes) (sm : List Bytes) :
    toMultilineEntryTexts value sm = toMultilineEntryTexts [] (firstText value sm :: sm.drop 1) := by
  rw [toMultilineEntryTexts_nil]
  cases sm with
  | nil => rfl
  | cons s0 rest => simp [toMultilineEntryTexts, firstText]

theorem ascii_not_blank (c : Char) (h : c.toNat < 0x80) (hc : isSpTab c = false) :
    isBlankByte c.toNat.toUInt8 = false := by
  have hb : c.toNat.toUInt8.toNat = c.toNat := u8 _ (by omega)
  cases hbl : isBlankByte c.toNat.toUInt8 with
  | false => rfl
  | true =>
    exfalso
    simp only [isBlankByte, Bool.or_eq_true, beq_iff_eq] at hbl
    have : c = ' ' ∨ c = '\t' := by
      rcases hbl with h1 | h1
      · left
        apply char_eq_of_toNat
        rw [← hb, h1]; rfl
      · right
        apply char_eq_of_toNat
        rw [← hb, h1]; rfl
    rcases this with rfl | rfl <;> simp [isSpTab] at hc

/-- the bytes of a printed value start with a byte that is not blank -/
theorem value_bytes_head (v : EntryVal) : ∃ b0 tl, bytesOfChars v.print = b0 :: tl ∧ isBlankByte b0 = false := by
  obtain ⟨c, r, e, hc⟩ := EntryVal.print_head v
  have hasc := (entryVal_print_ascii v c (by rw [e]; simp)).1
  refine ⟨c.toNat.toUInt8, encode r, ?_, ascii_not_blank c hasc hc⟩
  unfold bytesOfChars
  rw [e, encode_cons, encodeChar_ascii c hasc]
  rfl

theorem value_bytes_clean (v : EntryVal) (tl : Bytes) (ht : CleanLine tl) : CleanLine (bytesOfChars v.print ++ tl) :=
  cleanLine_encode_append v.print (fun c hc => ⟨(entryVal_print_ascii v c hc).2.1, (entryVal_print_ascii v c hc).2.2.1⟩) tl ht

theorem firstText_props (v : EntryVal) (smb : List Bytes) (hs : CleanSummary smb) :
    CleanLine (firstText (bytesOfChars v.print) smb) ∧
      (∃ b0 tl, firstText (bytesOfChars v.print) smb = b0 :: tl ∧ isBlankByte b0 = false) ∧
      ∃ sfx, decodeGo (firstText (bytesOfChars v.print) smb) = v.print ++ sfx ∧ SfxOK sfx ∧
        firstOf sfx :: (smb.drop 1).map decodeGo = Spec.normSummary (smb.map decodeGo) := by
  obtain ⟨b0, tl, e, hb0⟩ := value_bytes_head v
  have hasc : ∀ c ∈ v.print, c.toNat < 0x80 := fun c hc => (entryVal_print_ascii v c hc).1
  cases smb with
  | nil =>
    refine ⟨?_, ⟨b0, tl, e, hb0⟩, [], ?_, Or.inl rfl, rfl⟩
    · have := value_bytes_clean v [] cleanLine_nil
      simpa [firstText] using this
    · simp [firstText, bytesOfChars, decodeGo_encode]
  | cons s0 rest =>
    have hs0 : CleanLine s0 := hs.1 s0 (by simp)
    have hne : (bytesOfChars v.print).isEmpty = false := by rw [e]; rfl
    by_cases h0 : s0 = []
    · subst h0
      refine ⟨?_, ⟨b0, tl, ?_, hb0⟩, [], ?_, Or.inl rfl, ?_⟩
      · have := value_bytes_clean v [] cleanLine_nil
        simpa [firstText] using this
      · simp [firstText, e]
      · simp [firstText, bytesOfChars, decodeGo_encode]
      · simp [Spec.normSummary, firstOf, decodeGo_nil]
    · have hne0 : s0.isEmpty = false := by cases s0 <;> simp_all
      have hft : firstText (bytesOfChars v.print) (s0 :: rest) = bytesOfChars v.print ++ (SP :: s0) := by
        simp [firstText, hne, hne0]
      rw [hft]
      refine ⟨value_bytes_clean v _ (cleanLine_cons_sp s0 hs0), ⟨b0, tl ++ SP :: s0, by rw [e]; rfl, hb0⟩,
        ' ' :: decodeGo s0, ?_, Or.inr ⟨_, rfl⟩, ?_⟩
      · unfold bytesOfChars
        rw [decodeGo_encode_ascii _ hasc, decodeGo_cons_ascii _ _ (by decide)]
        rfl
      · simp [Spec.normSummary, firstOf, isSpTab]

/-- the lines of an entry with a printed value and a clean summary, as a group -/
theorem printed_grp (ind : List Char) (v : EntryVal) (hv : ValWF v) (smb : List Bytes) (hs : CleanSummary smb) :
    Grp ind ((ind ++ decodeGo (firstText (bytesOfChars v.print) smb)) ::
        (smb.drop 1).map (fun l => ind ++ ind ++ decodeGo l))
      ⟨v, Spec.normSummary (smb.map decodeGo)⟩ := by
  obtain ⟨_, _, sfx, hd, hx, hsum⟩ := firstText_props v smb hs
  obtain ⟨sp, sl, hpv⟩ := parseValue_print v hv sfx hx ind.length
  obtain ⟨c, r, e, hc⟩ := EntryVal.print_head v
  refine ⟨v.print ++ sfx, ⟨v, sfx, sp, sl⟩, (smb.drop 1).map decodeGo, ?_, hpv, ⟨c, r ++ sfx, by rw [e]; rfl, hc⟩, ?_, ?_⟩
  · rw [hd]
    simp [List.map_map, Function.comp_def]
  · rw [← hsum]
  · intro t ht
    obtain ⟨l, hl, rfl⟩ := List.mem_map.mp ht
    exact hs.2 l hl

/-- what the text of an entry denotes, when its lines form a group -/
theorem denotes_of_grp (ind : List Char) (hi : Spec.Indent ind) (first : Bytes) (rest : List Bytes) (e e0 : Entry)
    (hden : Denotes ind (first :: rest) e)
    (hg : Grp ind ((ind ++ decodeGo first) :: rest.map (fun l => ind ++ ind ++ decodeGo l)) e0) : e = e0 := by
  obtain ⟨f, r, he, hpr⟩ := hden
  obtain ⟨rfl, rfl⟩ := List.cons.inj he
  have := rec_gcomplete 0 "2000-01-01".toList ⟨⟨2000, 1, 1, true⟩, none⟩ [] ind
    [((ind ++ decodeGo first) :: rest.map (fun l => ind ++ ind ++ decodeGo l), e0)] headline2000
    (by intro l hl; cases hl) hi (by intro g hg'; simp only [List.mem_singleton] at hg'; subst hg'; exact hg)
    (by simp only [List.map_cons, List.map_nil]; exact List.length_filter_le _ _)
  simp only [flatG, List.map_cons, List.map_nil, List.flatten_cons, List.flatten_nil, List.append_nil,
    List.nil_append] at this
  rw [hpr] at this
  simp only [ParseOut.record.injEq, Record.mk.injEq, List.cons.injEq, and_true, true_and] at this
  exact this

/-- the text of the summary is clean: from the command line, or resumed from a parsed entry
whose lines do not end in a carriage return -/
theorem summaryBytes_clean (e : Entry) (hw : SumOK e.val e.summary)
    (hcr : ∀ l ∈ e.summary, l.getLast? ≠ some '\r') : CleanSummary (summaryBytes e) := by
  obtain ⟨_, _, h3, h4⟩ := hw
  unfold summaryBytes bytesOfChars
  constructor
  · intro l hl
    obtain ⟨cs, hcs, rfl⟩ := List.mem_map.mp hl
    exact ⟨fun hm => h3 cs hcs (LF_mem_encode cs hm), fun hm => hcr cs hcs (encode_getLast_CR cs hm)⟩
  · intro l hl
    rw [← List.map_drop] at hl
    obtain ⟨cs, hcs, rfl⟩ := List.mem_map.mp hl
    rw [decodeGo_encode]
    exact h4 cs hcs

theorem cleanSummary_nil : CleanSummary [] := ⟨by simp, by simp⟩

theorem previousRecord_mem (d : Date) (rs : List Record) (p : Record) (h : previousRecord d rs = some p) : p ∈ rs := by
  unfold previousRecord at h
  dsimp only at h
  have key : ∀ (l : List Record) (init : Option Record) (p : Record),
      l.foldl (fun (best : Option Record) r =>
        match best with
        | none => some r
        | some b => if r.date.afterOrEqual b.date && !r.date.sameDay b.date then some r else some b) init = some p →
      init = some p ∨ p ∈ l := by
    intro l
    induction l with
    | nil => intro init p h; exact Or.inl h
    | cons x xs ih =>
      intro init p h
      rw [List.foldl_cons] at h
      rcases ih _ p h with h1 | h1
      · cases init with
        | none =>
          simp only [Option.some.injEq] at h1
          right; rw [← h1]; simp
        | some b =>
          dsimp only at h1
          split at h1
          · simp only [Option.some.injEq] at h1
            right; rw [← h1]; simp
          · left; exact h1
      · right; simp [h1]
  rcases key _ none p h with h1 | h1
  · cases h1
  · exact (List.mem_filter.mp h1).1

/-- the summary the flags select, as bytes: clean -/
theorem summaryOf_clean (s : SummaryArgs) (cur : Record) (prev : Option Record) (smb : List Bytes)
    (h : summaryOf s cur prev = some smb) (hs : CleanSummary (s.text.getD []))
    (hcur : ∀ e ∈ cur.entries, SumOK e.val e.summary)
    (hprev : ∀ p, prev = some p → ∀ e ∈ p.entries, SumOK e.val e.summary)
    (hcr : s.text = none → ∀ l ∈ smb.map decodeGo, l.getLast? ≠ some '\r') : CleanSummary smb := by
  unfold summaryOf at h
  split at h
  · cases h
  · split at h
    · cases h
    · cases ht : s.text with
      | some t =>
        rw [ht] at h hs
        simp only [Option.some.injEq] at h
        subst h
        exact hs
      | none =>
        rw [ht] at h
        have hcr' := hcr ht
        dsimp only at h
        have hentry : ∀ e : Entry, SumOK e.val e.summary → smb = summaryBytes e → CleanSummary smb := by
          intro e hw he
          subst he
          rw [summaryBytes_decode] at hcr'
          exact summaryBytes_clean e hw hcr'
        split at h
        · split at h
          · rename_i e he
            simp only [Option.some.injEq] at h
            rw [findNth_last] at he
            exact hentry e (hcur e (List.mem_of_getLast? he)) h.symm
          · split at h
            · rename_i e he
              simp only [Option.some.injEq] at h
              cases prev with
              | none => simp at he
              | some p =>
                simp only [Option.bind_some] at he
                rw [findNth_last] at he
                exact hentry e (hprev p rfl e (List.mem_of_getLast? he)) h.symm
            · simp only [Option.some.injEq] at h
              subst h
              exact cleanSummary_nil
        · split at h
          · cases hn : findNthEntry cur s.resumeNth with
            | none => rw [hn] at h; cases h
            | some e =>
              rw [hn] at h
              simp only [Option.map_some, Option.some.injEq] at h
              have hmem : e ∈ cur.entries := by
                unfold findNthEntry at hn
                dsimp only at hn
                generalize (if s.resumeNth > 0 then s.resumeNth - 1 else (cur.entries.length : Int) + s.resumeNth) = i at hn
                split at hn
                · cases hn
                · exact List.mem_of_getElem? hn
              exact hentry e (hcur e hmem) h.symm
          · simp only [Option.some.injEq] at h
            subst h
            exact cleanSummary_nil

end KlogV.RefineBLemmas
