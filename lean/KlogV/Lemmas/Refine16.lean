/-
Helper lemmas for C04, part 16: the headline the reconciler writes for a new record, and how it
is read back.
-/
import KlogV.Lemmas.Refine11
import KlogV.Lemmas.RoundtripRecord
namespace KlogV.RefineLemmas

/-! ## the should-total -/

theorem hval_digitsOr_big (n : Nat) (hn : ¬ (n : Int) ≤ maxInt) :
    (if (Dur.digitsOr n).isEmpty then Res.ok 0 else atoi (Dur.digitsOr n)) = Res.panic := by
  have hpos : n > 0 := by
    apply Classical.byContradiction
    intro h
    have : n = 0 := by omega
    subst this
    exact hn (by decide)
  unfold Dur.digitsOr
  have ne := natDigits_ne_nil n
  have : (natDigits n).isEmpty = false := by
    cases hnd : natDigits n with
    | nil => exact absurd hnd ne
    | cons _ _ => rfl
  simp only [hpos, if_true, this, Bool.false_eq_true, if_false, atoi, digitsVal_natDigits, hn]

theorem eval_mins (sign : Int) (sg plus : Bool) (H M : Nat) (d : Dur)
    (e : Dur.eval sign sg plus (Dur.digitsOr H) (Dur.digitsOr M) = .ok d) :
    d.mins = sign * (H : Int) * 60 + sign * (M : Int) := by
  unfold Dur.eval at e
  by_cases hH : (H : Int) ≤ maxInt
  · by_cases hM : (M : Int) ≤ maxInt
    · rw [Dur.hval_digitsOr H hH, Dur.hval_digitsOr M hM] at e
      dsimp only at e
      split at e
      · cases e
      · split at e
        · rename_i hm heq
          obtain ⟨rfl, _⟩ := safeMul_ok _ _ _ heq
          split at e
          · rename_i tot heq2
            obtain ⟨rfl, _⟩ := safeAdd_ok _ _ _ heq2
            simp only [Res.ok.injEq] at e
            rw [← e]
          · cases e
        · cases e
    · rw [Dur.hval_digitsOr H hH, hval_digitsOr_big M hM] at e
      cases e
  · rw [hval_digitsOr_big H hH] at e
    generalize (if (Dur.digitsOr M).isEmpty then Res.ok (0 : Int) else atoi (Dur.digitsOr M)) = rm at e
    cases rm <;> cases e

/-- a should-total that is written and read back has its value (or the text is not read at all) -/
theorem dur_print_parse (s : Int) (d' : Dur) (h : Dur.parse (Dur.print ⟨s, false, 0⟩) = .ok d') : d'.mins = s := by
  by_cases hz : s = 0
  · subst hz
    have : Dur.parse (Dur.print ⟨0, false, 0⟩) = .ok ⟨0, false, 0⟩ := by decide
    rw [this] at h
    simp only [Res.ok.injEq] at h
    rw [← h]
  · rw [Dur.print_nonzero _ hz] at h
    dsimp only at h
    have hpos : s.natAbs / 60 > 0 ∨ s.natAbs % 60 > 0 := by omega
    by_cases hneg : s < 0
    · simp only [hneg, if_true, List.cons_append, List.nil_append] at h
      rw [Dur.parse_minus] at h
      unfold Dur.parseS at h
      rw [Dur.shape_body _ _ hpos] at h
      have := eval_mins _ _ _ _ _ _ h
      rw [this]; omega
    · simp only [hneg, if_false, Bool.false_eq_true, List.nil_append] at h
      obtain ⟨c, r, e, hc⟩ := Dur.body_cons _ _ hpos
      have n1 : c ≠ '-' := isDigit_ne c '-' hc (by decide)
      have n2 : c ≠ '+' := isDigit_ne c '+' hc (by decide)
      have hp := Dur.parse_nosign c r n1 n2
      rw [← e] at hp
      rw [hp] at h
      unfold Dur.parseS at h
      rw [Dur.shape_body _ _ hpos] at h
      have := eval_mins _ _ _ _ _ _ h
      rw [this]; omega

/-- `phRest_should` without the assumption that the duration can be read -/
theorem phRest_should_any (nr : Nat) (total : Int) (x : Date) (d : Dur) :
    phRest nr total x ('(' :: (d.print ++ ['!', ')'])) =
      match Dur.parse d.print with
      | .panic => .panic
      | .err => .ok (some ⟨x, none⟩, [⟨nr, total - (d.print ++ ['!', ')']).length, d.print.length, .malformedShouldTotal⟩])
      | .ok d' => .ok (some ⟨x, some d'.mins⟩, []) := by
  obtain ⟨c, r, e, hc⟩ := Dur.print_head d
  have hr2 : (d.print ++ ['!', ')']).dropWhile isSpTab = d.print ++ ['!', ')'] := by
    rw [e, List.cons_append, List.dropWhile_cons_of_neg (by simp [durChar_not_spTab c hc])]
  have hall : peekUntil (· == ')') (d.print ++ ['!', ')']) = d.print ++ ['!'] := by
    have := peekUntil_run (· == ')') (d.print ++ ['!']) [')'] (by
      intro y hy
      simp only [List.mem_append, List.mem_singleton] at hy
      rcases hy with hy | rfl
      · have := Dur.print_all d y hy
        cases hq : (y == ')') with
        | false => rfl
        | true => rw [beq_iff_eq] at hq; subst hq; exact absurd this (by decide)
      · decide) (Or.inr ⟨')', [], rfl, by decide⟩)
    simpa using this
  have hsh : peekUntil (· == '!') (d.print ++ ['!', ')']) = d.print :=
    peekUntil_run (· == '!') d.print ['!', ')'] (by
      intro y hy
      have := Dur.print_all d y hy
      cases hq : (y == '!') with
      | false => rfl
      | true => rw [beq_iff_eq] at hq; subst hq; exact absurd this (by decide))
      (Or.inr ⟨'!', [')'], rfl, by decide⟩)
  have l1 : ((d.print ++ ['!']).length == (d.print ++ ['!', ')']).length) = false := by simp
  have l2 : ((d.print ++ ['!']).length == 0) = false := by simp
  have l3 : (d.print.length == (d.print ++ ['!', ')']).length) = false := by simp
  unfold phRest
  simp only [hr2, hall, hsh, l1, l2, l3, Bool.false_eq_true, if_false, List.drop_left]
  cases Dur.parse d.print with
  | panic => rfl
  | err => rfl
  | ok d' =>
    have : List.dropWhile isSpTab [')'] = [')'] := by decide
    simp [this]

/-! ## the headline -/

/-- characters of the headline the reconciler writes -/
def hlChars (x : Date) (should : Option Int) : List Char :=
  x.print ++ (match should with
    | some s => [' ', '('] ++ (Dur.print ⟨s, false, 0⟩) ++ ['!', ')']
    | none => [])

def hlOK (c : Char) : Bool := durChar c || c == '/' || c == ' ' || c == '(' || c == '!' || c == ')'

theorem date_print_ok (x : Date) : ∀ c ∈ x.print, hlOK c = true := by
  intro c hc
  have hd : ∀ n, hlOK (digitChar n) = true := fun n => by
    simp [hlOK, digit_durChar _ (isDigit_digitChar n)]
  have hsep : ∀ b : Bool, hlOK (if b = true then '-' else '/') = true := by
    intro b; cases b <;> decide
  unfold Date.print pad4 pad2 at hc
  simp only [List.mem_append, List.mem_cons, List.not_mem_nil, or_false] at hc
  rcases hc with (((((h | h | h | h) | h) | (h | h)) | h) | (h | h))
  · rw [h]; exact hd _
  · rw [h]; exact hd _
  · rw [h]; exact hd _
  · rw [h]; exact hd _
  · rw [h]; exact hsep _
  · rw [h]; exact hd _
  · rw [h]; exact hd _
  · rw [h]; exact hsep _
  · rw [h]; exact hd _
  · rw [h]; exact hd _

theorem hlChars_ok (x : Date) (should : Option Int) : ∀ c ∈ hlChars x should, hlOK c = true := by
  intro c hc
  unfold hlChars at hc
  rcases List.mem_append.mp hc with h | h
  · exact date_print_ok x c h
  · cases should with
    | none => cases h
    | some s =>
      simp only [List.mem_append, List.mem_cons, List.not_mem_nil, or_false] at h
      rcases h with ((rfl | rfl) | h) | (rfl | rfl)
      · decide
      · decide
      · simp [hlOK, Dur.print_all _ c h]
      · decide
      · decide

theorem hlChars_lineOK (x : Date) (should : Option Int) : LineOK (hlChars x should) := by
  constructor
  · intro h
    have := hlChars_ok x should _ h
    exact absurd this (by decide)
  · intro h
    have := hlChars_ok x should _ (List.mem_of_getLast? h)
    exact absurd this (by decide)

theorem hlChars_clean (x : Date) (should : Option Int) : CleanLine (encode (hlChars x should)) := by
  obtain ⟨h1, h2⟩ := hlChars_lineOK x should
  exact ⟨fun h => h1 (LF_mem_encode _ h), fun h => h2 (encode_getLast_CR _ h)⟩

theorem hlChars_not_blank (x : Date) (should : Option Int) : (encode (hlChars x should)).all isBlankByte = false := by
  obtain ⟨tl, e⟩ := Date.print_cons x
  have hm : digitChar (x.y / 1000) ∈ hlChars x should := by
    unfold hlChars; rw [e]; simp
  have hd := isDigit_digitChar (x.y / 1000)
  exact encode_not_blank _ _ hm (isDigit_ne _ ' ' hd (by decide)) (isDigit_ne _ '\t' hd (by decide))

/-- (HEAD) how the written headline is read -/
theorem parseHeadline_hlChars (o : Nat) (x : Date) (hx : x.valid = true) (should : Option Int) (hd : Head)
    (h : parseHeadline o (hlChars x should) = .ok (some hd, [])) :
    hd.date = x ∧ hd.should.getD 0 = should.getD 0 := by
  unfold hlChars at h
  cases should with
  | none =>
    dsimp only at h
    rw [parseHeadline_date o x hx [] (Or.inl rfl)] at h
    simp only [List.dropWhile_nil, phRest_nil, Res.ok.injEq, Prod.mk.injEq, Option.some.injEq, and_true] at h
    rw [← h]
    exact ⟨rfl, rfl⟩
  | some s =>
    dsimp only at h
    rw [parseHeadline_date o x hx _ (Or.inr ⟨' ', _, by simp only [List.cons_append, List.nil_append]; rfl, by decide⟩)] at h
    have hdw : ([' ', '('] ++ (Dur.print ⟨s, false, 0⟩) ++ ['!', ')']).dropWhile isSpTab =
        '(' :: ((Dur.print ⟨s, false, 0⟩) ++ ['!', ')']) := by
      simp only [List.cons_append, List.nil_append]
      rw [List.dropWhile_cons_of_pos (by decide), List.dropWhile_cons_of_neg (by decide)]
    rw [hdw, phRest_should_any] at h
    cases hp : Dur.parse (Dur.print ⟨s, false, 0⟩) with
    | panic => rw [hp] at h; cases h
    | err => rw [hp] at h; simp at h
    | ok d' =>
      rw [hp] at h
      simp only [Res.ok.injEq, Prod.mk.injEq, Option.some.injEq, and_true] at h
      rw [← h]
      exact ⟨rfl, by simp [dur_print_parse s d' hp]⟩

end KlogV.RefineLemmas
