/-
C04b, part 8: the loop of `klog pause` as a fold of `extendPause` steps; `pause --extend`.
-/
import KlogV.Lemmas.RefineB7
namespace KlogV.RefineBLemmas
open KlogV KlogV.RefineLemmas KlogV.EditLemmas KlogV.GrammarLemmas

/-! ## lists -/

/-- the last element satisfying `P` splits a list in one way only -/
theorem split_unique {α} (P : α → Prop) (a a' b b' : List α) (x x' : α)
    (h : a ++ x :: b = a' ++ x' :: b') (hx : P x) (hx' : P x') (hb : ∀ y ∈ b, ¬ P y) (hb' : ∀ y ∈ b', ¬ P y) :
    a = a' ∧ x = x' ∧ b = b' := by
  rcases List.append_eq_append_iff.mp h with ⟨c, h1, h2⟩ | ⟨c, h1, h2⟩
  · cases c with
    | nil =>
      simp only [List.append_nil, List.nil_append] at h1 h2
      simp only [List.cons.injEq] at h2
      exact ⟨h1.symm, h2.1, h2.2⟩
    | cons y c =>
      exfalso
      simp only [List.cons_append, List.cons.injEq] at h2
      exact hb x' (by rw [h2.2]; simp) hx'
  · cases c with
    | nil =>
      simp only [List.append_nil, List.nil_append] at h1 h2
      simp only [List.cons.injEq] at h2
      exact ⟨h1, h2.1.symm, h2.2.symm⟩
    | cons y c =>
      exfalso
      simp only [List.cons_append, List.cons.injEq] at h2
      exact hb' x (by rw [h2.2]; simp) hx

theorem targetIdx_congr_aux (d : Date) (rs rs' : List Record) (h : rs.map (·.date) = rs'.map (·.date)) : ∀ k : Nat,
    ((rs.zipIdx k).find? (fun p => p.1.date.sameDay d)).map (·.2) =
      ((rs'.zipIdx k).find? (fun p => p.1.date.sameDay d)).map (·.2) := by
  induction rs generalizing rs' with
  | nil =>
    intro k
    cases rs' with
    | nil => rfl
    | cons _ _ => simp at h
  | cons r rs ih =>
    intro k
    cases rs' with
    | nil => simp at h
    | cons r' rs' =>
      simp only [List.map_cons, List.cons.injEq] at h
      simp only [List.zipIdx_cons, List.find?_cons, h.1]
      cases r'.date.sameDay d with
      | true => rfl
      | false => exact ih rs' h.2 (k + 1)

theorem targetIdx_congr (d : Date) (rs rs' : List Record) (h : rs.map (·.date) = rs'.map (·.date)) :
    Spec.targetIdx rs d = Spec.targetIdx rs' d := targetIdx_congr_aux d rs rs' h 0

theorem pauseTarget_congr (today : Date) (rs rs' : List Record) (h : rs.map (·.date) = rs'.map (·.date)) (i : Nat)
    (hT : PauseTarget rs today i) : PauseTarget rs' today i := by
  unfold PauseTarget at hT ⊢
  rcases hT with h1 | ⟨h1, y, h2, h3⟩
  · left; rw [← targetIdx_congr today rs rs' h]; exact h1
  · right
    exact ⟨by rw [← targetIdx_congr today rs rs' h]; exact h1, y, h2, by rw [← targetIdx_congr y rs rs' h]; exact h3⟩

theorem pauseTarget_fun (today : Date) (rs : List Record) (i j : Nat) (h1 : PauseTarget rs today i)
    (h2 : PauseTarget rs today j) : i = j := by
  unfold PauseTarget at h1 h2
  rcases h1 with a | ⟨a, y, b, c⟩ <;> rcases h2 with a' | ⟨a', y', b', c'⟩
  · rw [a] at a'; exact Option.some.inj a'
  · rw [a] at a'; cases a'
  · rw [a'] at a; cases a
  · rw [b] at b'; cases b'; rw [c] at c'; exact Option.some.inj c'

theorem replace_dates (rs : List Record) (i : Nat) (r r' : Record) (hr : rs[i]? = some r) (hd : r'.date = r.date) :
    (rs.take i ++ [r'] ++ rs.drop (i + 1)).map (·.date) = rs.map (·.date) := by
  obtain ⟨s1, _⟩ := list_split_at rs i r hr
  conv => rhs; rw [s1]
  simp [hd]

theorem replace_get (rs : List Record) (i : Nat) (r' : Record) (hi : i < rs.length) :
    (rs.take i ++ [r'] ++ rs.drop (i + 1))[i]? = some r' ∧
    (rs.take i ++ [r'] ++ rs.drop (i + 1)).take i = rs.take i ∧
    (rs.take i ++ [r'] ++ rs.drop (i + 1)).drop (i + 1) = rs.drop (i + 1) ∧
    (rs.take i ++ [r'] ++ rs.drop (i + 1)).length = rs.length := by
  have hl : (rs.take i).length = i := by rw [List.length_take]; omega
  refine ⟨?_, ?_, ?_, ?_⟩
  · rw [List.append_assoc, List.getElem?_append_right (by omega), hl]
    simp
  · rw [List.append_assoc, List.take_append_of_le_length (by omega), List.take_of_length_le (by omega)]
  · have : rs.take i ++ [r'] ++ rs.drop (i + 1) = (rs.take i ++ [r']) ++ rs.drop (i + 1) := rfl
    rw [this, List.drop_append_of_le_length (by simp [hl])]
    have : (rs.take i ++ [r']).drop (i + 1) = [] := by
      apply List.drop_of_length_le
      simp [hl]
    rw [this]; rfl
  · simp only [List.length_append, hl, List.length_cons, List.length_nil, List.length_drop]
    omega

/-! ## composing pause steps -/

def IsPause (e : Entry) : Prop := match e.val with | .dur y => y.mins ≤ 0 | _ => False

theorem post_not_pause (post : List Entry) (h : ∀ p ∈ post, match p.val with | .dur y => y.mins > 0 | _ => True) :
    ∀ p ∈ post, ¬ IsPause p := by
  intro p hp hP
  have := h p hp
  unfold IsPause at hP
  cases hv : p.val with
  | dur y => rw [hv] at this hP; dsimp only at this hP; omega
  | range _ _ _ => rw [hv] at hP; exact hP
  | openRange _ _ _ => rw [hv] at hP; exact hP

theorem sameEntry_dur_inv (e' : Entry) (m : Int) (sm : List (List Char))
    (h : Spec.SameEntry e' ⟨.dur ⟨m, false, 0⟩, sm⟩) : ∃ d, e' = ⟨.dur d, sm⟩ ∧ d.mins = m := by
  obtain ⟨val, s⟩ := e'
  obtain ⟨h1, h2⟩ := h
  simp only at h1 h2
  subst h2
  cases val with
  | dur d => exact ⟨d, rfl, h1⟩
  | range _ _ _ => exact absurd h1 (by simp [Spec.SameValue])
  | openRange _ _ _ => exact absurd h1 (by simp [Spec.SameValue])

/-- two `PauseExtend` steps on the same record are one -/
theorem pauseExtend_comp (rs0 rs rs' : List Record) (i : Nat) (a b : Int) (ha : 0 ≤ a)
    (h1 : Spec.PauseExtend rs0 i a rs) (h2 : Spec.PauseExtend rs i b rs') : Spec.PauseExtend rs0 i (a + b) rs' := by
  obtain ⟨r0, pre, post, d, sm, e', g1, g2, g3, g4, g5, g6, g7, g8⟩ := h1
  obtain ⟨r1, pre1, post1, d1, sm1, e'', k1, k2, k3, k4, k5, k6, k7, k8⟩ := h2
  obtain ⟨q1, q2, q3, q4⟩ := replace_get rs0 i { r0 with entries := pre ++ e' :: post } g7
  rw [g8, q1] at k1
  cases k1
  dsimp only at k3
  obtain ⟨d', rfl, hd'⟩ := sameEntry_dur_inv e' _ sm g6
  obtain ⟨u1, u2, u3⟩ := split_unique IsPause pre pre1 post post1 ⟨.dur d', sm⟩ ⟨.dur d1, sm1⟩ k3
    (by show d'.mins ≤ 0; omega) (by show d1.mins ≤ 0; exact k4) (post_not_pause post g5) (post_not_pause post1 k5)
  subst u1 u3
  simp only [Entry.mk.injEq, EntryVal.dur.injEq] at u2
  obtain ⟨rfl, rfl⟩ := u2
  refine ⟨r0, pre, post, d, sm, e'', g1, g2, g3, g4, g5, ?_, g7, ?_⟩
  · obtain ⟨v1, v2⟩ := k6
    refine ⟨?_, v2⟩
    cases hv : e''.val with
    | dur y =>
      rw [hv] at v1
      simp only [Spec.SameValue] at v1 ⊢
      omega
    | range _ _ _ => rw [hv] at v1; exact absurd v1 (by simp [Spec.SameValue])
    | openRange _ _ _ => rw [hv] at v1; exact absurd v1 (by simp [Spec.SameValue])
  · rw [k8, g8, q2, q3]

/-- a `PauseAppend` and a `PauseExtend` step are one `PauseAppend` -/
theorem pauseAppend_comp (rs0 rs rs' : List Record) (i : Nat) (a b : Int) (sm : List (List Char)) (ha : 0 ≤ a)
    (h1 : Spec.PauseAppend rs0 i a sm rs) (h2 : Spec.PauseExtend rs i b rs') : Spec.PauseAppend rs0 i (a + b) sm rs' := by
  obtain ⟨r0, e', g1, g2, g6, g7, g8⟩ := h1
  obtain ⟨r1, pre1, post1, d1, sm1, e'', k1, k2, k3, k4, k5, k6, k7, k8⟩ := h2
  obtain ⟨q1, q2, q3, q4⟩ := replace_get rs0 i { r0 with entries := r0.entries ++ [e'] } g7
  rw [g8, q1] at k1
  cases k1
  dsimp only at k3
  obtain ⟨d', rfl, hd'⟩ := sameEntry_dur_inv e' _ sm g6
  obtain ⟨u1, u2, u3⟩ := split_unique IsPause r0.entries pre1 [] post1 ⟨.dur d', sm⟩ ⟨.dur d1, sm1⟩ k3
    (by show d'.mins ≤ 0; omega) (by show d1.mins ≤ 0; exact k4) (by simp) (post_not_pause post1 k5)
  subst u1 u3
  simp only [Entry.mk.injEq, EntryVal.dur.injEq] at u2
  obtain ⟨rfl, rfl⟩ := u2
  refine ⟨r0, e'', g1, g2, ?_, g7, ?_⟩
  · obtain ⟨v1, v2⟩ := k6
    refine ⟨?_, v2⟩
    cases hv : e''.val with
    | dur y =>
      rw [hv] at v1
      simp only [Spec.SameValue] at v1 ⊢
      omega
    | range _ _ _ => rw [hv] at v1; exact absurd v1 (by simp [Spec.SameValue])
    | openRange _ _ _ => rw [hv] at v1; exact absurd v1 (by simp [Spec.SameValue])
  · rw [k8, g8, q2, q3]

theorem pauseExtend_dates (rs rs' : List Record) (i : Nat) (a : Int) (h : Spec.PauseExtend rs i a rs') :
    rs'.map (·.date) = rs.map (·.date) := by
  obtain ⟨r0, pre, post, d, sm, e', g1, _, _, _, _, _, _, g8⟩ := h
  rw [g8]
  exact replace_dates rs i r0 _ g1 rfl

theorem pauseAppend_dates (rs rs' : List Record) (i : Nat) (a : Int) (sm : List (List Char))
    (h : Spec.PauseAppend rs i a sm rs') : rs'.map (·.date) = rs.map (·.date) := by
  obtain ⟨r0, e', g1, _, _, _, g8⟩ := h
  rw [g8]
  exact replace_dates rs i r0 _ g1 rfl

/-! ## the fold -/

/-- the fold of `extendPause` steps, for any relation `R a rs` ("`a` minutes captured so far") that
is preserved by `PauseExtend` steps and does not change dates -/
theorem pauseFold_gen (today yesterday : Date) (hy : today.plusDays (-1) = some yesterday)
    (rs0 : List Record) (i : Nat) (hT : PauseTarget rs0 today i) (R : Int → List Record → Prop)
    (hdates : ∀ a rs, R a rs → rs.map (·.date) = rs0.map (·.date))
    (hcomp : ∀ a b rs rs', 0 ≤ a → R a rs → Spec.PauseExtend rs i b rs' → R (a + b) rs')
    (incs : List Int) : ∀ (a : Int) (file file' : Bytes) (rs : List Record) (bos : List BlockOut),
    parseDoc file = .records rs bos → file.getLast? ≠ some 13 → 0 ≤ a → R a rs → (∀ x ∈ incs, 0 < x) →
    pauseFold today yesterday incs file = .ok file' →
    ∃ rs' bos', parseDoc file' = .records rs' bos' ∧ R (a + incs.sum) rs' := by
  induction incs with
  | nil =>
    intro a file file' rs bos hp _ _ hR _ h
    simp only [pauseFold, CmdOut.ok.injEq] at h
    subst h
    exact ⟨rs, bos, hp, by simpa using hR⟩
  | cons x incs ih =>
    intro a file file' rs bos hp hcr ha hR hpos h
    unfold pauseFold at h
    split at h
    · rename_i f1 hf1
      have hx := hpos x (by simp)
      obtain ⟨hcr1, rs1, bos1, j, hp1, hTj, hext⟩ := extend_step today yesterday hy (-x) (by omega) file f1 rs bos hp hcr hf1
      rw [Int.neg_neg] at hext
      have hTi : PauseTarget rs today i := pauseTarget_congr today rs0 rs (hdates a rs hR).symm i hT
      have hji : j = i := pauseTarget_fun today rs j i hTj hTi
      subst hji
      have hR1 := hcomp a x rs rs1 ha hR hext
      obtain ⟨rs', bos', hp', hR'⟩ := ih (a + x) f1 file' rs1 bos1 hp1 hcr1 (by omega) hR1
        (fun y hy => hpos y (by simp [hy])) h
      refine ⟨rs', bos', hp', ?_⟩
      rw [List.sum_cons, ← Int.add_assoc]
      exact hR'
    · cases h
    · cases h

/-! ## `pause --extend` -/

theorem runCmd_pause_eq (u : UTab) (cfg : Config) (now : Instant) (summary : Option (List Bytes)) (noTags extend : Bool)
    (ticks : List Int) (file file' : Bytes) (hs : extend = true → summary = none)
    (h : runCmd u cfg now (.pause summary noTags extend ticks) file = .ok file') :
    ∃ yesterday f1, now.date.plusDays (-1) = some yesterday ∧
      (reconcileFile file
        (fun rs bos => firstCreator [reconcilerAtRecord now.date rs bos, reconcilerAtRecord yesterday rs bos])
        [fun r => if extend then r.extendPause 0 else optRes (r.appendPause u (summary.getD []) (!noTags))]).1 = .ok f1 ∧
      pauseFold now.date yesterday (pauseIncrements ticks 0) f1 = .ok file' := by
  unfold runCmd at h
  have hcond : (extend && summary.isSome) = false := by
    cases extend with
    | false => rfl
    | true => rw [hs rfl]; rfl
  simp only [hcond, Bool.false_eq_true, if_false] at h
  cases hy : now.date.plusDays (-1) with
  | none => rw [hy] at h; cases h
  | some yesterday =>
    rw [hy] at h
    dsimp only at h
    split at h
    · rename_i f1 hf1
      rw [pauseLoop_eq_fold] at h
      exact ⟨yesterday, f1, rfl, hf1, h⟩
    · rename_i o hno
      exfalso
      exact hno file' h

theorem pause_extend_core (u : UTab) (cfg : Config) (now : Instant) (noTags : Bool) (ticks : List Int)
    (file file' : Bytes) (rs : List Record) (bos : List BlockOut)
    (hp : parseDoc file = .records rs bos) (hcr : file.getLast? ≠ some 13)
    (h : runCmd u cfg now (.pause none noTags true ticks) file = .ok file') :
    ∃ rs' bos' i, parseDoc file' = .records rs' bos' ∧ PauseTarget rs now.date i ∧
      Spec.PauseExtend rs i (Spec.captured ticks) rs' := by
  obtain ⟨yesterday, f1, hy, hf1, hfold⟩ := runCmd_pause_eq u cfg now none noTags true ticks file file' (fun _ => rfl) h
  simp only [if_true] at hf1
  obtain ⟨hcr1, rs1, bos1, i, hp1, hT, hext⟩ := extend_step now.date yesterday hy 0 (Int.le_refl 0) file f1 rs bos hp hcr hf1
  simp only [Int.neg_zero] at hext
  obtain ⟨hsum, hpos⟩ := pauseIncrements_spec ticks
  obtain ⟨rs', bos', hp', hR⟩ := pauseFold_gen now.date yesterday hy rs i hT (fun a rs' => Spec.PauseExtend rs i a rs')
    (fun a rs' hR => pauseExtend_dates rs rs' i a hR)
    (fun a b rs1 rs2 ha hR hE => pauseExtend_comp rs rs1 rs2 i a b ha hR hE)
    (pauseIncrements ticks 0) 0 f1 file' rs1 bos1 hp1 hcr1 (Int.le_refl 0) hext hpos hfold
  refine ⟨rs', bos', i, hp', hT, ?_⟩
  rw [← hsum]
  simpa using hR

end KlogV.RefineBLemmas
