/- Helper lemmas for KlogV/Props/GoPar.lean (the translated chunking computes the model's chunks). Core Lean only. -/
import KlogV.Gen.GoPar
import KlogV.Model.Parallel
import KlogV.GoSem.AbsBase
import KlogV.Lemmas.GoPar2
namespace KlogV.GoL
open KlogV.Go

theorem splitIntoChunks_eq (t : Bytes) (n fuel : Nat) (hn : 1 ≤ n) (hn2 : n < 9007199254740992)
    (hlen : t.length < 9007199254740992) (hf : t.length < fuel) :
    GoPar.splitIntoChunks fuel t (n : Int) = .ok (splitIntoChunks t n) := by
  exact Par.split_eq t n fuel hn hn2 hlen hf

end KlogV.GoL
