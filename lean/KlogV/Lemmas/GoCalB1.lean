/- Spec lemmas for the translated date code (klog/date.go), used by GoCalB.lean. Core Lean only. -/
import KlogV.GoSem.AbsCal
import KlogV.Lemmas.Calendar3
set_option linter.unusedSimpArgs false
namespace KlogV.GoL.B
open KlogV.Go

/-! ### `dashes` is carried along by the day stepping -/

def setD (b : Bool) (x : Date) : Date := { x with dashes := b }

theorem setD_self (x : Date) : setD x.dashes x = x := rfl
theorem setD_setD (a b : Bool) (x : Date) : setD a (setD b x) = setD a x := rfl
theorem setD_dashes (b : Bool) (x : Date) : (setD b x).dashes = b := rfl
theorem setD_y (b : Bool) (x : Date) : (setD b x).y = x.y := rfl
theorem setD_m (b : Bool) (x : Date) : (setD b x).m = x.m := rfl
theorem setD_d (b : Bool) (x : Date) : (setD b x).d = x.d := rfl

theorem nextDay_setD (b : Bool) (x : Date) : nextDay (setD b x) = setD b (nextDay x) := by
  unfold nextDay setD
  simp only
  split
  · rfl
  · split <;> rfl

theorem prevDay_setD (b : Bool) (x : Date) : prevDay (setD b x) = setD b (prevDay x) := by
  unfold prevDay setD
  simp only
  split
  · rfl
  · split <;> rfl

theorem isLastDay_setD (b : Bool) (x : Date) : isLastDay (setD b x) = isLastDay x := rfl
theorem isFirstDay_setD (b : Bool) (x : Date) : isFirstDay (setD b x) = isFirstDay x := rfl

theorem plusDaysFwd_setD (b : Bool) (n : Nat) (x : Date) :
    plusDaysFwd n (setD b x) = (plusDaysFwd n x).map (setD b) := by
  induction n generalizing x with
  | zero => rfl
  | succ n ih =>
    unfold plusDaysFwd
    rw [isLastDay_setD, nextDay_setD, ih]
    split <;> rfl

theorem plusDaysBwd_setD (b : Bool) (n : Nat) (x : Date) :
    plusDaysBwd n (setD b x) = (plusDaysBwd n x).map (setD b) := by
  induction n generalizing x with
  | zero => rfl
  | succ n ih =>
    unfold plusDaysBwd
    rw [isFirstDay_setD, prevDay_setD, ih]
    split <;> rfl

theorem plusDays_setD (b : Bool) (n : Int) (x : Date) :
    (setD b x).plusDays n = (x.plusDays n).map (setD b) := by
  unfold Date.plusDays
  split
  · exact plusDaysFwd_setD b _ x
  · exact plusDaysBwd_setD b _ x

theorem plusDays_dashes (x r : Date) (n : Int) (h : x.plusDays n = some r) : r.dashes = x.dashes := by
  have := plusDays_setD x.dashes n x
  rw [setD_self, h] at this
  simp only [Option.map_some, Option.some.injEq] at this
  rw [this]; rfl

/-! ### arithmetic of the library semantics -/

theorem isLeapInt_cast (y : Nat) : isLeapInt (y : Int) = isLeap y := by
  unfold isLeapInt isLeap
  have e1 : (((y : Int) % 4 == 0) = (y % 4 == 0)) := by
    rw [Bool.eq_iff_iff]; simp only [beq_iff_eq]; omega
  have e2 : (((y : Int) % 100 != 0) = (y % 100 != 0)) := by
    rw [Bool.eq_iff_iff]; simp only [bne_iff_ne, ne_eq]; omega
  have e3 : (((y : Int) % 400 == 0) = (y % 400 == 0)) := by
    rw [Bool.eq_iff_iff]; simp only [beq_iff_eq]; omega
  rw [e1, e2, e3]

theorem daysInInt_cast (y m : Nat) : daysInInt (y : Int) (m : Int) = (daysIn y m : Int) := by
  unfold daysInInt daysIn
  rw [isLeapInt_cast]
  have e2 : (((m : Int) == 2) = (m == 2)) := by rw [Bool.eq_iff_iff]; simp only [beq_iff_eq]; omega
  have e4 : (((m : Int) == 4) = (m == 4)) := by rw [Bool.eq_iff_iff]; simp only [beq_iff_eq]; omega
  have e6 : (((m : Int) == 6) = (m == 6)) := by rw [Bool.eq_iff_iff]; simp only [beq_iff_eq]; omega
  have e9 : (((m : Int) == 9) = (m == 9)) := by rw [Bool.eq_iff_iff]; simp only [beq_iff_eq]; omega
  have e11 : (((m : Int) == 11) = (m == 11)) := by rw [Bool.eq_iff_iff]; simp only [beq_iff_eq]; omega
  rw [e2, e4, e6, e9, e11]
  split
  · split <;> rfl
  · split <;> rfl

theorem toModel_cast (x : Date) : (⟨(x.y : Int), (x.m : Int), (x.d : Int)⟩ : CivilDate).toModel = setD true x := by
  simp [CivilDate.toModel, setD]

/-- `civil2Date` on the components of a valid date -/
theorem civil2Date_valid (x : Date) (f : GoCal.DateFormat) (h : x.valid = true) :
    GoCal.civil2Date ⟨(x.y : Int), (x.m : Int), (x.d : Int)⟩ f = .ok ⟨x.y, x.m, x.d, f⟩ := by
  have hv := (valid_iff x).1 h
  have c1 : decide (1 ≤ (x.m : Int) ∧ (x.m : Int) ≤ 12 ∧ 1 ≤ (x.d : Int) ∧ (x.d : Int) ≤ daysInInt x.y x.m) = true := by
    rw [daysInInt_cast, decide_eq_true_eq]; omega
  have c2 : (lt (x.y : Int) 0 || gt (x.y : Int) 9999) = false := by
    simp only [lt, gt, Bool.or_eq_false_iff, decide_eq_false_iff_not]; omega
  simp only [GoCal.civil2Date, CivilDate.IsValid, c1, c2, bind, Except.bind, pure, Except.pure, toInt, GToInt.toInt]
  simp

theorem civil2Date_invalid (y m d : Nat) (f : GoCal.DateFormat) (h : (⟨y, m, d, true⟩ : Date).valid = false) :
    ∃ msg, GoCal.civil2Date ⟨(y : Int), (m : Int), (d : Int)⟩ f = .error (.err msg) := by
  by_cases c1 : (1 ≤ (m : Int) ∧ (m : Int) ≤ 12 ∧ 1 ≤ (d : Int) ∧ (d : Int) ≤ daysInInt y m)
  · have c2 : (lt (y : Int) 0 || gt (y : Int) 9999) = true := by
      rw [daysInInt_cast] at c1
      have : ¬ ((⟨y, m, d, true⟩ : Date).valid = true) := by rw [h]; simp
      rw [valid_iff] at this
      simp only [lt, gt, Bool.or_eq_true, decide_eq_true_eq]
      simp only at this
      omega
    refine ⟨"UNREPRESENTABLE_DATE", ?_⟩
    have c1' := decide_eq_true c1
    simp only [GoCal.civil2Date, CivilDate.IsValid, c1', c2, bind, Except.bind, pure, Except.pure, throw, throwThe, MonadExceptOf.throw]
    simp
  · refine ⟨"UNREPRESENTABLE_DATE", ?_⟩
    have c1' := decide_eq_false c1
    simp only [GoCal.civil2Date, CivilDate.IsValid, c1', bind, Except.bind, pure, Except.pure, throw, throwThe, MonadExceptOf.throw]
    simp

theorem civil2Date_outside (y : Int) (f : GoCal.DateFormat) (h : y < 0 ∨ y > 9999) :
    ∃ msg, GoCal.civil2Date ⟨y, 1, 1⟩ f = .error (.err msg) := by
  have c1 : decide ((1 : Int) ≤ 1 ∧ (1 : Int) ≤ 12 ∧ (1 : Int) ≤ 1 ∧ (1 : Int) ≤ daysInInt y 1) = true := by
    have : daysInInt y 1 = 31 := by simp [daysInInt]
    rw [this]; decide
  have c2 : (lt y 0 || gt y 9999) = true := by
    simp only [lt, gt, Bool.or_eq_true, decide_eq_true_eq]; omega
  refine ⟨"UNREPRESENTABLE_DATE", ?_⟩
  simp only [GoCal.civil2Date, CivilDate.IsValid, c1, c2, bind, Except.bind, pure, Except.pure, throw, throwThe, MonadExceptOf.throw]
  simp

/-! ### `NewDate` -/

theorem newDate_ok (y m d : Nat) (h : (⟨y, m, d, true⟩ : Date).valid = true) :
    GoCal.NewDate y m d = .ok (⟨y, m, d, true⟩ : Date).toGo := by
  have := civil2Date_valid ⟨y, m, d, true⟩ ⟨true⟩ h
  simp only at this
  simp only [GoCal.NewDate, GoCal.DefaultDateFormat, bind, Except.bind, pure, Except.pure, this, Date.toGo]

theorem newDate_neg (y : Int) (h : y < 0) : ∃ msg, GoCal.NewDate y 1 1 = .error (.err msg) := by
  obtain ⟨msg, e⟩ := civil2Date_outside y ⟨true⟩ (Or.inl h)
  refine ⟨msg, ?_⟩
  simp only [GoCal.NewDate, GoCal.DefaultDateFormat, bind, Except.bind, pure, Except.pure, e]

/-! ### accessors -/

theorem date_year_eq (x : Date) : x.toGo.Year = .ok (x.y : Int) := rfl
theorem date_month_eq (x : Date) : x.toGo.Month = .ok (x.m : Int) := rfl
theorem date_day_eq (x : Date) : x.toGo.Day = .ok (x.d : Int) := rfl

theorem dayNumber_setD (b : Bool) (x : Date) : dayNumber (setD b x) = dayNumber x := rfl
theorem weekday_setD (b : Bool) (x : Date) : (setD b x).weekday = x.weekday := rfl

theorem date_weekday_eq' (x : Date) : x.toGo.Weekday = .ok (x.weekday : Int) := by
  have hw := weekday_bounds x
  have tm := toModel_cast x
  by_cases h7 : x.weekday = 7
  · simp [GoCal.date.Weekday, GoCal.date2Civil, CivilDate.In, GoTime.Weekday, Date.toGo, tm, weekday_setD, h7,
      bind, Except.bind, pure, Except.pure, toInt, GToInt.toInt]
  · have : ((x.weekday : Int) == 0) = false := by
      rw [beq_eq_false_iff_ne]; omega
    simp [GoCal.date.Weekday, GoCal.date2Civil, CivilDate.In, GoTime.Weekday, Date.toGo, tm, weekday_setD, h7, this,
      bind, Except.bind, pure, Except.pure, toInt, GToInt.toInt]

theorem date_quarter_eq' (x : Date) (h : x.valid = true) : x.toGo.Quarter = .ok (x.quarter : Int) := by
  have hv := (valid_iff x).1 h
  simp only [GoCal.date.Quarter, GoCal.date.Month, Date.toGo, bind, Except.bind, pure, Except.pure, mathCeil, fdiv, f64OfInt,
    intOfF64, Date.quarter]
  congr 1
  rw [Int.tdiv_one]
  omega

/-! ### `PlusDays` -/

theorem date_plusDays_eq' (x : Date) (n : Int) (h : x.valid = true) :
    x.toGo.PlusDays n = match x.plusDays n with | some r => .ok r.toGo | none => .error .panic := by
  have hv := (valid_iff x).1 h
  have tm := toModel_cast x
  have hy : (0 ≤ (x.y : Int) ∧ (x.y : Int) ≤ 9999) := by omega
  cases hp : x.plusDays n with
  | some r =>
    have hr := plusDays_some x r n h hp
    have hd := plusDays_dashes x r n hp
    have e : (setD true x).plusDays n = some (setD true r) := by rw [plusDays_setD, hp]; rfl
    have c := civil2Date_valid r ⟨x.dashes⟩ hr.1
    simp only [GoCal.date.PlusDays, GoCal.date2Civil, CivilDate.AddDays, Date.toGo, tm, hy, e, CivilDate.ofModel, setD_y, setD_m, setD_d,
      c, try2, and_self, if_true, bind, Except.bind, pure, Except.pure, isNil, GNil.isNil, hd]
    simp
  | none =>
    have e : (setD true x).plusDays n = none := by rw [plusDays_setD, hp]; rfl
    obtain ⟨msg, c⟩ := civil2Date_outside (if n < 0 then -1 else 10000) ⟨x.dashes⟩ (by split <;> omega)
    simp only [GoCal.date.PlusDays, GoCal.date2Civil, CivilDate.AddDays, Date.toGo, tm, hy, e,
      c, try2, and_self, if_true, bind, Except.bind, pure, Except.pure, isNil, GNil.isNil]
    simp [throw, throwThe, MonadExceptOf.throw]

end KlogV.GoL.B
