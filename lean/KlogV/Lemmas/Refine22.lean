/-
C04, part 22: histories of `create` / `track` commands.
-/
import KlogV.Lemmas.Refine21
namespace KlogV

/-- the commands the history theorem covers, with the conditions under which `track` writes an
entry at all: at least one line, no line consisting of blanks only -/
def HistCmd : Cmd → Prop
  | .create _ _ _ => True
  | .track _ entry => entry ≠ [] ∧ ∀ l ∈ entry, l.all isBlankByte = false
  | _ => False

namespace RefineLemmas

theorem history_gen (u : UTab) (cfg : Config) (hist : List (Instant × Cmd)) : ∀ (file file' : Bytes)
    (rs : List Record) (bos : List BlockOut), parseDoc file = .records rs bos →
    (∀ p ∈ hist, CleanCmd p.2 ∧ HistCmd p.2 ∧
      (∃ d, atDate (match p.2 with | .create s _ _ => s | .track s _ => s | _ => .default) p.1.date = some d ∧ d.valid = true)) →
    file.getLast? ≠ some 13 →
    runCmdHistory u cfg hist file = some file' →
    ∃ states : List (List Record), states.length = hist.length + 1 ∧ states.head? = some rs ∧
      (∃ bos', parseDoc file' = .records (states.getLast?.getD []) bos') ∧
      ∀ k (hk : k < hist.length), AbstractStep u cfg (hist[k]).1 (hist[k]).2 (states[k]?.getD []) (states[k + 1]?.getD []) := by
  induction hist with
  | nil =>
    intro file file' rs bos hp _ _ h
    simp only [runCmdHistory, Option.some.injEq] at h
    subst h
    exact ⟨[rs], rfl, rfl, ⟨bos, by simpa using hp⟩, fun k hk => by simp at hk⟩
  | cons p rest ih =>
    intro file file' rs bos hp hc hcr h
    obtain ⟨now, c⟩ := p
    obtain ⟨hclean, hcmd, d, hd, hv⟩ := hc (now, c) (by simp)
    simp only [runCmdHistory] at h
    cases hrun : runCmd u cfg now c file with
    | fail => rw [hrun] at h; simp at h
    | panic => rw [hrun] at h; simp at h
    | ok f1 =>
      rw [hrun] at h
      simp only at h
      have step : f1.getLast? ≠ some 13 ∧ ∃ rs1 bos1, parseDoc f1 = .records rs1 bos1 ∧ AbstractStep u cfg now c rs rs1 := by
        cases c with
        | create sel should summary =>
          obtain ⟨t1, rs1, bos1, t2, t3⟩ := RefineLemmas.create_refines_strong u cfg now sel should summary file f1 rs bos d
            hp hd hclean hv hcr _ rfl hrun
          exact ⟨t1, rs1, bos1, t2, d, hd, t3⟩
        | track sel entry =>
          obtain ⟨t1, rs1, bos1, ind, e, t2, t3, t4, t5⟩ := RefineLemmas.track_refines_strong u cfg now sel entry file f1 rs bos d
            hp hd hclean hcmd.1 hcmd.2 (fun _ => hv) hcr hrun
          exact ⟨t1, rs1, bos1, t2, d, ind, e, hd, t3, t4, t5⟩
        | start a s => exact absurd hcmd (by simp [HistCmd])
        | stop a s => exact absurd hcmd (by simp [HistCmd])
        | switch a s => exact absurd hcmd (by simp [HistCmd])
        | pause a b c d => exact absurd hcmd (by simp [HistCmd])
      obtain ⟨hcr1, rs1, bos1, hp1, hstep⟩ := step
      obtain ⟨states, s1, s2, s3, s4⟩ := ih f1 file' rs1 bos1 hp1 (fun q hq => hc q (by simp [hq])) hcr1 h
      have hne : states ≠ [] := by intro h0; rw [h0] at s1; simp at s1
      refine ⟨rs :: states, by simp [s1], rfl, ?_, ?_⟩
      · obtain ⟨bos', hb⟩ := s3
        refine ⟨bos', ?_⟩
        obtain ⟨s0, tl, rfl⟩ := List.exists_cons_of_ne_nil hne
        rw [List.getLast?_cons_cons]
        exact hb
      · intro k hk
        cases k with
        | zero =>
          simp only [List.getElem_cons_zero, List.getElem?_cons_zero, Option.getD_some, Nat.zero_add,
            List.getElem?_cons_succ]
          have : states[0]? = some rs1 := by
            rw [← s2]; cases states <;> rfl
          rw [this]
          exact hstep
        | succ k =>
          simp only [List.getElem_cons_succ, List.getElem?_cons_succ]
          exact s4 k (by simpa using hk)

end RefineLemmas
end KlogV
