/-
C04, part 20: `track`.
-/
import KlogV.Lemmas.Refine19
namespace KlogV.RefineLemmas
open KlogV.EditLemmas

theorem sameValue_refl (v : EntryVal) : Spec.SameValue v v := by
  cases v <;> simp [Spec.SameValue]

theorem sameEntry_refl (e : Entry) : Spec.SameEntry e e := ⟨sameValue_refl _, rfl⟩

/-- the text of the entry as `appendEntry` accepts it -/
theorem appendEntry_first (r r' : Reconciler) (entry : List Bytes) (h : r.appendEntry entry = some r')
    (hne : entry ≠ []) (hnb : ∀ l ∈ entry, l.all isBlankByte = false) :
    ∃ b0 tl rest, entry = (b0 :: tl) :: rest ∧ isBlankByte b0 = false := by
  obtain ⟨first, rest, rfl⟩ := List.exists_cons_of_ne_nil hne
  have hf := hnb first (by simp)
  cases first with
  | nil => simp at hf
  | cons b0 tl =>
    refine ⟨b0, tl, rest, rfl, ?_⟩
    unfold Reconciler.appendEntry at h
    simp only at h
    split at h
    · cases h
    · rename_i hb
      simpa [isBlankByte] using hb

theorem ins_ins_nil (st : Style) (L : List Line) (idx : Nat) (A0 new : List Line) (hidx : idx ≤ L.length)
    (hA : A0 ≠ []) (hend : ∀ l, A0.getLast? = some l → l.ending ≠ .none) :
    ins st (ins st L idx A0) (idx + A0.length) new = ins st L idx (A0 ++ new) := by
  have := ins_ins st L idx A0 [] new hidx hA hend
  simpa using this

/-- the lines after `track` created a new record -/
theorem track_new_lines (file : Bytes) (rs : List Record) (bos : List BlockOut)
    (hp : parseDoc file = .records rs bos) (d : Date) (fmt : Reformat Bool) (sh : Option Int) (NEW : List Line) :
    NewRecordLines d rs bos (elect {} rs (bos.map (·.lines)))
      (⟨encode (hlChars (writtenDate d fmt (elect {} rs (bos.map (·.lines)))) sh),
          (elect {} rs (bos.map (·.lines))).lineEnding.1⟩ :: NEW)
      (ins (elect {} rs (bos.map (·.lines))) (reconcilerForNewRecord d fmt { should := sh } rs bos).lines
        (reconcilerForNewRecord d fmt { should := sh } rs bos).lastLine NEW) := by
  obtain ⟨p1, p2, p3, p4⟩ := parseDoc_records file rs bos hp
  have hl := reconcilerForNewRecord_lines d fmt { should := sh } rs bos (by intro s hs; simp at hs)
  dsimp only at hl
  obtain ⟨_, hlines⟩ := hl
  generalize hst : elect {} rs (bos.map (·.lines)) = st at hlines ⊢
  have G : GoodStyle st := by rw [← hst]; exact goodStyle_new rs _
  generalize hx : writtenDate d fmt st = x at hlines ⊢
  generalize hR : reconcilerForNewRecord d fmt { should := sh } rs bos = R at hlines ⊢
  have hrec : recordLinesOf st x sh ((none : Option (List Bytes)).getD []) = [⟨encode (hlChars x sh), st.lineEnding.1⟩] := rfl
  have hrec' : recordLinesOf st x sh (({ should := sh } : AdditionalData).summary.getD []) =
      [⟨encode (hlChars x sh), st.lineEnding.1⟩] := rfl
  rw [hrec'] at hlines
  have hend : ∀ (pre : List Line) (l : Line),
      (pre ++ [(⟨encode (hlChars x sh), st.lineEnding.1⟩ : Line)]).getLast? = some l → l.ending ≠ .none := by
    intro pre l hl
    simp only [List.getLast?_append, List.getLast?_singleton, Option.some_or, Option.some.injEq] at hl
    rw [← hl]; exact G.ending
  rcases hlines with ⟨a, b, c⟩ | ⟨a, b, c, e⟩ | ⟨i, a, b, c, e⟩
  · refine Or.inl ⟨a, ?_⟩
    rw [b, c]
    exact ins_ins_nil st (bos.map (·.lines)).flatten 0 [⟨encode (hlChars x sh), st.lineEnding.1⟩] NEW
      (Nat.zero_le _) (by simp) (hend [])
  · refine Or.inr (Or.inl ⟨a, b, ?_⟩)
    rw [c, e]
    exact ins_ins st (bos.map (·.lines)).flatten 0 [⟨encode (hlChars x sh), st.lineEnding.1⟩] [blankLine st] NEW
      (Nat.zero_le _) (by simp) (hend [])
  · refine Or.inr (Or.inr ⟨i, a, b, ?_⟩)
    rw [c, e]
    cases hbo : bos[i]? with
    | none =>
      dsimp only
      have hend2 : ∀ l : Line, [blankLine st, (⟨encode (hlChars x sh), st.lineEnding.1⟩ : Line)].getLast? = some l →
          l.ending ≠ .none := by
        intro l hl
        simp only [List.getLast?_cons_cons, List.getLast?_singleton, Option.some.injEq] at hl
        rw [← hl]; exact G.ending
      have h2 := ins_ins_nil st (bos.map (·.lines)).flatten 0 [blankLine st, ⟨encode (hlChars x sh), st.lineEnding.1⟩] NEW
        (Nat.zero_le _) (List.cons_ne_nil _ _) hend2
      simp only [List.length_cons, List.length_nil, List.cons_append, List.nil_append, Nat.zero_add] at h2 ⊢
      exact h2
    | some bo =>
      dsimp only
      have hle : indexOfLastSignificantLine bo.first bo.lines ≤ (bos.map (·.lines)).flatten.length := by
        have hbo' := hbo
        rw [p1] at hbo'
        obtain ⟨c1, c2⟩ := blockOuts_getElem? _ _ _ hbo'
        obtain ⟨hsplit, hlen⟩ := list_split_at _ _ _ c1
        rw [c2, p3]
        exact ptr_le file _ _ _ hsplit
      have hend2 : ∀ l : Line, [blankLine st, (⟨encode (hlChars x sh), st.lineEnding.1⟩ : Line)].getLast? = some l →
          l.ending ≠ .none := by
        intro l hl
        simp only [List.getLast?_cons_cons, List.getLast?_singleton, Option.some.injEq] at hl
        rw [← hl]; exact G.ending
      have h2 := ins_ins_nil st (bos.map (·.lines)).flatten _ [blankLine st, ⟨encode (hlChars x sh), st.lineEnding.1⟩] NEW
        hle (List.cons_ne_nil _ _) hend2
      simp only [List.length_cons, List.length_nil, List.cons_append, List.nil_append, Nat.zero_add] at h2 ⊢
      exact h2

end KlogV.RefineLemmas
