/- Helper lemmas for KlogV/Lemmas/GoSrcB.lean, part 1: durations, roundings, newTime. Core Lean only. -/
import KlogV.GoSem.Abs
namespace KlogV.GoL.B
open KlogV.Go

theorem safeAdd_cases (a b : Int) : safeAdd a b = .ok (a+b) ∨ safeAdd a b = .panic := by
  unfold safeAdd; split <;> simp
theorem safeMul_cases (a b : Int) : safeMul a b = .ok (a*b) ∨ safeMul a b = .panic := by
  unfold safeMul; split <;> simp

theorem newDurationWithFormat_eq (h m : Int) (f : GoSrc.DurationFormat) :
    (GoSrc.NewDurationWithFormat h m f).res =
      ((safeMul h 60).bind fun x => safeAdd x m).map (fun tot => (⟨tot, f⟩ : GoSrc.duration)) := by
  unfold GoSrc.NewDurationWithFormat safemathMultiply safemathAdd
  rcases safeMul_cases h 60 with h1 | h1 <;> rw [h1]
  · rcases safeAdd_cases (h*60) m with h2 | h2 <;> simp [h2, try2, bind, Except.bind, pure, Except.pure, Res.bind, Res.map, isNil, GNil.isNil, G.res, throw, throwThe, MonadExceptOf.throw]
  · rcases safeAdd_cases 0 m with h2 | h2 <;> simp [h2, try2, bind, Except.bind, pure, Except.pure, Res.bind, Res.map, isNil, GNil.isNil, G.res, throw, throwThe, MonadExceptOf.throw]

theorem newDuration_eq (h m : Int) :
    (GoSrc.NewDuration h m).res = ((safeMul h 60).bind fun x => safeAdd x m).map durOfMins := by
  have := newDurationWithFormat_eq h m ⟨false, 0⟩
  change _ = Res.map durOfMins _ at this
  unfold GoSrc.NewDuration GoSrc.DefaultDurationFormat
  simp only [bind, Except.bind, pure, Except.pure]
  cases hh : GoSrc.NewDurationWithFormat h m ⟨false, 0⟩ <;> rw [hh] at this <;> rw [← this] <;> rfl

theorem newDuration_zero (m : Int) : (GoSrc.NewDuration 0 m).res = if inRange m then .ok (durOfMins m) else .panic := by
  rw [newDuration_eq]
  have h0 : safeMul 0 60 = .ok 0 := by decide
  rw [h0]; simp only [Res.bind]
  unfold safeAdd
  have h1 : inRange 0 = true := by decide
  simp only [h1, Int.zero_add, Bool.true_and, Bool.and_self]
  cases inRange m <;> simp [Res.map]

theorem res_ok {α} {x : G α} {a : α} (h : x.res = .ok a) : x = .ok a := by
  unfold G.res at h; split at h <;> simp_all
theorem res_panic {α} {x : G α} (h : x.res = .panic) : x = .error .panic := by
  unfold G.res at h; split at h <;> simp_all

theorem duration_plus_eq (a b : GoSrc.duration) :
    (a.Plus b).res = (safeAdd a.minutes b.minutes).map durOfMins := by
  unfold GoSrc.duration.Plus GoSrc.duration.InMinutes safemathAdd
  rcases safeAdd_cases a.minutes b.minutes with h2 | h2
  · have hr : inRange (a.minutes + b.minutes) = true := by
      unfold safeAdd at h2; split at h2 <;> simp_all
    have := newDuration_zero (a.minutes + b.minutes)
    rw [hr] at this; simp at this
    simp [h2, try2, bind, Except.bind, pure, Except.pure, Res.map, isNil, GNil.isNil, res_ok this]
    rfl
  · simp [h2, try2, bind, Except.bind, pure, Except.pure, Res.map, isNil, GNil.isNil, throw, throwThe, MonadExceptOf.throw]
    rfl

theorem neg_one : neg 1 = -1 := by decide

theorem inRange_iff (x : Int) : inRange x = true ↔ (-9223372036854775807 ≤ x ∧ x ≤ 9223372036854775807) := by
  unfold inRange maxInt; simp

theorem duration_minus_eq (a b : GoSrc.duration) (hb : inInt64 b.minutes) :
    (a.Minus b).res = (safeAdd a.minutes (-b.minutes)).map durOfMins := by
  unfold GoSrc.duration.Minus GoSrc.duration.InMinutes
  simp only [bind, Except.bind, pure, Except.pure, neg_one]
  have hn := newDuration_zero (mul b.minutes (-1))
  unfold inInt64 at hb
  by_cases hr : inRange (-b.minutes) = true
  · have hr' := (inRange_iff _).1 hr
    have hm : mul b.minutes (-1) = -b.minutes := by
      unfold mul; rw [Int.mul_neg_one]; apply wrap_id
      unfold inInt64; omega
    rw [hm, hr] at hn; simp only [if_true] at hn
    rw [hm, res_ok hn]; simp only []
    exact duration_plus_eq a (durOfMins (-b.minutes))
  · have hr' : ¬ (-9223372036854775807 ≤ -b.minutes ∧ -b.minutes ≤ 9223372036854775807) := fun h => hr ((inRange_iff _).2 h)
    have hb' : -b.minutes = 9223372036854775808 := by omega
    have hm : mul b.minutes (-1) = -9223372036854775808 := by
      unfold mul; rw [Int.mul_neg_one, hb']; decide
    rw [hm] at hn
    have : inRange (-9223372036854775808) = false := by decide
    rw [this] at hn; simp only [Bool.false_eq_true, if_false] at hn
    rw [hm, res_panic hn, hb']
    have : inRange 9223372036854775808 = false := by decide
    simp [safeAdd, this, Res.map, G.res]

theorem abs_spec (x : Int) (h : -9223372036854775807 ≤ x ∧ x ≤ 9223372036854775807) : GoSrc.abs x = .ok (x.natAbs : Int) := by
  unfold GoSrc.abs lt neg
  by_cases hx : x < 0
  · have : wrap (-x) = -x := wrap_id (by unfold inInt64; omega)
    simp [hx, this, pure, Except.pure]; omega
  · simp [hx, pure, Except.pure]; omega

theorem div60_spec (m : Int) (h : inInt64 m) : div m 60 = .ok (Int.tdiv m 60) := by
  unfold div
  have : wrap (Int.tdiv m 60) = Int.tdiv m 60 := by
    apply wrap_id; unfold inInt64 at *
    by_cases hm : 0 ≤ m
    · rw [Int.tdiv_eq_ediv_of_nonneg hm]; omega
    · have : m = -(-m) := by omega
      rw [this, Int.neg_tdiv, Int.tdiv_eq_ediv_of_nonneg (by omega)]; omega
  simp [this, pure, Except.pure]

theorem mod60_spec (m : Int) : mod m 60 = .ok (Int.tmod m 60) := by
  unfold mod; simp [pure, Except.pure]

theorem fmtD_nat (n : Nat) : fmtD (n : Int) = natDigits n := by
  unfold fmtD; simp

theorem duration_toString_eq (d : Dur) (h : inInt64 d.mins) : d.toGo.ToString = .ok d.print := by
  unfold GoSrc.duration.ToString Dur.toGo Dur.print
  simp only []
  by_cases h0 : d.mins = 0
  · simp [h0, lt, gt, add, GAdd.gadd, pure, Except.pure]
    split
    · rfl
    · split <;> rfl
  · have hq : ((Int.tdiv d.mins 60).natAbs : Int) = ((d.mins.natAbs / 60 : Nat) : Int) := by
      rw [Int.natAbs_tdiv]; rfl
    have hr : ((Int.tmod d.mins 60).natAbs : Int) = ((d.mins.natAbs % 60 : Nat) : Int) := by
      rw [Int.natAbs_tmod]; rfl
    have hqb : -9223372036854775807 ≤ Int.tdiv d.mins 60 ∧ Int.tdiv d.mins 60 ≤ 9223372036854775807 := by
      unfold inInt64 at h
      by_cases hm : 0 ≤ d.mins
      · rw [Int.tdiv_eq_ediv_of_nonneg hm]; omega
      · have : d.mins = -(-d.mins) := by omega
        rw [this, Int.neg_tdiv, Int.tdiv_eq_ediv_of_nonneg (by omega)]; omega
    have hrb : -9223372036854775807 ≤ Int.tmod d.mins 60 ∧ Int.tmod d.mins 60 ≤ 9223372036854775807 := by
      by_cases hm : 0 ≤ d.mins
      · rw [Int.tmod_eq_emod_of_nonneg hm]; omega
      · have : d.mins = -(-d.mins) := by omega
        rw [this, Int.neg_tmod, Int.tmod_eq_emod_of_nonneg (by omega)]; omega
    simp only [div60_spec _ h, mod60_spec, abs_spec _ hqb, abs_spec _ hrb, hq, hr, bind, Except.bind]
    generalize d.mins.natAbs / 60 = H
    generalize d.mins.natAbs % 60 = M
    have e1 : (decide ((H : Int) > 0)) = decide (H > 0) := by simp
    have e2 : (decide ((M : Int) > 0)) = decide (M > 0) := by simp
    simp only [fmtD_nat, gt, lt, e1, e2]
    by_cases c1 : d.mins < 0 <;> by_cases c2 : H > 0 <;> by_cases c3 : M > 0 <;> cases hf : d.forcePlus <;>
      simp [h0, c1, c2, c3, add, GAdd.gadd, pure, Except.pure]
theorem duration_toStringWithSign_eq (d : Dur) (h : inInt64 d.mins) : d.toGo.ToStringWithSign = .ok d.printSigned := by
  unfold GoSrc.duration.ToStringWithSign Dur.printSigned
  rw [duration_toString_eq d h]
  simp only [bind, Except.bind, gt, Dur.toGo]
  by_cases c : d.mins > 0 <;> simp [c, add, GAdd.gadd, pure, Except.pure]

theorem newRounding_eq (r : Int) :
    (GoSrc.NewRounding r).res = if 0 ≤ r ∧ validRoundings.contains r.toNat = true then .ok ⟨r⟩ else .err := by
  unfold GoSrc.NewRounding
  by_cases h5 : r = 5
  · subst h5; rfl
  by_cases h10 : r = 10
  · subst h10; rfl
  by_cases h12 : r = 12
  · subst h12; rfl
  by_cases h15 : r = 15
  · subst h15; rfl
  by_cases h20 : r = 20
  · subst h20; rfl
  by_cases h30 : r = 30
  · subst h30; rfl
  by_cases h60 : r = 60
  · subst h60; rfl
  have hn : ¬ (0 ≤ r ∧ validRoundings.contains r.toNat = true) := by
    simp [validRoundings]; omega
  rw [if_neg hn]
  simp [forIn, h5, h10, h12, h15, h20, h30, h60, bind, Except.bind, pure, Except.pure, G.res, throw, throwThe, MonadExceptOf.throw]

theorem trimSuffix_m (s : List Char) :
    stringsTrimSuffix s ['m'] = if s.getLast? == some 'm' then s.dropLast else s := by
  unfold stringsTrimSuffix
  have h1 : (['m'] : List Char).isSuffixOf s = (s.getLast? == some 'm') := by
    unfold List.isSuffixOf
    rw [← List.head?_reverse]
    cases s.reverse with
    | nil => rfl
    | cons a t => simp [List.isPrefixOf, Bool.beq_comm]
  rw [h1]
  split
  · simp [List.dropLast_eq_take]
  · rfl

def atoiRel (x : G (Int × Option Exc)) (y : Option Int) : Prop :=
  match y with
  | some v => x = .ok (v, none)
  | none => ∃ e, x = .ok (0, some e)

theorem atoi_aux (p : Bool × List Char) :
    atoiRel (try2 (match p with
      | (negv, ds) =>
        if ds.isEmpty || !ds.all isDigit then throw (.err "strconv.Atoi: invalid syntax") else
        let v : Int := digitsVal ds
        if negv then (if v ≤ 9223372036854775808 then pure (-v) else throw (.err "strconv.Atoi: value out of range"))
        else (if v ≤ 9223372036854775807 then pure v else throw (.err "strconv.Atoi: value out of range")) : G Int))
      (match p with
      | (neg, ds) =>
        if ds.isEmpty || !ds.all isDigit then none else
        let v : Int := digitsVal ds
        if v > maxInt + (if neg then 1 else 0) then none else some (if neg then -v else v)) := by
  obtain ⟨negv, ds⟩ := p
  simp only []
  by_cases h1 : (ds.isEmpty || !ds.all isDigit) = true
  · simp only [h1, if_true]; exact ⟨_, rfl⟩
  · simp only [h1]
    cases negv
    · by_cases h2 : ((digitsVal ds : Nat) : Int) ≤ 9223372036854775807
      · have h3 : ¬ maxInt < ((digitsVal ds : Nat) : Int) := by unfold maxInt; omega
        simp [h2, h3, try2, pure, Except.pure, atoiRel]
      · have h3 : maxInt < ((digitsVal ds : Nat) : Int) := by unfold maxInt; omega
        simp [h2, h3, try2, pure, Except.pure, throw, throwThe, MonadExceptOf.throw, atoiRel]
    · by_cases h2 : ((digitsVal ds : Nat) : Int) ≤ 9223372036854775808
      · have h3 : ¬ ((digitsVal ds : Nat) : Int) > maxInt + 1 := by unfold maxInt; omega
        simp [h2, h3, try2, pure, Except.pure, atoiRel]
      · have h3 : ((digitsVal ds : Nat) : Int) > maxInt + 1 := by unfold maxInt; omega
        simp [h2, h3, try2, pure, Except.pure, throw, throwThe, MonadExceptOf.throw, atoiRel]

theorem atoi_spec (s : List Char) : atoiRel (try2 (Go.atoi s)) (atoiSigned s) := by
  unfold atoiSigned Go.atoi
  exact atoi_aux _


theorem newRoundingFromString_eq (s : List Char) :
    (GoSrc.NewRoundingFromString s).res = (optRes (parseRounding s)).map (fun n => (⟨(n : Int)⟩ : GoSrc.rounding)) := by
  unfold GoSrc.NewRoundingFromString parseRounding
  have key : ∀ r : Int, (GoSrc.NewRounding r).res =
      Res.map (fun n : Int => (⟨n⟩ : GoSrc.rounding)) ((optRes (if (r ≥ 0 && validRoundings.contains r.toNat) = true then some r.toNat else none)).bind fun a => Res.ok (a : Int)) := by
    intro r
    rw [newRounding_eq]
    by_cases c : 0 ≤ r ∧ validRoundings.contains r.toNat = true
    · have c' : (r ≥ 0 && validRoundings.contains r.toNat) = true := by simp [c.1]; simpa using c.2
      rw [if_pos c, if_pos c']
      simp [optRes, Res.map, Res.bind, Int.toNat_of_nonneg c.1]
    · have c' : ¬ (r ≥ 0 && validRoundings.contains r.toNat) = true := by simpa using c
      rw [if_neg c, if_neg c']; rfl
  by_cases h1 : s = ['1', 'h']
  · subst h1; rfl
  · have h1' : (s == ['1', 'h']) = false := by simpa using h1
    simp only [h1', Bool.false_eq_true, if_false, bind, Except.bind, pure, Except.pure, trimSuffix_m]
    generalize (if (s.getLast? == some 'm') = true then s.dropLast else s) = s'
    have ha := atoi_spec s'
    cases hs : atoiSigned s' with
    | some v =>
      rw [hs] at ha; simp only [atoiRel] at ha
      rw [ha]; simp only [isNil, GNil.isNil, Option.isNone, Bool.not_true, Bool.false_eq_true, if_false, Option.getD]
      exact key v
    | none =>
      rw [hs] at ha; obtain ⟨e, he⟩ := ha
      rw [he]; simp only [isNil, GNil.isNil, Option.isNone, Bool.not_false, if_true, Option.getD, neg_one]
      exact key (-1)

theorem newDuration_small (h m : Int) (hh : -1000000 ≤ h ∧ h ≤ 1000000) (hm : -1000000 ≤ m ∧ m ≤ 1000000) :
    GoSrc.NewDuration h m = .ok (durOfMins (h * 60 + m)) := by
  apply res_ok
  rw [newDuration_eq]
  have h1 : inRange h = true := (inRange_iff _).2 (by omega)
  have h2 : inRange (h * 60) = true := (inRange_iff _).2 (by omega)
  have h3 : inRange m = true := (inRange_iff _).2 (by omega)
  have h4 : inRange (h * 60 + m) = true := (inRange_iff _).2 (by omega)
  have h5 : inRange 60 = true := by decide
  simp [safeMul, safeAdd, h1, h2, h3, h4, h5, Res.bind, Res.map]

theorem newTime_spec (h m : Nat) (s : Int) (hs : -1 ≤ s ∧ s ≤ 1) (f : Bool) :
    GoSrc.newTime h m s ⟨f⟩ = match Time.mk' h m s f with | some r => .ok r.toGo | none => .error (.err "INVALID_TIME") := by
  unfold GoSrc.newTime Time.mk' CivilTime.IsValid
  by_cases c : h = 24 ∧ m = 0 ∧ s ≤ 0
  · obtain ⟨c1, c2, c3⟩ := c
    subst c1; subst c2
    have : wrap (s + 1) = s + 1 := wrap_id (by unfold inInt64; omega)
    simp [c3, le, add, GAdd.gadd, this, bind, Except.bind, pure, Except.pure, Time.toGo]
  · have c1 : (((h : Int) == 24 && (m : Int) == 0) && le s 0) = false := by
      simp [le]; omega
    have c2 : (h == 24 && m == 0 && decide (s ≤ 0)) = false := by
      simp; omega
    simp only [c1, c2]
    by_cases v : h < 24 ∧ m < 60
    · have v' : (0 ≤ (h : Int) ∧ (h : Int) < 24 ∧ 0 ≤ (m : Int) ∧ (m : Int) < 60) := by omega
      simp [v, v', bind, Except.bind, pure, Except.pure, Time.toGo]
    · have v' : ¬ (0 ≤ (h : Int) ∧ (h : Int) < 24 ∧ 0 ≤ (m : Int) ∧ (m : Int) < 60) := by omega
      have v2 : (decide (h < 24) && decide (m < 60)) = false := by simp; omega
      simp [v2, bind, Except.bind, pure, Except.pure, throw, throwThe, MonadExceptOf.throw]
      omega

end KlogV.GoL.B
