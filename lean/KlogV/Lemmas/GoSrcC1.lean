/- Helper lemmas for KlogV/Lemmas/GoSrcC.lean: `idx` on literal lists, `atoi` on digit strings, `newTime`. Core Lean only. -/
import KlogV.GoSem.Abs
import KlogV.Lemmas.RegexModel3
namespace KlogV.GoL.C
open KlogV.Go

/-! ### `idx` on a six-element list -/

theorem idx6_1 {α} (a b c d e f : α) : idx [a, b, c, d, e, f] (1 : Int) = .ok b := rfl
theorem idx6_2 {α} (a b c d e f : α) : idx [a, b, c, d, e, f] (2 : Int) = .ok c := rfl
theorem idx6_3 {α} (a b c d e f : α) : idx [a, b, c, d, e, f] (3 : Int) = .ok d := rfl
theorem idx6_4 {α} (a b c d e f : α) : idx [a, b, c, d, e, f] (4 : Int) = .ok e := rfl
theorem idx6_5 {α} (a b c d e f : α) : idx [a, b, c, d, e, f] (5 : Int) = .ok f := rfl

/-! ### `atoi` -/

theorem atoi_digits (ds : List Char) (hne : ds ≠ []) (hd : ds.all isDigit = true) :
    Go.atoi ds = if (digitsVal ds : Int) ≤ 9223372036854775807 then .ok (digitsVal ds : Int)
      else .error (.err "strconv.Atoi: value out of range") := by
  cases ds with
  | nil => exact absurd rfl hne
  | cons c cs =>
    have hc : isDigit c = true := by
      simp only [List.all_cons, Bool.and_eq_true] at hd; exact hd.1
    have h1 : c ≠ '-' := isDigit_ne c '-' hc (by decide)
    have h2 : c ≠ '+' := isDigit_ne c '+' hc (by decide)
    unfold Go.atoi
    split
    · rename_i heq
      split at heq
      · rename_i r e; injection e with e1 _; exact absurd e1 h1
      · rename_i r e; injection e with e1 _; exact absurd e1 h2
      · injection heq with e1 e2
        subst e1 e2
        simp [hd, pure, Except.pure, throw, throwThe, MonadExceptOf.throw]

theorem atoi_nil : Go.atoi [] = .error (.err "strconv.Atoi: invalid syntax") := rfl

theorem newTime_spec (hour minute : Nat) (shift : Int) (is24 : Bool) (hs : inInt64 shift) :
    (GoSrc.newTime hour minute shift ⟨is24⟩).res = (optRes (Time.mk' hour minute shift is24)).map Time.toGo := by
  unfold inInt64 at hs
  simp only [GoSrc.newTime, Time.mk', bind, Except.bind, pure, Except.pure, CivilTime.IsValid, le, add, GAdd.gadd,
    throw, throwThe, MonadExceptOf.throw]
  by_cases c : hour = 24 ∧ minute = 0 ∧ shift ≤ 0
  · obtain ⟨rfl, rfl, h3⟩ := c
    have hw : wrap (shift + 1) = shift + 1 := by unfold wrap; omega
    simp [h3, hw, G.res, optRes, Res.map, Time.toGo]
  · have c1 : ((hour : Int) == 24 && (minute : Int) == 0 && decide (shift ≤ 0)) = false := by
      simp only [Bool.and_eq_false_iff, beq_eq_false_iff_ne, decide_eq_false_iff_not, ne_eq]
      omega
    have c2 : (hour == 24 && minute == 0 && decide (shift ≤ 0)) = false := by
      simp only [Bool.and_eq_false_iff, beq_eq_false_iff_ne, decide_eq_false_iff_not, ne_eq]
      omega
    simp only [c1, c2]
    by_cases v : hour < 24 ∧ minute < 60
    · have v1 : (0 : Int) ≤ hour ∧ (hour : Int) < 24 ∧ (0 : Int) ≤ minute ∧ (minute : Int) < 60 := by omega
      simp [v1, v.1, v.2, G.res, optRes, Res.map, Time.toGo]
    · have v1 : ¬ ((0 : Int) ≤ hour ∧ (hour : Int) < 24 ∧ (0 : Int) ≤ minute ∧ (minute : Int) < 60) := by omega
      have d1 : decide ((0 : Int) ≤ hour ∧ (hour : Int) < 24 ∧ (0 : Int) ≤ minute ∧ (minute : Int) < 60) = false := by
        simp only [decide_eq_false_iff_not]; exact v1
      simp only [d1]
      simp [G.res, optRes, Res.map, v]


theorem digitsVal_le99 (hd : List Char) (hlen : hd.length = 1 ∨ hd.length = 2) (hdig : hd.all isDigit = true) :
    digitsVal hd ≤ 99 := by
  match hd, hlen, hdig with
  | [c], _, hdig =>
    simp only [List.all_cons, List.all_nil, Bool.and_true] at hdig
    have := digitVal_lt c hdig
    simp only [digitsVal, List.foldl_cons, List.foldl_nil]; omega
  | [c, d], _, hdig =>
    simp only [List.all_cons, List.all_nil, Bool.and_true, Bool.and_eq_true] at hdig
    have := digitVal_lt c hdig.1
    have := digitVal_lt d hdig.2
    simp only [digitsVal, List.foldl_cons, List.foldl_nil]; omega
  | [], h, _ => simp at h
  | _ :: _ :: _ :: _, h, _ => simp at h

theorem ok_bind {α β} (a : α) (f : α → G β) : (Except.ok a >>= f) = f a := rfl
theorem err_bind {α β} (e : Exc) (f : α → G β) : ((Except.error e : G α) >>= f) = Except.error e := rfl
theorem pure_eq {α} (a : α) : (pure a : G α) = Except.ok a := rfl
theorem throw_eq {α} (e : Exc) : (throw e : G α) = Except.error e := rfl

theorem in0 : inInt64 0 := by unfold inInt64; omega
theorem in1 : inInt64 1 := by unfold inInt64; omega
theorem neg1 : neg 1 = -1 := by decide
theorem inm1 : inInt64 (neg 1) := by rw [neg1]; unfold inInt64; omega

theorem add_int (a b : Int) : add a b = wrap (a + b) := rfl

theorem fin_am (h m : Nat) (sh : Int) (hs : inInt64 sh) :
    G.res (if (h : Int) < 1 ∨ 12 < (h : Int) then Except.error (Exc.err "INVALID_TIME")
      else if (h : Int) = 12 then GoSrc.newTime 0 m sh ⟨false⟩ else GoSrc.newTime h m sh ⟨false⟩) =
    Res.map Time.toGo (optRes (if h = 0 ∨ 12 < h then none else Time.mk' (if h = 12 then 0 else h) m sh false)) := by
  by_cases c : h = 0 ∨ 12 < h
  · rw [if_pos c, if_pos (by omega)]; rfl
  · rw [if_neg c, if_neg (by omega)]
    by_cases e : h = 12
    · subst e
      exact newTime_spec 0 m sh false hs
    · rw [if_neg e, if_neg (by omega)]
      exact newTime_spec h m sh false hs

theorem fin_pm (h m : Nat) (sh : Int) (hs : inInt64 sh) :
    G.res (if (h : Int) < 1 ∨ 12 < (h : Int) then Except.error (Exc.err "INVALID_TIME")
      else if (h : Int) < 12 then GoSrc.newTime (add (h : Int) 12) m sh ⟨false⟩ else GoSrc.newTime h m sh ⟨false⟩) =
    Res.map Time.toGo (optRes (if h = 0 ∨ 12 < h then none else Time.mk' (if h < 12 then h + 12 else h) m sh false)) := by
  by_cases c : h = 0 ∨ 12 < h
  · rw [if_pos c, if_pos (by omega)]; rfl
  · rw [if_neg c, if_neg (by omega)]
    by_cases e : h < 12
    · rw [if_pos e, if_pos (by omega)]
      have : add (h : Int) 12 = ((h + 12 : Nat) : Int) := by
        rw [add_int]
        unfold wrap; omega
      rw [this]
      exact newTime_spec (h + 12) m sh false hs
    · rw [if_neg e, if_neg (by omega)]
      exact newTime_spec h m sh false hs

theorem ntfs_core (find : Str → List Str) (s s0 : Str) (lt : Bool) (hd : List Char) (m1 m2 : Char) (ap : Option Bool) (gt : Bool)
    (hlen : hd.length = 1 ∨ hd.length = 2) (hdig : hd.all isDigit = true) (hm1 : isDigit m1 = true) (hm2 : isDigit m2 = true)
    (hfind : find s = [s0, (if lt then ['<'] else []), hd, [m1, m2], Time.apChars ap, (if gt then ['>'] else [])]) :
    (GoSrc.NewTimeFromString find s).res = (optRes (Time.ofParts lt hd [m1, m2] ap gt)).map Time.toGo := by
  have hne : hd ≠ [] := by rintro rfl; simp at hlen
  have h99 := digitsVal_le99 hd hlen hdig
  have m99 := digitsVal_le99 [m1, m2] (.inr rfl) (by simp [hm1, hm2])
  have ha : Go.atoi hd = .ok (digitsVal hd : Int) := by rw [atoi_digits hd hne hdig, if_pos (by omega)]
  have hb : Go.atoi [m1, m2] = .ok (digitsVal [m1, m2] : Int) := by
    rw [atoi_digits [m1, m2] (by simp) (by simp [hm1, hm2]), if_pos (by omega)]
  simp only [GoSrc.NewTimeFromString, hfind, Time.ofParts]
  generalize digitsVal hd = h at *
  generalize digitsVal [m1, m2] = m at *
  cases lt <;> cases gt <;> rcases ap with _ | _ | _
  all_goals simp only [idx6_1, idx6_2, idx6_3, idx6_4, idx6_5, ha, hb, len,
      GoSrc.DefaultTimeFormat, Time.apChars, ok_bind, err_bind, pure_eq, throw_eq, try2]
  all_goals simp [ok_bind, Go.lt, Go.gt]
  all_goals first
    | rfl
    | exact newTime_spec h m _ _ (by first | exact in0 | exact in1 | exact inm1)
    | exact fin_am h m _ (by first | exact in0 | exact in1 | exact inm1)
    | exact fin_pm h m _ (by first | exact in0 | exact in1 | exact inm1)

end KlogV.GoL.C
