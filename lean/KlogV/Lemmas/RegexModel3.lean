/-
Regular expressions vs. model, part 3: `Expect.time` and `Time.parse`.
-/
import KlogV.Lemmas.RegexModel1
import KlogV.Lemmas.Grammar1
namespace KlogV

/-- the value part of `Time.parse`: what is computed from the five captured pieces
(has `<`, hour digits, minute digits, am/pm/none, has `>`) -/
def Time.ofParts (lt : Bool) (hd md : List Char) (ampm : Option Bool) (gt : Bool) : Option Time :=
  if lt && gt then none else
  let hour := digitsVal hd
  let minute := digitsVal md
  let shift : Int := if lt then -1 else if gt then 1 else 0
  match ampm with
  | none => Time.mk' hour minute shift true
  | some pm =>
    if hour < 1 || hour > 12 then none else
    let hour := if !pm && hour == 12 then 0 else if pm && hour < 12 then hour + 12 else hour
    Time.mk' hour minute shift false

namespace RxM
open KlogV.Rx

variable {env : Env}

theorem parseD_eq_ofParts (lt : Bool) (hd : List Char) (m1 m2 : Char) (ap : Option Bool) (gt : Bool) :
    Time.parseD lt hd m1 m2 ap gt [] = Time.ofParts lt hd [m1, m2] ap gt := by
  cases ap <;> simp [Time.parseD, Time.ofParts]

theorem opt_flag {α} {l x : List α} : (l = x ∨ l = []) ↔ ∃ b : Bool, l = if b then x else [] := by
  constructor
  · rintro (rfl | rfl)
    · exact ⟨true, rfl⟩
    · exact ⟨false, rfl⟩
  · rintro ⟨b, rfl⟩
    cases b <;> simp

theorem opt_ap {l : List Char} : ((l = "am".toList ∨ l = "pm".toList) ∨ l = []) ↔ ∃ o, l = Time.apChars o := by
  have e1 : "am".toList = ['a', 'm'] := by simp
  have e2 : "pm".toList = ['p', 'm'] := by simp
  rw [e1, e2]
  constructor
  · rintro ((rfl | rfl) | rfl)
    · exact ⟨some false, rfl⟩
    · exact ⟨some true, rfl⟩
    · exact ⟨none, rfl⟩
  · rintro ⟨o, rfl⟩
    rcases o with _ | _ | _ <;> simp [Time.apChars]

theorem time_shape (s : List Char) :
    Matches env Expect.time (codes s) ↔
      ∃ (lt : Bool) (hd : List Char) (m1 m2 : Char) (ap : Option Bool) (gt : Bool),
        s = (if lt then ['<'] else []) ++ hd ++ [':'] ++ [m1, m2] ++ Time.apChars ap ++ (if gt then ['>'] else []) ∧
        (hd.length = 1 ∨ hd.length = 2) ∧ hd.all isDigit = true ∧ isDigit m1 = true ∧ isDigit m2 = true := by
  simp only [Expect.time, Re.catl, m_cat_codes, m_opt_codes, matches_group, m_ch_codes, m_repRange_digit_codes,
    m_rep_digit_codes, matches_alt, m_str_codes, m_eps_codes, opt_flag, opt_ap]
  constructor
  · rintro ⟨_, _, rfl, ⟨lt, rfl⟩, hd, _, rfl, ⟨h1, h2, hdig⟩, _, _, rfl, rfl, md, _, rfl, ⟨hml, hmd⟩,
      _, _, rfl, ⟨ap, rfl⟩, _, _, rfl, ⟨gt, rfl⟩, rfl⟩
    obtain ⟨m1, m2, rfl⟩ := len2 md hml
    simp only [List.all_cons, List.all_nil, Bool.and_true, Bool.and_eq_true] at hmd
    refine ⟨lt, hd, m1, m2, ap, gt, by simp, ?_, hdig, hmd.1, hmd.2⟩
    have : max 1 2 = 2 := rfl
    omega
  · rintro ⟨lt, hd, m1, m2, ap, gt, rfl, hlen, hdig, hm1, hm2⟩
    refine ⟨_, _, ?_, ⟨lt, rfl⟩, hd, _, rfl, ⟨by omega, by have : max 1 2 = 2 := rfl; omega, hdig⟩, _, _, rfl, rfl,
      [m1, m2], _, rfl, ⟨rfl, by simp [hm1, hm2]⟩, _, _, rfl, ⟨ap, rfl⟩, _, _, rfl, ⟨gt, rfl⟩, rfl⟩
    simp

theorem mark_time : mark Expect.time = Re.catl [Re.opt (G 1 (Expect.ch '<')), G 2 (Re.repRange Expect.digit 1 2), Expect.ch ':',
    G 3 (Re.rep Expect.digit 2), Re.opt (G 4 (.alt (Expect.str "am") (Expect.str "pm"))), Re.opt (G 5 (Expect.ch '>'))] := rfl

theorem time_marked (m : List Nat) :
    Matches env (mark Expect.time) m ↔
      ∃ (lt : Bool) (hd : List Char) (m1 m2 : Char) (ap : Option Bool) (gt : Bool),
        (hd.length = 1 ∨ hd.length = 2) ∧ hd.all isDigit = true ∧ isDigit m1 = true ∧ isDigit m2 = true ∧
        m = (if lt then [openSym 1, '<'.toNat, closeSym 1] else []) ++ openSym 2 :: codes hd ++ closeSym 2 :: ':'.toNat ::
            openSym 3 :: codes [m1, m2] ++ closeSym 3 ::
            ((if ap.isSome then openSym 4 :: codes (Time.apChars ap) ++ [closeSym 4] else []) ++
             (if gt then [openSym 5, '>'.toNat, closeSym 5] else [])) := by
  rw [mark_time]
  simp only [Re.catl, matches_cat, matches_opt, m_G, m_ch, m_repRange_digit, m_rep_digit, matches_alt, m_str, matches_eps]
  have e1 : "am".toList = ['a', 'm'] := by simp
  have e2 : "pm".toList = ['p', 'm'] := by simp
  constructor
  · rintro ⟨w1, _, h1, ⟨_, _, ⟨_, ⟨hd, hl1, hl2, hdig, rfl⟩, rfl⟩, ⟨_, _, rfl, ⟨_, _, ⟨_, ⟨md, hml, hmd, rfl⟩, rfl⟩,
      ⟨w4, _, h4, ⟨w5, _, h5, rfl, rfl⟩, rfl⟩, rfl⟩, rfl⟩, rfl⟩, rfl⟩
    obtain ⟨m1, m2, rfl⟩ := len2 md hml
    simp only [List.all_cons, List.all_nil, Bool.and_true, Bool.and_eq_true] at hmd
    have hw1 : ∃ lt : Bool, w1 = if lt then [openSym 1, '<'.toNat, closeSym 1] else [] := by
      rcases h1 with ⟨_, rfl, rfl⟩ | rfl
      · exact ⟨true, rfl⟩
      · exact ⟨false, rfl⟩
    have hw5 : ∃ gt : Bool, w5 = if gt then [openSym 5, '>'.toNat, closeSym 5] else [] := by
      rcases h5 with ⟨_, rfl, rfl⟩ | rfl
      · exact ⟨true, rfl⟩
      · exact ⟨false, rfl⟩
    have hw4 : ∃ ap : Option Bool, w4 = if ap.isSome then openSym 4 :: codes (Time.apChars ap) ++ [closeSym 4] else [] := by
      rcases h4 with ⟨_, (rfl | rfl), rfl⟩ | rfl
      · exact ⟨some false, by rw [e1]; rfl⟩
      · exact ⟨some true, by rw [e2]; rfl⟩
      · exact ⟨none, rfl⟩
    obtain ⟨lt, rfl⟩ := hw1
    obtain ⟨gt, rfl⟩ := hw5
    obtain ⟨ap, rfl⟩ := hw4
    refine ⟨lt, hd, m1, m2, ap, gt, ?_, hdig, hmd.1, hmd.2, by simp [grp]⟩
    have : max 1 2 = 2 := rfl
    omega
  · rintro ⟨lt, hd, m1, m2, ap, gt, hlen, hdig, hm1, hm2, rfl⟩
    have hW1 : (∃ v, v = ['<'.toNat] ∧ (if lt then [openSym 1, '<'.toNat, closeSym 1] else []) = grp 1 v) ∨
        (if lt then [openSym 1, '<'.toNat, closeSym 1] else []) = [] := by
      cases lt
      · exact .inr rfl
      · exact .inl ⟨_, rfl, rfl⟩
    have hW5 : (∃ v, v = ['>'.toNat] ∧ (if gt then [openSym 5, '>'.toNat, closeSym 5] else []) = grp 5 v) ∨
        (if gt then [openSym 5, '>'.toNat, closeSym 5] else []) = [] := by
      cases gt
      · exact .inr rfl
      · exact .inl ⟨_, rfl, rfl⟩
    have hW4 : (∃ v, (v = codes "am".toList ∨ v = codes "pm".toList) ∧
          (if ap.isSome then openSym 4 :: codes (Time.apChars ap) ++ [closeSym 4] else []) = grp 4 v) ∨
        (if ap.isSome then openSym 4 :: codes (Time.apChars ap) ++ [closeSym 4] else []) = [] := by
      rcases ap with _ | _ | _
      · exact .inr rfl
      · exact .inl ⟨_, .inl rfl, by rw [e1]; rfl⟩
      · exact .inl ⟨_, .inr rfl, by rw [e2]; rfl⟩
    refine ⟨_, _, hW1, ⟨_, _, ⟨_, ⟨hd, by omega, by have : max 1 2 = 2 := rfl; omega, hdig, rfl⟩, rfl⟩, ⟨_, _, rfl, ⟨_, _, ⟨_, ⟨[m1, m2], rfl, by simp [hm1, hm2], rfl⟩, rfl⟩,
      ⟨_, _, hW4, ⟨_, _, hW5, rfl, rfl⟩, rfl⟩, rfl⟩, rfl⟩, rfl⟩, ?_⟩
    simp [grp]


/-! ### The pieces are determined by the string: the marked word over a given string is unique -/

theorem timeStr_inj {lt lt' gt gt' : Bool} {hd hd' : List Char} {m1 m2 m1' m2' : Char} {ap ap' : Option Bool}
    (hlen : hd.length = 1 ∨ hd.length = 2) (hdig : hd.all isDigit = true)
    (hlen' : hd'.length = 1 ∨ hd'.length = 2) (hdig' : hd'.all isDigit = true)
    (h : (if lt then ['<'] else []) ++ hd ++ [':'] ++ [m1, m2] ++ Time.apChars ap ++ (if gt then ['>'] else []) =
         (if lt' then ['<'] else []) ++ hd' ++ [':'] ++ [m1', m2'] ++ Time.apChars ap' ++ (if gt' then ['>'] else [])) :
    lt = lt' ∧ hd = hd' ∧ m1 = m1' ∧ m2 = m2' ∧ ap = ap' ∧ gt = gt' := by
  have hcol : isDigit ':' = false := by decide
  have key : hd ++ ':' :: (m1 :: m2 :: (Time.apChars ap ++ (if gt then ['>'] else []))) =
      hd' ++ ':' :: (m1' :: m2' :: (Time.apChars ap' ++ (if gt' then ['>'] else []))) ∧ lt = lt' := by
    cases hd with
    | nil => simp at hlen
    | cons c cs =>
      cases hd' with
      | nil => simp at hlen'
      | cons c' cs' =>
        simp only [List.all_cons, Bool.and_eq_true] at hdig hdig'
        have n1 : c ≠ '<' := isDigit_ne c '<' hdig.1 (by decide)
        have n2 : c' ≠ '<' := isDigit_ne c' '<' hdig'.1 (by decide)
        cases lt <;> cases lt' <;> simp only [Bool.false_eq_true, if_false, if_true, List.nil_append, List.cons_append,
          List.append_assoc, List.cons.injEq] at h
        · exact ⟨by simp [h.1, h.2], rfl⟩
        · exact absurd h.1 n1
        · exact absurd h.1.symm n2
        · exact ⟨by simpa using h, rfl⟩
  obtain ⟨key, rfl⟩ := key
  have k1 := takeWhile_digits hd ':' (m1 :: m2 :: (Time.apChars ap ++ (if gt then ['>'] else []))) hdig hcol
  have k2 := takeWhile_digits hd' ':' (m1' :: m2' :: (Time.apChars ap' ++ (if gt' then ['>'] else []))) hdig' hcol
  have e1 : hd = hd' := by rw [← k1.1, key, k2.1]
  have e2 := k1.2.symm.trans ((congrArg (List.dropWhile isDigit) key).trans k2.2)
  simp only [List.cons.injEq, true_and] at e2
  obtain ⟨rfl, rfl, e3⟩ := e2
  refine ⟨rfl, e1, rfl, rfl, ?_⟩
  rcases ap with _ | _ | _ <;> rcases ap' with _ | _ | _ <;> cases gt <;> cases gt' <;>
    simp [Time.apChars] at e3 ⊢

theorem erase_time_marked (lt' : Bool) (hd' : List Char) (m1' m2' : Char) (ap' : Option Bool) (gt' : Bool) :
    erase ((if lt' then [openSym 1, '<'.toNat, closeSym 1] else []) ++ openSym 2 :: codes hd' ++ closeSym 2 :: ':'.toNat ::
          openSym 3 :: codes [m1', m2'] ++ closeSym 3 ::
          ((if ap'.isSome then openSym 4 :: codes (Time.apChars ap') ++ [closeSym 4] else []) ++
           (if gt' then [openSym 5, '>'.toNat, closeSym 5] else []))) =
      codes ((if lt' then ['<'] else []) ++ hd' ++ [':'] ++ [m1', m2'] ++ Time.apChars ap' ++ (if gt' then ['>'] else [])) := by
  have e : ∀ (x : Char) w, erase (x.toNat :: w) = x.toNat :: erase w := fun x w => erase_cons_lt (toNat_lt_maxRune x)
  cases lt' <;> rcases ap' with _ | _ | _ <;> cases gt' <;>
    simp only [Bool.false_eq_true, if_true, if_false, List.nil_append, List.cons_append, List.append_assoc, erase_append,
      erase_cons_ge (openSym_ge _), erase_cons_ge (closeSym_ge _), e, erase_codes, erase_nil, Time.apChars, codes_append,
      codes_cons, codes_nil, List.append_nil, Option.isSome_none, Option.isSome_some]

theorem time_groups (lt : Bool) (hd : List Char) (m1 m2 : Char) (ap : Option Bool) (gt : Bool) (m : List Nat)
    (hlen : hd.length = 1 ∨ hd.length = 2) (hdig : hd.all isDigit = true)
    (hm : Matches env (mark Expect.time) m)
    (he : erase m = codes ((if lt then ['<'] else []) ++ hd ++ [':'] ++ [m1, m2] ++ Time.apChars ap ++ (if gt then ['>'] else []))) :
    m = (if lt then [openSym 1, '<'.toNat, closeSym 1] else []) ++ openSym 2 :: codes hd ++ closeSym 2 :: ':'.toNat ::
          openSym 3 :: codes [m1, m2] ++ closeSym 3 ::
          ((if ap.isSome then openSym 4 :: codes (Time.apChars ap) ++ [closeSym 4] else []) ++
           (if gt then [openSym 5, '>'.toNat, closeSym 5] else [])) := by
  obtain ⟨lt', hd', m1', m2', ap', gt', hlen', hdig', _, _, rfl⟩ := (time_marked m).1 hm
  rw [erase_time_marked, codes_inj] at he
  obtain ⟨rfl, rfl, rfl, rfl, rfl, rfl⟩ := timeStr_inj hlen' hdig' hlen hdig he
  rfl

/-! ### Link to `Time.parse` -/

theorem time_parse_matches {s : List Char} {t : Time} (h : Time.parse s = some t) :
    Matches env Expect.time (codes s) := by
  obtain ⟨lt, c, cs, m1, m2, ap, gt, rfl, hc, hcs, hlen, hm1, hm2, _⟩ := GrammarLemmas.parse_shape h
  refine (time_shape _).2 ⟨lt, c :: cs, m1, m2, ap, gt, rfl, ?_, by simp [hc, hcs], hm1, hm2⟩
  simp only [List.length_cons]; omega

theorem time_parse_no_match {s : List Char} (h : ¬ Matches env Expect.time (codes s)) : Time.parse s = none := by
  cases e : Time.parse s with
  | none => rfl
  | some d => exact absurd (time_parse_matches e) h

theorem time_parse_shape (lt : Bool) (hd : List Char) (m1 m2 : Char) (ap : Option Bool) (gt : Bool)
    (hlen : hd.length = 1 ∨ hd.length = 2) (hdig : hd.all isDigit = true) (hm1 : isDigit m1 = true) (hm2 : isDigit m2 = true) :
    Time.parse ((if lt then ['<'] else []) ++ hd ++ [':'] ++ [m1, m2] ++ Time.apChars ap ++ (if gt then ['>'] else []))
      = Time.ofParts lt hd [m1, m2] ap gt := by
  cases hd with
  | nil => simp at hlen
  | cons c cs =>
    simp only [List.all_cons, Bool.and_eq_true] at hdig
    rw [← parseD_eq_ofParts]
    exact Time.parse_core lt gt c cs m1 m2 hdig.1 hdig.2 (by simp only [List.length_cons] at hlen; omega) hm1 hm2 ap

end RxM
end KlogV
