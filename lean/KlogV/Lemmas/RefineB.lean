/-
Helper lemmas for C04b (KlogV/Props/C04b.lean): the statements the property theorems refer to.
The proofs are in RefineB1.lean … RefineB17.lean; the definitions `CleanSummary`, `currentRecord`, `StopTarget`,
`PauseTarget` are in RefineB2.lean.
-/
import KlogV.Lemmas.RefineB17
namespace KlogV
open RefineLemmas RefineBLemmas

/-- `start` (corrected: `hrcr` — a summary taken over by `--resume` / `--resume-nth` has no line ending
in a carriage return; such a line is written in front of the line ending and read back without it) -/
theorem start_refines (u : UTab) (cfg : Config) (now : Instant) (a : AtArgs) (s : SummaryArgs)
    (file file' : Bytes) (rs : List Record) (bos : List BlockOut) (d : Date) (t : Time)
    (hp : parseDoc file = .records rs bos) (hd : atDate a.date now.date = some d)
    (ht : atTime a now cfg = .ok t) (htw : t.wf = true)
    (hs : CleanSummary (s.text.getD [])) (hcr : file.getLast? ≠ some 13)
    (hv : Spec.targetIdx rs d = none → d.valid = true)
    (hrcr : s.text = none → ∀ sm, Spec.chosenSummary none s.resume s.resumeNth (currentRecord rs d cfg.should)
      (Spec.previousOf rs d) = some sm → ∀ l ∈ sm, l.getLast? ≠ some '\r')
    (h : runCmd u cfg now (.start a s) file = .ok file') :
    ∃ rs' bos' sm, parseDoc file' = .records rs' bos' ∧
      Spec.chosenSummary (s.text.map (·.map decodeGo)) s.resume s.resumeNth (currentRecord rs d cfg.should) (Spec.previousOf rs d) = some sm ∧
      Spec.Start rs d cfg.should t sm rs' :=
  start_refines_core u cfg now a s file file' rs bos d t hp hd ht htw hs hcr hv hrcr h

theorem start_rejected (u : UTab) (cfg : Config) (now : Instant) (a : AtArgs) (s : SummaryArgs)
    (file : Bytes) (rs : List Record) (bos : List BlockOut) (d : Date)
    (hp : parseDoc file = .records rs bos) (hd : atDate a.date now.date = some d)
    (hrej : (∃ i r, Spec.targetIdx rs d = some i ∧ rs[i]? = some r ∧ r.hasOpen = true) ∨
      Spec.chosenSummary (s.text.map (·.map decodeGo)) s.resume s.resumeNth (currentRecord rs d cfg.should) (Spec.previousOf rs d) = none) :
    ∀ f', runCmd u cfg now (.start a s) file ≠ .ok f' :=
  start_rejected_core u cfg now a s file rs bos d hp hd hrej

/-- `pause` (corrected: `hu2` — when tags are appended, the case-folding table of `u` yields no line
feed / carriage return and CR is not a letter; otherwise the printed tags can break the line) -/
theorem pause_refines (u : UTab) (cfg : Config) (now : Instant) (summary : Option (List Bytes)) (noTags : Bool) (ticks : List Int)
    (file file' : Bytes) (rs : List Record) (bos : List BlockOut)
    (hp : parseDoc file = .records rs bos) (hs : CleanSummary (summary.getD [])) (hcr : file.getLast? ≠ some 13)
    (_hu : u.isLetter '"' = false ∧ u.isLetter '\'' = false ∧ u.isLetter ' ' = false)
    (hu2 : noTags = false → u.isLetter '\r' = false ∧ ∀ c, u.lower c ≠ '\n' ∧ u.lower c ≠ '\r')
    (h : runCmd u cfg now (.pause summary noTags false ticks) file = .ok file') :
    ∃ rs' bos' i r oe, parseDoc file' = .records rs' bos' ∧ PauseTarget rs now.date i ∧ rs[i]? = some r ∧
      oe ∈ r.entries ∧ isOpen oe.val = true ∧
      Spec.PauseAppend rs i (Spec.captured ticks)
        (Spec.pauseSummary ((summary.getD []).map decodeGo)
          (if noTags then none else some (((summaryTags u oe.summary).map (fun (t : Tag) => t.print u)).intersperse [' ']).flatten)) rs' :=
  pause_refines_core u cfg now summary noTags ticks file file' rs bos hp hs hcr hu2 h

theorem pause_extend_refines (u : UTab) (cfg : Config) (now : Instant) (noTags : Bool) (ticks : List Int)
    (file file' : Bytes) (rs : List Record) (bos : List BlockOut)
    (hp : parseDoc file = .records rs bos) (hcr : file.getLast? ≠ some 13)
    (h : runCmd u cfg now (.pause none noTags true ticks) file = .ok file') :
    ∃ rs' bos' i, parseDoc file' = .records rs' bos' ∧ PauseTarget rs now.date i ∧
      Spec.PauseExtend rs i (Spec.captured ticks) rs' :=
  pause_extend_core u cfg now noTags ticks file file' rs bos hp hcr h

theorem stop_refines (u : UTab) (cfg : Config) (now : Instant) (a : AtArgs) (summary : Option (List Bytes))
    (file file' : Bytes) (rs : List Record) (bos : List BlockOut) (d : Date) (t : Time)
    (hp : parseDoc file = .records rs bos) (hd : atDate a.date now.date = some d)
    (ht : atTime a now cfg = .ok t) (htw : t.wf = true)
    (hs : CleanSummary (summary.getD [])) (hcr : file.getLast? ≠ some 13)
    (h : runCmd u cfg now (.stop a summary) file = .ok file') :
    ∃ rs' bos' i t', parseDoc file' = .records rs' bos' ∧ StopTarget rs a d t i t' ∧
      Spec.Stop rs i t' ((summary.getD []).map decodeGo) rs' :=
  stop_refines_core u cfg now a summary file file' rs bos d t hp hd ht htw hs hcr h

theorem stop_rejected (u : UTab) (cfg : Config) (now : Instant) (a : AtArgs) (summary : Option (List Bytes))
    (file : Bytes) (rs : List Record) (bos : List BlockOut) (d : Date) (t : Time) (i : Nat) (r : Record)
    (hp : parseDoc file = .records rs bos) (hd : atDate a.date now.date = some d) (ht : atTime a now cfg = .ok t)
    (hi : Spec.targetIdx rs d = some i) (hr : rs[i]? = some r)
    (hrej : r.hasOpen = false ∨ ∃ pre post s sp x sm, r.entries = pre ++ ⟨.openRange s sp x, sm⟩ :: post ∧
      (∀ p ∈ pre, isOpen p.val = false) ∧ t.offset < s.offset) :
    ∀ f', runCmd u cfg now (.stop a summary) file ≠ .ok f' :=
  stop_rejected_core u cfg now a summary file rs bos d t i r hp hd ht hi hr hrej

/-- `switch` (corrected: `hrcr` — a summary taken over by `--resume` / `--resume-nth` from the record
has no line ending in a carriage return) -/
theorem switch_refines (u : UTab) (cfg : Config) (now : Instant) (a : AtArgs) (s : SummaryArgs)
    (file file' : Bytes) (rs : List Record) (bos : List BlockOut) (d : Date) (t : Time)
    (hp : parseDoc file = .records rs bos) (hd : atDate a.date now.date = some d)
    (ht : atTime a now cfg = .ok t) (htw : t.wf = true)
    (hs : CleanSummary (s.text.getD [])) (hcr : file.getLast? ≠ some 13)
    (hrcr : s.text = none → ∀ i r sm, Spec.targetIdx rs d = some i → rs[i]? = some r →
      Spec.chosenSummary none s.resume s.resumeNth r none = some sm → ∀ l ∈ sm, l.getLast? ≠ some '\r')
    (h : runCmd u cfg now (.switch a s) file = .ok file') :
    ∃ rs' bos' i r r1 sm, parseDoc file' = .records rs' bos' ∧ Spec.targetIdx rs d = some i ∧ rs[i]? = some r ∧
      Spec.CloseAt r t [] r1 ∧
      Spec.chosenSummary (s.text.map (·.map decodeGo)) s.resume s.resumeNth r1 none = some sm ∧
      Spec.Switch rs i t sm rs' :=
  switch_refines_core u cfg now a s file file' rs bos d t hp hd ht htw hs hcr hrcr h

end KlogV
