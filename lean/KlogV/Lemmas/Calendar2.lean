/- Calendar lemmas, part 2: ISO week, week/month/quarter/year periods. -/
import KlogV.Lemmas.Calendar1
namespace KlogV

theorem dby_step (y : Int) : daysBeforeYear (y + 1) = daysBeforeYear y + 365 ∨ daysBeforeYear (y + 1) = daysBeforeYear y + 366 := by
  unfold daysBeforeYear; omega

theorem isoWeek_spec (x : Date) (h : x.valid = true) :
    let th := dayNumber x + 4 - (x.weekday : Int)
    let Y := x.isoWeek.1
    let w := x.isoWeek.2
    daysBeforeYear Y ≤ th ∧ th < daysBeforeYear (Y + 1) ∧ 1 ≤ w ∧ w ≤ 53 ∧
      7 * ((w : Int) - 1) ≤ th - daysBeforeYear Y ∧ th - daysBeforeYear Y < 7 * w := by
  intro th Y w
  have hw := weekday_bounds x
  have h1 := dayNumber_ge_year x h
  have h2 := dayNumber_lt_next_year x h
  have s0 := dby_step ((x.y : Int) - 1)
  have s1 := dby_step (x.y : Int)
  have s2 := dby_step ((x.y : Int) + 1)
  have e0 : (x.y : Int) - 1 + 1 = x.y := by omega
  rw [e0] at s0
  have hth : th = dayNumber x + 4 - (x.weekday : Int) := rfl
  by_cases c1 : th < daysBeforeYear x.y
  · have hY : Y = (x.y : Int) - 1 := by
      show (Date.isoWeek x).1 = _
      unfold Date.isoWeek; simp only; rw [if_pos c1]
    have hW : w = ((th - daysBeforeYear ((x.y : Int) - 1)) / 7).toNat + 1 := by
      show (Date.isoWeek x).2 = _
      unfold Date.isoWeek; simp only; rw [if_pos c1]
    rw [hY, e0, hW]
    omega
  · by_cases c2 : th ≥ daysBeforeYear ((x.y : Int) + 1)
    · have hY : Y = (x.y : Int) + 1 := by
        show (Date.isoWeek x).1 = _
        unfold Date.isoWeek; simp only; rw [if_neg c1, if_pos c2]
      have hW : w = ((th - daysBeforeYear ((x.y : Int) + 1)) / 7).toNat + 1 := by
        show (Date.isoWeek x).2 = _
        unfold Date.isoWeek; simp only; rw [if_neg c1, if_pos c2]
      rw [hY, hW]
      omega
    · have hY : Y = (x.y : Int) := by
        show (Date.isoWeek x).1 = _
        unfold Date.isoWeek; simp only; rw [if_neg c1, if_neg c2]
      have hW : w = ((th - daysBeforeYear (x.y : Int)) / 7).toNat + 1 := by
        show (Date.isoWeek x).2 = _
        unfold Date.isoWeek; simp only; rw [if_neg c1, if_neg c2]
      rw [hY, hW]
      omega


theorem toMonday_spec (n : Nat) (x : Date) (h : x.valid = true) (hn : x.weekday ≤ n + 1) :
    (dayNumber x - ((x.weekday : Int) - 1) < 0 → toMonday n x = none) ∧
    (0 ≤ dayNumber x - ((x.weekday : Int) - 1) →
      ∃ s, toMonday n x = some s ∧ s.valid = true ∧ dayNumber s = dayNumber x - ((x.weekday : Int) - 1)) := by
  induction n generalizing x with
  | zero =>
    have hw := weekday_bounds x
    have hr := dayNumber_range x h
    have : x.weekday = 1 := by omega
    rw [this]
    refine ⟨by omega, fun _ => ⟨x, rfl, h, by omega⟩⟩
  | succ n ih =>
    have hw := weekday_bounds x
    have hr := dayNumber_range x h
    unfold toMonday
    by_cases h1 : x.weekday = 1
    · rw [h1]; simp only [beq_self_eq_true, if_true]
      refine ⟨by omega, fun _ => ⟨x, rfl, h, by omega⟩⟩
    · have : (x.weekday == 1) = false := by simp [h1]
      rw [this]; simp only [Bool.false_eq_true, if_false]
      have hwe := weekday_eq x
      cases hp : x.plusDays (-1) with
      | none =>
        rw [plusDays_none_iff x _ h] at hp
        simp only [Option.bind_none]
        refine ⟨fun _ => trivial, ?_⟩
        omega
      | some y =>
        have hy := plusDays_some x y _ h hp
        have hwy := weekday_eq y
        simp only [Option.bind_some]
        have hwn : y.weekday ≤ n + 1 := by omega
        have := ih y hy.1 hwn
        have e : dayNumber y - ((y.weekday : Int) - 1) = dayNumber x - ((x.weekday : Int) - 1) := by omega
        rw [e] at this
        exact this

theorem toSunday_spec (n : Nat) (x : Date) (h : x.valid = true) (hn : 7 ≤ n + x.weekday) :
    (dayNumber x + (7 - (x.weekday : Int)) > 3652424 → toSunday n x = none) ∧
    (dayNumber x + (7 - (x.weekday : Int)) ≤ 3652424 →
      ∃ s, toSunday n x = some s ∧ s.valid = true ∧ dayNumber s = dayNumber x + (7 - (x.weekday : Int))) := by
  induction n generalizing x with
  | zero =>
    have hw := weekday_bounds x
    have hr := dayNumber_range x h
    have : x.weekday = 7 := by omega
    rw [this]
    refine ⟨by omega, fun _ => ⟨x, rfl, h, by omega⟩⟩
  | succ n ih =>
    have hw := weekday_bounds x
    have hr := dayNumber_range x h
    unfold toSunday
    by_cases h1 : x.weekday = 7
    · rw [h1]; simp only [beq_self_eq_true, if_true]
      refine ⟨by omega, fun _ => ⟨x, rfl, h, by omega⟩⟩
    · have : (x.weekday == 7) = false := by simp [h1]
      rw [this]; simp only [Bool.false_eq_true, if_false]
      have hwe := weekday_eq x
      cases hp : x.plusDays 1 with
      | none =>
        rw [plusDays_none_iff x _ h] at hp
        simp only [Option.bind_none]
        refine ⟨fun _ => trivial, ?_⟩
        omega
      | some y =>
        have hy := plusDays_some x y _ h hp
        have hwy := weekday_eq y
        simp only [Option.bind_some]
        have hwn : 7 ≤ n + y.weekday := by omega
        have := ih y hy.1 hwn
        have e : dayNumber y + (7 - (y.weekday : Int)) = dayNumber x + (7 - (x.weekday : Int)) := by omega
        rw [e] at this
        exact this

theorem weekPeriod_some (x : Date) (h : x.valid = true)
    (h0 : 0 ≤ dayNumber x - ((x.weekday : Int) - 1)) (h1 : dayNumber x + (7 - (x.weekday : Int)) ≤ 3652424) :
    ∃ s u, weekPeriod x = some ⟨s, u⟩ ∧ s.valid = true ∧ u.valid = true ∧
      dayNumber s = dayNumber x - ((x.weekday : Int) - 1) ∧ dayNumber u = dayNumber x + (7 - (x.weekday : Int)) := by
  have hw := weekday_bounds x
  obtain ⟨s, hs, hsv, hsd⟩ := (toMonday_spec 7 x h (by omega)).2 h0
  obtain ⟨u, hu, huv, hud⟩ := (toSunday_spec 7 x h (by omega)).2 h1
  refine ⟨s, u, ?_, hsv, huv, hsd, hud⟩
  unfold weekPeriod; rw [hs, hu]

theorem weekPeriod_none_iff (x : Date) (h : x.valid = true) :
    weekPeriod x = none ↔ (dayNumber x - ((x.weekday : Int) - 1) < 0 ∨ dayNumber x + (7 - (x.weekday : Int)) > 3652424) := by
  have hw := weekday_bounds x
  constructor
  · intro hn
    apply Classical.byContradiction; intro hc
    obtain ⟨s, u, hp, _⟩ := weekPeriod_some x h (by omega) (by omega)
    rw [hp] at hn; cases hn
  · intro hc
    unfold weekPeriod
    rcases hc with hc | hc
    · rw [(toMonday_spec 7 x h (by omega)).1 hc]
    · rw [(toSunday_spec 7 x h (by omega)).1 hc]
      cases toMonday 7 x <;> rfl

theorem weekPeriod_spec' (x : Date) (h : x.valid = true) (p : Period) (hp : weekPeriod x = some p) :
    p.since.valid = true ∧ p.until_.valid = true ∧
      dayNumber p.since = dayNumber x - ((x.weekday : Int) - 1) ∧
      dayNumber p.until_ = dayNumber x + (7 - (x.weekday : Int)) := by
  have hw := weekday_bounds x
  have hnn : ¬ (weekPeriod x = none) := by rw [hp]; simp
  rw [weekPeriod_none_iff x h] at hnn
  obtain ⟨s, u, hp', hsv, huv, hsd, hud⟩ := weekPeriod_some x h (by omega) (by omega)
  rw [hp] at hp'
  cases hp'
  exact ⟨hsv, huv, hsd, hud⟩

theorem weekPeriod_spec (x : Date) (h : x.valid = true) (p : Period) (hp : weekPeriod x = some p) :
    p.since.valid = true ∧ p.until_.valid = true ∧ p.since.weekday = 1 ∧ p.until_.weekday = 7 ∧
      dayNumber p.until_ = dayNumber p.since + 6 ∧ dayNumber p.since ≤ dayNumber x ∧ dayNumber x ≤ dayNumber p.until_ := by
  obtain ⟨h1, h2, h3, h4⟩ := weekPeriod_spec' x h p hp
  have hw := weekday_bounds x
  have e := weekday_eq x
  have e1 := weekday_eq p.since
  have e2 := weekday_eq p.until_
  refine ⟨h1, h2, ?_, ?_, ?_, ?_, ?_⟩ <;> omega


theorem daysIn_pos (y m : Nat) : 28 ≤ daysIn y m ∧ daysIn y m ≤ 31 := by
  have := daysIn_spec y m
  have := leap_le y
  omega

theorem dayNumber_ge_month_start (x : Date) (h : x.valid = true) (m1 : Nat) (h1 : 1 ≤ m1) (h2 : m1 ≤ x.m) (b : Bool) :
    dayNumber ⟨x.y, m1, 1, b⟩ ≤ dayNumber x := by
  rw [valid_iff] at h
  have := dbm_mono x.y m1 x.m h1 h2
  unfold dayNumber; simp only; omega

theorem dayNumber_le_month_end (x : Date) (h : x.valid = true) (m2 : Nat) (h2 : x.m ≤ m2) (b : Bool) :
    dayNumber x ≤ dayNumber ⟨x.y, m2, daysIn x.y m2, b⟩ := by
  have h1 := dayNumber_lt_next_month x h
  rw [valid_iff] at h
  have := dbm_mono x.y (x.m + 1) (m2 + 1) (by omega) (by omega)
  rw [daysBeforeMonth_succ x.y m2 (by omega)] at this
  unfold dayNumber at *; simp only; omega

theorem monthPeriod_spec (x : Date) (h : x.valid = true) :
    let p := monthPeriod x
    p.since.valid = true ∧ p.until_.valid = true ∧ p.since.d = 1 ∧ p.until_.d = daysIn x.y x.m ∧
      p.since.y = x.y ∧ p.since.m = x.m ∧ p.until_.y = x.y ∧ p.until_.m = x.m ∧
      dayNumber p.since ≤ dayNumber x ∧ dayNumber x ≤ dayNumber p.until_ := by
  intro p
  have hv := (valid_iff x).1 h
  have hd := daysIn_pos x.y x.m
  refine ⟨?_, ?_, rfl, rfl, rfl, rfl, rfl, rfl, ?_, ?_⟩
  · rw [valid_iff]; show x.y ≤ 9999 ∧ 1 ≤ x.m ∧ x.m ≤ 12 ∧ 1 ≤ 1 ∧ 1 ≤ daysIn x.y x.m; omega
  · rw [valid_iff]; show x.y ≤ 9999 ∧ 1 ≤ x.m ∧ x.m ≤ 12 ∧ 1 ≤ daysIn x.y x.m ∧ daysIn x.y x.m ≤ daysIn x.y x.m; omega
  · exact dayNumber_ge_month_start x h x.m hv.2.1 (Nat.le_refl _) true
  · exact dayNumber_le_month_end x h x.m (Nat.le_refl _) true

theorem quarterPeriod_eq (x : Date) (h : x.valid = true) :
    quarterPeriod x = ⟨⟨x.y, 3 * x.quarter - 2, 1, true⟩, ⟨x.y, 3 * x.quarter, daysIn x.y (3 * x.quarter), true⟩⟩ := by
  have hq := quarter_spec x h
  have : x.quarter = 1 ∨ x.quarter = 2 ∨ x.quarter = 3 ∨ x.quarter = 4 := by omega
  unfold quarterPeriod
  rcases this with e | e | e | e <;> rw [e] <;> simp [daysIn_eq]

theorem quarterPeriod_spec (x : Date) (h : x.valid = true) :
    let p := quarterPeriod x
    p.since.valid = true ∧ p.until_.valid = true ∧ p.since = ⟨x.y, 3 * x.quarter - 2, 1, true⟩ ∧
      p.until_ = ⟨x.y, 3 * x.quarter, daysIn x.y (3 * x.quarter), true⟩ ∧
      dayNumber p.since ≤ dayNumber x ∧ dayNumber x ≤ dayNumber p.until_ := by
  intro p
  have hp : p = _ := quarterPeriod_eq x h
  have hq := quarter_spec x h
  have hv := (valid_iff x).1 h
  have hd := daysIn_pos x.y (3 * x.quarter - 2)
  have hd' := daysIn_pos x.y (3 * x.quarter)
  rw [hp]
  refine ⟨?_, ?_, rfl, rfl, ?_, ?_⟩
  · rw [valid_iff]; simp only; omega
  · rw [valid_iff]; simp only; omega
  · exact dayNumber_ge_month_start x h _ (by omega) (by omega) true
  · exact dayNumber_le_month_end x h _ (by omega) true

theorem yearPeriod_spec (x : Date) (h : x.valid = true) :
    let p := yearPeriod x
    p.since = ⟨x.y, 1, 1, true⟩ ∧ p.until_ = ⟨x.y, 12, 31, true⟩ ∧
      dayNumber p.since ≤ dayNumber x ∧ dayNumber x ≤ dayNumber p.until_ := by
  intro p
  have hv := (valid_iff x).1 h
  refine ⟨rfl, rfl, ?_, ?_⟩
  · exact dayNumber_ge_month_start x h 1 (by omega) (by omega) true
  · have := dayNumber_le_month_end x h 12 (by omega) true
    have e : daysIn x.y 12 = 31 := by simp [daysIn_eq]
    rw [e] at this; exact this


end KlogV
