/-
Helper lemmas for C04, part 3: the lines of the edited text are exactly the lines the reconciler
holds (no line is re-cut when the text is read again).
-/
import KlogV.Lemmas.Edits
import KlogV.Lemmas.Cut
import KlogV.Lemmas.RoundtripWF1
namespace KlogV.RefineLemmas
open KlogV.EditLemmas

/-- what the reconciler's list of lines inherits from the file it was read from -/
structure GoodLines (file : Bytes) (Lr : List Line) : Prop where
  split : splitLines (joinLines Lr) = Lr
  noLF : ∀ l ∈ Lr, LF ∉ l.text
  noCR : ∀ l ∈ Lr, l.ending = .none → l.text.getLast? ≠ some CR
  join : Lr = [] ∨ joinLines Lr = file

theorem joinLines_cons (l : Line) (ls : List Line) : joinLines (l :: ls) = l.original ++ joinLines ls := by
  simp [joinLines]

theorem joinLines_nil : joinLines [] = [] := rfl

theorem splitLines_nil : splitLines [] = [] := rfl

theorem goodLines_splitLines (file : Bytes) (hcr : file.getLast? ≠ some 13) : GoodLines file (splitLines file) := by
  have hsplit : splitLines (joinLines (splitLines file)) = splitLines file := by rw [joinLines_splitLines]
  have hnoLF := splitLines_text_noLF file
  refine ⟨hsplit, hnoLF, ?_, Or.inr (joinLines_splitLines file)⟩
  intro l hl hnone
  obtain ⟨A, B, hAB⟩ := List.append_of_mem hl
  have p1 := splitLines_parts file (A ++ [l]) B (by rw [hAB]; simp)
  have p2 := splitLines_parts file A (l :: B) hAB
  have horig : l.original = l.text := by simp [Line.original, hnone, Ending.bytes]
  have htne : l.text ≠ [] := by
    intro h0
    have : joinLines (l :: B) = joinLines B := by rw [joinLines_cons, horig, h0]; rfl
    have h1 := p2.2.1
    rw [this, p1.2.1] at h1
    have := congrArg List.length h1
    simp at this
  have hB : B = [] := by
    apply Classical.byContradiction
    intro hB
    rcases p1.2.2 hB with h | h
    · simp at h
    · rw [joinLines_append, joinLines_cons, joinLines_nil, List.append_nil, horig,
        getLast?_append_of_ne_nil _ _ htne] at h
      exact hnoLF l hl (List.mem_of_getLast? h)
  subst hB
  have hfile : file = joinLines A ++ l.text := by
    have := joinLines_splitLines file
    rw [hAB, joinLines_append, joinLines_cons, joinLines_nil, List.append_nil, horig] at this
    exact this.symm
  rw [hfile, getLast?_append_of_ne_nil _ _ htne] at hcr
  exact hcr

theorem goodLines_nil (file : Bytes) : GoodLines file [] :=
  ⟨rfl, by simp, by simp, Or.inl rfl⟩

/-- the reconciler's lines: all blocks of the file, flattened -/
theorem goodLines_blocks (file : Bytes) (hcr : file.getLast? ≠ some 13) : GoodLines file (blocksOf file).flatten := by
  by_cases h : blocksOf file = []
  · rw [h]; exact goodLines_nil file
  · have : (blocksOf file).flatten = splitLines file := blocksOfLines_flatten _ h
    rw [this]
    exact goodLines_splitLines file hcr

/-- a complete line that is read back as itself -/
def Clean (l : Line) : Prop :=
  LF ∉ l.text ∧ l.ending ≠ .none ∧ (l.ending = .lf → l.text.getLast? ≠ some CR)

theorem clean_split (l : Line) (h : Clean l) :
    splitLines l.original = [l] ∧ l.original.getLast? = some LF := by
  obtain ⟨text, ending⟩ := l
  obtain ⟨h1, h2, h3⟩ := h
  simp only at h1 h2 h3
  cases ending with
  | none => exact absurd rfl h2
  | lf =>
    refine ⟨?_, by simp [Line.original, Ending.bytes]⟩
    simp only [Line.original, Ending.bytes, splitLines]
    rw [splitRaw_line _ h1]
    simp only [List.map_cons, List.map_nil]
    rw [ofRaw_lf _ (h3 rfl)]
  | crlf =>
    refine ⟨?_, by simp [Line.original, Ending.bytes]⟩
    simp only [Line.original, Ending.bytes, splitLines]
    have e : text ++ [CR, LF] = (text ++ [CR]) ++ [LF] := by simp
    rw [e, splitRaw_line _ (by
      intro hm
      rcases List.mem_append.mp hm with hm | hm
      · exact h1 hm
      · simp [CR, LF] at hm)]
    simp only [List.map_cons, List.map_nil]
    rw [← e, ofRaw_crlf]

theorem clean_list (ls : List Line) (h : ∀ l ∈ ls, Clean l) :
    splitLines (joinLines ls) = ls ∧ (ls = [] ∨ (joinLines ls).getLast? = some LF) := by
  induction ls with
  | nil => exact ⟨rfl, Or.inl rfl⟩
  | cons l ls ih =>
    obtain ⟨c1, c2⟩ := clean_split l (h l (by simp))
    obtain ⟨i1, i2⟩ := ih (fun x hx => h x (by simp [hx]))
    refine ⟨?_, Or.inr ?_⟩
    · rw [joinLines_cons, splitLines_append _ _ (Or.inr c2), c1, i1]; rfl
    · rw [joinLines_cons]
      rcases i2 with rfl | i2
      · simpa [joinLines_nil] using c2
      · have hne : joinLines ls ≠ [] := by intro h0; rw [h0] at i2; simp at i2
        rw [getLast?_append_of_ne_nil _ _ hne]; exact i2

theorem split_new_append (new Y : List Line) (hnew : ∀ l ∈ new, Clean l)
    (hY : splitLines (joinLines Y) = Y) : splitLines (joinLines (new ++ Y)) = new ++ Y := by
  obtain ⟨c1, c2⟩ := clean_list new hnew
  rw [joinLines_append]
  rcases c2 with rfl | c2
  · simpa [joinLines_nil] using hY
  · rw [splitLines_append _ _ (Or.inr c2), c1, hY]

theorem original_getLast (l : Line) (h : l.ending ≠ .none) : l.original.getLast? = some LF := by
  obtain ⟨text, ending⟩ := l
  cases ending with
  | none => exact absurd rfl h
  | lf => simp [Line.original, Ending.bytes]
  | crlf => simp [Line.original, Ending.bytes]

theorem split_fixLast (file : Bytes) (Lr X Y : List Line) (G : GoodLines file Lr) (hXY : Lr = X ++ Y)
    (st : Style) (hst : st.lineEnding.1 ≠ .none) :
    splitLines (joinLines (fixLast st X)) = fixLast st X ∧
      (X = [] ∨ (joinLines (fixLast st X)).getLast? = some LF) := by
  rcases eq_nil_or_snoc X with rfl | ⟨D, l, rfl⟩
  · exact ⟨by simp [fixLast_nil, joinLines_nil, splitLines_nil], Or.inl rfl⟩
  · have hsplit := G.split
    rw [hXY] at hsplit
    have p1 := splitLines_parts _ (D ++ [l]) Y hsplit
    have p2 := splitLines_parts _ D [l] p1.1
    have hl : l ∈ Lr := by rw [hXY]; simp
    rw [fixLast_snoc]
    have hlast : ∀ l' : Line, l'.ending ≠ .none → (joinLines (D ++ [l'])).getLast? = some LF := by
      intro l' hl'
      rw [joinLines_append, joinLines_cons, joinLines_nil, List.append_nil]
      have := original_getLast l' hl'
      have hne : l'.original ≠ [] := by intro h0; rw [h0] at this; simp at this
      rw [getLast?_append_of_ne_nil _ _ hne]; exact this
    by_cases hn : l.ending = .none
    · have hclean : Clean (setEndingIfNone st l) := by
        rw [setEndingIfNone_eq]
        simp only [hn, if_true]
        exact ⟨G.noLF l hl, hst, fun _ => G.noCR l hl hn⟩
      obtain ⟨c1, c2⟩ := clean_split _ hclean
      refine ⟨?_, Or.inr (hlast _ hclean.2.1)⟩
      rw [joinLines_append, joinLines_cons, joinLines_nil, List.append_nil]
      have hD : joinLines D = [] ∨ (joinLines D).getLast? = some LF := by
        rcases p2.2.2 (by simp) with h | h
        · left; rw [h]; rfl
        · right; exact h
      rw [splitLines_append _ _ hD, p2.1, c1]
    · have : setEndingIfNone st l = l := by
        rw [setEndingIfNone_eq]; simp [hn]
      rw [this]
      exact ⟨p1.1, Or.inr (hlast l hn)⟩

/-- the edited list of lines is read back as itself -/
theorem insert_split (file : Bytes) (Lr : List Line) (G : GoodLines file Lr)
    (st : Style) (hst : st.lineEnding.1 ≠ .none) (idx : Nat) (new : List Line) (hnew : ∀ l ∈ new, Clean l) :
    splitLines (joinLines (fixLast st (Lr.take idx) ++ new ++ Lr.drop idx)) =
      fixLast st (Lr.take idx) ++ new ++ Lr.drop idx := by
  have hXY : Lr = Lr.take idx ++ Lr.drop idx := (List.take_append_drop idx Lr).symm
  obtain ⟨f1, f2⟩ := split_fixLast file Lr _ _ G hXY st hst
  have hsplit := G.split
  rw [hXY] at hsplit
  have p1 := splitLines_parts _ _ _ hsplit
  have hY := split_new_append new (Lr.drop idx) hnew p1.2.1
  rw [List.append_assoc, joinLines_append]
  have hJ : joinLines (fixLast st (Lr.take idx)) = [] ∨ (joinLines (fixLast st (Lr.take idx))).getLast? = some LF := by
    rcases f2 with h | h
    · left; rw [h]; rfl
    · right; exact h
  rw [splitLines_append _ _ hJ, f1, hY]

/-- the edited text does not end in a lone carriage return either -/
theorem insert_noCR (file : Bytes) (hcr : file.getLast? ≠ some 13) (Lr : List Line) (G : GoodLines file Lr)
    (st : Style) (idx : Nat) (new : List Line) (hnew : ∀ l ∈ new, Clean l) (hne : new ≠ []) :
    (joinLines (fixLast st (Lr.take idx) ++ new ++ Lr.drop idx)).getLast? ≠ some 13 := by
  obtain ⟨_, c2⟩ := clean_list new hnew
  have c2 : (joinLines new).getLast? = some LF := by
    rcases c2 with h | h
    · exact absurd h hne
    · exact h
  have hnn : joinLines new ≠ [] := by intro h0; rw [h0] at c2; simp at c2
  rw [joinLines_append, joinLines_append]
  by_cases hY : joinLines (Lr.drop idx) = []
  · rw [hY, List.append_nil, getLast?_append_of_ne_nil _ _ hnn, c2]
    simp [LF]
  · rw [getLast?_append_of_ne_nil _ _ hY]
    have hLr : Lr ≠ [] := by intro h0; rw [h0] at hY; simp [joinLines_nil] at hY
    have hj : joinLines Lr = file := by
      rcases G.join with h | h
      · exact absurd h hLr
      · exact h
    have : joinLines Lr = joinLines (Lr.take idx) ++ joinLines (Lr.drop idx) := by
      rw [← joinLines_append, List.take_append_drop]
    rw [← hj, this, getLast?_append_of_ne_nil _ _ hY] at hcr
    exact hcr

end KlogV.RefineLemmas
