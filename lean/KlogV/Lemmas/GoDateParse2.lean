/- Helper lemmas for KlogV/Lemmas/GoDateParse.lean, part 2: evaluating the translated `NewDateFromString`. Core Lean only. -/
import KlogV.GoSem.AbsDate
import KlogV.Props.GoCal
import KlogV.Props.Rx.Model
import KlogV.Lemmas.GoCalA1
import KlogV.Lemmas.GoCalC2
namespace KlogV.GoL.DP
open KlogV.Go KlogV.Rx

set_option linter.unusedSimpArgs false

theorem civilParseDate_lit (y1 y2 y3 y4 m1 m2 d1 d2 : Char) :
    civilParseDate [y1, y2, y3, y4, '-', m1, m2, '-', d1, d2] =
      if [y1, y2, y3, y4, m1, m2, d1, d2].all isDigit then
        (if 1 ≤ (digitsVal [m1, m2] : Int) ∧ (digitsVal [m1, m2] : Int) ≤ 12 ∧ 1 ≤ (digitsVal [d1, d2] : Int) ∧
            (digitsVal [d1, d2] : Int) ≤ daysInInt (digitsVal [y1, y2, y3, y4] : Int) (digitsVal [m1, m2] : Int)
         then pure ⟨(digitsVal [y1, y2, y3, y4] : Int), (digitsVal [m1, m2] : Int), (digitsVal [d1, d2] : Int)⟩
         else throw (.err "parsing time: out of range"))
      else throw (.err "parsing time: cannot parse") := rfl

theorem idx4_1 {α} (a b c d : α) : idx [a, b, c, d] 1 = .ok b := rfl
theorem idx4_2 {α} (a b c d : α) : idx [a, b, c, d] 2 = .ok c := rfl
theorem idx4_3 {α} (a b c d : α) : idx [a, b, c, d] 3 = .ok d := rfl
theorem len4_ne {α} (a b c d : α) : (len [a, b, c, d] != 4) = false := rfl
theorem len0_ne {α} : (len ([] : List α) != 4) = true := rfl
theorem l4_ne (a b c d : Char) : ([a, b, c, d] == ['0']) = false := by simp
theorem l2_ne (a b : Char) : ([a, b] == ['0']) = false := by simp
theorem add_str (a b : Str) : add a b = a ++ b := rfl

theorem digit_beq_dash (c : Char) (h : isDigit c = true) : (c == '-') = false := by
  have := C.c_digit_ne_dash c h
  simpa using this

theorem dash_beq_digit (c : Char) (h : isDigit c = true) : ('-' == c) = false := by
  have := C.c_digit_ne_dash c h
  rw [beq_eq_false_iff_ne]
  exact fun e => this e.symm

theorem valid_iff (Y M D : Nat) (b : Bool) (hY : Y ≤ 9999) :
    Date.valid ⟨Y, M, D, b⟩ = true ↔
      (1 ≤ (M : Int) ∧ (M : Int) ≤ 12 ∧ 1 ≤ (D : Int) ∧ (D : Int) ≤ daysInInt (Y : Int) (M : Int)) := by
  rw [daysInInt_cast]
  simp only [Date.valid, Bool.and_eq_true, decide_eq_true_eq]
  omega

theorem newDate_shape (find : Str → List Str) (hf : DateFind find) (y1 y2 y3 y4 a m1 m2 b d1 d2 : Char)
    (hdig : [y1, y2, y3, y4, m1, m2, d1, d2].all isDigit = true) (ha : a = '-' ∨ a = '/') (hb : b = '-' ∨ b = '/') :
    (GoCal.NewDateFromString find [y1, y2, y3, y4, a, m1, m2, b, d1, d2]).res =
      (optRes (if a = b ∧ Date.valid ⟨digitsVal [y1, y2, y3, y4], digitsVal [m1, m2], digitsVal [d1, d2], a == '-'⟩ = true
        then some (⟨digitsVal [y1, y2, y3, y4], digitsVal [m1, m2], digitsVal [d1, d2], a == '-'⟩ : Date) else none)).map
        Date.toGo := by
  have hfind := hf.1 y1 y2 y3 y4 a m1 m2 b d1 d2 hdig ha hb
  have hdig' := hdig
  simp only [List.all_cons, List.all_nil, Bool.and_true, Bool.and_eq_true] at hdig
  obtain ⟨h1, h2, h3, h4, h5, h6, h7, h8⟩ := hdig
  have hY := C.c_dv4_le y1 y2 y3 y4 h1 h2 h3 h4
  unfold GoCal.NewDateFromString
  simp only [hfind, idx4_1, idx4_2, idx4_3, len4_ne, l4_ne, l2_ne, add_str, bind, Except.bind, pure, Except.pure,
    Bool.false_eq_true, if_false, List.cons_append, List.nil_append, civilParseDate_lit, hdig', if_true]
  generalize digitsVal [y1, y2, y3, y4] = Y at hY ⊢
  generalize digitsVal [m1, m2] = M
  generalize digitsVal [d1, d2] = D
  have hY' : 0 ≤ (Y : Int) ∧ (Y : Int) ≤ 9999 := by omega
  have q1 : ('/' == '-') = false := by decide
  have q2 : ('-' == '/') = false := by decide
  rcases ha with rfl | rfl <;> rcases hb with rfl | rfl <;>
    simp only [stringsCount, stringsContains, List.filter, List.contains_cons, List.contains_nil, List.length_cons,
      List.length_nil, digit_beq_dash _ h1, digit_beq_dash _ h2, digit_beq_dash _ h3, digit_beq_dash _ h4,
      digit_beq_dash _ h5, digit_beq_dash _ h6, digit_beq_dash _ h7, digit_beq_dash _ h8,
      dash_beq_digit _ h1, dash_beq_digit _ h2, dash_beq_digit _ h3, dash_beq_digit _ h4,
      dash_beq_digit _ h5, dash_beq_digit _ h6, dash_beq_digit _ h7, dash_beq_digit _ h8, beq_self_eq_true, q1, q2,
      Bool.or_false, Bool.or_true, Bool.false_or, Bool.true_or]
  · by_cases hv : 1 ≤ (M : Int) ∧ (M : Int) ≤ 12 ∧ 1 ≤ (D : Int) ∧ (D : Int) ≤ daysInInt (Y : Int) (M : Int)
    · have hval := (valid_iff Y M D true hY).2 hv
      simp [hv, hval, try2, pure, Except.pure, isNil, GNil.isNil, CivilDate.IsValid, civil2Date_spec, hY', G.res, optRes,
        Res.map, Date.toGo]
    · have hval : ¬ Date.valid ⟨Y, M, D, true⟩ = true := fun h => hv ((valid_iff Y M D true hY).1 h)
      simp [hv, hval, try2, pure, Except.pure, isNil, GNil.isNil, throw, throwThe, MonadExceptOf.throw, G.res, optRes, Res.map]
  · simp [throw, throwThe, MonadExceptOf.throw, G.res, optRes, Res.map]
  · simp [throw, throwThe, MonadExceptOf.throw, G.res, optRes, Res.map]
  · by_cases hv : 1 ≤ (M : Int) ∧ (M : Int) ≤ 12 ∧ 1 ≤ (D : Int) ∧ (D : Int) ≤ daysInInt (Y : Int) (M : Int)
    · have hval := (valid_iff Y M D false hY).2 hv
      simp [hv, hval, try2, pure, Except.pure, isNil, GNil.isNil, CivilDate.IsValid, civil2Date_spec, hY', G.res, optRes,
        Res.map, Date.toGo]
    · have hval : ¬ Date.valid ⟨Y, M, D, false⟩ = true := fun h => hv ((valid_iff Y M D false hY).1 h)
      simp [hv, hval, try2, pure, Except.pure, isNil, GNil.isNil, throw, throwThe, MonadExceptOf.throw, G.res, optRes, Res.map]

end KlogV.GoL.DP
