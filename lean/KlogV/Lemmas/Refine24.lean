/-
C04, part 24: `track` of a second open range is rejected.
-/
import KlogV.Lemmas.Refine23
namespace KlogV.RefineLemmas
open KlogV.EditLemmas

/-! ## what `Denotes` says about the lines of the entry -/

theorem parseValue_nil (p0 : Int) : ∃ a b, parseValue p0 [] = .bad a b := ⟨_, _, rfl⟩

theorem indentatorOf_indent_nil (ind : List Char) (h : Spec.Indent ind) : indentatorOf (ind ++ []) = some ind := by
  rcases h with rfl | rfl | rfl | rfl <;> decide

theorem denotes_first_ne (ind : List Char) (hi : Spec.Indent ind) (rest : List Bytes) (e : Entry)
    (h : Denotes ind ([] :: rest) e) : False := by
  obtain ⟨first, rest', he, hpr⟩ := h
  obtain ⟨rfl, rfl⟩ := List.cons.inj he
  rw [decodeGo_nil, denotes_iff _ _ _ _ (indentatorOf_indent_nil ind hi)] at hpr
  obtain ⟨_, g2, _⟩ := hpr
  rw [entriesGo_eq] at g2
  simp only [stepsGo] at g2
  have e1 : entryStep ind {} 1 (ind ++ []) = entryStepB ind {} 1 (ind ++ []) := by
    rw [entryStep_eq]; rfl
  rw [e1, entryStepB_prefix] at g2
  obtain ⟨a, b, hbad⟩ := parseValue_nil (ind.length : Int)
  have hne : (if headSpTab [] = true then
        ({ ({} : PState) with stopped := true, errs := ({} : PState).errs ++ [⟨1, 0, (ind ++ []).length, .illegalIndentation⟩] } : PState)
      else match parseValue (ind.length : Int) [] with
        | .panic => { ({} : PState) with panicked := true }
        | .bad pos len => { ({} : PState) with errs := ({} : PState).errs ++ [⟨1, pos, len, .malformedEntry⟩] }
        | .illegalRange pos len => { ({} : PState) with errs := ({} : PState).errs ++ [⟨1, pos, len, .illegalRange⟩] }
        | .ok v =>
          let first : List Char := match v.rest with
            | c :: r => if isSpTab c then r else []
            | [] => []
          { ({} : PState) with pending := some ⟨v.val, [first], 1, v.startPos, v.spanLen⟩ }).errs ≠ [] := by
    rw [hbad]
    simp [headSpTab]
  have hm := (stepsGo_mono ind (rest.map (fun l => ind ++ ind ++ decodeGo l)) _ 2).1 hne
  exact commit_errs_mono _ hm g2

/-- every continuation line of a run without errors is an acceptable summary line -/
theorem conts_ok (ind : List Char) (conts : List (List Char)) : ∀ (a : PState) (nr : Nat), FreshInv a →
    (a.stopped = true → a.errs ≠ []) →
    (∀ c ∈ conts, (ind ++ ind).isPrefixOf c = true) →
    (stepsGo ind a nr conts).errs = [] → (stepsGo ind a nr conts).panicked = false →
    ∀ c ∈ conts, okEntrySummaryCont (c.drop (ind ++ ind).length) = true := by
  induction conts with
  | nil => intro a nr _ _ _ _ _ c hc; cases hc
  | cons c cs ih =>
    intro a nr hf hst hd he hp
    simp only [stepsGo] at he hp
    have hm := stepsGo_mono ind cs (entryStep ind a nr c) (nr + 1)
    have hm0 := entryStep_mono ind a nr c
    have e1 : (entryStep ind a nr c).errs = [] := by
      apply Classical.byContradiction; intro hn; exact hm.1 hn he
    have e0 : a.errs = [] := by
      apply Classical.byContradiction; intro hn; exact hm0.1 hn e1
    have p1 : (entryStep ind a nr c).panicked = false := by
      cases hx : (entryStep ind a nr c).panicked with
      | false => rfl
      | true => rw [hm.2.1 hx] at hp; cases hp
    have p0 : a.panicked = false := by
      cases hx : a.panicked with
      | false => rfl
      | true => rw [hm0.2.1 hx] at p1; cases p1
    have s0 : a.stopped = false := by
      cases hx : a.stopped with
      | false => rfl
      | true => exact absurd e0 (hst hx)
    obtain ⟨f1, f2, f3⟩ := hf
    obtain ⟨p, hpend⟩ : ∃ p, a.pending = some p := by
      rcases f3 with f3 | f3 | f3
      · cases h : a.pending with
        | none => rw [h] at f3; cases f3
        | some p => exact ⟨p, rfl⟩
      · exact absurd e0 f3
      · rw [p0] at f3; cases f3
    have hcok : okEntrySummaryCont (c.drop (ind ++ ind).length) = true := by
      cases hok : okEntrySummaryCont (c.drop (ind ++ ind).length) with
      | true => rfl
      | false =>
        exfalso
        rw [entryStep_eq] at e1
        simp only [s0, p0, Bool.or_self, Bool.false_eq_true, if_false, hpend, hd c (by simp), hok] at e1
        simp at e1
    intro x hx
    rcases List.mem_cons.mp hx with rfl | hx
    · exact hcok
    · exact ih _ _ (entryStep_fresh ind a nr c ⟨f1, f2, f3⟩ (hd c (by simp))) (hm0.2.2 hst)
        (fun y hy => hd y (by simp [hy])) he hp x hx

theorem blank_bytes_summary (s : Bytes) (h : okEntrySummaryCont (decodeGo s) = true) : s.all isBlankByte = false := by
  cases hb : s.all isBlankByte with
  | false => rfl
  | true =>
    exfalso
    rw [List.all_eq_true] at hb
    have hlt : ∀ b ∈ s, b.toNat < 0x80 := by
      intro b hbm
      have := hb b hbm
      simp only [isBlankByte, Bool.or_eq_true, beq_iff_eq] at this
      rcases this with rfl | rfl <;> decide
    have hdec : decodeGo s = asciiChars s := by
      have := decodeGo_append_ascii s hlt []
      simpa [decodeGo_nil] using this
    rw [hdec] at h
    simp only [okEntrySummaryCont, Bool.and_eq_true, Bool.not_eq_true'] at h
    have hall : (asciiChars s).all isZsTab = true := by
      rw [List.all_eq_true]
      intro c hc
      obtain ⟨b, hbm, rfl⟩ := List.mem_map.mp hc
      have := hb b hbm
      simp only [isBlankByte, Bool.or_eq_true, beq_iff_eq] at this
      rcases this with rfl | rfl <;> decide
    rw [hall] at h
    exact absurd h.2 (by simp)

/-- the lines of an entry that denotes something are not blank (except possibly for a first
line starting with a blank, which `appendEntry` refuses) -/
theorem denotes_lines_not_blank (ind : List Char) (hi : Spec.Indent ind) (b0 : UInt8) (tl : Bytes) (rest : List Bytes)
    (hb0 : isBlankByte b0 = false) (e : Entry) (h : Denotes ind ((b0 :: tl) :: rest) e) :
    ∀ l ∈ (b0 :: tl) :: rest, l.all isBlankByte = false := by
  intro l hl
  rcases List.mem_cons.mp hl with rfl | hl
  · simp [hb0]
  · obtain ⟨first, rest', he, hpr⟩ := h
    obtain ⟨rfl, rfl⟩ := List.cons.inj he
    obtain ⟨i, him, rfl⟩ := indent_ascii ind hi
    obtain ⟨f1, _⟩ := entry_first_line i (b0 :: tl) him b0 tl rfl hb0
    rw [denotes_iff _ _ _ _ f1, entriesGo_eq] at hpr
    obtain ⟨_, g2, g3⟩ := hpr
    simp only [stepsGo] at g2 g3
    have e1 : ∀ (l : List Char), entryStep (asciiChars i) {} 1 l = entryStepB (asciiChars i) {} 1 l := by
      intro l; rw [entryStep_eq]; rfl
    rw [e1] at g2 g3
    have g2' : (stepsGo (asciiChars i) (entryStepB (asciiChars i) {} 1 (asciiChars i ++ decodeGo (b0 :: tl))) 2
        (rest.map (fun l => asciiChars i ++ asciiChars i ++ decodeGo l))).errs = [] := by
      apply Classical.byContradiction; intro hn; exact commit_errs_mono _ hn g2
    rw [commit_panicked] at g3
    have hst : (entryStepB (asciiChars i) {} 1 (asciiChars i ++ decodeGo (b0 :: tl))).stopped = true →
        (entryStepB (asciiChars i) {} 1 (asciiChars i ++ decodeGo (b0 :: tl))).errs ≠ [] :=
      (entryStepB_mono (asciiChars i) {} 1 _).2.2 (by intro h; cases h)
    have hok := conts_ok (asciiChars i) _ _ 2 (entryStepB_fresh (asciiChars i) 1 _) hst
      (entry_cont_lines (asciiChars i) rest) g2' g3
      (asciiChars i ++ asciiChars i ++ decodeGo l) (List.mem_map.mpr ⟨l, hl, rfl⟩)
    rw [List.drop_left] at hok
    exact blank_bytes_summary l hok

/-- `track` of an open range into a record that has one is rejected (for a file that does not
end in a lone carriage return) -/
theorem track_second_open_rejected_core (u : UTab) (cfg : Config) (now : Instant) (sel : DateSel) (entry : List Bytes)
    (file : Bytes) (rs : List Record) (bos : List BlockOut) (d : Date) (i : Nat) (r : Record) (ind : List Char) (e : Entry)
    (hp : parseDoc file = .records rs bos) (hd : atDate sel now.date = some d)
    (ht : Spec.targetIdx rs d = some i) (hr : rs[i]? = some r) (ho : r.hasOpen = true)
    (hden : Denotes ind entry e) (hopen : isOpen e.val = true) (hi : Spec.Indent ind) (hclean : ∀ l ∈ entry, CleanLine l)
    (hcr : file.getLast? ≠ some 13) :
    ∀ f', runCmd u cfg now (.track sel entry) file ≠ .ok f' := by
  intro f' h
  obtain ⟨r0, r1, rs', bos', hc, ha, hf, hp'⟩ := runCmd_track_inv u cfg now sel entry file f' rs bos d hp hd h
  obtain ⟨first, rest, he, _⟩ := id hden
  subst he
  cases first with
  | nil => exact denotes_first_ne ind hi rest e hden
  | cons b0 tl =>
  have hb0 : isBlankByte b0 = false := by
    unfold Reconciler.appendEntry at ha
    simp only at ha
    split at ha
    · cases ha
    · rename_i hb; simpa [isBlankByte] using hb
  have hnb := denotes_lines_not_blank ind hi b0 tl rest hb0 e hden
  obtain ⟨a1, _, _, _, _⟩ := appendEntry_spec r0 r1 _ ha
  subst hf
  rw [a1] at hp'
  rcases reconcilerAtRecord_cases d rs bos (bos_length file rs bos hp) with ⟨_, c2⟩ | ⟨r_, bo, i', c1, c2, c3, c4⟩
  · rw [ht] at c2; cases c2
  · rw [ht] at c1
    cases c1
    rw [hr] at c2
    cases c2
    rw [c4, firstCreator_some] at hc
    cases hc
    obtain ⟨B1, B2, pre, post, hlL, restL, b', G, s1, s2, s3, s4, s5, s6, s7, s8⟩ :=
      track_at_record_setup file hcr rs bos hp i r bo hr c3 (b0 :: tl) rest hclean hnb
    obtain ⟨_, q2, _, _⟩ := parseDoc_records _ rs' bos' hp'
    rw [s3] at q2
    have hk : (B1 ++ b' :: B2)[i]? = some b' := by
      rw [List.getElem?_append_right (by omega)]
      simp [s2]
    obtain ⟨r'', _, k2⟩ := map_getElem parseBlock ParseOut.record _ rs' i b' q2 hk
    generalize hst : elect (determine r bo.lines) rs (bos.map (·.lines)) = st at G s3 s4 s7 s8 hp' q2
    obtain ⟨f1, f2⟩ := entry_first_line st.indentation.1 (b0 :: tl) G.ind b0 tl rfl hb0
    rw [s5] at s6
    rw [s7] at k2
    have hden' := denotes_transfer ind (asciiChars st.indentation.1) hi (indent_is_Indent _ G.ind) b0 tl rest hb0 e hden
    obtain ⟨first', rest', he', hpr'⟩ := hden'
    obtain ⟨rfl, rfl⟩ := List.cons.inj he'
    exact parseRecord_append_open_rejected pre.length (decodeGo hlL.text) (restL.map (fun l => decodeGo l.text))
      (asciiChars st.indentation.1) (asciiChars st.indentation.1 ++ decodeGo (b0 :: tl))
      (rest.map (fun l => asciiChars st.indentation.1 ++ asciiChars st.indentation.1 ++ decodeGo l)) r e s6 f1 f2
      (entry_cont_lines (asciiChars st.indentation.1) rest) s8 hpr' hopen ho r'' k2

end KlogV.RefineLemmas
