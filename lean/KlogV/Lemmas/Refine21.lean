/-
C04, part 21: `track` — the refinement theorem.
-/
import KlogV.Lemmas.Refine20
namespace KlogV.RefineLemmas
open KlogV.EditLemmas

theorem firstCreator_none_some (r : Reconciler) : firstCreator [none, some r] = some r := rfl
theorem firstCreator_some (r : Reconciler) (x : Option Reconciler) : firstCreator [some r, x] = some r := rfl

theorem bos_length (file : Bytes) (rs : List Record) (bos : List BlockOut) (hp : parseDoc file = .records rs bos) :
    rs.length = bos.length := by
  obtain ⟨_, _, p3, p4⟩ := parseDoc_records file rs bos hp
  rw [p4, ← p3]; simp

/-- `track` into an existing record -/
theorem track_existing (file : Bytes) (hcr : file.getLast? ≠ some 13) (rs : List Record) (bos : List BlockOut)
    (hp : parseDoc file = .records rs bos) (i : Nat) (r : Record) (bo : BlockOut)
    (hr : rs[i]? = some r) (hbo : bos[i]? = some bo) (b0 : UInt8) (tl : Bytes) (rest : List Bytes)
    (hb0 : isBlankByte b0 = false)
    (hclean : ∀ l ∈ (b0 :: tl) :: rest, CleanLine l) (hnb : ∀ l ∈ (b0 :: tl) :: rest, l.all isBlankByte = false)
    (rs' : List Record) (bos' : List BlockOut)
    (hp' : parseDoc (joinLines (insertLines (elect (determine r bo.lines) rs (bos.map (·.lines))) (bos.map (·.lines)).flatten
        (indexOfLastSignificantLine bo.first bo.lines) (toMultilineEntryTexts [] ((b0 :: tl) :: rest)))) = .records rs' bos') :
    (joinLines (insertLines (elect (determine r bo.lines) rs (bos.map (·.lines))) (bos.map (·.lines)).flatten
        (indexOfLastSignificantLine bo.first bo.lines) (toMultilineEntryTexts [] ((b0 :: tl) :: rest)))).getLast? ≠ some 13 ∧
    ∃ ind e, Spec.Indent ind ∧ Denotes ind ((b0 :: tl) :: rest) e ∧
      rs' = rs.take i ++ [{ r with entries := r.entries ++ [e] }] ++ rs.drop (i + 1) := by
  obtain ⟨B1, B2, pre, post, hlL, restL, b', G, s1, s2, s3, s4, s5, s6, s7, s8⟩ :=
    track_at_record_setup file hcr rs bos hp i r bo hr hbo (b0 :: tl) rest hclean hnb
  refine ⟨s4, ?_⟩
  obtain ⟨_, p2, _, _⟩ := parseDoc_records file rs bos hp
  obtain ⟨_, q2, _, _⟩ := parseDoc_records _ rs' bos' hp'
  rw [s1] at p2
  rw [s3] at q2
  obtain ⟨r_, r', k1, k2, k3, k4⟩ := records_replace B1 bo.lines b' B2 rs rs' p2 q2
  rw [s2] at k1 k4
  rw [hr] at k1
  cases k1
  generalize hst : elect (determine r bo.lines) rs (bos.map (·.lines)) = st at G s3 s4 s7 s8 hp' q2 ⊢
  obtain ⟨f1, f2⟩ := entry_first_line st.indentation.1 (b0 :: tl) G.ind b0 tl rfl hb0
  rw [s5] at s6
  rw [s7] at k3
  have hconts := entry_cont_lines (asciiChars st.indentation.1) rest
  obtain ⟨e, g1, g2⟩ := parseRecord_append_entry pre.length (decodeGo hlL.text) (restL.map (fun l => decodeGo l.text))
    (asciiChars st.indentation.1) (asciiChars st.indentation.1 ++ decodeGo (b0 :: tl))
    (rest.map (fun l => asciiChars st.indentation.1 ++ asciiChars st.indentation.1 ++ decodeGo l)) r r' s6 k3 f1 f2 hconts s8
  refine ⟨asciiChars st.indentation.1, e, indent_is_Indent _ G.ind, ⟨b0 :: tl, rest, rfl, g2⟩, ?_⟩
  rw [k4, g1]

/-- `track` when no record has the date -/
theorem track_fresh (file : Bytes) (hcr : file.getLast? ≠ some 13) (rs : List Record) (bos : List BlockOut)
    (hp : parseDoc file = .records rs bos) (d : Date) (hv : d.valid = true) (fmt : Reformat Bool) (sh : Option Int)
    (b0 : UInt8) (tl : Bytes) (rest : List Bytes) (hb0 : isBlankByte b0 = false)
    (hclean : ∀ l ∈ (b0 :: tl) :: rest, CleanLine l) (hnb : ∀ l ∈ (b0 :: tl) :: rest, l.all isBlankByte = false)
    (rs' : List Record) (bos' : List BlockOut)
    (hp' : parseDoc (joinLines (insertLines (reconcilerForNewRecord d fmt { should := sh } rs bos).style
        (reconcilerForNewRecord d fmt { should := sh } rs bos).lines
        (reconcilerForNewRecord d fmt { should := sh } rs bos).lastLine
        (toMultilineEntryTexts [] ((b0 :: tl) :: rest)))) = .records rs' bos') :
    (joinLines (insertLines (reconcilerForNewRecord d fmt { should := sh } rs bos).style
        (reconcilerForNewRecord d fmt { should := sh } rs bos).lines
        (reconcilerForNewRecord d fmt { should := sh } rs bos).lastLine
        (toMultilineEntryTexts [] ((b0 :: tl) :: rest)))).getLast? ≠ some 13 ∧
    ∃ ind e rec, Spec.Indent ind ∧ Denotes ind ((b0 :: tl) :: rest) e ∧
      Spec.InsertedAt rs (Spec.insertPos rs d) rec rs' ∧ Spec.SameDate rec.date d ∧ rec.shouldMins = sh.getD 0 ∧
      rec.summary = [] ∧ rec.entries = [e] := by
  have hstyle : (reconcilerForNewRecord d fmt { should := sh } rs bos).style = elect {} rs (bos.map (·.lines)) :=
    (reconcilerForNewRecord_lines d fmt { should := sh } rs bos (by intro s hs; simp at hs)).1
  rw [hstyle] at hp' ⊢
  have hN := track_new_lines file rs bos hp d fmt sh
    (entryLinesOf (elect {} rs (bos.map (·.lines))) (b0 :: tl) rest)
  generalize hst : elect {} rs (bos.map (·.lines)) = st at *
  have G : GoodStyle st := by rw [← hst]; exact goodStyle_new rs _
  generalize hx : writtenDate d fmt st = x at hN
  obtain ⟨xs, xv⟩ : Spec.SameDate x d ∧ x.valid = d.valid := by rw [← hx]; exact writtenDate_same _ _ _
  rw [insertLines_ins, entry_lines_eq st G _ _ hclean] at hp' ⊢
  have hRECclean : ∀ l ∈ (⟨encode (hlChars x sh), st.lineEnding.1⟩ : Line) :: entryLinesOf st (b0 :: tl) rest, Clean l := by
    intro l hl
    rcases List.mem_cons.mp hl with rfl | hl
    · obtain ⟨h1, h2⟩ := hlChars_clean x sh
      exact ⟨h1, G.ending, fun _ => h2⟩
    · exact entry_lines_clean st G _ _ hclean l hl
  have hRECsig : AllSig ((⟨encode (hlChars x sh), st.lineEnding.1⟩ : Line) :: entryLinesOf st (b0 :: tl) rest) := by
    intro l hl
    rcases List.mem_cons.mp hl with rfl | hl
    · exact hlChars_not_blank x sh
    · exact entry_lines_sig st _ _ hnb l hl
  obtain ⟨rec, k1, k2, k3⟩ := new_record_generic file hcr rs bos hp d st G _ hRECclean hRECsig (by simp) _ hN rs' bos' hp'
  refine ⟨k3, ?_⟩
  rw [List.map_cons, entry_lines_decode st G] at k1
  simp only [decodeGo_encode] at k1
  obtain ⟨hd', e1, _, _, e4⟩ := parseRecord_headline_only 0 _ _ rec k1
  obtain ⟨f1, f2⟩ := entry_first_line st.indentation.1 (b0 :: tl) G.ind b0 tl rfl hb0
  obtain ⟨e, g1, g2⟩ := parseRecord_append_entry 0 (hlChars x sh) [] (asciiChars st.indentation.1) _ _ _ rec e4
    (by simpa using k1) f1 f2 (entry_cont_lines _ rest) (by intro y hy; simp [summaryGo] at hy)
  obtain ⟨h1, h2⟩ := parseHeadline_hlChars 0 x (by rw [xv]; exact hv) sh hd' e1
  refine ⟨asciiChars st.indentation.1, e, rec, indent_is_Indent _ G.ind, ⟨b0 :: tl, rest, rfl, g2⟩, k2, ?_, ?_, ?_, ?_⟩
  · rw [g1]; simp only; rw [h1]; exact xs
  · rw [g1]; simp only [Record.shouldMins]; exact h2
  · rw [g1]
  · rw [g1]; rfl

/-- `track`, corrected statement, with the last byte of the new file for use in histories -/
theorem track_refines_strong (u : UTab) (cfg : Config) (now : Instant) (sel : DateSel) (entry : List Bytes)
    (file file' : Bytes) (rs : List Record) (bos : List BlockOut) (d : Date)
    (hp : parseDoc file = .records rs bos) (hd : atDate sel now.date = some d)
    (hclean : ∀ l ∈ entry, CleanLine l) (hne : entry ≠ []) (hnb : ∀ l ∈ entry, l.all isBlankByte = false)
    (hv : Spec.targetIdx rs d = none → d.valid = true) (hcr : file.getLast? ≠ some 13)
    (h : runCmd u cfg now (.track sel entry) file = .ok file') :
    file'.getLast? ≠ some 13 ∧ ∃ rs' bos' ind e, parseDoc file' = .records rs' bos' ∧ Spec.Indent ind ∧
      Denotes ind entry e ∧ Spec.AddEntry rs d cfg.should e rs' := by
  obtain ⟨r0, r1, rs', bos', hc, ha, hf, hp'⟩ := runCmd_track_inv u cfg now sel entry file file' rs bos d hp hd h
  obtain ⟨b0, tl, rest, rfl, hb0⟩ := appendEntry_first r0 r1 _ ha hne hnb
  obtain ⟨a1, _, _, _, _⟩ := appendEntry_spec r0 r1 _ ha
  subst hf
  rw [a1] at hp' ⊢
  rcases reconcilerAtRecord_cases d rs bos (bos_length file rs bos hp) with ⟨c1, c2⟩ | ⟨r, bo, i, c1, c2, c3, c4⟩
  · rw [c1, firstCreator_none_some] at hc
    cases hc
    obtain ⟨t1, ind, e, rec, t2, t3, t4, t5, t6, t7, t8⟩ :=
      track_fresh file hcr rs bos hp d (hv c2) (dateFormatOf sel cfg) cfg.should b0 tl rest hb0 hclean hnb rs' bos' hp'
    exact ⟨t1, rs', bos', ind, e, hp', t2, t3, Or.inr ⟨c2, _, rec, e, rfl, t4, t5, t6, t7, sameEntry_refl e, t8⟩⟩
  · rw [c4, firstCreator_some] at hc
    cases hc
    obtain ⟨t1, ind, e, t2, t3, t4⟩ := track_existing file hcr rs bos hp i r bo c2 c3 b0 tl rest hb0 hclean hnb rs' bos' hp'
    refine ⟨t1, rs', bos', ind, e, hp', t2, t3, Or.inl ⟨i, r, e, c1, c2, sameEntry_refl e, ?_, t4⟩⟩
    apply Classical.byContradiction
    intro hn
    rw [List.getElem?_eq_none (by omega)] at c2
    cases c2

end KlogV.RefineLemmas
