/-
Helper lemmas for C04, part 7: reading a record whose lines were extended by one entry.
-/
import KlogV.Lemmas.Refine6
namespace KlogV.RefineLemmas

/-- when `parseRecord` succeeds -/
theorem parseRecord_record_iff (o : Nat) (hl : List Char) (rest : List (List Char)) (r : Record) :
    parseRecord o (hl :: rest) = .record r ↔
      ∃ h, parseHeadline o hl = .ok (some h, []) ∧ (summaryGo (o + 1) rest).2.1 = [] ∧
        (entriesGo (((summaryGo (o + 1) rest).2.2.2.head?.bind indentatorOf).getD []) {}
          (summaryGo (o + 1) rest).2.2.1 (summaryGo (o + 1) rest).2.2.2).errs = [] ∧
        (entriesGo (((summaryGo (o + 1) rest).2.2.2.head?.bind indentatorOf).getD []) {}
          (summaryGo (o + 1) rest).2.2.1 (summaryGo (o + 1) rest).2.2.2).panicked = false ∧
        r = ⟨h.date, h.should, (summaryGo (o + 1) rest).1,
          (entriesGo (((summaryGo (o + 1) rest).2.2.2.head?.bind indentatorOf).getD []) {}
            (summaryGo (o + 1) rest).2.2.1 (summaryGo (o + 1) rest).2.2.2).entries⟩ := by
  unfold parseRecord
  dsimp only
  cases ha : summaryGo (o + 1) rest with
  | mk sum r1 =>
  obtain ⟨serrs, nr, rest2⟩ := r1
  dsimp only
  generalize entriesGo ((rest2.head?.bind indentatorOf).getD []) {} nr rest2 = A
  cases hph : parseHeadline o hl with
  | panic => simp
  | err => simp
  | ok p =>
    obtain ⟨head, herrs⟩ := p
    dsimp only
    constructor
    · intro h
      split at h
      · cases h
      · rename_i hnp
        split at h
        · rename_i hd heq
          simp only [ParseOut.record.injEq] at h
          simp only [List.append_eq_nil_iff] at heq
          obtain ⟨⟨e1, e2⟩, e3⟩ := heq
          subst e1
          refine ⟨hd, rfl, e2, e3, by simpa using hnp, h.symm⟩
        · cases h
    · rintro ⟨h, e1, e2, e3, e4, e5⟩
      simp only [Res.ok.injEq, Prod.mk.injEq] at e1
      obtain ⟨rfl, rfl⟩ := e1
      subst e2
      simp only [e4, Bool.false_eq_true, if_false, e3, List.append_nil]
      rw [e5]

theorem commit_pending_none (st : PState) : st.commit.pending = none := by
  unfold PState.commit
  split
  · assumption
  · split <;> rfl

theorem commit_idem (st : PState) : st.commit.commit = st.commit :=
  commit_of_none _ (commit_pending_none st)

/-- `hasOpen` is what it says -/
def OpenInv (st : PState) : Prop := st.hasOpen = st.entries.any (fun e => isOpen e.val)

theorem commit_openInv (st : PState) (h : OpenInv st) : OpenInv st.commit := by
  unfold PState.commit
  split
  · exact h
  · split
    · exact h
    · unfold OpenInv at h ⊢
      simp [h]

theorem entryStepB_openInv (style : List Char) (st : PState) (nr : Nat) (l : List Char) (h : OpenInv st) :
    OpenInv (entryStepB style st nr l) := by
  unfold entryStepB
  dsimp only
  repeat' split
  all_goals exact h

theorem entryStep_openInv (style : List Char) (st : PState) (nr : Nat) (l : List Char) (h : OpenInv st) :
    OpenInv (entryStep style st nr l) := by
  rw [entryStep_eq]
  split
  · exact h
  · split
    · split
      · exact h
      · exact commit_openInv st h
    · exact entryStepB_openInv _ _ _ _ (commit_openInv st h)

theorem stepsGo_openInv (style : List Char) (ls : List (List Char)) : ∀ (st : PState) (nr : Nat),
    OpenInv st → OpenInv (stepsGo style st nr ls) := by
  induction ls with
  | nil => intro st nr h; exact h
  | cons l ls ih => intro st nr h; exact ih _ _ (entryStep_openInv style st nr l h)

theorem entriesGo_openInv (style : List Char) (ls : List (List Char)) (nr : Nat) :
    OpenInv (entriesGo style {} nr ls) := by
  rw [entriesGo_eq]
  exact commit_openInv _ (stepsGo_openInv style ls {} nr rfl)

/-! ## one new entry -/

/-- the first run (from the empty state) has not committed anything yet, as long as there is no
error (a malformed continuation line commits the pending entry) -/
def FreshInv (a : PState) : Prop :=
  (a.errs = [] → a.entries = []) ∧ (a.errs = [] → a.hasOpen = false) ∧
    (a.pending.isSome = true ∨ a.errs ≠ [] ∨ a.panicked = true)

theorem entryStepB_fresh (style : List Char) (nr : Nat) (l : List Char) :
    FreshInv (entryStepB style {} nr l) := by
  unfold entryStepB
  dsimp only
  repeat' split
  all_goals (refine ⟨fun _ => rfl, fun _ => rfl, ?_⟩; simp)

theorem entryStep_fresh (style : List Char) (a : PState) (nr : Nat) (l : List Char) (h : FreshInv a)
    (hd : (style ++ style).isPrefixOf l = true) : FreshInv (entryStep style a nr l) := by
  rw [entryStep_eq]
  split
  · exact h
  · rename_i hsp
    obtain ⟨h1, h2, h3⟩ := h
    cases ha : a.pending with
    | some p =>
      rw [hd]
      dsimp only
      split
      · exact ⟨h1, h2, Or.inl rfl⟩
      · exact ⟨by simp, by simp, Or.inr (Or.inl (by simp))⟩
    | none =>
      dsimp only
      rw [commit_of_none a ha]
      have hm := entryStepB_mono style a nr l
      have he : a.errs ≠ [] := by
        rcases h3 with h3 | h3 | h3
        · rw [ha] at h3; cases h3
        · exact h3
        · simp [h3] at hsp
      refine ⟨?_, ?_, Or.inr (Or.inl (hm.1 he))⟩
      · unfold entryStepB; dsimp only; repeat' split
        all_goals first | exact h1 | simp
      · unfold entryStepB; dsimp only; repeat' split
        all_goals first | exact h2 | simp

theorem stepsGo_fresh (style : List Char) (ls : List (List Char))
    (hls : ∀ l ∈ ls, (style ++ style).isPrefixOf l = true) : ∀ (a : PState) (nr : Nat),
    FreshInv a → FreshInv (stepsGo style a nr ls) := by
  induction ls with
  | nil => intro a nr h; exact h
  | cons l ls ih =>
    intro a nr h
    exact ih (fun x hx => hls x (by simp [hx])) _ _ (entryStep_fresh style a nr l h (hls l (by simp)))

/-- the two runs over the lines of a new entry: from the empty state (as in `Denotes`) and from
the state `ST` reached at the end of the existing entries -/
theorem newEntry_sim (ind : List Char) (ST : PState) (nr : Nat) (l1 : List Char) (conts : List (List Char))
    (hp : ST.pending = none) (hs : ST.stopped = false) (hpn : ST.panicked = false) (he : ST.errs = [])
    (hconts : ∀ c ∈ conts, (ind ++ ind).isPrefixOf c = true) :
    Sim ST.entries ST.hasOpen (stepsGo ind {} 1 (l1 :: conts)) (stepsGo ind ST nr (l1 :: conts)) ∧
      FreshInv (stepsGo ind {} 1 (l1 :: conts)) := by
  have h0 : Sim ST.entries ST.hasOpen ({} : PState) ST :=
    ⟨fun _ => by simp, by simp [he], fun _ => by simp, hs.symm, hpn.symm, by simp [pend, hp]⟩
  constructor
  · simp only [stepsGo]
    apply stepsGo_sim ind _ _ conts (Or.inr hconts)
    exact entryStep_sim ind _ _ _ _ _ _ l1 h0 (Or.inr (Or.inl rfl))
  · simp only [stepsGo]
    apply stepsGo_fresh ind conts hconts
    have : entryStep ind {} 1 l1 = entryStepB ind {} 1 l1 := by
      rw [entryStep_eq]; rfl
    rw [this]
    exact entryStepB_fresh ind 1 l1

theorem commit_some (st : PState) (p : Pending) (h : st.pending = some p) :
    st.commit = if isOpen p.val && st.hasOpen then
      { st with pending := none, errs := st.errs ++ [⟨p.line, p.startPos, p.spanLen, .duplicateOpenRange⟩] }
    else
      { st with pending := none, entries := st.entries ++ [⟨p.val, p.summary⟩],
                hasOpen := st.hasOpen || isOpen p.val } := by
  unfold PState.commit
  rw [h]

theorem newEntry_run (ind : List Char) (ST : PState) (nr : Nat) (l1 : List Char) (conts : List (List Char))
    (hp : ST.pending = none) (hs : ST.stopped = false) (hpn : ST.panicked = false) (he : ST.errs = [])
    (hconts : ∀ c ∈ conts, (ind ++ ind).isPrefixOf c = true)
    (hF1 : (entriesGo ind ST nr (l1 :: conts)).errs = [])
    (hF2 : (entriesGo ind ST nr (l1 :: conts)).panicked = false) :
    ∃ e, (entriesGo ind ST nr (l1 :: conts)).entries = ST.entries ++ [e] ∧
      (entriesGo ind {} 1 (l1 :: conts)).entries = [e] ∧
      (entriesGo ind {} 1 (l1 :: conts)).errs = [] ∧
      (entriesGo ind {} 1 (l1 :: conts)).panicked = false ∧
      (isOpen e.val && ST.hasOpen) = false := by
  obtain ⟨hsim, hfresh⟩ := newEntry_sim ind ST nr l1 conts hp hs hpn he hconts
  rw [entriesGo_eq] at hF1 hF2 ⊢
  rw [entriesGo_eq]
  generalize stepsGo ind {} 1 (l1 :: conts) = a at *
  generalize stepsGo ind ST nr (l1 :: conts) = b at *
  have hb1 : b.errs = [] := by
    apply Classical.byContradiction
    intro hne
    exact commit_errs_mono b hne hF1
  have hb2 : b.panicked = false := by rw [← commit_panicked]; exact hF2
  have ha1 : a.errs = [] := hsim.errs.mpr hb1
  have ha2 : a.panicked = false := by rw [hsim.panicked]; exact hb2
  obtain ⟨f1, f2, f3⟩ := hfresh
  have hap : ∃ p, a.pending = some p := by
    rcases f3 with f3 | f3 | f3
    · cases h : a.pending with
      | none => rw [h] at f3; cases f3
      | some p => exact ⟨p, rfl⟩
    · exact absurd ha1 f3
    · rw [ha2] at f3; cases f3
  obtain ⟨p, hap⟩ := hap
  have hbp : ∃ q, b.pending = some q ∧ q.val = p.val ∧ q.summary = p.summary := by
    have := hsim.pending
    cases hq : b.pending with
    | none => simp [pend, hap, hq] at this
    | some q =>
      simp only [pend, hap, hq, Option.map_some, Option.some.injEq, Prod.mk.injEq] at this
      exact ⟨q, rfl, this.1.symm, this.2.symm⟩
  obtain ⟨q, hbq, hv, hsm⟩ := hbp
  have hbo : b.hasOpen = ST.hasOpen := by rw [hsim.hasOpen ha1, f2 ha1]; simp
  rw [commit_some b q hbq] at hF1 ⊢
  rw [commit_some a p hap]
  rw [hv, hbo] at hF1 ⊢
  rw [f2 ha1]
  cases hcond : (isOpen p.val && ST.hasOpen) with
  | true =>
    rw [hcond] at hF1
    simp at hF1
  | false =>
    simp only [Bool.false_eq_true, if_false, Bool.and_false]
    refine ⟨⟨p.val, p.summary⟩, ?_, ?_, ha1, ha2, hcond⟩
    · rw [hsim.entries ha1, f1 ha1, hsm]; simp
    · rw [f1 ha1]; simp

/-- the converse direction, for the rejection of a second open range -/
theorem newEntry_open_rejected (ind : List Char) (ST : PState) (nr : Nat) (l1 : List Char) (conts : List (List Char))
    (hp : ST.pending = none) (hs : ST.stopped = false) (hpn : ST.panicked = false) (he : ST.errs = [])
    (hconts : ∀ c ∈ conts, (ind ++ ind).isPrefixOf c = true) (e : Entry)
    (hA1 : (entriesGo ind {} 1 (l1 :: conts)).entries = [e])
    (hA2 : (entriesGo ind {} 1 (l1 :: conts)).errs = [])
    (hA3 : (entriesGo ind {} 1 (l1 :: conts)).panicked = false)
    (ho : isOpen e.val = true) (hH : ST.hasOpen = true) :
    (entriesGo ind ST nr (l1 :: conts)).errs ≠ [] := by
  obtain ⟨hsim, hfresh⟩ := newEntry_sim ind ST nr l1 conts hp hs hpn he hconts
  rw [entriesGo_eq] at hA1 hA2 hA3 ⊢
  generalize stepsGo ind {} 1 (l1 :: conts) = a at *
  generalize stepsGo ind ST nr (l1 :: conts) = b at *
  have ha1 : a.errs = [] := by
    apply Classical.byContradiction
    intro hne
    exact commit_errs_mono a hne hA2
  have ha2 : a.panicked = false := by rw [← commit_panicked]; exact hA3
  obtain ⟨f1, f2, f3⟩ := hfresh
  have hap : ∃ p, a.pending = some p := by
    rcases f3 with f3 | f3 | f3
    · cases h : a.pending with
      | none => rw [h] at f3; cases f3
      | some p => exact ⟨p, rfl⟩
    · exact absurd ha1 f3
    · rw [ha2] at f3; cases f3
  obtain ⟨p, hap⟩ := hap
  have hbp : ∃ q, b.pending = some q ∧ q.val = p.val ∧ q.summary = p.summary := by
    have := hsim.pending
    cases hq : b.pending with
    | none => simp [pend, hap, hq] at this
    | some q =>
      simp only [pend, hap, hq, Option.map_some, Option.some.injEq, Prod.mk.injEq] at this
      exact ⟨q, rfl, this.1.symm, this.2.symm⟩
  obtain ⟨q, hbq, hv, hsm⟩ := hbp
  have hbo : b.hasOpen = true := by rw [hsim.hasOpen ha1, hH]; simp
  rw [commit_some a p hap, f2 ha1] at hA1
  simp only [Bool.and_false, Bool.false_eq_true, if_false, f1 ha1, List.nil_append, List.cons.injEq, and_true] at hA1
  have hpo : isOpen p.val = true := by rw [← hA1] at ho; exact ho
  rw [commit_some b q hbq, hv, hpo, hbo]
  simp

end KlogV.RefineLemmas
