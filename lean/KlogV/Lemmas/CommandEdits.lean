/- C03 lemmas, command level: what a whole command does to the list of lines of the file. -/
import KlogV.Lemmas.Edits
import KlogV.Model.Commands
import KlogV.Lemmas.CommandEditsAux
namespace KlogV

/-- `new` arises from `old` by `i` splices (`insertLines`: a contiguous block of new lines; at
most the line in front of it gains a line ending) and `m` rewrites of the TEXT of a single line
(`modifyLine`: number of lines, all other lines and all line endings untouched). -/
inductive Edits : Nat → Nat → List Line → List Line → Prop where
  | refl (l : List Line) : Edits 0 0 l l
  | ins {i m : Nat} {l l1 : List Line} (st : Style) (idx : Nat) (texts : List Insertable) :
      Edits i m l l1 → idx ≤ l1.length → Edits (i + 1) m l (insertLines st l1 idx texts)
  | mod {i m : Nat} {l l1 : List Line} (j : Nat) (f : Bytes → Bytes) :
      Edits i m l l1 → Edits i (m + 1) l (modifyLine l1 j f)

/-- upper bounds (splices, rewrites) per command; `pause` here is its first step (no ticks) -/
def editBound : Cmd → Nat × Nat
  | .track _ _ => (2, 0)        -- (new record,) entry
  | .create _ _ _ => (1, 0)     -- the record
  | .start _ _ => (2, 0)        -- (new record,) open range
  | .stop _ _ => (1, 2)         -- placeholder, summary tail, further summary lines
  | .switch _ _ => (2, 2)       -- stop, then start
  | .pause _ _ _ _ => (1, 1)    -- the pause entry, or (`--extend`) its duration token

namespace CommandEditsLemmas
open EditLemmas

/-- at most `a` splices and `b` rewrites -/
def EditsLe (a b : Nat) (old new : List Line) : Prop := ∃ i m, Edits i m old new ∧ i ≤ a ∧ m ≤ b

theorem EditsLe.rfl' (l : List Line) : EditsLe 0 0 l l := ⟨0, 0, .refl l, Nat.le_refl _, Nat.le_refl _⟩

theorem EditsLe.mono {a b a' b' : Nat} {old new : List Line} (h : EditsLe a b old new) (ha : a ≤ a') (hb : b ≤ b') :
    EditsLe a' b' old new := by
  obtain ⟨i, m, e, hi, hm⟩ := h
  exact ⟨i, m, e, Nat.le_trans hi ha, Nat.le_trans hm hb⟩

theorem EditsLe.ins {a b : Nat} {old l1 : List Line} (h : EditsLe a b old l1) (st : Style) (idx : Nat)
    (texts : List Insertable) (hidx : idx ≤ l1.length) : EditsLe (a + 1) b old (insertLines st l1 idx texts) := by
  obtain ⟨i, m, e, hi, hm⟩ := h
  exact ⟨i + 1, m, .ins st idx texts e hidx, Nat.succ_le_succ hi, hm⟩

theorem EditsLe.mod {a b : Nat} {old l1 : List Line} (h : EditsLe a b old l1) (j : Nat) (f : Bytes → Bytes) :
    EditsLe a (b + 1) old (modifyLine l1 j f) := by
  obtain ⟨i, m, e, hi, hm⟩ := h
  exact ⟨i, m + 1, .mod j f e, hi, Nat.succ_le_succ hm⟩

/-- the state of a run: the lines arise from the old ones by edits, the pointer is within them -/
structure Inv (old : List Line) (a b : Nat) (r : Reconciler) : Prop where
  edits : EditsLe a b old r.lines
  ptr : r.lastLine ≤ r.lines.length

theorem atRecord_inv (file : Bytes) (rs : List Record) (bos : List BlockOut)
    (hp : parseDoc file = .records rs bos) (d : Date) (r : Reconciler)
    (h : reconcilerAtRecord d rs bos = some r) :
    Inv (blocksOf file).flatten 0 0 r ∧ countLines r.record.entries + 1 ≤ r.lastLine := by
  obtain ⟨h1, h2, h3⟩ := atRecord_facts file rs bos hp d r h
  refine ⟨⟨?_, h2⟩, h3⟩
  rw [h1]
  exact EditsLe.rfl' _

theorem newRecord_inv (file : Bytes) (rs : List Record) (bos : List BlockOut)
    (hp : parseDoc file = .records rs bos) (date : Date) (fmt : Reformat Bool) (ad : AdditionalData) :
    Inv (blocksOf file).flatten 1 0 (reconcilerForNewRecord date fmt ad rs bos) := by
  obtain ⟨st, idx, texts, h1, h2, h3⟩ := newRecord_facts file rs bos hp date fmt ad
  refine ⟨?_, h3⟩
  rw [h2]
  exact (EditsLe.rfl' _).ins st idx texts h1

/-- the two creators of `track` and `start` -/
theorem atOrNew_inv (file : Bytes) (rs : List Record) (bos : List BlockOut)
    (hp : parseDoc file = .records rs bos) (d : Date) (fmt : Reformat Bool) (ad : AdditionalData) (r : Reconciler)
    (h : firstCreator [reconcilerAtRecord d rs bos, some (reconcilerForNewRecord d fmt ad rs bos)] = some r) :
    Inv (blocksOf file).flatten 1 0 r := by
  rcases firstCreator_two _ _ _ h with h1 | h1
  · have := (atRecord_inv file rs bos hp d r h1).1
    exact ⟨this.edits.mono (Nat.zero_le _) (Nat.le_refl _), this.ptr⟩
  · simp only [Option.some.injEq] at h1
    subst h1
    exact newRecord_inv file rs bos hp d fmt ad

/-- the two creators of `stop` and `pause` -/
theorem atTwo_inv (file : Bytes) (rs : List Record) (bos : List BlockOut)
    (hp : parseDoc file = .records rs bos) (d1 d2 : Date) (c : Bool) (r : Reconciler)
    (h : firstCreator [reconcilerAtRecord d1 rs bos, if c then reconcilerAtRecord d2 rs bos else none] = some r) :
    Inv (blocksOf file).flatten 0 0 r ∧ countLines r.record.entries + 1 ≤ r.lastLine := by
  rcases firstCreator_two _ _ _ h with h1 | h1
  · exact atRecord_inv file rs bos hp d1 r h1
  · cases c with
    | true => exact atRecord_inv file rs bos hp d2 r h1
    | false => simp at h1

theorem appendEntry_inv {old : List Line} {a b : Nat} {r r' : Reconciler} (I : Inv old a b r) (entry : List Bytes)
    (h : r.appendEntry entry = some r') : Inv old (a + 1) b r' := by
  obtain ⟨h1, _, _, h4, _⟩ := appendEntry_spec r r' entry h
  refine ⟨?_, ?_⟩
  · rw [h1]; exact I.edits.ins _ _ _ I.ptr
  · rw [h1, h4]; exact Nat.le_trans I.ptr (insertLines_length_ge _ _ _ _)

theorem startOpenRange_inv {old : List Line} {a b : Nat} {r r' : Reconciler} (I : Inv old a b r) (t : Time)
    (fmt : Reformat Bool) (summary : List Bytes)
    (h : r.startOpenRange t fmt summary = some r') : EditsLe (a + 1) b old r'.lines := by
  obtain ⟨v, h1, _⟩ := startOpenRange_spec r r' t fmt summary h
  rw [h1]; exact I.edits.ins _ _ _ I.ptr

theorem closeOpenRange_inv {old : List Line} {a b : Nat} {r r' : Reconciler} (I : Inv old a b r)
    (hc : countLines r.record.entries + 1 ≤ r.lastLine) (e : Time) (fmt : Reformat Bool) (add : List Bytes)
    (h : r.closeOpenRange e fmt add = some r') : Inv old (a + 1) (b + 2) r' := by
  obtain ⟨v, s, f, g, h1, h2⟩ := closeOpenRange_facts r r' e fmt add h I.ptr hc
  have E : EditsLe a (b + 2) old (modifyLine (modifyLine r.lines v f) s g) := (I.edits.mod v f).mod s g
  have L : (modifyLine (modifyLine r.lines v f) s g).length = r.lines.length := by
    rw [modifyLine_length, modifyLine_length]
  rcases h2 with h2 | ⟨texts, h2, h3⟩
  · refine ⟨?_, ?_⟩
    · rw [h2]; exact E.mono (Nat.le_succ _) (Nat.le_refl _)
    · rw [h2, h1, L]; exact I.ptr
  · refine ⟨?_, ?_⟩
    · rw [h2]; exact E.ins _ _ _ h3
    · rw [h2, h1]
      exact Nat.le_trans I.ptr (L ▸ insertLines_length_ge _ _ _ _)

theorem extendPause_inv {old : List Line} {a b : Nat} {r r' : Reconciler} (E : EditsLe a b old r.lines) (inc : Int)
    (h : r.extendPause inc = .ok r') : EditsLe a (b + 1) old r'.lines := by
  rcases extendPause_spec r r' inc h with h1 | ⟨i, repl, h1⟩
  · rw [h1]; exact E.mono (Nat.le_refl _) (Nat.le_succ _)
  · rw [h1]; exact E.mod _ _

theorem bind_ok {α β} (x : Res α) (f : α → Res β) (b : β) (h : x.bind f = .ok b) : ∃ a, x = .ok a ∧ f a = .ok b := by
  cases x with
  | ok a => exact ⟨a, rfl, h⟩
  | err => cases h
  | panic => cases h

theorem finish {old lines' : List Line} {a b : Nat} (file' : Bytes) (hf : file' = joinLines lines')
    (E : EditsLe a b old lines') :
    ∃ (i m : Nat) (lines' : List Line), file' = joinLines lines' ∧ Edits i m old lines' ∧ i ≤ a ∧ m ≤ b := by
  obtain ⟨i, m, e, hi, hm⟩ := E
  exact ⟨i, m, lines', hf, e, hi, hm⟩

theorem track_edits (u : UTab) (cfg : Config) (now : Instant) (sel : DateSel) (entry : List Bytes) (file file' : Bytes)
    (h : runCmd u cfg now (.track sel entry) file = .ok file') :
    ∃ lines', file' = joinLines lines' ∧ EditsLe 2 0 (blocksOf file).flatten lines' := by
  simp only [runCmd] at h
  split at h
  · cases h
  · obtain ⟨rs, bos, r0, r, hp, hc, hf, hj⟩ := reconcileFile_ok _ _ _ _ h
    simp only [List.foldl_cons, List.foldl_nil, Res.bind] at hf
    have ha := optRes_ok _ _ hf
    have I0 := atOrNew_inv file rs bos hp _ _ _ r0 hc
    exact ⟨_, hj, (appendEntry_inv I0 entry ha).edits⟩

theorem create_edits (u : UTab) (cfg : Config) (now : Instant) (sel : DateSel) (should : Option Int)
    (summary : Option (List Bytes)) (file file' : Bytes)
    (h : runCmd u cfg now (.create sel should summary) file = .ok file') :
    ∃ lines', file' = joinLines lines' ∧ EditsLe 1 0 (blocksOf file).flatten lines' := by
  simp only [runCmd] at h
  split at h
  · cases h
  · obtain ⟨rs, bos, r0, r, hp, hc, hf, hj⟩ := reconcileFile_ok _ _ _ _ h
    simp only [List.foldl_nil, Res.ok.injEq] at hf
    simp only [Option.some.injEq] at hc
    subst hf
    subst hc
    exact ⟨_, hj, (newRecord_inv file rs bos hp _ _ _).edits⟩

theorem start_edits (u : UTab) (cfg : Config) (now : Instant) (a : AtArgs) (s : SummaryArgs) (file file' : Bytes)
    (h : runCmd u cfg now (.start a s) file = .ok file') :
    ∃ lines', file' = joinLines lines' ∧ EditsLe 2 0 (blocksOf file).flatten lines' := by
  simp only [runCmd] at h
  split at h
  · cases h
  · cases h
  · cases h
  · split at h
    · obtain ⟨rs, bos, r0, r, hp, hc, hf, hj⟩ := reconcileFile_ok _ _ _ _ h
      simp only [List.foldl_cons, List.foldl_nil, Res.bind] at hf
      have I0 := atOrNew_inv file rs bos hp _ _ _ r0 hc
      split at hf
      · cases hf
      · have ha := optRes_ok _ _ hf
        exact ⟨_, hj, startOpenRange_inv I0 _ _ _ ha⟩
    · cases h
    · cases h

theorem stop_edits (u : UTab) (cfg : Config) (now : Instant) (a : AtArgs) (summary : Option (List Bytes))
    (file file' : Bytes) (h : runCmd u cfg now (.stop a summary) file = .ok file') :
    ∃ lines', file' = joinLines lines' ∧ EditsLe 1 2 (blocksOf file).flatten lines' := by
  simp only [runCmd] at h
  split at h
  · cases h
  · cases h
  · cases h
  · split at h
    · cases h
    · obtain ⟨rs, bos, r0, r, hp, hc, hf, hj⟩ := reconcileFile_ok _ _ _ _ h
      simp only [List.foldl_cons, List.foldl_nil, Res.bind] at hf
      obtain ⟨I0, hcnt⟩ := atTwo_inv file rs bos hp _ _ _ r0 hc
      split at hf
      · cases hf
      · have ha := optRes_ok _ _ hf
        exact ⟨_, hj, (closeOpenRange_inv I0 hcnt _ _ _ ha).edits⟩

theorem switch_edits (u : UTab) (cfg : Config) (now : Instant) (a : AtArgs) (s : SummaryArgs) (file file' : Bytes)
    (h : runCmd u cfg now (.switch a s) file = .ok file') :
    ∃ lines', file' = joinLines lines' ∧ EditsLe 2 2 (blocksOf file).flatten lines' := by
  simp only [runCmd] at h
  split at h
  · cases h
  · cases h
  · cases h
  · obtain ⟨rs, bos, r0, r, hp, hc, hf, hj⟩ := reconcileFile_ok _ _ _ _ h
    simp only [List.foldl_cons, List.foldl_nil] at hf
    obtain ⟨r1, hf1, hf2⟩ := bind_ok _ _ _ hf
    simp only [Res.bind] at hf1
    obtain ⟨I0, hcnt⟩ := atRecord_inv file rs bos hp _ r0 hc
    have I1 := closeOpenRange_inv I0 hcnt _ _ _ (optRes_ok _ _ hf1)
    split at hf2
    · cases hf2
    · have ha := optRes_ok _ _ hf2
      exact ⟨_, hj, (startOpenRange_inv I1 _ _ _ ha).mono (Nat.le_refl _) (Nat.le_refl _)⟩

theorem pause_edits (u : UTab) (cfg : Config) (now : Instant) (summary : Option (List Bytes)) (noTags extend : Bool)
    (file file' : Bytes) (h : runCmd u cfg now (.pause summary noTags extend []) file = .ok file') :
    ∃ lines', file' = joinLines lines' ∧ EditsLe 1 1 (blocksOf file).flatten lines' := by
  simp only [runCmd] at h
  split at h
  · cases h
  · split at h
    · cases h
    · rename_i yesterday _
      split at h
      · rename_i file'' hr
        simp only [pauseLoop, CmdOut.ok.injEq] at h
        subst h
        obtain ⟨rs, bos, r0, r, hp, hc, hf, hj⟩ := reconcileFile_ok _ _ _ _ hr
        simp only [List.foldl_cons, List.foldl_nil, Res.bind] at hf
        have hc' : firstCreator [reconcilerAtRecord now.date rs bos,
            if true then reconcilerAtRecord yesterday rs bos else none] = some r0 := hc
        obtain ⟨I0, _⟩ := atTwo_inv file rs bos hp _ _ _ r0 hc'
        split at hf
        · exact ⟨_, hj, (extendPause_inv I0.edits _ hf).mono (Nat.zero_le _) (Nat.le_refl _)⟩
        · obtain ⟨entry, ha⟩ := appendPause_spec _ _ _ _ _ (optRes_ok _ _ hf)
          exact ⟨_, hj, (appendEntry_inv I0 entry ha).edits.mono (Nat.le_refl _) (Nat.zero_le _)⟩
      · rename_i hn
        exact absurd h (hn file')

end CommandEditsLemmas

open CommandEditsLemmas

theorem command_edits (u : UTab) (cfg : Config) (now : Instant) (c : Cmd) (file file' : Bytes)
    (hp : ∀ s n e t, c = .pause s n e t → t = [])
    (h : runCmd u cfg now c file = .ok file') :
    ∃ (i m : Nat) (lines' : List Line), file' = joinLines lines' ∧
      Edits i m (blocksOf file).flatten lines' ∧ i ≤ (editBound c).1 ∧ m ≤ (editBound c).2 := by
  cases c with
  | track sel entry =>
    obtain ⟨l, hj, E⟩ := track_edits u cfg now sel entry file file' h
    exact finish file' hj E
  | create sel should summary =>
    obtain ⟨l, hj, E⟩ := create_edits u cfg now sel should summary file file' h
    exact finish file' hj E
  | start a s =>
    obtain ⟨l, hj, E⟩ := start_edits u cfg now a s file file' h
    exact finish file' hj E
  | stop a summary =>
    obtain ⟨l, hj, E⟩ := stop_edits u cfg now a summary file file' h
    exact finish file' hj E
  | switch a s =>
    obtain ⟨l, hj, E⟩ := switch_edits u cfg now a s file file' h
    exact finish file' hj E
  | pause summary noTags extend ticks =>
    have ht := hp _ _ _ _ rfl
    subst ht
    obtain ⟨l, hj, E⟩ := pause_edits u cfg now summary noTags extend file file' h
    exact finish file' hj E

/-- every tick of the `pause` loop: one reconcile that rewrites at most one line -/
theorem pause_tick_edits (today yesterday : Date) (inc : Int) (file file' : Bytes)
    (h : (reconcileFile file
        (fun rs bos => firstCreator [reconcilerAtRecord today rs bos, reconcilerAtRecord yesterday rs bos])
        [fun r => r.extendPause (-inc)]).1 = .ok file') :
    ∃ (m : Nat) (lines' : List Line), file' = joinLines lines' ∧ Edits 0 m (blocksOf file).flatten lines' ∧ m ≤ 1 := by
  obtain ⟨rs, bos, r0, r, hp, hc, hf, hj⟩ := reconcileFile_ok _ _ _ _ h
  simp only [List.foldl_cons, List.foldl_nil, Res.bind] at hf
  have hc' : firstCreator [reconcilerAtRecord today rs bos,
      if true then reconcilerAtRecord yesterday rs bos else none] = some r0 := hc
  obtain ⟨I0, _⟩ := atTwo_inv file rs bos hp _ _ _ r0 hc'
  obtain ⟨i, m, e, hi, hm⟩ := extendPause_inv I0.edits _ hf
  have hi0 : i = 0 := Nat.le_zero.mp hi
  subst hi0
  exact ⟨m, r.lines, hj, e, hm⟩

/-- What `Edits` preserves: without rewrites, the texts of the old lines are a subsequence of the
texts of the new lines (nothing is lost, reordered or altered; only new lines appear) … -/
theorem edits_texts_sublist (i : Nat) (old new : List Line) (h : Edits i 0 old new) :
    (old.map (·.text)).Sublist (new.map (·.text)) := by
  generalize hm : 0 = m at h
  induction h with
  | refl l => exact List.Sublist.refl _
  | ins st idx texts _ _ ih => exact (ih hm).trans (insertLines_texts_sublist st _ idx texts)
  | mod j f _ _ => cases hm

/-- … and in general the number of lines grows exactly by the inserted ones, and at most `m`
old lines are not found again with their text (in order). -/
theorem edits_length (i m : Nat) (old new : List Line) (h : Edits i m old new) : old.length ≤ new.length := by
  induction h with
  | refl l => exact Nat.le_refl _
  | ins st idx texts _ _ ih => exact Nat.le_trans ih (insertLines_length_ge st _ idx texts)
  | mod j f _ ih => rw [modifyLine_length]; exact ih

end KlogV
