/-
C04b, part 6: bytes and characters of a line that starts with ASCII text; where the lines of one
entry are inside the lines of its record.
-/
import KlogV.Lemmas.RefineB5
namespace KlogV.RefineBLemmas
open KlogV KlogV.RefineLemmas KlogV.EditLemmas KlogV.GrammarLemmas

/-! ## ASCII prefixes -/

theorem decodeGo_eq_nil (bs : Bytes) (h : decodeGo bs = []) : bs = [] := by
  cases bs with
  | nil => rfl
  | cons b ts => rw [decodeGo_cons] at h; cases h

/-- text whose characters start with ASCII characters starts with their bytes -/
theorem decode_ascii_prefix (p : List Char) (hp : ∀ c ∈ p, c.toNat ≠ 0 ∧ c.toNat < 0x80) : ∀ (bs : Bytes) (q : List Char),
    decodeGo bs = p ++ q → ∃ bq, bs = encode p ++ bq ∧ decodeGo bq = q := by
  induction p with
  | nil => intro bs q h; exact ⟨bs, by simp [encode_nil], by simpa using h⟩
  | cons c p ih =>
    intro bs q h
    obtain ⟨h0, h1⟩ := hp c (by simp)
    obtain ⟨b, rest, rfl, hb, hrest⟩ := decodeGo_head_ascii bs c (p ++ q) h0 h1 (by simpa using h)
    obtain ⟨bq, e1, e2⟩ := ih (fun x hx => hp x (by simp [hx])) rest q hrest.symm
    refine ⟨bq, ?_, e2⟩
    rw [encode_cons, encodeChar_ascii c h1, e1]
    have : b = c.toNat.toUInt8 := by
      apply UInt8.toNat_inj.mp
      rw [hb, u8 _ (by omega)]
    rw [this]
    rfl

theorem mem_encode_ascii (p : List Char) (hp : ∀ c ∈ p, c.toNat < 0x80) (b : UInt8) (hb : b ∈ encode p) :
    ∃ c ∈ p, b = c.toNat.toUInt8 ∧ b.toNat = c.toNat := by
  obtain ⟨c, hc, hbc⟩ := (mem_encode p b).mp hb
  rw [encodeChar_ascii c (hp c hc)] at hbc
  simp only [List.mem_singleton] at hbc
  exact ⟨c, hc, hbc, by rw [hbc, u8 _ (by have := hp c hc; omega)]⟩

theorem byte_blank_of_char (b : UInt8) (c : Char) (h : b.toNat = c.toNat) (hc : isSpTab c = true) :
    isBlankByte b = true := by
  rcases (isSpTab_iff c).mp hc with rfl | rfl
  · have : b = 32 := UInt8.toNat_inj.mp (by rw [h]; rfl)
    subst this; rfl
  · have : b = 9 := UInt8.toNat_inj.mp (by rw [h]; rfl)
    subst this; rfl

theorem byte_not_blank_of_char (b : UInt8) (c : Char) (h : b.toNat = c.toNat) (hc : isSpTab c = false) :
    isBlankByte b = false := by
  cases hb : isBlankByte b with
  | false => rfl
  | true =>
    exfalso
    simp only [isBlankByte, Bool.or_eq_true, beq_iff_eq] at hb
    have : c = ' ' ∨ c = '\t' := by
      rcases hb with h1 | h1
      · left; apply char_eq_of_toNat; rw [← h, h1]; rfl
      · right; apply char_eq_of_toNat; rw [← h, h1]; rfl
    rcases this with rfl | rfl <;> simp [isSpTab] at hc

/-- the bytes behind a tail that is empty or starts with a blank -/
theorem tail_bytes (bq : Bytes) (q : List Char) (h : decodeGo bq = q) (hq : TailOK q) :
    bq = [] ∨ ∃ b r, bq = b :: r ∧ isBlankByte b = true := by
  rcases hq with rfl | ⟨c, r, rfl, hc⟩
  · left; exact decodeGo_eq_nil bq h
  · right
    have h0 : c.toNat ≠ 0 := by rcases (isSpTab_iff c).mp hc with rfl | rfl <;> decide
    have h1 : c.toNat < 0x80 := by rcases (isSpTab_iff c).mp hc with rfl | rfl <;> decide
    obtain ⟨b, rest, rfl, hb, _⟩ := decodeGo_head_ascii bq c r h0 h1 h
    exact ⟨b, rest, rfl, byte_blank_of_char b c hb hc⟩

theorem indent_chars (ind : List Char) (hi : Spec.Indent ind) :
    ∀ c ∈ ind, isSpTab c = true ∧ c.toNat ≠ 0 ∧ c.toNat < 0x80 := by
  rcases hi with rfl | rfl | rfl | rfl <;> decide

theorem isDurChar_ascii (c : Char) (h : isDurChar c) : c.toNat ≠ 0 ∧ c.toNat < 0x80 ∧ isSpTab c = false := by
  rcases h with h | rfl | rfl | rfl | rfl
  · have := (isDigit_iff c).mp h
    refine ⟨by omega, by omega, ?_⟩
    cases hs : isSpTab c with
    | false => rfl
    | true => rcases (isSpTab_iff c).mp hs with rfl | rfl <;> simp at this
  all_goals decide

theorem parseValue_dur' (d : Dur) (hv : Dur.WF d) (sfx : List Char) (hs : TailOK sfx) (p0 : Int) :
    ∃ sp sl, parseValue p0 (d.print ++ sfx) = .ok ⟨.dur d, sfx, sp, sl⟩ := by
  have hpeek : peekUntil isSpTab (d.print ++ sfx) = d.print :=
    peekUntil_run _ _ _ (fun x hx => durChar_not_spTab x (Dur.print_all d x hx)) hs
  unfold parseValue
  simp only [hpeek, Dur.parse_print d hv, List.drop_left]
  exact ⟨_, _, rfl⟩

/-- a value that is a duration: the first blank-delimited token of the line -/
theorem parseValue_dur_inv (p0 : Int) (s : List Char) (v : ValueOk) (d : Dur) (h : parseValue p0 s = .ok v)
    (hd : v.val = .dur d) :
    ∃ cand, s = cand ++ v.rest ∧ Dur.parse cand = .ok d ∧ TailOK v.rest := by
  rw [parseValue_eq] at h
  obtain ⟨e1, _, e3⟩ := peek_split isSpTab s
  cases hp : Dur.parse (peekUntil isSpTab s) with
  | panic => rw [hp] at h; cases h
  | ok d' =>
    rw [hp] at h
    simp only [ValueRes.ok.injEq] at h
    subst h
    simp only [EntryVal.dur.injEq] at hd
    subst hd
    exact ⟨_, e1, hp, e3⟩
  | err =>
    exfalso
    rw [hp] at h
    dsimp only at h
    split at h
    · cases h
    · split at h
      · cases h
      · rename_i start _
        have := (pvTail_inv _ _ start _ v (by
          rename_i hst
          exact Time.parse_wf _ _ hst) h)
        obtain ⟨sp1, sp2, body, _, _, _, _, hcase⟩ := pvTail_sound h
        rcases hcase with ⟨x, _, hx⟩ | ⟨t2, _, _, hx⟩ <;> (rw [hx] at hd; cases hd)

/-- the duration token of an entry line is replaced -/
theorem dur_line_surgery (text : Bytes) (ind s : List Char) (hi : Spec.Indent ind) (v : ValueOk) (d d' : Dur)
    (hdec : decodeGo text = ind ++ s) (hpv : parseValue ind.length s = .ok v) (hd : v.val = .dur d) (hw : Dur.WF d') :
    ∃ restB, decodeGo restB = v.rest ∧
      replaceFirstToken text (bytesOfChars d'.print) = encode ind ++ encode d'.print ++ restB ∧
      decodeGo (encode ind ++ encode d'.print ++ restB) = ind ++ (d'.print ++ v.rest) ∧
      (∃ sp sl, parseValue ind.length (d'.print ++ v.rest) = .ok ⟨.dur d', v.rest, sp, sl⟩) ∧
      (restB ≠ [] → (encode ind ++ encode d'.print ++ restB).getLast? = text.getLast?) ∧
      (∃ cand : List Char, cand ≠ [] ∧ text = encode ind ++ encode cand ++ restB) := by
  obtain ⟨cand, hs, hpd, htail⟩ := parseValue_dur_inv _ s v d hpv hd
  obtain ⟨hch, c0, r0, hc0⟩ := parse_dur_ok_chars hpd
  have hpre : ∀ c ∈ ind ++ cand, c.toNat ≠ 0 ∧ c.toNat < 0x80 := by
    intro c hc
    rcases List.mem_append.mp hc with h | h
    · exact (indent_chars ind hi c h).2
    · exact ⟨(isDurChar_ascii c (hch c h)).1, (isDurChar_ascii c (hch c h)).2.1⟩
  obtain ⟨restB, e1, e2⟩ := decode_ascii_prefix (ind ++ cand) hpre text v.rest (by rw [hdec, hs]; simp)
  rw [encode_append] at e1
  have hlead : ∀ b ∈ encode ind, isBlankByte b = true := by
    intro b hb
    obtain ⟨c, hc, _, hbc⟩ := mem_encode_ascii ind (fun c hc => (indent_chars ind hi c hc).2.2) b hb
    exact byte_blank_of_char b c hbc (indent_chars ind hi c hc).1
  have htok : encode cand ≠ [] ∧ ∀ b ∈ encode cand, isBlankByte b = false := by
    constructor
    · rw [hc0, encode_cons]
      obtain ⟨b, bs, e⟩ := encodeChar_cons c0
      rw [e]; simp
    · intro b hb
      obtain ⟨c, hc, _, hbc⟩ := mem_encode_ascii cand (fun c hc => (isDurChar_ascii c (hch c hc)).2.1) b hb
      exact byte_not_blank_of_char b c hbc (isDurChar_ascii c (hch c hc)).2.2
  have hrest := tail_bytes restB v.rest e2 htail
  have hasc_ind : ∀ c ∈ ind, c.toNat < 0x80 := fun c hc => (indent_chars ind hi c hc).2.2
  have hasc_pr : ∀ c ∈ d'.print, c.toNat < 0x80 := fun c hc => durChar_ascii c (Dur.print_all d' c hc)
  refine ⟨restB, e2, ?_, ?_, parseValue_dur' d' hw v.rest htail _, ?_, ⟨cand, by rw [hc0]; simp, e1⟩⟩
  · rw [e1]
    exact replaceFirstToken_spec _ _ _ _ hlead htok (by
      rcases hrest with h | ⟨b, r, h1, h2⟩
      · exact Or.inl h
      · exact Or.inr ⟨b, r, h1, h2⟩)
  · rw [List.append_assoc, decodeGo_encode_ascii ind hasc_ind, decodeGo_encode_ascii _ hasc_pr, e2]
  · intro hne
    rw [getLast?_append_of_ne_nil _ _ hne, e1, getLast?_append_of_ne_nil _ _ hne]

/-! ## the lines of one entry inside its record -/

theorem countLines_grps (ind : List Char) (gs : List G) (h : AllGrp ind gs) :
    countLines (gs.map Prod.snd) = (flatG gs).length := by
  induction gs with
  | nil => rfl
  | cons g gs ih =>
    have := grp_length (h g (by simp))
    have ih' := ih (fun x hx => h x (by simp [hx]))
    unfold countLines at ih' ⊢
    simp only [List.map_cons, List.sum_cons, flatG_cons, List.length_append]
    rw [ih', this]

theorem countLines_append (a b : List Entry) : countLines (a ++ b) = countLines a + countLines b := by
  simp [countLines]

/-- (LOC) a record that is read without error and one of its entries: the groups -/
theorem rec_loc (o : Nat) (hl : List Char) (rest : List (List Char)) (r : Record) (E1 E2 : List Entry) (ek : Entry)
    (h : parseRecord o (hl :: rest) = .record r) (hE : r.entries = E1 ++ ek :: E2) :
    ∃ (hd : Head) (sums : List (List Char)) (ind : List Char) (g1 g2 : List G) (K : List (List Char)),
      parseHeadline o hl = .ok (some hd, []) ∧ rest = sums ++ (flatG g1 ++ (K ++ flatG g2)) ∧
      (∀ l ∈ sums, okRecordSummaryLine l = true) ∧ Spec.Indent ind ∧ AllGrp ind g1 ∧ Grp ind K ek ∧ AllGrp ind g2 ∧
      g1.map Prod.snd = E1 ∧ g2.map Prod.snd = E2 ∧
      r = ⟨hd.date, hd.should, sums, E1 ++ ek :: E2⟩ ∧
      countLines (r.entries.drop E1.length) = (K ++ flatG g2).length := by
  obtain ⟨hd, sums, ind, gs, e1, e2, e3, e4, e5, e6⟩ := rec_gsound o hl rest r h
  have hmap : gs.map Prod.snd = E1 ++ ek :: E2 := by rw [← hE, e6]
  obtain ⟨g1, gr, hgs, hg1, hgr⟩ := List.map_eq_append_iff.mp hmap
  obtain ⟨gk, g2, hgr', hgk, hg2⟩ := List.map_eq_cons_iff.mp hgr
  subst hgs hgr'
  obtain ⟨K, ek'⟩ := gk
  simp only at hgk
  subst hgk
  have a1 : AllGrp ind g1 := fun g hg => e5 g (by simp [hg])
  have a2 : AllGrp ind g2 := fun g hg => e5 g (by simp [hg])
  have ak : Grp ind K ek' := e5 (K, ek') (by simp)
  refine ⟨hd, sums, ind, g1, g2, K, e1, ?_, e3, e4, a1, ak, a2, hg1, hg2, ?_, ?_⟩
  · rw [e2, flatG_append, flatG_cons]
  · rw [e6, hmap]
  · rw [hE, List.drop_left]
    have : ek' :: E2 = [ek'] ++ E2 := rfl
    rw [this, countLines_append, ← hg2, countLines_grps ind g2 a2, List.length_append, grp_length ak]
    simp [countLines]

/-- the first indented line of the record is the first line of its first group -/
theorem first_indented_line (ind : List Char) (hi : Spec.Indent ind) (sums : List (List Char)) (gs : List G)
    (hs : ∀ l ∈ sums, okRecordSummaryLine l = true) (hG : AllGrp ind gs) (hne : gs ≠ []) :
    ∃ x, ((sums ++ flatG gs).dropWhile (fun c => (indentatorOf c).isNone)).head? = some x ∧ indentatorOf x = some ind := by
  obtain ⟨g, gs', rfl⟩ := List.exists_cons_of_ne_nil hne
  obtain ⟨l, ls, e, hl⟩ := grp_first_indent hi (hG g (by simp))
  refine ⟨l, ?_, hl⟩
  rw [List.dropWhile_append_of_pos (by
    intro x hx
    simp [indentatorOf_none x (hs x hx)]), flatG_cons, e]
  simp [hl]

end KlogV.RefineBLemmas
