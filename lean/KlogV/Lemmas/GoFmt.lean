/- Helper lemmas for KlogV/Props/GoFmt.lean. Core Lean only. -/
import KlogV.Gen.GoFmt
import KlogV.Model.Prettify
import KlogV.GoSem.AbsBase
import KlogV.Lemmas.GoFmt2
set_option linter.unusedVariables false
namespace KlogV.GoL
open KlogV.Go KlogV.GoL.Fm

theorem Fm.outer_eq {α} (l : List α) (F : α → List BStr → G (ForInStep (List BStr))) (f : α → BStr)
    (h : ∀ p ∈ l, ∀ s, F p s = .ok (.yield (s ++ [f p]))) : ∀ s, forIn l s F = .ok (s ++ l.map f) := by
  induction l with
  | nil => intro s; simp; rfl
  | cons a l ih =>
    intro s
    rw [List.forIn_cons, h a List.mem_cons_self s]
    simp only [bind, Except.bind]
    rw [ih (fun p hp => h p (List.mem_cons_of_mem _ hp))]
    simp

theorem Fm.gt_nat (a b : Nat) : gt ((a : Nat) : Int) ((b : Nat) : Int) = decide (a > b) := by
  unfold gt
  by_cases h : a > b
  · rw [decide_eq_true h, decide_eq_true (by omega)]
  · rw [decide_eq_false h, decide_eq_false (by omega)]

theorem Fm.idx_pfx {β} (psB : List BStr) (n : Nat) (pfx : BStr) (K : BStr → G β) :
    (if decide (psB.length > n) = true then idx psB ((n : Nat) : Int) >>= K else K pfx) = K (psB[n]?.getD pfx) := by
  by_cases h : psB.length > n
  · rw [decide_eq_true h, if_pos rfl, idx_some psB n psB[n] (List.getElem?_eq_getElem h), pure_bind,
      List.getElem?_eq_getElem h]; rfl
  · rw [decide_eq_false h, if_neg (by simp), List.getElem?_eq_none (by omega)]; rfl

theorem Fm.sizeW_go (c : UInt8) (s : BStr) : ∀ cur : BStr,
    sizeW (stringsSplitB1.go c s cur) = cur.length + s.length + 1 := by
  induction s with
  | nil => intro cur; simp [stringsSplitB1.go, sizeW]
  | cons x r ih =>
    intro cur
    unfold stringsSplitB1.go
    by_cases hx : (x == c) = true
    · rw [if_pos hx]; simp only [sizeW, ih, List.length_reverse, List.length_nil, List.length_cons]; omega
    · rw [if_neg hx, ih]; simp only [List.length_cons]; omega

theorem Fm.sizeW_split (s : BStr) (c : UInt8) : sizeW (stringsSplitB1 s c) = s.length + 1 := by
  unfold stringsSplitB1; rw [sizeW_go]; simp

theorem Fm.sizeW_mem (l : List BStr) (p : BStr) (h : p ∈ l) : p.length + 1 ≤ sizeW l := by
  induction l with
  | nil => cases h
  | cons a l ih =>
    rcases List.mem_cons.mp h with rfl | h'
    · simp only [sizeW]; omega
    · have := ih h'; simp only [sizeW]; omega

theorem Fm.sizeW_len (l : List BStr) : l.length ≤ sizeW l := by
  induction l with
  | nil => exact Nat.le_refl _
  | cons a l ih => simp only [sizeW, List.length_cons]; omega

theorem Fm.loop_run {β} (F : Body) (h : St → β) (Z : β) (m : Nat) (ps words : List BStr) (P : Nat)
    (hF : BodyOK F m ps words) (hps : ∀ p ∈ ps, p.length ≤ P) (h1 : words.length + 2 ≤ B) (h2 : P + sizeW words ≤ B)
    (hz : ∀ p', h (reflowWordsB m ps words [] [] [], p') = Z) :
    h <$> forIn (enumFromI 0 words) (([[]], []) : St) F = .ok Z := by
  obtain ⟨p', hp'⟩ := loop_eq F m ps words P hF hps words 0 [] [] [] rfl (by simpa using h1)
    (by simp only [List.length_nil]; omega) (Nat.zero_le _) h2
  have hp'' : forIn (enumFromI 0 words) (([[]], []) : St) F = .ok (reflowWordsB m ps words [] [] [], p') := hp'
  rw [hp'', ← hz p']; rfl

theorem reflow_eq (maxLen : Nat) (prefixes : List (List Char)) (text : List Char)
    (h1 : (maxLen : Int) < 4611686018427387904) (h2 : ((encode text).length : Int) < 4611686018427387904)
    (h3 : (prefixes.length : Int) < 4611686018427387904)
    (h4 : ∀ p ∈ prefixes, ((encode p).length : Int) < 4611686018427387904) :
    (⟨(maxLen : Int), [10]⟩ : GoFmt.Reflower).Reflow (encode text) (prefixes.map encode) =
      .ok (encode (reflow maxLen prefixes text)) := by
  unfold GoFmt.Reflower.Reflow
  simp only [stringsSplitB, pure_bind, bind_pure_comp]
  have hpl : ∀ p ∈ stringsSplitB1 (encode text) 10, p.length < 4611686018427387904 := by
    intro p hp
    have := sizeW_mem _ p hp
    rw [sizeW_split] at this
    omega
  have hps : ∀ q ∈ prefixes.map encode, q.length ≤ 4611686018427387903 := by
    intro q hq
    obtain ⟨a, ha, rfl⟩ := List.mem_map.mp hq
    have := h4 a ha
    omega
  have e10 : ([10] : BStr) = encode ['\n'] := by decide
  have c10 : ('\n'.toNat.toUInt8) = (10 : UInt8) := by decide
  have c32 : (' '.toNat.toUInt8) = (32 : UInt8) := by decide
  have hf : ∀ para : List Char,
      stringsJoin (reflowWordsB maxLen (prefixes.map encode) (stringsSplitB1 (encode para) 32) [] [] []) [10] =
        encode (joinWith ['\n'] (reflowWords maxLen prefixes (splitOnChar ' ' para) [] [] [])) := by
    intro para
    have s32 := splitB1_encode ' ' (by decide) para
    rw [c32] at s32
    have hr := reflowWordsB_encode maxLen prefixes (splitOnChar ' ' para) [] [] []
    simp only [List.map_nil, encode_nil] at hr
    rw [s32, hr, e10, join_encode]
  rw [outer_eq (f := fun p => stringsJoin (reflowWordsB maxLen (prefixes.map encode) (stringsSplitB1 p 32) [] [] []) [10])]
  · have sL := splitB1_encode '\n' (by decide) text
    rw [c10] at sL
    show Except.ok (stringsJoin (([] : List BStr) ++ _) [10]) = _
    rw [List.nil_append, sL, List.map_map,
      show List.map ((fun p => stringsJoin (reflowWordsB maxLen (prefixes.map encode) (stringsSplitB1 p 32) [] [] []) [10]) ∘ encode)
          (splitOnChar '\n' text) =
        ((splitOnChar '\n' text).map (fun para =>
          joinWith ['\n'] (reflowWords maxLen prefixes (splitOnChar ' ' para) [] [] []))).map encode from by
        rw [List.map_map]; exact List.map_congr_left (fun a _ => hf a),
      e10, join_encode]
    rfl
  · intro p hp s
    have hpb := hpl p hp
    have hsz := sizeW_split p 32
    have hln := sizeW_len (stringsSplitB1 p 32)
    rw [enumSlice_eq]
    refine loop_run _ _ _ maxLen (prefixes.map encode) (stringsSplitB1 p 32) 4611686018427387903 ?_ ?_ ?_ ?_ ?_
    · have hwl : (stringsSplitB1 p 32).length + 2 ≤ B := by unfold B; omega
      generalize stringsSplitB1 p 32 = W at hwl
      generalize prefixes.map encode = psB
      intro k w rest ls cur pfx hd hl hc
      dsimp only
      have E1 : sub (len (ls ++ [cur])) 1 = ((ls.length : Nat) : Int) := sub_len_last ls cur (by omega)
      have E1' : sub (len (ls ++ [cur] ++ [[]])) 1 = (((ls ++ [cur]).length : Nat) : Int) :=
        sub_len_last (ls ++ [cur]) [] (by simp only [List.length_append, List.length_singleton]; omega)
      have hk : W.length = k + 1 + rest.length := by
        have := congrArg List.length hd
        simp only [List.length_drop, List.length_cons] at this; omega
      have EW : sub (len W) 1 = ((W.length - 1 : Nat) : Int) := by
        unfold len; exact sub_one _ (by omega) (by omega)
      have Ek : add (k : Int) 1 = ((k + 1 : Nat) : Int) := by
        rw [add_int, wrap_id (by unfold inInt64; unfold B at hwl; omega)]; omega
      have EP : len psB = ((psB.length : Nat) : Int) := rfl
      simp only [E1, E1', EW, Ek, EP, idx_last, setIdx_last, add_bstr, pure_bind, map_pure, gt_nat]
      simp only [idx_pfx psB _ pfx (fun a => (pure (ForInStep.yield (ls ++ [cur] ++ [[] ++ a ++ w], a)) : G (ForInStep St))),
        idx_pfx psB _ pfx (fun a => (pure (ForInStep.yield (ls ++ [cur ++ a ++ w], a)) : G (ForInStep St)))]
      have hbrk : (if (!(k : Int) == ((W.length - 1 : Nat) : Int)) = true then
            (fun a => gt (add (len cur) (len a)) (maxLen : Int)) <$> idx W ((k + 1 : Nat) : Int)
          else pure false) = pure (brkB maxLen cur rest) := by
        cases rest with
        | nil =>
          have : ((k : Int) == ((W.length - 1 : Nat) : Int)) = true := by
            rw [beq_iff_eq]; simp only [List.length_nil] at hk; omega
          rw [this]; rfl
        | cons nxt r =>
          have : ((k : Int) == ((W.length - 1 : Nat) : Int)) = false := by
            apply beq_false_of_ne; simp only [List.length_cons] at hk; omega
          have hn : W[k + 1]? = some nxt := by
            have := List.getElem?_drop (xs := W) (i := k) (j := 1)
            rw [hd] at this; rw [← this]; rfl
          simp only [sizeW] at hc
          rw [this, idx_some W (k + 1) nxt hn]
          simp only [Bool.not_false, if_true, map_pure, len]
          rw [add_nat _ _ (by omega), gt_nat]; rfl
      rw [hbrk, pure_bind]
      unfold stepB
      cases brkB maxLen cur rest with
      | true =>
        simp only [if_true, List.isEmpty_nil, beq_self_eq_true, List.nil_append]; rfl
      | false =>
        simp only [Bool.false_eq_true, if_false]
        cases cur with
        | nil => simp only [List.isEmpty_nil, if_true, beq_self_eq_true, List.nil_append]; rfl
        | cons c cs =>
          have : ((c :: cs) == ([] : BStr)) = false := rfl
          simp only [this, List.isEmpty_cons, Bool.false_eq_true, if_false]; rfl
    · exact hps
    · unfold B; omega
    · unfold B; omega
    · intro p'; rfl

end KlogV.GoL
