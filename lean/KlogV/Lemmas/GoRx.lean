/- Helper lemmas for KlogV/Props/GoRx.lean (the submatch contracts of the two value patterns follow from the generic contract). Core Lean only. -/
import KlogV.GoSem.RxSpec
import KlogV.Props.GoSrcParse
import KlogV.Props.Rx.Values
import KlogV.Props.Rx.Model
import KlogV.Lemmas.GoRx1
namespace KlogV.GoL
open KlogV.Go KlogV.Rx

set_option linter.unusedSimpArgs false
namespace Rx
open KlogV.RxM

/-- the patterns of the code denote the expected marked languages (decided in the kernel by the verified checker) -/

theorem range5 : List.range 5 = [0, 1, 2, 3, 4] := by decide

/-- the five groups of the explicit marked word of a time -/
theorem time_groupTexts (lt : Bool) (hd : List Char) (m1 m2 : Char) (ap : Option Bool) (gt : Bool) :
    (List.range 5).map (fun i => groupText
      ((if lt then [openSym 1, '<'.toNat, closeSym 1] else []) ++ openSym 2 :: codes hd ++ closeSym 2 :: ':'.toNat ::
        openSym 3 :: codes [m1, m2] ++ closeSym 3 ::
        ((if ap.isSome then openSym 4 :: codes (Time.apChars ap) ++ [closeSym 4] else []) ++
         (if gt then [openSym 5, '>'.toNat, closeSym 5] else []))) (i + 1)) =
    [(if lt then ['<'] else []), hd, [m1, m2], Time.apChars ap, (if gt then ['>'] else [])] := by
  rw [range5]
  cases lt <;> rcases ap with _ | _ | _ <;> cases gt <;>
    simp (disch := decide) only [List.map_cons, List.map_nil, groupText_eq, Bool.false_eq_true, if_true, if_false, List.nil_append,
      List.cons_append, List.append_assoc, Option.isSome_none, Option.isSome_some, Time.apChars, codes_cons, codes_nil,
      List.append_nil, Nat.zero_add, Nat.reduceAdd,
      dw_nil, dw_cons_eq, dw_codes (openSym_ge _), tw_nil, tw_cons_eq, tw_codes (closeSym_ge _), List.drop_one, List.tail_cons,
      List.drop_succ_cons, List.drop_zero, List.drop_nil, List.tail_nil,
      dw_open_open, dw_close_open, dw_toNat_open, tw_open_close, tw_close_close, tw_toNat_close,
      erase_append, erase_cons_ge (openSym_ge _), erase_cons_ge (closeSym_ge _), erase_toNat, erase_codes, erase_nil,
      List.map_append, map_ofNat_codes, Char.ofNat_toNat]

/-- the five groups of the explicit marked word of a duration (groups 2 and 4 contain the nested groups 3 and 5) -/
theorem duration_groupTexts (sg hd md : List Char) (hsg : sg = [] ∨ sg = ['-'] ∨ sg = ['+']) :
    (List.range 5).map (fun i => groupText
      ((if sg.isEmpty then [] else openSym 1 :: codes sg ++ [closeSym 1]) ++
        (if hd.isEmpty then [] else openSym 2 :: openSym 3 :: codes hd ++ [closeSym 3, 'h'.toNat, closeSym 2]) ++
        (if md.isEmpty then [] else openSym 4 :: openSym 5 :: codes md ++ [closeSym 5, 'm'.toNat, closeSym 4])) (i + 1)) =
    [sg, (if hd.isEmpty then [] else hd ++ ['h']), hd, (if md.isEmpty then [] else md ++ ['m']), md] := by
  rw [range5]
  rcases hsg with rfl | rfl | rfl <;> cases hd <;> cases md <;>
    simp (disch := decide) only [List.map_cons, List.map_nil, groupText_eq, Bool.false_eq_true, if_true, if_false, List.nil_append,
      List.cons_append, List.append_assoc, List.isEmpty_nil, List.isEmpty_cons, codes_cons, codes_nil,
      List.append_nil, Nat.zero_add, Nat.reduceAdd,
      dw_nil, dw_cons_eq, dw_codes (openSym_ge _), tw_nil, tw_cons_eq, tw_codes (closeSym_ge _), List.drop_one, List.tail_cons,
      List.drop_succ_cons, List.drop_zero, List.drop_nil, List.tail_nil,
      dw_open_open, dw_close_open, dw_toNat_open, tw_open_close, tw_close_close, tw_toNat_close,
      erase_append, erase_cons_ge (openSym_ge _), erase_cons_ge (closeSym_ge _), erase_toNat, erase_codes, erase_nil,
      List.map_append, map_ofNat_codes, Char.ofNat_toNat]

end Rx

theorem timeFind_of_spec (env : Env) (re : Re) (hre : ∀ env m, Matches env (mark re) m ↔ Matches env (mark Expect.time) m)
    (find : Str → List Str) (h : SubmatchSpec env re 5 find) :
    TimeFind find := by
  refine ⟨?_, ?_⟩
  · intro lt hd m1 m2 ap gt hlen hdig h1 h2
    have hm := (Regexes.time_marked env _).2 ⟨lt, hd, m1, m2, ap, gt, hlen, hdig, h1, h2, rfl⟩
    have hf := (h _).1 _ ((hre env _).2 hm) (RxM.erase_time_marked lt hd m1 m2 ap gt)
    rw [Rx.time_groupTexts] at hf
    exact hf
  · intro s hs
    refine (h s).2 ?_
    rintro ⟨m, hm, he⟩
    obtain ⟨lt, hd, m1, m2, ap, gt, hlen, hdig, h1, h2, rfl⟩ := (Regexes.time_marked env m).1 ((hre env m).1 hm)
    rw [RxM.erase_time_marked, RxM.codes_inj] at he
    exact hs env ((Regexes.time_shape env s).2 ⟨lt, hd, m1, m2, ap, gt, he.symm, hlen, hdig, h1, h2⟩)

theorem durFind_of_spec (env : Env) (re : Re) (hre : ∀ env m, Matches env (mark re) m ↔ Matches env (mark Expect.duration) m)
    (find : Str → List Str) (h : SubmatchSpec env re 5 find) :
    DurFind find := by
  refine ⟨?_, ?_⟩
  · intro sg hd md hsg hh hmd
    have hm := (Regexes.duration_marked env _).2 ⟨sg, hd, md, hsg, hh, hmd, rfl⟩
    have hf := (h _).1 _ ((hre env _).2 hm) (RxM.erase_duration_marked sg hd md)
    rw [Rx.duration_groupTexts sg hd md hsg] at hf
    exact hf
  · intro s hs
    refine (h s).2 ?_
    rintro ⟨m, hm, he⟩
    obtain ⟨sg, hd, md, hsg, hh, hmd, rfl⟩ := (Regexes.duration_marked env m).1 ((hre env m).1 hm)
    rw [RxM.erase_duration_marked, RxM.codes_inj] at he
    exact hs env ((Regexes.duration_shape env s).2 ⟨sg, hd, md, he.symm, hsg, hh, hmd⟩)

end KlogV.GoL
