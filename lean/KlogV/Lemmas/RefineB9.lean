/-
C04b, part 9: an ASCII byte in the middle of a text is decoded on its own (appending text behind a
blank never changes how the bytes in front of it are read).
-/
import KlogV.Lemmas.RefineB8
namespace KlogV.RefineBLemmas
open KlogV KlogV.RefineLemmas

theorem decodeGoAux_fuel2 : ∀ (fuel : Nat) (bs : Bytes) (f' : Nat), bs.length ≤ fuel → bs.length ≤ f' →
    decodeGoAux fuel bs = decodeGoAux f' bs := by
  intro fuel
  induction fuel with
  | zero =>
    intro bs f' h _
    have : bs = [] := List.length_eq_zero_iff.mp (by omega)
    subst this
    cases f' <;> rfl
  | succ fuel ih =>
    intro bs f' h h'
    cases bs with
    | nil => cases f' <;> rfl
    | cons b ts =>
      cases f' with
      | zero => simp at h'
      | succ f'' =>
        simp only [decodeGoAux]
        congr 1
        apply ih
        · simp only [List.length_drop, List.length_cons] at h ⊢; omega
        · simp only [List.length_drop, List.length_cons] at h' ⊢; omega

theorem decodeGo_step (b : UInt8) (ts : Bytes) :
    decodeGo (b :: ts) = (decodeRune (b :: ts)).1 :: decodeGo ((b :: ts).drop (max (decodeRune (b :: ts)).2 1)) := by
  rw [decodeGo_cons]
  congr 1
  apply decodeGoAux_fuel2
  · simp only [List.length_drop, List.length_cons]; omega
  · exact Nat.le_refl _

theorem isCont_ascii (b : UInt8) (hb : b.toNat < 0x80) : isCont b = false := by
  unfold isCont
  simp only [Bool.and_eq_false_iff, decide_eq_false_iff_not, UInt8.le_iff_toNat_le]
  left
  show ¬ (128 ≤ b.toNat)
  omega

set_option linter.unusedSimpArgs false in
theorem decodeRune_append_ascii (b0 : UInt8) (x' : Bytes) (b : UInt8) (hb : b.toNat < 0x80) (y : Bytes) :
    decodeRune (b0 :: (x' ++ b :: y)) = decodeRune (b0 :: x') ∧ max (decodeRune (b0 :: x')).2 1 ≤ (b0 :: x').length := by
  have hc := isCont_ascii b hb
  unfold decodeRune
  dsimp only
  by_cases h1 : b0.toNat < 0x80
  · simp [h1]
  · by_cases h2 : (b0.toNat < 0xC2 ∨ b0.toNat > 0xF4)
    · simp [h1, h2]
    · by_cases h3 : b0.toNat < 0xE0
      · cases x' with
        | nil => simp [h1, h2, h3, hc]
        | cons b1 x'' =>
          simp only [h1, h2, h3, if_true, if_false, Bool.or_eq_true, decide_eq_true_eq, List.cons_append]
          split <;> simp
      · by_cases h4 : b0.toNat < 0xF0
        · match x' with
          | [] =>
            simp only [h1, h2, h3, h4, if_true, if_false, Bool.or_eq_true, decide_eq_true_eq, List.nil_append]
            cases y with
            | nil => simp
            | cons y0 y' =>
              have t : ¬ ((if b0.toNat = 224 then 160 else 128) ≤ b.toNat) := by split <;> omega
              simp
              intro h; exact absurd h t
          | [b1] =>
            simp only [h1, h2, h3, h4, if_true, if_false, Bool.or_eq_true, decide_eq_true_eq, List.cons_append, List.nil_append]
            simp [hc]
          | b1 :: b2 :: x'' =>
            simp only [h1, h2, h3, h4, if_true, if_false, Bool.or_eq_true, decide_eq_true_eq, List.cons_append]
            refine ⟨trivial, ?_⟩
            repeat' split
            all_goals (simp; try omega)
        · match x' with
          | [] =>
            simp only [h1, h2, h3, h4, if_true, if_false, Bool.or_eq_true, decide_eq_true_eq, List.nil_append]
            match y with
            | [] | [_] => simp
            | y0 :: y1 :: y' =>
              have t : ¬ ((if b0.toNat = 240 then 144 else 128) ≤ b.toNat) := by split <;> omega
              simp
              intro h; exact absurd h t
          | [b1] =>
            simp only [h1, h2, h3, h4, if_true, if_false, Bool.or_eq_true, decide_eq_true_eq, List.cons_append, List.nil_append]
            cases y with
            | nil => simp
            | cons y0 y' => simp [hc]
          | [b1, b2] =>
            simp only [h1, h2, h3, h4, if_true, if_false, Bool.or_eq_true, decide_eq_true_eq, List.cons_append, List.nil_append]
            simp [hc]
          | b1 :: b2 :: b3 :: x'' =>
            simp only [h1, h2, h3, h4, if_true, if_false, Bool.or_eq_true, decide_eq_true_eq, List.cons_append]
            refine ⟨trivial, ?_⟩
            repeat' split
            all_goals (simp; try omega)

/-- an ASCII byte is never part of a longer sequence -/
theorem decodeGo_append_ascii_mid (b : UInt8) (hb : b.toNat < 0x80) (y : Bytes) : ∀ (n : Nat) (x : Bytes), x.length ≤ n →
    decodeGo (x ++ b :: y) = decodeGo x ++ decodeGo (b :: y) := by
  intro n
  induction n with
  | zero =>
    intro x hx
    have : x = [] := List.length_eq_zero_iff.mp (by omega)
    subst this
    rfl
  | succ n ih =>
    intro x hx
    cases x with
    | nil => rfl
    | cons b0 x' =>
      obtain ⟨k1, k2⟩ := decodeRune_append_ascii b0 x' b hb y
      rw [List.cons_append, decodeGo_step, decodeGo_step b0 x', k1]
      rw [List.cons_append]
      congr 1
      have hdrop : (b0 :: (x' ++ b :: y)).drop (max (decodeRune (b0 :: x')).2 1) =
          (b0 :: x').drop (max (decodeRune (b0 :: x')).2 1) ++ b :: y := by
        rw [← List.cons_append, List.drop_append_of_le_length k2]
      rw [hdrop]
      apply ih
      simp only [List.length_drop, List.length_cons] at hx ⊢
      omega


theorem decodeGo_mid (x : Bytes) (b : UInt8) (hb : b.toNat < 0x80) (y : Bytes) :
    decodeGo (x ++ b :: y) = decodeGo x ++ decodeGo (b :: y) :=
  decodeGo_append_ascii_mid b hb y x.length x (Nat.le_refl _)

theorem decodeGo_mid_sp (x y : Bytes) : decodeGo (x ++ SP :: y) = decodeGo x ++ ' ' :: decodeGo y := by
  rw [decodeGo_mid x SP (by decide) y, decodeGo_cons_ascii SP y (by decide)]
  rfl

end KlogV.RefineBLemmas
