/-
Regular expressions vs. model, part 5: the period patterns (`Expect.year`, `month`, `quarter`, `week`)
and `periodFromPattern` / `weekFromString`.
-/
import KlogV.Lemmas.RegexModel1
import KlogV.Model.Calendar
import KlogV.Lemmas.Totality
namespace KlogV.RxM
open KlogV.Rx

variable {env : Env}

/-! ### Shapes -/

theorem year_shape (s : List Char) :
    Matches env Expect.year (codes s) ↔
      ∃ y1 y2 y3 y4, s = [y1, y2, y3, y4] ∧ [y1, y2, y3, y4].all isDigit = true := by
  simp only [Expect.year, m_rep_digit_codes]
  constructor
  · rintro ⟨hl, hd⟩
    obtain ⟨y1, y2, y3, y4, rfl⟩ := len4 s hl
    exact ⟨y1, y2, y3, y4, rfl, hd⟩
  · rintro ⟨y1, y2, y3, y4, rfl, hd⟩
    exact ⟨rfl, hd⟩

theorem month_shape (s : List Char) :
    Matches env Expect.month (codes s) ↔
      ∃ y1 y2 y3 y4 m1 m2, s = [y1, y2, y3, y4, '-', m1, m2] ∧ [y1, y2, y3, y4, m1, m2].all isDigit = true := by
  simp only [Expect.month, Re.catl, m_cat_codes, m_rep_digit_codes, m_ch_codes, m_eps_codes]
  constructor
  · rintro ⟨y, _, rfl, ⟨hl, hd⟩, _, _, rfl, rfl, mo, _, rfl, ⟨hl2, hd2⟩, rfl⟩
    obtain ⟨y1, y2, y3, y4, rfl⟩ := len4 y hl
    obtain ⟨m1, m2, rfl⟩ := len2 mo hl2
    refine ⟨y1, y2, y3, y4, m1, m2, rfl, ?_⟩
    simp only [List.all_cons, List.all_nil, Bool.and_true, Bool.and_eq_true] at hd hd2 ⊢
    exact ⟨hd.1, hd.2.1, hd.2.2.1, hd.2.2.2, hd2.1, hd2.2⟩
  · rintro ⟨y1, y2, y3, y4, m1, m2, rfl, hd⟩
    simp only [List.all_cons, List.all_nil, Bool.and_true, Bool.and_eq_true] at hd
    obtain ⟨h1, h2, h3, h4, h5, h6⟩ := hd
    exact ⟨[y1, y2, y3, y4], _, rfl, ⟨rfl, by simp [h1, h2, h3, h4]⟩, _, _, rfl, rfl, [m1, m2], _, rfl,
      ⟨rfl, by simp [h5, h6]⟩, rfl⟩

theorem quarter_shape (s : List Char) :
    Matches env Expect.quarter (codes s) ↔
      ∃ y1 y2 y3 y4 q, s = [y1, y2, y3, y4, '-', 'Q', q] ∧ [y1, y2, y3, y4, q].all isDigit = true := by
  have e : "-Q".toList = ['-', 'Q'] := by simp
  simp only [Expect.quarter, Re.catl, m_cat_codes, m_rep_digit_codes, m_str_codes, m_digit_codes, m_eps_codes, e]
  constructor
  · rintro ⟨y, _, rfl, ⟨hl, hd⟩, _, _, rfl, rfl, _, _, rfl, ⟨q, hq, rfl⟩, rfl⟩
    obtain ⟨y1, y2, y3, y4, rfl⟩ := len4 y hl
    refine ⟨y1, y2, y3, y4, q, rfl, ?_⟩
    simp only [List.all_cons, List.all_nil, Bool.and_true, Bool.and_eq_true] at hd ⊢
    exact ⟨hd.1, hd.2.1, hd.2.2.1, hd.2.2.2, hq⟩
  · rintro ⟨y1, y2, y3, y4, q, rfl, hd⟩
    simp only [List.all_cons, List.all_nil, Bool.and_true, Bool.and_eq_true] at hd
    obtain ⟨h1, h2, h3, h4, h5⟩ := hd
    exact ⟨[y1, y2, y3, y4], _, rfl, ⟨rfl, by simp [h1, h2, h3, h4]⟩, _, _, rfl, rfl, _, _, rfl, ⟨q, h5, rfl⟩, rfl⟩

theorem week_shape (s : List Char) :
    Matches env Expect.week (codes s) ↔
      ∃ y1 y2 y3 y4 ws, s = y1 :: y2 :: y3 :: y4 :: '-' :: 'W' :: ws ∧ [y1, y2, y3, y4].all isDigit = true ∧
        ws.all isDigit = true ∧ (ws.length = 1 ∨ ws.length = 2) := by
  have e : "-W".toList = ['-', 'W'] := by simp
  simp only [Expect.week, Re.catl, m_cat_codes, m_rep_digit_codes, m_str_codes, m_repRange_digit_codes, m_eps_codes, e]
  constructor
  · rintro ⟨y, _, rfl, ⟨hl, hd⟩, _, _, rfl, rfl, ws, _, rfl, ⟨hl1, hl2, hd2⟩, rfl⟩
    obtain ⟨y1, y2, y3, y4, rfl⟩ := len4 y hl
    refine ⟨y1, y2, y3, y4, ws, by simp, hd, hd2, ?_⟩
    have : max 1 2 = 2 := rfl
    omega
  · rintro ⟨y1, y2, y3, y4, ws, rfl, hd, hd2, hl⟩
    exact ⟨[y1, y2, y3, y4], '-' :: 'W' :: ws, rfl, ⟨rfl, hd⟩, ['-', 'W'], ws, rfl, rfl, ws, [], by simp,
      ⟨by omega, by have : max 1 2 = 2 := rfl; omega, hd2⟩, rfl⟩

/-! ### The stages of `periodFromPattern` -/

def yearStage (s : List Char) : Option Period :=
  match s with
  | [y1, y2, y3, y4] => if allDigits s then (mkDate (digitsVal [y1, y2, y3, y4]) 1 1).map yearPeriod else none
  | _ => none

def monthStage (s : List Char) : Option Period :=
  match s with
  | [y1, y2, y3, y4, '-', m1, m2] =>
    if allDigits [y1, y2, y3, y4, m1, m2] then (mkDate (digitsVal [y1, y2, y3, y4]) (digitsVal [m1, m2]) 1).map monthPeriod else none
  | _ => none

def quarterStage (s : List Char) : Option Period :=
  match s with
  | [y1, y2, y3, y4, '-', 'Q', q] =>
    if allDigits [y1, y2, y3, y4, q] && 1 ≤ digitVal q && digitVal q ≤ 4 then
      (mkDate (digitsVal [y1, y2, y3, y4]) (digitVal q * 3) 1).map quarterPeriod else none
  | _ => none

def weekStage (s : List Char) : Res Period :=
  match weekFromString s with
  | .ok d => (match weekPeriod d with | some p => .ok p | none => .panic)
  | .err => .err
  | .panic => .panic

theorem periodFromPattern_stages (s : List Char) :
    periodFromPattern s =
      match yearStage s with
      | some p => .ok p
      | none => match monthStage s with
        | some p => .ok p
        | none => match quarterStage s with
          | some p => .ok p
          | none => weekStage s := rfl

theorem yearStage_matches {s : List Char} {p : Period} (h : yearStage s = some p) : Matches env Expect.year (codes s) := by
  unfold yearStage at h
  split at h
  · rename_i y1 y2 y3 y4
    split at h
    · rename_i hd
      exact (year_shape _).2 ⟨y1, y2, y3, y4, rfl, hd⟩
    · cases h
  · cases h

theorem monthStage_matches {s : List Char} {p : Period} (h : monthStage s = some p) : Matches env Expect.month (codes s) := by
  unfold monthStage at h
  split at h
  · rename_i y1 y2 y3 y4 m1 m2
    split at h
    · rename_i hd
      exact (month_shape _).2 ⟨y1, y2, y3, y4, m1, m2, rfl, hd⟩
    · cases h
  · cases h

theorem quarterStage_matches {s : List Char} {p : Period} (h : quarterStage s = some p) : Matches env Expect.quarter (codes s) := by
  unfold quarterStage at h
  split at h
  · rename_i y1 y2 y3 y4 q
    split at h
    · rename_i hd
      simp only [Bool.and_eq_true] at hd
      exact (quarter_shape _).2 ⟨y1, y2, y3, y4, q, rfl, hd.1.1⟩
    · cases h
  · cases h

theorem week_matches {s : List Char} (h : weekFromString s ≠ .err) : Matches env Expect.week (codes s) := by
  unfold weekFromString at h
  split at h
  · rename_i y1 y2 y3 y4 ws
    split at h
    · exact absurd rfl h
    · rename_i hc
      simp only [Bool.not_eq_true, Bool.not_eq_false', Bool.and_eq_true, Bool.or_eq_true, beq_iff_eq] at hc
      exact (week_shape _).2 ⟨y1, y2, y3, y4, ws, rfl, hc.1.1, hc.1.2, hc.2⟩
  · exact absurd rfl h

theorem weekStage_matches {s : List Char} (h : weekStage s ≠ .err) : Matches env Expect.week (codes s) := by
  apply week_matches
  intro e
  apply h
  unfold weekStage
  rw [e]

theorem period_matches {s : List Char} (h : periodFromPattern s ≠ .err) :
    Matches env Expect.year (codes s) ∨ Matches env Expect.month (codes s) ∨
      Matches env Expect.quarter (codes s) ∨ Matches env Expect.week (codes s) := by
  rw [periodFromPattern_stages] at h
  cases h1 : yearStage s with
  | some p => exact .inl (yearStage_matches h1)
  | none =>
    cases h2 : monthStage s with
    | some p => exact .inr (.inl (monthStage_matches h2))
    | none =>
      cases h3 : quarterStage s with
      | some p => exact .inr (.inr (.inl (quarterStage_matches h3)))
      | none =>
        rw [h1, h2, h3] at h
        exact .inr (.inr (.inr (weekStage_matches h)))

theorem period_ok_matches {s : List Char} {p : Period} (h : periodFromPattern s = .ok p) :
    Matches env Expect.year (codes s) ∨ Matches env Expect.month (codes s) ∨
      Matches env Expect.quarter (codes s) ∨ Matches env Expect.week (codes s) :=
  period_matches (by rw [h]; exact fun e => by cases e)

theorem period_no_match {s : List Char} (hy : ¬ Matches env Expect.year (codes s)) (hm : ¬ Matches env Expect.month (codes s))
    (hq : ¬ Matches env Expect.quarter (codes s)) (hw : ¬ Matches env Expect.week (codes s)) :
    periodFromPattern s = .err := by
  cases h : periodFromPattern s with
  | err => rfl
  | ok p =>
    rcases period_matches (env := env) (s := s) (by rw [h]; exact fun e => by cases e) with a | a | a | a <;> contradiction
  | panic =>
    rcases period_matches (env := env) (s := s) (by rw [h]; exact fun e => by cases e) with a | a | a | a <;> contradiction

theorem week_no_match {s : List Char} (hw : ¬ Matches env Expect.week (codes s)) : weekFromString s = .err := by
  cases h : weekFromString s with
  | err => rfl
  | ok p => exact absurd (week_matches (env := env) (by rw [h]; exact fun e => by cases e)) hw
  | panic => exact absurd (week_matches (env := env) (by rw [h]; exact fun e => by cases e)) hw

/-! ### What `periodFromPattern` computes on each shape -/

theorem digit_ne {c d : Char} (hc : isDigit c = true) (hd : isDigit d = false) : c ≠ d :=
  isDigit_ne c d hc hd

theorem one_le_daysIn (y m : Nat) : 1 ≤ daysIn y m := by
  unfold daysIn
  repeat' split
  all_goals decide

theorem period_year (y1 y2 y3 y4 : Char) (hd : [y1, y2, y3, y4].all isDigit = true) :
    periodFromPattern [y1, y2, y3, y4] = .ok (yearPeriod ⟨digitsVal [y1, y2, y3, y4], 1, 1, true⟩) := by
  have hlt := digitsVal_lt [y1, y2, y3, y4] hd
  simp only [List.length_cons, List.length_nil] at hlt
  have hv : Date.valid ⟨digitsVal [y1, y2, y3, y4], 1, 1, true⟩ = true := by
    simp only [Date.valid, Bool.and_eq_true, decide_eq_true_eq]
    exact ⟨⟨⟨⟨by omega, by decide⟩, by decide⟩, by decide⟩, one_le_daysIn _ _⟩
  rw [periodFromPattern_stages]
  have : yearStage [y1, y2, y3, y4] = some (yearPeriod ⟨digitsVal [y1, y2, y3, y4], 1, 1, true⟩) := by
    simp only [yearStage, allDigits, hd, if_true, mkDate, hv, Option.map_some]
  rw [this]

theorem period_month (y1 y2 y3 y4 m1 m2 : Char) (hd : [y1, y2, y3, y4, m1, m2].all isDigit = true) :
    periodFromPattern [y1, y2, y3, y4, '-', m1, m2] =
      match mkDate (digitsVal [y1, y2, y3, y4]) (digitsVal [m1, m2]) 1 with
      | some d => .ok (monthPeriod d)
      | none => .err := by
  have hm1 : isDigit m1 = true := by
    simp only [List.all_cons, List.all_nil, Bool.and_true, Bool.and_eq_true] at hd
    exact hd.2.2.2.2.1
  rw [periodFromPattern_stages]
  have e1 : yearStage [y1, y2, y3, y4, '-', m1, m2] = none := rfl
  have e2 : monthStage [y1, y2, y3, y4, '-', m1, m2] =
      (mkDate (digitsVal [y1, y2, y3, y4]) (digitsVal [m1, m2]) 1).map monthPeriod := by
    simp only [monthStage, allDigits, hd, if_true]
  have e3 : quarterStage [y1, y2, y3, y4, '-', m1, m2] = none := by
    unfold quarterStage
    split
    · rename_i heq
      simp only [List.cons.injEq, and_true] at heq
      exact absurd heq.2.2.2.2.2.1 (digit_ne hm1 (by decide))
    · rfl
  have e4 : weekStage [y1, y2, y3, y4, '-', m1, m2] = .err := by
    have : weekFromString [y1, y2, y3, y4, '-', m1, m2] = .err := by
      unfold weekFromString
      split
      · rename_i heq
        simp only [List.cons.injEq] at heq
        exact absurd heq.2.2.2.2.2.1 (digit_ne hm1 (by decide))
      · rfl
    unfold weekStage; rw [this]
  rw [e1, e2, e3, e4]
  cases mkDate (digitsVal [y1, y2, y3, y4]) (digitsVal [m1, m2]) 1 <;> rfl

theorem period_quarter (y1 y2 y3 y4 q : Char) (hd : [y1, y2, y3, y4, q].all isDigit = true) :
    periodFromPattern [y1, y2, y3, y4, '-', 'Q', q] =
      if 1 ≤ digitVal q ∧ digitVal q ≤ 4 then
        .ok (quarterPeriod ⟨digitsVal [y1, y2, y3, y4], digitVal q * 3, 1, true⟩)
      else .err := by
  have hd4 : [y1, y2, y3, y4].all isDigit = true := by
    simp only [List.all_cons, List.all_nil, Bool.and_true, Bool.and_eq_true] at hd ⊢
    exact ⟨hd.1, hd.2.1, hd.2.2.1, hd.2.2.2.1⟩
  have hlt := digitsVal_lt [y1, y2, y3, y4] hd4
  simp only [List.length_cons, List.length_nil] at hlt
  rw [periodFromPattern_stages]
  have e1 : yearStage [y1, y2, y3, y4, '-', 'Q', q] = none := rfl
  have e2 : monthStage [y1, y2, y3, y4, '-', 'Q', q] = none := by
    have : allDigits [y1, y2, y3, y4, 'Q', q] = false := by
      simp only [allDigits, List.all_cons, List.all_nil, Bool.and_true, show isDigit 'Q' = false by decide,
        Bool.false_and, Bool.and_false]
    simp only [monthStage, this, Bool.false_eq_true, if_false]
  have e4 : weekStage [y1, y2, y3, y4, '-', 'Q', q] = .err := rfl
  rw [e1, e2]
  by_cases hq : 1 ≤ digitVal q ∧ digitVal q ≤ 4
  · have hv : Date.valid ⟨digitsVal [y1, y2, y3, y4], digitVal q * 3, 1, true⟩ = true := by
      have h3 : digitVal q = 1 ∨ digitVal q = 2 ∨ digitVal q = 3 ∨ digitVal q = 4 := by omega
      simp only [Date.valid, Bool.and_eq_true, decide_eq_true_eq]
      exact ⟨⟨⟨⟨by omega, by omega⟩, by omega⟩, by decide⟩, one_le_daysIn _ _⟩
    have e3 : quarterStage [y1, y2, y3, y4, '-', 'Q', q] =
        some (quarterPeriod ⟨digitsVal [y1, y2, y3, y4], digitVal q * 3, 1, true⟩) := by
      have c : (allDigits [y1, y2, y3, y4, q] && decide (1 ≤ digitVal q) && decide (digitVal q ≤ 4)) = true := by
        simp only [allDigits, hd, hq.1, hq.2, decide_true, Bool.and_self]
      simp only [quarterStage, c, if_true, mkDate, hv, Option.map_some]
    rw [e3, if_pos hq]
  · have e3 : quarterStage [y1, y2, y3, y4, '-', 'Q', q] = none := by
      have c : (allDigits [y1, y2, y3, y4, q] && decide (1 ≤ digitVal q) && decide (digitVal q ≤ 4)) = false := by
        simp only [allDigits, hd, Bool.true_and]
        by_cases h1 : 1 ≤ digitVal q
        · have : ¬ digitVal q ≤ 4 := fun h => hq ⟨h1, h⟩
          simp [this]
        · simp [h1]
      simp only [quarterStage, c, Bool.false_eq_true, if_false]
    rw [e3, e4, if_neg hq]

theorem period_week (y1 y2 y3 y4 : Char) (ws : List Char) :
    periodFromPattern (y1 :: y2 :: y3 :: y4 :: '-' :: 'W' :: ws) =
      match weekFromString (y1 :: y2 :: y3 :: y4 :: '-' :: 'W' :: ws) with
      | .ok d => (match weekPeriod d with | some p => .ok p | none => .panic)
      | .err => .err
      | .panic => .panic := by
  rw [periodFromPattern_stages]
  have e1 : yearStage (y1 :: y2 :: y3 :: y4 :: '-' :: 'W' :: ws) = none := rfl
  have e3 : quarterStage (y1 :: y2 :: y3 :: y4 :: '-' :: 'W' :: ws) = none := by
    unfold quarterStage
    split
    · rename_i heq
      simp only [List.cons.injEq] at heq
      exact absurd heq.2.2.2.2.2.1 (by decide)
    · rfl
  have e2 : monthStage (y1 :: y2 :: y3 :: y4 :: '-' :: 'W' :: ws) = none := by
    unfold monthStage
    split
    · rename_i a1 a2 a3 a4 b1 b2 heq
      simp only [List.cons.injEq] at heq
      obtain ⟨_, _, _, _, _, rfl, _⟩ := heq
      have : allDigits [a1, a2, a3, a4, 'W', b2] = false := by
        simp only [allDigits, List.all_cons, List.all_nil, Bool.and_true, show isDigit 'W' = false by decide,
          Bool.false_and, Bool.and_false]
      simp only [this, Bool.false_eq_true, if_false]
    · rfl
  rw [e1, e2, e3]
  rfl

end KlogV.RxM
