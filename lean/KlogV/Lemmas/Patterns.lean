/- C15 lemmas: period patterns (`--period 2021-03`, `2021-Q2`, `2021-W07`) denote exactly that period. -/
import KlogV.Lemmas.Patterns3
namespace KlogV
open PatternLemmas

theorem pattern_month (y m : Nat) (hy : y ≤ 9999) (hm : 1 ≤ m ∧ m ≤ 12) :
    periodFromPattern (pad4 y ++ ['-'] ++ pad2 m) = .ok ⟨⟨y, m, 1, true⟩, ⟨y, m, daysIn y m, true⟩⟩ := by
  have hv := pad4_val y hy
  have hv2 := pad2_val m (by omega)
  have hmk : mkDate y m 1 = some ⟨y, m, 1, true⟩ := by
    apply mkDate_some; rw [valid_iff]; have := daysIn_pos y m; simp only; omega
  rw [pfp_eq]; unfold pad4 pad2
  simp only [List.cons_append, List.nil_append, yearAlt_long, monthAlt_7, allDigits, List.all_cons, List.all_nil,
    isDigit_dc, Bool.and_self, if_true, hv, hv2, hmk, Option.map_some, monthPeriod]

theorem pattern_month_rejected (y m : Nat) (hy : y ≤ 9999) (hm : m = 0 ∨ (13 ≤ m ∧ m ≤ 99)) :
    periodFromPattern (pad4 y ++ ['-'] ++ pad2 m) = .err := by
  have hv := pad4_val y hy
  have hv2 := pad2_val m (by omega)
  have hmk : mkDate y m 1 = none := by
    apply mkDate_none
    cases hh : (⟨y, m, 1, true⟩ : Date).valid with
    | false => rfl
    | true => rw [valid_iff] at hh; simp only at hh; omega
  have hQ := dc_ne (m / 10) 'Q' (by decide)
  have hW := dc_ne (m / 10) 'W' (by decide)
  rw [pfp_eq]; unfold pad4 pad2
  simp only [List.cons_append, List.nil_append, yearAlt_long, monthAlt_7, allDigits, List.all_cons, List.all_nil,
    isDigit_dc, Bool.and_self, if_true, hv, hv2, hmk, Option.map_none, quarterAlt_ne _ _ _ _ _ _ hQ, weekAlt,
    week_ne _ _ _ _ _ _ hW]

theorem pattern_quarter (y q : Nat) (hy : y ≤ 9999) (hq : 1 ≤ q ∧ q ≤ 4) :
    periodFromPattern (pad4 y ++ "-Q".toList ++ [digitChar q]) =
      .ok ⟨⟨y, 3 * q - 2, 1, true⟩, ⟨y, 3 * q, daysIn y (3 * q), true⟩⟩ := by
  have hv := pad4_val y hy
  have hq2 : digitVal (digitChar q) = q := by rw [(digitChar_spec q).2]; omega
  have hval : (⟨y, q * 3, 1, true⟩ : Date).valid = true := by
    rw [valid_iff]; have := daysIn_pos y (q * 3); simp only; omega
  have hmk : mkDate y (q * 3) 1 = some ⟨y, q * 3, 1, true⟩ := mkDate_some _ _ _ hval
  have hqq : (⟨y, q * 3, 1, true⟩ : Date).quarter = q := by unfold Date.quarter; simp only; omega
  have hQd : isDigit 'Q' = false := by decide
  rw [pfp_eq, toList_Q]; unfold pad4
  simp only [List.cons_append, List.nil_append, yearAlt_long, monthAlt_7, quarterAlt_Q, allDigits, List.all_cons, List.all_nil,
    isDigit_dc, hQd, Bool.and_self, Bool.and_false, Bool.false_and, Bool.true_and, Bool.false_eq_true, if_false, hv, hq2, hmk, Option.map_some]
  have h1 : decide (1 ≤ q) = true := by simp; omega
  have h2 : decide (q ≤ 4) = true := by simp; omega
  simp only [h1, h2, Bool.and_self, if_true]
  rw [quarterPeriod_eq _ hval, hqq]

theorem pattern_quarter_rejected (y q : Nat) (hy : y ≤ 9999) (hq : q = 0 ∨ (5 ≤ q ∧ q ≤ 9)) :
    periodFromPattern (pad4 y ++ "-Q".toList ++ [digitChar q]) = .err := by
  have _ := hy
  have hq2 : digitVal (digitChar q) = q := by rw [(digitChar_spec q).2]; omega
  have hQd : isDigit 'Q' = false := by decide
  have hW : 'Q' ≠ 'W' := by decide
  rw [pfp_eq, toList_Q]; unfold pad4
  simp only [List.cons_append, List.nil_append, yearAlt_long, monthAlt_7, quarterAlt_Q, allDigits, List.all_cons, List.all_nil,
    isDigit_dc, hQd, Bool.and_self, Bool.and_false, Bool.false_and, Bool.true_and, Bool.false_eq_true, if_false, hq2, weekAlt,
    week_ne _ _ _ _ _ _ hW]
  have h1 : (decide (1 ≤ q) && decide (q ≤ 4)) = false := by
    rcases hq with h | h
    · subst h; rfl
    · have : decide (q ≤ 4) = false := by simp; omega
      rw [this]; simp
  simp only [h1, Bool.false_eq_true, if_false]

/-- the two notations of a week number: `W07` and `W7` -/
def WeekDigits (w : Nat) (ws : List Char) : Prop := ws = pad2 w ∨ (w < 10 ∧ ws = [digitChar w])

theorem pattern_week (y w : Nat) (ws : List Char) (hy : y ≤ 9999) (hw : w ≤ 99) (hws : WeekDigits w ws) (p : Period)
    (h : periodFromPattern (pad4 y ++ "-W".toList ++ ws) = .ok p) :
    p.since.valid = true ∧ p.until_.valid = true ∧ p.since.weekday = 1 ∧ dayNumber p.until_ = dayNumber p.since + 6 ∧
      p.since.isoWeek = ((y : Int), w) ∧ p.until_.isoWeek = ((y : Int), w) := by
  rw [pfp_week y w ws hy hw hws] at h
  by_cases hw1 : 1 ≤ w
  · obtain ⟨ref1, hv1, hwd1, _, _, h5, h6, hb⟩ := weekBody_spec y w hy hw1
    rw [hb] at h
    cases h2 : ref1.plusDays (((w : Int) - ref1.isoWeek.2) * 7) with
    | none => rw [h2] at h; cases h
    | some ref2 =>
      rw [h2] at h; simp only at h
      obtain ⟨hv2, hwd2, _, h7, h8, hA, hB⟩ := ref2_spec y w ref1 ref2 hw1 hv1 hwd1 h5 h6 h2
      by_cases hne : ref2.isoWeek.2 = w
      · have hb' : (ref2.isoWeek.2 != w) = false := by simp [hne]
        rw [hb'] at h; simp only [Bool.false_eq_true, if_false] at h
        cases hp : weekPeriod ref2 with
        | none => rw [hp] at h; cases h
        | some q =>
          rw [hp] at h; simp only at h
          cases h
          have hiso : ref2.isoWeek = ((y : Int), w) := by
            apply hA
            apply Classical.byContradiction; intro hc
            have := hB (by omega); omega
          obtain ⟨s1, s2, s3, s4⟩ := weekPeriod_spec' ref2 hv2 p hp
          have ws1 := weekday_eq p.since
          have ws2 := weekday_eq p.until_
          have ws3 := weekday_eq ref2
          have hs : p.since.weekday = 1 := by omega
          have hu : p.until_.weekday = 7 := by omega
          have i1 := (isoWeek_eq_iff p.since ref2 s1 hv2).2 (by omega)
          have i2 := (isoWeek_eq_iff p.until_ ref2 s2 hv2).2 (by omega)
          refine ⟨s1, s2, hs, by omega, ?_, ?_⟩
          · rw [← hiso]; exact Prod.ext i1.1 i1.2
          · rw [← hiso]; exact Prod.ext i2.1 i2.2
      · have hb' : (ref2.isoWeek.2 != w) = true := by simp [hne]
        rw [hb'] at h; cases h
  · have : weekBody y w = .err := by unfold weekBody; rw [if_pos (by omega)]
    rw [this] at h; cases h

theorem pattern_week_accepted (y w : Nat) (ws : List Char) (hy : 1 ≤ y ∧ y ≤ 9998) (hws : WeekDigits w ws)
    (hex : ∃ x : Date, x.valid = true ∧ x.isoWeek = ((y : Int), w)) :
    ∃ p, periodFromPattern (pad4 y ++ "-W".toList ++ ws) = .ok p := by
  obtain ⟨x, hx, hxi⟩ := hex
  have sx := isoWeek_spec x hx
  simp only [hxi] at sx
  have ex := weekday_eq x
  rw [pfp_week y w ws (by omega) (by omega) hws]
  obtain ⟨ref1, hv1, hwd1, _, _, h5, h6, hb⟩ := weekBody_spec y w (by omega) (by omega)
  rw [hb]
  have hlo : 365 ≤ daysBeforeYear y := by unfold daysBeforeYear; omega
  have hhi : daysBeforeYear y ≤ 3651695 := by unfold daysBeforeYear; omega
  obtain ⟨ref2, h2, _, _⟩ := plusDays_exists ref1 (((w : Int) - ref1.isoWeek.2) * 7) hv1 (by omega) (by omega)
  obtain ⟨hv2, hwd2, hd2, h7, h8, hA, hB⟩ := ref2_spec y w ref1 ref2 (by omega) hv1 hwd1 h5 h6 h2
  have e1 := weekday_eq ref1
  have e2 := weekday_eq ref2
  have hiso := hA (by omega)
  have hb' : (ref2.isoWeek.2 != w) = false := by rw [hiso]; simp
  obtain ⟨s, u, hp, _⟩ := weekPeriod_some ref2 hv2 (by omega) (by omega)
  refine ⟨⟨s, u⟩, ?_⟩
  rw [h2]; simp only [hb', Bool.false_eq_true, if_false, hp]

theorem pattern_week_rejected (y w : Nat) (ws : List Char) (hy : 1 ≤ y ∧ y ≤ 9998) (hw : w ≤ 99) (hws : WeekDigits w ws)
    (hex : ¬ ∃ x : Date, x.valid = true ∧ x.isoWeek = ((y : Int), w)) :
    periodFromPattern (pad4 y ++ "-W".toList ++ ws) = .err := by
  rw [pfp_week y w ws (by omega) hw hws]
  by_cases hw1 : 1 ≤ w
  · obtain ⟨ref1, hv1, hwd1, h3, h4, h5, h6, hb⟩ := weekBody_spec y w (by omega) hw1
    rw [hb]
    have hlo : 365 ≤ daysBeforeYear y := by unfold daysBeforeYear; omega
    have hhi : daysBeforeYear y ≤ 3651695 := by unfold daysBeforeYear; omega
    obtain ⟨ref2, h2, _, _⟩ := plusDays_exists ref1 (((w : Int) - ref1.isoWeek.2) * 7) hv1 (by omega) (by omega)
    obtain ⟨hv2, hwd2, hd2, h7, h8, hA, hB⟩ := ref2_spec y w ref1 ref2 hw1 hv1 hwd1 h5 h6 h2
    have hne : ref2.isoWeek.2 ≠ w := by
      intro he
      apply hex
      refine ⟨ref2, hv2, hA ?_⟩
      apply Classical.byContradiction; intro hc
      have := hB (by omega); omega
    have hb' : (ref2.isoWeek.2 != w) = true := by simp [hne]
    rw [h2]; simp only [hb', if_true]
  · have : weekBody y w = .err := by unfold weekBody; rw [if_pos (by omega)]
    rw [this]

theorem pattern_sound (s : List Char) (p : Period) (h : periodFromPattern s = .ok p) :
    ∃ x : Date, x.valid = true ∧ (p = yearPeriod x ∨ p = monthPeriod x ∨ p = quarterPeriod x ∨ weekPeriod x = some p) := by
  exact pattern_sound' s p h

end KlogV
