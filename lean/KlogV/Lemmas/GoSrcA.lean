/- Helper lemmas for KlogV/Props/GoSrc.lean (the translated Go source computes the model's functions), part A. Core Lean only. -/
import KlogV.GoSem.Abs
import KlogV.Lemmas.GoSrcA1
set_option linter.unusedSimpArgs false
namespace KlogV.GoL
open KlogV.Go

theorem newTime_eq (hour minute : Nat) (shift : Int) (is24 : Bool) (hs : inInt64 shift) :
    (GoSrc.newTime hour minute shift ⟨is24⟩).res = (optRes (Time.mk' hour minute shift is24)).map Time.toGo := by
  rw [newTime_spec]
  unfold inInt64 at hs
  by_cases hc : hour = 24 ∧ minute = 0 ∧ shift ≤ 0
  · have hc' : (hour : Int) = 24 ∧ (minute : Int) = 0 ∧ shift ≤ 0 := by omega
    rw [if_pos hc']
    obtain ⟨h1, h2, h3⟩ := hc
    subst h1 h2
    have : wrap (shift + 1) = shift + 1 := by unfold wrap; omega
    simp [Time.mk', h3, this, G.res, optRes, Res.map, Time.toGo]
  · have hc' : ¬ ((hour : Int) = 24 ∧ (minute : Int) = 0 ∧ shift ≤ 0) := by omega
    rw [if_neg hc']
    have c2 : (hour == 24 && minute == 0 && decide (shift ≤ 0)) = false := by
      simp only [Bool.and_eq_false_iff, beq_eq_false_iff_ne, ne_eq, decide_eq_false_iff_not]
      omega
    by_cases hv : hour < 24 ∧ minute < 60
    · have hv' : (0:Int) ≤ hour ∧ (hour:Int) < 24 ∧ (0:Int) ≤ minute ∧ (minute:Int) < 60 := by omega
      rw [if_pos hv']
      simp [Time.mk', c2, hv, G.res, optRes, Res.map, Time.toGo]
    · have hv' : ¬ ((0:Int) ≤ hour ∧ (hour:Int) < 24 ∧ (0:Int) ≤ minute ∧ (minute:Int) < 60) := by omega
      rw [if_neg hv']
      simp [Time.mk', c2, hv, G.res, optRes, Res.map, Time.toGo]

theorem newTime_negative (hour minute shift : Int) (f : GoSrc.TimeFormat) (h : hour < 0 ∨ minute < 0) :
    (GoSrc.newTime hour minute shift f).res = .err := by
  rw [newTime_spec, if_neg (by omega), if_neg (by omega)]
  rfl

theorem NewTime_eq (hour minute : Nat) :
    (GoSrc.NewTime hour minute).res = (optRes (Time.mk' hour minute 0 true)).map Time.toGo := by
  rw [← newTime_eq hour minute 0 true (by unfold inInt64; omega)]
  simp [GoSrc.NewTime, GoSrc.DefaultTimeFormat, bind, Except.bind, pure, Except.pure]

theorem NewTimeYesterday_eq (hour minute : Nat) :
    (GoSrc.NewTimeYesterday hour minute).res = (optRes (Time.mk' hour minute (-1) true)).map Time.toGo := by
  rw [← newTime_eq hour minute (-1) true (by unfold inInt64; omega)]
  have : neg 1 = -1 := by decide
  simp [GoSrc.NewTimeYesterday, GoSrc.DefaultTimeFormat, bind, Except.bind, pure, Except.pure, this]

theorem NewTimeTomorrow_eq (hour minute : Nat) :
    (GoSrc.NewTimeTomorrow hour minute).res = (optRes (Time.mk' hour minute 1 true)).map Time.toGo := by
  rw [← newTime_eq hour minute 1 true (by unfold inInt64; omega)]
  simp [GoSrc.NewTimeTomorrow, GoSrc.DefaultTimeFormat, bind, Except.bind, pure, Except.pure]

theorem midnightOffset_eq (t : Time) (h : t.wf = true) :
    t.toGo.MidnightOffset = .ok (durOfMins t.offset) := midnightOffset_toGo t h

theorem isAfterOrEqual_eq (a b : Time) (ha : a.wf = true) (hb : b.wf = true) :
    a.toGo.IsAfterOrEqual b.toGo = .ok (a.afterOrEqual b) := by
  simp [GoSrc.time.IsAfterOrEqual, midnightOffset_toGo a ha, midnightOffset_toGo b hb, GoSrc.duration.InMinutes, durOfMins,
    ge, Time.afterOrEqual, bind, Except.bind, pure, Except.pure]

theorem isEqualTo_eq (a b : Time) (ha : a.wf = true) (hb : b.wf = true) :
    a.toGo.IsEqualTo b.toGo = .ok (a.offset == b.offset) := by
  simp [GoSrc.time.IsEqualTo, midnightOffset_toGo a ha, midnightOffset_toGo b hb, GoSrc.duration.InMinutes, durOfMins,
    bind, Except.bind, pure, Except.pure]

theorem shift_tests (t : Time) :
    t.toGo.IsToday = .ok (t.shift == 0) ∧ t.toGo.IsYesterday = .ok (decide (t.shift < 0)) ∧
    t.toGo.IsTomorrow = .ok (decide (t.shift > 0)) := by
  exact ⟨rfl, rfl, rfl⟩

theorem time_plus_eq (t : Time) (d : GoSrc.duration) (h : t.wf = true)
    (hd : inRange d.minutes = true) (hsum : inRange (t.offset + d.minutes) = true) :
    (t.toGo.Plus d).res = (optRes (t.plus d.minutes)).map Time.toGo := by
  have hb := offset_bounds t h
  have e := durPlus_ok t.offset d (by rw [inRange_iff]; omega) hd hsum
  have m1 : mul 24 60 = 1440 := by decide
  have m2 : mul 2 1440 = 2880 := by decide
  have n1 : neg 1 = -1 := by decide
  have m3 : mul 1440 (-1) = -1440 := by decide
  generalize hm : t.offset + d.minutes = mins at *
  simp only [GoSrc.time.Plus, midnightOffset_toGo t h, bind, Except.bind, pure, Except.pure]
  simp only [e]
  simp only [GoSrc.duration.InMinutes, durOfMins, pure, Except.pure, n1, m1, m2, m3, Time.plus, hm]
  by_cases c1 : mins ≥ 2880 ∨ mins < -1440
  · have : (ge mins 2880 || lt mins (-1440)) = true := by simpa [ge, lt] using c1
    have c1' : (decide (mins ≥ 2880) || decide (mins < -1440)) = true := by simpa using c1
    simp [this, c1', throw, throwThe, MonadExceptOf.throw, G.res, optRes, Res.map]
  · have : (ge mins 2880 || lt mins (-1440)) = false := by simp [ge, lt]; omega
    have c1' : (decide (mins ≥ 2880) || decide (mins < -1440)) = false := by simp; omega
    simp only [this, c1']
    by_cases c2 : mins < 0
    · have a1 : add (1440 : Int) mins = 1440 + mins := by show wrap _ = _; unfold wrap; omega
      simp only [lt, c2, decide_true, if_true, a1]
      rw [div60 _ (by omega), mod60 _ (by omega)]
      simp only [Time.toGo]
      exact newTime_eq _ _ _ _ (by unfold inInt64; omega)
    · by_cases c3 : mins > 1440
      · have a1 : sub mins 1440 = mins - 1440 := by show wrap _ = _; unfold wrap; omega
        simp only [lt, gt, c2, c3, decide_true, decide_false, Bool.false_eq_true, if_true, if_false, a1]
        rw [div60 _ (by omega), mod60 _ (by omega)]
        simp only [Time.toGo]
        exact newTime_eq _ _ _ _ (by unfold inInt64; omega)
      · simp only [lt, gt, c2, c3, decide_true, decide_false, Bool.false_eq_true, if_true, if_false]
        rw [div60 _ (by omega), mod60 _ (by omega)]
        simp only [Time.toGo]
        exact newTime_eq _ _ _ _ (by unfold inInt64; omega)

theorem time_plus_overflow (t : Time) (d : GoSrc.duration) (h : t.wf = true)
    (hd : ¬ (inRange d.minutes = true ∧ inRange (t.offset + d.minutes) = true)) :
    (t.toGo.Plus d).res = .panic := by
  have hb := offset_bounds t h
  have e := durPlus_panic t.offset d (by rw [inRange_iff]; omega) hd
  simp [GoSrc.time.Plus, midnightOffset_toGo t h, e, bind, Except.bind, G.res]

theorem time_toString_eq (t : Time) (h : t.wf = true) : t.toGo.ToString = .ok t.print := time_toString_spec t h

theorem time_toStringWithFormat_eq (t : Time) (b : Bool) (h : t.wf = true) :
    t.toGo.ToStringWithFormat ⟨b⟩ = .ok ({ t with is24 := b } : Time).print := by
  have hw : ({ t with is24 := b } : Time).wf = true := h
  rw [← time_toString_spec _ hw]
  rfl

theorem newRange_eq (s e : Time) (sp : Bool) (hs : s.wf = true) (he : e.wf = true) :
    (GoSrc.NewRangeWithFormat s.toGo e.toGo ⟨sp⟩).res =
      if e.afterOrEqual s then .ok ⟨s.toGo, e.toGo, ⟨sp⟩⟩ else .err := by
  simp only [GoSrc.NewRangeWithFormat, isAfterOrEqual_eq e s he hs, bind, Except.bind, pure, Except.pure]
  cases e.afterOrEqual s <;> simp [G.res, throw, throwThe, MonadExceptOf.throw]

theorem range_duration_eq (s e : Time) (sp : Bool) (hs : s.wf = true) (he : e.wf = true) :
    (⟨s.toGo, e.toGo, ⟨sp⟩⟩ : GoSrc.timeRange).Duration = .ok (durOfMins (EntryVal.range s e sp).minutes) := by
  have b1 := offset_bounds s hs
  have b2 := offset_bounds e he
  have w : sub e.offset s.offset = e.offset - s.offset := by show wrap _ = _; unfold wrap; omega
  have e1 := newDuration_ok 0 (e.offset - s.offset) (by omega) (by rw [inRange_iff]; omega) (by rw [inRange_iff]; omega)
  simp only [Int.zero_mul, Int.zero_add] at e1
  simp only [GoSrc.timeRange.Duration, GoSrc.timeRange.Start, GoSrc.timeRange.End, midnightOffset_toGo s hs,
    midnightOffset_toGo e he, bind, Except.bind, pure, Except.pure, GoSrc.duration.InMinutes]
  simp only [durOfMins, w]
  simpa [durOfMins, EntryVal.minutes] using e1

theorem range_toString_eq (s e : Time) (sp : Bool) (hs : s.wf = true) (he : e.wf = true) :
    (⟨s.toGo, e.toGo, ⟨sp⟩⟩ : GoSrc.timeRange).ToString = .ok (EntryVal.range s e sp).print := by
  simp only [GoSrc.timeRange.ToString, GoSrc.timeRange.Start, GoSrc.timeRange.End, time_toString_spec s hs,
    time_toString_spec e he, bind, Except.bind, pure, Except.pure, add, GAdd.gadd, EntryVal.print]
  cases sp <;> simp

theorem openRange_toString_eq (s : Time) (sp : Bool) (extra : Nat) (hs : s.wf = true) (hx : (extra : Int) < 9223372036854775807) :
    (⟨s.toGo, ⟨sp, extra⟩⟩ : GoSrc.openRange).ToString = .ok (EntryVal.openRange s sp extra).print := by
  have h2 : stringsRepeat ['?'] (add 1 (extra : Int)) = .ok (List.replicate (1 + extra) '?') := by
    rw [add_one_nat extra hx]; exact repeat_q _
  exact openRange_spec s.toGo sp extra _ _ (time_toString_spec s hs) h2

end KlogV.GoL
