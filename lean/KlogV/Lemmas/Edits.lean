/-
Helper lemmas for C03: the exact effect of the reconciler's editing primitives on the list of
lines, and the shape of every reconciler operation.
-/
import KlogV.Model.Reconciler
import KlogV.Model.Commands
import KlogV.Lemmas.Lines
namespace KlogV

namespace EditLemmas

/-- The `before` part of `insertLines` with its last line's ending fixed. -/
def fixLast (st : Style) (b : List Line) : List Line :=
  match b.getLast? with
  | some l => b.dropLast ++ [setEndingIfNone st l]
  | none => b

theorem eq_nil_or_snoc {α} (b : List α) : b = [] ∨ ∃ d l, b = d ++ [l] := by
  rcases List.eq_nil_or_concat b with h | ⟨d, l, h⟩
  · exact .inl h
  · exact .inr ⟨d, l, by simpa using h⟩

theorem setEndingIfNone_eq (st : Style) (l : Line) :
    setEndingIfNone st l = { l with ending := if l.ending = .none then st.lineEnding.1 else l.ending } := by
  unfold setEndingIfNone
  by_cases h : l.ending = .none <;> simp [h]

theorem fixLast_snoc (st : Style) (d : List Line) (l : Line) :
    fixLast st (d ++ [l]) = d ++ [setEndingIfNone st l] := by
  simp [fixLast]

theorem fixLast_nil (st : Style) : fixLast st [] = [] := by
  simp [fixLast]

theorem fixLast_length (st : Style) (b : List Line) : (fixLast st b).length = b.length := by
  rcases eq_nil_or_snoc b with rfl | ⟨d, l, rfl⟩
  · simp [fixLast_nil]
  · simp [fixLast_snoc]

theorem fixLast_getElem?_lt (st : Style) (b : List Line) (i : Nat) (h : i + 1 < b.length) :
    (fixLast st b)[i]? = b[i]? := by
  rcases eq_nil_or_snoc b with rfl | ⟨d, l, rfl⟩
  · simp at h
  · simp at h
    rw [fixLast_snoc, List.getElem?_append_left h, List.getElem?_append_left h]

theorem fixLast_getElem?_last (st : Style) (b : List Line) (l : Line) (hb : 1 ≤ b.length)
    (h : b[b.length - 1]? = some l) :
    (fixLast st b)[b.length - 1]? = some (setEndingIfNone st l) := by
  rcases eq_nil_or_snoc b with rfl | ⟨d, l', rfl⟩
  · simp at hb
  · simp at h
    subst h
    simp [fixLast_snoc]

theorem insertLines_eq (st : Style) (lines : List Line) (idx : Nat) (texts : List Insertable) :
    insertLines st lines idx texts = fixLast st (lines.take idx) ++ texts.map (mkLine st) ++ lines.drop idx := rfl

end EditLemmas

open EditLemmas

theorem insertLines_spec (st : Style) (lines : List Line) (idx : Nat) (texts : List Insertable) (h : idx ≤ lines.length) :
    (insertLines st lines idx texts).length = lines.length + texts.length ∧
    (∀ i, i + 1 < idx → (insertLines st lines idx texts)[i]? = lines[i]?) ∧
    (∀ l, idx ≥ 1 → lines[idx - 1]? = some l →
      (insertLines st lines idx texts)[idx - 1]? = some { l with ending := if l.ending = .none then st.lineEnding.1 else l.ending }) ∧
    (∀ k, k < texts.length → (insertLines st lines idx texts)[idx + k]? = (texts[k]?).map (mkLine st)) ∧
    (∀ i, idx ≤ i → (insertLines st lines idx texts)[i + texts.length]? = lines[i]?) := by
  have hlen : (fixLast st (lines.take idx)).length = idx := by
    rw [fixLast_length, List.length_take]; omega
  have htl : (lines.take idx).length = idx := by rw [List.length_take]; omega
  rw [insertLines_eq]
  refine ⟨?_, ?_, ?_, ?_, ?_⟩
  · simp only [List.length_append, hlen, List.length_map, List.length_drop]; omega
  · intro i hi
    rw [List.append_assoc, List.getElem?_append_left (by omega),
      fixLast_getElem?_lt st _ i (by omega), List.getElem?_take_of_lt (by omega)]
  · intro l h1 hl
    rw [List.append_assoc, List.getElem?_append_left (by omega)]
    have := fixLast_getElem?_last st (lines.take idx) l (by omega)
      (by rw [htl, List.getElem?_take_of_lt (by omega)]; exact hl)
    rw [htl] at this
    rw [this, setEndingIfNone_eq]
  · intro k hk
    rw [List.getElem?_append_left (by simp [hlen]; omega),
      List.getElem?_append_right (by omega), hlen]
    simp
  · intro i hi
    rw [List.getElem?_append_right (by simp [hlen]; omega)]
    simp only [List.length_append, hlen, List.length_map, List.getElem?_drop]
    congr 1; omega

theorem modifyLine_spec (lines : List Line) (i : Nat) (f : Bytes → Bytes) :
    (modifyLine lines i f).length = lines.length ∧
    (∀ j, j ≠ i → (modifyLine lines i f)[j]? = lines[j]?) ∧
    (∀ l, lines[i]? = some l → (modifyLine lines i f)[i]? = some { l with text := f l.text }) := by
  unfold modifyLine
  refine ⟨by simp, ?_, ?_⟩
  · intro j hj
    simp only [List.getElem?_map, List.getElem?_zipIdx, Option.map_map]
    cases lines[j]? with
    | none => rfl
    | some l => simp [hj]
  · intro l hl
    simp only [List.getElem?_map, List.getElem?_zipIdx, Option.map_map, hl]
    simp

namespace EditLemmas

/-- Generic form of the two regex-like replacements: a prefix satisfying `p`, then a non-empty
run violating `p` (replaced), then the rest, which is empty or starts with a `p` element. -/
theorem replaceRun_spec {α} (p q : α → Bool) (hq : ∀ b, q b = !p b) (pre mid rest repl : List α)
    (hpre : ∀ b ∈ pre, p b = true) (hmid : mid ≠ [] ∧ ∀ b ∈ mid, p b = false)
    (hrest : ∀ b r, rest = b :: r → p b = true) :
    (if ((pre ++ mid ++ rest).drop ((pre ++ mid ++ rest).takeWhile p).length).isEmpty then pre ++ mid ++ rest
     else (pre ++ mid ++ rest).takeWhile p ++ repl ++
       ((pre ++ mid ++ rest).drop ((pre ++ mid ++ rest).takeWhile p).length).dropWhile q) = pre ++ repl ++ rest := by
  obtain ⟨hne, hmid⟩ := hmid
  obtain ⟨m, ms, rfl⟩ := List.exists_cons_of_ne_nil hne
  have hm : p m = false := hmid m (by simp)
  have htw : (pre ++ (m :: ms) ++ rest).takeWhile p = pre := by
    rw [List.append_assoc, List.takeWhile_append_of_pos hpre]
    simp [hm]
  rw [htw]
  have hdrop : (pre ++ (m :: ms) ++ rest).drop pre.length = (m :: ms) ++ rest := by
    rw [List.append_assoc, List.drop_left]
  rw [hdrop]
  have hdw : ((m :: ms) ++ rest).dropWhile q = rest := by
    rw [List.dropWhile_append_of_pos (by intro a ha; rw [hq, hmid a ha]; rfl)]
    cases rest with
    | nil => rfl
    | cons b r => simp [hq, hrest b r rfl]
  rw [hdw]
  simp

theorem replaceRun_none {α} (p : α → Bool) (text : List α) (h : ∀ b ∈ text, p b = true) :
    (text.drop (text.takeWhile p).length).isEmpty = true := by
  have : text.takeWhile p = text := by
    induction text with
    | nil => rfl
    | cons a t ih => simp_all
  rw [this]; simp

end EditLemmas

theorem replaceQuestionMarks_spec (pre qs rest repl : Bytes) (hpre : ∀ b ∈ pre, b ≠ 63)
    (hqs : qs ≠ [] ∧ ∀ b ∈ qs, b = 63) (hrest : rest.head? ≠ some 63) :
    replaceQuestionMarks (pre ++ qs ++ rest) repl = pre ++ repl ++ rest := by
  unfold replaceQuestionMarks
  exact replaceRun_spec (· != 63) (· == 63) (by intro b; show _ = !(!(b == 63)); rw [Bool.not_not]) pre qs rest repl
    (by intro b hb; simpa using hpre b hb)
    ⟨hqs.1, by intro b hb; simpa using hqs.2 b hb⟩
    (by intro b r hr; subst hr; simpa using hrest)

theorem replaceQuestionMarks_none (text repl : Bytes) (h : ∀ b ∈ text, b ≠ 63) :
    replaceQuestionMarks text repl = text := by
  unfold replaceQuestionMarks
  have := replaceRun_none (· != (63 : UInt8)) text (by intro b hb; simpa using h b hb)
  simp only [this, if_true]

theorem replaceFirstToken_spec (lead tok rest repl : Bytes) (hl : ∀ b ∈ lead, isBlankByte b = true)
    (ht : tok ≠ [] ∧ ∀ b ∈ tok, isBlankByte b = false)
    (hr : rest = [] ∨ ∃ b r, rest = b :: r ∧ isBlankByte b = true) :
    replaceFirstToken (lead ++ tok ++ rest) repl = lead ++ repl ++ rest := by
  unfold replaceFirstToken
  exact replaceRun_spec isBlankByte (fun b => !isBlankByte b) (by intro b; rfl) lead tok rest repl hl ht
    (by
      intro b r hbr
      rcases hr with h0 | ⟨b', r', h1, h2⟩
      · rw [h0] at hbr; cases hbr
      · rw [h1] at hbr; cases hbr; exact h2)

theorem appendEntry_spec (r r' : Reconciler) (entry : List Bytes) (h : r.appendEntry entry = some r') :
    r'.lines = insertLines r.style r.lines r.lastLine (toMultilineEntryTexts [] entry) ∧
    r'.record = r.record ∧ r'.style = r.style ∧ r'.lastLine = r.lastLine ∧ r'.recIdx = r.recIdx := by
  unfold Reconciler.appendEntry at h
  split at h
  · split at h
    · cases h
    · cases h; exact ⟨rfl, rfl, rfl, rfl, rfl⟩
  · cases h; exact ⟨rfl, rfl, rfl, rfl, rfl⟩

theorem startOpenRange_spec (r r' : Reconciler) (t : Time) (fmt : Reformat Bool) (summary : List Bytes)
    (h : r.startOpenRange t fmt summary = some r') :
    ∃ value : Bytes, r'.lines = insertLines r.style r.lines r.lastLine (toMultilineEntryTexts value summary) ∧
      r'.record = r.record := by
  unfold Reconciler.startOpenRange at h
  split at h
  · cases h
  · cases h; exact ⟨_, rfl, rfl⟩

namespace EditLemmas

theorem modifyLine_id (lines : List Line) (i : Nat) (f : Bytes → Bytes) (hf : ∀ t, f t = t) :
    modifyLine lines i f = lines := by
  unfold modifyLine
  apply List.ext_getElem?
  intro j
  simp only [List.getElem?_map, List.getElem?_zipIdx, Option.map_map]
  cases lines[j]? with
  | none => rfl
  | some l => simp [hf]

end EditLemmas

theorem extendPause_spec (r r' : Reconciler) (inc : Int) (h : r.extendPause inc = .ok r') :
    r'.lines = r.lines ∨ ∃ (i : Nat) (repl : Bytes), r'.lines = modifyLine r.lines i (fun t => replaceFirstToken t repl) := by
  unfold Reconciler.extendPause at h
  dsimp only at h
  repeat' split at h
  all_goals (cases h; first | done | exact .inl rfl | exact .inr ⟨_, _, rfl⟩)

theorem makeResult_text (r : Reconciler) (text : Bytes) (rec : Record) (h : r.makeResult = .ok (text, rec)) :
    text = joinLines r.lines := by
  unfold Reconciler.makeResult at h
  dsimp only at h
  split at h
  · split at h
    · cases h; rfl
    · cases h
  · cases h
  · cases h

theorem EditLemmas.ite_sep (c : Bool) : (if c = true then ([] : Bytes) else [SP]) = [] ∨ (if c = true then ([] : Bytes) else [SP]) = [SP] := by
  cases c <;> simp

/-- repaired after fix D18: the separator is omitted after a dangling blank -/
theorem closeOpenRange_spec (r r' : Reconciler) (e : Time) (fmt : Reformat Bool) (add : List Bytes)
    (h : r.closeOpenRange e fmt add = some r') :
    ∃ (valueLine lastLine : Nat) (endValue : Bytes) (mid : List Line) (sep : Bytes),
      valueLine ≤ lastLine + 1 ∧ (sep = [] ∨ sep = [SP]) ∧
      mid = modifyLine (modifyLine r.lines valueLine (fun t => replaceQuestionMarks t endValue)) lastLine
              (fun t => t ++ (match add with | [] => [] | a0 :: _ => sep ++ a0)) ∧
      r'.lines = (match add with
                  | _ :: (x :: xs) => insertLines r.style mid (lastLine + 1) ((x :: xs).map (fun s => (s, 2)))
                  | _ => mid) := by
  unfold Reconciler.closeOpenRange at h
  dsimp only at h
  cases hf : findOpenRangeIndex r.record with
  | none => simp [hf] at h
  | some oi =>
    cases he : endOpenRange e r.record.entries with
    | none => simp [hf, he] at h
    | some es =>
      simp only [hf, he] at h
      rcases add with _ | ⟨a0, _ | ⟨x, xs⟩⟩
      · cases h
        refine ⟨r.lastLine - countLines (r.record.entries.drop oi),
          r.lastLine - countLines (r.record.entries.drop oi), ?_, _, [], by omega, Or.inl rfl, rfl, ?_⟩
        rotate_left
        dsimp only
        exact (modifyLine_id _ _ (fun t => t ++ []) (fun t => List.append_nil t)).symm
      · dsimp only at h
        simp only [List.isEmpty_nil, if_true] at h
        cases h
        refine ⟨_, _, _, _, _, ?_, ?_, rfl, rfl⟩
        · omega
        · exact EditLemmas.ite_sep _
      · dsimp only at h
        simp only [List.isEmpty_cons, Bool.false_eq_true, if_false] at h
        cases h
        refine ⟨_, _, _, _, _, ?_, ?_, rfl, rfl⟩
        · omega
        · exact EditLemmas.ite_sep _


namespace EditLemmas

theorem encodeChar_ne (c : Char) : encodeChar c ≠ [] := by
  unfold encodeChar; dsimp only; split <;> (try split) <;> (try split) <;> simp

theorem bytesOfChars_cons_ne (c : Char) (cs : List Char) (tl : Bytes) : bytesOfChars (c :: cs) ++ tl ≠ [] := by
  have := encodeChar_ne c
  simp [bytesOfChars, encode, this]

theorem filter_summary_nil (l : List Bytes) (h : ∀ s ∈ l, s ≠ []) :
    ((l.map (fun s => ((s, 0) : Insertable))).filter (fun t => t.1.isEmpty)) = [] := by
  rw [List.filter_eq_nil_iff]
  intro t ht
  simp only [List.mem_map] at ht
  obtain ⟨s, hs, rfl⟩ := ht
  simpa using h s hs

end EditLemmas

theorem reconcilerForNewRecord_spec (date : Date) (fmt : Reformat Bool) (ad : AdditionalData) (rs : List Record) (bos : List BlockOut)
    (hs : ∀ s ∈ ad.summary.getD [], s ≠ []) :
    ∃ (idx : Nat) (texts : List Insertable),
      (reconcilerForNewRecord date fmt ad rs bos).lines = insertLines (elect {} rs (bos.map (·.lines))) (bos.map (·.lines)).flatten idx texts ∧
      (texts.filter (fun t => t.1.isEmpty)).length ≤ 1 ∧ texts.length = 1 + (ad.summary.getD []).length + (if rs.isEmpty then 0 else 1) := by
  unfold reconcilerForNewRecord
  dsimp only
  generalize hhl : (bytesOfChars _ ++ _ : Bytes) = headline
  have hne : headline ≠ [] := by
    subst hhl
    split <;> exact bytesOfChars_cons_ne _ _ _
  have hf := filter_summary_nil _ hs
  have hh : headline.isEmpty = false := by cases headline <;> simp_all
  cases hrs : rs.isEmpty with
  | true =>
    refine ⟨0, _, rfl, ?_, ?_⟩
    · simp [hh, hf]
    · simp; omega
  | false =>
    cases newRecordPosition date 0 rs with
    | none =>
      refine ⟨0, _, rfl, ?_, ?_⟩
      · simp [hh, hf]
      · simp; omega
    | some i =>
      refine ⟨_, _, rfl, ?_, ?_⟩
      · simp [hh, hf]
      · simp; omega

end KlogV
