/- `Month.Previous` and `Quarter.Previous` of the translated period code, used by GoCalB.lean. Core Lean only. -/
import KlogV.Lemmas.GoCalB4
set_option linter.unusedSimpArgs false
namespace KlogV.GoL.B
open KlogV.Go

/-! ### Month.Previous -/

def mpBody (d0 : GoCal.date) (s : Option GoCal.Month × GoCal.date) : G (ForInStep (Option GoCal.Month × GoCal.date)) := do
  let r ← s.2.PlusDays (neg 25)
  let a ← r.Month
  let b ← d0.Month
  if (a != b) = true then pure (ForInStep.done (some ⟨r⟩, r))
  else pure (ForInStep.yield (none, r))

theorem month_previous_unfold (m : GoCal.Month) :
    GoCal.Month.Previous m =
      match loopN (mpBody m.date) 64 (none, m.date) with
      | .error e => .error e
      | .ok s => match s.1 with | some r => .ok r | none => .error (Exc.err "klogv: loop fuel exhausted") := by
  have e1 := forIn_const (List.range 64) ((none : Option GoCal.Month), m.date) (mpBody m.date)
  rw [List.length_range] at e1
  unfold GoCal.Month.Previous
  conv at e1 => lhs; unfold mpBody
  simp only [] at e1 ⊢
  rw [e1]
  cases loopN (mpBody m.date) 64 (none, m.date) with
  | error e => rfl
  | ok s =>
    obtain ⟨s1, s2⟩ := s
    cases s1 <;> rfl

theorem mpBody_loop (k : Nat) : ∀ (y : Date) (n : Nat) (d0 : GoCal.date) (o : Option GoCal.Month), y.valid = true →
    d0.month = (y.m : Int) →
    (dayNumber y - monthStart y) / 25 + 1 ≤ k → (dayNumber y - monthStart y) / 25 + 1 ≤ n →
    loopN (mpBody d0) k (o, y.toGo) =
      match prevMonthDate n y.m y with
      | some r => .ok (some ⟨r.toGo⟩, r.toGo)
      | none => .error .panic := by
  induction k with
  | zero =>
    intro y n d0 o hv _ hk _
    have := monthStart_le y hv
    omega
  | succ k ih =>
    intro y n d0 o hv hd hk hn
    have ms := monthStart_le y hv
    have dp := daysIn_pos y.y y.m
    obtain ⟨n', rfl⟩ : ∃ n', n = n' + 1 := ⟨n - 1, by omega⟩
    have pd := date_plusDays_eq' y (-25) hv
    unfold loopN prevMonthDate
    cases hp : y.plusDays (-25) with
    | none =>
      rw [hp] at pd
      simp [mpBody, neg25, pd, bind, Except.bind, pure, Except.pure]
    | some r =>
      rw [hp] at pd
      have hr := plusDays_some y r _ hv hp
      by_cases c : dayNumber r < monthStart y
      · have := prev_month_of_between y r hv hr.1 (by omega) c
        have hne : (r.m != y.m) = true := by simp [this.1]
        have hne' : (r.toGo.month != d0.month) = true := by
          rw [hd, toGo_month]; simp only [bne_iff_ne, ne_eq]; omega
        simp [mpBody, neg25, pd, bind, Except.bind, pure, Except.pure, GoCal.date.Month, hne, hne']
      · have sm := same_month_of_between y r hv hr.1 (by omega) (by omega)
        have hne : (r.m != y.m) = false := by simp [sm.2]
        have hne' : (r.toGo.month != d0.month) = false := by
          rw [hd, toGo_month, sm.2]; simp
        have e : monthStart r = monthStart y := by unfold monthStart; rw [sm.1, sm.2]
        have := ih r n' d0 none hr.1 (by rw [hd, sm.2]) (by omega) (by omega)
        rw [sm.2] at this
        simp [mpBody, neg25, pd, bind, Except.bind, pure, Except.pure, GoCal.date.Month, hne, hne', this]

theorem month_previous_go (x : Date) (h : x.valid = true) :
    GoCal.Month.Previous ⟨x.toGo⟩ = match previousDate .month x with | some r => .ok ⟨r.toGo⟩ | none => .error .panic := by
  have ms := monthStart_le x h
  have dp := daysIn_pos x.y x.m
  rw [month_previous_unfold]
  simp only
  rw [mpBody_loop 64 x 4 x.toGo none h rfl (by omega) (by omega)]
  unfold previousDate
  simp only
  cases prevMonthDate 4 x.m x <;> rfl

/-! ### Quarter.Previous -/

def qpBody (d0 : GoCal.date) (s : Option GoCal.Quarter × GoCal.date) : G (ForInStep (Option GoCal.Quarter × GoCal.date)) := do
  let r ← s.2.PlusDays (neg 80)
  let a ← r.Quarter
  let b ← d0.Quarter
  if (a != b) = true then pure (ForInStep.done (some ⟨r⟩, r))
  else pure (ForInStep.yield (none, r))

theorem quarter_previous_unfold (m : GoCal.Quarter) :
    GoCal.Quarter.Previous m =
      match loopN (qpBody m.date) 64 (none, m.date) with
      | .error e => .error e
      | .ok s => match s.1 with | some r => .ok r | none => .error (Exc.err "klogv: loop fuel exhausted") := by
  have e1 := forIn_const (List.range 64) ((none : Option GoCal.Quarter), m.date) (qpBody m.date)
  rw [List.length_range] at e1
  unfold GoCal.Quarter.Previous
  conv at e1 => lhs; unfold qpBody
  simp only [] at e1 ⊢
  rw [e1]
  cases loopN (qpBody m.date) 64 (none, m.date) with
  | error e => rfl
  | ok s =>
    obtain ⟨s1, s2⟩ := s
    cases s1 <;> rfl

theorem qpBody_loop (k : Nat) : ∀ (y : Date) (n : Nat) (d0 : GoCal.date) (o : Option GoCal.Quarter), y.valid = true →
    d0.Quarter = .ok (y.quarter : Int) →
    (dayNumber y - quarterStart y) / 80 + 1 ≤ k → (dayNumber y - quarterStart y) / 80 + 1 ≤ n →
    loopN (qpBody d0) k (o, y.toGo) =
      match prevQuarterDate n y.quarter y with
      | some r => .ok (some ⟨r.toGo⟩, r.toGo)
      | none => .error .panic := by
  induction k with
  | zero =>
    intro y n d0 o hv _ hk _
    have := quarterStart_le y hv
    omega
  | succ k ih =>
    intro y n d0 o hv hd hk hn
    have ms := quarterStart_le y hv
    have ql := quarter_len y hv
    obtain ⟨n', rfl⟩ : ∃ n', n = n' + 1 := ⟨n - 1, by omega⟩
    have pd := date_plusDays_eq' y (-80) hv
    unfold loopN prevQuarterDate
    cases hp : y.plusDays (-80) with
    | none =>
      rw [hp] at pd
      simp [qpBody, neg80, pd, bind, Except.bind, pure, Except.pure]
    | some r =>
      rw [hp] at pd
      have hr := plusDays_some y r _ hv hp
      have rq := date_quarter_eq' r hr.1
      by_cases c : dayNumber r < quarterStart y
      · have := prev_quarter_of_between y r hv hr.1 (by omega) c
        have hne : (r.quarter != y.quarter) = true := by simp [this.1]
        have hne' : ((r.quarter : Int) != (y.quarter : Int)) = true := by
          simp only [bne_iff_ne, ne_eq]; omega
        simp [qpBody, neg80, pd, bind, Except.bind, pure, Except.pure, rq, hd, hne, hne']
      · have sm := same_quarter_of_between y r hv hr.1 (by omega) (by omega)
        have hne : (r.quarter != y.quarter) = false := by simp [sm.2]
        have hne' : ((r.quarter : Int) != (y.quarter : Int)) = false := by
          rw [sm.2]; simp
        have e : quarterStart r = quarterStart y := by unfold quarterStart; rw [sm.1, sm.2]
        have := ih r n' d0 none hr.1 (by rw [hd, sm.2]) (by omega) (by omega)
        rw [sm.2] at this
        simp [qpBody, neg80, pd, bind, Except.bind, pure, Except.pure, rq, hd, hne, hne', this]

theorem quarter_previous_go (x : Date) (h : x.valid = true) :
    GoCal.Quarter.Previous ⟨x.toGo⟩ = match previousDate .quarter x with | some r => .ok ⟨r.toGo⟩ | none => .error .panic := by
  have ms := quarterStart_le x h
  have qn : quarterNext x ≤ quarterStart x + 92 := by
    have t := dbm_q x.y
    have hL := leap_le x.y
    unfold quarterStart quarterNext
    rcases quarter_cases x h with e | e | e | e <;> rw [e] <;> simp only [Nat.reduceMul, Nat.reduceSub, Nat.reduceAdd] <;> omega
  rw [quarter_previous_unfold]
  simp only
  rw [qpBody_loop 64 x 4 x.toGo none h (date_quarter_eq' x h) (by omega) (by omega)]
  unfold previousDate
  simp only
  cases prevQuarterDate 4 x.quarter x <;> rfl

end KlogV.GoL.B
