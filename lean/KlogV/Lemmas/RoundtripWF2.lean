/- Parser output is well-formed (C09), part 2: inversion of the record parser. -/
import KlogV.Lemmas.RoundtripRecord
namespace KlogV

theorem mem_dropWhile {α} (p : α → Bool) (l : List α) (x : α) (h : x ∈ l.dropWhile p) : x ∈ l :=
  (List.dropWhile_sublist p).subset h

theorem pvEnd_inv (p0 total : Int) (start : Time) (spaced : Bool) (r4 : List Char) (v : ValueOk)
    (hs : start.wf = true) (h : pvEnd p0 total start spaced r4 = .ok v) :
    ValWF v.val ∧ ∀ c ∈ v.rest, c ∈ r4 := by
  unfold pvEnd at h
  split at h
  · rename_i r5
    dsimp only at h
    split at h
    · simp only [ValueRes.ok.injEq] at h
      subst h
      exact ⟨hs, fun c hc => List.mem_cons_of_mem _ (List.mem_of_mem_drop hc)⟩
    · cases h
  · dsimp only at h
    split at h
    · cases h
    · split at h
      · cases h
      · rename_i e he
        split at h
        · rename_i hao
          simp only [ValueRes.ok.injEq] at h
          subst h
          refine ⟨⟨hs, Time.parse_wf _ _ he, ?_⟩, fun c hc => List.mem_of_mem_drop hc⟩
          simpa [Time.afterOrEqual] using hao
        · cases h

theorem pvTail_inv (p0 total : Int) (start : Time) (r1 : List Char) (v : ValueOk)
    (hs : start.wf = true) (h : pvTail p0 total start r1 = .ok v) :
    ValWF v.val ∧ ∀ c ∈ v.rest, c ∈ r1 := by
  unfold pvTail at h
  dsimp only at h
  split at h
  · rename_i r3 heq
    obtain ⟨h1, h2⟩ := pvEnd_inv _ _ _ _ _ _ hs h
    refine ⟨h1, fun c hc => ?_⟩
    have := mem_dropWhile _ _ _ (h2 c hc)
    exact mem_dropWhile _ _ _ (by rw [heq]; exact List.mem_cons_of_mem _ this)
  · cases h

theorem parseValue_eq (p0 : Int) (s : List Char) :
    parseValue p0 s =
      match Dur.parse (peekUntil isSpTab s) with
      | .panic => .panic
      | .ok d => .ok ⟨.dur d, s.drop (peekUntil isSpTab s).length, p0, (peekUntil isSpTab s).length⟩
      | .err =>
        if (peekUntil (fun c => c == '-' || c == ' ') s).length == 0 then .bad p0 (peekUntil isSpTab s).length else
        match Time.parse (peekUntil (fun c => c == '-' || c == ' ') s) with
        | none => .bad p0 (peekUntil (fun c => c == '-' || c == ' ') s).length
        | some start => pvTail p0 (p0 + s.length) start (s.drop (peekUntil (fun c => c == '-' || c == ' ') s).length) := by
  rfl

theorem parseValue_inv (p0 : Int) (s : List Char) (v : ValueOk) (h : parseValue p0 s = .ok v) :
    ValWF v.val ∧ ∀ c ∈ v.rest, c ∈ s := by
  rw [parseValue_eq] at h
  split at h
  · cases h
  · rename_i d hd
    simp only [ValueRes.ok.injEq] at h
    subst h
    exact ⟨Dur.parse_wf _ _ hd, fun c hc => List.mem_of_mem_drop hc⟩
  · split at h
    · cases h
    · split at h
      · cases h
      · rename_i start hst
        obtain ⟨h1, h2⟩ := pvTail_inv _ _ _ _ _ (Time.parse_wf _ _ hst) h
        exact ⟨h1, fun c hc => List.mem_of_mem_drop (h2 c hc)⟩

/-! ## invariant of the entries pass -/

def SumOK (val : EntryVal) (summary : List (List Char)) : Prop :=
  ValWF val ∧ summary ≠ [] ∧ (∀ l ∈ summary, '\n' ∉ l) ∧
    (∀ l ∈ summary.drop 1, okEntrySummaryCont l = true)

def RtPInv (st : PState) : Prop :=
  (∀ e ∈ st.entries, SumOK e.val e.summary) ∧ (∀ p, st.pending = some p → SumOK p.val p.summary) ∧
  st.hasOpen = st.entries.any (fun e => isOpen e.val) ∧
  (st.entries.filter (fun e => isOpen e.val)).length ≤ 1

theorem PInv_same (st st' : PState) (he : st'.entries = st.entries) (ho : st'.hasOpen = st.hasOpen)
    (hp : ∀ p, st'.pending = some p → SumOK p.val p.summary) (h : RtPInv st) : RtPInv st' := by
  obtain ⟨h1, _, h3, h4⟩ := h
  exact ⟨by rw [he]; exact h1, hp, by rw [he, ho]; exact h3, by rw [he]; exact h4⟩

theorem commit_inv (st : PState) (h : RtPInv st) : RtPInv st.commit ∧ st.commit.pending = none := by
  unfold PState.commit
  split
  · rename_i hp; exact ⟨h, hp⟩
  · rename_i p hp
    split
    · exact ⟨PInv_same st _ rfl rfl (fun q (hq : none = some q) => by cases hq) h, rfl⟩
    · rename_i hdup
      refine ⟨?_, rfl⟩
      obtain ⟨h1, h2, h3, h4⟩ := h
      unfold RtPInv
      refine ⟨?_, (fun q (hq : none = some q) => by cases hq), ?_, ?_⟩
      · intro e he
        simp only [List.mem_append, List.mem_singleton] at he
        rcases he with he | rfl
        · exact h1 e he
        · exact h2 p hp
      · simp only [List.any_append, List.any_cons, List.any_nil, Bool.or_false, h3]
      · simp only [List.filter_append, List.length_append]
        cases ho : isOpen p.val with
        | false =>
          have : List.filter (fun e => isOpen e.val) [(⟨p.val, p.summary⟩ : Entry)] = [] := by
            simp [ho]
          rw [this]; simpa using h4
        | true =>
          have hno : st.hasOpen = false := by
            cases hh : st.hasOpen with
            | false => rfl
            | true => simp [ho, hh] at hdup
          rw [h3] at hno
          have : List.filter (fun e => isOpen e.val) st.entries = [] := by
            rw [List.filter_eq_nil_iff]
            intro x hx hxo
            have : st.entries.any (fun e => isOpen e.val) = true := List.any_eq_true.mpr ⟨x, hx, hxo⟩
            rw [hno] at this; cases this
          rw [this]
          simp only [List.length_nil, Nat.zero_add]
          exact List.length_filter_le _ _

/-- the branch of `entryStep` that starts a new entry (after the commit) -/
def entryStepB (style : List Char) (st : PState) (nr : Nat) (l : List Char) : PState :=
    if !style.isPrefixOf l then
      { st with stopped := true, errs := st.errs ++ [⟨nr, 0, l.length, .illegalIndentation⟩] }
    else
      let s := l.drop style.length
      if (match s with | c :: _ => isSpTab c | [] => false) then
        { st with stopped := true, errs := st.errs ++ [⟨nr, 0, l.length, .illegalIndentation⟩] }
      else match parseValue style.length s with
        | .panic => { st with panicked := true }
        | .bad pos len => { st with errs := st.errs ++ [⟨nr, pos, len, .malformedEntry⟩] }
        | .illegalRange pos len => { st with errs := st.errs ++ [⟨nr, pos, len, .illegalRange⟩] }
        | .ok v =>
          let first : List Char := match v.rest with
            | c :: r => if isSpTab c then r else []
            | [] => []
          { st with pending := some ⟨v.val, [first], nr, v.startPos, v.spanLen⟩ }

theorem entryStep_eq (style : List Char) (st : PState) (nr : Nat) (l : List Char) :
    entryStep style st nr l =
      if st.stopped || st.panicked then st else
      match st.pending, (style ++ style).isPrefixOf l with
      | some p, true =>
        if okEntrySummaryCont (l.drop (style ++ style).length) then
          { st with pending := some { p with summary := p.summary ++ [l.drop (style ++ style).length] } }
        else { st.commit with errs := st.commit.errs ++ [⟨nr, 0, l.length, .malformedSummary⟩] }
      | _, _ => entryStepB style st.commit nr l := by
  rfl

theorem entryStepB_inv (style : List Char) (st : PState) (nr : Nat) (l : List Char)
    (hc : RtPInv st) (hcp : st.pending = none) (hl : '\n' ∉ l) : RtPInv (entryStepB style st nr l) := by
  have hnone : ∀ q, st.pending = some q → SumOK q.val q.summary := by
    intro q hq; rw [hcp] at hq; cases hq
  unfold entryStepB
  dsimp only
  repeat' (first | exact PInv_same st _ rfl rfl hnone hc | split)
  all_goals
    refine PInv_same st _ rfl rfl ?_ hc
    intro q hq
    simp only [Option.some.injEq] at hq
    subst hq
    obtain ⟨w1, w2⟩ := parseValue_inv _ _ _ (by assumption)
    refine ⟨w1, by simp, ?_, by simp⟩
    intro x hx
    simp only [List.mem_singleton] at hx
    subst hx
    first
      | simp
      | (intro hm
         apply hl
         rename_i heq
         exact List.mem_of_mem_drop (w2 _ (by rw [heq]; simp [hm])))

theorem rt_entryStep_inv (style : List Char) (st : PState) (nr : Nat) (l : List Char)
    (h : RtPInv st) (hl : '\n' ∉ l) : RtPInv (entryStep style st nr l) := by
  rw [entryStep_eq]
  split
  · exact h
  · split
    · rename_i p hp _
      split
      · rename_i hok
        refine PInv_same st _ rfl rfl ?_ h
        intro q hq
        simp only [Option.some.injEq] at hq
        subst hq
        obtain ⟨k1, k2, k3, k4⟩ := h.2.1 p hp
        refine ⟨k1, by simp, ?_, ?_⟩
        · intro x hx
          simp only [List.mem_append, List.mem_singleton] at hx
          rcases hx with hx | rfl
          · exact k3 x hx
          · exact fun hm => hl (List.mem_of_mem_drop hm)
        · intro x hx
          have : (p.summary ++ [l.drop (style ++ style).length]).drop 1 =
              p.summary.drop 1 ++ [l.drop (style ++ style).length] := by
            cases hps : p.summary with
            | nil => exact absurd hps k2
            | cons a b => simp
          rw [this] at hx
          simp only [List.mem_append, List.mem_singleton] at hx
          rcases hx with hx | rfl
          · exact k4 x hx
          · exact hok
      · obtain ⟨hc, hcp⟩ := commit_inv st h
        exact PInv_same st.commit _ rfl rfl (fun q hq => by rw [show _ = st.commit.pending from rfl, hcp] at hq; cases hq) hc
    · obtain ⟨hc, hcp⟩ := commit_inv st h
      exact entryStepB_inv style st.commit nr l hc hcp hl

theorem rt_entriesGo_inv (style : List Char) (ls : List (List Char)) : ∀ (st : PState) (nr : Nat),
    RtPInv st → (∀ l ∈ ls, '\n' ∉ l) → RtPInv (entriesGo style st nr ls) := by
  induction ls with
  | nil => intro st nr h _; exact (commit_inv st h).1
  | cons l ls ih =>
    intro st nr h hl
    unfold entriesGo
    exact ih _ _ (rt_entryStep_inv style st nr l h (hl l (by simp))) (fun x hx => hl x (by simp [hx]))

/-! ## headline, record summary, record -/

theorem parseHeadline_eq (nr : Nat) (hl : List Char) :
    parseHeadline nr hl =
      match hl with
      | [] => .ok (none, [⟨nr, 0, 0, .invalidDate⟩])
      | c0 :: _ =>
        if isSpTab c0 then .ok (none, [⟨nr, 0, (hl.length : Int), .illegalIndentation⟩]) else
        match Date.parse (peekUntil isSpTab hl) with
        | none => .ok (none, [⟨nr, 0, (peekUntil isSpTab hl).length, .invalidDate⟩])
        | some date => phRest nr hl.length date ((hl.drop (peekUntil isSpTab hl).length).dropWhile isSpTab) := by
  cases hl <;> rfl

theorem phRest_inv (nr : Nat) (total : Int) (date : Date) (rest : List Char) (h : Head) (errs : List Err)
    (hp : phRest nr total date rest = .ok (some h, errs)) :
    h.date = date ∧ ∀ s, h.should = some s → inRange s = true := by
  unfold phRest at hp
  dsimp only at hp
  repeat' split at hp
  all_goals
    first
      | (cases hp; done)
      | (cases hp
         refine ⟨rfl, ?_⟩
         intro s hs
         cases hs
         exact (Dur.parse_wf _ _ (by assumption)).1)
      | (cases hp
         refine ⟨rfl, ?_⟩
         intro s hs
         cases hs)

theorem parseHeadline_inv (nr : Nat) (hl : List Char) (h : Head) (errs : List Err)
    (hp : parseHeadline nr hl = .ok (some h, errs)) :
    h.date.valid = true ∧ ∀ s, h.should = some s → inRange s = true := by
  rw [parseHeadline_eq] at hp
  split at hp
  · simp at hp
  · split at hp
    · simp at hp
    · split at hp
      · simp at hp
      · rename_i date hd
        obtain ⟨h1, h2⟩ := phRest_inv _ _ _ _ _ _ hp
        rw [h1]
        exact ⟨(Date.parse_sound _ _ hd).1, h2⟩

theorem summaryGo_inv (ls : List (List Char)) : ∀ (nr : Nat) (sum : List (List Char)) (errs : List Err)
    (nr' : Nat) (rest : List (List Char)), summaryGo nr ls = (sum, errs, nr', rest) →
    (∀ l ∈ sum, okRecordSummaryLine l = true ∧ l ∈ ls) ∧ (∀ l ∈ rest, l ∈ ls) := by
  induction ls with
  | nil =>
    intro nr sum errs nr' rest h
    simp only [summaryGo, Prod.mk.injEq] at h
    obtain ⟨rfl, _, _, rfl⟩ := h
    simp
  | cons l ls ih =>
    intro nr sum errs nr' rest h
    unfold summaryGo at h
    split at h
    · simp only [Prod.mk.injEq] at h
      obtain ⟨rfl, _, _, rfl⟩ := h
      exact ⟨by simp, fun x hx => hx⟩
    · cases hrec : summaryGo (nr + 1) ls with
      | mk sum0 r0 =>
      obtain ⟨errs0, nr0, rest0⟩ := r0
      obtain ⟨i1, i2⟩ := ih _ _ _ _ _ hrec
      rw [hrec] at h
      dsimp only at h
      split at h
      · rename_i hok
        simp only [Prod.mk.injEq] at h
        obtain ⟨rfl, _, _, rfl⟩ := h
        refine ⟨?_, fun x hx => List.mem_cons_of_mem _ (i2 x hx)⟩
        intro x hx
        simp only [List.mem_cons] at hx
        rcases hx with rfl | hx
        · exact ⟨hok, by simp⟩
        · exact ⟨(i1 x hx).1, List.mem_cons_of_mem _ (i1 x hx).2⟩
      · simp only [Prod.mk.injEq] at h
        obtain ⟨rfl, _, _, rfl⟩ := h
        exact ⟨fun x hx => ⟨(i1 x hx).1, List.mem_cons_of_mem _ (i1 x hx).2⟩,
          fun x hx => List.mem_cons_of_mem _ (i2 x hx)⟩

/-- well-formedness up to trailing carriage returns -/
def RecordWF0 (r : Record) : Prop :=
  r.date.valid = true ∧ (∀ s, r.should = some s → inRange s = true) ∧
  (∀ l ∈ r.summary, okRecordSummaryLine l = true ∧ '\n' ∉ l) ∧
  (∀ e ∈ r.entries, SumOK e.val e.summary) ∧
  (r.entries.filter (fun e => isOpen e.val)).length ≤ 1

theorem PInv_init : RtPInv {} := by
  refine ⟨?_, ?_, rfl, ?_⟩
  · intro e he; cases he
  · intro p hp; cases hp
  · exact Nat.zero_le _

theorem parseRecord_inv (off : Nat) (lines : List (List Char)) (r : Record)
    (h : parseRecord off lines = .record r) (hl : ∀ l ∈ lines, '\n' ∉ l) : RecordWF0 r := by
  unfold parseRecord at h
  split at h
  · cases h
  · rename_i hl0 rest
    split at h
    · cases h
    · cases h
    · rename_i head herrs hhead
      cases hsg : summaryGo (off + 1) rest with
      | mk sum r0 =>
      obtain ⟨serrs, nr, rest2⟩ := r0
      rw [hsg] at h
      dsimp only at h
      obtain ⟨s1, s2⟩ := summaryGo_inv _ _ _ _ _ _ hsg
      have hinv := rt_entriesGo_inv ((rest2.head?.bind indentatorOf).getD []) rest2 {} nr PInv_init
        (fun l hl' => hl l (List.mem_cons_of_mem _ (s2 l hl')))
      split at h
      · cases h
      · split at h
        · rename_i hd _ _
          simp only [ParseOut.record.injEq] at h
          subst h
          obtain ⟨d1, d2⟩ := parseHeadline_inv _ _ _ _ hhead
          refine ⟨d1, d2, ?_, hinv.1, hinv.2.2.2⟩
          intro l hl'
          exact ⟨(s1 l hl').1, hl l (List.mem_cons_of_mem _ (s1 l hl').2)⟩
        · cases h

end KlogV
