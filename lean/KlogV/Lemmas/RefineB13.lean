/-
C04b, part 13: the extra summary of `stop` is appended to the lines of the closed entry: the entry
the new lines are read back as.
-/
import KlogV.Lemmas.RefineB12
namespace KlogV.RefineBLemmas
open KlogV KlogV.RefineLemmas KlogV.EditLemmas KlogV.GrammarLemmas

theorem encode_getLast_ascii (cs : List Char) (c : Char) (h : cs.getLast? = some c) (hc : c.toNat < 0x80) :
    (encode cs).getLast? = some c.toNat.toUInt8 := by
  rcases eq_nil_or_snoc cs with rfl | ⟨d, x, rfl⟩
  · simp at h
  · simp only [List.getLast?_append, List.getLast?_singleton, Option.some_or, Option.some.injEq] at h
    subst h
    rw [encode_append, encode_cons, encode_nil, List.append_nil, encodeChar_ascii x hc]
    simp

theorem appendSummary_nil_first (old rest : List (List Char)) : Spec.appendSummary old ([] :: rest) = old ++ rest := by
  simp [Spec.appendSummary]

theorem appendSummary_empty (a0 : List Char) (rest : List (List Char)) (h : a0 ≠ []) :
    Spec.appendSummary [[]] (a0 :: rest) = [a0] ++ rest := by
  have : a0.isEmpty = false := by cases a0 <;> simp_all
  simp [Spec.appendSummary, this]

theorem appendSummary_snoc (A : List (List Char)) (l a0 : List Char) (rest : List (List Char)) (h : a0 ≠ [])
    (hne : A ≠ [] ∨ l ≠ []) : Spec.appendSummary (A ++ [l]) (a0 :: rest) = A ++ [l ++ ' ' :: a0] ++ rest := by
  have h0 : a0.isEmpty = false := by cases a0 <;> simp_all
  unfold Spec.appendSummary
  simp only [h0, Bool.false_eq_true, if_false]
  split
  · rename_i heq
    exfalso
    cases A with
    | nil =>
      simp only [List.nil_append, List.cons.injEq, and_true] at heq
      rcases hne with h1 | h1
      · exact h1 rfl
      · exact h1 heq
    | cons a A' =>
      simp only [List.cons_append, List.cons.injEq] at heq
      have := heq.2
      simp at this
  · simp

/-- (STOP-GRP) the lines of an entry whose value line is `ind ++ vs' ++ rest0` (bytes: `encode … ++ restB`),
with continuation lines `tcs`, after `sep ++ a0` was appended to the last of them and further
lines were added: the entry with the abstract summary -/
theorem stop_grp (ind : List Char) (hi : Spec.Indent ind) (vs' : List Char) (val : EntryVal)
    (hasc : ∀ c ∈ vs', c.toNat ≠ 0 ∧ c.toNat < 0x80)
    (hhead : ∃ c r, vs' = c :: r ∧ isSpTab c = false) (hlastc : ∃ c, vs'.getLast? = some c ∧ isSpTab c = false)
    (hpv : ∀ tail', TailOK tail' → ∃ p l, parseValue ind.length (vs' ++ tail') = .ok ⟨val, tail', p, l⟩)
    (restB : Bytes) (rest0 : List Char) (hdec : decodeGo restB = rest0) (ht0 : TailOK rest0)
    (texts : List (List Char)) (hok : ∀ t ∈ texts, okEntrySummaryCont t = true)
    (tcs : List Bytes) (htcs : tcs.map decodeGo = texts.map (fun t => ind ++ ind ++ t))
    (a0 : Bytes) (rest : List Bytes) (hclean : CleanSummary (a0 :: rest)) :
    ∃ lastT, ((encode (ind ++ vs') ++ restB) :: tcs).getLast? = some lastT ∧
      Grp ind ((((encode (ind ++ vs') ++ restB) :: tcs).dropLast ++
          [lastT ++ ((if a0.isEmpty || ((firstOf rest0 :: texts) == [[]] && lastBlank lastT) then [] else [SP]) ++ a0)]).map decodeGo ++
          rest.map (fun s => ind ++ ind ++ decodeGo s))
        ⟨val, Spec.appendSummary (firstOf rest0 :: texts) ((a0 :: rest).map decodeGo)⟩ := by
  have hascI : ∀ c ∈ ind ++ vs', c.toNat < 0x80 := by
    intro c hc
    rcases List.mem_append.mp hc with h | h
    · exact (indent_chars ind hi c h).2.2
    · exact (hasc c h).2
  have hdv : ∀ X : Bytes, decodeGo (encode (ind ++ vs') ++ X) = ind ++ (vs' ++ decodeGo X) := by
    intro X
    rw [decodeGo_encode_ascii _ hascI, List.append_assoc]
  have hrestok : ∀ t ∈ rest.map decodeGo, okEntrySummaryCont t = true := by
    intro t ht
    obtain ⟨s, hs, rfl⟩ := List.mem_map.mp ht
    exact hclean.2 s (by simpa using hs)
  have hrestmap : rest.map (fun s => ind ++ ind ++ decodeGo s) = (rest.map decodeGo).map (fun t => ind ++ ind ++ t) := by
    simp [List.map_map, Function.comp_def]
  -- building the group from the parts
  have mk : ∀ (tail' : List Char) (texts'' : List (List Char)), TailOK tail' → (∀ t ∈ texts'', okEntrySummaryCont t = true) →
      Grp ind ((ind ++ (vs' ++ tail')) :: texts''.map (fun t => ind ++ ind ++ t)) ⟨val, firstOf tail' :: texts''⟩ := by
    intro tail' texts'' h1 h2
    obtain ⟨p, l, hp⟩ := hpv tail' h1
    obtain ⟨c, r, e, hc⟩ := hhead
    exact ⟨vs' ++ tail', _, texts'', rfl, hp, ⟨c, r ++ tail', by rw [e]; rfl, hc⟩, rfl, h2⟩
  have ha0 : a0 = [] ∨ (a0 ≠ [] ∧ a0.isEmpty = false ∧ decodeGo a0 ≠ []) := by
    by_cases h : a0 = []
    · exact Or.inl h
    · exact Or.inr ⟨h, by cases a0 <;> simp_all, fun hd => h (decodeGo_eq_nil a0 hd)⟩
  rcases eq_nil_or_snoc tcs with rfl | ⟨tcs', tl, rfl⟩
  · -- the value line is the last line of the entry
    have htx : texts = [] := by
      cases texts with
      | nil => rfl
      | cons _ _ => simp at htcs
    subst htx
    refine ⟨encode (ind ++ vs') ++ restB, rfl, ?_⟩
    simp only [List.dropLast_singleton, List.nil_append, List.map_cons, List.map_nil]
    rcases ha0 with rfl | ⟨hne, hemp, hdne⟩
    · -- nothing is appended to the line
      simp only [List.isEmpty_nil, Bool.true_or, if_true, List.append_nil, decodeGo_nil]
      rw [hdv, hdec, hrestmap, appendSummary_nil_first]
      exact mk rest0 (rest.map decodeGo) ht0 hrestok
    · simp only [hemp, Bool.false_or]
      rcases ht0 with rfl | ⟨c, r, rfl, hc⟩
      · -- no summary, no dangling blank: a space separates
        have hrb : restB = [] := decodeGo_eq_nil restB hdec
        subst hrb
        have hlb : lastBlank (encode (ind ++ vs') ++ []) = false := by
          obtain ⟨c, hc1, hc2⟩ := hlastc
          have hl : (ind ++ vs').getLast? = some c := by
            obtain ⟨c0, r0, e0, _⟩ := hhead
            rw [getLast?_append_of_ne_nil _ _ (by rw [e0]; simp)]; exact hc1
          have hca := (hasc c (List.mem_of_getLast? hc1)).2
          unfold lastBlank
          rw [List.append_nil, encode_getLast_ascii _ c hl hca]
          exact ascii_not_blank c hca hc2
        simp only [hlb, Bool.and_false, Bool.false_eq_true, if_false]
        rw [List.append_nil, show encode (ind ++ vs') ++ ([SP] ++ a0) = encode (ind ++ vs') ++ SP :: a0 from rfl,
          hdv, decodeGo_cons_ascii SP a0 (by decide), hrestmap]
        have : firstOf ([] : List Char) = [] := rfl
        have hsp : Char.ofNat SP.toNat = ' ' := by decide
        rw [this, appendSummary_empty _ _ hdne, hsp]
        have hm := mk (' ' :: decodeGo a0) (rest.map decodeGo) (Or.inr ⟨' ', _, rfl, by decide⟩) hrestok
        simpa [firstOf, isSpTab] using hm
      · have h0 : c.toNat ≠ 0 := by rcases (isSpTab_iff c).mp hc with rfl | rfl <;> decide
        have h1 : c.toNat < 0x80 := by rcases (isSpTab_iff c).mp hc with rfl | rfl <;> decide
        obtain ⟨b, restB', rfl, hb, hr⟩ := decodeGo_head_ascii restB c r h0 h1 hdec
        have hfo : firstOf (c :: r) = r := by simp [firstOf, hc]
        rw [hfo]
        by_cases hr0 : r = []
        · -- a dangling blank: no second separator
          subst hr0
          have : restB' = [] := decodeGo_eq_nil restB' hr.symm
          subst this
          have hlb : lastBlank (encode (ind ++ vs') ++ [b]) = true := by
            unfold lastBlank
            rw [getLast?_append_of_ne_nil _ _ (by simp)]
            exact byte_blank_of_char b c hb hc
          simp only [hlb, beq_self_eq_true, Bool.and_self, if_true, List.nil_append]
          rw [show encode (ind ++ vs') ++ [b] ++ a0 = encode (ind ++ vs') ++ (b :: a0) by simp, hdv,
            decodeGo_cons_ascii b a0 (by omega), hrestmap, appendSummary_empty _ _ hdne]
          have hcb : Char.ofNat b.toNat = c := by rw [hb]; exact ofNat_toNat c
          rw [hcb]
          have hm := mk (c :: decodeGo a0) (rest.map decodeGo) (Or.inr ⟨c, _, rfl, hc⟩) hrestok
          simpa [firstOf, hc] using hm
        · -- a summary on the line: a space separates
          have hbeq : ([r] == [[]]) = false := by
            cases r with
            | nil => exact absurd rfl hr0
            | cons _ _ => rfl
          simp only [hbeq, Bool.false_and, Bool.false_eq_true, if_false]
          rw [show encode (ind ++ vs') ++ b :: restB' ++ ([SP] ++ a0) = encode (ind ++ vs') ++ ((b :: restB') ++ SP :: a0) by simp,
            hdv, decodeGo_mid_sp, hdec, hrestmap]
          have := appendSummary_snoc [] r (decodeGo a0) (rest.map decodeGo) hdne (Or.inr hr0)
          simp only [List.nil_append] at this
          rw [show (decodeGo a0 :: List.map decodeGo rest) = decodeGo a0 :: rest.map decodeGo from rfl, this]
          have hm := mk (c :: r ++ ' ' :: decodeGo a0) (rest.map decodeGo) (Or.inr ⟨c, _, rfl, hc⟩) hrestok
          simpa [firstOf, hc] using hm
  · -- the last line of the entry is a continuation line
    obtain ⟨texts', xl, rfl⟩ : ∃ texts' xl, texts = texts' ++ [xl] := by
      rcases eq_nil_or_snoc texts with rfl | ⟨t', x, rfl⟩
      · simp at htcs
      · exact ⟨t', x, rfl⟩
    simp only [List.map_append, List.map_cons, List.map_nil] at htcs
    obtain ⟨h1, h2⟩ := List.append_inj' htcs (by simp)
    simp only [List.cons.injEq, and_true] at h2
    have hlast : ((encode (ind ++ vs') ++ restB) :: (tcs' ++ [tl])).getLast? = some tl := by
      have e : (encode (ind ++ vs') ++ restB) :: (tcs' ++ [tl]) = ((encode (ind ++ vs') ++ restB) :: tcs') ++ [tl] := rfl
      rw [e, List.getLast?_concat]
    have hdl : ((encode (ind ++ vs') ++ restB) :: (tcs' ++ [tl])).dropLast = (encode (ind ++ vs') ++ restB) :: tcs' := by
      have e : (encode (ind ++ vs') ++ restB) :: (tcs' ++ [tl]) = ((encode (ind ++ vs') ++ restB) :: tcs') ++ [tl] := rfl
      rw [e, List.dropLast_concat]
    refine ⟨tl, hlast, ?_⟩
    rw [hdl]
    have hbeq : ((firstOf rest0 :: (texts' ++ [xl])) == [[]]) = false := by
      cases texts' <;> simp
    simp only [hbeq, Bool.false_and, Bool.or_false]
    have hold : firstOf rest0 :: (texts' ++ [xl]) = (firstOf rest0 :: texts') ++ [xl] := rfl
    have hokx : okEntrySummaryCont xl = true := hok xl (by simp)
    have hok' : ∀ t ∈ texts', okEntrySummaryCont t = true := fun t ht => hok t (by simp [ht])
    rcases ha0 with rfl | ⟨hne, hemp, hdne⟩
    · simp only [List.isEmpty_nil, if_true, List.append_nil, List.map_append, List.map_cons, List.map_nil, decodeGo_nil]
      rw [hdv, hdec, h1, h2, hrestmap, appendSummary_nil_first]
      have hm := mk rest0 (texts' ++ [xl] ++ rest.map decodeGo) ht0 (by
        intro t ht
        rcases List.mem_append.mp ht with h | h
        · exact hok t h
        · exact hrestok t h)
      simpa [List.map_append] using hm
    · simp only [hemp, Bool.false_eq_true, if_false, List.map_append, List.map_cons, List.map_nil]
      rw [hdv, hdec, h1, show tl ++ ([SP] ++ a0) = tl ++ SP :: a0 from rfl, decodeGo_mid_sp, h2, hrestmap, hold,
        show (decodeGo a0 :: List.map decodeGo rest) = decodeGo a0 :: rest.map decodeGo from rfl,
        appendSummary_snoc _ xl _ _ hdne (Or.inl (by simp))]
      have hm := mk rest0 (texts' ++ [xl ++ ' ' :: decodeGo a0] ++ rest.map decodeGo) ht0 (by
        intro t ht
        rcases List.mem_append.mp ht with h | h
        · rcases List.mem_append.mp h with h | h
          · exact hok' t h
          · simp only [List.mem_singleton] at h
            rw [h]
            exact okCont_append _ _ hokx
        · exact hrestok t h)
      simpa [List.map_append, List.append_assoc] using hm

end KlogV.RefineBLemmas
