/-
C04b, part 17: `stop`, its rejection, and `switch`.
-/
import KlogV.Lemmas.RefineB16
namespace KlogV.RefineBLemmas
open KlogV KlogV.RefineLemmas KlogV.EditLemmas KlogV.GrammarLemmas

/-! ## dates and times -/

theorem plusDays_neg_one (d y : Date) (h : d.plusDays (-1) = some y) : y = prevDay d := by
  unfold Date.plusDays at h
  simp only [show ¬ ((-1 : Int) ≥ 0) by decide, if_false] at h
  have : (-(-1 : Int)).toNat = 1 := by decide
  rw [this] at h
  unfold plusDaysBwd at h
  split at h
  · cases h
  · simp only [plusDaysBwd, Option.some.injEq] at h
    exact h.symm

theorem prevDay_not_sameDay (x : Date) : x.sameDay (prevDay x) = false := by
  unfold prevDay Date.sameDay
  split
  · simp; omega
  · split
    · simp; omega
    · simp; omega

theorem sameDay_trans_left (a b c : Date) (h : a.sameDay b = true) : a.sameDay c = b.sameDay c := by
  simp only [Date.sameDay, Bool.and_eq_true, beq_iff_eq] at h
  simp [Date.sameDay, h.1.1, h.1.2, h.2]

theorem targetIdx_sameDay (rs : List Record) (d : Date) (i : Nat) (r : Record) (h : Spec.targetIdx rs d = some i)
    (hr : rs[i]? = some r) : r.date.sameDay d = true := by
  unfold Spec.targetIdx at h
  cases hf : rs.zipIdx.find? (fun p => p.1.date.sameDay d) with
  | none => rw [hf] at h; cases h
  | some q =>
    rw [hf] at h
    simp only [Option.map_some, Option.some.injEq] at h
    have hp := List.find?_some hf
    have hm := List.mem_of_find?_eq_some hf
    obtain ⟨r', j⟩ := q
    simp only at h hp
    subst h
    rw [List.mem_zipIdx_iff_getElem?] at hm
    rw [hr] at hm
    cases hm
    exact hp

theorem plus_wf (t t' : Time) (d : Int) (hw : t.wf = true) (h : t.plus d = some t') : t'.wf = true ∧ t'.offset = t.offset + d := by
  have hr : -1440 ≤ t.offset + d ∧ t.offset + d < 2880 := by
    apply Classical.byContradiction
    intro hn
    rw [(Time.plus_none t d hw).mpr hn] at h
    cases h
  obtain ⟨t'', h1, h2, h3, _⟩ := Time.plus_some t d hr.1 hr.2
  rw [h] at h1
  cases h1
  exact ⟨h2, h3⟩

/-! ## `stop` at a record -/

theorem cleanSummary_single_nil : CleanSummary [[]] :=
  ⟨by intro l hl; simp only [List.mem_singleton] at hl; rw [hl]; exact cleanLine_nil, by simp⟩

theorem appendSummary_nil_eq (sm : List (List Char)) : Spec.appendSummary sm [[]] = Spec.appendSummary sm [] := by
  simp [Spec.appendSummary]

/-- `closeOpenRange` on the reconciler of record `i` -/
theorem stop_at_record (file : Bytes) (hcr : file.getLast? ≠ some 13) (rs : List Record) (bos : List BlockOut)
    (hp : parseDoc file = .records rs bos) (i : Nat) (r : Record) (bo : BlockOut)
    (hr : rs[i]? = some r) (hbo : bos[i]? = some bo) (t' : Time) (hw : t'.wf = true) (fmt : Reformat Bool)
    (add : List Bytes) (hadd : CleanSummary add) (r1 : Reconciler)
    (hclose : (Reconciler.mk r (elect (determine r bo.lines) rs (bos.map (·.lines)))
      (indexOfLastSignificantLine bo.first bo.lines) (bos.map (·.lines)).flatten i).closeOpenRange t' fmt add = some r1)
    (rs' : List Record) (bos' : List BlockOut) (hp' : parseDoc (joinLines r1.lines) = .records rs' bos') :
    (joinLines r1.lines).getLast? ≠ some 13 ∧ Spec.Stop rs i t' (add.map decodeGo) rs' := by
  have hwf0 := parseDoc_wf0 file rs bos hp r (List.mem_of_getElem? hr)
  obtain ⟨E1, E2, s, sp, x, sm, hE, hE1, hord, _, _, _, _, hlines⟩ := closeOpenRange_inv _ r1 t' fmt add hwf0.2.2.2.2 hclose
  dsimp only at hE hlines
  generalize hte : timeAs t' (fmt.pick (elect (determine r bo.lines) rs (bos.map (·.lines))).time24.1) = te at hlines
  obtain ⟨ho, hwe⟩ : te.offset = t'.offset ∧ te.wf = t'.wf := by rw [← hte]; exact timeAs_props _ _
  have hilt : i < rs.length := by
    apply Classical.byContradiction
    intro hn
    rw [List.getElem?_eq_none (by omega)] at hr
    cases hr
  have key : ∀ (a0 : Bytes) (rest : List Bytes), CleanSummary (a0 :: rest) →
      r1.lines = closeLines (elect (determine r bo.lines) rs (bos.map (·.lines))) (bos.map (·.lines)).flatten
        (indexOfLastSignificantLine bo.first bo.lines - countLines (r.entries.drop E1.length)) sm (bytesOfChars te.print) (a0 :: rest) →
      Spec.appendSummary sm ((a0 :: rest).map decodeGo) = Spec.appendSummary sm (add.map decodeGo) →
      (joinLines r1.lines).getLast? ≠ some 13 ∧ Spec.Stop rs i t' (add.map decodeGo) rs' := by
    intro a0 rest hc hl hsum
    rw [hl] at hp' ⊢
    obtain ⟨k1, k2⟩ := stop_at_cons file hcr rs bos hp i r bo hr hbo E1 E2 s sp x sm hE hE1 te (by rw [hwe]; exact hw)
      (by rw [ho]; exact hord) a0 rest hc rs' bos' hp'
    refine ⟨k1, r, _, hr, ⟨E1, E2, s, sp, x, sm, ⟨.range s te sp, Spec.appendSummary sm ((a0 :: rest).map decodeGo)⟩, hE, hE1, hord,
      ⟨⟨rfl, ho⟩, hsum⟩, rfl⟩, hilt, k2⟩
  cases add with
  | nil =>
    rw [closeLines_nil] at hlines
    exact key [] [] cleanSummary_single_nil hlines (by simpa [decodeGo_nil] using appendSummary_nil_eq sm)
  | cons a0 rest => exact key a0 rest hadd hlines rfl

/-! ## `stop` -/

theorem runCmd_stop_eq (u : UTab) (cfg : Config) (now : Instant) (a : AtArgs) (summary : Option (List Bytes))
    (file : Bytes) (d : Date) (t : Time) (hd : atDate a.date now.date = some d) (ht : atTime a now cfg = .ok t) :
    runCmd u cfg now (.stop a summary) file =
      match (if (!a.date.isExplicit && a.time.isNone) then d.plusDays (-1) else some d) with
      | none => .panic
      | some yesterday =>
        (reconcileFile file
          (fun rs bos => firstCreator [reconcilerAtRecord d rs bos,
            if (!a.date.isExplicit && a.time.isNone) then reconcilerAtRecord yesterday rs bos else none])
          [fun r =>
            match (if (!a.date.isExplicit && a.time.isNone) && r.record.date.sameDay yesterday then t.plus 1440 else some t) with
            | none => .err
            | some t => optRes (r.closeOpenRange t (timeFormatOf a cfg) (summary.getD []))]).1 := by
  unfold runCmd
  simp only [hd, ht]
  rfl

/-- the creator of `stop` and the time it closes with -/
theorem stop_creator (file : Bytes) (rs : List Record) (bos : List BlockOut) (hp : parseDoc file = .records rs bos)
    (a : AtArgs) (d yd : Date) (t : Time)
    (hyd : (if (!a.date.isExplicit && a.time.isNone) then d.plusDays (-1) else some d) = some yd) (r0 : Reconciler)
    (hc : firstCreator [reconcilerAtRecord d rs bos,
      if (!a.date.isExplicit && a.time.isNone) then reconcilerAtRecord yd rs bos else none] = some r0) :
    ∃ r bo i, rs[i]? = some r ∧ bos[i]? = some bo ∧
      r0 = Reconciler.mk r (elect (determine r bo.lines) rs (bos.map (·.lines)))
        (indexOfLastSignificantLine bo.first bo.lines) (bos.map (·.lines)).flatten i ∧
      ((Spec.targetIdx rs d = some i ∧
          (if (!a.date.isExplicit && a.time.isNone) && r.date.sameDay yd then t.plus 1440 else some t) = some t) ∨
       (Spec.targetIdx rs d = none ∧ a.date.isExplicit = false ∧ a.time = none ∧ d.plusDays (-1) = some yd ∧
          Spec.targetIdx rs yd = some i ∧
          (if (!a.date.isExplicit && a.time.isNone) && r.date.sameDay yd then t.plus 1440 else some t) = t.plus 1440)) := by
  have hlen := bos_length file rs bos hp
  rcases reconcilerAtRecord_cases d rs bos hlen with ⟨c1, c2⟩ | ⟨r, bo, i, c1, c2, c3, c4⟩
  · cases hauto : (!a.date.isExplicit && a.time.isNone) with
    | false =>
      rw [c1, hauto] at hc
      simp [firstCreator] at hc
    | true =>
      rw [hauto] at hc hyd
      simp only [if_true] at hc hyd
      rcases reconcilerAtRecord_cases yd rs bos hlen with ⟨e1, e2⟩ | ⟨r, bo, i, e1, e2, e3, e4⟩
      · rw [c1, e1] at hc
        cases hc
      · rw [c1, e4] at hc
        cases hc
        have hsd := targetIdx_sameDay rs yd i r e1 e2
        simp only [Bool.and_eq_true, Bool.not_eq_true', Option.isNone_iff_eq_none] at hauto
        refine ⟨r, bo, i, e2, e3, rfl, Or.inr ⟨c2, hauto.1, hauto.2, hyd, e1, ?_⟩⟩
        simp [hsd]
  · rw [c4, firstCreator_some] at hc
    cases hc
    refine ⟨r, bo, i, c2, c3, rfl, Or.inl ⟨c1, ?_⟩⟩
    cases hauto : (!a.date.isExplicit && a.time.isNone) with
    | false => simp
    | true =>
      rw [hauto] at hyd
      simp only [if_true] at hyd
      have hy := plusDays_neg_one d yd hyd
      have hsd := targetIdx_sameDay rs d i r c1 c2
      have : r.date.sameDay yd = false := by
        rw [sameDay_trans_left r.date d yd hsd, hy]
        exact prevDay_not_sameDay d
      simp [this]

theorem stop_refines_core (u : UTab) (cfg : Config) (now : Instant) (a : AtArgs) (summary : Option (List Bytes))
    (file file' : Bytes) (rs : List Record) (bos : List BlockOut) (d : Date) (t : Time)
    (hp : parseDoc file = .records rs bos) (hd : atDate a.date now.date = some d)
    (ht : atTime a now cfg = .ok t) (htw : t.wf = true)
    (hs : CleanSummary (summary.getD [])) (hcr : file.getLast? ≠ some 13)
    (h : runCmd u cfg now (.stop a summary) file = .ok file') :
    ∃ rs' bos' i t', parseDoc file' = .records rs' bos' ∧ StopTarget rs a d t i t' ∧
      Spec.Stop rs i t' ((summary.getD []).map decodeGo) rs' := by
  rw [runCmd_stop_eq u cfg now a summary file d t hd ht] at h
  cases hyd : (if (!a.date.isExplicit && a.time.isNone) then d.plusDays (-1) else some d) with
  | none => rw [hyd] at h; cases h
  | some yd =>
    rw [hyd] at h
    dsimp only at h
    obtain ⟨r0, r1, rs', bos', hc, hf, hfile, hp'⟩ := reconcileFile_inv file _ _ rs bos file' hp h
    simp only [List.foldl_cons, List.foldl_nil, Res.bind] at hf
    obtain ⟨r, bo, i, hr, hbo, hr0, hcase⟩ := stop_creator file rs bos hp a d yd t hyd r0 hc
    subst hr0
    dsimp only at hf
    subst hfile
    rcases hcase with ⟨c1, c2⟩ | ⟨c1, c2, c3, c4, c5, c6⟩
    · rw [c2] at hf
      dsimp only at hf
      cases hcl : (Reconciler.mk r (elect (determine r bo.lines) rs (bos.map (·.lines)))
          (indexOfLastSignificantLine bo.first bo.lines) (bos.map (·.lines)).flatten i).closeOpenRange t (timeFormatOf a cfg)
          (summary.getD []) with
      | none => rw [hcl] at hf; simp [optRes] at hf
      | some r1' =>
        rw [hcl] at hf
        simp only [optRes, Res.ok.injEq] at hf
        subst hf
        obtain ⟨_, k⟩ := stop_at_record file hcr rs bos hp i r bo hr hbo t htw _ _ hs r1' hcl rs' bos' hp'
        exact ⟨rs', bos', i, t, hp', Or.inl ⟨c1, rfl⟩, k⟩
    · rw [c6] at hf
      cases hpl : t.plus 1440 with
      | none => rw [hpl] at hf; cases hf
      | some t' =>
        rw [hpl] at hf
        dsimp only at hf
        cases hcl : (Reconciler.mk r (elect (determine r bo.lines) rs (bos.map (·.lines)))
            (indexOfLastSignificantLine bo.first bo.lines) (bos.map (·.lines)).flatten i).closeOpenRange t' (timeFormatOf a cfg)
            (summary.getD []) with
        | none => rw [hcl] at hf; simp [optRes] at hf
        | some r1' =>
          rw [hcl] at hf
          simp only [optRes, Res.ok.injEq] at hf
          subst hf
          obtain ⟨_, k⟩ := stop_at_record file hcr rs bos hp i r bo hr hbo t' (plus_wf t t' 1440 htw hpl).1 _ _ hs r1' hcl rs' bos' hp'
          exact ⟨rs', bos', i, t', hp', Or.inr ⟨c1, c2, c3, yd, c4, c5, hpl⟩, k⟩

/-! ## `stop` rejected -/

theorem first_split_unique {α} (p : α → Bool) (A B A' B' : List α) (x y : α) (h : A ++ x :: B = A' ++ y :: B')
    (hA : ∀ z ∈ A, p z = false) (hA' : ∀ z ∈ A', p z = false) (hx : p x = true) (hy : p y = true) : A = A' ∧ x = y := by
  rcases List.append_eq_append_iff.mp h with ⟨c, e1, e2⟩ | ⟨c, e1, e2⟩
  · cases c with
    | nil =>
      simp only [List.append_nil, List.nil_append, List.cons.injEq] at e1 e2
      exact ⟨e1.symm, e2.1⟩
    | cons z c =>
      exfalso
      simp only [List.cons_append, List.cons.injEq] at e2
      have := hA' x (by rw [e1]; exact List.mem_append_right _ (by rw [e2.1]; exact List.mem_cons_self))
      rw [hx] at this; cases this
  · cases c with
    | nil =>
      simp only [List.append_nil, List.nil_append, List.cons.injEq] at e1 e2
      exact ⟨e1, e2.1.symm⟩
    | cons z c =>
      exfalso
      simp only [List.cons_append, List.cons.injEq] at e2
      have := hA y (by rw [e1]; exact List.mem_append_right _ (by rw [e2.1]; exact List.mem_cons_self))
      rw [hy] at this; cases this

theorem stop_rejected_core (u : UTab) (cfg : Config) (now : Instant) (a : AtArgs) (summary : Option (List Bytes))
    (file : Bytes) (rs : List Record) (bos : List BlockOut) (d : Date) (t : Time) (i : Nat) (r : Record)
    (hp : parseDoc file = .records rs bos) (hd : atDate a.date now.date = some d) (ht : atTime a now cfg = .ok t)
    (hi : Spec.targetIdx rs d = some i) (hr : rs[i]? = some r)
    (hrej : r.hasOpen = false ∨ ∃ pre post s sp x sm, r.entries = pre ++ ⟨.openRange s sp x, sm⟩ :: post ∧
      (∀ p ∈ pre, isOpen p.val = false) ∧ t.offset < s.offset) :
    ∀ f', runCmd u cfg now (.stop a summary) file ≠ .ok f' := by
  intro f' h
  rw [runCmd_stop_eq u cfg now a summary file d t hd ht] at h
  cases hyd : (if (!a.date.isExplicit && a.time.isNone) then d.plusDays (-1) else some d) with
  | none => rw [hyd] at h; cases h
  | some yd =>
    rw [hyd] at h
    dsimp only at h
    refine reconcileFile_not_ok file _ _ rs bos hp ?_ f' h
    intro r0 hc r1 hf
    simp only [List.foldl_cons, List.foldl_nil, Res.bind] at hf
    obtain ⟨r', bo, i', hr', hbo, hr0, hcase⟩ := stop_creator file rs bos hp a d yd t hyd r0 hc
    subst hr0
    dsimp only at hf
    rcases hcase with ⟨c1, c2⟩ | ⟨c1, _⟩
    · rw [hi] at c1
      cases c1
      rw [hr] at hr'
      cases hr'
      rw [c2] at hf
      dsimp only at hf
      cases hcl : (Reconciler.mk r (elect (determine r bo.lines) rs (bos.map (·.lines)))
          (indexOfLastSignificantLine bo.first bo.lines) (bos.map (·.lines)).flatten i).closeOpenRange t (timeFormatOf a cfg)
          (summary.getD []) with
      | none => rw [hcl] at hf; simp [optRes] at hf
      | some r1' =>
        unfold Reconciler.closeOpenRange at hcl
        dsimp only at hcl
        rcases hrej with hno | ⟨pre, post, s, sp, x, sm, e1, e2, e3⟩
        · rw [(findOpen_none_iff r).mpr hno] at hcl
          cases hcl
        · split at hcl
          · cases hcl
          · split at hcl
            · cases hcl
            · rename_i es hes
              obtain ⟨pre', post', s', sp', x', sm', f1, f2, f3, _⟩ := endOpenRange_spec t _ es hes
              rw [e1] at f1
              obtain ⟨_, u2⟩ := first_split_unique (fun en : Entry => isOpen en.val) _ _ _ _ _ _ f1 e2 f2 rfl rfl
              simp only [Entry.mk.injEq, EntryVal.openRange.injEq] at u2
              obtain ⟨⟨rfl, _, _⟩, _⟩ := u2
              omega
    · rw [hi] at c1
      cases c1

/-! ## `switch` -/

theorem chosenSummary_congr (text : Option (List (List Char))) (resume : Bool) (nth : Int) (r r' : Record)
    (prev : Option Record) (h : r.entries.map (·.summary) = r'.entries.map (·.summary)) :
    Spec.chosenSummary text resume nth r prev = Spec.chosenSummary text resume nth r' prev := by
  have hlen : r.entries.length = r'.entries.length := by
    have := congrArg List.length h
    simpa using this
  have hlast : r.entries.getLast?.map (·.summary) = r'.entries.getLast?.map (·.summary) := by
    have := congrArg List.getLast? h
    simpa [List.getLast?_map] using this
  have hget : ∀ k : Nat, (r.entries[k]?).map (fun (e : Entry) => e.summary) = (r'.entries[k]?).map (fun (e : Entry) => e.summary) := by
    intro k
    have := congrArg (fun (l : List (List (List Char))) => l[k]?) h
    simpa [List.getElem?_map] using this
  unfold Spec.chosenSummary
  rw [hlen]
  split
  · rfl
  · split
    · rfl
    · cases text with
      | some t => rfl
      | none =>
        dsimp only
        split
        · cases h1 : r.entries.getLast? <;> cases h2 : r'.entries.getLast? <;> rw [h1, h2] at hlast <;> simp at hlast
          all_goals first | rfl | (dsimp only; rw [hlast])
        · split
          · simp only [hget]
          · rfl

theorem runCmd_switch_eq (u : UTab) (cfg : Config) (now : Instant) (a : AtArgs) (s : SummaryArgs)
    (file : Bytes) (d : Date) (t : Time) (hd : atDate a.date now.date = some d) (ht : atTime a now cfg = .ok t) :
    runCmd u cfg now (.switch a s) file =
      (reconcileFile file (fun rs bos => reconcilerAtRecord d rs bos)
        [fun r => optRes (r.closeOpenRange t (timeFormatOf a cfg) []),
         fun r => match summaryOf s r.record none with
           | none => .err
           | some sm => optRes (r.startOpenRange t (timeFormatOf a cfg) sm)]).1 := by
  unfold runCmd
  simp only [hd, ht]
  rfl

/-- `switch` (corrected: `hrcr`, a resumed summary has no line ending in a carriage return) -/
theorem switch_refines_core (u : UTab) (cfg : Config) (now : Instant) (a : AtArgs) (s : SummaryArgs)
    (file file' : Bytes) (rs : List Record) (bos : List BlockOut) (d : Date) (t : Time)
    (hp : parseDoc file = .records rs bos) (hd : atDate a.date now.date = some d)
    (ht : atTime a now cfg = .ok t) (htw : t.wf = true)
    (hs : CleanSummary (s.text.getD [])) (hcr : file.getLast? ≠ some 13)
    (hrcr : s.text = none → ∀ i r sm, Spec.targetIdx rs d = some i → rs[i]? = some r →
      Spec.chosenSummary none s.resume s.resumeNth r none = some sm → ∀ l ∈ sm, l.getLast? ≠ some '\r')
    (h : runCmd u cfg now (.switch a s) file = .ok file') :
    ∃ rs' bos' i r r1 sm, parseDoc file' = .records rs' bos' ∧ Spec.targetIdx rs d = some i ∧ rs[i]? = some r ∧
      Spec.CloseAt r t [] r1 ∧
      Spec.chosenSummary (s.text.map (·.map decodeGo)) s.resume s.resumeNth r1 none = some sm ∧
      Spec.Switch rs i t sm rs' := by
  rw [runCmd_switch_eq u cfg now a s file d t hd ht] at h
  obtain ⟨r0, r2, rs', bos', hc, hf, hfile, hp'⟩ := reconcileFile_inv file _ _ rs bos file' hp h
  simp only [List.foldl_cons, List.foldl_nil, Res.bind] at hf
  rcases reconcilerAtRecord_cases d rs bos (bos_length file rs bos hp) with ⟨c1, _⟩ | ⟨r, bo, i, c1, c2, c3, c4⟩
  · rw [c1] at hc; cases hc
  rw [c4] at hc
  cases hc
  cases hcl : (Reconciler.mk r (elect (determine r bo.lines) rs (bos.map (·.lines)))
      (indexOfLastSignificantLine bo.first bo.lines) (bos.map (·.lines)).flatten i).closeOpenRange t (timeFormatOf a cfg) [] with
  | none => rw [hcl] at hf; simp [optRes] at hf
  | some r1 =>
  rw [hcl] at hf
  simp only [optRes] at hf
  cases hsm : summaryOf s r1.record none with
  | none => rw [hsm] at hf; cases hf
  | some smb =>
  rw [hsm] at hf
  dsimp only at hf
  cases hso : r1.startOpenRange t (timeFormatOf a cfg) smb with
  | none => rw [hso] at hf; cases hf
  | some r2' =>
  rw [hso] at hf
  simp only [Res.ok.injEq] at hf
  subst hf
  have hwf0 := parseDoc_wf0 file rs bos hp r (List.mem_of_getElem? c2)
  obtain ⟨E1, E2, s0, sp, x, sm0, hE, hE1, hord, k1, k2, k3, k4, hlines⟩ := closeOpenRange_inv _ r1 t _ [] hwf0.2.2.2.2 hcl
  dsimp only at hE k1 k2 k3 k4 hlines
  generalize hte : timeAs t ((timeFormatOf a cfg).pick (elect (determine r bo.lines) rs (bos.map (·.lines))).time24.1) = te at hlines
  obtain ⟨ho, hwe⟩ : te.offset = t.offset ∧ te.wf = t.wf := by rw [← hte]; exact timeAs_props _ _
  obtain ⟨_, t2, hto, htw2, hr2⟩ := startOpenRange_inv r1 r2' t _ smb hso
  have hilt : i < rs.length := by
    apply Classical.byContradiction
    intro hn
    rw [List.getElem?_eq_none (by omega)] at c2
    cases c2
  -- the other entries are not open
  have hnoopen : ∀ y ∈ E1 ++ E2, isOpen y.val = false := by
    have hcnt := hwf0.2.2.2.2
    rw [hE] at hcnt
    rw [List.filter_append, List.filter_cons_of_pos (by rfl)] at hcnt
    simp only [List.length_append, List.length_cons] at hcnt
    intro y hy
    cases hyo : isOpen y.val with
    | false => rfl
    | true =>
      exfalso
      rcases List.mem_append.mp hy with hy | hy
      · have : 0 < (E1.filter (fun e => isOpen e.val)).length := List.length_pos_of_mem (List.mem_filter.mpr ⟨hy, hyo⟩)
        omega
      · have : 0 < (E2.filter (fun e => isOpen e.val)).length := List.length_pos_of_mem (List.mem_filter.mpr ⟨hy, hyo⟩)
        omega
  -- the summary
  have hsame : r1.record.entries.map (·.summary) = r.entries.map (·.summary) := by
    rw [k1, hE]; simp
  have hchosen := summaryOf_chosen s r1.record none
  rw [hsm] at hchosen
  simp only [Option.map_some] at hchosen
  have hs0wf : s0.wf = true := by
    have := (hwf0.2.2.2.1 ⟨.openRange s0 sp x, sm0⟩ (by rw [hE]; simp)).1
    exact this
  have hclean : CleanSummary smb := by
    apply summaryOf_clean s r1.record none smb hsm hs
    · intro e he
      rw [k1] at he
      dsimp only at he
      rcases List.mem_append.mp he with h1 | h1
      · exact hwf0.2.2.2.1 e (by rw [hE]; simp [h1])
      · rcases List.mem_cons.mp h1 with rfl | h1
        · have := hwf0.2.2.2.1 ⟨.openRange s0 sp x, sm0⟩ (by rw [hE]; simp)
          exact ⟨⟨hs0wf, htw, hord⟩, this.2⟩
        · exact hwf0.2.2.2.1 e (by rw [hE]; simp [h1])
    · intro p hp0; cases hp0
    · intro htn
      apply hrcr htn i r _ c1 c2
      rw [← chosenSummary_congr none s.resume s.resumeNth r1.record r none hsame]
      rw [htn] at hchosen
      exact hchosen.symm
  -- the lines
  subst hfile
  have hp'' := hp'
  rw [hr2] at hp'
  dsimp only at hp'
  rw [k2, k3, hlines] at hp'
  have hvw : ValWF (EntryVal.openRange t2 r1.style.spaced.1 r1.style.extraQ.1) := by
    show t2.wf = true
    rw [htw2]; exact htw
  rw [k2] at hvw
  have hrs' := switch_at file hcr rs bos hp i r bo c2 c3 E1 E2 s0 sp x sm0 hE te (by rw [hwe]; exact htw)
    (by rw [ho]; exact hord) _ hvw hnoopen smb hclean rs' bos' hp'
  refine ⟨rs', bos', i, r, r1.record, smb.map decodeGo, hp'', c1, c2, ?_, hchosen.symm, ?_⟩
  · exact ⟨E1, E2, s0, sp, x, sm0, ⟨.range s0 t true, sm0⟩, hE, hE1, hord, ⟨⟨rfl, rfl⟩, rfl⟩, k1⟩
  · refine ⟨r, { r with entries := E1 ++ ⟨.range s0 te sp, sm0⟩ :: E2 },
      ⟨.openRange t2 (elect (determine r bo.lines) rs (bos.map (·.lines))).spaced.1
        (elect (determine r bo.lines) rs (bos.map (·.lines))).extraQ.1, Spec.normSummary (smb.map decodeGo)⟩, c2,
      ⟨E1, E2, s0, sp, x, sm0, ⟨.range s0 te sp, sm0⟩, hE, hE1, hord, ⟨⟨rfl, ho⟩, rfl⟩, rfl⟩, ⟨hto, rfl⟩, hilt, ?_⟩
    rw [hrs']

end KlogV.RefineBLemmas
