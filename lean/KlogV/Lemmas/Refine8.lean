/-
Helper lemmas for C04, part 8: `parseRecord` of a record extended by one entry; of a new record.
-/
import KlogV.Lemmas.Refine7
import KlogV.Model.Eval
namespace KlogV.RefineLemmas

theorem headline2000 :
    parseHeadline 0 "2000-01-01".toList = .ok (some ⟨⟨2000, 1, 1, true⟩, none⟩, []) := by
  decide

theorem summaryGo_indented (nr : Nat) (l : List Char) (ls : List (List Char)) (i : List Char)
    (h : indentatorOf l = some i) : summaryGo nr (l :: ls) = ([], [], nr, l :: ls) := by
  simp [summaryGo, h]

/-- the parse in `Denotes`, in terms of the entries pass -/
theorem denotes_iff (ind l1 : List Char) (conts : List (List Char)) (e : Entry) (hind : indentatorOf l1 = some ind) :
    parseRecord 0 ("2000-01-01".toList :: l1 :: conts) = .record ⟨⟨2000, 1, 1, true⟩, none, [], [e]⟩ ↔
      (entriesGo ind {} 1 (l1 :: conts)).entries = [e] ∧ (entriesGo ind {} 1 (l1 :: conts)).errs = [] ∧
        (entriesGo ind {} 1 (l1 :: conts)).panicked = false := by
  rw [parseRecord_record_iff, summaryGo_indented _ _ _ _ hind]
  simp only [List.head?_cons, Option.bind_some, hind, Option.getD_some]
  constructor
  · rintro ⟨h, e1, _, e3, e4, e5⟩
    simp only [Record.mk.injEq] at e5
    exact ⟨e5.2.2.2.symm, e3, e4⟩
  · rintro ⟨e1, e2, e3⟩
    exact ⟨⟨⟨2000, 1, 1, true⟩, none⟩, headline2000, trivial, e2, e3, by rw [e1]⟩

theorem entryStep_commit_first (ind : List Char) (S : PState) (m : Nat) (l1 : List Char)
    (hs : S.stopped = false) (hp : S.panicked = false) (hndbl : (ind ++ ind).isPrefixOf l1 = false) :
    entryStep ind S m l1 = entryStep ind S.commit m l1 := by
  rw [entryStep_eq, entryStep_eq, commit_stopped, commit_panicked, hs, hp, commit_pending_none, commit_idem, hndbl]
  cases S.pending <;> rfl

/-- the state of the entries pass at the end of the existing lines of a record, and how the
extended record is read from there -/
theorem append_entry_state (o : Nat) (hl : List Char) (rest : List (List Char)) (ind l1 : List Char)
    (conts : List (List Char)) (r : Record)
    (hold : parseRecord o (hl :: rest) = .record r)
    (hind : indentatorOf l1 = some ind)
    (hndbl : (ind ++ ind).isPrefixOf l1 = false)
    (hstyle : ∀ x, (summaryGo (o + 1) rest).2.2.2.head? = some x → indentatorOf x = some ind) :
    ∃ h ST n, parseHeadline o hl = .ok (some h, []) ∧
      r = ⟨h.date, h.should, (summaryGo (o + 1) rest).1, ST.entries⟩ ∧
      ST.pending = none ∧ ST.stopped = false ∧ ST.panicked = false ∧ ST.errs = [] ∧ OpenInv ST ∧
      ∀ r'', parseRecord o (hl :: (rest ++ l1 :: conts)) = .record r'' ↔
        ((entriesGo ind ST n (l1 :: conts)).errs = [] ∧ (entriesGo ind ST n (l1 :: conts)).panicked = false ∧
          r'' = ⟨h.date, h.should, (summaryGo (o + 1) rest).1, (entriesGo ind ST n (l1 :: conts)).entries⟩) := by
  obtain ⟨h, e1, e2, e3, e4, e5⟩ := (parseRecord_record_iff o hl rest r).mp hold
  have hsg := summaryGo_append rest (l1 :: conts) (Or.inr ⟨l1, conts, rfl, by rw [hind]; rfl⟩) (o + 1)
  cases ha : summaryGo (o + 1) rest with
  | mk sum r1 =>
  obtain ⟨serrs, nr, rest2⟩ := r1
  rw [ha] at e2 e3 e4 e5 hsg hstyle
  simp only at e2 e3 e4 e5 hsg hstyle
  -- the old final state is the committed state after the old lines, read with indentation `ind`
  have hST : entriesGo ((rest2.head?.bind indentatorOf).getD []) {} nr rest2 = (stepsGo ind {} nr rest2).commit := by
    cases rest2 with
    | nil => rfl
    | cons x xs =>
      have := hstyle x rfl
      simp only [List.head?_cons, Option.bind_some, this, Option.getD_some]
      exact entriesGo_eq _ _ _ _
  rw [hST] at e3 e4 e5
  have hstyle' : (((rest2 ++ l1 :: conts).head?.bind indentatorOf).getD []) = ind := by
    cases rest2 with
    | nil => simp [hind]
    | cons x xs => simp [hstyle x rfl]
  generalize hS : stepsGo ind {} nr rest2 = S at e3 e4 e5
  have hS1 : S.errs = [] := by
    apply Classical.byContradiction
    intro hne
    exact commit_errs_mono S hne e3
  have hS2 : S.panicked = false := by rw [← commit_panicked]; exact e4
  have hS3 : S.stopped = false := by
    have hm := (stepsGo_mono ind rest2 {} nr).2.2 (by intro h; cases h)
    rw [hS] at hm
    cases hst : S.stopped with
    | false => rfl
    | true => exact absurd hS1 (hm hst)
  refine ⟨h, S.commit, nr + rest2.length, e1, e5, commit_pending_none S, by rw [commit_stopped]; exact hS3,
    e4, e3, ?_, ?_⟩
  · rw [← hS]
    exact commit_openInv _ (stepsGo_openInv ind rest2 {} nr rfl)
  · intro r''
    rw [parseRecord_record_iff, hsg]
    simp only [hstyle']
    have hgo : entriesGo ind {} nr (rest2 ++ l1 :: conts) = entriesGo ind S.commit (nr + rest2.length) (l1 :: conts) := by
      rw [entriesGo_eq, entriesGo_eq, stepsGo_append, hS]
      simp only [stepsGo]
      rw [entryStep_commit_first ind S _ l1 hS3 hS2 hndbl]
    rw [hgo]
    constructor
    · rintro ⟨h', f1, _, f3, f4, f5⟩
      rw [e1] at f1
      simp only [Res.ok.injEq, Prod.mk.injEq, Option.some.injEq, and_true] at f1
      subst f1
      exact ⟨f3, f4, f5⟩
    · rintro ⟨f3, f4, f5⟩
      exact ⟨h, e1, e2, f3, f4, f5⟩

/-- (ENTRY) a record that is read again with the lines of one more entry behind its last line -/
theorem parseRecord_append_entry (o : Nat) (hl : List Char) (rest : List (List Char)) (ind l1 : List Char)
    (conts : List (List Char)) (r r'' : Record)
    (hold : parseRecord o (hl :: rest) = .record r)
    (hnew : parseRecord o (hl :: (rest ++ l1 :: conts)) = .record r'')
    (hind : indentatorOf l1 = some ind)
    (hndbl : (ind ++ ind).isPrefixOf l1 = false)
    (hconts : ∀ c ∈ conts, (ind ++ ind).isPrefixOf c = true)
    (hstyle : ∀ x, (summaryGo (o + 1) rest).2.2.2.head? = some x → indentatorOf x = some ind) :
    ∃ e, r'' = { r with entries := r.entries ++ [e] } ∧
      parseRecord 0 ("2000-01-01".toList :: l1 :: conts) = .record ⟨⟨2000, 1, 1, true⟩, none, [], [e]⟩ := by
  obtain ⟨h, ST, n, e1, e2, s1, s2, s3, s4, _, hiff⟩ :=
    append_entry_state o hl rest ind l1 conts r hold hind hndbl hstyle
  obtain ⟨f1, f2, f3⟩ := (hiff r'').mp hnew
  obtain ⟨e, g1, g2, g3, g4, _⟩ := newEntry_run ind ST n l1 conts s1 s2 s3 s4 hconts f1 f2
  refine ⟨e, ?_, (denotes_iff ind l1 conts e hind).mpr ⟨g2, g3, g4⟩⟩
  rw [f3, e2, g1]

/-- (REJECT) a second open range makes the extended record unreadable -/
theorem parseRecord_append_open_rejected (o : Nat) (hl : List Char) (rest : List (List Char)) (ind l1 : List Char)
    (conts : List (List Char)) (r : Record) (e : Entry)
    (hold : parseRecord o (hl :: rest) = .record r)
    (hind : indentatorOf l1 = some ind)
    (hndbl : (ind ++ ind).isPrefixOf l1 = false)
    (hconts : ∀ c ∈ conts, (ind ++ ind).isPrefixOf c = true)
    (hstyle : ∀ x, (summaryGo (o + 1) rest).2.2.2.head? = some x → indentatorOf x = some ind)
    (hden : parseRecord 0 ("2000-01-01".toList :: l1 :: conts) = .record ⟨⟨2000, 1, 1, true⟩, none, [], [e]⟩)
    (ho : isOpen e.val = true) (hr : r.hasOpen = true) :
    ∀ r'', parseRecord o (hl :: (rest ++ l1 :: conts)) ≠ .record r'' := by
  intro r'' hnew
  obtain ⟨h, ST, n, e1, e2, s1, s2, s3, s4, s5, hiff⟩ :=
    append_entry_state o hl rest ind l1 conts r hold hind hndbl hstyle
  obtain ⟨f1, _, _⟩ := (hiff r'').mp hnew
  obtain ⟨g1, g2, g3⟩ := (denotes_iff ind l1 conts e hind).mp hden
  have hH : ST.hasOpen = true := by
    rw [s5]
    rw [e2] at hr
    exact hr
  exact newEntry_open_rejected ind ST n l1 conts s1 s2 s3 s4 hconts e g1 g2 g3 ho hH f1

/-- a record without summary and entries: only the headline counts -/
theorem parseRecord_headline_only (o : Nat) (hl : List Char) (rest : List (List Char)) (r : Record)
    (h : parseRecord o (hl :: rest) = .record r) :
    ∃ hd, parseHeadline o hl = .ok (some hd, []) ∧ r.date = hd.date ∧ r.should = hd.should ∧
      parseRecord o [hl] = .record ⟨hd.date, hd.should, [], []⟩ := by
  obtain ⟨hd, e1, _, _, _, e5⟩ := (parseRecord_record_iff o hl rest r).mp h
  refine ⟨hd, e1, by rw [e5], by rw [e5], ?_⟩
  rw [parseRecord_record_iff]
  exact ⟨hd, e1, rfl, rfl, rfl, rfl⟩

/-- a new record: headline and summary lines -/
theorem parseRecord_create (o : Nat) (hl : List Char) (sums : List (List Char)) (hd : Head)
    (hh : parseHeadline o hl = .ok (some hd, []))
    (hs : ∀ l ∈ sums, okRecordSummaryLine l = true) :
    parseRecord o (hl :: sums) = .record ⟨hd.date, hd.should, sums, []⟩ := by
  rw [parseRecord_record_iff]
  have := summaryGo_print sums [] hs (Or.inl rfl) (o + 1)
  rw [List.append_nil] at this
  rw [this]
  exact ⟨hd, hh, rfl, rfl, rfl, rfl⟩

end KlogV.RefineLemmas
