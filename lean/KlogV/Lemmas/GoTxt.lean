/- Helper lemmas for KlogV/Props/GoTxt.lean (the translated line / block layer computes the model's lines and blocks). Core Lean only. -/
import KlogV.GoSem.AbsTxt
import KlogV.Lemmas.GoTxt9
namespace KlogV.GoL
open KlogV.Go

theorem newLineFromString_eq (raw : Bytes) (hlen : (raw.length : Int) < 9223372036854775808) : GoTxt.NewLineFromString raw = .ok (Line.ofRaw raw).toGo := by
  exact T.newLineFromString_eq raw hlen

theorem line_original_eq (l : Line) : l.toGo.Original = .ok l.original := by
  rfl

theorem line_isBlank_eq (l : Line) : l.toGo.IsBlank = .ok l.isBlank := by
  exact T.line_isBlank_eq l

theorem parseBlock_eq (t : Bytes) (n : Int) (hlen : (t.length : Int) < 9223372036854775808) : GoTxt.ParseBlock t n = .ok (firstBlock t n) := by
  exact T.parseBlock_eq t n hlen

theorem blocksOf_drop (t : Bytes) (b : List Line) (bs : List (List Line)) (h : blocksOf t = b :: bs) :
    blocksOf (t.drop (countBytes b)) = bs := by
  unfold countBytes
  by_cases hbs : bs = []
  · subst hbs
    have hf := blocksOfLines_flatten (splitLines t) (by
      show blocksOf t ≠ []
      rw [h]; simp)
    have h' : blocksOfLines (splitLines t) = [b] := h
    rw [h'] at hf
    simp only [List.flatten_cons, List.flatten_nil, List.append_nil] at hf
    rw [hf, joinLines_splitLines]
    simp only [List.drop_length]
    rfl
  · obtain ⟨R2, e1, _, _, _, _, e6, _⟩ := blocksOf_decomp t b bs h hbs
    rw [e1, List.drop_left]
    exact e6

theorem significantLines_eq (b : List Line) (n : Int) (h : b.any (fun l => !l.isBlank) = true)
    (hlen : (b.length : Int) < 9223372036854775808) :
    (⟨n, b.map Line.toGo⟩ : GoTxt.block).SignificantLines =
      .ok ((significant b).1.map Line.toGo, ((significant b).2.1 : Int), ((significant b).2.2 : Int)) := by
  exact T.significantLines_eq b n h hlen

end KlogV.GoL

