/- C10 lemmas: the first error is on the first line at which the block stops being acceptable. -/
import KlogV.Lemmas.ParserErrors
import KlogV.Lemmas.Totality
namespace KlogV

/-- line (index into all lines of the block) of the first reported error -/
def firstErrorLine : ParseOut → Option Nat
  | .errors (e :: _) => some e.line
  | _ => none

namespace FirstErrorLemmas

/-! ### The entries pass: the errors of a prefix run are a prefix of the errors of the full run -/

theorem commit_pending (st : PState) : st.commit.pending = none := by
  unfold PState.commit
  split
  · assumption
  · split <;> rfl

theorem commit_of_none {st : PState} (h : st.pending = none) : st.commit = st := by
  unfold PState.commit; rw [h]

/-- What one line adds to the errors that the state would report if it were committed now. -/
theorem entryStep_commit_errs (style : List Char) (st : PState) (nr : Nat) (l : List Char) :
    ∃ x, (entryStep style st nr l).commit.errs = st.commit.errs ++ x ∧ ∀ e ∈ x, nr ≤ e.line := by
  unfold entryStep
  split
  · exact ⟨[], by simp, by simp⟩
  · simp only []
    have hmain : ∀ c : PState, c.pending = none → ∃ x, PState.errs (PState.commit
        (if (!style.isPrefixOf l) = true then
          ({ c with stopped := true, errs := c.errs ++ [⟨nr, 0, l.length, .illegalIndentation⟩] } : PState)
        else
          if (match l.drop style.length with | c :: _ => isSpTab c | [] => false) = true then
            { c with stopped := true, errs := c.errs ++ [⟨nr, 0, l.length, .illegalIndentation⟩] }
          else match parseValue style.length (l.drop style.length) with
            | .panic => { c with panicked := true }
            | .bad pos len => { c with errs := c.errs ++ [⟨nr, pos, len, .malformedEntry⟩] }
            | .illegalRange pos len => { c with errs := c.errs ++ [⟨nr, pos, len, .illegalRange⟩] }
            | .ok v =>
              let first : List Char := match v.rest with
                | c :: r => if isSpTab c then r else []
                | [] => []
              { c with pending := some ⟨v.val, [first], nr, v.startPos, v.spanLen⟩ }))
          = c.errs ++ x ∧ ∀ e ∈ x, nr ≤ e.line := by
      intro c hcp
      have hrest : ∃ x, PState.errs (PState.commit
          (match parseValue style.length (l.drop style.length) with
            | .panic => ({ c with panicked := true } : PState)
            | .bad pos len => { c with errs := c.errs ++ [⟨nr, pos, len, .malformedEntry⟩] }
            | .illegalRange pos len => { c with errs := c.errs ++ [⟨nr, pos, len, .illegalRange⟩] }
            | .ok v =>
              let first : List Char := match v.rest with
                | c :: r => if isSpTab c then r else []
                | [] => []
              { c with pending := some ⟨v.val, [first], nr, v.startPos, v.spanLen⟩ }))
          = c.errs ++ x ∧ ∀ e ∈ x, nr ≤ e.line := by
        split
        · exact ⟨[], by rw [commit_of_none (by exact hcp)]; simp, by simp⟩
        · exact ⟨[_], by rw [commit_of_none (by exact hcp)], by simp⟩
        · exact ⟨[_], by rw [commit_of_none (by exact hcp)], by simp⟩
        · simp only [PState.commit]
          split
          · exact ⟨[_], rfl, by simp⟩
          · exact ⟨[], by simp, by simp⟩
      split
      · exact ⟨[_], by rw [commit_of_none (by exact hcp)], by simp⟩
      · split
        · split
          · exact ⟨[_], by rw [commit_of_none (by exact hcp)], by simp⟩
          · exact hrest
        · simp only [Bool.false_eq_true, if_false]
          exact hrest
    split
    · rename_i p hp hdbl
      split
      · refine ⟨[], ?_, by simp⟩
        simp only [PState.commit, hp, List.append_nil]
        split <;> rfl
      · exact ⟨[_], by rw [commit_of_none (by exact commit_pending st)], by simp⟩
    · exact hmain st.commit (commit_pending st)

/-- The run over `ls` only appends errors (for lines from `nr` on) to what a commit would report now. -/
theorem entriesGo_errs (style : List Char) (ls : List (List Char)) :
    ∀ (st : PState) (nr : Nat), ∃ x, (entriesGo style st nr ls).errs = st.commit.errs ++ x ∧
      ∀ e ∈ x, nr ≤ e.line := by
  induction ls with
  | nil => intro st nr; exact ⟨[], by simp [entriesGo], by simp⟩
  | cons l ls ih =>
    intro st nr
    obtain ⟨x1, h1, b1⟩ := entryStep_commit_errs style st nr l
    obtain ⟨x2, h2, b2⟩ := ih (entryStep style st nr l) (nr + 1)
    refine ⟨x1 ++ x2, ?_, ?_⟩
    · simp only [entriesGo]; rw [h2, h1, List.append_assoc]
    · intro e he
      rcases List.mem_append.mp he with he | he
      · exact b1 e he
      · have := b2 e he; omega

theorem entriesGo_sticky (style : List Char) (ls : List (List Char)) :
    ∀ (st : PState) (nr : Nat), st.panicked = true → (entriesGo style st nr ls).panicked = true := by
  induction ls with
  | nil => intro st nr h; simp only [entriesGo]; rw [PState.commit_panicked]; exact h
  | cons l ls ih =>
    intro st nr h
    simp only [entriesGo]
    apply ih
    unfold entryStep
    simp [h]

theorem entriesGo_append (style : List Char) (l1 l2 : List (List Char)) :
    ∀ (st : PState) (nr : Nat), ∃ x, (entriesGo style st nr (l1 ++ l2)).errs = (entriesGo style st nr l1).errs ++ x ∧
      (∀ e ∈ x, nr + l1.length ≤ e.line) ∧
      ((entriesGo style st nr l1).panicked = true → (entriesGo style st nr (l1 ++ l2)).panicked = true) := by
  induction l1 with
  | nil =>
    intro st nr
    obtain ⟨x, h, b⟩ := entriesGo_errs style l2 st nr
    refine ⟨x, by simpa [entriesGo] using h, by simpa using b, ?_⟩
    intro hp
    simp only [entriesGo, PState.commit_panicked] at hp
    exact entriesGo_sticky style _ st nr hp
  | cons l l1 ih =>
    intro st nr
    obtain ⟨x, h, b, p⟩ := ih (entryStep style st nr l) (nr + 1)
    refine ⟨x, by simpa [entriesGo] using h, ?_, by simpa [entriesGo] using p⟩
    intro e he
    have := b e he
    simp only [List.length_cons]; omega

/-! ### Everything after the headline -/

/-- final state of the entries pass for the lines after the headline -/
def tailSt (nr : Nat) (rest : List (List Char)) : PState :=
  entriesGo (((summaryGo nr rest).2.2.2.head?.bind indentatorOf).getD []) {} (summaryGo nr rest).2.2.1
    (summaryGo nr rest).2.2.2

/-- errors of the record summary and of the entries -/
def tailErrs (nr : Nat) (rest : List (List Char)) : List Err :=
  (summaryGo nr rest).2.1 ++ (tailSt nr rest).errs

/-- the last step of `parseRecord` -/
def outOf (head : Option Head) (errs : List Err) (sum : List (List Char)) (entries : List Entry) : ParseOut :=
  match head, errs with
  | some h, [] => .record ⟨h.date, h.should, sum, entries⟩
  | _, _ => .errors errs

theorem outOf_some_nil (h : Head) (sum : List (List Char)) (entries : List Entry) :
    outOf (some h) [] sum entries = .record ⟨h.date, h.should, sum, entries⟩ := rfl
theorem outOf_cons (head : Option Head) (e : Err) (es : List Err) (sum : List (List Char)) (entries : List Entry) :
    outOf head (e :: es) sum entries = .errors (e :: es) := by
  cases head <;> rfl
theorem outOf_none (errs : List Err) (sum : List (List Char)) (entries : List Entry) :
    outOf none errs sum entries = .errors errs := rfl

theorem parseRecord_cons_ok (offset : Nat) (hl : List Char) (rest : List (List Char)) (head : Option Head)
    (herrs : List Err) (hh : parseHeadline offset hl = .ok (head, herrs)) :
    parseRecord offset (hl :: rest) =
      if (tailSt (offset + 1) rest).panicked = true then .panic else
      outOf head (herrs ++ tailErrs (offset + 1) rest) (summaryGo (offset + 1) rest).1
        (tailSt (offset + 1) rest).entries := by
  unfold parseRecord tailErrs tailSt outOf
  simp only [hh]
  generalize summaryGo (offset + 1) rest = r
  obtain ⟨sum, serrs, nr, rest2⟩ := r
  simp only [List.append_assoc]
  split
  · rfl
  · cases head <;> rfl

theorem tail_nil (nr : Nat) : tailErrs nr [] = [] ∧ (tailSt nr []).panicked = false := by
  simp [tailErrs, tailSt, summaryGo, entriesGo, PState.commit]

theorem tail_cons_none (nr : Nat) (l : List Char) (X : List (List Char)) (h : indentatorOf l = none) :
    tailSt nr (l :: X) = tailSt (nr + 1) X ∧
    tailErrs nr (l :: X) = (if okRecordSummaryLine l then [] else [⟨nr, 0, l.length, .malformedSummary⟩])
      ++ tailErrs (nr + 1) X := by
  unfold tailErrs tailSt
  simp only [summaryGo, h]
  generalize summaryGo (nr + 1) X = r
  obtain ⟨sum, serrs, nr', rest2⟩ := r
  simp only []
  split <;> simp

theorem tail_cons_some (nr : Nat) (l : List Char) (X : List (List Char)) (i : List Char)
    (h : indentatorOf l = some i) :
    tailSt nr (l :: X) = entriesGo i {} nr (l :: X) ∧
    tailErrs nr (l :: X) = (entriesGo i {} nr (l :: X)).errs := by
  unfold tailErrs tailSt
  simp [summaryGo, h]

theorem tail_bounds (nr : Nat) (X : List (List Char)) :
    ∀ e ∈ tailErrs nr X, nr ≤ e.line ∧ e.line < nr + X.length := by
  intro e he
  unfold tailErrs tailSt at he
  obtain ⟨k, s1, s2, s3, s4, _⟩ := summaryGo_spec nr X
  generalize summaryGo nr X = r at *
  obtain ⟨sum, serrs, nr', rest2⟩ := r
  simp only at s1 s2 s4 he
  rcases List.mem_append.mp he with he | he
  · exact ⟨(s4 e he).1.1, (s4 e he).1.2.1⟩
  · obtain ⟨e1, _⟩ := entriesGo_inv ((rest2.head?.bind indentatorOf).getD []) nr' rest2 rest2 [] {} rfl
      (PInv.init nr' rest2)
    simp only [List.length_nil, Nat.add_zero] at e1
    have := e1 e he
    obtain ⟨a, b, _⟩ := this
    subst s1 s2
    simp only [List.length_drop] at b
    exact ⟨by omega, by omega⟩

/-- The errors for `T ++ R` are those for `T` followed by errors on lines of `R`. -/
theorem tail_append (T R : List (List Char)) :
    ∀ nr, ∃ x, tailErrs nr (T ++ R) = tailErrs nr T ++ x ∧ (∀ e ∈ x, nr + T.length ≤ e.line) ∧
      ((tailSt nr T).panicked = true → (tailSt nr (T ++ R)).panicked = true) := by
  induction T with
  | nil =>
    intro nr
    refine ⟨tailErrs nr R, by simp [(tail_nil nr).1], ?_, by simp [(tail_nil nr).2]⟩
    intro e he
    have := (tail_bounds nr R e he).1
    simpa using this
  | cons l T ih =>
    intro nr
    rw [List.cons_append]
    cases h : indentatorOf l with
    | none =>
      obtain ⟨x, hx, hb, hp⟩ := ih (nr + 1)
      obtain ⟨a1, a2⟩ := tail_cons_none nr l (T ++ R) h
      obtain ⟨b1, b2⟩ := tail_cons_none nr l T h
      refine ⟨x, ?_, ?_, ?_⟩
      · rw [a2, b2, hx, List.append_assoc]
      · intro e he
        have := hb e he
        simp only [List.length_cons]; omega
      · rw [a1, b1]; exact hp
    | some i =>
      obtain ⟨a1, a2⟩ := tail_cons_some nr l (T ++ R) i h
      obtain ⟨b1, b2⟩ := tail_cons_some nr l T i h
      obtain ⟨x, hx, hb, hp⟩ := entriesGo_append i (l :: T) R {} nr
      rw [List.cons_append] at hx hp
      exact ⟨x, by rw [a2, b2, hx], hb, by rw [a1, b1]; exact hp⟩

/-! ### Documents -/

theorem flatten_first (bos : List BlockOut) (e : GErr) (es : List GErr)
    (hne : ∀ bo ∈ bos, bo.out ≠ .panic ∧ bo.out ≠ .errors [])
    (h : (bos.map gerrsOf).flatten = e :: es) :
    ∃ (pre post : List BlockOut) (bo : BlockOut) (e0 : Err) (es0 : List Err),
      bos = pre ++ bo :: post ∧ (∀ b ∈ pre, ∃ r, b.out = .record r) ∧
      bo.out = .errors (e0 :: es0) ∧ e.lineNumber = bo.first + e0.line + 1 ∧ e.pos = e0.pos ∧ e.len = e0.len ∧
      e.code = e0.code := by
  induction bos with
  | nil => simp at h
  | cons b bos ih =>
    obtain ⟨n1, n2⟩ := hne b List.mem_cons_self
    cases hb : b.out with
    | panic => exact absurd hb n1
    | record r =>
      have hg : gerrsOf b = [] := by unfold gerrsOf; rw [hb]
      simp only [List.map_cons, List.flatten_cons, hg, List.nil_append] at h
      obtain ⟨pre, post, bo, e0, es0, h1, h2, h3⟩ := ih (fun bo hbo => hne bo (List.mem_cons_of_mem _ hbo)) h
      refine ⟨b :: pre, post, bo, e0, es0, by rw [h1]; rfl, ?_, h3⟩
      intro b' hb'
      rcases List.mem_cons.mp hb' with rfl | hb'
      · exact ⟨r, hb⟩
      · exact h2 b' hb'
    | errors l =>
      cases l with
      | nil => exact absurd hb n2
      | cons e0 es0 =>
        have hg : gerrsOf b = (e0 :: es0).map (fun e => ⟨b.first + e.line + 1, e.pos, e.len, e.code, (b.lines[e.line]?).map (·.text)⟩) := by
          unfold gerrsOf; rw [hb]
        simp only [List.map_cons, List.flatten_cons, hg, List.cons_append, List.cons.injEq] at h
        obtain ⟨h1, _⟩ := h
        subst h1
        exact ⟨[], bos, b, e0, es0, rfl, by simp, hb, rfl, rfl, rfl, rfl⟩

end FirstErrorLemmas

open FirstErrorLemmas

theorem first_error_prefix_accepted (offset k : Nat) (lines : List (List Char))
    (h : firstErrorLine (parseRecord offset lines) = some (offset + k)) (hk : 0 < k) :
    ∃ r, parseRecord offset (lines.take k) = .record r := by
  cases lines with
  | nil => simp [parseRecord, firstErrorLine] at h
  | cons hl rest =>
    obtain ⟨k', rfl⟩ : ∃ k', k = k' + 1 := ⟨k - 1, by omega⟩
    simp only [List.take_succ_cons]
    have hg := parseHeadline_good offset hl
    cases hph : parseHeadline offset hl with
    | panic => simp [parseRecord, hph, firstErrorLine] at h
    | err => simp [parseRecord, hph, firstErrorLine] at h
    | ok v =>
      obtain ⟨head, herrs⟩ := v
      rw [hph] at hg
      obtain ⟨g1, g2, g3⟩ := hg
      rw [parseRecord_cons_ok _ _ _ _ _ hph] at h ⊢
      obtain ⟨x, hx, hxb, hxp⟩ := tail_append (rest.take k') (rest.drop k') (offset + 1)
      rw [List.take_append_drop] at hx hxp
      have hbd := tail_bounds (offset + 1) (rest.take k')
      have hlen : (rest.take k').length ≤ k' := by simp [List.length_take]; omega
      split at h
      · simp [firstErrorLine] at h
      · rename_i hnp
        have hnp' : ¬ (tailSt (offset + 1) (rest.take k')).panicked = true := fun hc => hnp (hxp hc)
        rw [if_neg hnp']
        cases herrs with
        | cons y ys =>
          have := (g2 y List.mem_cons_self).1
          simp only [List.cons_append, outOf_cons, firstErrorLine, Option.some.injEq] at h
          omega
        | nil =>
          cases head with
          | none => exact absurd rfl (g3 rfl)
          | some hd =>
            cases hT : tailErrs (offset + 1) (rest.take k') with
            | nil => exact ⟨_, by rw [List.nil_append, outOf_some_nil]⟩
            | cons y ys =>
              rw [hx, hT] at h
              simp only [List.nil_append, List.cons_append, outOf_cons, firstErrorLine, Option.some.injEq] at h
              have := (hbd y (by rw [hT]; exact List.mem_cons_self)).2
              omega

theorem first_error_not_extensible (offset k : Nat) (lines : List (List Char))
    (h : firstErrorLine (parseRecord offset lines) = some (offset + k)) (rest : List (List Char)) :
    match parseRecord offset (lines.take (k + 1) ++ rest) with
    | .record _ => False
    | .errors es => firstErrorLine (.errors es) = some (offset + k)
    | .panic => True := by
  cases lines with
  | nil => simp [parseRecord, firstErrorLine] at h
  | cons hl tl =>
    simp only [List.take_succ_cons, List.cons_append]
    have hg := parseHeadline_good offset hl
    cases hph : parseHeadline offset hl with
    | panic => simp [parseRecord, hph, firstErrorLine] at h
    | err => simp [parseRecord, hph, firstErrorLine] at h
    | ok v =>
      obtain ⟨head, herrs⟩ := v
      rw [hph] at hg
      obtain ⟨g1, g2, g3⟩ := hg
      have hk : k ≤ tl.length := by
        cases hp : parseRecord offset (hl :: tl) with
        | errors es =>
          rw [hp] at h
          cases es with
          | nil => simp [firstErrorLine] at h
          | cons e es' =>
            have := (parseRecord_line_in_block _ _ _ hp e List.mem_cons_self).2
            simp only [firstErrorLine, Option.some.injEq, List.length_cons] at h this
            omega
        | record r => rw [hp] at h; simp [firstErrorLine] at h
        | panic => rw [hp] at h; simp [firstErrorLine] at h
      rw [parseRecord_cons_ok _ _ _ _ _ hph] at h ⊢
      obtain ⟨x, hx, hxb, _⟩ := tail_append (tl.take k) (tl.drop k) (offset + 1)
      obtain ⟨x', hx', hxb', _⟩ := tail_append (tl.take k) rest (offset + 1)
      rw [List.take_append_drop] at hx
      have hlen : (tl.take k).length = k := by simp only [List.length_take]; omega
      split at h
      · simp [firstErrorLine] at h
      · by_cases hc : (tailSt (offset + 1) (tl.take k ++ rest)).panicked = true
        · rw [if_pos hc]; trivial
        · rw [if_neg hc]
          cases herrs with
          | cons y ys =>
            simp only [List.cons_append, outOf_cons] at h ⊢
            exact h
          | nil =>
            cases hT : tailErrs (offset + 1) (tl.take k) with
            | nil =>
              rw [hx, hT] at h
              cases x with
              | nil => cases head <;> simp [outOf, firstErrorLine] at h
              | cons y ys =>
                have := hxb y List.mem_cons_self
                simp only [List.nil_append, outOf_cons, firstErrorLine, Option.some.injEq] at h
                omega
            | cons y ys =>
              rw [hx, hT] at h
              rw [hx', hT]
              simp only [List.nil_append, List.cons_append, outOf_cons] at h ⊢
              exact h

theorem parseDoc_first_error (t : Bytes) (e : GErr) (es : List GErr) (h : parseDoc t = .errors (e :: es)) :
    ∃ (pre post : List BlockOut) (bo : BlockOut) (e0 : Err) (es0 : List Err),
      blockOuts (blocksOf t) = pre ++ bo :: post ∧ (∀ b ∈ pre, ∃ r, b.out = .record r) ∧
      bo.out = .errors (e0 :: es0) ∧ e.lineNumber = bo.first + e0.line + 1 ∧ e.pos = e0.pos ∧ e.len = e0.len ∧ e.code = e0.code := by
  unfold parseDoc assemble at h
  simp only [] at h
  split at h
  · cases h
  · rename_i hnp
    split at h
    · simp only [DocOut.errors.injEq] at h
      apply flatten_first _ e es _ h
      intro bo hbo
      refine ⟨?_, ?_⟩
      · intro hp
        apply hnp
        rw [List.any_eq_true]
        exact ⟨bo, hbo, by rw [hp]; rfl⟩
      · intro hes
        obtain ⟨ho, hl⟩ := blockOuts_mem _ _ hbo
        have hsig := significant_ne_nil _ (blocksOf_has_sig t _ hl)
        rw [ho] at hes
        unfold parseBlock at hes
        generalize significant bo.lines = sg at *
        obtain ⟨sig, head, tl⟩ := sg
        simp only at hes hsig
        exact parseRecord_errors_nonempty _ _ _ (by simpa using hsig) hes rfl
    · cases h

end KlogV
