/- Helper lemmas for KlogV/Lemmas/Warnings.lean: `checkWarnings` does not panic away from the ends
of the calendar. -/
import KlogV.Lemmas.Warnings3
namespace KlogV

/-- both neighbours of a date exist -/
def Near3 (d : Date) : Prop := (∃ a, d.plusDays 1 = some a) ∧ (∃ b, d.plusDays (-1) = some b)

theorem near3_of_dayNumber (d : Date) (hv : d.valid = true) (h0 : 1 ≤ dayNumber d) (h1 : dayNumber d ≤ 3652423) :
    Near3 d := by
  obtain ⟨a, ha, _⟩ := plusDays_exists d 1 hv (by omega) (by omega)
  obtain ⟨b, hb, _⟩ := plusDays_exists d (-1) hv (by omega) (by omega)
  exact ⟨⟨a, ha⟩, ⟨b, hb⟩⟩

theorem plusDays_zero (d : Date) : d.plusDays 0 = some d := by
  simp [Date.plusDays, plusDaysFwd]

theorem mk'_some (d : Date) (t : Time) (h : Near3 d) : ∃ a, DateTime.mk' d t = some a := by
  obtain ⟨⟨a, ha⟩, ⟨b, hb⟩⟩ := h
  have e : DateTime.mk' d t = (d.plusDays (if t.shift > 0 then 1 else if t.shift < 0 then -1 else 0)).map
      fun d' => ⟨d', t.h, t.min⟩ := rfl
  rw [e]
  split
  · rw [ha]; exact ⟨_, rfl⟩
  · split
    · rw [hb]; exact ⟨_, rfl⟩
    · rw [plusDays_zero]; exact ⟨_, rfl⟩

theorem entryInFuture_ok (now : Instant) (fz : DateTime) (d : Date) (e : Entry) (hd : Near3 d)
    (htm : ∃ tm, now.date.plusDays 1 = some tm) : ∃ b, entryInFuture now fz d e = .ok b := by
  obtain ⟨tm, htm⟩ := htm
  unfold entryInFuture
  cases e.val with
  | range s t sp =>
    obtain ⟨a, ha⟩ := mk'_some d s hd
    obtain ⟨b, hb⟩ := mk'_some d t hd
    simp only [ha, hb]
    split <;> exact ⟨_, rfl⟩
  | dur x => simp only [htm]; exact ⟨_, rfl⟩
  | openRange s sp q =>
    obtain ⟨a, ha⟩ := mk'_some d s hd
    simp only [ha]; exact ⟨_, rfl⟩

def futNear (now : Instant) (r : Record) : Res Bool :=
  match now.date.plusDays (-1) with
  | none => .panic
  | some y =>
    if y.sameDay r.date then .ok true
    else if now.date.sameDay r.date then .ok true
    else match now.date.plusDays 1 with
      | none => .panic
      | some tm => .ok (tm.sameDay r.date)

def futFuzzy (now : Instant) : Res DateTime :=
  match now.time.plus 31 with
  | none => .ok ⟨now.date, now.h, now.min⟩
  | some inc => match DateTime.mk' now.date inc with
    | none => .panic
    | some f => .ok f

def futCount (now : Instant) (fz : DateTime) (d : Date) (es : List Entry) (acc : Res Nat) : Res Nat :=
  es.foldl (fun acc e => acc.bind fun n =>
    (entryInFuture now fz d e).map fun b => if b then n + 1 else n) acc

theorem warnFuture_eq (now : Instant) (r : Record) :
    warnFuture now r =
      if r.entries.isEmpty then .ok false else
      match now.date.plusDays (-2) with
      | none => .panic
      | some d2 =>
        if d2.afterOrEqual r.date then .ok false else
        (futNear now r).bind fun isNear =>
          if !isNear then .ok true else
          (futFuzzy now).bind fun fz => (futCount now fz r.date r.entries (.ok 0)).map fun n => n != 0 := by
  unfold warnFuture futNear futFuzzy futCount
  rfl

theorem futCount_ok (now : Instant) (fz : DateTime) (d : Date) (hd : Near3 d)
    (htm : ∃ tm, now.date.plusDays 1 = some tm) (es : List Entry) :
    ∀ n, ∃ m, futCount now fz d es (.ok n) = .ok m := by
  induction es with
  | nil => intro n; exact ⟨n, rfl⟩
  | cons e es ih =>
    intro n
    obtain ⟨b, hb⟩ := entryInFuture_ok now fz d e hd htm
    unfold futCount
    rw [List.foldl_cons]
    simp only [Res.bind, hb, Res.map]
    exact ih _

theorem futFuzzy_ok (now : Instant) (h : Near3 now.date) : ∃ fz, futFuzzy now = .ok fz := by
  unfold futFuzzy
  cases now.time.plus 31 with
  | none => exact ⟨_, rfl⟩
  | some inc =>
    obtain ⟨f, hf⟩ := mk'_some now.date inc h
    simp only [hf]; exact ⟨_, rfl⟩

theorem futNear_ok (now : Instant) (r : Record) (hnv : now.date.valid = true) (hr : r.date.valid = true)
    (hlo : 2 ≤ dayNumber now.date) (hhi : dayNumber now.date ≤ 3652422) :
    ∃ b, futNear now r = .ok b ∧ (b = true → Near3 r.date) := by
  obtain ⟨y, hy, hyv, hyn⟩ := plusDays_exists now.date (-1) hnv (by omega) (by omega)
  obtain ⟨tm, htm, htv, htn⟩ := plusDays_exists now.date 1 hnv (by omega) (by omega)
  unfold futNear
  simp only [hy, htm]
  split
  · next h =>
    refine ⟨true, rfl, fun _ => ?_⟩
    have := dayNumber_of_sameDay _ _ h
    exact near3_of_dayNumber _ hr (by omega) (by omega)
  · split
    · next h =>
      refine ⟨true, rfl, fun _ => ?_⟩
      have := dayNumber_of_sameDay _ _ h
      exact near3_of_dayNumber _ hr (by omega) (by omega)
    · refine ⟨_, rfl, fun h => ?_⟩
      have := dayNumber_of_sameDay _ _ h
      exact near3_of_dayNumber _ hr (by omega) (by omega)

theorem warnFuture_ok (now : Instant) (r : Record) (hnv : now.date.valid = true) (hr : r.date.valid = true)
    (hlo : 2 ≤ dayNumber now.date) (hhi : dayNumber now.date ≤ 3652422) :
    ∃ b, warnFuture now r = .ok b := by
  obtain ⟨d2, h2, _⟩ := plusDays_exists now.date (-2) hnv (by omega) (by omega)
  obtain ⟨tm, htm, _⟩ := plusDays_exists now.date 1 hnv (by omega) (by omega)
  obtain ⟨b, hb, hnear⟩ := futNear_ok now r hnv hr hlo hhi
  obtain ⟨fz, hfz⟩ := futFuzzy_ok now (near3_of_dayNumber _ hnv (by omega) (by omega))
  rw [warnFuture_eq]
  simp only [h2, hb, hfz, Res.bind]
  split
  · exact ⟨_, rfl⟩
  · split
    · exact ⟨_, rfl⟩
    · cases b with
      | false => exact ⟨_, rfl⟩
      | true =>
        obtain ⟨m, hm⟩ := futCount_ok now fz r.date (hnear rfl) ⟨tm, htm⟩ r.entries 0
        simp only [hm, Res.map]
        exact ⟨_, rfl⟩

theorem wM_ok (dis : Disabled) (r : Record) (ht : sumRes (r.entries.map Entry.minutes) ≠ .panic) :
    ∃ b, wM dis r = .ok b := by
  unfold wM
  split
  · exact ⟨_, rfl⟩
  · unfold warnMoreThan24h
    cases hs : sumRes (r.entries.map Entry.minutes) with
    | ok t => exact ⟨_, rfl⟩
    | err => exact absurd hs (sumRes_ne_err _)
    | panic => exact absurd hs ht

theorem wU_ok (now : Instant) (dis : Disabled) (seen : Bool) (r : Record)
    (hy : ∃ y, now.date.plusDays (-1) = some y) : ∃ p, wU now dis seen r = .ok p := by
  obtain ⟨y, hy⟩ := hy
  cases hd : dis.unclosed with
  | true => unfold wU; rw [hd]; exact ⟨_, rfl⟩
  | false => exact ⟨_, wU_spec now dis hd y hy seen r⟩

theorem wfold_ok (now : Instant) (dis : Disabled) (hnv : now.date.valid = true)
    (hlo : 2 ≤ dayNumber now.date) (hhi : dayNumber now.date ≤ 3652422) (l : List Record)
    (hv : ∀ r ∈ l, r.date.valid = true)
    (ht : ∀ r ∈ l, sumRes (r.entries.map Entry.minutes) ≠ .panic) :
    ∀ (out : List (Date × WarnKind)) (seen : Bool), ∃ p, l.foldl (wstep now dis) (.ok (out, seen)) = .ok p := by
  induction l with
  | nil => intro out seen; exact ⟨_, rfl⟩
  | cons r l ih =>
    intro out seen
    obtain ⟨y, hy, _⟩ := plusDays_exists now.date (-1) hnv (by omega) (by omega)
    obtain ⟨⟨w1, s1⟩, hU⟩ := wU_ok now dis seen r ⟨y, hy⟩
    obtain ⟨w2, hF⟩ : ∃ b, wF now dis r = .ok b := by
      unfold wF
      split
      · exact ⟨_, rfl⟩
      · exact warnFuture_ok now r hnv (hv r List.mem_cons_self) hlo hhi
    obtain ⟨w4, hM⟩ := wM_ok dis r (ht r List.mem_cons_self)
    rw [List.foldl_cons, wstep_ok now dis out seen r w1 s1 w2 w4 hU hF hM]
    exact ih (fun r' hr' => hv r' (List.mem_cons_of_mem _ hr')) (fun r' hr' => ht r' (List.mem_cons_of_mem _ hr')) _ _

end KlogV
