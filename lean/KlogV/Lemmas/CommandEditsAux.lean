/-
C03 lemmas, command level, part 2: the primitives' effect on lengths and texts, the creators'
lines and pointers, the shape of a successful `reconcileFile`, the steps.
-/
import KlogV.Lemmas.Refine17
import KlogV.Lemmas.CommandEditsCount
namespace KlogV.CommandEditsLemmas
open KlogV.EditLemmas KlogV.RefineLemmas

/-! ## primitives -/

theorem setEndingIfNone_text (st : Style) (l : Line) : (setEndingIfNone st l).text = l.text := by
  rw [setEndingIfNone_eq]

theorem fixLast_text (st : Style) (b : List Line) : (fixLast st b).map (·.text) = b.map (·.text) := by
  rcases eq_nil_or_snoc b with rfl | ⟨d, l, rfl⟩
  · rw [fixLast_nil]
  · rw [fixLast_snoc]
    simp [setEndingIfNone_text]

theorem insertLines_length_ge (st : Style) (lines : List Line) (idx : Nat) (texts : List Insertable) :
    lines.length ≤ (insertLines st lines idx texts).length := by
  rw [insertLines_eq]
  simp only [List.length_append, fixLast_length, List.length_take, List.length_map, List.length_drop]
  omega

theorem insertLines_length_eq (st : Style) (lines : List Line) (idx : Nat) (texts : List Insertable)
    (h : idx ≤ lines.length) : (insertLines st lines idx texts).length = lines.length + texts.length :=
  (insertLines_spec st lines idx texts h).1

theorem insertLines_texts (st : Style) (lines : List Line) (idx : Nat) (texts : List Insertable) :
    (insertLines st lines idx texts).map (·.text) =
      (lines.take idx).map (·.text) ++ (texts.map (mkLine st)).map (·.text) ++ (lines.drop idx).map (·.text) := by
  rw [insertLines_eq, List.map_append, List.map_append, fixLast_text]

theorem insertLines_texts_sublist (st : Style) (lines : List Line) (idx : Nat) (texts : List Insertable) :
    (lines.map (·.text)).Sublist ((insertLines st lines idx texts).map (·.text)) := by
  rw [insertLines_texts]
  have e : lines.map (·.text) = (lines.take idx).map (·.text) ++ (lines.drop idx).map (·.text) := by
    rw [← List.map_append, List.take_append_drop]
  rw [e, List.append_assoc]
  exact List.Sublist.append (List.Sublist.refl _) (List.sublist_append_right _ _)

theorem modifyLine_length (lines : List Line) (i : Nat) (f : Bytes → Bytes) :
    (modifyLine lines i f).length = lines.length :=
  (modifyLine_spec lines i f).1

/-! ## the creators -/

theorem ptr_bound (file : Bytes) (rs : List Record) (bos : List BlockOut)
    (hp : parseDoc file = .records rs bos) (i : Nat) :
    (match bos[i]? with | some bo => indexOfLastSignificantLine bo.first bo.lines | none => 0) ≤
      (blocksOf file).flatten.length := by
  obtain ⟨p1, p2, p3, p4⟩ := parseDoc_records file rs bos hp
  cases hbo : bos[i]? with
  | none => exact Nat.zero_le _
  | some bo =>
    dsimp only
    have hbo' := hbo
    rw [p1] at hbo'
    obtain ⟨c1, c2⟩ := blockOuts_getElem? _ _ _ hbo'
    obtain ⟨hsplit, hlen⟩ := list_split_at _ _ _ c1
    rw [c2]
    exact ptr_le file _ _ _ hsplit

/-- The reconciler at an existing record: all lines of the file, unchanged; the pointer is within
them and behind the headline and all entry lines of the record. -/
theorem atRecord_facts (file : Bytes) (rs : List Record) (bos : List BlockOut)
    (hp : parseDoc file = .records rs bos) (d : Date) (r : Reconciler)
    (h : reconcilerAtRecord d rs bos = some r) :
    r.lines = (blocksOf file).flatten ∧ r.lastLine ≤ r.lines.length ∧
      countLines r.record.entries + 1 ≤ r.lastLine := by
  obtain ⟨p1, p2, p3, p4⟩ := parseDoc_records file rs bos hp
  have hlen : rs.length = bos.length := by
    have := congrArg List.length p3
    simp only [List.length_map] at this
    omega
  rcases reconcilerAtRecord_cases d rs bos hlen with ⟨h0, _⟩ | ⟨r0, bo, i, _, hr, hb, he⟩
  · rw [h0] at h; cases h
  · rw [he] at h
    simp only [Option.some.injEq] at h
    subst h
    dsimp only
    have hb' := ptr_bound file rs bos hp i
    rw [hb] at hb'
    dsimp only at hb'
    refine ⟨by rw [p3], by rw [p3]; exact hb', ?_⟩
    have hbo' := hb
    rw [p1] at hbo'
    obtain ⟨c1, _⟩ := blockOuts_getElem? _ _ _ hbo'
    have hpb : parseBlock bo.lines = .record r0 := by
      have := congrArg (fun l => l[i]?) p2
      simp only [List.getElem?_map, c1, hr, Option.map_some, Option.some.injEq] at this
      exact this
    have := parseBlock_count _ _ hpb
    unfold indexOfLastSignificantLine
    generalize significant bo.lines = sg at this ⊢
    obtain ⟨sig, head, tl⟩ := sg
    dsimp only at this ⊢
    omega

/-- The reconciler for a new record: one splice into all lines of the file. -/
theorem newRecord_facts (file : Bytes) (rs : List Record) (bos : List BlockOut)
    (hp : parseDoc file = .records rs bos) (date : Date) (fmt : Reformat Bool) (ad : AdditionalData) :
    ∃ (st : Style) (idx : Nat) (texts : List Insertable), idx ≤ (blocksOf file).flatten.length ∧
      (reconcilerForNewRecord date fmt ad rs bos).lines = insertLines st (blocksOf file).flatten idx texts ∧
      (reconcilerForNewRecord date fmt ad rs bos).lastLine ≤ (reconcilerForNewRecord date fmt ad rs bos).lines.length := by
  obtain ⟨p1, p2, p3, p4⟩ := parseDoc_records file rs bos hp
  have hb := ptr_bound file rs bos hp
  unfold reconcilerForNewRecord
  dsimp only
  rw [p3]
  cases hrs : rs.isEmpty with
  | true =>
    simp only [if_true]
    refine ⟨_, 0, _, Nat.zero_le _, rfl, ?_⟩
    show 1 ≤ (insertLines _ _ 0 _).length
    rw [insertLines_length_eq _ _ _ _ (Nat.zero_le _)]
    simp only [List.length_cons, List.length_map]
    omega
  | false =>
    simp only [Bool.false_eq_true, if_false]
    cases newRecordPosition date 0 rs with
    | none =>
      dsimp only
      refine ⟨_, 0, _, Nat.zero_le _, rfl, ?_⟩
      show 1 ≤ (insertLines _ _ 0 _).length
      rw [insertLines_length_eq _ _ _ _ (Nat.zero_le _)]
      simp only [List.length_cons, List.length_map, List.length_append]
      omega
    | some i =>
      dsimp only
      have hbi := hb i
      cases hbo : bos[i]? with
      | none =>
        dsimp only
        refine ⟨_, 0, _, Nat.zero_le _, rfl, ?_⟩
        show 0 + 2 ≤ (insertLines (elect {} rs (blocksOf file)) (blocksOf file).flatten 0 _).length
        rw [insertLines_length_eq _ _ _ _ (Nat.zero_le _)]
        simp only [List.length_cons, List.length_map]
        omega
      | some bo =>
        rw [hbo] at hbi
        dsimp only at hbi ⊢
        refine ⟨_, _, _, hbi, rfl, ?_⟩
        show _ + 2 ≤ (insertLines (elect {} rs (blocksOf file)) (blocksOf file).flatten _ _).length
        rw [insertLines_length_eq _ _ _ _ hbi]
        simp only [List.length_cons, List.length_map]
        omega

theorem firstCreator_two (a b : Option Reconciler) (r : Reconciler) (h : firstCreator [a, b] = some r) :
    a = some r ∨ b = some r := by
  unfold firstCreator at h
  cases a with
  | some x => left; simpa [List.findSome?] using h
  | none =>
    cases b with
    | some y => right; simpa [List.findSome?] using h
    | none => simp [List.findSome?] at h

/-! ## a successful run -/

theorem reconcileFile_ok (file file' : Bytes) (creators : List Record → List BlockOut → Option Reconciler)
    (steps : List (Reconciler → Res Reconciler)) (h : (reconcileFile file creators steps).1 = .ok file') :
    ∃ rs bos r0 r, parseDoc file = .records rs bos ∧ creators rs bos = some r0 ∧
      steps.foldl (fun (acc : Res Reconciler) st => acc.bind st) (Res.ok r0) = .ok r ∧
      file' = joinLines r.lines := by
  unfold reconcileFile at h
  split at h
  · cases h
  · cases h
  · rename_i rs bos hp
    split at h
    · cases h
    · rename_i r0 hc
      split at h
      · cases h
      · cases h
      · rename_i r hf
        split at h
        · rename_i text rec hm
          simp only [CmdOut.ok.injEq] at h
          subst h
          exact ⟨rs, bos, r0, r, hp, hc, hf, makeResult_text r _ rec hm⟩
        · cases h
        · cases h

theorem optRes_ok {α} (o : Option α) (a : α) (h : optRes o = .ok a) : o = some a := by
  cases o with
  | none => cases h
  | some x => simp only [optRes, Res.ok.injEq] at h; rw [h]

/-! ## the steps -/

theorem appendPause_spec (u : UTab) (r r' : Reconciler) (summary : List Bytes) (tags : Bool)
    (h : r.appendPause u summary tags = some r') : ∃ entry, r.appendEntry entry = some r' := by
  unfold Reconciler.appendPause at h
  split at h
  · cases h
  · exact ⟨_, h⟩

theorem findLastIdx_lt {α} (p : α → Bool) (xs : List α) (i : Nat) (h : findLastIdx p xs = some i) :
    i < xs.length := by
  unfold findLastIdx at h
  cases hl : (xs.zipIdx.filter (fun (x, _) => p x)).getLast? with
  | none => rw [hl] at h; cases h
  | some q =>
    rw [hl] at h
    simp only [Option.map_some, Option.some.injEq] at h
    have hm := List.mem_of_getLast? hl
    have hm2 := (List.mem_filter.mp hm).1
    obtain ⟨x, j⟩ := q
    simp only at h
    subst h
    have := List.mem_zipIdx_iff_getElem?.mp hm2
    exact (List.getElem?_eq_some_iff.mp this).1

/-- `closeOpenRange`: two rewrites and possibly one splice, which lies within the lines if the
pointer does and is behind the record's entry lines. -/
theorem closeOpenRange_facts (r r' : Reconciler) (e : Time) (fmt : Reformat Bool) (add : List Bytes)
    (h : r.closeOpenRange e fmt add = some r')
    (hl : r.lastLine ≤ r.lines.length) (hc : countLines r.record.entries + 1 ≤ r.lastLine) :
    ∃ (v s : Nat) (f g : Bytes → Bytes), r'.lastLine = r.lastLine ∧
      (r'.lines = modifyLine (modifyLine r.lines v f) s g ∨
       ∃ texts, r'.lines = insertLines r.style (modifyLine (modifyLine r.lines v f) s g) (s + 1) texts ∧
         s + 1 ≤ (modifyLine (modifyLine r.lines v f) s g).length) := by
  unfold Reconciler.closeOpenRange at h
  dsimp only at h
  cases hf : findOpenRangeIndex r.record with
  | none => simp [hf] at h
  | some oi =>
    cases he : endOpenRange e r.record.entries with
    | none => simp [hf, he] at h
    | some es =>
      simp only [hf, he] at h
      rcases add with _ | ⟨a0, _ | ⟨x, xs⟩⟩
      · cases h
        refine ⟨r.lastLine - countLines (r.record.entries.drop oi),
          r.lastLine - countLines (r.record.entries.drop oi),
          (fun t => replaceQuestionMarks t (bytesOfChars (match fmt.pick r.style.time24.1 with
            | some is24 => ({ e with is24 := is24 }).print
            | none => e.print))), fun t => t, rfl, Or.inl ?_⟩
        dsimp only
        exact (modifyLine_id _ _ (fun t => t) (fun t => rfl)).symm
      · dsimp only at h
        simp only [List.isEmpty_nil, if_true] at h
        cases h
        refine' ⟨_, _, _, _, rfl, Or.inl _⟩
        all_goals try (dsimp only; rfl)
      · dsimp only at h
        simp only [List.isEmpty_cons, Bool.false_eq_true, if_false] at h
        cases h
        refine' ⟨_, _, _, _, rfl, Or.inr ⟨_, _, _⟩⟩
        all_goals try (dsimp only [Reconciler.insert]; rfl)
        rw [modifyLine_length, modifyLine_length]
        have hoi : oi < r.record.entries.length := findLastIdx_lt _ _ _ hf
        have hs := endOpenRange_summary e _ _ he
        have hs' := congrArg (fun l => l[oi]?) hs
        simp only [List.getElem?_map] at hs'
        have h1 := countLines_drop_le r.record.entries oi
        rw [List.getElem?_eq_getElem hoi] at hs'
        have h2 := countLines_drop_ge r.record.entries oi _ (List.getElem?_eq_getElem hoi)
        cases hes : es[oi]? with
        | none => rw [hes] at hs'; cases hs'
        | some en =>
          rw [hes] at hs'
          simp only [Option.map_some, Option.some.injEq] at hs'
          dsimp only
          rw [← hs'] at h2
          omega

end KlogV.CommandEditsLemmas
