import KlogV.Model.ConfigFile
import KlogV.Lemmas.Totality
import KlogV.Lemmas.ConfigFile1
import KlogV.Lemmas.ConfigFile2
namespace KlogV
open KlogV.ConfigLemmas

theorem iniGet_append_same (es : List (Bytes × Bytes)) (key : String) (v : Bytes) :
    iniGet (es ++ [(bytesOf key, v)]) key = v := by
  unfold iniGet
  rw [List.reverse_append]
  simp

theorem iniGet_append_other (es : List (Bytes × Bytes)) (key : String) (k v : Bytes) (h : k ≠ bytesOf key) :
    iniGet (es ++ [(k, v)]) key = iniGet es key := by
  have hk : (k == bytesOf key) = false := by simpa using h
  unfold iniGet
  rw [List.reverse_append]
  simp only [List.reverse_cons, List.reverse_nil, List.nil_append, List.singleton_append, List.find?_cons, hk]

theorem applyConfigFile_spec (text : Bytes) (c c' : AppConfig) (h : applyConfigFile text c = .ok c') :
    ∃ es, iniEntries text = some es ∧
      (c'.dateDashes = (if iniGet es "date_format" = [] then c.dateDashes
          else if iniGet es "date_format" = bytesOf "YYYY-MM-DD" then some true else some false) ∧
        (iniGet es "date_format" = [] ∨ iniGet es "date_format" = bytesOf "YYYY-MM-DD" ∨ iniGet es "date_format" = bytesOf "YYYY/MM/DD")) ∧
      (c'.time24 = (if iniGet es "time_convention" = [] then c.time24
          else if iniGet es "time_convention" = bytesOf "24h" then some true else some false) ∧
        (iniGet es "time_convention" = [] ∨ iniGet es "time_convention" = bytesOf "24h" ∨ iniGet es "time_convention" = bytesOf "12h")) ∧
      (if iniGet es "default_rounding" = [] then c'.rounding = c.rounding
        else ∃ n, c'.rounding = some n ∧ parseRounding (decodeGo (iniGet es "default_rounding")) = some n ∧ n ∈ [5, 10, 12, 15, 20, 30, 60]) ∧
      (if iniGet es "default_should_total" = [] then c'.should = c.should
        else ∃ d, c'.should = some d.mins ∧
          Dur.parse (decodeGo (if (iniGet es "default_should_total").getLast? = some 33 then (iniGet es "default_should_total").dropLast
            else iniGet es "default_should_total")) = .ok d) ∧
      (c'.editor = if iniGet es "editor" = [] then c.editor else some (iniGet es "editor")) ∧
      c'.cpus = c.cpus := by
  rw [applyConfigFile_eq] at h
  split at h
  · cases h
  · rename_i es hes
    obtain ⟨h1, h2, h3, h4, h5, h6⟩ := afterEditor_ok es _ c' h
    obtain ⟨w1, w2, w3, w4, w5, _, _⟩ := withEditor_rest es c
    rw [w4] at h1
    rw [w5] at h2
    rw [w2] at h3
    rw [w3] at h4
    rw [withEditor_editor] at h5
    rw [w1] at h6
    exact ⟨es, hes, h1, h2, h3, h4, h5, h6⟩

theorem newConfig_env (cpus : Nat) (env : EnvVars) (text : Bytes) (c : AppConfig) (h : applyConfigFile text { cpus := cpus } = .ok c) :
    newConfig cpus env text = .ok { c with colour := if env.noColor then .noColour else c.colour,
                                           editor := match env.editor with | some e => some e | none => c.editor } := by
  unfold newConfig
  rw [h]
  cases env.noColor <;> cases env.editor <;> rfl

theorem applyConfigFile_panic (text : Bytes) (c : AppConfig) (h : applyConfigFile text c = .panic) :
    ∃ es, iniEntries text = some es ∧ HasLongDigitRun (decodeGo (iniGet es "default_should_total")) := by
  rw [applyConfigFile_eq] at h
  split at h
  · cases h
  · rename_i es hes
    exact ⟨es, hes, afterEditor_panic es _ h⟩

theorem iniEntries_single (key value : Bytes)
    (hk : key ≠ [] ∧ ∀ b ∈ key, b ≠ SP ∧ b ≠ TAB ∧ b ≠ 61 ∧ b ≠ LF ∧ b ≠ CR) (hk0 : key.head? ≠ some 35 ∧ key.head? ≠ some 91)
    (hv : value.head? ≠ some SP ∧ ∀ b ∈ value, b ≠ LF ∧ b ≠ CR) :
    iniEntries (key ++ [SP, 61, SP] ++ value ++ [LF]) = some [(key, value)] :=
  iniEntries_single' key value hk hk0 hv.2

theorem newConfig_defaults (cpus : Nat) : newConfig cpus {} [] = .ok { cpus := cpus } := rfl

theorem parseRounding_mem (s : List Char) (n : Nat) (h : parseRounding s = some n) : n ∈ [5, 10, 12, 15, 20, 30, 60] := parseRounding_mem' s n h

end KlogV
