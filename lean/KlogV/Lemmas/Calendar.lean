/-
Lemmas about the calendar model (KlogV/Model/Calendar.lean), used by KlogV/Props/C15.lean.
The proofs live in three parts:
  Calendar1 — day numbers, nextDay/prevDay, plusDays, injectivity/range, weekday, quarter
  Calendar2 — ISO week, week/month/quarter/year periods
  Calendar3 — bucket keys and hashes, previous periods, same-period characterisation, patterns
-/
import KlogV.Lemmas.Calendar1
import KlogV.Lemmas.Calendar2
import KlogV.Lemmas.Calendar3
