/- Lemmas about clock-relative behaviour: rounding, `atTime` (for Props/C17). -/
import KlogV.Model.Commands
import KlogV.Lemmas.Values
import KlogV.Lemmas.Eval
namespace KlogV

/-- The time that start/stop use when none is given. -/
def autoTime (a : AtArgs) (now : Instant) (cfg : Config) : Time :=
  match a.round with
  | some r => roundToNearest now.time r
  | none => match cfg.rounding with
    | some r => roundToNearest now.time r
    | none => now.time

namespace ClockLemmas

theorem offset_unshifted (h mi : Nat) (b : Bool) :
    (⟨h, mi, 0, b⟩ : Time).offset = (h : Int) * 60 + mi := by
  simp [Time.offset]

theorem midnight_wf : (⟨0, 0, 0, true⟩ : Time).wf = true := by decide

theorem midnight_offset : (⟨0, 0, 0, true⟩ : Time).offset = 0 := by decide

/-- the amount `roundToNearest` adds to midnight -/
def roundSum (t : Time) (v : Nat) : Int :=
  t.offset - t.offset % v + (if t.offset % v ≥ ((v / 2 + v % 2 : Nat) : Int) then (v : Int) else 0)

theorem roundToNearest_eq (t : Time) (v : Nat) :
    roundToNearest t v =
      match (⟨0, 0, 0, true⟩ : Time).plus (roundSum t v) with
      | some r => r
      | none => ⟨23, 59, 1, true⟩ := rfl

theorem round_in_range (t : Time) (v : Nat) (h0 : 0 ≤ roundSum t v) (h1 : roundSum t v ≤ 1440) :
    (roundToNearest t v).wf = true ∧ (roundToNearest t v).offset = roundSum t v := by
  obtain ⟨r, hr, hwf, hoff, _⟩ :=
    (Time.plus_spec ⟨0, 0, 0, true⟩ (roundSum t v) midnight_wf).mpr
      ⟨by rw [midnight_offset]; omega, by rw [midnight_offset]; omega⟩
  rw [roundToNearest_eq, hr]
  refine ⟨hwf, ?_⟩
  rw [hoff, midnight_offset]; omega

theorem roundSum_nonneg (t : Time) (v : Nat) (h : 0 ≤ t.offset) : 0 ≤ roundSum t v := by
  unfold roundSum
  have e : t.offset - t.offset % (v : Int) = (v : Int) * (t.offset / (v : Int)) := by
    rw [Int.emod_def]; omega
  rw [e]
  have h1 : 0 ≤ (v : Int) * (t.offset / (v : Int)) :=
    Int.mul_nonneg (by omega) (Int.ediv_nonneg h (by omega))
  split <;> omega

theorem roundToNearest_offset_nonneg (t : Time) (v : Nat) (h : 0 ≤ t.offset) :
    0 ≤ (roundToNearest t v).offset := by
  have h0 := roundSum_nonneg t v h
  rw [roundToNearest_eq]
  by_cases c : roundSum t v < 2880
  · obtain ⟨r, hr, _, hoff, _⟩ :=
      (Time.plus_spec ⟨0, 0, 0, true⟩ (roundSum t v) midnight_wf).mpr
        ⟨by rw [midnight_offset]; omega, by rw [midnight_offset]; omega⟩
    rw [hr]
    show 0 ≤ r.offset
    rw [hoff, midnight_offset]; omega
  · have hn : (⟨0, 0, 0, true⟩ : Time).plus (roundSum t v) = none := by
      rw [Time.plus_none _ _ midnight_wf, midnight_offset]; omega
    rw [hn]
    decide

theorem now_offset_nonneg (now : Instant) : 0 ≤ now.time.offset := by
  unfold Instant.time
  rw [offset_unshifted]; omega

theorem autoTime_offset_nonneg (a : AtArgs) (now : Instant) (cfg : Config) :
    0 ≤ (autoTime a now cfg).offset := by
  unfold autoTime
  cases a.round with
  | some r => exact roundToNearest_offset_nonneg _ _ (now_offset_nonneg now)
  | none =>
    cases cfg.rounding with
    | some r => exact roundToNearest_offset_nonneg _ _ (now_offset_nonneg now)
    | none => exact now_offset_nonneg now

theorem atTime_eq (a : AtArgs) (now : Instant) (cfg : Config) (date y tm : Date)
    (hn : a.time = none) (hd : atDate a.date now.date = some date)
    (hy : now.date.plusDays (-1) = some y) (ht : now.date.plusDays 1 = some tm) :
    atTime a now cfg =
      if now.date.sameDay date then .ok (autoTime a now cfg)
      else if y.sameDay date then
        (match (autoTime a now cfg).plus 1440 with | some s => .ok s | none => .err)
      else if tm.sameDay date then
        (match (autoTime a now cfg).plus (-1440) with | some s => .ok s | none => .err)
      else .err := by
  cases hr : a.round <;> cases hc : cfg.rounding <;>
    simp only [atTime, hn, hd, hy, ht, autoTime, hr, hc] <;>
    generalize Time.plus _ 1440 = p <;> generalize Time.plus _ (-1440) = q <;>
    cases p <;> cases q <;> rfl

end ClockLemmas

open ClockLemmas

theorem roundToNearest_spec (m v : Nat) (hm : m < 1440)
    (hv : v = 5 ∨ v = 10 ∨ v = 12 ∨ v = 15 ∨ v = 20 ∨ v = 30 ∨ v = 60) :
    let t := roundToNearest ⟨m / 60, m % 60, 0, true⟩ v
    t.wf = true ∧ t.offset % v = 0 ∧ 2 * (t.offset - m) ≤ v ∧ 2 * ((m : Int) - t.offset) < v := by
  intro t
  have hoff : (⟨m / 60, m % 60, 0, true⟩ : Time).offset = m := by
    rw [offset_unshifted]; omega
  have hs : (((m : Int) % v ≥ ((v / 2 + v % 2 : Nat) : Int)) ∧
        roundSum ⟨m / 60, m % 60, 0, true⟩ v = m - (m : Int) % v + v) ∨
      (((m : Int) % v < ((v / 2 + v % 2 : Nat) : Int)) ∧
        roundSum ⟨m / 60, m % 60, 0, true⟩ v = m - (m : Int) % v) := by
    unfold roundSum
    rw [hoff]
    by_cases c : (m : Int) % v ≥ ((v / 2 + v % 2 : Nat) : Int)
    · left; refine ⟨c, ?_⟩; rw [if_pos c]
    · right; refine ⟨by omega, ?_⟩; rw [if_neg c]; omega
  have key : 0 ≤ roundSum ⟨m / 60, m % 60, 0, true⟩ v ∧ roundSum ⟨m / 60, m % 60, 0, true⟩ v ≤ 1440 ∧
      roundSum ⟨m / 60, m % 60, 0, true⟩ v % v = 0 ∧
      2 * (roundSum ⟨m / 60, m % 60, 0, true⟩ v - m) ≤ v ∧
      2 * ((m : Int) - roundSum ⟨m / 60, m % 60, 0, true⟩ v) < v := by
    generalize roundSum ⟨m / 60, m % 60, 0, true⟩ v = s at hs
    rcases hv with rfl | rfl | rfl | rfl | rfl | rfl | rfl <;> omega
  obtain ⟨k0, k1, k2, k3, k4⟩ := key
  obtain ⟨hwf, ho⟩ := round_in_range ⟨m / 60, m % 60, 0, true⟩ v k0 k1
  show t.wf = true ∧ t.offset % v = 0 ∧ 2 * (t.offset - m) ≤ v ∧ 2 * ((m : Int) - t.offset) < v
  have ht : t.offset = roundSum ⟨m / 60, m % 60, 0, true⟩ v := ho
  rw [ht]
  exact ⟨hwf, k2, k3, k4⟩

theorem atTime_explicit (a : AtArgs) (now : Instant) (cfg : Config) (t : Time) (h : a.time = some t) :
    atTime a now cfg = .ok t := by
  simp only [atTime, h]

theorem atTime_auto (a : AtArgs) (now : Instant) (cfg : Config) (date y tm : Date)
    (hn : a.time = none) (hd : atDate a.date now.date = some date)
    (hy : now.date.plusDays (-1) = some y) (ht : now.date.plusDays 1 = some tm)
    (hw : (autoTime a now cfg).wf = true) :
    (now.date.sameDay date = true → atTime a now cfg = .ok (autoTime a now cfg)) ∧
    (now.date.sameDay date = false → y.sameDay date = true →
      ((autoTime a now cfg).offset + 1440 < 2880 →
        ∃ t, atTime a now cfg = .ok t ∧ t.wf = true ∧ t.offset = (autoTime a now cfg).offset + 1440) ∧
      (¬ (autoTime a now cfg).offset + 1440 < 2880 → atTime a now cfg = .err)) ∧
    (now.date.sameDay date = false → y.sameDay date = false → tm.sameDay date = true →
      ∃ t, atTime a now cfg = .ok t ∧ t.wf = true ∧ t.offset = (autoTime a now cfg).offset - 1440) ∧
    (now.date.sameDay date = false → y.sameDay date = false → tm.sameDay date = false →
      atTime a now cfg = .err) := by
  have he := atTime_eq a now cfg date y tm hn hd hy ht
  have h0 := autoTime_offset_nonneg a now cfg
  have hub : (autoTime a now cfg).offset < 2880 := by
    have := Time.offset_spec _ hw
    rw [Time.wf_iff] at hw
    omega
  refine ⟨?_, ?_, ?_, ?_⟩
  · intro h1
    rw [he, h1]; rfl
  · intro h1 h2
    rw [he, h1, h2]
    refine ⟨?_, ?_⟩
    · intro hlt
      obtain ⟨r, hr, hwf, hoff, _⟩ :=
        (Time.plus_spec (autoTime a now cfg) 1440 hw).mpr ⟨by omega, hlt⟩
      exact ⟨r, by simp [hr], hwf, hoff⟩
    · intro hge
      have hnone : (autoTime a now cfg).plus 1440 = none := by
        rw [Time.plus_none _ _ hw]; omega
      simp [hnone]
  · intro h1 h2 h3
    rw [he, h1, h2, h3]
    obtain ⟨r, hr, hwf, hoff, _⟩ :=
      (Time.plus_spec (autoTime a now cfg) (-1440) hw).mpr ⟨by omega, by omega⟩
    exact ⟨r, by simp [hr], hwf, by rw [hoff]; omega⟩
  · intro h1 h2 h3
    rw [he, h1, h2, h3]; rfl

theorem atTime_no_panic (a : AtArgs) (now : Instant) (cfg : Config) (date y tm : Date)
    (hd : atDate a.date now.date = some date) (hy : now.date.plusDays (-1) = some y)
    (ht : now.date.plusDays 1 = some tm) :
    atTime a now cfg ≠ .panic := by
  cases hn : a.time with
  | some t => rw [atTime_explicit a now cfg t hn]; intro h; cases h
  | none =>
    rw [atTime_eq a now cfg date y tm hn hd hy ht]
    split
    · intro h; cases h
    · split
      · split <;> (intro h; cases h)
      · split
        · split <;> (intro h; cases h)
        · intro h; cases h

theorem autoTime_wf (a : AtArgs) (now : Instant) (cfg : Config) (hh : now.h < 24) (hm : now.min < 60)
    (hr : ∀ v, a.round = some v ∨ cfg.rounding = some v →
      v = 5 ∨ v = 10 ∨ v = 12 ∨ v = 15 ∨ v = 20 ∨ v = 30 ∨ v = 60) :
    (autoTime a now cfg).wf = true := by
  have hnow : now.time = ⟨(now.h * 60 + now.min) / 60, (now.h * 60 + now.min) % 60, 0, true⟩ := by
    unfold Instant.time
    have e1 : (now.h * 60 + now.min) / 60 = now.h := by omega
    have e2 : (now.h * 60 + now.min) % 60 = now.min := by omega
    rw [e1, e2]
  have hr' : ∀ v, (a.round = some v ∨ cfg.rounding = some v) → (roundToNearest now.time v).wf = true := by
    intro v hv
    rw [hnow]
    exact (roundToNearest_spec (now.h * 60 + now.min) v (by omega) (hr v hv)).1
  unfold autoTime
  cases h1 : a.round with
  | some r => exact hr' r (Or.inl h1)
  | none =>
    cases h2 : cfg.rounding with
    | some r => exact hr' r (Or.inr h2)
    | none =>
      show now.time.wf = true
      rw [Time.wf_iff]
      exact ⟨hh, hm, Or.inr (Or.inl rfl)⟩

end KlogV
