/- C01 lemmas, part 6: what the entries pass and the record parser accept conforms to the grammar (soundness). -/
import KlogV.Lemmas.Grammar5
namespace KlogV.GrammarLemmas
open KlogV

/-! ## errors only grow, a panic stays -/

theorem commit_errs (st : PState) : ∃ extra, st.commit.errs = st.errs ++ extra := by
  unfold PState.commit
  split
  · exact ⟨[], by simp⟩
  · split
    · exact ⟨_, rfl⟩
    · exact ⟨[], by simp⟩

/-- is the first character a blank? -/
def headBlank (s : List Char) : Bool :=
  match s with
  | c :: _ => isSpTab c
  | [] => false

/-- the state after the value of an entry line has been parsed -/
def stepV (st : PState) (nr : Nat) : ValueRes → PState
  | .panic => { st with panicked := true }
  | .bad pos len => { st with errs := st.errs ++ [⟨nr, pos, len, .malformedEntry⟩] }
  | .illegalRange pos len => { st with errs := st.errs ++ [⟨nr, pos, len, .illegalRange⟩] }
  | .ok v => { st with pending := some ⟨v.val, [firstOf v.rest], nr, v.startPos, v.spanLen⟩ }

theorem entryStepB_eq' (ind : List Char) (st : PState) (nr : Nat) (l : List Char) :
    entryStepB ind st nr l =
      if !ind.isPrefixOf l then
        { st with stopped := true, errs := st.errs ++ [⟨nr, 0, l.length, .illegalIndentation⟩] }
      else if headBlank (l.drop ind.length) then
        { st with stopped := true, errs := st.errs ++ [⟨nr, 0, l.length, .illegalIndentation⟩] }
      else stepV st nr (parseValue ind.length (l.drop ind.length)) := by
  unfold entryStepB stepV headBlank firstOf
  rfl

theorem entryStepB_errs (ind : List Char) (st : PState) (nr : Nat) (l : List Char) :
    (∃ extra, (entryStepB ind st nr l).errs = st.errs ++ extra) ∧
      (st.panicked = true → (entryStepB ind st nr l).panicked = true) := by
  rw [entryStepB_eq']
  split
  · exact ⟨⟨_, rfl⟩, fun h => h⟩
  · split
    · exact ⟨⟨_, rfl⟩, fun h => h⟩
    · cases parseValue (↑ind.length) (List.drop ind.length l) with
      | panic => exact ⟨⟨[], (List.append_nil _).symm⟩, fun _ => rfl⟩
      | bad pos len => exact ⟨⟨_, rfl⟩, fun h => h⟩
      | illegalRange pos len => exact ⟨⟨_, rfl⟩, fun h => h⟩
      | ok v => exact ⟨⟨[], (List.append_nil _).symm⟩, fun h => h⟩

theorem entryStep_errs (ind : List Char) (st : PState) (nr : Nat) (l : List Char) :
    (∃ extra, (entryStep ind st nr l).errs = st.errs ++ extra) ∧
      (st.panicked = true → (entryStep ind st nr l).panicked = true) := by
  rw [entryStep_eq]
  split
  · exact ⟨⟨[], by simp⟩, fun h => h⟩
  · split
    · split
      · exact ⟨⟨[], by simp⟩, fun h => h⟩
      · obtain ⟨y, hy⟩ := commit_errs st
        refine ⟨⟨y ++ [⟨nr, 0, l.length, .malformedSummary⟩], ?_⟩, fun h => ?_⟩
        · show st.commit.errs ++ _ = _
          rw [hy, List.append_assoc]
        · show st.commit.panicked = true
          rw [PState.commit_panicked]; exact h
    · obtain ⟨⟨x, hx⟩, hp⟩ := entryStepB_errs ind st.commit nr l
      obtain ⟨y, hy⟩ := commit_errs st
      refine ⟨⟨y ++ x, by rw [hx, hy, List.append_assoc]⟩, fun h => hp ?_⟩
      rw [PState.commit_panicked]; exact h

theorem entriesGo_errs (ind : List Char) (ls : List (List Char)) : ∀ (st : PState) (nr : Nat),
    (∃ extra, (entriesGo ind st nr ls).errs = st.errs ++ extra) ∧
      (st.panicked = true → (entriesGo ind st nr ls).panicked = true) := by
  induction ls with
  | nil =>
    intro st nr
    unfold entriesGo
    exact ⟨commit_errs st, fun h => by rw [PState.commit_panicked]; exact h⟩
  | cons l ls ih =>
    intro st nr
    unfold entriesGo
    obtain ⟨⟨x, hx⟩, hp⟩ := ih (entryStep ind st nr l) (nr + 1)
    obtain ⟨⟨y, hy⟩, hq⟩ := entryStep_errs ind st nr l
    exact ⟨⟨y ++ x, by rw [hx, hy, List.append_assoc]⟩, fun h => hp (hq h)⟩

theorem nil_of_append_nil {α} {a b c : List α} (h : c = a ++ b) (hc : c = []) : a = [] := by
  rw [hc] at h
  exact (List.append_eq_nil_iff.mp h.symm).1

theorem bool_false_of_imp {a b : Bool} (h : a = true → b = true) (hb : b = false) : a = false := by
  cases a
  · rfl
  · rw [h rfl] at hb; cases hb

/-! ## the invariant -/

def SInv (ind : List Char) (pre : List (List Char)) (st : PState) : Prop :=
  st.errs = [] ∧ st.stopped = false ∧ st.panicked = false ∧
  st.hasOpen = st.entries.any (fun e => isOpen e.val) ∧
  (st.entries.filter (fun e => isOpen e.val)).length ≤ 1 ∧
  ∃ A B, pre = A ++ B ∧ Spec.EntriesLines ind A st.entries ∧
    ((st.pending = none ∧ B = []) ∨ ∃ p, st.pending = some p ∧ Spec.EntryLines ind B ⟨p.val, p.summary⟩)

theorem entriesLines_snoc {ind : List Char} {A B : List (List Char)} {es : List Entry} {e : Entry}
    (h : Spec.EntriesLines ind A es) (he : Spec.EntryLines ind B e) : Spec.EntriesLines ind (A ++ B) (es ++ [e]) := by
  induction h with
  | nil =>
    have := Spec.EntriesLines.cons B [] e [] he Spec.EntriesLines.nil
    simpa using this
  | cons ls rest e' es' he' _ ih =>
    have := Spec.EntriesLines.cons ls (rest ++ B) e' (es' ++ [e]) he' ih
    simpa using this

theorem forall2_snoc {α β : Type} {R : α → β → Prop} {as : List α} {bs : List β} {a : α} {b : β}
    (h : Spec.Forall2 R as bs) (hab : R a b) : Spec.Forall2 R (as ++ [a]) (bs ++ [b]) := by
  induction h with
  | nil => exact Spec.Forall2.cons hab Spec.Forall2.nil
  | cons h' _ ih => exact Spec.Forall2.cons h' ih

theorem entryLines_snoc {ind : List Char} {B : List (List Char)} {e : Entry} {l text : List Char}
    (h : Spec.EntryLines ind B e) (hc : Spec.ContLine ind l text) :
    Spec.EntryLines ind (B ++ [l]) ⟨e.val, e.summary ++ [text]⟩ := by
  cases h with
  | mk vs v first sepOpt conts texts hv hsep hf =>
    exact Spec.EntryLines.mk vs v first sepOpt (conts ++ [l]) (texts ++ [text]) hv hsep (forall2_snoc hf hc)

theorem commit_sound {ind : List Char} {pre : List (List Char)} {st : PState} (h : SInv ind pre st)
    (he : st.commit.errs = []) : SInv ind pre st.commit ∧ st.commit.pending = none := by
  obtain ⟨h1, h2, h3, h4, h5, A, B, hpre, hA, hB⟩ := h
  unfold PState.commit at he ⊢
  split
  · rename_i hp
    exact ⟨⟨h1, h2, h3, h4, h5, A, B, hpre, hA, hB⟩, hp⟩
  · rename_i p hp
    rw [hp] at he
    rcases hB with ⟨hn, _⟩ | ⟨p', hp', hB⟩
    · rw [hn] at hp; cases hp
    · rw [hp] at hp'
      simp only [Option.some.injEq] at hp'
      subst hp'
      dsimp only at he
      split
      · rename_i hdup
        rw [if_pos hdup] at he
        simp at he
      · rename_i hdup
        refine ⟨⟨h1, h2, h3, ?_, ?_, A ++ B, [], by simpa using hpre, entriesLines_snoc hA hB, Or.inl ⟨rfl, rfl⟩⟩, rfl⟩
        · simp only [List.any_append, List.any_cons, List.any_nil, Bool.or_false, h4]
        · simp only [List.filter_append, List.length_append]
          cases ho : isOpen p.val with
          | false =>
            have : List.filter (fun e => isOpen e.val) [(⟨p.val, p.summary⟩ : Entry)] = [] := by
              simp [ho]
            rw [this]; simpa using h5
          | true =>
            have hno : st.hasOpen = false := by
              cases hh : st.hasOpen with
              | false => rfl
              | true => simp [ho, hh] at hdup
            rw [h4] at hno
            have : List.filter (fun e => isOpen e.val) st.entries = [] := by
              rw [List.filter_eq_nil_iff]
              intro x hx hxo
              have : st.entries.any (fun e => isOpen e.val) = true := List.any_eq_true.mpr ⟨x, hx, hxo⟩
              rw [hno] at this; cases this
            rw [this]
            simp only [List.length_nil, Nat.zero_add]
            exact List.length_filter_le _ _

theorem rest_sep {rest : List Char} (h : TailOK rest) :
    ∃ sepOpt first, rest = sepOpt ++ first ∧ firstOf rest = first ∧
      ((sepOpt = [] ∧ first = []) ∨ (∃ b, sepOpt = [b] ∧ Spec.Blank b)) := by
  rcases h with rfl | ⟨c, r, rfl, hc⟩
  · exact ⟨[], [], rfl, rfl, Or.inl ⟨rfl, rfl⟩⟩
  · exact ⟨[c], r, rfl, by simp [firstOf, hc], Or.inr ⟨c, rfl, (blank_iff c).mpr hc⟩⟩

theorem entryStepB_ok {ind : List Char} {st : PState} {nr : Nat} {l : List Char}
    (he : (entryStepB ind st nr l).errs = []) (hpan : (entryStepB ind st nr l).panicked = false) :
    ∃ s v, l = ind ++ s ∧ parseValue ind.length s = .ok v ∧
      entryStepB ind st nr l = { st with pending := some ⟨v.val, [firstOf v.rest], nr, v.startPos, v.spanLen⟩ } := by
  rw [entryStepB_eq'] at he hpan ⊢
  by_cases hpre : (!ind.isPrefixOf l) = true
  · rw [if_pos hpre] at he; simp at he
  · rw [if_neg hpre] at he hpan ⊢
    simp only [Bool.not_eq_true, Bool.not_eq_false'] at hpre
    obtain ⟨s, hs⟩ := List.isPrefixOf_iff_prefix.mp hpre
    have hdrop : l.drop ind.length = s := by rw [← hs, List.drop_left]
    rw [hdrop] at he hpan ⊢
    by_cases hb : headBlank s = true
    · rw [if_pos hb] at he; simp at he
    · rw [if_neg hb] at he hpan ⊢
      cases hv : parseValue ind.length s with
      | panic => rw [hv] at hpan; simp [stepV] at hpan
      | bad pos len => rw [hv] at he; simp [stepV] at he
      | illegalRange pos len => rw [hv] at he; simp [stepV] at he
      | ok v => exact ⟨s, v, hs.symm, hv, rfl⟩

/-- the branch of `entryStep` that starts a new entry -/
theorem entryStepB_sound {ind : List Char} {A : List (List Char)} {st : PState} {nr : Nat} {l : List Char}
    (h : SInv ind A st) (hA : Spec.EntriesLines ind A st.entries)
    (he : (entryStepB ind st nr l).errs = []) (hpan : (entryStepB ind st nr l).panicked = false) :
    SInv ind (A ++ [l]) (entryStepB ind st nr l) := by
  obtain ⟨h1, h2, h3, h4, h5, _⟩ := h
  obtain ⟨s, v, hs, hv, hE⟩ := entryStepB_ok he hpan
  rw [hE]
  obtain ⟨vs, e1, hval, htail⟩ := parseValue_sound hv
  obtain ⟨sepOpt, first, e2, e3, hsep⟩ := rest_sep htail
  refine ⟨h1, h2, h3, h4, h5, A, [l], rfl, hA, Or.inr ⟨_, rfl, ?_⟩⟩
  have hl : l = ind ++ vs ++ sepOpt ++ first := by rw [hs, e1, e2]; simp
  have := Spec.EntryLines.mk (ind := ind) vs v.val first sepOpt [] [] hval hsep Spec.Forall2.nil
  rw [← hl] at this
  dsimp only
  rw [e3]
  exact this

theorem ok_contLine {ind l : List Char} (hpre : (ind ++ ind).isPrefixOf l = true)
    (hok : okEntrySummaryCont (l.drop (ind ++ ind).length) = true) :
    Spec.ContLine ind l (l.drop (ind ++ ind).length) := by
  obtain ⟨s, hs⟩ := List.isPrefixOf_iff_prefix.mp hpre
  have hdrop : l.drop (ind ++ ind).length = s := by rw [← hs, List.drop_left]
  rw [hdrop] at hok ⊢
  unfold okEntrySummaryCont at hok
  simp only [Bool.and_eq_true, Bool.not_eq_true', List.isEmpty_eq_false_iff] at hok
  refine ⟨hs.symm, hok.1, ?_⟩
  have := hok.2
  rw [List.all_eq_false] at this
  obtain ⟨c, hc, hz⟩ := this
  exact ⟨c, hc, by simpa using hz⟩

theorem entryStep_cases (ind : List Char) (st : PState) (nr : Nat) (l : List Char)
    (hsp : (st.stopped || st.panicked) = false) :
    (∃ p, st.pending = some p ∧ (ind ++ ind).isPrefixOf l = true ∧
      entryStep ind st nr l =
        if okEntrySummaryCont (l.drop (ind ++ ind).length) then
          { st with pending := some { p with summary := p.summary ++ [l.drop (ind ++ ind).length] } }
        else { st.commit with errs := st.commit.errs ++ [⟨nr, 0, l.length, .malformedSummary⟩] }) ∨
    entryStep ind st nr l = entryStepB ind st.commit nr l := by
  rw [entryStep_eq]
  simp only [hsp, Bool.false_eq_true, if_false]
  split
  · rename_i p hp hdbl
    exact Or.inl ⟨p, hp, hdbl, rfl⟩
  · exact Or.inr rfl

theorem entryStep_sound {ind : List Char} {pre : List (List Char)} {st : PState} {nr : Nat} {l : List Char}
    (h : SInv ind pre st) (he : (entryStep ind st nr l).errs = []) (hpan : (entryStep ind st nr l).panicked = false) :
    SInv ind (pre ++ [l]) (entryStep ind st nr l) := by
  have h' := h
  obtain ⟨h1, h2, h3, h4, h5, A, B, hpre, hA, hB⟩ := h
  have hsp : (st.stopped || st.panicked) = false := by rw [h2, h3]; rfl
  rcases entryStep_cases ind st nr l hsp with ⟨p, hp, hdbl, hE⟩ | hE
  · rw [hE] at he ⊢
    rcases hB with ⟨hn, _⟩ | ⟨p', hp', hB⟩
    · rw [hn] at hp; cases hp
    · rw [hp] at hp'
      simp only [Option.some.injEq] at hp'
      subst hp'
      by_cases hok : okEntrySummaryCont (l.drop (ind ++ ind).length) = true
      · rw [if_pos hok]
        refine ⟨h1, h2, h3, h4, h5, A, B ++ [l], by rw [hpre, List.append_assoc], hA, Or.inr ⟨_, rfl, ?_⟩⟩
        exact entryLines_snoc hB (ok_contLine hdbl hok)
      · rw [if_neg hok] at he
        simp at he
  · rw [hE] at he hpan ⊢
    obtain ⟨⟨x, hx⟩, _⟩ := entryStepB_errs ind st.commit nr l
    have hce : st.commit.errs = [] := nil_of_append_nil hx he
    obtain ⟨hc, hcp⟩ := commit_sound h' hce
    have hc' := hc
    obtain ⟨_, _, _, _, _, A', B', hpre', hA', hB'⟩ := hc'
    rcases hB' with ⟨_, rfl⟩ | ⟨p, hp, _⟩
    · rw [List.append_nil] at hpre'
      subst hpre'
      exact entryStepB_sound hc hA' he hpan
    · rw [hcp] at hp; cases hp

theorem entriesGo_sound {ind : List Char} (ls : List (List Char)) : ∀ (pre : List (List Char)) (st : PState) (nr : Nat),
    SInv ind pre st → (entriesGo ind st nr ls).errs = [] → (entriesGo ind st nr ls).panicked = false →
    Spec.EntriesLines ind (pre ++ ls) (entriesGo ind st nr ls).entries ∧
      ((entriesGo ind st nr ls).entries.filter (fun e => isOpen e.val)).length ≤ 1 := by
  induction ls with
  | nil =>
    intro pre st nr h he _
    unfold entriesGo at he ⊢
    obtain ⟨hc, hcp⟩ := commit_sound h he
    obtain ⟨_, _, _, _, h5, A, B, hpre, hA, hB⟩ := hc
    rcases hB with ⟨_, rfl⟩ | ⟨p, hp, _⟩
    · rw [List.append_nil] at hpre ⊢
      subst hpre
      exact ⟨hA, h5⟩
    · rw [hcp] at hp; cases hp
  | cons l ls ih =>
    intro pre st nr h he hpan
    unfold entriesGo at he hpan ⊢
    obtain ⟨⟨x, hx⟩, hq⟩ := entriesGo_errs ind ls (entryStep ind st nr l) (nr + 1)
    have hse : (entryStep ind st nr l).errs = [] := nil_of_append_nil hx he
    have hsp : (entryStep ind st nr l).panicked = false := bool_false_of_imp hq hpan
    have := ih (pre ++ [l]) _ (nr + 1) (entryStep_sound h hse hsp) he hpan
    simpa using this

theorem SInv_init (ind : List Char) : SInv ind [] {} :=
  ⟨rfl, rfl, rfl, rfl, Nat.zero_le _, [], [], rfl, Spec.EntriesLines.nil, Or.inl ⟨rfl, rfl⟩⟩

end KlogV.GrammarLemmas

namespace KlogV
open GrammarLemmas

/-- Soundness of the record parser w.r.t. the grammar. -/
theorem parseRecord_sound (offset : Nat) (ls : List (List Char)) (r : Record) (h : parseRecord offset ls = .record r) :
    Spec.RecordLines ls r := by
  unfold parseRecord at h
  split at h
  · cases h
  · rename_i hl rest
    split at h
    · cases h
    · cases h
    · rename_i head herrs hhead
      cases hsg : summaryGo (offset + 1) rest with
      | mk sum r0 =>
      obtain ⟨serrs, nr, rest2⟩ := r0
      rw [hsg] at h
      dsimp only at h
      split at h
      · cases h
      · rename_i hpan
        simp only [Bool.not_eq_true] at hpan
        split at h
        · rename_i hd herr
          simp only [ParseOut.record.injEq] at h
          subst h
          simp only [List.append_eq_nil_iff] at herr
          obtain ⟨⟨rfl, rfl⟩, heerr⟩ := herr
          have hH := parseHeadline_sound hhead
          obtain ⟨e1, hS, hE⟩ := summaryGo_sound rest _ _ _ _ hsg
          subst e1
          rcases hE with rfl | ⟨l, ls', ind, rfl, hi⟩
          · have := Spec.RecordLines.mk hl sum [] [' ', ' ', ' ', ' '] hd.date hd.should [] hH hS (Or.inl rfl)
              Spec.EntriesLines.nil (by simp)
            simpa [entriesGo, PState.commit] using this
          · have hst : ((l :: ls').head?.bind indentatorOf).getD [] = ind := by simp [hi]
            rw [hst] at hpan heerr ⊢
            obtain ⟨hind, _⟩ := indentatorOf_some hi
            obtain ⟨g1, g2⟩ := entriesGo_sound (l :: ls') [] {} nr (SInv_init ind) heerr hpan
            exact Spec.RecordLines.mk hl sum (l :: ls') ind hd.date hd.should _ hH hS hind (by simpa using g1) g2
        · cases h

end KlogV
