/-
Helper lemmas for C04, part 1: the pause loop's arithmetic, the abstract insert position, and the
definitions shared with Props/C04.lean (moved here so that the lemma files can refer to them).
-/
import KlogV.Model.Commands
import KlogV.Spec.AbstractCommands
import KlogV.Spec.Grammar
namespace KlogV

/-! ## definitions used in the statements of C04 -/

/-- bytes of a summary / entry line as typed on the command line: no line feed inside, no
carriage return at the end (D13) -/
def CleanLine (l : Bytes) : Prop := (10 : UInt8) ∉ l ∧ l.getLast? ≠ some 13

/-- the entry that the text of `klog track` denotes: what is read from its lines when they are
written as the only entry under a headline, with indentation `ind` -/
def Denotes (ind : List Char) (entry : List Bytes) (e : Entry) : Prop :=
  ∃ first rest, entry = first :: rest ∧
    parseRecord 0 ("2000-01-01".toList :: (ind ++ decodeGo first) :: rest.map (fun l => ind ++ ind ++ decodeGo l)) =
      .record ⟨⟨2000, 1, 1, true⟩, none, [], [e]⟩

def AbstractStep (_u : UTab) (cfg : Config) (now : Instant) (c : Cmd) (rs rs' : List Record) : Prop :=
  match c with
  | .create sel should summary => ∃ d, atDate sel now.date = some d ∧
      Spec.Create rs d (match should with | some s => some s | none => cfg.should) ((summary.getD []).map decodeGo) rs'
  | .track sel entry => ∃ d ind e, atDate sel now.date = some d ∧ Spec.Indent ind ∧ Denotes ind entry e ∧ Spec.AddEntry rs d cfg.should e rs'
  | _ => True

def CleanCmd : Cmd → Prop
  | .create _ _ summary => ∀ l ∈ summary.getD [], CleanLine l ∧ okRecordSummaryLine (decodeGo l) = true
  | .track _ entry => ∀ l ∈ entry, CleanLine l
  | _ => True

/-- run a history; each command has its own clock reading -/
def runCmdHistory (u : UTab) (cfg : Config) : List (Instant × Cmd) → Bytes → Option Bytes
  | [], f => some f
  | (now, c) :: rest, f => match runCmd u cfg now c f with
    | .ok f' => runCmdHistory u cfg rest f'
    | _ => none

/-! ## the pause loop -/

namespace RefineLemmas

theorem capStep_eq : (fun (c t : Int) => if t - c > 0 then c + (t - c) else c) = (fun c t => max c t) := by
  funext c t
  split <;> omega

end RefineLemmas

open RefineLemmas

theorem captured_eq_max (ticks : List Int) : Spec.captured ticks = ticks.foldl max 0 := by
  unfold Spec.captured
  rw [capStep_eq]

theorem captured_mono (ticks : List Int) (t : Int) : Spec.captured ticks ≤ Spec.captured (ticks ++ [t]) := by
  rw [captured_eq_max, captured_eq_max, List.foldl_append]
  simp only [List.foldl_cons, List.foldl_nil]
  omega

/-- the positive increments `t - captured` the loop applies, starting from a given `captured` -/
def pauseIncrements : List Int → Int → List Int
  | [], _ => []
  | t :: ts, c => if t - c > 0 then (t - c) :: pauseIncrements ts (c + (t - c)) else pauseIncrements ts c

namespace RefineLemmas

theorem pauseIncrements_sum (ticks : List Int) : ∀ c : Int,
    (pauseIncrements ticks c).sum + c = ticks.foldl (fun c t => if t - c > 0 then c + (t - c) else c) c := by
  induction ticks with
  | nil => intro c; simp [pauseIncrements]
  | cons t ts ih =>
    intro c
    simp only [pauseIncrements, List.foldl_cons]
    split
    · rw [List.sum_cons, ← ih]; omega
    · exact ih c

theorem pauseIncrements_pos (ticks : List Int) : ∀ c : Int, ∀ i ∈ pauseIncrements ticks c, 0 < i := by
  induction ticks with
  | nil => intro c i hi; simp [pauseIncrements] at hi
  | cons t ts ih =>
    intro c i hi
    simp only [pauseIncrements] at hi
    split at hi
    · rcases List.mem_cons.mp hi with rfl | h
      · omega
      · exact ih _ i h
    · exact ih _ i hi

end RefineLemmas

theorem pauseIncrements_spec (ticks : List Int) :
    (pauseIncrements ticks 0).sum = Spec.captured ticks ∧ ∀ i ∈ pauseIncrements ticks 0, 0 < i := by
  refine ⟨?_, pauseIncrements_pos ticks 0⟩
  have := pauseIncrements_sum ticks 0
  unfold Spec.captured
  omega

/-- apply the single reconcile step `extendPause (-inc)` for each increment in turn, stopping at
the first failure/panic -/
def pauseFold (today yesterday : Date) : List Int → Bytes → CmdOut
  | [], file => .ok file
  | inc :: rest, file =>
    match (reconcileFile file
        (fun rs bos => firstCreator [reconcilerAtRecord today rs bos, reconcilerAtRecord yesterday rs bos])
        [fun r => r.extendPause (-inc)]).1 with
    | .ok file' => pauseFold today yesterday rest file'
    | .fail => .fail
    | .panic => .panic

namespace RefineLemmas

theorem pauseLoop_eq_fold_gen (today yesterday : Date) (ticks : List Int) : ∀ (c : Int) (file : Bytes),
    pauseLoop today yesterday ticks c file = pauseFold today yesterday (pauseIncrements ticks c) file := by
  induction ticks with
  | nil => intro c file; rfl
  | cons t ts ih =>
    intro c file
    unfold pauseLoop
    simp only [pauseIncrements]
    by_cases h : t - c > 0
    · simp only [h, if_true]
      unfold pauseFold
      split
      · rename_i f' hf; simp only [hf]; exact ih _ _
      · rename_i hf; simp only [hf]
      · rename_i hf; simp only [hf]
    · simp only [h, if_false]
      exact ih _ _

end RefineLemmas

theorem pauseLoop_eq_fold (today yesterday : Date) (ticks : List Int) (file : Bytes) :
    pauseLoop today yesterday ticks 0 file = pauseFold today yesterday (pauseIncrements ticks 0) file :=
  pauseLoop_eq_fold_gen today yesterday ticks 0 file

/-! ## the abstract insert position -/

namespace RefineLemmas

theorem dateLe_iff (a b : Date) :
    Spec.dateLe a b = true ↔ (a.y < b.y ∨ (a.y = b.y ∧ (a.m < b.m ∨ (a.m = b.m ∧ a.d ≤ b.d)))) := by
  simp [Spec.dateLe]

theorem dateLe_false_iff (a b : Date) :
    Spec.dateLe a b = false ↔ ¬ (a.y < b.y ∨ (a.y = b.y ∧ (a.m < b.m ∨ (a.m = b.m ∧ a.d ≤ b.d)))) := by
  rw [← dateLe_iff]; simp

theorem dateLe_trans (a b c : Date) (h1 : Spec.dateLe a b = true) (h2 : Spec.dateLe b c = true) :
    Spec.dateLe a c = true := by
  rw [dateLe_iff] at *; omega

theorem dateLe_total (a b : Date) (h : Spec.dateLe a b = false) : Spec.dateLe b a = true := by
  rw [dateLe_false_iff] at h; rw [dateLe_iff]; omega

theorem dateLe_same_right (a b c : Date) (h : Spec.SameDate b c) : Spec.dateLe a b = Spec.dateLe a c := by
  obtain ⟨h1, h2, h3⟩ := h
  simp [Spec.dateLe, h1, h2, h3]

theorem dateLe_same_left (a b c : Date) (h : Spec.SameDate b c) : Spec.dateLe b a = Spec.dateLe c a := by
  obtain ⟨h1, h2, h3⟩ := h
  simp [Spec.dateLe, h1, h2, h3]

abbrev Sorted (rs : List Record) : Prop := rs.Pairwise (fun a b => Spec.dateLe a.date b.date = true)

theorem slotAfter_spec (d : Date) (tl : List Record) : ∀ (a : Record) (k : Nat), Sorted (a :: tl) →
    Spec.dateLe a.date d = true →
    ∃ s, Spec.slotAfter d k (a :: tl) = k + s ∧ s < (a :: tl).length ∧
      (∀ r ∈ (a :: tl).take (s + 1), Spec.dateLe r.date d = true) ∧
      (∀ r ∈ (a :: tl).drop (s + 1), Spec.dateLe r.date d = false) := by
  induction tl with
  | nil =>
    intro a k _ ha
    exact ⟨0, by simp [Spec.slotAfter], by simp, by simpa using ha, by simp⟩
  | cons b rest ih =>
    intro a k hs ha
    have hs' : Sorted (b :: rest) := (List.pairwise_cons.mp hs).2
    have hab : ∀ r ∈ b :: rest, Spec.dateLe a.date r.date = true := (List.pairwise_cons.mp hs).1
    cases hb : Spec.dateLe b.date d with
    | false =>
      refine ⟨0, by simp [Spec.slotAfter, ha, hb], by simp, by simpa using ha, ?_⟩
      intro r hr
      simp only [Nat.zero_add, List.drop_succ_cons, List.drop_zero] at hr
      cases hrd : Spec.dateLe r.date d with
      | false => rfl
      | true =>
        exfalso
        rcases List.mem_cons.mp hr with rfl | hr'
        · rw [hb] at hrd; cases hrd
        · have := (List.pairwise_cons.mp hs').1 r hr'
          have := dateLe_trans _ _ _ this hrd
          rw [hb] at this; cases this
    | true =>
      obtain ⟨s, e1, e2, e3, e4⟩ := ih b (k + 1) hs' hb
      refine ⟨s + 1, ?_, by simp at e2 ⊢; omega, ?_, ?_⟩
      · simp only [Spec.slotAfter, ha, hb, Bool.not_true, Bool.and_false, Bool.false_eq_true, if_false]
        rw [e1]; omega
      · intro r hr
        rw [List.take_succ_cons] at hr
        rcases List.mem_cons.mp hr with rfl | hr'
        · exact ha
        · exact e3 r hr'
      · intro r hr
        rw [List.drop_succ_cons] at hr
        exact e4 r hr

theorem insertPos_spec (rs : List Record) (d : Date) (hs : Sorted rs) :
    Spec.insertPos rs d ≤ rs.length ∧
    (∀ r ∈ rs.take (Spec.insertPos rs d), Spec.dateLe r.date d = true) ∧
    (∀ r ∈ rs.drop (Spec.insertPos rs d), Spec.dateLe r.date d = false) := by
  cases rs with
  | nil => simp [Spec.insertPos]
  | cons r0 tl =>
    cases h0 : Spec.dateLe r0.date d with
    | false =>
      have hp : Spec.insertPos (r0 :: tl) d = 0 := by simp [Spec.insertPos, h0]
      rw [hp]
      refine ⟨by simp, by simp, ?_⟩
      intro r hr
      simp only [List.drop_zero] at hr
      cases hrd : Spec.dateLe r.date d with
      | false => rfl
      | true =>
        exfalso
        rcases List.mem_cons.mp hr with rfl | hr'
        · rw [h0] at hrd; cases hrd
        · have := (List.pairwise_cons.mp hs).1 r hr'
          have := dateLe_trans _ _ _ this hrd
          rw [h0] at this; cases this
    | true =>
      obtain ⟨s, e1, e2, e3, e4⟩ := slotAfter_spec d tl r0 0 hs h0
      have hp : Spec.insertPos (r0 :: tl) d = s + 1 := by
        simp only [Spec.insertPos, h0, Bool.not_true, Bool.false_eq_true, if_false]
        rw [e1]; omega
      rw [hp]
      exact ⟨by omega, e3, e4⟩

end RefineLemmas

theorem insertPos_sorted (rs : List Record) (d : Date) (r' : Record) (hd : Spec.SameDate r'.date d)
    (hs : rs.Pairwise (fun a b => Spec.dateLe a.date b.date = true)) :
    (rs.take (Spec.insertPos rs d) ++ [r'] ++ rs.drop (Spec.insertPos rs d)).Pairwise (fun a b => Spec.dateLe a.date b.date = true) ∧
    (∀ r ∈ rs.take (Spec.insertPos rs d), Spec.dateLe r.date d = true) ∧
    (∀ r ∈ rs.drop (Spec.insertPos rs d), Spec.dateLe r.date d = false) := by
  obtain ⟨_, h2, h3⟩ := insertPos_spec rs d hs
  refine ⟨?_, h2, h3⟩
  generalize Spec.insertPos rs d = p at *
  have hsplit : rs = rs.take p ++ rs.drop p := (List.take_append_drop p rs).symm
  rw [hsplit] at hs
  rw [List.pairwise_append] at hs
  obtain ⟨s1, s2, s3⟩ := hs
  rw [List.append_assoc, List.pairwise_append]
  refine ⟨s1, ?_, ?_⟩
  · rw [List.singleton_append, List.pairwise_cons]
    refine ⟨?_, s2⟩
    intro b hb
    rw [dateLe_same_left _ _ _ hd]
    exact dateLe_total _ _ (h3 b hb)
  · intro a ha b hb
    rcases List.mem_cons.mp hb with rfl | hb'
    · rw [dateLe_same_right _ _ _ hd]; exact h2 a ha
    · exact s3 a ha b hb'

end KlogV
