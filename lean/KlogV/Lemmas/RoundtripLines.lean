/- Round trip (C09), part 3: lines and blocks of a printed text; assembling block results. -/
import KlogV.Lemmas.Roundtrip1
import KlogV.Lemmas.RoundtripUtf8
import KlogV.Lemmas.Cut
namespace KlogV

/-- the line a printed line is read back as -/
def toLine (l : List Char) : Line := ⟨encode l, .lf⟩

/-- a line with a character that is neither a space nor a tab -/
def NB (l : List Char) : Prop := ∃ c ∈ l, c ≠ ' ' ∧ c ≠ '\t'

theorem splitRaw_line (x : Bytes) (h : LF ∉ x) : splitRaw (x ++ [LF]) = [x ++ [LF]] := by
  induction x with
  | nil => simp [splitRaw]
  | cons b x ih =>
    simp only [List.mem_cons, not_or] at h
    have hb : b ≠ LF := fun e => h.1 e.symm
    simp only [List.cons_append, splitRaw, if_neg hb, ih h.2]

theorem encode_LF : encode ['\n'] = [LF] := by decide

theorem splitLines_one (l : List Char) (h : LineOK l) : splitLines (encode l ++ [LF]) = [toLine l] := by
  unfold splitLines
  rw [splitRaw_line _ (fun hm => h.1 (LF_mem_encode l hm))]
  simp only [List.map_cons, List.map_nil, toLine]
  rw [ofRaw_lf _ (fun hc => h.2 (encode_getLast_CR l hc))]

/-- (L) the lines of a printed list of lines -/
theorem splitLines_lines (ls : List (List Char)) (h : ∀ l ∈ ls, LineOK l) :
    splitLines (encode (ls.flatMap (· ++ ['\n']))) = ls.map toLine := by
  induction ls with
  | nil => rfl
  | cons l ls ih =>
    simp only [List.flatMap_cons, encode_append, encode_LF, List.map_cons]
    rw [splitLines_append _ _ (Or.inr (by simp)), splitLines_one l (h l (by simp)),
      ih (fun l hl => h l (by simp [hl]))]
    rfl

/-! ## groups of lines separated by one empty line -/

def docLinesG : List (List (List Char)) → List (List Char)
  | [] => []
  | [g] => g
  | g :: gs => g ++ [[]] ++ docLinesG gs

def expBlocks : List (List (List Char)) → List (List Line)
  | [] => []
  | [g] => [g.map toLine]
  | g :: gs => (g.map toLine ++ [toLine []]) :: expBlocks gs

theorem printRecords_eq (rs : List Record) :
    printRecords rs = (docLinesG (rs.map recordLines)).flatMap (· ++ ['\n']) := by
  induction rs with
  | nil => rfl
  | cons r rs ih =>
    cases rs with
    | nil => rfl
    | cons r' rs' =>
      simp only [List.map_cons, printRecords, docLinesG] at ih ⊢
      rw [ih]
      simp

theorem toLine_nb (l : List Char) (h : NB l) : (toLine l).isBlank = false := by
  obtain ⟨c, hc, h1, h2⟩ := h
  exact encode_not_blank l c hc h1 h2

theorem toLine_nil_blank : (toLine []).isBlank = true := rfl

theorem blocksGo_sig_run (cur xs rest : List Line) (h : ∀ l ∈ xs, l.isBlank = false) :
    blocksGo .sig cur (xs ++ rest) = blocksGo .sig (cur ++ xs) rest := by
  induction xs generalizing cur with
  | nil => simp
  | cons x xs ih =>
    have hx := h x (by simp)
    rw [List.cons_append, blocksGo_cons_noemit _ _ _ _ (by simp), stepMode_sig _ _ hx,
      ih _ (fun l hl => h l (by simp [hl]))]
    simp

theorem finalMode_sig_run (xs : List Line) (h : ∀ l ∈ xs, l.isBlank = false) :
    finalMode .sig xs = .sig := by
  induction xs with
  | nil => rfl
  | cons x xs ih =>
    simp only [finalMode, stepMode_sig _ _ (h x (by simp))]
    exact ih (fun l hl => h l (by simp [hl]))

theorem docLinesG_head (g : List (List Char)) (gs : List (List (List Char))) (l : List Char)
    (ls : List (List Char)) (hg : g = l :: ls) : ∃ ys, docLinesG (g :: gs) = l :: ys := by
  subst hg
  cases gs with
  | nil => exact ⟨ls, rfl⟩
  | cons g' gs' => exact ⟨ls ++ [] :: docLinesG (g' :: gs'), by simp [docLinesG]⟩

/-- (B) the blocks of a printed text -/
theorem blocks_groups (gs : List (List (List Char)))
    (h : ∀ g ∈ gs, g ≠ [] ∧ ∀ l ∈ g, NB l) :
    blocksOfLines ((docLinesG gs).map toLine) = expBlocks gs := by
  induction gs with
  | nil => rfl
  | cons g gs ih =>
    obtain ⟨hne, hnb⟩ := h g (by simp)
    have hnb' : ∀ l ∈ g.map toLine, l.isBlank = false := by
      intro l hl
      obtain ⟨x, hx, rfl⟩ := List.mem_map.mp hl
      exact toLine_nb x (hnb x hx)
    cases g with
    | nil => exact absurd rfl hne
    | cons l ls =>
    have hl : (toLine l).isBlank = false := hnb' _ (by simp)
    have hls : ∀ x ∈ ls.map toLine, x.isBlank = false := fun x hx => hnb' x (by rw [List.map_cons]; exact List.mem_cons_of_mem _ hx)
    cases gs with
    | nil =>
      simp only [docLinesG, expBlocks, List.map_cons]
      rw [blocksOfLines_cons_sig _ _ hl]
      have := blocksGo_sig_run [toLine l] (ls.map toLine) [] hls
      rw [List.append_nil] at this
      rw [this]
      simp [blocksGo]
    | cons g' gs' =>
      have ih' := ih (fun g hg => h g (by simp [hg]))
      obtain ⟨hne', hnb2⟩ := h g' (by simp)
      cases hg' : g' with
      | nil => exact absurd hg' hne'
      | cons y ys =>
      obtain ⟨zs, hz⟩ := docLinesG_head g' gs' y ys hg'
      have hy : (toLine y).isBlank = false := toLine_nb y (hnb2 y (by simp [hg']))
      rw [← hg']
      simp only [docLinesG, expBlocks] at ih' ⊢
      rw [hz] at ih' ⊢
      simp only [List.map_append, List.map_cons, List.append_assoc, List.cons_append,
        List.nil_append] at ih' ⊢
      have hcut := blocksGo_cut .pre [] (toLine l :: (ls.map toLine ++ [toLine []])) (toLine y) (zs.map toLine)
        (by
          simp only [finalMode, stepMode_sig _ _ hl]
          rw [finalMode_append, finalMode_sig_run _ hls]
          rfl) hy
      simp only [blocksOfLines, List.cons_append, List.append_assoc, List.nil_append] at hcut ih' ⊢
      rw [hcut, ih']
      congr 1
      have h0 : blocksGo .pre [] (toLine l :: (ls.map toLine ++ [toLine []])) =
          blocksGo .sig [toLine l] (ls.map toLine ++ [toLine []]) := blocksOfLines_cons_sig _ _ hl
      rw [h0, blocksGo_sig_run _ _ _ hls]
      simp [blocksGo, toLine_nil_blank]


/-! ## significant lines, `parseBlock`, `assemble` -/

theorem takeWhile_run {α} (p : α → Bool) (xs tail : List α) (h : ∀ x ∈ xs, p x = true)
    (ht : tail = [] ∨ ∃ t ts, tail = t :: ts ∧ p t = false) : (xs ++ tail).takeWhile p = xs := by
  induction xs with
  | nil =>
    rcases ht with rfl | ⟨t, ts, rfl, hp⟩
    · rfl
    · simp [hp]
  | cons x xs ih =>
    simp only [List.cons_append, List.takeWhile_cons, h x (by simp), if_true]
    rw [ih (fun y hy => h y (by simp [hy]))]

theorem parseBlock_group (g : List (List Char)) (tail : List Line) (hne : g ≠ [])
    (hnb : ∀ l ∈ g, NB l) (ht : tail = [] ∨ tail = [toLine []]) :
    parseBlock (g.map toLine ++ tail) = parseRecord 0 g := by
  have hnb' : ∀ l ∈ g.map toLine, (!l.isBlank) = true := by
    intro l hl
    obtain ⟨x, hx, rfl⟩ := List.mem_map.mp hl
    simp [toLine_nb x (hnb x hx)]
  cases g with
  | nil => exact absurd rfl hne
  | cons l ls =>
    have hl : (toLine l).isBlank = false := by simpa using hnb' (toLine l) (by simp)
    have h1 : (List.map toLine (l :: ls) ++ tail).takeWhile Line.isBlank = [] := by
      simp [hl]
    have h2 : (List.map toLine (l :: ls) ++ tail).dropWhile Line.isBlank = List.map toLine (l :: ls) ++ tail := by
      simp [hl]
    have h3 : (List.map toLine (l :: ls) ++ tail).takeWhile (fun l => !l.isBlank) = List.map toLine (l :: ls) := by
      apply takeWhile_run _ _ _ hnb'
      rcases ht with rfl | rfl
      · left; rfl
      · right; exact ⟨_, _, rfl, by simp [toLine_nil_blank]⟩
    unfold parseBlock significant
    simp only [h1, h2, h3, List.length_nil]
    congr 1
    rw [List.map_map]
    have : ((fun l : Line => decodeGo l.text) ∘ toLine) = id := by
      funext x; simp [toLine, decodeGo_encode]
    rw [this, List.map_id]

theorem expBlocks_parse (gs : List (List (List Char))) (h : ∀ g ∈ gs, g ≠ [] ∧ ∀ l ∈ g, NB l) :
    (expBlocks gs).map parseBlock = gs.map (parseRecord 0) := by
  induction gs with
  | nil => rfl
  | cons g gs ih =>
    obtain ⟨hne, hnb⟩ := h g (by simp)
    have ih' := ih (fun g hg => h g (by simp [hg]))
    cases gs with
    | nil =>
      simp only [expBlocks, List.map_cons, List.map_nil]
      have := parseBlock_group g [] hne hnb (Or.inl rfl)
      rw [List.append_nil] at this
      rw [this]
    | cons g' gs' =>
      simp only [expBlocks, List.map_cons] at ih' ⊢
      rw [parseBlock_group g _ hne hnb (Or.inr rfl), ih']

theorem rt_firstLineIndices_length (n : Nat) (bs : List (List Line)) :
    (firstLineIndices n bs).length = bs.length := by
  induction bs generalizing n with
  | nil => rfl
  | cons b bs ih => simp [firstLineIndices, ih]

theorem blockOuts_out (bs : List (List Line)) : (blockOuts bs).map (·.out) = bs.map parseBlock := by
  unfold blockOuts
  rw [List.map_map]
  have : ((fun x : BlockOut => x.out) ∘ fun x : List Line × Nat => (⟨x.1, x.2, parseBlock x.1⟩ : BlockOut)) =
      parseBlock ∘ Prod.fst := by
    funext x; rfl
  rw [this, ← List.map_map, List.map_fst_zip (by rw [rt_firstLineIndices_length]; exact Nat.le_refl _)]

theorem assemble_aux (bos : List BlockOut) : ∀ rs : List Record,
    bos.map (·.out) = rs.map ParseOut.record →
    bos.any (fun bo => bo.out == .panic) = false ∧
    bos.any (fun bo => match bo.out with | .errors _ => true | _ => false) = false ∧
    bos.filterMap (fun bo => match bo.out with | .record r => some r | _ => none) = rs := by
  induction bos with
  | nil =>
    intro rs h
    cases rs with
    | nil => simp
    | cons r rs => simp at h
  | cons bo bos ih =>
    intro rs h
    cases rs with
    | nil => simp at h
    | cons r rs =>
      simp only [List.map_cons, List.cons.injEq] at h
      obtain ⟨h1, h2, h3⟩ := ih rs h.2
      simp only [List.any_cons, List.filterMap_cons, h.1, h1, h2, h3]
      simp

theorem assemble_records (bs : List (List Line)) (rs : List Record)
    (h : bs.map parseBlock = rs.map ParseOut.record) :
    assemble (blockOuts bs) = .records rs (blockOuts bs) := by
  obtain ⟨h1, h2, h3⟩ := assemble_aux (blockOuts bs) rs (by rw [blockOuts_out, h])
  unfold assemble
  rw [if_neg (by rw [h1]; simp), if_neg (fun hh => Bool.noConfusion (hh.symm.trans h2))]
  congr 1

/-- Document-level round trip from the record-level one. -/
theorem roundtrip_of_records (rs : List Record)
    (hok : ∀ r ∈ rs, ∀ l ∈ recordLines r, LineOK l)
    (hnb : ∀ r ∈ rs, ∀ l ∈ recordLines r, NB l)
    (hrec : ∀ r ∈ rs, parseRecord 0 (recordLines r) = .record r.canon) :
    ∃ bos, parseDoc (encode (printRecords rs)) = .records (rs.map Record.canon) bos := by
  have hg : ∀ g ∈ rs.map recordLines, g ≠ [] ∧ ∀ l ∈ g, NB l := by
    intro g hg
    obtain ⟨r, hr, rfl⟩ := List.mem_map.mp hg
    exact ⟨by simp [recordLines], hnb r hr⟩
  have hlok : ∀ gs : List (List (List Char)), (∀ g ∈ gs, ∀ l ∈ g, LineOK l) →
      ∀ l ∈ docLinesG gs, LineOK l := by
    intro gs
    induction gs with
    | nil => intro _ l hl; simp [docLinesG] at hl
    | cons g gs ih =>
      intro h l hl
      cases gs with
      | nil => exact h g (by simp) l hl
      | cons g' gs' =>
        simp only [docLinesG, List.mem_append, List.mem_cons, List.not_mem_nil, or_false] at hl
        rcases hl with (hl | rfl) | hl
        · exact h g (by simp) l hl
        · exact ⟨by simp, by simp⟩
        · exact ih (fun g hg => h g (by simp [hg])) l hl
  refine ⟨blockOuts (expBlocks (rs.map recordLines)), ?_⟩
  unfold parseDoc blocksOf
  rw [printRecords_eq, splitLines_lines _ (hlok _ ?_), blocks_groups _ hg]
  · apply assemble_records
    rw [expBlocks_parse _ hg, List.map_map, List.map_map]
    apply List.map_congr_left
    intro r hr
    exact hrec r hr
  · intro g hg
    obtain ⟨r, hr, rfl⟩ := List.mem_map.mp hg
    exact hok r hr

end KlogV
