/- C15 pattern lemmas, part 1: digits, `mkDate`. -/
import KlogV.Lemmas.Calendar3
namespace KlogV.PatternLemmas
open KlogV

theorem toList_Q : "-Q".toList = ['-', 'Q'] := by decide
theorem toList_W : "-W".toList = ['-', 'W'] := by decide

theorem pad4_val (y : Nat) (hy : y ≤ 9999) :
    digitsVal [digitChar (y / 1000), digitChar (y / 100), digitChar (y / 10), digitChar y] = y := by
  have h1 := digitChar_spec (y / 1000)
  have h2 := digitChar_spec (y / 100)
  have h3 := digitChar_spec (y / 10)
  have h4 := digitChar_spec y
  simp only [digitsVal, List.foldl, h1.2, h2.2, h3.2, h4.2]; omega

theorem pad2_val (m : Nat) (hm : m ≤ 99) : digitsVal [digitChar (m / 10), digitChar m] = m := by
  have h3 := digitChar_spec (m / 10)
  have h4 := digitChar_spec m
  simp only [digitsVal, List.foldl, h3.2, h4.2]; omega

theorem pad1_val (m : Nat) (hm : m ≤ 9) : digitsVal [digitChar m] = m := by
  have h4 := digitChar_spec m
  simp only [digitsVal, List.foldl, h4.2]; omega

theorem isDigit_dc (n : Nat) : isDigit (digitChar n) = true := (digitChar_spec n).1

theorem mkDate_some (y m d : Nat) (h : (⟨y, m, d, true⟩ : Date).valid = true) : mkDate y m d = some ⟨y, m, d, true⟩ := by
  unfold mkDate; simp only; rw [if_pos h]

theorem mkDate_none (y m d : Nat) (h : (⟨y, m, d, true⟩ : Date).valid = false) : mkDate y m d = none := by
  unfold mkDate; simp only; rw [h]; simp

theorem mkDate_valid (y m d : Nat) (x : Date) (h : mkDate y m d = some x) : x.valid = true ∧ x = ⟨y, m, d, true⟩ := by
  unfold mkDate at h; simp only at h
  split at h
  · cases h; exact ⟨by assumption, rfl⟩
  · cases h

theorem dc_ne (n : Nat) (c : Char) (hc : isDigit c = false) : digitChar n ≠ c := by
  intro h; have := isDigit_dc n; rw [h, hc] at this; cases this


/-! ### The four alternatives of `periodFromPattern`, named -/

def yearAlt (s : List Char) : Option Period :=
  match s with
  | [y1, y2, y3, y4] => if allDigits s then (mkDate (digitsVal [y1, y2, y3, y4]) 1 1).map yearPeriod else none
  | _ => none

def monthAlt (s : List Char) : Option Period :=
  match s with
  | [y1, y2, y3, y4, '-', m1, m2] =>
    if allDigits [y1, y2, y3, y4, m1, m2] then (mkDate (digitsVal [y1, y2, y3, y4]) (digitsVal [m1, m2]) 1).map monthPeriod else none
  | _ => none

def quarterAlt (s : List Char) : Option Period :=
  match s with
  | [y1, y2, y3, y4, '-', 'Q', q] =>
    if allDigits [y1, y2, y3, y4, q] && 1 ≤ digitVal q && digitVal q ≤ 4 then
      (mkDate (digitsVal [y1, y2, y3, y4]) (digitVal q * 3) 1).map quarterPeriod else none
  | _ => none

def weekAlt (s : List Char) : Res Period :=
  match weekFromString s with
  | .ok d => (match weekPeriod d with | some p => .ok p | none => .panic)
  | .err => .err
  | .panic => .panic

theorem pfp_eq (s : List Char) : periodFromPattern s =
    match yearAlt s with
    | some p => .ok p
    | none => match monthAlt s with
      | some p => .ok p
      | none => match quarterAlt s with
        | some p => .ok p
        | none => weekAlt s := rfl

theorem yearAlt_long (a b c d e : Char) (t : List Char) : yearAlt (a :: b :: c :: d :: e :: t) = none := rfl

theorem monthAlt_7 (a b c d e f : Char) : monthAlt [a, b, c, d, '-', e, f] =
    if allDigits [a, b, c, d, e, f] then (mkDate (digitsVal [a, b, c, d]) (digitsVal [e, f]) 1).map monthPeriod else none := rfl

theorem monthAlt_8 (a b c d e f g h : Char) (t : List Char) : monthAlt (a :: b :: c :: d :: e :: f :: g :: h :: t) = none := by
  unfold monthAlt; split
  · rename_i h2; simp at h2
  · rfl

theorem quarterAlt_Q (a b c d q : Char) : quarterAlt [a, b, c, d, '-', 'Q', q] =
    if allDigits [a, b, c, d, q] && 1 ≤ digitVal q && digitVal q ≤ 4 then
      (mkDate (digitsVal [a, b, c, d]) (digitVal q * 3) 1).map quarterPeriod else none := rfl

theorem quarterAlt_ne (a b c d e : Char) (t : List Char) (he : e ≠ 'Q') : quarterAlt (a :: b :: c :: d :: '-' :: e :: t) = none := by
  unfold quarterAlt; split
  · rename_i h2; simp only [List.cons.injEq] at h2; exact absurd h2.2.2.2.2.2.1 he
  · rfl

theorem quarterAlt_8 (a b c d e f g h : Char) (t : List Char) : quarterAlt (a :: b :: c :: d :: e :: f :: g :: h :: t) = none := by
  unfold quarterAlt; split
  · rename_i h2; simp at h2
  · rfl

theorem week_ne (a b c d e : Char) (t : List Char) (he : e ≠ 'W') : weekFromString (a :: b :: c :: d :: '-' :: e :: t) = .err := by
  unfold weekFromString; split
  · rename_i h2; simp only [List.cons.injEq] at h2; exact absurd h2.2.2.2.2.2.1 he
  · rfl

end KlogV.PatternLemmas
