/-
C04, part 23: the entry a text denotes does not depend on the indentation it is written with.
-/
import KlogV.Lemmas.Refine21
namespace KlogV.RefineLemmas

/-! ## `parseValue` does not depend on the start position, except for error positions -/

def VRel : ValueRes → ValueRes → Prop
  | .ok v, .ok v' => v.val = v'.val ∧ v.rest = v'.rest
  | .bad _ _, .bad _ _ => True
  | .illegalRange _ _, .illegalRange _ _ => True
  | .panic, .panic => True
  | _, _ => False

theorem pvEnd_rel (p0 total p0' total' : Int) (start : Time) (spaced : Bool) (r4 : List Char) :
    VRel (pvEnd p0 total start spaced r4) (pvEnd p0' total' start spaced r4) := by
  unfold pvEnd
  dsimp only
  repeat' split
  all_goals (first | trivial | exact ⟨rfl, rfl⟩ | simp_all [VRel])

theorem pvTail_rel (p0 total p0' total' : Int) (start : Time) (r1 : List Char) :
    VRel (pvTail p0 total start r1) (pvTail p0' total' start r1) := by
  unfold pvTail
  dsimp only
  split
  · exact pvEnd_rel _ _ _ _ _ _ _
  · trivial

theorem parseValue_rel (p0 p0' : Int) (s : List Char) : VRel (parseValue p0 s) (parseValue p0' s) := by
  rw [parseValue_eq, parseValue_eq]
  split
  · trivial
  · exact ⟨rfl, rfl⟩
  · split
    · trivial
    · split
      · trivial
      · exact pvTail_rel _ _ _ _ _ _

/-! ## the first line of an entry, with two indentations -/

theorem isPrefixOf_self_append {α} [DecidableEq α] (a b : List α) : a.isPrefixOf (a ++ b) = true := by
  rw [List.isPrefixOf_iff_prefix]; exact List.prefix_append a b

def headSpTab (t : List Char) : Bool := match t with | c :: _ => isSpTab c | [] => false

/-- `entryStepB` on a line that starts with the indentation -/
theorem entryStepB_prefix (ind t : List Char) (st : PState) (nr : Nat) :
    entryStepB ind st nr (ind ++ t) =
      if headSpTab t then
        { st with stopped := true, errs := st.errs ++ [⟨nr, 0, (ind ++ t).length, .illegalIndentation⟩] }
      else match parseValue ind.length t with
        | .panic => { st with panicked := true }
        | .bad pos len => { st with errs := st.errs ++ [⟨nr, pos, len, .malformedEntry⟩] }
        | .illegalRange pos len => { st with errs := st.errs ++ [⟨nr, pos, len, .illegalRange⟩] }
        | .ok v =>
          let first : List Char := match v.rest with
            | c :: r => if isSpTab c then r else []
            | [] => []
          { st with pending := some ⟨v.val, [first], nr, v.startPos, v.spanLen⟩ } := by
  unfold entryStepB headSpTab
  simp only [isPrefixOf_self_append, Bool.not_true, Bool.false_eq_true, if_false, List.drop_left]
  rfl

theorem entryStepB_sim_ind (ind ind' t : List Char) (E : List Entry) (H : Bool) (a b : PState) (nr nr' : Nat)
    (h : Sim E H a b) : Sim E H (entryStepB ind a nr (ind ++ t)) (entryStepB ind' b nr' (ind' ++ t)) := by
  rw [entryStepB_prefix, entryStepB_prefix]
  cases hc : headSpTab t with
  | true =>
    simp only [if_true]
    exact ⟨by simp, by simp, by simp, rfl, h.panicked, h.pending⟩
  | false =>
    simp only [Bool.false_eq_true, if_false]
    have hrel := parseValue_rel (ind.length : Int) (ind'.length : Int) t
    cases h1 : parseValue (ind.length : Int) t <;> cases h2 : parseValue (ind'.length : Int) t <;>
      rw [h1, h2] at hrel <;> simp only [VRel] at hrel
    · obtain ⟨e1, e2⟩ := hrel
      dsimp only
      refine ⟨h.entries, h.errs, h.hasOpen, h.stopped, h.panicked, ?_⟩
      simp [pend, e1, e2]
    · exact ⟨by simp, by simp, by simp, h.stopped, h.panicked, h.pending⟩
    · exact ⟨by simp, by simp, by simp, h.stopped, h.panicked, h.pending⟩
    · exact ⟨h.entries, h.errs, h.hasOpen, h.stopped, rfl, h.pending⟩

theorem indent_head (ind : List Char) (h : Spec.Indent ind) : ∃ c tl, ind = c :: tl ∧ isSpTab c = true := by
  rcases h with rfl | rfl | rfl | rfl <;> exact ⟨_, _, rfl, by decide⟩

theorem indent_ascii (ind : List Char) (h : Spec.Indent ind) : ∃ i ∈ indentationBytes, ind = asciiChars i := by
  rcases h with rfl | rfl | rfl | rfl
  · exact ⟨[32, 32, 32, 32], by decide, by decide⟩
  · exact ⟨[32, 32, 32], by decide, by decide⟩
  · exact ⟨[32, 32], by decide, by decide⟩
  · exact ⟨[9], by decide, by decide⟩

/-- a continuation line, with two indentations -/
theorem entryStep_cont_sim_ind (ind ind' t : List Char) (hi : Spec.Indent ind) (hi' : Spec.Indent ind')
    (E : List Entry) (H : Bool) (a b : PState) (nr nr' : Nat) (h : Sim E H a b) :
    Sim E H (entryStep ind a nr (ind ++ ind ++ t)) (entryStep ind' b nr' (ind' ++ ind' ++ t)) := by
  rw [entryStep_eq, entryStep_eq, ← h.stopped, ← h.panicked]
  split
  · exact h
  · cases hap : a.pending with
    | none =>
      have hb : b.pending = none := by
        rw [← pend_none, ← h.pending, pend_none]; exact hap
      rw [hb]
      dsimp only
      rw [commit_of_none a hap, commit_of_none b hb, List.append_assoc, List.append_assoc,
        entryStepB_prefix, entryStepB_prefix]
      obtain ⟨c, tl, e, hc⟩ := indent_head ind hi
      obtain ⟨c', tl', e', hc'⟩ := indent_head ind' hi'
      have h1 : headSpTab (ind ++ t) = true := by rw [e]; exact hc
      have h2 : headSpTab (ind' ++ t) = true := by rw [e']; exact hc'
      rw [if_pos h1, if_pos h2]
      exact ⟨by simp, by simp, by simp, rfl, h.panicked, by simp [pend, hap, hb]⟩
    | some p =>
      cases hbp : b.pending with
      | none =>
        have := h.pending
        simp [pend, hap, hbp] at this
      | some q =>
        have hpq := h.pending
        simp only [pend, hap, hbp, Option.map_some, Option.some.injEq, Prod.mk.injEq] at hpq
        obtain ⟨hv, hs⟩ := hpq
        simp only [isPrefixOf_self_append, List.drop_left]
        split
        · refine ⟨h.entries, h.errs, h.hasOpen, rfl, rfl, ?_⟩
          simp [pend, hv, hs]
        · have hc1 : (a.commit.errs ++ [(⟨nr, 0, (ind ++ ind ++ t).length, .malformedSummary⟩ : Err)]) ≠ [] := by
            simp
          have hc2 : (b.commit.errs ++ [(⟨nr', 0, (ind' ++ ind' ++ t).length, .malformedSummary⟩ : Err)]) ≠ [] := by
            simp
          refine ⟨fun e => absurd e hc1, ⟨fun e => absurd e hc1, fun e => absurd e hc2⟩,
            fun e => absurd e hc1, ?_, ?_, ?_⟩
          · show a.commit.stopped = b.commit.stopped
            rw [commit_stopped, commit_stopped]; exact h.stopped
          · show a.commit.panicked = b.commit.panicked
            rw [commit_panicked, commit_panicked]; exact h.panicked
          · show pend a.commit = pend b.commit
            rw [commit_pend_none, commit_pend_none]

theorem stepsGo_conts_sim_ind (ind ind' : List Char) (hi : Spec.Indent ind) (hi' : Spec.Indent ind')
    (E : List Entry) (H : Bool) (texts : List (List Char)) : ∀ (a b : PState) (nr nr' : Nat), Sim E H a b →
    Sim E H (stepsGo ind a nr (texts.map (fun t => ind ++ ind ++ t)))
      (stepsGo ind' b nr' (texts.map (fun t => ind' ++ ind' ++ t))) := by
  induction texts with
  | nil => intro a b nr nr' h; exact h
  | cons t ts ih =>
    intro a b nr nr' h
    simp only [List.map_cons, stepsGo]
    exact ih _ _ _ _ (entryStep_cont_sim_ind ind ind' t hi hi' E H a b nr nr' h)

/-- (TRANSFER) what the text of an entry denotes does not depend on the indentation -/
theorem denotes_transfer (ind ind' : List Char) (hi : Spec.Indent ind) (hi' : Spec.Indent ind')
    (b0 : UInt8) (tl : Bytes) (rest : List Bytes) (hb0 : isBlankByte b0 = false) (e : Entry)
    (h : Denotes ind ((b0 :: tl) :: rest) e) : Denotes ind' ((b0 :: tl) :: rest) e := by
  obtain ⟨first, rest', he, hpr⟩ := h
  obtain ⟨rfl, rfl⟩ := List.cons.inj he
  obtain ⟨i, him, rfl⟩ := indent_ascii ind hi
  obtain ⟨i', him', rfl⟩ := indent_ascii ind' hi'
  obtain ⟨f1, _⟩ := entry_first_line i (b0 :: tl) him b0 tl rfl hb0
  obtain ⟨f1', _⟩ := entry_first_line i' (b0 :: tl) him' b0 tl rfl hb0
  refine ⟨b0 :: tl, rest, rfl, ?_⟩
  rw [denotes_iff _ _ _ _ f1] at hpr
  rw [denotes_iff _ _ _ _ f1']
  obtain ⟨g1, g2, g3⟩ := hpr
  have h0 : Sim [] false ({} : PState) {} := ⟨fun _ => rfl, Iff.rfl, fun _ => rfl, rfl, rfl, rfl⟩
  have hstep1 : Sim [] false (entryStep (asciiChars i) {} 1 (asciiChars i ++ decodeGo (b0 :: tl)))
      (entryStep (asciiChars i') {} 1 (asciiChars i' ++ decodeGo (b0 :: tl))) := by
    have e1 : ∀ (s l : List Char), entryStep s {} 1 l = entryStepB s {} 1 l := by
      intro s l; rw [entryStep_eq]; rfl
    rw [e1, e1]
    exact entryStepB_sim_ind _ _ _ _ _ _ _ _ _ h0
  have hmap : ∀ (j : List Char), rest.map (fun l => j ++ j ++ decodeGo l) =
      (rest.map decodeGo).map (fun t => j ++ j ++ t) := by
    intro j; simp [List.map_map, Function.comp_def]
  have hsim : Sim [] false (entriesGo (asciiChars i) {} 1 ((asciiChars i ++ decodeGo (b0 :: tl)) ::
        rest.map (fun l => asciiChars i ++ asciiChars i ++ decodeGo l)))
      (entriesGo (asciiChars i') {} 1 ((asciiChars i' ++ decodeGo (b0 :: tl)) ::
        rest.map (fun l => asciiChars i' ++ asciiChars i' ++ decodeGo l))) := by
    rw [entriesGo_eq, entriesGo_eq]
    simp only [stepsGo]
    rw [hmap, hmap]
    exact commit_sim _ _ _ _ (stepsGo_conts_sim_ind _ _ hi hi' [] false _ _ _ _ _ hstep1) (Or.inl rfl)
  refine ⟨?_, hsim.errs.mp g2, by rw [← hsim.panicked]; exact g3⟩
  rw [hsim.entries g2, g1]; rfl

end KlogV.RefineLemmas
