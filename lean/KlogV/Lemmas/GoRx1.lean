/- Helper lemmas for KlogV/Lemmas/GoRx.lean: computing `groupText` on explicit marked words. Core Lean only. -/
import KlogV.GoSem.RxSpec
import KlogV.Lemmas.RegexModel1
namespace KlogV.GoL.Rx
open KlogV.Go KlogV.Rx KlogV.RxM

theorem open_ne_open {i j : Nat} (h : i ≠ j) : openSym i ≠ openSym j := by
  intro e; have e' : maxRune + 2 * i = maxRune + 2 * j := e; omega
theorem close_ne_close {i j : Nat} (h : i ≠ j) : closeSym i ≠ closeSym j := by
  intro e; have e' : maxRune + 2 * i + 1 = maxRune + 2 * j + 1 := e; omega
theorem open_ne_close (i j : Nat) : openSym i ≠ closeSym j := by
  intro e; have e' : maxRune + 2 * i = maxRune + 2 * j + 1 := e; omega
theorem close_ne_open (i j : Nat) : closeSym i ≠ openSym j := by
  intro e; have e' : maxRune + 2 * i + 1 = maxRune + 2 * j := e; omega
theorem toNat_ne_open (c : Char) (i : Nat) : c.toNat ≠ openSym i := by
  have := toNat_lt_maxRune c; have := openSym_ge i; omega
theorem toNat_ne_close (c : Char) (i : Nat) : c.toNat ≠ closeSym i := by
  have := toNat_lt_maxRune c; have := closeSym_ge i; omega

theorem dw_nil (k : Nat) : ([] : List Nat).dropWhile (· != k) = [] := rfl
theorem dw_cons_ne {a k : Nat} (l : List Nat) (h : a ≠ k) : (a :: l).dropWhile (· != k) = l.dropWhile (· != k) := by
  simp [h]
theorem dw_cons_eq (k : Nat) (l : List Nat) : (k :: l).dropWhile (· != k) = k :: l := by
  simp
theorem dw_codes {k : Nat} (hk : maxRune ≤ k) (s : List Char) (l : List Nat) :
    (codes s ++ l).dropWhile (· != k) = l.dropWhile (· != k) := by
  induction s with
  | nil => rfl
  | cons c s ih =>
    have : c.toNat ≠ k := by have := toNat_lt_maxRune c; omega
    rw [codes_cons, List.cons_append, dw_cons_ne _ this, ih]

theorem tw_nil (k : Nat) : ([] : List Nat).takeWhile (· != k) = [] := rfl
theorem tw_cons_ne {a k : Nat} (l : List Nat) (h : a ≠ k) : (a :: l).takeWhile (· != k) = a :: l.takeWhile (· != k) := by
  simp [h]
theorem tw_cons_eq (k : Nat) (l : List Nat) : (k :: l).takeWhile (· != k) = [] := by
  simp
theorem tw_codes {k : Nat} (hk : maxRune ≤ k) (s : List Char) (l : List Nat) :
    (codes s ++ l).takeWhile (· != k) = codes s ++ l.takeWhile (· != k) := by
  induction s with
  | nil => rfl
  | cons c s ih =>
    have : c.toNat ≠ k := by have := toNat_lt_maxRune c; omega
    rw [codes_cons, List.cons_append, tw_cons_ne _ this, ih]; rfl

theorem dw_open_open {i j : Nat} (h : i ≠ j) (l : List Nat) :
    (openSym i :: l).dropWhile (· != openSym j) = l.dropWhile (· != openSym j) := dw_cons_ne l (open_ne_open h)
theorem dw_close_open (i j : Nat) (l : List Nat) :
    (closeSym i :: l).dropWhile (· != openSym j) = l.dropWhile (· != openSym j) := dw_cons_ne l (close_ne_open i j)
theorem dw_toNat_open (c : Char) (j : Nat) (l : List Nat) :
    (c.toNat :: l).dropWhile (· != openSym j) = l.dropWhile (· != openSym j) := dw_cons_ne l (toNat_ne_open c j)
theorem tw_open_close (i j : Nat) (l : List Nat) :
    (openSym i :: l).takeWhile (· != closeSym j) = openSym i :: l.takeWhile (· != closeSym j) := tw_cons_ne l (open_ne_close i j)
theorem tw_close_close {i j : Nat} (h : i ≠ j) (l : List Nat) :
    (closeSym i :: l).takeWhile (· != closeSym j) = closeSym i :: l.takeWhile (· != closeSym j) := tw_cons_ne l (close_ne_close h)
theorem tw_toNat_close (c : Char) (j : Nat) (l : List Nat) :
    (c.toNat :: l).takeWhile (· != closeSym j) = c.toNat :: l.takeWhile (· != closeSym j) := tw_cons_ne l (toNat_ne_close c j)

theorem groupText_eq (m : List Sym) (i : Nat) :
    groupText m i = (erase (((m.dropWhile (· != openSym i)).drop 1).takeWhile (· != closeSym i))).map Char.ofNat := rfl

theorem map_ofNat_codes (s : List Char) : (codes s).map Char.ofNat = s := by
  induction s with
  | nil => rfl
  | cons c s ih => rw [codes_cons, List.map_cons, ih, Char.ofNat_toNat]

theorem erase_toNat (x : Char) (w : List Nat) : erase (x.toNat :: w) = x.toNat :: erase w :=
  erase_cons_lt (toNat_lt_maxRune x)

end KlogV.GoL.Rx
