/- Helper lemmas for KlogV/Props/GoCal.lean (the translated date / period code computes the model's calendar), part C. Core Lean only. -/
import KlogV.GoSem.AbsCal
import KlogV.Lemmas.GoCalC1
import KlogV.Lemmas.GoCalC2
import KlogV.Lemmas.GoCalC3
set_option linter.unusedSimpArgs false
namespace KlogV.GoL.C
open KlogV.Go
open KlogV.PatternLemmas

theorem c_yearAlt (s : List Char) : yearAlt s = (yearFromString s).map yearPeriod := by
  unfold yearAlt yearFromString
  split
  · simp only []
    split <;> rfl
  · split
    · rename_i h; exact absurd rfl (by first | exact h _ _ _ _ | exact h _ _ _ _ _ | exact h _ _ _ _ _ _)
    · rfl

theorem c_monthAlt (s : List Char) : monthAlt s = (monthFromString s).map monthPeriod := by
  unfold monthAlt monthFromString
  split
  · simp only []
    split <;> rfl
  · split
    · rename_i h; exact absurd rfl (by first | exact h _ _ _ _ | exact h _ _ _ _ _ | exact h _ _ _ _ _ _)
    · rfl

theorem c_quarterAlt (s : List Char) : quarterAlt s = (quarterFromString s).map quarterPeriod := by
  unfold quarterAlt quarterFromString
  split
  · simp only []
    split <;> rfl
  · split
    · rename_i h; exact absurd rfl (by first | exact h _ _ _ _ | exact h _ _ _ _ _ | exact h _ _ _ _ _ _)
    · rfl

end KlogV.GoL.C

namespace KlogV.GoL
open KlogV.Go
open KlogV.PatternLemmas
open KlogV.GoL.C

theorem newYearFromString_eq (mt : Str → Bool) (hm : ∀ s, mt s = yearShape s) (s : List Char) :
    (GoCal.NewYearFromString mt s).res = (optRes (yearFromString s)).map (fun d => (⟨d.toGo⟩ : GoCal.Year)) := by
  cases hs : yearShape s with
  | false =>
    have e : yearFromString s = none := by
      unfold yearFromString
      split
      · simp [yearShape, allDigits] at hs ⊢
        intro h1 h2 h3 h4; rw [hs h1 h2 h3] at h4; cases h4
      · rfl
    simp [GoCal.NewYearFromString, hm, hs, e, G.res, optRes, Res.map, throw, throwThe, MonadExceptOf.throw, bind, Except.bind]
  | true =>
    simp only [yearShape, Bool.and_eq_true, beq_iff_eq] at hs
    obtain ⟨a, b, c, d, rfl⟩ := c_len4 s hs.1
    have hd := hs.2
    simp only [List.all_cons, List.all_nil, Bool.and_true, Bool.and_eq_true] at hd
    obtain ⟨ha, hb, hc, hd⟩ := hd
    have hsh : yearShape [a, b, c, d] = true := by simp [yearShape, ha, hb, hc, hd]
    have nd : GoCal.NewDate (↑(digitsVal [a, b, c, d])) 1 1 = _ := c_newDate (digitsVal [a, b, c, d]) 1 1
    simp only [GoCal.NewYearFromString, hm, hsh, c_atoi4 a b c d ha hb hc hd, try2, nd, bind, Except.bind, pure, Except.pure]
    simp only [yearFromString, allDigits, List.all_cons, List.all_nil, ha, hb, hc, hd, Bool.and_true, if_true]
    cases mkDate (digitsVal [a, b, c, d]) 1 1 with
    | none => simp [G.res, optRes, Res.map, isNil, GNil.isNil, throw, throwThe, MonadExceptOf.throw, bind, Except.bind, pure, Except.pure]
    | some x => simp [G.res, optRes, Res.map, isNil, GNil.isNil, throw, throwThe, MonadExceptOf.throw, bind, Except.bind, pure, Except.pure]

theorem newMonthFromString_eq (mt : Str → Bool) (hm : ∀ s, mt s = monthShape s) (s : List Char) :
    (GoCal.NewMonthFromString mt s).res = (optRes (monthFromString s)).map (fun d => (⟨d.toGo⟩ : GoCal.Month)) := by
  cases hs : monthShape s with
  | false =>
    have e : monthFromString s = none := by
      unfold monthFromString
      split
      · simp only [monthShape] at hs
        simp only [allDigits, hs]; rfl
      · rfl
    simp [GoCal.NewMonthFromString, hm, hs, e, G.res, optRes, Res.map, throw, throwThe, MonadExceptOf.throw, bind, Except.bind]
  | true =>
    unfold monthShape at hs
    split at hs
    · rename_i a b c d m1 m2
      have hsh : monthShape [a, b, c, d, '-', m1, m2] = true := hs
      simp only [List.all_cons, List.all_nil, Bool.and_true, Bool.and_eq_true] at hs
      obtain ⟨ha, hb, hc, hd, h1, h2⟩ := hs
      have hsp := c_split a b c d [m1, m2] ha hb hc hd (by
        intro x hx; simp at hx; rcases hx with rfl | rfl
        · exact c_digit_ne_dash _ h1
        · exact c_digit_ne_dash _ h2)
      have nd : GoCal.NewDate (↑(digitsVal [a, b, c, d])) (↑(digitsVal [m1, m2])) 1 = _ := c_newDate (digitsVal [a, b, c, d]) (digitsVal [m1, m2]) 1
      simp only [GoCal.NewMonthFromString, hm, hsh, hsp, c_idx0, c_idx1, c_atoi4 a b c d ha hb hc hd, c_atoi2 m1 m2 h1 h2, try2, nd, bind, Except.bind, pure, Except.pure]
      simp only [monthFromString, allDigits, List.all_cons, List.all_nil, ha, hb, hc, hd, h1, h2, Bool.and_true, if_true]
      cases mkDate (digitsVal [a, b, c, d]) (digitsVal [m1, m2]) 1 with
      | none => simp [G.res, optRes, Res.map, isNil, GNil.isNil, throw, throwThe, MonadExceptOf.throw, bind, Except.bind, pure, Except.pure]
      | some x => simp [G.res, optRes, Res.map, isNil, GNil.isNil, throw, throwThe, MonadExceptOf.throw, bind, Except.bind, pure, Except.pure]
    · cases hs

theorem newQuarterFromString_eq (mt : Str → Bool) (hm : ∀ s, mt s = quarterShape s) (s : List Char) :
    (GoCal.NewQuarterFromString mt s).res = (optRes (quarterFromString s)).map (fun d => (⟨d.toGo⟩ : GoCal.Quarter)) := by
  cases hs : quarterShape s with
  | false =>
    have e : quarterFromString s = none := by
      unfold quarterFromString
      split
      · simp only [quarterShape] at hs
        simp only [allDigits, hs]; rfl
      · rfl
    simp [GoCal.NewQuarterFromString, hm, hs, e, G.res, optRes, Res.map, throw, throwThe, MonadExceptOf.throw, bind, Except.bind]
  | true =>
    unfold quarterShape at hs
    split at hs
    · rename_i a b c d q
      have hsh : quarterShape [a, b, c, d, '-', 'Q', q] = true := hs
      simp only [List.all_cons, List.all_nil, Bool.and_true, Bool.and_eq_true] at hs
      obtain ⟨ha, hb, hc, hd, hq⟩ := hs
      have hsp := c_split a b c d ['Q', q] ha hb hc hd (by
        intro x hx; simp at hx; rcases hx with rfl | rfl
        · decide
        · exact c_digit_ne_dash _ hq)
      have hq9 := digitVal_lt q hq
      obtain ⟨qi, hqi, e1⟩ : ∃ qi : Int, qi = ((digitVal q : Nat) : Int) ∧ Go.atoi [q] = .ok qi :=
        ⟨_, rfl, by rw [c_atoi1 q hq, c_dv1]⟩
      obtain ⟨yi, hyi, e2⟩ : ∃ yi : Int, yi = ((digitsVal [a, b, c, d] : Nat) : Int) ∧ Go.atoi [a, b, c, d] = .ok yi :=
        ⟨_, rfl, c_atoi4 a b c d ha hb hc hd⟩
      simp only [GoCal.NewQuarterFromString, hm, hsh, hsp, c_idx0, c_idx1, c_trim, e1, e2, try2, bind, Except.bind, pure, Except.pure]
      simp only [quarterFromString, allDigits, List.all_cons, List.all_nil, ha, hb, hc, hd, hq, Bool.and_true, Bool.true_and]
      by_cases hr : 1 ≤ digitVal q ∧ digitVal q ≤ 4
      · have g1 : lt qi 1 = false := by simp [lt]; omega
        have g2 : gt qi 4 = false := by simp [gt]; omega
        have g3 : mul qi 3 = ((digitVal q * 3 : Nat) : Int) := by
          rw [c_mul3i qi (by omega) (by omega), hqi]; exact (Int.natCast_mul _ 3).symm
        have nd : GoCal.NewDate (↑(digitsVal [a, b, c, d])) (↑(digitVal q * 3)) 1 = _ := c_newDate (digitsVal [a, b, c, d]) (digitVal q * 3) 1
        simp only [g1, g2, g3, hyi, nd]
        simp only [hr, decide_true, Bool.and_self, if_true]
        cases mkDate (digitsVal [a, b, c, d]) (digitVal q * 3) 1 with
        | none => simp [G.res, optRes, Res.map, isNil, GNil.isNil, throw, throwThe, MonadExceptOf.throw, bind, Except.bind, pure, Except.pure]
        | some x => simp [G.res, optRes, Res.map, isNil, GNil.isNil, throw, throwThe, MonadExceptOf.throw, bind, Except.bind, pure, Except.pure]
      · have g : (lt qi 1 || gt qi 4) = true := by simp [lt, gt]; omega
        have g' : (decide (1 ≤ digitVal q) && decide (digitVal q ≤ 4)) = false := by
          simp; omega
        simp [g, g', G.res, optRes, Res.map, throw, throwThe, MonadExceptOf.throw]
    · cases hs

theorem newWeekFromString_eq (mt : Str → Bool) (hm : ∀ s, mt s = weekShape s) (s : List Char) :
    (GoCal.NewWeekFromString mt s).res = (weekFromString s).map (fun d => (⟨d.toGo⟩ : GoCal.Week)) := by
  rw [c_week_eq]
  cases hs : weekShape s with
  | false =>
    have e : weekFromString s = .err := by
      unfold weekFromString
      split
      · simp only [weekShape] at hs
        simp only [allDigits, hs]; rfl
      · rfl
    simp [c_week, hm, hs, e, G.res, Res.map]
  | true =>
    unfold weekShape at hs
    split at hs
    · rename_i a b c d ws
      simp only [List.all_cons, List.all_nil, Bool.and_true, Bool.and_eq_true, Bool.or_eq_true, beq_iff_eq] at hs
      obtain ⟨⟨⟨ha, hb, hc, hd⟩, hws⟩, hl⟩ := hs
      rw [c_week_shaped mt hm a b c d ws ha hb hc hd hws hl, week_W]
      have : (allDigits [a, b, c, d] && allDigits ws && (ws.length == 1 || ws.length == 2)) = true := by
        rcases hl with hl | hl <;> simp [allDigits, ha, hb, hc, hd, hws, hl]
      simp only [this, Bool.not_true, Bool.false_eq_true, if_false]
    · cases hs


theorem periodFromPattern_eq (s : List Char) :
    periodFromPattern s =
      match yearFromString s with
      | some d => .ok (yearPeriod d)
      | none => match monthFromString s with
        | some d => .ok (monthPeriod d)
        | none => match quarterFromString s with
          | some d => .ok (quarterPeriod d)
          | none => match weekFromString s with
            | .ok d => (match weekPeriod d with | some p => .ok p | none => .panic)
            | .err => .err
            | .panic => .panic := by
  rw [pfp_eq, c_yearAlt, c_monthAlt, c_quarterAlt]
  cases yearFromString s with
  | some d => rfl
  | none =>
    cases monthFromString s with
    | some d => rfl
    | none =>
      cases quarterFromString s with
      | some d => rfl
      | none => rfl

end KlogV.GoL
