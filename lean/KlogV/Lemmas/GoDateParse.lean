/- Helper lemmas for KlogV/Props/GoDateParse.lean. Core Lean only. -/
import KlogV.GoSem.AbsDate
import KlogV.Props.GoCal
import KlogV.Props.GoRx
import KlogV.Props.Rx.Values
import KlogV.Props.Rx.Model
import KlogV.Lemmas.GoDateParse1
import KlogV.Lemmas.GoDateParse2
namespace KlogV.GoL
open KlogV.Go KlogV.Rx

theorem dateFind_of_spec (env : Env) (re : Re) (hre : ∀ env m, Matches env (mark re) m ↔ Matches env (mark Expect.date) m)
    (find : Str → List Str) (h : SubmatchSpec env re 3 find) :
    DateFind find :=
  DP.dateFind_of_spec env re hre find h

theorem newDateFromString_eq (find : Str → List Str) (hf : DateFind find) (s : List Char) :
    (GoCal.NewDateFromString find s).res = (optRes (Date.parse s)).map Date.toGo := by
  by_cases hm : Matches (fun _ _ => false) Expect.date (codes s)
  · obtain ⟨y1, y2, y3, y4, a, m1, m2, b, d1, d2, rfl, hdig, ha, hb⟩ := (Regexes.date_shape _ s).1 hm
    rw [Regexes.date_parse_on_shape y1 y2 y3 y4 a m1 m2 b d1 d2 hdig ha hb]
    exact DP.newDate_shape find hf y1 y2 y3 y4 a m1 m2 b d1 d2 hdig ha hb
  · have hall : ∀ env, ¬ Matches env Expect.date (codes s) := fun env h =>
      hm ((Regexes.date_shape _ s).2 ((Regexes.date_shape env s).1 h))
    rw [Regexes.date_parse_none_of_no_match _ s hm]
    unfold GoCal.NewDateFromString
    simp only [hf.2 s hall, DP.len0_ne, bind, Except.bind, pure, Except.pure, if_true]
    rfl

end KlogV.GoL
