/-
C04b, part 15: `closeOpenRange` on the record of block `i`: the records of the new text.
-/
import KlogV.Lemmas.RefineB14
namespace KlogV.RefineBLemmas
open KlogV KlogV.RefineLemmas KlogV.EditLemmas KlogV.GrammarLemmas

/-- a line whose text is replaced stays good -/
theorem lineGood_mod (file : Bytes) (Lr : List Line) (G : GoodLines file Lr) (l : Line) (hl : l ∈ Lr) (t' : Bytes)
    (h1 : LF ∉ t') (h2 : t' ≠ []) (h3 : l.text.getLast? ≠ some CR → t'.getLast? ≠ some CR) :
    LineGood { l with text := t' } ∧ (({ l with text := t' } : Line).ending = .none → t'.getLast? ≠ some CR) := by
  have hg := lineGood_of_good file Lr G l hl
  refine ⟨⟨h1, ?_, fun _ => h2⟩, ?_⟩
  · intro hlf
    exact h3 (hg.2.1 hlf)
  · intro hn
    exact h3 (G.noCR l hl hn)

theorem closeLines_nil (st : Style) (lines : List Line) (vl : Nat) (sm : List (List Char)) (endB : Bytes) :
    closeLines st lines vl sm endB [] = closeLines st lines vl sm endB [[]] := by
  simp only [closeLines, List.isEmpty_nil, Bool.true_or, if_true, List.append_nil]
  exact (modifyLine_id _ _ _ (fun t => rfl)).symm

theorem filter_open_closed (E1 E2 : List Entry) (a b : Entry) (ha : isOpen a.val = true) (hb : isOpen b.val = false)
    (h : ((E1 ++ a :: E2).filter (fun e => isOpen e.val)).length ≤ 1) :
    ((E1 ++ b :: E2).filter (fun e => isOpen e.val)).length ≤ 1 := by
  simp only [List.filter_append, List.filter_cons, ha, hb, if_true, List.length_append, List.length_cons,
    Bool.false_eq_true, if_false] at h ⊢
  omega

theorem getLast_split {α} (a : α) (l : List α) : ∃ init last, a :: l = init ++ [last] ∧
    (a :: l).getLast? = some last ∧ (a :: l).dropLast = init := by
  rcases eq_nil_or_snoc (a :: l) with h | ⟨d, x, h⟩
  · cases h
  · exact ⟨d, x, h, by rw [h, List.getLast?_concat], by rw [h, List.dropLast_concat]⟩

/-- (STOP-AT) `closeOpenRange` with a non-empty list of extra summary lines -/
theorem stop_at_cons (file : Bytes) (hcr : file.getLast? ≠ some 13) (rs : List Record) (bos : List BlockOut)
    (hp : parseDoc file = .records rs bos) (i : Nat) (r : Record) (bo : BlockOut)
    (hr : rs[i]? = some r) (hbo : bos[i]? = some bo) (E1 E2 : List Entry) (s : Time) (sp : Bool) (x : Nat)
    (sm : List (List Char)) (hE : r.entries = E1 ++ ⟨.openRange s sp x, sm⟩ :: E2) (_hE1 : ∀ p ∈ E1, isOpen p.val = false)
    (e' : Time) (hw : e'.wf = true) (hord : s.offset ≤ e'.offset) (a0 : Bytes) (rest : List Bytes)
    (hadd : CleanSummary (a0 :: rest)) (rs' : List Record) (bos' : List BlockOut)
    (hp' : parseDoc (joinLines (closeLines (elect (determine r bo.lines) rs (bos.map (·.lines))) (bos.map (·.lines)).flatten
        (indexOfLastSignificantLine bo.first bo.lines - countLines (r.entries.drop E1.length)) sm
        (bytesOfChars e'.print) (a0 :: rest))) = .records rs' bos') :
    (joinLines (closeLines (elect (determine r bo.lines) rs (bos.map (·.lines))) (bos.map (·.lines)).flatten
        (indexOfLastSignificantLine bo.first bo.lines - countLines (r.entries.drop E1.length)) sm
        (bytesOfChars e'.print) (a0 :: rest))).getLast? ≠ some 13 ∧
    rs' = rs.take i ++ [{ r with entries := E1 ++ ⟨.range s e' sp, Spec.appendSummary sm ((a0 :: rest).map decodeGo)⟩ :: E2 }] ++
      rs.drop (i + 1) := by
  obtain ⟨B1, R2, pre, post, S1, KLc, CL, lv, hlc, hd, sums, ind, g1, g2, sv, v, texts,
    c1, c2, c3, c4, c5, c6, c7, c8, c9, c10, c11, c12, c13, c14, c15, c16, c17, c18, c19, c20, c21, c22, c23, c24⟩ :=
    open_entry_ctx file hcr rs bos hp i r bo hr hbo E1 E2 s sp x sm hE
  generalize hst : elect (determine r bo.lines) rs (bos.map (·.lines)) = st at hp' c22 c23 ⊢
  obtain ⟨vs', restB, vsOld, d1, d2, d3, d4, d5, d6, d7, d8, d9⟩ :=
    open_line_surgery lv.text ind sv c16 v s sp x e' c8 c9 c10 hw hord
  -- the group of the new lines
  obtain ⟨lastT, hlastT, hgrp⟩ := stop_grp ind c16 vs' (.range s e' sp) (fun c hc => ⟨(d6 c hc).1, (d6 c hc).2.1⟩) d7 d8 d9
    restB v.rest d1 d2 texts c12 (KLc.map (·.text)) (by simpa [List.map_map, Function.comp_def] using c13) a0 rest hadd
  rw [← c11] at hgrp
  -- the lines
  generalize hX : B1.flatten ++ pre ++ S1 = X at c1 c2 c3 c4
  generalize hY : CL ++ post ++ R2 = Y at c1 c2
  rw [c1, c4] at hp' ⊢
  simp only [closeLines] at hp' ⊢
  rw [modifyLine_split, d5] at hp' ⊢
  generalize hlv1 : ({ lv with text := encode (ind ++ vs') ++ restB } : Line) = lv1 at hp' ⊢
  have hlv1t : lv1.text = encode (ind ++ vs') ++ restB := by rw [← hlv1]
  have hlv1e : lv1.ending = lv.ending := by rw [← hlv1]
  -- goodness of the value line
  have hlvm : lv ∈ X ++ lv :: (KLc ++ Y) := by simp
  have hvsne : encode (ind ++ vs') ≠ [] := by
    obtain ⟨c, r', e, _⟩ := d7
    obtain ⟨ci, ri, ei, _⟩ := indent_head ind c16
    rw [ei, List.cons_append, encode_cons]
    obtain ⟨b, bs, eb⟩ := encodeChar_cons ci
    rw [eb]; simp
  have hvsLF : LF ∉ encode (ind ++ vs') := by
    apply encode_noLF
    intro c hc
    rcases List.mem_append.mp hc with h | h
    · exact indent_noLF ind c16 c h
    · exact (d6 c h).2.2.1
  have hvsCR : (encode (ind ++ vs')).getLast? ≠ some CR := by
    intro h
    have := encode_getLast_CR _ h
    obtain ⟨c0, r0, e0, _⟩ := d7
    rw [getLast?_append_of_ne_nil _ _ (by rw [e0]; simp)] at this
    exact (d6 _ (List.mem_of_getLast? this)).2.2.2 rfl
  obtain ⟨g1a, g1b⟩ := lineGood_mod file _ c2 lv hlvm (encode (ind ++ vs') ++ restB)
    (by
      intro hm
      rcases List.mem_append.mp hm with h | h
      · exact hvsLF h
      · exact c2.noLF lv hlvm (by rw [d3]; simp [h]))
    (by simp [hvsne])
    (by
      intro hold
      by_cases hrb : restB = []
      · rw [hrb, List.append_nil]; exact hvsCR
      · rw [getLast?_append_of_ne_nil _ _ hrb]
        rw [d3, getLast?_append_of_ne_nil _ _ hrb] at hold
        exact hold)
  rw [hlv1] at g1a g1b
  have G1 := good_replace file _ X (KLc ++ Y) lv lv1 c2 rfl hlv1e g1a (by rw [hlv1t]; exact g1b)
  -- the last line of the entry
  obtain ⟨KLi, ll, hsplit, _, _⟩ := getLast_split lv1 KLc
  have hTsplit : (encode (ind ++ vs') ++ restB) :: KLc.map (·.text) = KLi.map (·.text) ++ [ll.text] := by
    have := congrArg (List.map (·.text)) hsplit
    simpa [hlv1t] using this
  have hlastT' : lastT = ll.text := by
    rw [hTsplit, List.getLast?_concat] at hlastT
    exact (Option.some.inj hlastT).symm
  have hdropT : ((encode (ind ++ vs') ++ restB) :: KLc.map (·.text)).dropLast = KLi.map (·.text) := by
    rw [hTsplit, List.dropLast_concat]
  have hsmlen : sm.length = 1 + KLc.length := by
    rw [c11]
    have := congrArg List.length c13
    simp at this
    simp [this]
    omega
  have hlen1 : KLi.length = KLc.length := by
    have := congrArg List.length hsplit
    simp at this
    omega
  have hL1 : X ++ lv1 :: (KLc ++ Y) = (X ++ KLi) ++ ll :: Y := by
    rw [show X ++ lv1 :: (KLc ++ Y) = X ++ ((lv1 :: KLc) ++ Y) by simp, hsplit]; simp
  have hlastidx : X.length + sm.length - 1 = (X ++ KLi).length := by
    rw [hsmlen, List.length_append, hlen1]; omega
  rw [hlastidx] at hp' ⊢
  have hget : (X ++ lv1 :: (KLc ++ Y))[(X ++ KLi).length]? = some ll := by
    rw [hL1]; simp
  rw [lineLastBlank_eq _ _ ll hget, ← hlastT'] at hp' ⊢
  generalize hsep : (if (a0.isEmpty || (sm == [[]] && lastBlank lastT)) = true then ([] : Bytes) else [SP]) = sep at hp' ⊢ hgrp
  rw [hL1, modifyLine_split] at hp' ⊢
  generalize hll2 : ({ ll with text := ll.text ++ (sep ++ a0) } : Line) = ll2 at hp' ⊢
  have hll2t : ll2.text = ll.text ++ (sep ++ a0) := by rw [← hll2]
  have hll2e : ll2.ending = ll.ending := by rw [← hll2]
  have hllm : ll ∈ (X ++ KLi) ++ ll :: Y := by simp
  rw [hL1] at G1
  have hsepLF : LF ∉ sep ++ a0 := by
    intro hm
    rcases List.mem_append.mp hm with h | h
    · rw [← hsep] at h
      split at h
      · cases h
      · simp only [List.mem_singleton] at h; exact absurd h (by decide)
    · exact (hadd.1 a0 (by simp)).1 h
  have hllne : ll.text ≠ [] := by
    have hsigall := c5
    have : ll ∈ S1 ++ lv :: (KLc ++ CL) ∨ ll = lv1 := by
      have hmem : ll ∈ lv1 :: KLc := by rw [hsplit]; simp
      rcases List.mem_cons.mp hmem with h | h
      · exact Or.inr h
      · exact Or.inl (by simp [h])
    rcases this with h | h
    · have := hsigall ll h
      intro h0
      rw [Line.isBlank, h0] at this
      simp at this
    · rw [h, hlv1t]; simp [hvsne]
  obtain ⟨g2a, g2b⟩ := lineGood_mod _ _ G1 ll hllm (ll.text ++ (sep ++ a0))
    (by
      intro hm
      rcases List.mem_append.mp hm with h | h
      · exact G1.noLF ll hllm h
      · exact hsepLF h)
    (by simp [hllne])
    (by
      intro hold
      by_cases ha : a0 = []
      · have : sep = [] := by rw [← hsep, ha]; rfl
        rw [ha, this]
        simpa using hold
      · rw [← List.append_assoc, getLast?_append_of_ne_nil _ _ ha]
        exact (hadd.1 a0 (by simp)).2)
  rw [hll2] at g2a g2b
  have G2 := good_replace _ _ (X ++ KLi) Y ll ll2 G1 rfl hll2e g2a (by rw [hll2t]; exact g2b)
  -- the new continuation lines
  have hrestclean : ∀ s ∈ rest, CleanLine s := fun s hs => hadd.1 s (by simp [hs])
  have hnewlines : (rest.map (fun s => ((s, 2) : Insertable))).map (mkLine st) =
      rest.map (fun s => (⟨st.indentation.1 ++ st.indentation.1 ++ s, st.lineEnding.1⟩ : Line)) := by
    rw [List.map_map]
    apply List.map_congr_left
    intro s hs
    exact mkLine_level2 st c23 s (hrestclean s hs)
  have hnewclean : ∀ l ∈ rest.map (fun s => (⟨st.indentation.1 ++ st.indentation.1 ++ s, st.lineEnding.1⟩ : Line)), Clean l := by
    intro l hl
    rw [← hnewlines] at hl
    obtain ⟨t, ht, rfl⟩ := List.mem_map.mp hl
    obtain ⟨s, hs, rfl⟩ := List.mem_map.mp ht
    exact mkLine_clean st c23 s 2 (hrestclean s hs)
  have hnewsig : AllSig (rest.map (fun s => (⟨st.indentation.1 ++ st.indentation.1 ++ s, st.lineEnding.1⟩ : Line))) := by
    intro l hl
    obtain ⟨s, hs, rfl⟩ := List.mem_map.mp hl
    exact all_append_false _ _ (blank_bytes_summary s (hadd.2 s (by simpa using hs)))
  have hnewdec : (rest.map (fun s => (⟨st.indentation.1 ++ st.indentation.1 ++ s, st.lineEnding.1⟩ : Line))).map (fun l => decodeGo l.text) =
      rest.map (fun s => ind ++ ind ++ decodeGo s) := by
    rw [List.map_map]
    apply List.map_congr_left
    intro s _
    obtain ⟨_, _, h3, _⟩ := indent_bytes_props _ c23.ind
    simp only [Function.comp]
    rw [decodeGo_append_ascii _ (by
      intro b hb
      rcases List.mem_append.mp hb with hb | hb <;> exact h3 b hb), asciiChars_append, ← c22]
  -- both shapes of the result
  have hKL2 : (KLi ++ [ll2]).map (fun l => decodeGo l.text) =
      (((encode (ind ++ vs') ++ restB) :: KLc.map (·.text)).dropLast ++ [lastT ++ (sep ++ a0)]).map decodeGo := by
    rw [hdropT, hlastT', ← hll2t]
    simp [List.map_map, Function.comp_def]
  have hsigold : ∀ l ∈ S1 ++ lv :: (KLc ++ CL), l.isBlank = false := c5
  have hKL2sig : AllSig (KLi ++ [ll2]) := by
    intro l hl
    rcases List.mem_append.mp hl with h | h
    · have hmem : l ∈ lv1 :: KLc := by rw [hsplit]; simp [h]
      rcases List.mem_cons.mp hmem with h' | h'
      · rw [h', Line.isBlank, hlv1t]
        obtain ⟨c, r', e, hc⟩ := d7
        obtain ⟨_, _, cl, hcl1, hcl2⟩ : True ∧ True ∧ ∃ cl, vs'.getLast? = some cl ∧ isSpTab cl = false := ⟨trivial, trivial, d8⟩
        have hclm := List.mem_of_getLast? hcl1
        apply all_append_false_left
        rw [encode_append]
        apply all_append_false
        exact encode_not_blank vs' cl hclm (by intro h0; subst h0; simp [isSpTab] at hcl2) (by intro h0; subst h0; simp [isSpTab] at hcl2)
      · exact hsigold l (by simp [h'])
    · simp only [List.mem_singleton] at h
      rw [h, Line.isBlank, hll2t]
      apply all_append_false_left
      have hmem : ll ∈ lv1 :: KLc := by rw [hsplit]; simp
      rcases List.mem_cons.mp hmem with h' | h'
      · rw [h', hlv1t]
        obtain ⟨cl, hcl1, hcl2⟩ := d8
        have hclm := List.mem_of_getLast? hcl1
        apply all_append_false_left
        rw [encode_append]
        apply all_append_false
        exact encode_not_blank vs' cl hclm (by intro h0; subst h0; simp [isSpTab] at hcl2) (by intro h0; subst h0; simp [isSpTab] at hcl2)
      · exact hsigold ll (by simp [h'])
  have hS1sig : AllSig S1 := fun l hl => hsigold l (by simp [hl])
  have hCLsig : AllSig CL := fun l hl => hsigold l (by simp [hl])
  have hcount := (parseDoc_wf0 file rs bos hp r (List.mem_of_getElem? hr)).2.2.2.2
  rw [hE] at hcount
  -- the parse of the new record, for any lines with the characters of the new group
  have hfinal : ∀ (KLn : List Line), KLn ≠ [] → AllSig KLn →
      KLn.map (fun l => decodeGo l.text) =
        (((encode (ind ++ vs') ++ restB) :: KLc.map (·.text)).dropLast ++ [lastT ++ (sep ++ a0)]).map decodeGo ++
          rest.map (fun s => ind ++ ind ++ decodeGo s) →
      splitLines (joinLines (X ++ KLn ++ Y)) = X ++ KLn ++ Y →
      parseDoc (joinLines (X ++ KLn ++ Y)) = .records rs' bos' →
      rs' = rs.take i ++ [{ r with entries := E1 ++ ⟨.range s e' sp, Spec.appendSummary sm ((a0 :: rest).map decodeGo)⟩ :: E2 }] ++
        rs.drop (i + 1) := by
    intro KLn hne hsig hchars hsp hpd
    have hN : X ++ KLn ++ Y = B1.flatten ++ (pre ++ (S1 ++ KLn ++ CL) ++ post ++ R2) := by
      rw [← hX, ← hY]; simp
    rw [hN] at hsp hpd
    obtain ⟨r', hr', hrs'⟩ := c24 (S1 ++ KLn ++ CL) (by simp [hne]) (by
      intro l hl
      rcases List.mem_append.mp hl with h | h
      · rcases List.mem_append.mp h with h | h
        · exact hS1sig l h
        · exact hsig l h
      · exact hCLsig l h) rs' bos' hsp hpd
    have hall : AllGrp ind (g1 ++ (KLn.map (fun l => decodeGo l.text),
        (⟨.range s e' sp, Spec.appendSummary sm ((a0 :: rest).map decodeGo)⟩ : Entry)) :: g2) := by
      intro g hg
      rcases List.mem_append.mp hg with hg | hg
      · exact c17 g hg
      · rcases List.mem_cons.mp hg with rfl | hg
        · rw [hchars]; exact hgrp
        · exact c18 g hg
    have hnew := rec_gcomplete pre.length hlc hd sums ind _ c7 c15 c16 hall (by
      simp only [List.map_append, List.map_cons, c19, c20]
      exact filter_open_closed E1 E2 _ _ rfl rfl hcount)
    have hchars' : (S1 ++ KLn ++ CL).map (fun l => decodeGo l.text) =
        hlc :: (sums ++ flatG (g1 ++ (KLn.map (fun l => decodeGo l.text),
          (⟨.range s e' sp, Spec.appendSummary sm ((a0 :: rest).map decodeGo)⟩ : Entry)) :: g2)) := by
      simp only [List.map_append, c6, c14, flatG_append, flatG_cons, List.cons_append, List.append_assoc]
    rw [hchars', hnew] at hr'
    simp only [ParseOut.record.injEq] at hr'
    rw [hrs', ← hr', c21]
    simp [c19, c20]
  by_cases hre : rest.isEmpty = true
  · -- no further lines
    have hrest : rest = [] := List.isEmpty_iff.mp hre
    simp only [hre, if_true] at hp' ⊢
    have hshape : (X ++ KLi) ++ ll2 :: Y = X ++ (KLi ++ [ll2]) ++ Y := by simp
    rw [hshape] at hp' G2 ⊢
    refine ⟨good_noCR_end _ _ G2, ?_⟩
    exact hfinal (KLi ++ [ll2]) (by simp) hKL2sig (by rw [hKL2, hrest]; simp) G2.split hp'
  · simp only [hre, Bool.false_eq_true, if_false] at hp' ⊢
    rw [insertLines_ins, hnewlines] at hp' ⊢
    have G3 := good_insert _ _ G2 st c23.ending ((X ++ KLi).length + 1)
      (rest.map (fun s => (⟨st.indentation.1 ++ st.indentation.1 ++ s, st.lineEnding.1⟩ : Line))) hnewclean
    have hins : ins st ((X ++ KLi) ++ ll2 :: Y) ((X ++ KLi).length + 1)
        (rest.map (fun s => (⟨st.indentation.1 ++ st.indentation.1 ++ s, st.lineEnding.1⟩ : Line))) =
        X ++ (fixLast st (KLi ++ [ll2]) ++ rest.map (fun s => (⟨st.indentation.1 ++ st.indentation.1 ++ s, st.lineEnding.1⟩ : Line))) ++ Y := by
      unfold ins
      have e : (X ++ KLi) ++ ll2 :: Y = (X ++ (KLi ++ [ll2])) ++ Y := by simp
      have hl : (X ++ (KLi ++ [ll2])).length = (X ++ KLi).length + 1 := by simp; omega
      rw [e, ← hl, List.take_left' rfl, List.drop_left' rfl, fixLast_append st X _ (by simp)]
      simp
    rw [hins] at hp' G3 ⊢
    refine ⟨good_noCR_end _ _ G3, ?_⟩
    refine hfinal _ (by simp [fixLast_ne_nil st _ (show KLi ++ [ll2] ≠ [] by simp)]) ?_ ?_ G3.split hp'
    · intro l hl
      rcases List.mem_append.mp hl with h | h
      · exact fixLast_allSig st _ hKL2sig l h
      · exact hnewsig l h
    · rw [List.map_append, fixLast_map_decode, hKL2, hnewdec]

end KlogV.RefineBLemmas
