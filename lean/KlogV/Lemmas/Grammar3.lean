/- C01 lemmas, part 3: entry values of the grammar vs. `parseValue`. -/
import KlogV.Lemmas.Grammar2
namespace KlogV.GrammarLemmas
open KlogV

/-- what may follow an entry value on its line: nothing, or a blank and more text -/
def TailOK (tail : List Char) : Prop := tail = [] ∨ ∃ c r, tail = c :: r ∧ isSpTab c = true

theorem peek_split (p : Char → Bool) (s : List Char) :
    s = peekUntil p s ++ s.drop (peekUntil p s).length ∧ (∀ x ∈ peekUntil p s, p x = false) ∧
      (s.drop (peekUntil p s).length = [] ∨ ∃ c r, s.drop (peekUntil p s).length = c :: r ∧ p c = true) := by
  induction s with
  | nil => simp [peekUntil]
  | cons a s ih =>
    unfold peekUntil at ih ⊢
    by_cases ha : p a = true
    · simp [ha]
    · have ha' : p a = false := by simpa using ha
      simp only [List.takeWhile_cons, ha', Bool.not_false, if_true, List.length_cons, List.drop_succ_cons,
        List.cons_append, List.mem_cons, forall_eq_or_imp, true_and]
      exact ⟨by rw [← ih.1], ih.2.1, ih.2.2⟩

theorem dropWhile_spaces (sp : List Char) (c : Char) (r : List Char) (hsp : Spec.Spaces sp) (hc : c ≠ ' ') :
    (sp ++ c :: r).dropWhile (· == ' ') = c :: r := by
  induction sp with
  | nil => simp [hc]
  | cons x sp ih =>
    have hx : x = ' ' := hsp x (by simp)
    subst hx
    simp only [List.cons_append]
    rw [List.dropWhile_cons_of_pos (by decide)]
    exact ih (fun y hy => hsp y (by simp [hy]))

theorem spaces_split (r : List Char) :
    ∃ sp, Spec.Spaces sp ∧ r = sp ++ r.dropWhile (· == ' ') := by
  refine ⟨r.takeWhile (· == ' '), ?_, (List.takeWhile_append_dropWhile).symm⟩
  intro c hc
  have := (List.all_eq_true.mp (List.all_takeWhile (p := (· == ' ')) (l := r))) c hc
  simpa using this

theorem spaced_eq (sp r2 : List Char) : (r2.length != (sp ++ r2).length) = decide (sp ≠ []) := by
  cases sp with
  | nil => simp
  | cons a sp => simp; omega

/-! ## completeness -/

theorem pvEnd_open' (p0 total : Int) (s : Time) (spaced : Bool) (n : Nat) (tail : List Char) (hx : TailOK tail) :
    ∃ sp sl, pvEnd p0 total s spaced ('?' :: (List.replicate n '?' ++ tail)) =
      .ok ⟨.openRange s spaced n, tail, sp, sl⟩ := by
  have hrep : peekUntil isSpTab (List.replicate n '?' ++ tail) = List.replicate n '?' :=
    peekUntil_run _ _ _ (fun x hx => by rw [List.eq_of_mem_replicate hx]; decide) hx
  have hall : (List.replicate n '?').all (· == '?') = true := by simp
  unfold pvEnd
  simp only [hrep, hall, if_true, List.drop_left', List.length_replicate]
  exact ⟨_, _, rfl⟩

theorem pvEnd_time' (p0 total : Int) (s t : Time) (s2 : List Char) (ht : Time.parse s2 = some t)
    (ho : s.offset ≤ t.offset) (spaced : Bool) (tail : List Char) (hx : TailOK tail) :
    ∃ sp sl, pvEnd p0 total s spaced (s2 ++ tail) = .ok ⟨.range s t spaced, tail, sp, sl⟩ := by
  obtain ⟨hall, _, c, r, e, hc⟩ := parse_time_chars ht
  have hend : peekUntil isSpTab (s2 ++ tail) = s2 :=
    peekUntil_run _ _ _ (fun x hx => timeChar_not_spTab x (hall x hx)) hx
  have hlen : (s2.length == 0) = false := by rw [e]; simp
  have hq : c ≠ '?' := by
    rcases hc with rfl | hc
    · decide
    · intro h; subst h; exact absurd hc (by decide)
  have hao : t.afterOrEqual s = true := by simp [Time.afterOrEqual, ho]
  unfold pvEnd
  split
  · rename_i r5 heq
    rw [e] at heq
    simp only [List.cons_append, List.cons.injEq] at heq
    exact absurd heq.1 hq
  · simp only [hend, hlen, ht, hao, List.drop_left, if_true]
    exact ⟨_, _, rfl⟩

/-- `parseValue` on a start time followed by the rest of a range -/
theorem parseValue_start' (s1 : List Char) (t1 : Time) (h1 : Time.parse s1 = some t1) (c : Char) (rest : List Char)
    (hc : (c == '-' || c == ' ') = true) (p0 : Int) :
    parseValue p0 (s1 ++ c :: rest) = pvTail p0 (p0 + (s1 ++ c :: rest).length) t1 (c :: rest) := by
  obtain ⟨hall, hcolon, x, r, e, hx⟩ := parse_time_chars h1
  have hdur : Dur.parse (peekUntil isSpTab (s1 ++ c :: rest)) = .err := by
    rw [peekUntil_append_left _ _ _ (fun x hx => timeChar_not_spTab x (hall x hx))]
    exact parse_dur_err_of_mem ':' (List.mem_append_left _ hcolon) (by unfold isDurChar; decide)
  have hstart : peekUntil (fun c => c == '-' || c == ' ') (s1 ++ c :: rest) = s1 :=
    peekUntil_run _ _ _ (fun x hx => timeChar_not_sep x (hall x hx)) (Or.inr ⟨c, _, rfl, hc⟩)
  have hlen : (s1.length == 0) = false := by rw [e]; simp
  rw [parseValue_eq]
  simp only [hdur, hstart, hlen, h1, List.drop_left, Bool.false_eq_true, if_false]

theorem time_head_ne_space {s : List Char} {t : Time} (h : Time.parse s = some t) :
    ∃ c r, s = c :: r ∧ c ≠ ' ' := by
  obtain ⟨_, _, c, r, e, hc⟩ := parse_time_chars h
  refine ⟨c, r, e, ?_⟩
  rcases hc with rfl | hc
  · decide
  · intro h; subst h; exact absurd hc (by decide)

theorem pvTail_dash (p0 total : Int) (t1 : Time) (sp1 sp2 : List Char) (c : Char) (r : List Char)
    (hsp1 : Spec.Spaces sp1) (hsp2 : Spec.Spaces sp2) (hc : c ≠ ' ') :
    pvTail p0 total t1 (sp1 ++ '-' :: (sp2 ++ c :: r)) = pvEnd p0 total t1 (decide (sp1 ≠ [])) (c :: r) := by
  unfold pvTail
  have e1 := dropWhile_spaces sp1 '-' (sp2 ++ c :: r) hsp1 (by decide)
  have e2 := dropWhile_spaces sp2 c r hsp2 hc
  simp only [e1, e2]
  rw [spaced_eq]

theorem entryValue_parse {vs : List Char} {v : EntryVal} (h : Spec.EntryValue vs v) (hn : ¬ HasLongDigitRun vs)
    (tail : List Char) (hx : TailOK tail) (p0 : Int) :
    ∃ sp sl, parseValue p0 (vs ++ tail) = .ok ⟨v, tail, sp, sl⟩ := by
  cases h with
  | dur s d hd =>
    have hp := durLit_parse hd hn
    obtain ⟨hch, _⟩ := parse_dur_ok_chars hp
    have hpeek : peekUntil isSpTab (vs ++ tail) = vs :=
      peekUntil_run _ _ _ (fun x hx => isDurChar_not_spTab (hch x hx)) hx
    rw [parseValue_eq]
    simp only [hpeek, hp, List.drop_left]
    exact ⟨_, _, rfl⟩
  | range s1 s2 sp1 sp2 t1 t2 h1 h2 hsp hord =>
    have p1 := timeLit_parse h1
    have p2 := timeLit_parse h2
    obtain ⟨c2, r2, e2, hc2⟩ := time_head_ne_space p2
    have hform : s1 ++ sp1 ++ ['-'] ++ sp2 ++ s2 ++ tail = s1 ++ (sp1 ++ '-' :: (sp2 ++ c2 :: (r2 ++ tail))) := by
      rw [e2]; simp
    rw [hform]
    cases hsp1 : sp1 ++ '-' :: (sp2 ++ c2 :: (r2 ++ tail)) with
    | nil => simp at hsp1
    | cons c rest =>
      have hc : (c == '-' || c == ' ') = true := by
        cases sp1 with
        | nil => simp at hsp1; rw [← hsp1.1]; decide
        | cons a sp1' =>
          simp at hsp1
          rw [← hsp1.1, hsp.1 a (by simp)]; decide
      rw [parseValue_start' s1 t1 p1 c rest hc, ← hsp1, pvTail_dash _ _ _ _ _ _ _ hsp.1 hsp.2 hc2]
      have := pvEnd_time' p0 (p0 + ↑(s1 ++ (sp1 ++ '-' :: (sp2 ++ c2 :: (r2 ++ tail)))).length) t1 t2 s2 p2 hord
        (decide (sp1 ≠ [])) tail hx
      rw [e2] at this
      exact this
  | openRange s1 sp1 sp2 t1 extra h1 hsp =>
    have p1 := timeLit_parse h1
    have hform : s1 ++ sp1 ++ ['-'] ++ sp2 ++ List.replicate (extra + 1) '?' ++ tail =
        s1 ++ (sp1 ++ '-' :: (sp2 ++ '?' :: (List.replicate extra '?' ++ tail))) := by
      simp [List.replicate_succ]
    rw [hform]
    cases hsp1 : sp1 ++ '-' :: (sp2 ++ '?' :: (List.replicate extra '?' ++ tail)) with
    | nil => simp at hsp1
    | cons c rest =>
      have hc : (c == '-' || c == ' ') = true := by
        cases sp1 with
        | nil => simp at hsp1; rw [← hsp1.1]; decide
        | cons a sp1' =>
          simp at hsp1
          rw [← hsp1.1, hsp.1 a (by simp)]; decide
      rw [parseValue_start' s1 t1 p1 c rest hc, ← hsp1, pvTail_dash _ _ _ _ _ _ _ hsp.1 hsp.2 (by decide)]
      exact pvEnd_open' _ _ t1 _ extra tail hx

/-! ## soundness -/

theorem all_q_replicate (rep : List Char) (h : rep.all (· == '?') = true) : rep = List.replicate rep.length '?' := by
  induction rep with
  | nil => rfl
  | cons a rep ih =>
    simp only [List.all_cons, Bool.and_eq_true, beq_iff_eq] at h
    rw [h.1, List.length_cons, List.replicate_succ, ← ih h.2]

theorem pvEnd_sound {p0 total : Int} {start : Time} {spaced : Bool} {r4 : List Char} {v : ValueOk}
    (h : pvEnd p0 total start spaced r4 = .ok v) :
    ∃ body, r4 = body ++ v.rest ∧ TailOK v.rest ∧
      ((∃ extra, body = List.replicate (extra + 1) '?' ∧ v.val = .openRange start spaced extra) ∨
       (∃ t2, Spec.TimeLit body t2 ∧ start.offset ≤ t2.offset ∧ v.val = .range start t2 spaced)) := by
  unfold pvEnd at h
  split at h
  · rename_i r5
    dsimp only at h
    obtain ⟨k1, _, k3⟩ := peek_split isSpTab r5
    split at h
    · rename_i hall
      simp only [ValueRes.ok.injEq] at h
      subst h
      refine ⟨'?' :: peekUntil isSpTab r5, ?_, k3, Or.inl ⟨(peekUntil isSpTab r5).length, ?_, rfl⟩⟩
      · dsimp only; rw [List.cons_append, ← k1]
      · rw [List.replicate_succ, ← all_q_replicate _ hall]
    · cases h
  · dsimp only at h
    obtain ⟨k1, _, k3⟩ := peek_split isSpTab r4
    split at h
    · cases h
    · split at h
      · cases h
      · rename_i e he
        split at h
        · rename_i hao
          simp only [ValueRes.ok.injEq] at h
          subst h
          refine ⟨peekUntil isSpTab r4, k1, k3, Or.inr ⟨e, parse_timeLit he, ?_, rfl⟩⟩
          simpa [Time.afterOrEqual] using hao
        · cases h

theorem pvTail_sound {p0 total : Int} {start : Time} {r1 : List Char} {v : ValueOk}
    (h : pvTail p0 total start r1 = .ok v) :
    ∃ sp1 sp2 body, r1 = sp1 ++ ['-'] ++ sp2 ++ body ++ v.rest ∧ Spec.Spaces sp1 ∧ Spec.Spaces sp2 ∧ TailOK v.rest ∧
      ((∃ extra, body = List.replicate (extra + 1) '?' ∧ v.val = .openRange start (decide (sp1 ≠ [])) extra) ∨
       (∃ t2, Spec.TimeLit body t2 ∧ start.offset ≤ t2.offset ∧ v.val = .range start t2 (decide (sp1 ≠ [])))) := by
  unfold pvTail at h
  dsimp only at h
  obtain ⟨sp1, hs1, e1⟩ := spaces_split r1
  split at h
  · rename_i r3 heq
    obtain ⟨sp2, hs2, e2⟩ := spaces_split r3
    obtain ⟨body, e3, k, hcases⟩ := pvEnd_sound h
    rw [heq] at e1
    refine ⟨sp1, sp2, body, ?_, hs1, hs2, k, ?_⟩
    · rw [e1, e2, e3]; simp
    · have hsp : ((List.dropWhile (fun x => x == ' ') r1).length != r1.length) = decide (sp1 ≠ []) := by
        rw [heq, e1]; exact spaced_eq sp1 ('-' :: r3)
      rw [hsp] at hcases
      exact hcases
  · cases h

theorem parseValue_sound {p0 : Int} {s : List Char} {v : ValueOk} (h : parseValue p0 s = .ok v) :
    ∃ vs, s = vs ++ v.rest ∧ Spec.EntryValue vs v.val ∧ TailOK v.rest := by
  rw [parseValue_eq] at h
  split at h
  · cases h
  · rename_i d hd
    simp only [ValueRes.ok.injEq] at h
    subst h
    obtain ⟨k1, _, k3⟩ := peek_split isSpTab s
    exact ⟨peekUntil isSpTab s, k1, Spec.EntryValue.dur _ d (parse_durLit hd), k3⟩
  · split at h
    · cases h
    · split at h
      · cases h
      · rename_i start hst
        obtain ⟨k1, _, _⟩ := peek_split (fun c => c == '-' || c == ' ') s
        obtain ⟨sp1, sp2, body, e, hs1, hs2, k, hcases⟩ := pvTail_sound h
        have hl := parse_timeLit hst
        rcases hcases with ⟨extra, rfl, hv⟩ | ⟨t2, ht2, hord, hv⟩
        · refine ⟨peekUntil (fun c => c == '-' || c == ' ') s ++ sp1 ++ ['-'] ++ sp2 ++ List.replicate (extra + 1) '?', ?_, ?_, k⟩
          · conv => lhs; rw [k1, e]
            simp
          · rw [hv]
            exact Spec.EntryValue.openRange _ sp1 sp2 start extra hl ⟨hs1, hs2⟩
        · refine ⟨peekUntil (fun c => c == '-' || c == ' ') s ++ sp1 ++ ['-'] ++ sp2 ++ body, ?_, ?_, k⟩
          · conv => lhs; rw [k1, e]
            simp
          · rw [hv]
            exact Spec.EntryValue.range _ body sp1 sp2 start t2 hl ht2 ⟨hs1, hs2⟩ hord

/-- the first character of an entry value is not blank -/
theorem entryValue_head {vs : List Char} {v : EntryVal} (h : Spec.EntryValue vs v) (hn : ¬ HasLongDigitRun vs) :
    ∃ c r, vs = c :: r ∧ isSpTab c = false := by
  cases h with
  | dur s d hd =>
    obtain ⟨hch, c, r, rfl⟩ := parse_dur_ok_chars (durLit_parse hd hn)
    exact ⟨c, r, rfl, isDurChar_not_spTab (hch c (by simp))⟩
  | range s1 s2 sp1 sp2 t1 t2 h1 h2 hsp hord =>
    obtain ⟨hall, _, c, r, rfl, _⟩ := parse_time_chars (timeLit_parse h1)
    exact ⟨c, r ++ sp1 ++ ['-'] ++ sp2 ++ s2, by simp, timeChar_not_spTab c (hall c (by simp))⟩
  | openRange s1 sp1 sp2 t1 extra h1 hsp =>
    obtain ⟨hall, _, c, r, rfl, _⟩ := parse_time_chars (timeLit_parse h1)
    exact ⟨c, r ++ sp1 ++ ['-'] ++ sp2 ++ List.replicate (extra + 1) '?', by simp, timeChar_not_spTab c (hall c (by simp))⟩

end KlogV.GrammarLemmas
