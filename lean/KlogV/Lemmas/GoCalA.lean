/- Helper lemmas for KlogV/Props/GoCal.lean (the translated date / period code computes the model's calendar), part A. Core Lean only. -/
import KlogV.GoSem.AbsCal
import KlogV.Lemmas.GoCalA1
set_option linter.unusedSimpArgs false
set_option linter.unusedVariables false
namespace KlogV.GoL
open KlogV.Go

theorem natCast_beq (a b : Nat) : ((a : Int) == (b : Int)) = (a == b) := by
  rw [Bool.eq_iff_iff]; simp only [beq_iff_eq]; omega

theorem natCast_bne (a b : Nat) : ((a : Int) != (b : Int)) = (a != b) := by
  simp only [bne, natCast_beq]

theorem natCast_ge (a b : Nat) : ge (a : Int) (b : Int) = decide (a ≥ b) := by
  unfold ge; rw [Bool.eq_iff_iff]; simp only [decide_eq_true_eq]; omega

theorem newDate_eq (y m d : Nat) : (GoCal.NewDate y m d).res = (optRes (mkDate y m d)).map Date.toGo := by
  rw [newDate_spec, daysInInt_cast]
  unfold mkDate
  simp only
  by_cases hv : (⟨y, m, d, true⟩ : Date).valid = true
  · rw [if_pos hv]
    rw [valid_iff] at hv
    simp only at hv
    rw [if_pos (by omega)]
    rfl
  · rw [if_neg hv]
    rw [valid_iff] at hv
    simp only at hv
    rw [if_neg (by omega)]
    rfl

theorem newDate_negative (y m d : Int) (h : y < 0 ∨ m < 0 ∨ d < 0) : (GoCal.NewDate y m d).res = .err := by
  rw [newDate_spec, if_neg (by omega)]
  rfl

theorem date_toString_eq (x : Date) (h : x.valid = true) : x.toGo.ToString = .ok x.print := by
  rw [valid_iff] at h
  have hd := (daysInInt_bounds x.y x.m)
  have hd' := daysInInt_cast x.y x.m
  have e1 := fmtD0_pad4 x.y (by omega)
  have e2 := fmtD0_pad2_cal x.m (by omega)
  have e3 := fmtD0_pad2_cal x.d (by omega)
  cases hb : x.dashes <;>
    simp [GoCal.date.ToString, Date.toGo, Date.print, hb, e1, e2, e3, bind, Except.bind, pure, Except.pure]

theorem date_weekday_eq (x : Date) (h : x.valid = true) : x.toGo.Weekday = .ok (x.weekday : Int) := by
  have hw := weekday_bounds x
  simp only [GoCal.date.Weekday, GoCal.date2Civil, CivilDate.In, GoTime.Weekday, Date.toGo, toModel_ofDate, weekday_setDashes,
    toInt, GToInt.toInt, bind, Except.bind, pure, Except.pure, id]
  by_cases h7 : x.weekday = 7
  · simp [h7]
  · have h0 : ¬ (x.weekday = 0) := by omega
    simp [h7, h0]

theorem date_quarter_eq (x : Date) (h : x.valid = true) : x.toGo.Quarter = .ok (x.quarter : Int) := by
  simp only [GoCal.date.Quarter, GoCal.date.Month, Date.toGo, mathCeil, fdiv, f64OfInt, intOfF64, bind, Except.bind, pure, Except.pure,
    Int.tdiv_one, Date.quarter]
  congr 1
  omega

theorem date_weekNumber_eq (x : Date) (h : x.valid = true) :
    x.toGo.WeekNumber = .ok (x.isoWeek.1, (x.isoWeek.2 : Int)) := by
  simp only [GoCal.date.WeekNumber, GoCal.date2Civil, CivilDate.In, GoTime.ISOWeek, Date.toGo, toModel_ofDate, isoWeek_setDashes,
    bind, Except.bind, pure, Except.pure]

theorem date_isEqualTo_eq (a b : Date) : a.toGo.IsEqualTo b.toGo = .ok (a.sameDay b) := by
  simp only [GoCal.date.IsEqualTo, GoCal.date.Year, GoCal.date.Month, GoCal.date.Day, Date.toGo, Date.sameDay,
    bind, Except.bind, pure, Except.pure, natCast_beq]
  cases a.y == b.y <;> cases a.m == b.m <;> rfl

theorem date_isAfterOrEqual_eq (a b : Date) : a.toGo.IsAfterOrEqual b.toGo = .ok (a.afterOrEqual b) := by
  simp only [GoCal.date.IsAfterOrEqual, GoCal.date.Year, GoCal.date.Month, GoCal.date.Day, Date.toGo, Date.afterOrEqual,
    bind, Except.bind, pure, Except.pure, natCast_bne, natCast_ge]
  cases a.y != b.y <;> cases a.m != b.m <;> rfl

theorem addDays_toGo (x : Date) (n : Int) (h : x.valid = true) :
    (⟨x.y, x.m, x.d⟩ : CivilDate).AddDays n =
      .ok (match x.plusDays n with | some r => ⟨r.y, r.m, r.d⟩ | none => ⟨if n < 0 then -1 else 10000, 1, 1⟩) := by
  rw [valid_iff] at h
  have hy : 0 ≤ (x.y : Int) ∧ (x.y : Int) ≤ 9999 := by omega
  unfold CivilDate.AddDays
  simp only [hy, and_self, if_true, toModel_ofDate, plusDays_setDashes]
  cases x.plusDays n <;> rfl

theorem date_plusDays_some (x r : Date) (n : Int) (h : x.valid = true) (hr : x.plusDays n = some r) :
    x.toGo.PlusDays n = .ok r.toGo := by
  have hv := (plusDays_some x r n h hr).1
  have hd := plusDays_dashes x r n hr
  rw [valid_iff] at hv
  have c : (1 ≤ (r.m : Int) ∧ (r.m : Int) ≤ 12 ∧ 1 ≤ (r.d : Int) ∧ (r.d : Int) ≤ daysInInt r.y r.m) ∧ 0 ≤ (r.y : Int) ∧ (r.y : Int) ≤ 9999 := by
    rw [daysInInt_cast]; omega
  simp only [GoCal.date.PlusDays, GoCal.date2Civil, Date.toGo, addDays_toGo x n h, hr, civil2Date_spec, c, and_self, if_true,
    try2, isNil, GNil.isNil, bind, Except.bind, pure, Except.pure, hd]
  rfl

theorem date_plusDays_none (x : Date) (n : Int) (h : x.valid = true) (hr : x.plusDays n = none) :
    x.toGo.PlusDays n = .error .panic := by
  have c : ¬ ((1 ≤ (1 : Int) ∧ (1 : Int) ≤ 12 ∧ 1 ≤ (1 : Int) ∧ (1 : Int) ≤ daysInInt (if n < 0 then -1 else 10000) 1) ∧
      0 ≤ (if n < 0 then (-1 : Int) else 10000) ∧ (if n < 0 then (-1 : Int) else 10000) ≤ 9999) := by
    split <;> omega
  simp only [GoCal.date.PlusDays, GoCal.date2Civil, Date.toGo, addDays_toGo x n h, hr, civil2Date_spec, c, if_false,
    try2, isNil, GNil.isNil, bind, Except.bind, pure, Except.pure]
  rfl

theorem date_plusDays_eq (x : Date) (n : Int) (h : x.valid = true) :
    (x.toGo.PlusDays n).res = match x.plusDays n with | some r => .ok r.toGo | none => .panic := by
  cases hr : x.plusDays n with
  | some r => rw [date_plusDays_some x r n h hr]; rfl
  | none => rw [date_plusDays_none x n h hr]; rfl

end KlogV.GoL
