/-
C04b, part 14: the context of the open-range entry of a record inside the file: its lines, the
groups around it, and how the record is read again after an edit.
-/
import KlogV.Lemmas.RefineB13
namespace KlogV.RefineBLemmas
open KlogV KlogV.RefineLemmas KlogV.EditLemmas KlogV.GrammarLemmas

/-- (CTX) the lines of the open range of record `i` -/
theorem open_entry_ctx (file : Bytes) (hcr : file.getLast? ≠ some 13) (rs : List Record) (bos : List BlockOut)
    (hp : parseDoc file = .records rs bos) (i : Nat) (r : Record) (bo : BlockOut)
    (hr : rs[i]? = some r) (hbo : bos[i]? = some bo) (E1 E2 : List Entry) (s : Time) (sp : Bool) (x : Nat)
    (sm : List (List Char)) (hE : r.entries = E1 ++ ⟨.openRange s sp x, sm⟩ :: E2) :
    ∃ (B1 : List (List Line)) (R2 pre post S1 KLc CL : List Line) (lv : Line) (hlc : List Char) (hd : Head)
      (sums : List (List Char)) (ind : List Char) (g1 g2 : List G) (sv : List Char) (v : ValueOk) (texts : List (List Char)),
      (bos.map (·.lines)).flatten = (B1.flatten ++ pre ++ S1) ++ lv :: (KLc ++ (CL ++ post ++ R2)) ∧
      GoodLines file ((B1.flatten ++ pre ++ S1) ++ lv :: (KLc ++ (CL ++ post ++ R2))) ∧
      indexOfLastSignificantLine bo.first bo.lines = (B1.flatten ++ pre ++ S1).length + (1 + KLc.length) + CL.length ∧
      indexOfLastSignificantLine bo.first bo.lines - countLines (r.entries.drop E1.length) = (B1.flatten ++ pre ++ S1).length ∧
      AllSig (S1 ++ lv :: (KLc ++ CL)) ∧
      S1.map (fun l => decodeGo l.text) = hlc :: (sums ++ flatG g1) ∧ parseHeadline pre.length hlc = .ok (some hd, []) ∧
      decodeGo lv.text = ind ++ sv ∧ parseValue ind.length sv = .ok v ∧ v.val = .openRange s sp x ∧
      sm = firstOf v.rest :: texts ∧ (∀ t ∈ texts, okEntrySummaryCont t = true) ∧
      KLc.map (fun l => decodeGo l.text) = texts.map (fun t => ind ++ ind ++ t) ∧
      CL.map (fun l => decodeGo l.text) = flatG g2 ∧
      (∀ l ∈ sums, okRecordSummaryLine l = true) ∧ Spec.Indent ind ∧ AllGrp ind g1 ∧ AllGrp ind g2 ∧
      g1.map Prod.snd = E1 ∧ g2.map Prod.snd = E2 ∧
      r = ⟨hd.date, hd.should, sums, E1 ++ ⟨.openRange s sp x, sm⟩ :: E2⟩ ∧
      ind = asciiChars (elect (determine r bo.lines) rs (bos.map (·.lines))).indentation.1 ∧
      GoodStyle (elect (determine r bo.lines) rs (bos.map (·.lines))) ∧
      ∀ sig' : List Line, sig' ≠ [] → AllSig sig' → ∀ (rs' : List Record) (bos' : List BlockOut),
        splitLines (joinLines (B1.flatten ++ (pre ++ sig' ++ post ++ R2))) = B1.flatten ++ (pre ++ sig' ++ post ++ R2) →
        parseDoc (joinLines (B1.flatten ++ (pre ++ sig' ++ post ++ R2))) = .records rs' bos' →
        ∃ r', parseRecord pre.length (sig'.map (fun l => decodeGo l.text)) = .record r' ∧
          rs' = rs.take i ++ [r'] ++ rs.drop (i + 1) := by
  obtain ⟨B1, B2, R2, pre, sig, post, b1, b2, b3, b4, b5, b6, b7, b8, b9, b10, b11⟩ :=
    block_setup file hcr rs bos hp i r bo hr hbo
  obtain ⟨hlL, restL, hsig⟩ := List.exists_cons_of_ne_nil b6
  rw [hsig, List.map_cons] at b8
  obtain ⟨hd, sums, ind, g1, g2, K, c1, c2, c3, c4, c5, c6, c7, c8, c9, c10, c11⟩ :=
    rec_loc pre.length _ _ r E1 E2 ⟨.openRange s sp x, sm⟩ b8 hE
  obtain ⟨SL, L2, e1, m1, m2⟩ := map_eq_append_split _ restL _ _ c2
  obtain ⟨AL, L3, e2, m3, m4⟩ := map_eq_append_split _ L2 _ _ m2
  obtain ⟨KL, CL, e3, m5, m6⟩ := map_eq_append_split _ L3 _ _ m4
  have c6' := c6
  obtain ⟨sv, v, texts, k1, k2, k3, k4, k5⟩ := c6
  rw [k1] at m5
  obtain ⟨lv, KLc, e4, m7, m8⟩ := map_eq_cons_split _ KL _ _ m5
  simp only [Entry.mk.injEq] at k4
  obtain ⟨k4a, k4b⟩ := k4
  have hsigS : sig = (hlL :: (SL ++ AL)) ++ lv :: (KLc ++ CL) := by
    rw [hsig, e1, e2, e3, e4]; simp
  have hLsplit : B1.flatten ++ (pre ++ sig ++ post ++ R2) =
      (B1.flatten ++ pre ++ (hlL :: (SL ++ AL))) ++ lv :: (KLc ++ (CL ++ post ++ R2)) := by
    rw [hsigS]; simp
  have l1 : K.length = 1 + KLc.length := by rw [k1, ← m5, e4]; simp; omega
  have l2 : (flatG g2).length = CL.length := by rw [← m6]; simp
  have hidx : (B1.flatten ++ pre ++ sig).length - countLines (r.entries.drop E1.length) =
      (B1.flatten ++ pre ++ (hlL :: (SL ++ AL))).length := by
    rw [c11, hsigS]
    simp only [List.length_append, List.length_cons] at l1 ⊢
    omega
  have hlen : (B1.flatten ++ pre ++ sig).length =
      (B1.flatten ++ pre ++ (hlL :: (SL ++ AL))).length + (1 + KLc.length) + CL.length := by
    rw [hsigS]
    simp only [List.length_append, List.length_cons]
    omega
  -- the indentation of the record is the one of the style
  have hind : ind = asciiChars (elect (determine r bo.lines) rs (bos.map (·.lines))).indentation.1 := by
    have hall : AllGrp ind (g1 ++ (K, (⟨.openRange s sp x, sm⟩ : Entry)) :: g2) := by
      intro g hg
      rcases List.mem_append.mp hg with hg | hg
      · exact c5 g hg
      · rcases List.mem_cons.mp hg with rfl | hg
        · exact c6'
        · exact c7 g hg
    obtain ⟨xl, hx1, hx2⟩ := first_indented_line ind c4 sums _ c3 hall (by simp)
    have := b10 xl (by
      rw [hsig]
      simp only [List.map_cons, List.drop_succ_cons, List.drop_zero]
      rw [c2, ← hx1, flatG_append, flatG_cons])
    rw [hx2] at this
    exact Option.some.inj this
  refine ⟨B1, R2, pre, post, hlL :: (SL ++ AL), KLc, CL, lv, decodeGo hlL.text, hd, sums, ind, g1, g2, sv, v, texts,
    by rw [b3, hLsplit], by rw [← hLsplit]; exact b4, by rw [b5, hlen], by rw [b5, hidx], by rw [← hsigS]; exact b7,
    by simp [m1, m3], c1, m7, k2, k4a.symm, k4b, k5, m8, m6, c3, c4, c5, c7, c8, c9, c10, hind, b9, ?_⟩
  intro sig' hne hs' rs' bos' hsp hp'
  exact (b11 sig' hne hs').2.2 rs' bos' hsp hp'

/-! ## good lines after the edits of `stop` -/

theorem encode_noLF (cs : List Char) (h : ∀ c ∈ cs, c ≠ '\n') : LF ∉ encode cs :=
  fun hm => h _ (LF_mem_encode cs hm) rfl

theorem indent_noLF (ind : List Char) (hi : Spec.Indent ind) : ∀ c ∈ ind, c ≠ '\n' := by
  rcases hi with rfl | rfl | rfl | rfl <;> decide

end KlogV.RefineBLemmas
