/- Helper lemmas for KlogV/Lemmas/GoTxt.lean: arithmetic, slices, NewLineFromString. Core Lean only. -/
import KlogV.GoSem.AbsTxt
import KlogV.Lemmas.Cut
namespace KlogV.GoL.T
open KlogV.Go

theorem sub_eq (a b : Int) (h : inInt64 (a - b)) : sub a b = a - b := wrap_id h
theorem addI_eq (a b : Int) (h : inInt64 (a + b)) : add a b = a + b := wrap_id h

theorem slice_ok {α} (xs : List α) (lo hi : Int) (h0 : 0 ≤ lo) (h1 : lo ≤ hi) (h2 : hi ≤ xs.length) :
    slice xs lo hi = .ok ((xs.drop lo.toNat).take (hi - lo).toNat) := by
  unfold slice
  rw [if_pos ⟨h0, h1, h2⟩]
  rfl

theorem slice_suffix_off (p e : Bytes) (hlen : ((p ++ e).length : Int) < 9223372036854775808) :
    slice (p ++ e) 0 (sub (len (p ++ e)) (len e)) = .ok p := by
  have hl : len (p ++ e) = (p.length : Int) + (e.length : Int) := by
    unfold len; rw [List.length_append]; omega
  have hl2 : len e = (e.length : Int) := rfl
  rw [List.length_append] at hlen
  rw [hl, hl2, sub_eq _ _ (by unfold inInt64; omega)]
  rw [slice_ok _ _ _ (Int.le_refl _) (by omega) (by rw [List.length_append]; omega)]
  have : ((p.length : Int) + (e.length : Int) - (e.length : Int) - 0).toNat = p.length := by omega
  rw [this]; simp

theorem hasSuffix_iff (raw e : Bytes) : stringsHasSuffix raw e = true ↔ ∃ p, raw = p ++ e := by
  unfold stringsHasSuffix
  rw [List.isSuffixOf_iff_suffix]
  constructor
  · rintro ⟨p, h⟩; exact ⟨p, h.symm⟩
  · rintro ⟨p, h⟩; exact ⟨p, h.symm⟩

theorem splitOff_eq (raw : Bytes) (hlen : (raw.length : Int) < 9223372036854775808) :
    GoTxt.splitOffLineEnding raw = .ok ((Line.ofRaw raw).text, (Line.ofRaw raw).ending.bytes) := by
  unfold GoTxt.splitOffLineEnding GoTxt.LineEndings
  simp only [List.forIn_cons, List.forIn_nil, bind, Except.bind, pure, Except.pure]
  by_cases h1 : stringsHasSuffix raw [13, 10] = true
  · obtain ⟨p, rfl⟩ := (hasSuffix_iff _ _).mp h1
    rw [if_pos h1, slice_suffix_off p _ hlen]
    have := ofRaw_crlf p
    simp only [CR, LF] at this
    rw [this]; rfl
  · rw [if_neg h1]
    by_cases h2 : stringsHasSuffix raw [10] = true
    · obtain ⟨p, rfl⟩ := (hasSuffix_iff _ _).mp h2
      rw [if_pos h2, slice_suffix_off p _ hlen]
      have hp : p.getLast? ≠ some CR := by
        intro hp
        apply h1
        rw [hasSuffix_iff]
        obtain ⟨q, rfl⟩ : ∃ q, p = q ++ [CR] := by
          rw [List.getLast?_eq_some_iff] at hp; exact hp
        exact ⟨q, by simp [CR]⟩
      have := ofRaw_lf p hp
      simp only [LF] at this
      rw [this]; rfl
    · rw [if_neg h2]
      have hp : raw.getLast? ≠ some LF := by
        intro hp
        apply h2
        rw [hasSuffix_iff]
        rw [List.getLast?_eq_some_iff] at hp
        exact hp
      rw [ofRaw_none raw hp]; rfl

theorem newLineFromString_eq (raw : Bytes) (hlen : (raw.length : Int) < 9223372036854775808) : GoTxt.NewLineFromString raw = .ok (Line.ofRaw raw).toGo := by
  unfold GoTxt.NewLineFromString
  simp only [bind, Except.bind, pure, Except.pure, splitOff_eq raw hlen]
  rfl

theorem line_original_eq (l : Line) : l.toGo.Original = .ok l.original := by
  rfl

end KlogV.GoL.T

