/- Spec lemmas for the translated Go code, used by GoSrcA.lean. Core Lean only. -/
import KlogV.GoSem.Abs
import KlogV.Lemmas.Values
set_option linter.unusedSimpArgs false
namespace KlogV.GoL
open KlogV.Go

theorem inRange_iff (x : Int) : inRange x = true ↔ (-9223372036854775807 ≤ x ∧ x ≤ 9223372036854775807) := by
  unfold inRange maxInt
  rw [Bool.and_eq_true, decide_eq_true_eq, decide_eq_true_eq]

theorem newDuration_ok (h m : Int) (hh : -100 ≤ h ∧ h ≤ 100) (hm : inRange m = true) (hs : inRange (h * 60 + m) = true) :
    GoSrc.NewDuration h m = .ok (durOfMins (h * 60 + m)) := by
  have h1 : inRange h = true := by rw [inRange_iff]; omega
  have h2 : inRange (h * 60) = true := by rw [inRange_iff]; omega
  have h3 : inRange (60 : Int) = true := by decide
  simp [GoSrc.NewDuration, GoSrc.NewDurationWithFormat, GoSrc.DefaultDurationFormat, safemathMultiply, safemathAdd,
    safeMul, safeAdd, h1, h2, h3, hm, hs, try2, bind, Except.bind, pure, Except.pure, isNil, GNil.isNil, durOfMins]

theorem newDuration_panic (h m : Int) (hh : -100 ≤ h ∧ h ≤ 100) (hn : ¬ (inRange m = true ∧ inRange (h * 60 + m) = true)) :
    GoSrc.NewDuration h m = .error .panic := by
  have h1 : inRange h = true := by rw [inRange_iff]; omega
  have h2 : inRange (h * 60) = true := by rw [inRange_iff]; omega
  have h3 : inRange (60 : Int) = true := by decide
  have : (inRange m && inRange (h * 60 + m)) = false := by
    cases h4 : inRange m <;> cases h5 : inRange (h * 60 + m) <;> simp_all
  simp [GoSrc.NewDuration, GoSrc.NewDurationWithFormat, GoSrc.DefaultDurationFormat, safemathMultiply, safemathAdd,
    safeMul, safeAdd, h1, h2, h3, this, try2, bind, Except.bind, pure, Except.pure, isNil, GNil.isNil, throw, throwThe, MonadExceptOf.throw]

theorem newTime_spec (hour minute shift : Int) (f : GoSrc.TimeFormat) :
    GoSrc.newTime hour minute shift f =
      if hour = 24 ∧ minute = 0 ∧ shift ≤ 0 then .ok ⟨0, 0, wrap (shift + 1), f⟩
      else if 0 ≤ hour ∧ hour < 24 ∧ 0 ≤ minute ∧ minute < 60 then .ok ⟨hour, minute, shift, f⟩
      else .error (.err "INVALID_TIME") := by
  by_cases hc : hour = 24 ∧ minute = 0 ∧ shift ≤ 0
  · rw [if_pos hc]
    obtain ⟨h1, h2, h3⟩ := hc
    subst h1 h2
    simp [GoSrc.newTime, h3, le, add, GAdd.gadd, CivilTime.IsValid, bind, Except.bind, pure, Except.pure]
  · rw [if_neg hc]
    have c1 : ((hour == 24 && minute == 0) && le shift 0) = false := by
      simp only [le, Bool.and_eq_false_iff, beq_eq_false_iff_ne, ne_eq, decide_eq_false_iff_not]
      omega
    by_cases hv : 0 ≤ hour ∧ hour < 24 ∧ 0 ≤ minute ∧ minute < 60
    · rw [if_pos hv]
      simp [GoSrc.newTime, c1, hv, CivilTime.IsValid, bind, Except.bind, pure, Except.pure]
    · rw [if_neg hv]
      have : decide (0 ≤ hour ∧ hour < 24 ∧ 0 ≤ minute ∧ minute < 60) = false := by simpa using hv
      simp only [GoSrc.newTime, c1, this, CivilTime.IsValid, bind, Except.bind, pure, Except.pure, throw, throwThe, MonadExceptOf.throw]
      simp

def goOffset (h m s : Int) : Int :=
  if s < 0 then h * 60 + m - 1440 else if s > 0 then 1440 + h * 60 + m else h * 60 + m

theorem midnightOffset_spec (h m s : Int) (f : GoSrc.TimeFormat) (hh : 0 ≤ h ∧ h < 24) (hm : 0 ≤ m ∧ m < 60) :
    (⟨h, m, s, f⟩ : GoSrc.time).MidnightOffset = .ok (durOfMins (goOffset h m s)) := by
  have w1 : add (neg (23 : Int)) h = -23 + h := by
    show wrap (wrap (-23) + h) = _
    have : wrap (-23) = -23 := by decide
    rw [this]; unfold wrap; omega
  have w2 : add (neg (60 : Int)) m = -60 + m := by
    show wrap (wrap (-60) + m) = _
    have : wrap (-60) = -60 := by decide
    rw [this]; unfold wrap; omega
  have w3 : add (24 : Int) h = 24 + h := by
    show wrap (24 + h) = _
    unfold wrap; omega
  unfold goOffset
  by_cases h1 : s < 0
  · have e := newDuration_ok (-23 + h) (-60 + m) (by omega) (by rw [inRange_iff]; omega) (by rw [inRange_iff]; omega)
    have : (-23 + h) * 60 + (-60 + m) = h * 60 + m - 1440 := by omega
    rw [this] at e
    simp [GoSrc.time.MidnightOffset, GoSrc.time.IsYesterday, GoSrc.time.IsTomorrow, GoSrc.time.Hour, GoSrc.time.Minute,
      lt, gt, h1, w1, w2, e, bind, Except.bind, pure, Except.pure]
  · by_cases h2 : s > 0
    · have e := newDuration_ok (24 + h) m (by omega) (by rw [inRange_iff]; omega) (by rw [inRange_iff]; omega)
      have : (24 + h) * 60 + m = 1440 + h * 60 + m := by omega
      rw [this] at e
      simp [GoSrc.time.MidnightOffset, GoSrc.time.IsYesterday, GoSrc.time.IsTomorrow, GoSrc.time.Hour, GoSrc.time.Minute,
        lt, gt, h1, h2, w3, e, bind, Except.bind, pure, Except.pure]
    · have e := newDuration_ok h m (by omega) (by rw [inRange_iff]; omega) (by rw [inRange_iff]; omega)
      simp [GoSrc.time.MidnightOffset, GoSrc.time.IsYesterday, GoSrc.time.IsTomorrow, GoSrc.time.Hour, GoSrc.time.Minute,
        lt, gt, h1, h2, e, bind, Except.bind, pure, Except.pure]

theorem wf_iff (t : Time) : t.wf = true ↔ (t.h < 24 ∧ t.min < 60 ∧ (t.shift = -1 ∨ t.shift = 0 ∨ t.shift = 1)) := by
  simp [Time.wf, and_assoc, or_assoc]

theorem goOffset_toGo (t : Time) : goOffset t.h t.min t.shift = t.offset := by
  unfold goOffset Time.offset
  split
  · omega
  · split <;> omega

theorem midnightOffset_toGo (t : Time) (h : t.wf = true) :
    t.toGo.MidnightOffset = .ok (durOfMins t.offset) := by
  rw [wf_iff] at h
  rw [← goOffset_toGo]
  exact midnightOffset_spec t.h t.min t.shift ⟨t.is24⟩ (by omega) (by omega)

theorem offset_bounds (t : Time) (h : t.wf = true) : -1440 ≤ t.offset ∧ t.offset < 2880 := by
  rw [wf_iff] at h
  unfold Time.offset
  split
  · omega
  · split <;> omega

theorem durPlus_ok (a : Int) (d : GoSrc.duration) (ha : inRange a = true) (hd : inRange d.minutes = true)
    (hs : inRange (a + d.minutes) = true) : (durOfMins a).Plus d = .ok (durOfMins (a + d.minutes)) := by
  have e := newDuration_ok 0 (a + d.minutes) (by omega) hs (by simpa using hs)
  simp only [Int.zero_mul, Int.zero_add] at e
  simp [GoSrc.duration.Plus, GoSrc.duration.InMinutes, durOfMins, safemathAdd, safeAdd, ha, hd, hs, try2, isNil, GNil.isNil,
    bind, Except.bind, pure, Except.pure]
  simpa [durOfMins] using e

theorem durPlus_panic (a : Int) (d : GoSrc.duration) (ha : inRange a = true)
    (hn : ¬ (inRange d.minutes = true ∧ inRange (a + d.minutes) = true)) : (durOfMins a).Plus d = .error .panic := by
  have : (inRange d.minutes && inRange (a + d.minutes)) = false := by
    cases h4 : inRange d.minutes <;> cases h5 : inRange (a + d.minutes) <;> simp_all
  simp [GoSrc.duration.Plus, GoSrc.duration.InMinutes, durOfMins, safemathAdd, safeAdd, ha, this, try2, isNil, GNil.isNil,
    bind, Except.bind, pure, Except.pure, throw, throwThe, MonadExceptOf.throw]

theorem div60 (m : Int) (h : 0 ≤ m ∧ m ≤ 1440) : div m 60 = .ok (((m / 60).toNat : Nat) : Int) := by
  have : Int.tdiv m 60 = m / 60 := Int.tdiv_eq_ediv_of_nonneg h.1
  have w : wrap (m / 60) = m / 60 := by unfold wrap; omega
  simp [div, this, w, pure, Except.pure]
  omega

theorem mod60 (m : Int) (h : 0 ≤ m ∧ m ≤ 1440) : mod m 60 = .ok (((m % 60).toNat : Nat) : Int) := by
  have : Int.tmod m 60 = m % 60 := Int.tmod_eq_emod_of_nonneg h.1
  simp [mod, this, pure, Except.pure]
  omega

theorem fmtD_nat (n : Nat) : fmtD (n : Int) = natDigits n := by
  have : ¬ ((n : Int) < 0) := by omega
  simp [fmtD, this]

theorem fmtD0_pad2 (n : Nat) (h : n < 100) : fmtD0 2 (n : Int) = pad2 n := by
  have h0 : ¬ ((n : Int) < 0) := by omega
  by_cases h1 : n < 10
  · have : n / 10 = 0 := by omega
    have d0 : digitChar 0 = '0' := by decide
    simp [fmtD0, h0, natDigits_lt n h1, pad2, this, d0]
  · simp [fmtD0, h0, natDigits_lt100 n h1 h, pad2]

def hourPair (t : Time) : Nat × List Char :=
  if t.is24 then (t.h, [])
  else if t.h == 12 then (12, ['p', 'm'])
  else if t.h > 12 then (t.h - 12, ['p', 'm'])
  else if t.h == 0 then (12, ['a', 'm'])
  else (t.h, ['a', 'm'])

theorem print_hourPair (t : Time) : t.print =
    (if t.shift < 0 then ['<'] else []) ++ natDigits (hourPair t).1 ++ [':'] ++ pad2 t.min ++ (hourPair t).2 ++
      (if t.shift > 0 then ['>'] else []) := rfl

theorem hourBlock (t : Time) (h : t.h < 24) :
    (if t.toGo.format.Use24HourClock = true then Except.ok (t.toGo.hour, [])
          else
            if (t.toGo.hour == 12) = true then Except.ok (12, ['p', 'm'])
            else
              if gt t.toGo.hour 12 = true then Except.ok (sub t.toGo.hour 12, ['p', 'm'])
              else
                if (t.toGo.hour == 0) = true then Except.ok (12, ['a', 'm'])
                else Except.ok (t.toGo.hour, ['a', 'm']) : G (Int × Str)) = .ok (((hourPair t).1 : Int), (hourPair t).2) := by
  unfold hourPair
  simp only [Time.toGo]
  by_cases hb : t.is24 = true
  case pos => simp [hb]
  · by_cases c1 : t.h = 12
    · simp [c1, hb]
    · by_cases c2 : t.h > 12
      · have : sub (t.h : Int) 12 = ((t.h - 12 : Nat) : Int) := by show wrap _ = _; unfold wrap; omega
        have c1' : ¬ ((t.h : Int) = 12) := by omega
        have c2' : (t.h : Int) > 12 := by omega
        simp [hb, c1, c2, c1', c2', gt, this]
      · by_cases c3 : t.h = 0
        · simp [hb, c3, gt]
        · have c1' : ¬ ((t.h : Int) = 12) := by omega
          have c2' : ¬ (t.h : Int) > 12 := by omega
          have c3' : ¬ ((t.h : Int) = 0) := by omega
          simp [hb, c1, c2, c3, c1', c2', c3', gt]

theorem time_toString_spec (t : Time) (h : t.wf = true) : t.toGo.ToString = .ok t.print := by
  rw [wf_iff] at h
  have e1 : t.toGo.IsYesterday = .ok (decide (t.shift < 0)) := rfl
  have e2 : t.toGo.IsTomorrow = .ok (decide (t.shift > 0)) := rfl
  simp only [GoSrc.time.ToString, e1, e2, bind, Except.bind, pure, Except.pure]
  rw [hourBlock t h.1, print_hourPair]
  have : t.toGo.minute = (t.min : Int) := rfl
  simp only [this, fmtD_nat, fmtD0_pad2 t.min (by omega)]
  by_cases c1 : t.shift < 0 <;> by_cases c2 : t.shift > 0 <;> simp [c1, c2]

theorem replicate_flatten (n : Nat) (c : Char) : (List.replicate n [c]).flatten = List.replicate n c := by
  induction n with
  | zero => rfl
  | succ k ih => simp [List.replicate_succ, ih]

theorem add_int (a b : Int) (h : inInt64 (a + b)) : add a b = a + b := wrap_id h

theorem add_one_nat (extra : Nat) (hx : (extra : Int) < 9223372036854775807) :
    add (1 : Int) (extra : Int) = ((1 + extra : Nat) : Int) := by
  rw [add_int _ _ (by unfold inInt64; omega)]; omega

theorem repeat_q (n : Nat) : stringsRepeat ['?'] (n : Int) = .ok (List.replicate n '?') := by
  have : ¬ ((n : Int) < 0) := by omega
  unfold stringsRepeat
  rw [if_neg this, Int.toNat_natCast, replicate_flatten]
  rfl

theorem openRange_spec (st : GoSrc.time) (sp : Bool) (x : Int) (str rep : Str) (h1 : st.ToString = .ok str)
    (h2 : stringsRepeat ['?'] (add 1 x) = .ok rep) :
    (⟨st, ⟨sp, x⟩⟩ : GoSrc.openRange).ToString =
      .ok (str ++ (if sp then [' '] else []) ++ ['-'] ++ (if sp then [' '] else []) ++ rep) := by
  simp only [GoSrc.openRange.ToString, GoSrc.openRange.Start, h1, h2, bind, Except.bind, pure, Except.pure]
  cases sp <;> simp [add, GAdd.gadd]

end KlogV.GoL
