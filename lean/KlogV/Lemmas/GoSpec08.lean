/- Helper lemmas for KlogV/Props/GoSpec08.lean. Core Lean only. -/
import KlogV.GoSem.SerialLoop
import KlogV.Props.GoTxt
import KlogV.Props.C08
namespace KlogV.GoL.S8
open KlogV.Go

/-- the Go block the loop builds from a model block and the index of its first line -/
def mk (p : List Line × Nat) : GoTxt.block := ⟨(p.2 : Int), p.1.map Line.toGo⟩

/-- the first block of a text is a prefix of the text -/
theorem first_prefix (t : Bytes) (b : List Line) (bs : List (List Line)) (h : blocksOf t = b :: bs) :
    ∃ R2, t = joinLines b ++ R2 := by
  by_cases hbs : bs = []
  · subst hbs
    have hf := blocksOfLines_flatten (splitLines t) (by
      show blocksOf t ≠ []
      rw [h]; simp)
    have h' : blocksOfLines (splitLines t) = [b] := h
    rw [h'] at hf
    simp only [List.flatten_cons, List.flatten_nil, List.append_nil] at hf
    refine ⟨[], ?_⟩
    rw [hf, joinLines_splitLines]; simp
  · obtain ⟨R2, e1, _⟩ := blocksOf_decomp t b bs h hbs
    exact ⟨R2, e1⟩

theorem first_le (t : Bytes) (b : List Line) (bs : List (List Line)) (h : blocksOf t = b :: bs) :
    countBytes b ≤ t.length := by
  obtain ⟨R2, e⟩ := first_prefix t b bs h
  have : t.length = (joinLines b ++ R2).length := by rw [← e]
  rw [List.length_append] at this
  unfold countBytes; omega

/-- every block covers at least one byte (else the rest of the text would have the same blocks) -/
theorem first_pos (t : Bytes) (b : List Line) (bs : List (List Line)) (h : blocksOf t = b :: bs) :
    0 < countBytes b := by
  apply Nat.pos_of_ne_zero
  intro h0
  have hd := GoL.blocksOf_drop t b bs h
  rw [h0, List.drop_zero, h] at hd
  have := congrArg List.length hd
  simp at this

theorem loop_spec (fuel : Nat) : ∀ (t : Bytes) (n : Nat) (acc : List GoTxt.block),
    (t.length : Int) < 9223372036854775808 → t.length < fuel →
    goSerialLoop fuel t (n : Int) acc =
      some (acc.reverse ++ ((blocksOf t).zip (firstLineIndices n (blocksOf t))).map mk) := by
  induction fuel with
  | zero => intro t n acc _ h; omega
  | succ fuel ih =>
    intro t n acc hlen hf
    unfold goSerialLoop
    rw [GoTie.parseBlock_eq t n hlen]
    unfold firstBlock
    cases h : blocksOf t with
    | nil => simp
    | cons b bs =>
      have hpos := first_pos t b bs h
      have hle := first_le t b bs h
      have hd := GoL.blocksOf_drop t b bs h
      have hne : (((countBytes b : Nat) : Int) == 0) = false := by
        cases hh : (((countBytes b : Nat) : Int) == 0) with
        | false => rfl
        | true => have := eq_of_beq hh; omega
      simp only [hne, Bool.false_eq_true, if_false, Int.toNat_natCast, List.length_map]
      have hcast : (n : Int) + (b.length : Int) = ((n + b.length : Nat) : Int) := by omega
      rw [hcast, ih (t.drop (countBytes b)) (n + b.length) _ (by rw [List.length_drop]; omega)
        (by rw [List.length_drop]; omega), hd]
      simp [firstLineIndices, mk]

theorem go_lines_flat (b : List Line) :
    ((b.map Line.toGo).flatMap fun l => l.Text ++ l.LineEnding) = joinLines b := by
  induction b with
  | nil => rfl
  | cons l ls ih =>
    simp only [List.map_cons, List.flatMap_cons, ih]
    simp [joinLines, Line.original, Line.toGo]

theorem blocks_flat (bs : List (List Line)) : ∀ n : Nat,
    (((bs.zip (firstLineIndices n bs)).map mk).flatMap
      fun b => b.lines.flatMap fun l => l.Text ++ l.LineEnding) = joinLines bs.flatten := by
  induction bs with
  | nil => intro n; rfl
  | cons b bs ih =>
    intro n
    simp only [firstLineIndices, List.zip_cons_cons, List.map_cons, List.flatMap_cons, ih,
      List.flatten_cons, joinLines_append]
    simp only [mk, go_lines_flat]

end KlogV.GoL.S8

namespace KlogV.GoL
open KlogV.Go

theorem go_serial_blocks (t : Bytes) (hlen : (t.length : Int) < 9223372036854775808) :
    goSerialBlocks (t.length + 1) t 0 =
      some (((blocksOf t).zip (firstLineIndices 0 (blocksOf t))).map fun (b, i) => (⟨(i : Int), b.map Line.toGo⟩ : GoTxt.block)) := by
  unfold goSerialBlocks
  have := S8.loop_spec (t.length + 1) t 0 [] hlen (by omega)
  simp only [List.reverse_nil, List.nil_append, Int.natCast_zero] at this
  exact this

theorem go_blocks_reproduce (t : Bytes) (hlen : (t.length : Int) < 9223372036854775808)
    (h : ∃ l ∈ splitLines t, l.isBlank = false) :
    ∃ bs, goSerialBlocks (t.length + 1) t 0 = some bs ∧
      (bs.flatMap fun b => b.lines.flatMap fun l => l.Text ++ l.LineEnding) = t := by
  refine ⟨_, go_serial_blocks t hlen, ?_⟩
  have := S8.blocks_flat (blocksOf t) 0
  rw [C08.blocks_concat t h] at this
  exact this

theorem go_blank_text_no_blocks (t : Bytes) (hlen : (t.length : Int) < 9223372036854775808)
    (h : ∀ l ∈ splitLines t, l.isBlank = true) :
    goSerialBlocks (t.length + 1) t 0 = some [] := by
  rw [go_serial_blocks t hlen, C08.blank_text_no_blocks t h]
  rfl

end KlogV.GoL
