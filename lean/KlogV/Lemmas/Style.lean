/- Lemmas about style detection and election (for Props/C11). -/
import KlogV.Model.Commands
import KlogV.Lemmas.Cut
namespace KlogV

namespace StyleLemmas

/-- one step of the election fold, for an arbitrary counting function -/
def step {α} (f : α → Nat) (best : α × Nat) (v : α) : α × Nat :=
  if f v > best.2 then (v, f v) else best

theorem tally_eq {α} [DecidableEq α] (votes : List α) (d : α) :
    tally votes d = (votes.eraseDups.foldl (step (fun x => votes.count x)) (d, 0)).1 := rfl

theorem find?_congr' {α} (p q : α → Bool) (l : List α) (h : ∀ x ∈ l, p x = q x) :
    l.find? p = l.find? q := by
  induction l with
  | nil => rfl
  | cons a as ih =>
    have ha : p a = q a := h a (by simp)
    have ih' := ih (fun x hx => h x (by simp [hx]))
    simp only [List.find?_cons, ha, ih']

/-- lifting the invariant from the filtered tail to the whole list -/
theorem lift {α} [DecidableEq α] (f : α → Nat) (a : α) (as : List α) (c : Nat) (b : α)
    (ha : f a < c)
    (hall : ∀ x ∈ as.filter (fun y => !y == a), f x ≤ c)
    (hfind : (as.filter (fun y => !y == a)).find? (fun x => f x == c) = some b) :
    (∀ x ∈ a :: as, f x ≤ c) ∧ (a :: as).find? (fun x => f x == c) = some b := by
  refine ⟨?_, ?_⟩
  · intro x hx
    by_cases hxa : x = a
    · subst hxa; omega
    · apply hall
      simp only [List.mem_cons] at hx
      rcases hx with hx | hx
      · exact absurd hx hxa
      · simp [List.mem_filter, hx, hxa]
  · have hna : ¬ ((fun x => f x == c) a = true) := by
      simp only [beq_iff_eq]; omega
    rw [List.find?_cons_of_neg (p := fun x => f x == c) hna, ← hfind, List.find?_filter]
    apply find?_congr'
    intro x _
    by_cases hxa : x = a
    · subst hxa
      have : (f x == c) = false := by simp only [beq_eq_false_iff_ne, ne_eq]; omega
      simp [this]
    · by_cases hfc : f x = c <;> simp [hxa, hfc]

theorem fold_spec {α} [DecidableEq α] (f : α → Nat) :
    ∀ (n : Nat) (l : List α), l.length ≤ n → ∀ (b0 : α) (c0 : Nat),
      ((∀ x ∈ l, f x ≤ c0) → l.eraseDups.foldl (step f) (b0, c0) = (b0, c0)) ∧
      ((∃ x ∈ l, c0 < f x) →
        c0 < (l.eraseDups.foldl (step f) (b0, c0)).2 ∧
        (∀ x ∈ l, f x ≤ (l.eraseDups.foldl (step f) (b0, c0)).2) ∧
        l.find? (fun x => f x == (l.eraseDups.foldl (step f) (b0, c0)).2)
          = some (l.eraseDups.foldl (step f) (b0, c0)).1) := by
  intro n
  induction n with
  | zero =>
    intro l hl b0 c0
    have : l = [] := List.length_eq_zero_iff.mp (by omega)
    subst this
    refine ⟨fun _ => rfl, ?_⟩
    rintro ⟨x, hx, _⟩
    cases hx
  | succ n ih =>
    intro l hl b0 c0
    cases l with
    | nil =>
      refine ⟨fun _ => rfl, ?_⟩
      rintro ⟨x, hx, _⟩
      cases hx
    | cons a as =>
      have hlen : (as.filter (fun y => !y == a)).length ≤ n := by
        have := List.length_filter_le (fun y => !y == a) as
        simp only [List.length_cons] at hl
        omega
      rw [List.eraseDups_cons, List.foldl_cons]
      by_cases hc : c0 < f a
      · -- `a` takes the lead
        have hstep : step f (b0, c0) a = (a, f a) := by
          unfold step; rw [if_pos (by exact hc)]
        rw [hstep]
        obtain ⟨ih1, ih2⟩ := ih _ hlen a (f a)
        refine ⟨?_, ?_⟩
        · intro hall
          have := hall a (by simp)
          omega
        · intro _
          by_cases hle : ∀ x ∈ as.filter (fun y => !y == a), f x ≤ f a
          · rw [ih1 hle]
            refine ⟨hc, ?_, ?_⟩
            · intro x hx
              by_cases hxa : x = a
              · subst hxa; exact Nat.le_refl _
              · apply hle
                simp only [List.mem_cons] at hx
                rcases hx with hx | hx
                · exact absurd hx hxa
                · simp [List.mem_filter, hx, hxa]
            · exact List.find?_cons_of_pos (p := fun x => f x == f a) (by simp)
          · have hex : ∃ x ∈ as.filter (fun y => !y == a), f a < f x := by
              apply Classical.byContradiction
              intro hno
              apply hle
              intro x hx
              apply Classical.byContradiction
              intro hlt
              exact hno ⟨x, hx, by omega⟩
            obtain ⟨h1, h2, h3⟩ := ih2 hex
            obtain ⟨l1, l2⟩ := lift f a as _ _ h1 h2 h3
            exact ⟨by omega, l1, l2⟩
      · -- `a` does not take the lead
        have hstep : step f (b0, c0) a = (b0, c0) := by
          unfold step; rw [if_neg (by exact hc)]
        rw [hstep]
        obtain ⟨ih1, ih2⟩ := ih _ hlen b0 c0
        refine ⟨?_, ?_⟩
        · intro hall
          apply ih1
          intro x hx
          exact hall x (by simp [(List.mem_filter.mp hx).1])
        · rintro ⟨x, hx, hxc⟩
          have hxa : x ≠ a := by
            intro e; subst e; exact hc hxc
          have hx' : x ∈ as.filter (fun y => !y == a) := by
            simp only [List.mem_cons] at hx
            rcases hx with hx | hx
            · exact absurd hx hxa
            · simp [List.mem_filter, hx, hxa]
          obtain ⟨h1, h2, h3⟩ := ih2 ⟨x, hx', hxc⟩
          obtain ⟨l1, l2⟩ := lift f a as _ _ (by omega) h2 h3
          exact ⟨h1, l1, l2⟩

theorem idxOf_le_of_find? {α} [DecidableEq α] (q : α → Bool) (l : List α) (b x : α)
    (h : l.find? q = some b) (hq : q x = true) (hx : x ∈ l) : l.idxOf b ≤ l.idxOf x := by
  induction l with
  | nil => cases hx
  | cons a as ih =>
    by_cases ha : q a = true
    · rw [List.find?_cons_of_pos ha] at h
      cases h
      simp
    · rw [List.find?_cons_of_neg ha] at h
      have hb : q b = true := List.find?_some h
      have hba : a ≠ b := by intro e; subst e; exact ha hb
      have hxa : a ≠ x := by intro e; subst e; exact ha hq
      have hx' : x ∈ as := by
        simp only [List.mem_cons] at hx
        rcases hx with hx | hx
        · exact absurd hx.symm hxa
        · exact hx
      have := ih h hx'
      have e1 : (a == b) = false := by simp [hba]
      have e2 : (a == x) = false := by simp [hxa]
      simp only [List.idxOf_cons, e1, e2, cond_false]
      omega

/-- the full specification of `tally` on a non-empty list of votes -/
theorem tally_spec {α} [DecidableEq α] (votes : List α) (d : α) (h : votes ≠ []) :
    (∀ v ∈ votes, votes.count v ≤ votes.count (tally votes d)) ∧
    votes.find? (fun x => votes.count x == votes.count (tally votes d)) = some (tally votes d) := by
  have hex : ∃ x ∈ votes, 0 < votes.count x := by
    cases votes with
    | nil => exact absurd rfl h
    | cons a as => exact ⟨a, by simp, by simp⟩
  obtain ⟨_, h2, h3⟩ := (fold_spec (fun x => votes.count x) votes.length votes (Nat.le_refl _) d 0).2 hex
  have hb : votes.count (tally votes d)
      = (votes.eraseDups.foldl (step (fun x => votes.count x)) (d, 0)).2 := by
    have := List.find?_some h3
    simp only [beq_iff_eq] at this
    rw [tally_eq]; exact this
  rw [hb]
  exact ⟨h2, by rw [tally_eq]; exact h3⟩

end StyleLemmas

open StyleLemmas

theorem tally_max {α} [DecidableEq α] (votes : List α) (d : α) (h : votes ≠ []) :
    tally votes d ∈ votes ∧ ∀ v ∈ votes, votes.count v ≤ votes.count (tally votes d) := by
  obtain ⟨h1, h2⟩ := tally_spec votes d h
  exact ⟨List.mem_of_find?_eq_some h2, h1⟩

theorem tally_first {α} [DecidableEq α] (votes : List α) (d : α) (v : α) (hv : v ∈ votes)
    (hc : votes.count v = votes.count (tally votes d)) :
    votes.idxOf (tally votes d) ≤ votes.idxOf v := by
  have hne : votes ≠ [] := by intro e; subst e; cases hv
  obtain ⟨_, h2⟩ := tally_spec votes d hne
  exact idxOf_le_of_find? _ votes _ v h2 (by simp [hc]) hv

theorem tally_unanimous {α} [DecidableEq α] (votes : List α) (d v : α) (h : votes ≠ [])
    (hall : ∀ x ∈ votes, x = v) : tally votes d = v :=
  hall _ (tally_max votes d h).1

/-! ## `ascertain`, `elect` -/

namespace StyleLemmas

theorem ascertain_explicit {α} [DecidableEq α] (votes : List (α × Bool)) (base : α × Bool)
    (h : base.2 = true) : ascertain votes base = base := by
  simp [ascertain, h]

theorem ascertain_from {σ α} [DecidableEq α] (ss : List σ) (g : σ → α × Bool) (base : α × Bool)
    (h : base.2 = false) :
    ((ascertain (ss.map g) base).1 = base.1 ∧ ∀ s ∈ ss, (g s).2 = false) ∨
    (∃ s ∈ ss, (g s).2 = true ∧ (ascertain (ss.map g) base).1 = (g s).1) := by
  have e : (ascertain (ss.map g) base).1
      = tally (((ss.map g).filter (·.2)).map (·.1)) base.1 := by
    simp [ascertain, h]
  rw [e]
  by_cases hne : (((ss.map g).filter (·.2)).map (·.1)) = []
  · left
    rw [hne]
    refine ⟨rfl, ?_⟩
    intro s hs
    have hf : (ss.map g).filter (·.2) = [] := List.map_eq_nil_iff.mp hne
    rw [List.filter_eq_nil_iff] at hf
    have := hf (g s) (List.mem_map_of_mem hs)
    simpa using this
  · right
    have hm := (tally_max _ base.1 hne).1
    rw [List.mem_map] at hm
    obtain ⟨p, hp, hp1⟩ := hm
    rw [List.mem_filter, List.mem_map] at hp
    obtain ⟨⟨s, hs, hgs⟩, hp2⟩ := hp
    subst hgs
    exact ⟨s, hs, hp2, hp1.symm⟩

theorem determine_fun_eq :
    (fun (x : Record × List Line) => match x with | (r, b) => determine r b)
      = (fun p => determine p.1 p.2) := by
  funext ⟨r, b⟩; rfl

end StyleLemmas

theorem elect_own_style (base : Style) (rs : List Record) (bs : List (List Line)) :
    (base.lineEnding.2 = true → (elect base rs bs).lineEnding = base.lineEnding) ∧
    (base.indentation.2 = true → (elect base rs bs).indentation = base.indentation) ∧
    (base.dateDashes.2 = true → (elect base rs bs).dateDashes = base.dateDashes) ∧
    (base.time24.2 = true → (elect base rs bs).time24 = base.time24) ∧
    (base.spaced.2 = true → (elect base rs bs).spaced = base.spaced) ∧
    (base.extraQ.2 = true → (elect base rs bs).extraQ = base.extraQ) := by
  refine ⟨?_, ?_, ?_, ?_, ?_, ?_⟩ <;> intro h <;> exact ascertain_explicit _ _ h

theorem elect_from_file (base : Style) (rs : List Record) (bs : List (List Line)) :
    (base.indentation.2 = false →
      ((elect base rs bs).indentation.1 = base.indentation.1 ∧ ∀ s ∈ (rs.zip bs).map (fun p => determine p.1 p.2), s.indentation.2 = false) ∨
      (∃ s ∈ (rs.zip bs).map (fun p => determine p.1 p.2), s.indentation.2 = true ∧ (elect base rs bs).indentation.1 = s.indentation.1)) ∧
    (base.lineEnding.2 = false →
      ((elect base rs bs).lineEnding.1 = base.lineEnding.1 ∧ ∀ s ∈ (rs.zip bs).map (fun p => determine p.1 p.2), s.lineEnding.2 = false) ∨
      (∃ s ∈ (rs.zip bs).map (fun p => determine p.1 p.2), s.lineEnding.2 = true ∧ (elect base rs bs).lineEnding.1 = s.lineEnding.1)) := by
  have e1 : (elect base rs bs).indentation
      = ascertain (((rs.zip bs).map (fun p => determine p.1 p.2)).map (·.indentation)) base.indentation := by
    rfl
  have e2 : (elect base rs bs).lineEnding
      = ascertain (((rs.zip bs).map (fun p => determine p.1 p.2)).map (·.lineEnding)) base.lineEnding := by
    rfl
  refine ⟨?_, ?_⟩
  · intro h
    rw [e1]
    exact ascertain_from _ Style.indentation base.indentation h
  · intro h
    rw [e2]
    exact ascertain_from _ Style.lineEnding base.lineEnding h

/-! ## `determine` -/

namespace StyleLemmas

theorem foldl_preserves {β} (F : Style → β → Style) (es : List β) (s : Style)
    (hF : ∀ s e, (F s e).indentation = s.indentation) :
    (es.foldl F s).indentation = s.indentation := by
  induction es generalizing s with
  | nil => rfl
  | cons e es ih => rw [List.foldl_cons, ih, hF]

end StyleLemmas

theorem determine_indentation (r : Record) (b : List Line) :
    (determine r b).indentation =
      match (significantLines b).findSome? lineIndentation with
      | some i => (i, true)
      | none => ([32, 32, 32, 32], false) := by
  unfold determine
  dsimp only
  have hf := foldl_preserves (fun (s : Style) (e : Entry) =>
    match e.val with
    | .range st _ sp => { s with time24 := (st.is24, true), spaced := (sp, true) }
    | .dur _ => s
    | .openRange st sp x =>
      { s with time24 := (st.is24, true), spaced := (sp, true), extraQ := (x, true) })
    r.entries { dateDashes := (r.date.dashes, true) }
      (by intro s e; split <;> rfl)
  generalize List.foldl _ _ r.entries = s2 at hf ⊢
  cases (significantLines b).findSome? lineIndentation <;> cases b.head? <;> (try dsimp only) <;>
    (try split) <;> first | rfl | exact hf

/-! ## `mkLine` -/

namespace StyleLemmas

theorem getLast?_indent_ne (ind : Bytes) (n : Nat) (c : UInt8) (h : ind.getLast? ≠ some c) :
    (List.replicate n ind).flatten.getLast? ≠ some c := by
  induction n with
  | zero => simp
  | succ n ih =>
    rw [List.replicate_succ, List.flatten_cons, List.getLast?_append]
    cases hl : (List.replicate n ind).flatten.getLast? with
    | none => simpa using h
    | some x => rw [hl] at ih; simpa using ih

theorem getLast?_append_ne (a b : Bytes) (c : UInt8) (ha : a.getLast? ≠ some c)
    (hb : b.getLast? ≠ some c) : (a ++ b).getLast? ≠ some c := by
  rw [List.getLast?_append]
  cases hl : b.getLast? with
  | none => simpa using ha
  | some x => rw [hl] at hb; simpa using hb

end StyleLemmas

/-- Corrected version (the one stated originally in Props/C11 is false when the indentation
unit ends in CR and the text is empty): the indentation must not end in CR either.  `h` and `hi`
(no LF inside) are not needed: `Line.ofRaw` only looks at the end of the raw line. -/
theorem mkLine_shape (st : Style) (t : Insertable) (_h : ¬ (10 : UInt8) ∈ t.1)
    (hcr : t.1.getLast? ≠ some 13) (_hi : ¬ (10 : UInt8) ∈ st.indentation.1)
    (he : st.lineEnding.1 ≠ .none) (hic : st.indentation.1.getLast? ≠ some 13) :
    (mkLine st t).text = (List.replicate t.2 st.indentation.1).flatten ++ t.1 ∧
      (mkLine st t).ending = st.lineEnding.1 := by
  unfold mkLine
  cases hE : st.lineEnding.1 with
  | none => exact absurd hE he
  | lf =>
    have hl : ((List.replicate t.2 st.indentation.1).flatten ++ t.1).getLast? ≠ some CR :=
      getLast?_append_ne _ _ _ (getLast?_indent_ne _ _ _ hic) hcr
    show (Line.ofRaw (_ ++ [LF])).text = _ ∧ (Line.ofRaw (_ ++ [LF])).ending = _
    rw [ofRaw_lf _ hl]
    exact ⟨rfl, rfl⟩
  | crlf =>
    show (Line.ofRaw (_ ++ [CR, LF])).text = _ ∧ (Line.ofRaw (_ ++ [CR, LF])).ending = _
    rw [ofRaw_crlf]
    exact ⟨rfl, rfl⟩

end KlogV
