/-
Helper lemmas for C04, part 11: the lines the reconciler writes for an entry / a record.
-/
import KlogV.Lemmas.Refine1
import KlogV.Lemmas.Refine2
import KlogV.Lemmas.Refine3
import KlogV.Lemmas.Refine4
import KlogV.Lemmas.Style
namespace KlogV.RefineLemmas
open KlogV.StyleLemmas

/-- the style the reconciler writes with: one of the four indentations, an explicit line ending -/
structure GoodStyle (st : Style) : Prop where
  ind : st.indentation.1 ∈ indentationBytes
  ending : st.lineEnding.1 ≠ .none

theorem indentationBytes_cases (i : Bytes) (h : i ∈ indentationBytes) :
    i = [32, 32, 32, 32] ∨ i = [32, 32, 32] ∨ i = [32, 32] ∨ i = [9] := by
  simpa [indentationBytes] using h

theorem indent_bytes_props (i : Bytes) (h : i ∈ indentationBytes) :
    (10 : UInt8) ∉ i ∧ i.getLast? ≠ some 13 ∧ (∀ b ∈ i, b.toNat < 0x80) ∧ (∀ b ∈ i, isBlankByte b = true) ∧
      ∃ x tl, i = x :: tl ∧ (x = 32 ∨ x = 9) := by
  rcases indentationBytes_cases i h with rfl | rfl | rfl | rfl <;>
    exact ⟨by decide, by decide, by decide, by decide, _, _, rfl, by decide⟩

theorem replicate_indent_props (i : Bytes) (h : i ∈ indentationBytes) (n : Nat) :
    (10 : UInt8) ∉ (List.replicate n i).flatten ∧ (List.replicate n i).flatten.getLast? ≠ some 13 ∧
      (∀ b ∈ (List.replicate n i).flatten, b.toNat < 0x80) := by
  obtain ⟨h1, h2, h3, _⟩ := indent_bytes_props i h
  refine ⟨?_, getLast?_indent_ne i n 13 h2, ?_⟩
  · intro hm
    obtain ⟨l, hl, hml⟩ := List.mem_flatten.mp hm
    rw [(List.mem_replicate.mp hl).2] at hml
    exact h1 hml
  · intro b hm
    obtain ⟨l, hl, hml⟩ := List.mem_flatten.mp hm
    rw [(List.mem_replicate.mp hl).2] at hml
    exact h3 b hml

theorem mkLine_eq (st : Style) (G : GoodStyle st) (t : Bytes) (n : Nat) (hc : CleanLine t) :
    mkLine st (t, n) = ⟨(List.replicate n st.indentation.1).flatten ++ t, st.lineEnding.1⟩ := by
  obtain ⟨h1, h2, _, _⟩ := indent_bytes_props _ G.ind
  obtain ⟨e1, e2⟩ := mkLine_shape st (t, n) hc.1 hc.2 h1 G.ending h2
  generalize mkLine st (t, n) = l at e1 e2
  obtain ⟨text, ending⟩ := l
  simp only at e1 e2
  rw [e1, e2]

theorem mkLine_clean (st : Style) (G : GoodStyle st) (t : Bytes) (n : Nat) (hc : CleanLine t) :
    Clean (mkLine st (t, n)) := by
  rw [mkLine_eq st G t n hc]
  obtain ⟨r1, r2, _⟩ := replicate_indent_props _ G.ind n
  refine ⟨?_, G.ending, fun _ => getLast?_append_ne _ _ _ r2 hc.2⟩
  intro hm
  rcases List.mem_append.mp hm with hm | hm
  · exact r1 hm
  · exact hc.1 hm

theorem cleanLine_nil : CleanLine [] := ⟨by simp, by simp⟩

theorem mkLine_blank (st : Style) (G : GoodStyle st) : mkLine st ([], 0) = ⟨[], st.lineEnding.1⟩ := by
  rw [mkLine_eq st G [] 0 cleanLine_nil]; rfl

theorem mkLine_level0 (st : Style) (G : GoodStyle st) (t : Bytes) (hc : CleanLine t) :
    mkLine st (t, 0) = ⟨t, st.lineEnding.1⟩ := by
  rw [mkLine_eq st G t 0 hc]; rfl

theorem mkLine_level1 (st : Style) (G : GoodStyle st) (t : Bytes) (hc : CleanLine t) :
    mkLine st (t, 1) = ⟨st.indentation.1 ++ t, st.lineEnding.1⟩ := by
  rw [mkLine_eq st G t 1 hc]; simp

theorem mkLine_level2 (st : Style) (G : GoodStyle st) (t : Bytes) (hc : CleanLine t) :
    mkLine st (t, 2) = ⟨st.indentation.1 ++ st.indentation.1 ++ t, st.lineEnding.1⟩ := by
  rw [mkLine_eq st G t 2 hc]; simp [List.replicate]

theorem toMultilineEntryTexts_nil (first : Bytes) (rest : List Bytes) :
    toMultilineEntryTexts [] (first :: rest) = (first, 1) :: rest.map (fun s => (s, 2)) := by
  simp [toMultilineEntryTexts]

/-- the lines written for an entry -/
def entryLinesOf (st : Style) (first : Bytes) (rest : List Bytes) : List Line :=
  ⟨st.indentation.1 ++ first, st.lineEnding.1⟩ ::
    rest.map (fun s => (⟨st.indentation.1 ++ st.indentation.1 ++ s, st.lineEnding.1⟩ : Line))

theorem entry_lines_eq (st : Style) (G : GoodStyle st) (first : Bytes) (rest : List Bytes)
    (hc : ∀ l ∈ first :: rest, CleanLine l) :
    (toMultilineEntryTexts [] (first :: rest)).map (mkLine st) = entryLinesOf st first rest := by
  rw [toMultilineEntryTexts_nil]
  simp only [List.map_cons, List.map_map, entryLinesOf]
  rw [mkLine_level1 st G first (hc first (by simp))]
  congr 1
  apply List.map_congr_left
  intro s hs
  exact mkLine_level2 st G s (hc s (by simp [hs]))

theorem entry_lines_clean (st : Style) (G : GoodStyle st) (first : Bytes) (rest : List Bytes)
    (hc : ∀ l ∈ first :: rest, CleanLine l) : ∀ l ∈ entryLinesOf st first rest, Clean l := by
  rw [← entry_lines_eq st G first rest hc]
  intro l hl
  obtain ⟨t, ht, rfl⟩ := List.mem_map.mp hl
  rw [toMultilineEntryTexts_nil] at ht
  rcases List.mem_cons.mp ht with rfl | ht
  · exact mkLine_clean st G _ _ (hc first (by simp))
  · obtain ⟨s, hs, rfl⟩ := List.mem_map.mp ht
    exact mkLine_clean st G _ _ (hc s (by simp [hs]))

theorem entry_lines_sig (st : Style) (first : Bytes) (rest : List Bytes)
    (hnb : ∀ l ∈ first :: rest, l.all isBlankByte = false) : AllSig (entryLinesOf st first rest) := by
  intro l hl
  rcases List.mem_cons.mp hl with rfl | hl
  · exact all_append_false _ _ (hnb first (by simp))
  · obtain ⟨s, hs, rfl⟩ := List.mem_map.mp hl
    exact all_append_false _ _ (hnb s (by simp [hs]))

theorem asciiChars_append (a b : Bytes) : asciiChars (a ++ b) = asciiChars a ++ asciiChars b := by
  simp [asciiChars]

theorem entry_lines_decode (st : Style) (G : GoodStyle st) (first : Bytes) (rest : List Bytes) :
    (entryLinesOf st first rest).map (fun l => decodeGo l.text) =
      (asciiChars st.indentation.1 ++ decodeGo first) ::
        rest.map (fun l => asciiChars st.indentation.1 ++ asciiChars st.indentation.1 ++ decodeGo l) := by
  obtain ⟨_, _, h3, _⟩ := indent_bytes_props _ G.ind
  simp only [entryLinesOf, List.map_cons, List.map_map]
  rw [decodeGo_append_ascii _ h3]
  congr 1
  apply List.map_congr_left
  intro s _
  simp only [Function.comp]
  rw [decodeGo_append_ascii _ (by
    intro b hb
    rcases List.mem_append.mp hb with hb | hb <;> exact h3 b hb), asciiChars_append]

theorem indent_is_Indent (i : Bytes) (h : i ∈ indentationBytes) : Spec.Indent (asciiChars i) := by
  rcases indentationBytes_cases i h with rfl | rfl | rfl | rfl
  · left; decide
  · right; left; decide
  · right; right; left; decide
  · right; right; right; decide

theorem isPrefixOf_append_cancel {α} [DecidableEq α] (a b c : List α) :
    (a ++ b).isPrefixOf (a ++ c) = b.isPrefixOf c := by
  rw [Bool.eq_iff_iff, List.isPrefixOf_iff_prefix, List.isPrefixOf_iff_prefix, List.prefix_append_right_inj]

set_option linter.unusedSimpArgs false in
/-- the first line of an entry: indented once, exactly -/
theorem entry_first_line (i first : Bytes) (h : i ∈ indentationBytes) (b0 : UInt8) (tl : Bytes)
    (hf : first = b0 :: tl) (hb : isBlankByte b0 = false) :
    indentatorOf (asciiChars i ++ decodeGo first) = some (asciiChars i) ∧
      (asciiChars i ++ asciiChars i).isPrefixOf (asciiChars i ++ decodeGo first) = false := by
  obtain ⟨_, _, h3, h4, x, xs, hx, hx2⟩ := indent_bytes_props i h
  have h32 : b0 ≠ 32 := by intro e; subst e; simp [isBlankByte, SP] at hb
  have h9 : b0 ≠ 9 := by intro e; subst e; simp [isBlankByte, TAB, SP] at hb
  have h32' : ¬ ((32 : UInt8) = b0) := fun e => h32 e.symm
  have h9' : ¬ ((9 : UInt8) = b0) := fun e => h9 e.symm
  constructor
  · rw [← decodeGo_append_ascii i h3, indentatorOf_decode, hf]
    have e32 : ((32 : UInt8) == b0) = false := by simpa using h32'
    have e9 : ((9 : UInt8) == b0) = false := by simpa using h9'
    rcases indentationBytes_cases i h with rfl | rfl | rfl | rfl <;>
      simp [indentationBytes, List.find?, List.isPrefixOf, e32, e9, asciiChars]
  · rw [isPrefixOf_append_cancel, isPrefixOf_decode i (by
      intro b hb'
      have := h4 b hb'
      simpa [isBlankByte, SP, TAB] using this), hf, hx]
    simp only [List.isPrefixOf_cons_cons, Bool.and_eq_false_iff, beq_eq_false_iff_ne, ne_eq]
    left
    rcases hx2 with rfl | rfl
    · exact h32'
    · exact h9'

theorem entry_cont_lines (ind : List Char) (rest : List Bytes) :
    ∀ c ∈ rest.map (fun l => ind ++ ind ++ decodeGo l), (ind ++ ind).isPrefixOf c = true := by
  intro c hc
  obtain ⟨s, _, rfl⟩ := List.mem_map.mp hc
  rw [List.isPrefixOf_iff_prefix]
  exact List.prefix_append _ _

end KlogV.RefineLemmas
