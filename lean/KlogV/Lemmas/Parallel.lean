/- Lemmas about the parallel batch parser (chunking, merge, collect). -/
import KlogV.Model.Parallel
import KlogV.Lemmas.Lines
import KlogV.Lemmas.Cut
namespace KlogV

/-- `collect` and `xs[i]!` on batches need a default batch (the zero value of the Go struct). -/
instance : Inhabited Batch := ⟨⟨[], [], []⟩⟩

/-! ## Chunking -/

/-- No chunk boundary lies between a CR and an LF. -/
def GoodCuts : List Bytes → Prop
  | [] => True
  | c :: cs => (c.getLast? = some CR → cs.flatten.head? ≠ some LF) ∧ GoodCuts cs

theorem chunksGo_length (size n : Nat) (t : Bytes) : (chunksGo size n t).length = n := by
  induction n generalizing t with
  | zero => simp [chunksGo]
  | succ n ih =>
    unfold chunksGo
    split
    · simp
    · simp [ih]

theorem chunks_length (t : Bytes) (n : Nat) : (splitIntoChunks t n).length = n :=
  chunksGo_length _ _ _

theorem flatten_replicate_nil {α} (n : Nat) : (List.replicate n ([] : List α)).flatten = [] := by
  induction n with
  | zero => rfl
  | succ n ih => simp [List.replicate_succ, ih]

theorem chunksGo_flatten (size n : Nat) (t : Bytes) (h : t.length ≤ size * n) :
    (chunksGo size n t).flatten = t := by
  induction n generalizing t with
  | zero =>
    simp at h
    simp [chunksGo, h]
  | succ n ih =>
    unfold chunksGo
    split
    · simp
    · rename_i hs
      simp only [List.flatten_cons]
      rw [ih]
      · simp
      · simp only [List.length_drop]
        rw [Nat.mul_succ] at h
        omega

theorem chunks_join (t : Bytes) (n : Nat) (hn : 0 < n) : (splitIntoChunks t n).flatten = t := by
  unfold splitIntoChunks
  apply chunksGo_flatten
  have h1 := Nat.div_add_mod (t.length + n - 1) n
  have h2 := Nat.mod_lt (t.length + n - 1) hn
  rw [Nat.mul_comm]
  generalize n * ((t.length + n - 1) / n) = x at *
  omega

/-- the flattened chunks are always a prefix of the text -/
theorem chunksGo_flatten_prefix (size n : Nat) (t : Bytes) :
    ∃ r, (chunksGo size n t).flatten ++ r = t := by
  induction n generalizing t with
  | zero => exact ⟨t, by simp [chunksGo]⟩
  | succ n ih =>
    unfold chunksGo
    split
    · exact ⟨[], by simp⟩
    · obtain ⟨r, hr⟩ := ih (t.drop (size + skipCut ((t.drop (size - 1)).headD 0) (t.drop size)))
      refine ⟨r, ?_⟩
      simp only [List.flatten_cons, List.append_assoc]
      rw [hr]; simp

theorem skipCut_spec (prev : UInt8) (r : Bytes) :
    (prev :: r.take (skipCut prev r)).getLast? = some CR →
      (r.drop (skipCut prev r)).head? ≠ some LF := by
  induction r generalizing prev with
  | nil => simp [skipCut]
  | cons b r ih =>
    unfold skipCut
    by_cases hb : badCut prev b = true
    · simp only [hb, if_true]
      intro h
      have h' : (b :: r.take (skipCut b r)).getLast? = some CR := by
        rw [Nat.add_comm, List.take_succ_cons, List.getLast?_cons_cons] at h
        exact h
      have := ih b h'
      rw [Nat.add_comm, List.drop_succ_cons]
      exact this
    · simp only [hb]
      simp only [Bool.false_eq_true, if_false, List.take_zero, List.drop_zero, List.head?_cons]
      intro h h2
      simp at h h2
      apply hb
      simp [badCut, h, h2]

theorem getLast?_append_of_prev (a x : Bytes) (prev c : UInt8)
    (ha : a = [] ∨ a.getLast? = some prev) (h : (a ++ x).getLast? = some c) :
    (prev :: x).getLast? = some c := by
  cases x with
  | nil =>
    simp at h
    rcases ha with ha | ha
    · subst ha; simp at h
    · rw [ha] at h; simpa using h
  | cons y x =>
    rw [List.getLast?_cons_cons]
    rw [List.getLast?_append] at h
    simpa using h

theorem getLast?_take_eq_headD_drop (t : Bytes) (size : Nat) (h : size ≤ t.length) :
    t.take size = [] ∨ (t.take size).getLast? = some ((t.drop (size - 1)).headD 0) := by
  cases size with
  | zero => left; simp
  | succ k =>
    right
    have hk : k < t.length := by omega
    rw [List.getLast?_take]
    simp [hk, List.head?_drop, List.headD_eq_head?_getD]

theorem chunksGo_good (size n : Nat) (t : Bytes) : GoodCuts (chunksGo size n t) := by
  induction n generalizing t with
  | zero => simp [chunksGo, GoodCuts]
  | succ n ih =>
    unfold chunksGo
    split
    · simp only [GoodCuts, flatten_replicate_nil]
      refine ⟨by simp, ?_⟩
      clear ih
      induction n with
      | zero => simp [GoodCuts]
      | succ n ih2 => simp [List.replicate_succ, GoodCuts, ih2]
    · rename_i hs
      have hs : size ≤ t.length := by omega
      simp only [GoodCuts]
      refine ⟨?_, ih _⟩
      intro hlast hhead
      generalize hprev : (t.drop (size - 1)).headD 0 = prev at *
      generalize hj : skipCut prev (t.drop size) = j at *
      obtain ⟨r, hr⟩ := chunksGo_flatten_prefix size n (t.drop (size + j))
      have htake : t.take (size + j) = t.take size ++ (t.drop size).take j := by
        rw [List.take_add]
      rw [htake] at hlast
      have h1 := getLast?_append_of_prev _ _ prev CR
        (by have := getLast?_take_eq_headD_drop t size hs; rw [hprev] at this; exact this) hlast
      have h2 := skipCut_spec prev (t.drop size)
      rw [hj] at h2
      have h3 := h2 h1
      apply h3
      rw [List.drop_drop]
      rw [← hr]
      generalize (chunksGo size n (List.drop (size + j) t)).flatten = f at *
      cases f with
      | nil => simp at hhead
      | cons a f => simpa using hhead

theorem chunks_good_cuts (t : Bytes) (n : Nat) : GoodCuts (splitIntoChunks t n) :=
  chunksGo_good _ _ _

/-! ## collect -/

theorem find?_map_index {α} [Inhabited α] (rs : List α) (σ : List Nat) (i : Nat) (hi : i ∈ σ) :
    (σ.map (fun i => (i, rs[i]!))).find? (fun p => p.1 == i) = some (i, rs[i]!) := by
  induction σ with
  | nil => cases hi
  | cons j σ ih =>
    simp only [List.map_cons, List.find?_cons]
    by_cases hj : j = i
    · subst hj; simp
    · have : (j == i) = false := by simpa using hj
      simp only [this]
      apply ih
      rcases List.mem_cons.mp hi with h | h
      · exact absurd h.symm hj
      · exact h

theorem collect_perm {α} [Inhabited α] (rs : List α) (σ : List Nat)
    (hσ : σ.Perm (List.range rs.length)) :
    collect rs.length (σ.map (fun i => (i, rs[i]!))) = rs := by
  unfold collect
  apply List.ext_getElem
  · simp
  · intro i h1 h2
    simp only [List.getElem_map, List.getElem_range]
    have hi : i ∈ σ := by
      rw [hσ.mem_iff]; simp; exact h2
    rw [find?_map_index rs σ i hi]
    simp [h2]

/-! ## The work of one batch -/

theorem sum_countBytes (bs : List (List Line)) :
    (bs.map countBytes).sum = (joinLines bs.flatten).length := by
  induction bs with
  | nil => simp [joinLines]
  | cons b bs ih => simp [ih, countBytes, joinLines_append]

/-- Either a batch has no middle blocks and `head ++ tail` is the chunk, or the chunk has local
blocks `b1 :: (mid ++ [last])` with `mid ≠ []` and the batch is `(b1, mid, last)`. -/
theorem processBatch_spec (c : Bytes) :
    ((processBatch c).middle = [] ∧ (processBatch c).head ++ (processBatch c).tail = c) ∨
    (∃ b1 mid last, mid ≠ [] ∧ blocksOf c = b1 :: (mid ++ [last]) ∧
      (processBatch c).head = joinLines b1 ∧ (processBatch c).middle = mid ∧
      (processBatch c).tail = joinLines last) := by
  unfold processBatch
  by_cases hc : c.isEmpty = true
  · left
    have : c = [] := by simpa using hc
    simp [this]
  · simp only [hc, Bool.false_eq_true, if_false]
    by_cases hh : (firstBlockBytes c == c.length) = true
    · left; simp [hh]
    · simp only [hh, Bool.false_eq_true, if_false]
      cases hl : (blocksOf (c.drop (firstBlockBytes c))).getLast? with
      | none => left; simp
      | some last =>
        simp only []
        obtain ⟨mid, hbs⟩ := List.getLast?_eq_some_iff.mp hl
        by_cases hmid : mid = []
        · left
          subst hmid
          simp [hbs]
        · right
          have hh' : firstBlockBytes c ≠ c.length := by simpa using hh
          unfold firstBlockBytes at hh' hbs ⊢
          cases hbc : blocksOf c with
          | nil => rw [hbc] at hh'; exact absurd rfl hh'
          | cons b1 B =>
            rw [hbc] at hh' hbs
            simp only [] at hh' hbs ⊢
            have hflat : joinLines (b1 :: B).flatten = c := by
              have := blocksOfLines_flatten (splitLines c) (by
                show blocksOf c ≠ []
                rw [hbc]; simp)
              have h' : blocksOfLines (splitLines c) = b1 :: B := hbc
              rw [h'] at this
              rw [this, joinLines_splitLines]
            have hB : B ≠ [] := by
              intro h0; subst h0
              apply hh'
              simp only [List.flatten_cons, List.flatten_nil, List.append_nil] at hflat
              rw [countBytes, hflat]
            obtain ⟨R2, e1, e2, e3, e4, e5, e6, e7⟩ := blocksOf_decomp c b1 B hbc hB
            have hdrop : c.drop (countBytes b1) = R2 := by
              rw [countBytes]; conv => lhs; rw [e1]
              simp
            have htake : c.take (countBytes b1) = joinLines b1 := by
              rw [countBytes]; conv => lhs; rw [e1]
              simp
            rw [hdrop] at hbs ⊢
            rw [htake]
            rw [e6] at hbs
            refine ⟨b1, mid, last, hmid, by rw [hbs], rfl, by rw [e6, hbs]; simp, ?_⟩
            have hR2 : R2 = joinLines mid.flatten ++ joinLines last := by
              have := blocksOfLines_flatten (splitLines R2) (by
                show blocksOf R2 ≠ []
                rw [e6, hbs]; simp)
              have h' : blocksOfLines (splitLines R2) = mid ++ [last] := by
                show blocksOf R2 = _
                rw [e6, hbs]
              rw [h'] at this
              rw [← joinLines_splitLines R2, ← this]
              simp [joinLines_append]
            simp only [sum_countBytes]
            rw [e6, hbs]
            have hlen : (joinLines (mid ++ [last]).flatten).length - countBytes last =
                (joinLines mid.flatten).length := by
              simp [joinLines_append, countBytes]
            rw [hlen]
            conv => lhs; rw [hR2]
            simp

/-! ## The merge -/

theorem mergeGo_eq (chunks : List Bytes) (acc : List (List Line)) (carry : Bytes)
    (h : GoodCuts (carry :: chunks)) :
    mergeGo acc carry (chunks.map processBatch) = acc ++ blocksOf (carry ++ chunks.flatten) := by
  induction chunks generalizing acc carry with
  | nil => simp [mergeGo]
  | cons c cs ih =>
    obtain ⟨h1, h2, h3⟩ := h
    simp only [List.map_cons, mergeGo, List.flatten_cons]
    rcases processBatch_spec c with ⟨hm, hht⟩ | ⟨b1, mid, last, hmid, hb, hhead, hmiddle, htail⟩
    · simp only [hm, List.length_nil, Nat.lt_irrefl, if_false, gt_iff_lt]
      rw [List.append_assoc, hht]
      have hg : GoodCuts ((carry ++ c) :: cs) := by
        refine ⟨?_, h3⟩
        by_cases hc : c = []
        · subst hc; simpa using h1
        · rw [getLast?_append_of_ne_nil _ _ hc]; exact h2
      rw [ih acc (carry ++ c) hg]
      simp
    · have hlen : (processBatch c).middle.length > 0 := by
        rw [hmiddle]; exact List.length_pos_iff.mpr hmid
      simp only [hlen, if_true]
      rw [hhead, hmiddle, htail]
      have hc : c = joinLines b1 ++ joinLines mid.flatten ++ joinLines last := by
        have := blocksOfLines_flatten (splitLines c) (by
          show blocksOf c ≠ []
          rw [hb]; simp)
        have h' : blocksOfLines (splitLines c) = b1 :: (mid ++ [last]) := hb
        rw [h'] at this
        rw [← joinLines_splitLines c, ← this]
        simp [joinLines_append]
      have hg : GoodCuts (joinLines last :: cs) := by
        refine ⟨?_, h3⟩
        by_cases hl : joinLines last = []
        · rw [hl]; simp
        · have : c.getLast? = (joinLines last).getLast? := by
            conv => lhs; rw [hc]
            exact getLast?_append_of_ne_nil _ _ hl
          rw [← this]; exact h2
      rw [ih _ _ hg]
      have key := blocksOf_key carry c cs.flatten b1 mid last hb h2
      rw [List.append_assoc] at key
      rw [key]
      simp

theorem merge_eq_serial (chunks : List Bytes) (h : GoodCuts chunks) :
    parallelBlocksOfChunks chunks = blocksOf chunks.flatten := by
  unfold parallelBlocksOfChunks
  rw [mergeGo_eq chunks [] [] ⟨by simp, h⟩]
  simp

theorem parallel_main (t : Bytes) (n : Nat) (hn : 0 < n) (σ : List Nat)
    (hσ : σ.Perm (List.range n)) :
    mergeGo [] [] (collect n (σ.map (fun i => (i, ((splitIntoChunks t n).map processBatch)[i]!))))
      = blocksOf t := by
  have hlen : ((splitIntoChunks t n).map processBatch).length = n := by
    simp [chunks_length]
  have hc := collect_perm ((splitIntoChunks t n).map processBatch) σ (by rw [hlen]; exact hσ)
  rw [hlen] at hc
  rw [hc]
  have := merge_eq_serial (splitIntoChunks t n) (chunks_good_cuts t n)
  unfold parallelBlocksOfChunks at this
  rw [this, chunks_join t n hn]

end KlogV
