/- Helper lemmas for KlogV/Lemmas/GoTxt.lean: the loop body of ParseBlock. Core Lean only. -/
import KlogV.Lemmas.GoTxt5
set_option linter.unusedSimpArgs false
namespace KlogV.GoL.T
open KlogV.Go

abbrev PbState := List GoTxt.Line × Int × Int × Int

def pbBody (text : BStr) (lastRuneSize : Int) (x : Int × Int) (s : PbState) : G (ForInStep PbState) := do
  let i := x.1
  let char := x.2
  let lines := s.1
  let bytesConsumed := s.2.1
  let currentLineStart := s.2.2.1
  let currentMode := s.2.2.2
  if ((char != (10 : Int)) && ((add i lastRuneSize) != (len text))) then
    return .yield (lines, bytesConsumed, currentLineStart, currentMode)
  let charSize := (Go.utf8DecodeRune (← slice text i (len text))).2
  let nextChar := (add i charSize)
  let currentLine := (← slice text currentLineStart nextChar)
  let line := (← GoTxt.NewLineFromString currentLine)
  let upd (m : Int) : ForInStep PbState := .yield (lines ++ [line], add bytesConsumed (len currentLine), nextChar, m)
  if (currentMode == 0) then
    if (!(← line.IsBlank)) then
      return upd 1
    else return upd currentMode
  else if (currentMode == 1) then
    if (← line.IsBlank) then
      return upd 2
    else return upd currentMode
  else if (currentMode == 2) then
    if (!(← line.IsBlank)) then
      return .done (lines, bytesConsumed, currentLineStart, currentMode)
    else return upd currentMode
  else return upd currentMode

theorem pb_unf (t : Bytes) (n : Int) :
    GoTxt.ParseBlock t n = (do
      let v ← forIn (rangeStr t) (default, 0, 0, 0) (pbBody t (utf8DecodeLastRune t).2)
      if (!v.snd.snd.snd != 0) = true then pure (none, v.snd.fst)
      else pure (some { precedingLineCount := n, lines := v.fst }, v.snd.fst)) := by
  unfold GoTxt.ParseBlock pbBody
  simp only [bind, Except.bind, pure, Except.pure]

/-- one rune that neither is a line feed nor ends the text -/
theorem pbBody_skip (t : Bytes) (lrs i c : Int) (s : PbState) (hc : c ≠ 10) (hl : add i lrs ≠ len t) :
    pbBody t lrs (i, c) s = .ok (.yield s) := by
  unfold pbBody
  have : ((c != 10) && (add i lrs != len t)) = true := by simp [hc, hl]
  simp only [this, if_true, pure, Except.pure]

def stepMode' (m : Mode) (blank : Bool) : Mode :=
  match m with
  | .pre => if blank then .pre else .sig
  | .sig => if blank then .post else .sig
  | .post => .post

/-- what the loop body does with a complete line -/
def lineStep (raw : Bytes) (acc : List Line) (m : Mode) : ForInStep PbState :=
  let l := Line.ofRaw raw
  if m = .post ∧ l.isBlank = false then
    .done (acc.map Line.toGo, (countBytes acc : Int), (countBytes acc : Int), modeInt m)
  else
    .yield ((acc ++ [l]).map Line.toGo, (countBytes (acc ++ [l]) : Int), (countBytes (acc ++ [l]) : Int),
      modeInt (stepMode' m l.isBlank))

theorem countBytes_snoc (acc : List Line) (raw : Bytes) :
    countBytes (acc ++ [Line.ofRaw raw]) = countBytes acc + raw.length := by
  unfold countBytes
  rw [joinLines_append]
  simp [joinLines, Line.ofRaw_original]

theorem pbBody_line_aux (t : Bytes) (lrs c off cA B w m B' N' : Int) (bs raw : Bytes) (L : List GoTxt.Line)
    (line : GoTxt.Line) (blank : Bool)
    (h1 : ((c != 10) && (add off lrs != len t)) = false)
    (h2 : slice t off (len t) = .ok bs)
    (h3 : (utf8DecodeRune bs).2 = w)
    (hN : add off w = N')
    (h4 : slice t cA N' = .ok raw)
    (h5 : GoTxt.NewLineFromString raw = .ok line)
    (h6 : line.IsBlank = .ok blank)
    (hB : add B (len raw) = B') :
    pbBody t lrs (off, c) (L, B, cA, m) = .ok (
      if (m == 0) = true then
        (if (!blank) = true then .yield (L ++ [line], B', N', 1)
         else .yield (L ++ [line], B', N', m))
      else if (m == 1) = true then
        (if blank = true then .yield (L ++ [line], B', N', 2)
         else .yield (L ++ [line], B', N', m))
      else if (m == 2) = true then
        (if (!blank) = true then .done (L, B, cA, m)
         else .yield (L ++ [line], B', N', m))
      else .yield (L ++ [line], B', N', m)) := by
  unfold pbBody
  simp only [h1, h2, h3, hN, h4, h5, h6, hB, bind, Except.bind, pure, Except.pure, Bool.false_eq_true, if_false]
  by_cases m0 : (m == 0) = true
  · simp only [m0, if_true]; cases blank <;> rfl
  · simp only [m0, if_false]
    by_cases m1 : (m == 1) = true
    · simp only [m1, if_true]; cases blank <;> rfl
    · simp only [m1, if_false]
      by_cases m2 : (m == 2) = true
      · simp only [m2, if_true]; cases blank <;> rfl
      · simp only [m2, if_false, Bool.false_eq_true]

theorem pbBody_line (acc : List Line) (seg bs : Bytes) (lrs c : Int) (m : Mode) (b : UInt8) (rest : Bytes)
    (hbs : bs = b :: rest)
    (hlen : ((joinLines acc ++ (seg ++ bs)).length : Int) < 9223372036854775808)
    (hcond : ¬ (c ≠ 10 ∧ add ((countBytes acc + seg.length : Nat) : Int) lrs ≠ len (joinLines acc ++ (seg ++ bs)))) :
    pbBody (joinLines acc ++ (seg ++ bs)) lrs (((countBytes acc + seg.length : Nat) : Int), c)
      (acc.map Line.toGo, (countBytes acc : Int), (countBytes acc : Int), modeInt m) =
    .ok (lineStep (seg ++ bs.take (W bs)) acc m) := by
  have hw := W_le b rest
  rw [← hbs] at hw
  have hWc : W bs = (decodeRune bs).2 := by rw [hbs]; exact W_cons b rest
  have hcA : countBytes acc = (joinLines acc).length := rfl
  simp only [List.length_append] at hlen
  generalize ht : joinLines acc ++ (seg ++ bs) = t at *
  have htl : t.length = countBytes acc + seg.length + bs.length := by
    rw [← ht, hcA]; simp only [List.length_append]; omega
  have hlt : len t = ((countBytes acc + seg.length + bs.length : Nat) : Int) := by unfold len; rw [htl]
  have h1 : ((c != 10) && (add ((countBytes acc + seg.length : Nat) : Int) lrs != len t)) = false := by
    cases hh : ((c != 10) && (add ((countBytes acc + seg.length : Nat) : Int) lrs != len t))
    · rfl
    · exfalso; apply hcond
      simp only [Bool.and_eq_true, bne_iff_ne, ne_eq] at hh
      exact hh
  have h2 : slice t ((countBytes acc + seg.length : Nat) : Int) (len t) = .ok bs := by
    rw [hlt, slice_ok _ _ _ (by omega) (by omega) (by rw [htl]; omega)]
    refine congrArg Except.ok ?_
    have e1 : ((countBytes acc + seg.length : Nat) : Int).toNat = countBytes acc + seg.length := by omega
    have e2 : (((countBytes acc + seg.length + bs.length : Nat) : Int) - ((countBytes acc + seg.length : Nat) : Int)).toNat = bs.length := by omega
    rw [e1, e2, ← ht, ← List.append_assoc, List.drop_left' (by rw [List.length_append, hcA])]
    exact List.take_length
  have h3 : (utf8DecodeRune bs).2 = ((W bs : Nat) : Int) := by rw [hWc]; rfl
  have hadd : add ((countBytes acc + seg.length : Nat) : Int) ((W bs : Nat) : Int) = ((countBytes acc + seg.length + W bs : Nat) : Int) := by
    rw [addI_eq _ _ (by unfold inInt64; omega)]; omega
  have hrawlen : (seg ++ bs.take (W bs)).length = seg.length + W bs := by
    rw [List.length_append, List.length_take]; omega
  have h4 : slice t (countBytes acc : Int) ((countBytes acc + seg.length + W bs : Nat) : Int) = .ok (seg ++ bs.take (W bs)) := by
    rw [slice_ok _ _ _ (by omega) (by omega) (by rw [htl]; omega)]
    refine congrArg Except.ok ?_
    have e1 : ((countBytes acc : Nat) : Int).toNat = countBytes acc := by omega
    have e2 : (((countBytes acc + seg.length + W bs : Nat) : Int) - ((countBytes acc : Nat) : Int)).toNat = seg.length + W bs := by omega
    rw [e1, e2, ← ht, List.drop_left' hcA.symm, List.take_length_add_append]
  have h5 := T.newLineFromString_eq (seg ++ bs.take (W bs)) (by rw [hrawlen]; omega)
  have h6 := T.line_isBlank_eq (Line.ofRaw (seg ++ bs.take (W bs)))
  have hN : ((countBytes acc + seg.length + W bs : Nat) : Int) = ((countBytes (acc ++ [Line.ofRaw (seg ++ bs.take (W bs))]) : Nat) : Int) := by
    rw [countBytes_snoc, hrawlen]; omega
  rw [hN] at hadd h4
  have hB : add ((countBytes acc : Nat) : Int) (len (seg ++ bs.take (W bs))) = ((countBytes (acc ++ [Line.ofRaw (seg ++ bs.take (W bs))]) : Nat) : Int) := by
    unfold len
    rw [countBytes_snoc, hrawlen, addI_eq _ _ (by unfold inInt64; omega)]; omega
  rw [pbBody_line_aux t lrs c _ _ _ _ _ _ _ bs _ _ _ _ h1 h2 h3 hadd h4 h5 h6 hB]
  refine congrArg Except.ok ?_
  unfold lineStep
  simp only [List.map_append, List.map_cons, List.map_nil]
  cases m <;> cases (Line.ofRaw (seg ++ bs.take (W bs))).isBlank <;> simp [modeInt, stepMode']

end KlogV.GoL.T
