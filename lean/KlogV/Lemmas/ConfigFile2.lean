/-
Helper lemmas for KlogV/Lemmas/ConfigFile.lean, part 2: the settings, stage by stage.
-/
import KlogV.Model.ConfigFile
import KlogV.Lemmas.Totality
import KlogV.Lemmas.RefineB9
namespace KlogV.ConfigLemmas
open KlogV

theorem rounding_aux (r : Int) (n : Nat)
    (h : (if (decide (r ≥ 0) && validRoundings.contains r.toNat) = true then some r.toNat else none) = some n) :
    n ∈ [5, 10, 12, 15, 20, 30, 60] := by
  by_cases hc : (decide (r ≥ 0) && validRoundings.contains r.toNat) = true
  · rw [if_pos hc] at h
    rw [Bool.and_eq_true] at hc
    have hm := List.contains_iff_mem.mp hc.2
    cases h
    exact hm
  · rw [if_neg hc] at h
    cases h

theorem parseRounding_mem' (s : List Char) (n : Nat) (h : parseRounding s = some n) : n ∈ [5, 10, 12, 15, 20, 30, 60] :=
  rounding_aux _ n h

/-- the settings after `editor` -/
def afterEditor (es : List (Bytes × Bytes)) (c : AppConfig) : CfgRes :=
  let v := iniGet es
  let colour : Option ColourTheme :=
    if v "colour_scheme" == [] then some c.colour
    else if v "colour_scheme" == bytesOf "dark" then some .dark
    else if v "colour_scheme" == bytesOf "no_colour" then some .noColour
    else if v "colour_scheme" == bytesOf "light" then some .light
    else if v "colour_scheme" == bytesOf "basic" then some .basic
    else none
  match colour with
  | none => .bad "colour_scheme"
  | some col =>
  let c := { c with colour := col }
  match (if v "default_rounding" == [] then some c.rounding else (parseRounding (decodeGo (v "default_rounding"))).map some) with
  | none => .bad "default_rounding"
  | some r =>
  let c := { c with rounding := r }
  let sv := v "default_should_total"
  let should : Res (Option Int) :=
    if sv == [] then .ok c.should else
    let sv := if sv.getLast? == some 33 then sv.dropLast else sv
    (Dur.parse (decodeGo sv)).map fun d => some d.mins
  match should with
  | .panic => .panic
  | .err => .bad "default_should_total"
  | .ok sh =>
  let c := { c with should := sh }
  let df := v "date_format"
  match (if df == [] then some c.dateDashes else if df == bytesOf "YYYY-MM-DD" then some (some true)
         else if df == bytesOf "YYYY/MM/DD" then some (some false) else none) with
  | none => .bad "date_format"
  | some dd =>
  let c := { c with dateDashes := dd }
  let tc := v "time_convention"
  match (if tc == [] then some c.time24 else if tc == bytesOf "24h" then some (some true)
         else if tc == bytesOf "12h" then some (some false) else none) with
  | none => .bad "time_convention"
  | some t24 =>
  let c := { c with time24 := t24 }
  let nw := v "no_warnings"
  match (if nw == [] then some c.noWarnings else (parseNoWarnings nw).map some) with
  | none => .bad "no_warnings"
  | some w => .ok { c with noWarnings := w }

def withEditor (es : List (Bytes × Bytes)) (c : AppConfig) : AppConfig :=
  if iniGet es "editor" != [] then { c with editor := some (iniGet es "editor") } else c

theorem applyConfigFile_eq (text : Bytes) (c : AppConfig) :
    applyConfigFile text c = match iniEntries text with
      | none => .bad "syntax"
      | some es => afterEditor es (withEditor es c) := rfl

theorem withEditor_editor (es : List (Bytes × Bytes)) (c : AppConfig) :
    (withEditor es c).editor = if iniGet es "editor" = [] then c.editor else some (iniGet es "editor") := by
  unfold withEditor
  by_cases h : iniGet es "editor" = []
  · simp [h]
  · simp [h]

theorem withEditor_rest (es : List (Bytes × Bytes)) (c : AppConfig) :
    (withEditor es c).cpus = c.cpus ∧ (withEditor es c).rounding = c.rounding ∧ (withEditor es c).should = c.should ∧
    (withEditor es c).dateDashes = c.dateDashes ∧ (withEditor es c).time24 = c.time24 ∧ (withEditor es c).colour = c.colour ∧
    (withEditor es c).noWarnings = c.noWarnings := by
  unfold withEditor
  split <;> simp

/-! the single stages -/

theorem stage_rounding (v : Bytes) (r0 r : Option Nat)
    (h : (if v == [] then some r0 else (parseRounding (decodeGo v)).map some) = some r) :
    if v = [] then r = r0 else ∃ n, r = some n ∧ parseRounding (decodeGo v) = some n ∧ n ∈ [5, 10, 12, 15, 20, 30, 60] := by
  by_cases hv : v = []
  · simp only [hv, beq_self_eq_true, if_true] at h ⊢
    cases h; rfl
  · have hv' : (v == []) = false := by simpa using hv
    simp only [hv', Bool.false_eq_true, if_false, hv] at h ⊢
    cases hp : parseRounding (decodeGo v) with
    | none => rw [hp] at h; cases h
    | some n =>
      rw [hp] at h
      cases h
      exact ⟨n, rfl, rfl, parseRounding_mem' _ _ hp⟩

theorem stage_should (sv : Bytes) (s0 sh : Option Int)
    (h : (if sv == [] then Res.ok s0 else
            (Dur.parse (decodeGo (if sv.getLast? == some 33 then sv.dropLast else sv))).map fun d => some d.mins) = .ok sh) :
    if sv = [] then sh = s0 else ∃ d, sh = some d.mins ∧
      Dur.parse (decodeGo (if sv.getLast? = some 33 then sv.dropLast else sv)) = .ok d := by
  by_cases hv : sv = []
  · simp only [hv, beq_self_eq_true, if_true] at h ⊢
    cases h; rfl
  · have hv' : (sv == []) = false := by simpa using hv
    simp only [hv', Bool.false_eq_true, if_false, hv, beq_iff_eq] at h ⊢
    cases hp : Dur.parse (decodeGo (if sv.getLast? = some 33 then sv.dropLast else sv)) with
    | ok d =>
      rw [hp] at h
      simp only [Res.map, Res.ok.injEq] at h
      exact ⟨d, h.symm, rfl⟩
    | err => rw [hp] at h; cases h
    | panic => rw [hp] at h; cases h

theorem stage_should_panic (sv : Bytes) (s0 : Option Int)
    (h : (if sv == [] then Res.ok s0 else
            (Dur.parse (decodeGo (if sv.getLast? == some 33 then sv.dropLast else sv))).map fun d => some d.mins) = .panic) :
    HasLongDigitRun (decodeGo sv) := by
  by_cases hv : sv = []
  · simp only [hv, beq_self_eq_true, if_true] at h
    cases h
  · have hv' : (sv == []) = false := by simpa using hv
    simp only [hv', Bool.false_eq_true, if_false, beq_iff_eq] at h
    have hp : Dur.parse (decodeGo (if sv.getLast? = some 33 then sv.dropLast else sv)) = .panic := by
      cases hp : Dur.parse (decodeGo (if sv.getLast? = some 33 then sv.dropLast else sv)) with
      | ok d => rw [hp] at h; cases h
      | err => rw [hp] at h; cases h
      | panic => rfl
    have hrun := dur_panic_only_huge _ hp
    by_cases hl : sv.getLast? = some 33
    · simp only [hl, if_true] at hrun
      have hsv : sv = sv.dropLast ++ [33] := by
        have e := List.dropLast_concat_getLast hv
        have e2 : sv.getLast hv = 33 := (List.getLast_eq_iff_getLast?_eq_some hv).mpr hl
        rw [e2] at e
        exact e.symm
      rw [hsv, RefineBLemmas.decodeGo_mid _ 33 (by decide) []]
      exact HasLongDigitRun.of_infix (List.prefix_append _ _).isInfix hrun
    · simpa only [hl, if_false] using hrun

theorem stage_fmt (df a b : Bytes) (d0 dd : Option Bool)
    (h : (if df == [] then some d0 else if df == a then some (some true)
           else if df == b then some (some false) else none) = some dd) :
    dd = (if df = [] then d0 else if df = a then some true else some false) ∧ (df = [] ∨ df = a ∨ df = b) := by
  by_cases h1 : df = []
  · simp only [h1, beq_self_eq_true, if_true] at h ⊢
    cases h; exact ⟨rfl, Or.inl trivial⟩
  · have h1' : (df == []) = false := by simpa using h1
    rw [h1', if_neg (by simp)] at h
    rw [if_neg h1]
    by_cases h2 : df = a
    · have h2' : (df == a) = true := by simpa using h2
      rw [h2', if_pos rfl] at h
      rw [if_pos h2]
      cases h
      exact ⟨rfl, Or.inr (Or.inl h2)⟩
    · have h2' : (df == a) = false := by simpa using h2
      rw [h2', if_neg (by simp)] at h
      rw [if_neg h2]
      by_cases h3 : df = b
      · have h3' : (df == b) = true := by simpa using h3
        rw [h3', if_pos rfl] at h
        cases h
        exact ⟨rfl, Or.inr (Or.inr h3)⟩
      · have h3' : (df == b) = false := by simpa using h3
        rw [h3', if_neg (by simp)] at h
        cases h

/-- what an accepted file denotes, after the editor -/
theorem afterEditor_ok (es : List (Bytes × Bytes)) (c c' : AppConfig) (h : afterEditor es c = .ok c') :
    (c'.dateDashes = (if iniGet es "date_format" = [] then c.dateDashes
          else if iniGet es "date_format" = bytesOf "YYYY-MM-DD" then some true else some false) ∧
        (iniGet es "date_format" = [] ∨ iniGet es "date_format" = bytesOf "YYYY-MM-DD" ∨ iniGet es "date_format" = bytesOf "YYYY/MM/DD")) ∧
      (c'.time24 = (if iniGet es "time_convention" = [] then c.time24
          else if iniGet es "time_convention" = bytesOf "24h" then some true else some false) ∧
        (iniGet es "time_convention" = [] ∨ iniGet es "time_convention" = bytesOf "24h" ∨ iniGet es "time_convention" = bytesOf "12h")) ∧
      (if iniGet es "default_rounding" = [] then c'.rounding = c.rounding
        else ∃ n, c'.rounding = some n ∧ parseRounding (decodeGo (iniGet es "default_rounding")) = some n ∧ n ∈ [5, 10, 12, 15, 20, 30, 60]) ∧
      (if iniGet es "default_should_total" = [] then c'.should = c.should
        else ∃ d, c'.should = some d.mins ∧
          Dur.parse (decodeGo (if (iniGet es "default_should_total").getLast? = some 33 then (iniGet es "default_should_total").dropLast
            else iniGet es "default_should_total")) = .ok d) ∧
      c'.editor = c.editor ∧
      c'.cpus = c.cpus := by
  unfold afterEditor at h
  dsimp only at h
  split at h
  · cases h
  · rename_i col hcol
    split at h
    · cases h
    · rename_i r hr
      split at h
      · cases h
      · cases h
      · rename_i sh hsh
        split at h
        · cases h
        · rename_i dd hdd
          split at h
          · cases h
          · rename_i t24 ht
            split at h
            · cases h
            · rename_i w hw
              cases h
              exact ⟨stage_fmt _ _ _ _ _ hdd, stage_fmt _ _ _ _ _ ht, stage_rounding _ _ _ hr, stage_should _ _ _ hsh, rfl, rfl⟩

theorem afterEditor_panic (es : List (Bytes × Bytes)) (c : AppConfig) (h : afterEditor es c = .panic) :
    HasLongDigitRun (decodeGo (iniGet es "default_should_total")) := by
  unfold afterEditor at h
  dsimp only at h
  split at h
  · cases h
  · split at h
    · cases h
    · split at h
      · rename_i hsh
        exact stage_should_panic _ _ hsh
      · cases h
      · split at h
        · cases h
        · split at h
          · cases h
          · split at h
            · cases h
            · cases h

end KlogV.ConfigLemmas
