/- C01 lemmas: the parser accepts exactly the lines of the grammar (KlogV/Spec/Grammar.lean).
Parts: Grammar1 (date, time), Grammar2 (durations), Grammar3 (entry values), Grammar4 (headline,
record summary, indentation), Grammar5 (entries pass and record: completeness), Grammar6 (soundness);
here: rejection, and the document level. -/
import KlogV.Lemmas.Grammar6
namespace KlogV
open GrammarLemmas

/-- the characters of the significant lines of a block (bytes decoded as any Go program sees them) -/
def blockChars (b : List Line) : List (List Char) := (significant b).1.map (fun l => decodeGo l.text)

/-- A text denotes records `rs`: its blocks (C08: maximal groups of non-blank lines, separated by
blank lines) conform to the grammar one by one, in file order. -/
def DocOf (t : Bytes) (rs : List Record) : Prop :=
  Spec.Forall2 (fun b r => Spec.RecordLines (blockChars b) r) (blocksOf t) rs

theorem parseRecord_rejected (offset : Nat) (ls : List (List Char)) (hl : ls ≠ []) (hn : ∀ l ∈ ls, ¬ HasLongDigitRun l)
    (h : ¬ ∃ r, Spec.RecordLines ls r) : ∃ es, parseRecord offset ls = .errors es ∧ es ≠ [] := by
  cases hp : parseRecord offset ls with
  | record r => exact absurd ⟨r, parseRecord_sound offset ls r hp⟩ h
  | errors es => exact ⟨es, rfl, parseRecord_errors_nonempty offset ls es hl hp⟩
  | panic => exact absurd hp (parseRecord_no_panic offset ls hn)

namespace GrammarLemmas

theorem parseBlock_eq (b : List Line) : parseBlock b = parseRecord (significant b).2.1 (blockChars b) := rfl

theorem forall2_imp {α β : Type} {R S : α → β → Prop} {as : List α} {bs : List β}
    (h : Spec.Forall2 R as bs) (hi : ∀ a ∈ as, ∀ b, R a b → S a b) : Spec.Forall2 S as bs := by
  induction h with
  | nil => exact Spec.Forall2.nil
  | cons h' _ ih =>
    exact Spec.Forall2.cons (hi _ (by simp) _ h') (ih (fun a ha b hab => hi a (by simp [ha]) b hab))

theorem forall2_map_eq {α β γ : Type} {f : α → γ} {g : β → γ} {as : List α} {bs : List β}
    (h : Spec.Forall2 (fun a b => f a = g b) as bs) : as.map f = bs.map g := by
  induction h with
  | nil => rfl
  | cons h' _ ih => simp [h', ih]

theorem forall2_of_map_eq {α β γ : Type} {f : α → γ} {g : β → γ} : ∀ {as : List α} {bs : List β},
    as.map f = bs.map g → Spec.Forall2 (fun a b => f a = g b) as bs := by
  intro as
  induction as with
  | nil =>
    intro bs h
    cases bs with
    | nil => exact Spec.Forall2.nil
    | cons b bs => simp at h
  | cons a as ih =>
    intro bs h
    cases bs with
    | nil => simp at h
    | cons b bs =>
      simp only [List.map_cons, List.cons.injEq] at h
      exact Spec.Forall2.cons h.1 (ih h.2)

theorem forall2_mem_left {α β : Type} {R : α → β → Prop} {as : List α} {bs : List β}
    (h : Spec.Forall2 R as bs) : ∀ a ∈ as, ∃ b, R a b := by
  induction h with
  | nil => intro a ha; cases ha
  | cons h' _ ih =>
    intro a ha
    rcases List.mem_cons.mp ha with rfl | ha
    · exact ⟨_, h'⟩
    · exact ih a ha

/-- the records of an error-free, panic-free list of block results -/
theorem records_outs (bos : List BlockOut)
    (h1 : bos.any (fun bo => bo.out == .panic) = false)
    (h2 : bos.any (fun bo => match bo.out with | .errors _ => true | _ => false) = false) :
    bos.map (·.out) =
      (bos.filterMap (fun bo => match bo.out with | .record r => some r | _ => none)).map ParseOut.record := by
  induction bos with
  | nil => rfl
  | cons bo bos ih =>
    simp only [List.any_cons, Bool.or_eq_false_iff] at h1 h2
    have := ih h1.2 h2.2
    cases ho : bo.out with
    | record r => simp [ho, this]
    | errors es => rw [ho] at h2; simp at h2
    | panic => rw [ho] at h1; simp at h1

end GrammarLemmas

theorem parseDoc_complete (t : Bytes) (rs : List Record) (h : DocOf t rs)
    (hn : ∀ b ∈ blocksOf t, ∀ l ∈ blockChars b, ¬ HasLongDigitRun l) :
    ∃ bos, parseDoc t = .records rs bos := by
  refine ⟨blockOuts (blocksOf t), ?_⟩
  unfold parseDoc
  apply assemble_records
  apply forall2_map_eq
  apply forall2_imp h
  intro b hb r hr
  rw [parseBlock_eq]
  exact parseRecord_complete _ _ r hr (hn b hb)

theorem parseDoc_sound (t : Bytes) (rs : List Record) (bos : List BlockOut) (h : parseDoc t = .records rs bos) :
    DocOf t rs := by
  unfold parseDoc assemble at h
  split at h
  · cases h
  · rename_i hnp
    dsimp only at h
    split at h
    · cases h
    · rename_i hne
      simp only [DocOut.records.injEq] at h
      obtain ⟨rfl, _⟩ := h
      simp only [Bool.not_eq_true] at hnp hne
      have := records_outs _ hnp hne
      rw [blockOuts_out] at this
      unfold DocOf
      apply forall2_imp (forall2_of_map_eq this)
      intro b _ r hr
      rw [parseBlock_eq] at hr
      exact parseRecord_sound _ _ r hr

theorem parseDoc_rejected (t : Bytes) (hn : ∀ b ∈ blocksOf t, ∀ l ∈ blockChars b, ¬ HasLongDigitRun l)
    (h : ∃ b ∈ blocksOf t, ¬ ∃ r, Spec.RecordLines (blockChars b) r) :
    ∃ es, parseDoc t = .errors es ∧ es ≠ [] := by
  rcases parseDoc_shape t with ⟨rs, bos, hp, _⟩ | hp | hp
  · exfalso
    obtain ⟨b, hb, hnr⟩ := h
    exact hnr (forall2_mem_left (parseDoc_sound t rs bos hp) b hb)
  · exact hp
  · exfalso
    unfold parseDoc assemble at hp
    split at hp
    · rename_i hany
      obtain ⟨bo, hbo, hout⟩ := List.any_eq_true.mp hany
      obtain ⟨ho, hl⟩ := blockOuts_mem _ _ hbo
      rw [ho, parseBlock_eq] at hout
      simp only [beq_iff_eq] at hout
      exact parseRecord_no_panic _ _ (hn _ hl) hout
    · dsimp only at hp
      split at hp <;> cases hp

end KlogV
