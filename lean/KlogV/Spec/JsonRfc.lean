/-
An independent reader for JSON texts (RFC 8259), restricted to integer numbers (klog never
emits fractions or exponents; such numbers are rejected).  Shares nothing with the encoder in
KlogV/Model/Json.lean except the value type `JVal` (booleans are read as `JBool` wrappers).
-/
import KlogV.Model.Json
namespace KlogV.Spec

/-- values the reader produces (RFC 8259 value grammar) -/
inductive J where
  | null | bool (b : Bool) | num (n : Int) | str (s : List Char)
  | arr (xs : List J) | obj (kvs : List (List Char × J))
  deriving Repr, Inhabited

def isWs (c : Char) : Bool := c == ' ' || c == '\n' || c == '\r' || c == '\t'

def skipWs (s : List Char) : List Char := s.dropWhile isWs

def hexDigitVal (c : Char) : Option Nat :=
  if '0' ≤ c && c ≤ '9' then some (c.toNat - 48)
  else if 'a' ≤ c && c ≤ 'f' then some (c.toNat - 87)
  else if 'A' ≤ c && c ≤ 'F' then some (c.toNat - 55)
  else none

def hex4 (a b c d : Char) : Option Nat := do
  let a ← hexDigitVal a; let b ← hexDigitVal b; let c ← hexDigitVal c; let d ← hexDigitVal d
  pure (a * 4096 + b * 256 + c * 16 + d)

/-- string body after the opening quote: returns the decoded string and the rest after the
closing quote.  Control characters (< 0x20) must be escaped. -/
def readString : Nat → List Char → List Char → Option (List Char × List Char)
  | 0, _, _ => none
  | _, _, [] => none
  | fuel + 1, acc, c :: r =>
    if c == '"' then some (acc.reverse, r)
    else if c == '\\' then
      match r with
      | '"' :: r' => readString fuel ('"' :: acc) r'
      | '\\' :: r' => readString fuel ('\\' :: acc) r'
      | '/' :: r' => readString fuel ('/' :: acc) r'
      | 'b' :: r' => readString fuel (Char.ofNat 8 :: acc) r'
      | 'f' :: r' => readString fuel (Char.ofNat 12 :: acc) r'
      | 'n' :: r' => readString fuel ('\n' :: acc) r'
      | 'r' :: r' => readString fuel ('\r' :: acc) r'
      | 't' :: r' => readString fuel ('\t' :: acc) r'
      | 'u' :: a :: b :: c' :: d :: r' =>
        (match hex4 a b c' d with
         | none => none
         | some n =>
           if 0xD800 ≤ n && n ≤ 0xDBFF then
             -- high surrogate: must be followed by an escaped low surrogate
             (match r' with
              | '\\' :: 'u' :: e :: f :: g :: h :: r'' =>
                (match hex4 e f g h with
                 | some m => if 0xDC00 ≤ m && m ≤ 0xDFFF then readString fuel (Char.ofNat (0x10000 + (n - 0xD800) * 1024 + (m - 0xDC00)) :: acc) r'' else none
                 | none => none)
              | _ => none)
           else if 0xDC00 ≤ n && n ≤ 0xDFFF then none
           else readString fuel (Char.ofNat n :: acc) r')
      | _ => none
    else if c.toNat < 0x20 then none
    else readString fuel (c :: acc) r

/-- integer: `-`? (0 | [1-9][0-9]*), not followed by `.`, `e`, `E` -/
def readInt (s : List Char) : Option (Int × List Char) :=
  let (neg, s) := match s with | '-' :: r => (true, r) | _ => (false, s)
  let ds := s.takeWhile isDigit
  let rest := s.drop ds.length
  if ds.isEmpty then none
  else if ds.length > 1 && ds.head? == some '0' then none
  else match rest with
    | '.' :: _ => none
    | 'e' :: _ => none
    | 'E' :: _ => none
    | _ => some ((if neg then -(digitsVal ds : Int) else digitsVal ds), rest)

mutual
/-- one value, leading whitespace allowed -/
def readValue : Nat → List Char → Option (J × List Char)
  | 0, _ => none
  | fuel + 1, s =>
    match skipWs s with
    | 'n' :: 'u' :: 'l' :: 'l' :: r => some (.null, r)
    | 't' :: 'r' :: 'u' :: 'e' :: r => some (.bool true, r)
    | 'f' :: 'a' :: 'l' :: 's' :: 'e' :: r => some (.bool false, r)
    | '"' :: r => (readString (r.length + 1) [] r).map (fun (str, rest) => (.str str, rest))
    | '[' :: r =>
      (match skipWs r with
       | ']' :: r' => some (.arr [], r')
       | _ => (readElems fuel r).map (fun (xs, rest) => (.arr xs, rest)))
    | '{' :: r =>
      (match skipWs r with
       | '}' :: r' => some (.obj [], r')
       | _ => (readMembers fuel r).map (fun (kvs, rest) => (.obj kvs, rest)))
    | s' => (readInt s').map (fun (n, rest) => (.num n, rest))
/-- elements after `[`, up to and including `]` -/
def readElems : Nat → List Char → Option (List J × List Char)
  | 0, _ => none
  | fuel + 1, s =>
    match readValue fuel s with
    | none => none
    | some (v, rest) =>
      match skipWs rest with
      | ',' :: r => (readElems fuel r).map (fun (vs, rest') => (v :: vs, rest'))
      | ']' :: r => some ([v], r)
      | _ => none
/-- members after `{`, up to and including `}` -/
def readMembers : Nat → List Char → Option (List (List Char × J) × List Char)
  | 0, _ => none
  | fuel + 1, s =>
    match skipWs s with
    | '"' :: r =>
      (match readString (r.length + 1) [] r with
       | none => none
       | some (k, rest) =>
         match skipWs rest with
         | ':' :: r' =>
           (match readValue fuel r' with
            | none => none
            | some (v, rest') =>
              match skipWs rest' with
              | ',' :: r'' => (readMembers fuel r'').map (fun (kvs, rest'') => ((k, v) :: kvs, rest''))
              | '}' :: r'' => some ([(k, v)], r'')
              | _ => none)
         | _ => none)
    | _ => none
end

/-- a complete JSON text: one value, optional surrounding whitespace, nothing else -/
def readJson (s : List Char) : Option J :=
  match readValue (s.length + 1) s with
  | some (v, rest) => if (skipWs rest).isEmpty then some v else none
  | none => none

/-- the reader's view of an encoder value -/
def ofJVal : JVal → J
  | .null => .null
  | .num n => .num n
  | .str s => .str s
  | .arr xs => .arr (xs.attach.map (fun ⟨x, _⟩ => ofJVal x))
  | .obj kvs => .obj (kvs.attach.map (fun ⟨kv, _⟩ => (kv.1, ofJVal kv.2)))
termination_by v => sizeOf v
decreasing_by
  all_goals simp_wf
  · have := List.sizeOf_lt_of_mem ‹_ ∈ xs›; omega
  · have h := List.sizeOf_lt_of_mem ‹_ ∈ kvs›
    have : sizeOf kv.2 < sizeOf kv := by cases kv; simp; omega
    omega

end KlogV.Spec
