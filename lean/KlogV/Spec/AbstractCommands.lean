/-
Abstract semantics of the mutating commands on RECORDS (DESIGN.md appendix C): what each command
is meant to do to the list of records of a file, without any reference to text, lines, styles or
the reconciler.  Notation of newly written values (clock convention, dash spacing, date separator,
placeholder length) is deliberately not part of it: `SameValue` / `SameDate` ignore notation.
-/
import KlogV.Model.Eval
namespace KlogV.Spec

/-- same kind and same value, whatever the notation -/
def SameValue : EntryVal → EntryVal → Prop
  | .dur a, .dur b => a.mins = b.mins
  | .range s e _, .range s' e' _ => s.offset = s'.offset ∧ e.offset = e'.offset
  | .openRange s _ _, .openRange s' _ _ => s.offset = s'.offset
  | _, _ => False

def SameEntry (a b : Entry) : Prop := SameValue a.val b.val ∧ a.summary = b.summary

def SameDate (a b : Date) : Prop := a.y = b.y ∧ a.m = b.m ∧ a.d = b.d

/-- order of dates as klog compares them (lexicographic on year, month, day) -/
def DateLe (a b : Date) : Prop := a.y < b.y ∨ (a.y = b.y ∧ (a.m < b.m ∨ (a.m = b.m ∧ a.d ≤ b.d)))

/-- index of the first record dated `d` -/
def targetIdx (rs : List Record) (d : Date) : Option Nat :=
  (rs.zipIdx.find? (fun p => p.1.date.sameDay d)).map (·.2)

/-- decidable version of `DateLe` -/
def dateLe (a b : Date) : Bool := a.y < b.y || (a.y == b.y && (a.m < b.m || (a.m == b.m && a.d ≤ b.d)))

/-- the first index `i` (counting from `k`) such that record `i` is the last one, or
`date i ≤ d < date (i+1)` -/
def slotAfter (d : Date) : Nat → List Record → Nat
  | k, [] => k
  | k, [_] => k
  | k, a :: b :: rest => if dateLe a.date d && !dateLe b.date d then k else slotAfter d (k + 1) (b :: rest)

/-- Where a new record dated `d` goes: in front of the first record if it is earlier than that
one; otherwise directly after record `i`, the first index with `date i ≤ d < date (i+1)`, or
after the last record.  For a file sorted by date that is its chronological position, behind
records of the same date (`insertPos_sorted` in Props/C04.lean). -/
def insertPos (rs : List Record) (d : Date) : Nat :=
  match rs with
  | [] => 0
  | r0 :: _ => if !dateLe r0.date d then 0 else slotAfter d 0 rs + 1

def InsertAt (rs : List Record) (d : Date) (i : Nat) : Prop := i = insertPos rs d

/-- `rs'` is `rs` with the record at index `i` replaced by `r'` -/
def ReplaceAt (rs : List Record) (i : Nat) (r' : Record) (rs' : List Record) : Prop :=
  i < rs.length ∧ rs' = rs.take i ++ [r'] ++ rs.drop (i + 1)

/-- `rs'` is `rs` with `r'` inserted at position `i` -/
def InsertedAt (rs : List Record) (i : Nat) (r' : Record) (rs' : List Record) : Prop :=
  i ≤ rs.length ∧ rs' = rs.take i ++ [r'] ++ rs.drop i

/-- `create d should summary`: always a new record (duplicates allowed), nothing else changes -/
def Create (rs : List Record) (d : Date) (should : Option Int) (summary : List (List Char)) (rs' : List Record) : Prop :=
  ∃ i r', InsertAt rs d i ∧ InsertedAt rs i r' rs' ∧ SameDate r'.date d ∧ r'.shouldMins = should.getD 0 ∧
    r'.summary = summary ∧ r'.entries = []

/-- adding entry `e` at the end of the record for date `d` (creating that record, with the
configured should-total, at its position when absent); no other record, entry, summary or order
changes -/
def AddEntry (rs : List Record) (d : Date) (cfgShould : Option Int) (e : Entry) (rs' : List Record) : Prop :=
  (∃ i r e', targetIdx rs d = some i ∧ rs[i]? = some r ∧ SameEntry e' e ∧
      ReplaceAt rs i { r with entries := r.entries ++ [e'] } rs') ∨
  (targetIdx rs d = none ∧ ∃ i r' e', InsertAt rs d i ∧ InsertedAt rs i r' rs' ∧ SameDate r'.date d ∧
      r'.shouldMins = cfgShould.getD 0 ∧ r'.summary = [] ∧ SameEntry e' e ∧ r'.entries = [e'])

/-- `track`: rejected if the entry is an open range and the target record already has one -/
def Track (rs : List Record) (d : Date) (cfgShould : Option Int) (e : Entry) : Option (List Record → Prop) :=
  match targetIdx rs d with
  | some i => if isOpen e.val && ((rs[i]?).map Record.hasOpen).getD false then none else some (AddEntry rs d cfgShould e)
  | none => some (AddEntry rs d cfgShould e)

/-- `stop`: the open range of record `i` becomes a range ending at `t`; the extra summary is
appended to the entry's last summary line (after one space, unless there is nothing to append
to), further lines are added; rejected without an open range or when `t` is before the start -/
def appendSummary (old add : List (List Char)) : List (List Char) :=
  match add with
  | [] => old
  | a0 :: rest =>
    (if a0.isEmpty then old
     else match old with
       | [[]] => [a0]
       | _ => old.dropLast ++ [(old.getLast?.getD []) ++ [' '] ++ a0]) ++ rest

def CloseAt (r : Record) (t : Time) (add : List (List Char)) (r' : Record) : Prop :=
  ∃ pre post s sp x sm e',
    r.entries = pre ++ ⟨.openRange s sp x, sm⟩ :: post ∧ (∀ p ∈ pre, isOpen p.val = false) ∧ s.offset ≤ t.offset ∧
    SameEntry e' ⟨.range s t true, appendSummary sm add⟩ ∧
    r' = { r with entries := pre ++ e' :: post }

/-- the pause loop: after any sequence of clock readings (differences to the start in whole
minutes, possibly decreasing or jumping), the minutes captured are the largest reading so far,
never negative -/
def captured (ticks : List Int) : Int := ticks.foldl (fun c t => if t - c > 0 then c + (t - c) else c) 0

/-! ### start / stop / switch / pause -/

/-- the record whose summary `--resume` falls back to: the latest date strictly before `d`,
the first in file order among records of that date -/
def previousOf (rs : List Record) (d : Date) : Option Record :=
  (rs.filter (fun r => !dateLe d r.date)).foldl (fun (best : Option Record) r =>
    match best with
    | none => some r
    | some b => if dateLe b.date r.date && !dateLe r.date b.date then some r else some b) none

/-- the summary `--summary` / `--resume` / `--resume-nth` select; `none` = the flags conflict or
the entry to resume does not exist -/
def chosenSummary (text : Option (List (List Char))) (resume : Bool) (nth : Int) (cur : Record) (prev : Option Record) :
    Option (List (List Char)) :=
  if text.isSome && (resume || nth != 0) then none
  else if resume && nth != 0 then none
  else match text with
    | some t => some t
    | none =>
      if resume then
        match cur.entries.getLast? with
        | some e => some e.summary
        | none => match prev.bind (fun p => p.entries.getLast?) with
          | some e => some e.summary
          | none => some []
      else if nth != 0 then
        let n : Int := cur.entries.length
        let i : Int := if nth > 0 then nth - 1 else n + nth
        if i < 0 || i > n - 1 then none else (cur.entries[i.toNat]?).map (·.summary)
      else some []

/-- an entry summary as it is read back: at least one (possibly empty) line -/
def normSummary (s : List (List Char)) : List (List Char) := if s.isEmpty then [[]] else s

/-- `start`: one open range starting at `t` with the chosen summary is added to the record for
`d` (created at its position when absent) -/
def Start (rs : List Record) (d : Date) (cfgShould : Option Int) (t : Time) (sm : List (List Char)) (rs' : List Record) : Prop :=
  AddEntry rs d cfgShould ⟨.openRange t true 0, normSummary sm⟩ rs'

/-- `stop` on record `i`: its open range becomes a range ending at `t`, extra summary appended -/
def Stop (rs : List Record) (i : Nat) (t : Time) (add : List (List Char)) (rs' : List Record) : Prop :=
  ∃ r r', rs[i]? = some r ∧ CloseAt r t add r' ∧ ReplaceAt rs i r' rs'

/-- `switch` on record `i`: stop at `t` without summary, then start at the same `t` -/
def Switch (rs : List Record) (i : Nat) (t : Time) (sm : List (List Char)) (rs' : List Record) : Prop :=
  ∃ r r1 e', rs[i]? = some r ∧ CloseAt r t [] r1 ∧ SameEntry e' ⟨.openRange t true 0, normSummary sm⟩ ∧
    ReplaceAt rs i { r1 with entries := r1.entries ++ [e'] } rs'

/-- `pause` (without --extend) on record `i`: a duration entry of `-mins` minutes with the given
summary is added at the end; `tags` (the tags of the open range's summary, as klog writes them) are
appended to its last line -/
def pauseSummary (summary : List (List Char)) (tags : Option (List Char)) : List (List Char) :=
  let s := normSummary summary
  match tags with
  | none => s
  | some tg => match s with
    | [[]] => [tg]
    | _ => s.dropLast ++ [(s.getLast?.getD []) ++ [' '] ++ tg]

def PauseAppend (rs : List Record) (i : Nat) (mins : Int) (sm : List (List Char)) (rs' : List Record) : Prop :=
  ∃ r e', rs[i]? = some r ∧ r.hasOpen = true ∧ SameEntry e' ⟨.dur ⟨-mins, false, 0⟩, sm⟩ ∧
    ReplaceAt rs i { r with entries := r.entries ++ [e'] } rs'

/-- `pause --extend` / a tick: the last non-positive duration entry of record `i` decreases by
`mins`; nothing else changes -/
def PauseExtend (rs : List Record) (i : Nat) (mins : Int) (rs' : List Record) : Prop :=
  ∃ r pre post d sm e', rs[i]? = some r ∧ r.hasOpen = true ∧ r.entries = pre ++ ⟨.dur d, sm⟩ :: post ∧ d.mins ≤ 0 ∧
    (∀ p ∈ post, match p.val with | .dur x => x.mins > 0 | _ => True) ∧
    SameEntry e' ⟨.dur ⟨d.mins - mins, false, 0⟩, sm⟩ ∧ ReplaceAt rs i { r with entries := pre ++ e' :: post } rs'

end KlogV.Spec
