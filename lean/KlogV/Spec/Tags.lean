/-
Declarative reading of Specification.md, section "Tag": which tags a summary line contains.
Independent of the scanner in KlogV/Model/Tags.lean (no shared definitions except `Tag`, `UTab`).
-/
import KlogV.Model.Tags
namespace KlogV.Spec

/-- "letters", "digits", `_` or `-` -/
def NameChar (u : UTab) (c : Char) : Prop := u.isLetter c = true ∨ isDigit c = true ∨ c = '_' ∨ c = '-'

/-- `s = run ++ rest` where `run` is the longest prefix of name characters. -/
def MaxRun (u : UTab) (run rest : List Char) : Prop :=
  (∀ c ∈ run, NameChar u c) ∧ (∀ c r, rest = c :: r → ¬ NameChar u c)

/-- The value part that follows a tag name, and what of the text it consumes:
`ValuePart u s v consumed`. -/
inductive ValuePart (u : UTab) : List Char → List Char → List Char → Prop
  /-- no `=`: no value -/
  | absent (s : List Char) (h : ∀ r, s ≠ '=' :: r) : ValuePart u s [] []
  /-- quoted value: any characters except the quote itself, closed on the same line -/
  | quoted (q : Char) (body rest : List Char) (hq : q = '"' ∨ q = '\'') (hb : q ∉ body) :
      ValuePart u ('=' :: q :: body ++ q :: rest) body ('=' :: q :: body ++ [q])
  /-- no matching closing quote on the line: the value is treated as absent -/
  | unterminated (q : Char) (rest : List Char) (hq : q = '"' ∨ q = '\'') (hb : q ∉ rest) :
      ValuePart u ('=' :: q :: rest) [] ['=']
  /-- unquoted value: only name characters (possibly none: empty value = absent) -/
  | unquoted (v rest : List Char) (hm : MaxRun u v rest) (hnq : ∀ r, v ++ rest ≠ '"' :: r ∧ v ++ rest ≠ '\'' :: r) :
      ValuePart u ('=' :: v ++ rest) v ('=' :: v)

/-- The tags of a summary line, in order of appearance. -/
inductive TagsOf (u : UTab) : List Char → List Tag → Prop
  | nil : TagsOf u [] []
  /-- a character that does not start a tag is skipped -/
  | skip (c : Char) (r : List Char) (ts : List Tag)
      (h : c ≠ '#' ∨ r = [] ∨ ∃ c' r', r = c' :: r' ∧ ¬ NameChar u c') (rest : TagsOf u r ts) : TagsOf u (c :: r) ts
  /-- `#`, a non-empty maximal name, an optional value; the name is interpreted lower-case -/
  | tag (name afterName value consumed rest : List Char) (ts : List Tag)
      (hn : name ≠ []) (hm : MaxRun u name afterName)
      (hv : ValuePart u afterName value consumed) (hr : afterName = consumed ++ rest)
      (tail : TagsOf u rest ts) :
      TagsOf u ('#' :: name ++ afterName) (⟨name.map u.lower, value⟩ :: ts)

end KlogV.Spec
