/-
Declarative grammar of klog records (Specification.md, part I), as relations between the lines of
a record (sequences of characters) and the data they denote.  Written from the specification,
not from the parser: no function of KlogV/Model/Parser.lean is used.

Leniencies of the reference parser that the specification does not list as violations are part
of the grammar and marked (T1–T4, see DESIGN.md appendix B):
  T1 tabs as well as spaces between the date and the should-total,
  T2 blanks inside the parentheses of the should-total,
  T3 trailing blanks at the end of the headline,
  T4 a tab instead of the space that separates an entry from its same-line summary.
-/
import KlogV.Model.Record
namespace KlogV.Spec

def Blank (c : Char) : Prop := c = ' ' ∨ c = '\t'

/-- pointwise relation between two lists of equal length -/
inductive Forall2 {α β : Type} (R : α → β → Prop) : List α → List β → Prop
  | nil : Forall2 R [] []
  | cons {a b as bs} (h : R a b) (t : Forall2 R as bs) : Forall2 R (a :: as) (b :: bs)

/-- a string of decimal digits denoting `n` -/
def Digits (s : List Char) (n : Nat) : Prop := s ≠ [] ∧ (∀ c ∈ s, isDigit c = true) ∧ digitsVal s = n

/-! ### Date: `YYYY-MM-DD` or `YYYY/MM/DD`, a day of the Gregorian calendar -/

inductive DateLit : List Char → Date → Prop
  | mk (ys ms ds : List Char) (y m d : Nat) (sep : Char)
      (hy : Digits ys y ∧ ys.length = 4) (hm : Digits ms m ∧ ms.length = 2) (hd : Digits ds d ∧ ds.length = 2)
      (hsep : sep = '-' ∨ sep = '/')
      (hvalid : 1 ≤ m ∧ m ≤ 12 ∧ 1 ≤ d ∧ d ≤ daysIn y m) :
      DateLit (ys ++ [sep] ++ ms ++ [sep] ++ ds) ⟨y, m, d, sep == '-'⟩

/-! ### Time -/

/-- shift prefix/suffix: `<` = day before (-1), `>` = day after (+1), not both -/
inductive Shifted : List Char → List Char → Int → Prop
  | none (s : List Char) : Shifted s s 0
  | before (s : List Char) : Shifted s ('<' :: s) (-1)
  | after (s : List Char) : Shifted s (s ++ ['>']) 1

inductive TimeLit : List Char → Time → Prop
  /-- 24-hour clock: hour 0–23 (one or two digits), minute 00–59 -/
  | h24 (hs ms core full : List Char) (h m : Nat) (shift : Int)
      (hh : Digits hs h ∧ (hs.length = 1 ∨ hs.length = 2) ∧ h ≤ 23) (hm : Digits ms m ∧ ms.length = 2 ∧ m ≤ 59)
      (hc : core = hs ++ [':'] ++ ms) (hsft : Shifted core full shift) : TimeLit full ⟨h, m, shift, true⟩
  /-- `24:00` is `0:00>`, `<24:00` is `0:00`; `24:00>` does not exist -/
  | h2400 : TimeLit ['2', '4', ':', '0', '0'] ⟨0, 0, 1, true⟩
  | h2400before : TimeLit ['<', '2', '4', ':', '0', '0'] ⟨0, 0, 0, true⟩
  /-- 12-hour clock: hour 1–12, `am`/`pm`; 12am = 0, 12pm = 12 -/
  | h12 (hs ms core full : List Char) (h m : Nat) (pm : Bool) (shift : Int)
      (hh : Digits hs h ∧ (hs.length = 1 ∨ hs.length = 2) ∧ 1 ≤ h ∧ h ≤ 12) (hm : Digits ms m ∧ ms.length = 2 ∧ m ≤ 59)
      (hc : core = hs ++ [':'] ++ ms ++ (if pm then ['p', 'm'] else ['a', 'm'])) (hsft : Shifted core full shift) :
      TimeLit full ⟨(if pm then (if h = 12 then 12 else h + 12) else (if h = 12 then 0 else h)), m, shift, false⟩

/-! ### Duration: optional sign, hours and/or minutes; minutes < 60 when hours are present -/

inductive DurBody : List Char → Nat → Prop
  | hm (hs ms : List Char) (h m : Nat) (hh : Digits hs h) (hm : Digits ms m) (hlt : m < 60) :
      DurBody (hs ++ ['h'] ++ ms ++ ['m']) (h * 60 + m)
  | h (hs : List Char) (h : Nat) (hh : Digits hs h) : DurBody (hs ++ ['h']) (h * 60)
  | m (ms : List Char) (m : Nat) (hm : Digits ms m) : DurBody (ms ++ ['m']) m

/-- the value and the notation (explicit `+`; the sign written on a zero value) -/
inductive DurLit : List Char → Dur → Prop
  | plain (b : List Char) (n : Nat) (hb : DurBody b n) : DurLit b ⟨n, false, 0⟩
  | plus (b : List Char) (n : Nat) (hb : DurBody b n) : DurLit ('+' :: b) ⟨n, true, if n = 0 then 1 else 0⟩
  | minus (b : List Char) (n : Nat) (hb : DurBody b n) : DurLit ('-' :: b) ⟨-(n : Int), false, if n = 0 then -1 else 0⟩

/-! ### Entry values -/

def Spaces (s : List Char) : Prop := ∀ c ∈ s, c = ' '

inductive EntryValue : List Char → EntryVal → Prop
  | dur (s : List Char) (d : Dur) (h : DurLit s d) : EntryValue s (.dur d)
  /-- start and end in chronological order (may be equal); spaces may surround the dash -/
  | range (s1 s2 sp1 sp2 : List Char) (t1 t2 : Time) (h1 : TimeLit s1 t1) (h2 : TimeLit s2 t2)
      (hsp : Spaces sp1 ∧ Spaces sp2) (hord : t1.offset ≤ t2.offset) :
      EntryValue (s1 ++ sp1 ++ ['-'] ++ sp2 ++ s2) (.range t1 t2 (sp1 ≠ []))
  /-- the placeholder is one or more `?`, never shifted -/
  | openRange (s1 sp1 sp2 : List Char) (t1 : Time) (extra : Nat) (h1 : TimeLit s1 t1) (hsp : Spaces sp1 ∧ Spaces sp2) :
      EntryValue (s1 ++ sp1 ++ ['-'] ++ sp2 ++ List.replicate (extra + 1) '?') (.openRange t1 (sp1 ≠ []) extra)

/-! ### Lines of a record -/

/-- indentation: four, three or two spaces, or one tab -/
def Indent (ind : List Char) : Prop :=
  ind = [' ', ' ', ' ', ' '] ∨ ind = [' ', ' ', ' '] ∨ ind = [' ', ' '] ∨ ind = ['\t']

/-- headline: the date, optionally a should-total `(duration!)` -/
inductive Headline : List Char → Date → Option Int → Prop
  | plain (s trail : List Char) (d : Date) (hd : DateLit s d) (ht : ∀ c ∈ trail, Blank c) : Headline (s ++ trail) d none
  | should (s b1 b2 b3 trail ds : List Char) (d : Date) (dur : Dur) (hd : DateLit s d) (hdur : DurLit ds dur)
      (h1 : b1 ≠ [] ∧ ∀ c ∈ b1, Blank c) (h2 : (∀ c ∈ b2, Blank c) ∧ (∀ c ∈ b3, Blank c) ∧ ∀ c ∈ trail, Blank c) :
      Headline (s ++ b1 ++ ['('] ++ b2 ++ ds ++ ['!'] ++ b3 ++ [')'] ++ trail) d (some dur.mins)

/-- a line of the record summary: not empty, does not start with a blank character (tab or Zs) -/
def SummaryLine (l : List Char) : Prop := ∃ c r, l = c :: r ∧ isZsTab c = false

/-- a further line of an entry summary: indented twice, and not only blank characters -/
def ContLine (ind l text : List Char) : Prop := l = ind ++ ind ++ text ∧ text ≠ [] ∧ ∃ c ∈ text, isZsTab c = false

/-- an entry: its line (indented once, value, optionally a blank and the first summary line)
followed by continuation lines -/
inductive EntryLines (ind : List Char) : List (List Char) → Entry → Prop
  | mk (vs : List Char) (v : EntryVal) (first : List Char) (sepOpt : List Char) (conts : List (List Char)) (texts : List (List Char))
      (hv : EntryValue vs v)
      (hsep : (sepOpt = [] ∧ first = []) ∨ (∃ b, sepOpt = [b] ∧ Blank b))
      (hc : Forall2 (fun l t => ContLine ind l t) conts texts) :
      EntryLines ind ((ind ++ vs ++ sepOpt ++ first) :: conts) ⟨v, first :: texts⟩

/-- the entries of a record, all with the same indentation -/
inductive EntriesLines (ind : List Char) : List (List Char) → List Entry → Prop
  | nil : EntriesLines ind [] []
  | cons (ls rest : List (List Char)) (e : Entry) (es : List Entry) (he : EntryLines ind ls e) (hr : EntriesLines ind rest es) :
      EntriesLines ind (ls ++ rest) (e :: es)

/-- a record: headline, summary lines, entries with uniform indentation, at most one open range -/
inductive RecordLines : List (List Char) → Record → Prop
  | mk (hl : List Char) (sums : List (List Char)) (els : List (List Char)) (ind : List Char)
      (d : Date) (should : Option Int) (es : List Entry)
      (hh : Headline hl d should) (hs : ∀ l ∈ sums, SummaryLine l) (hi : Indent ind)
      (he : EntriesLines ind els es) (hopen : (es.filter (fun e => isOpen e.val)).length ≤ 1) :
      RecordLines (hl :: sums ++ els) ⟨d, should, sums, es⟩

end KlogV.Spec
