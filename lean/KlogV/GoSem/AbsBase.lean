/-
Reading of a `G` result as the model's three-way result; shared by the abstractions of all translated units (it must not
import any generated unit: a unit that Lean rejects must not take the ties of the other units down).  Core Lean only.
-/
import KlogV.GoSem.Prelude
import KlogV.Model.Commands
namespace KlogV
open KlogV.Go

/-- A `G` result as the model sees it: the text of an error message is dropped (no property depends on the wording). -/
def Go.G.res {α} : G α → Res α
  | .ok a => .ok a
  | .error (.err _) => .err
  | .error .panic => .panic

end KlogV
