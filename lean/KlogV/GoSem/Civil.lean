/-
Semantics of the library calls the translated date and period code makes (cloud.google.com/go/civil `Date`, Go's `time`,
`math.Ceil` on small quotients, `strings.Split` / `TrimPrefix`), defined through the calendar of the hand-written model
(KlogV/Model/Calendar.lean — day numbers, `nextDay` / `prevDay`, ISO week), which the theorems of C15 relate to the
proleptic Gregorian calendar.  Hand-written and trusted (DESIGN.md §0.11).  Core Lean only.
-/
import KlogV.GoSem.Prelude
import KlogV.Model.Calendar
namespace KlogV.Go

/-- `civil.Date` (`Month` is a `time.Month`, an integer) -/
structure CivilDate where
  Year : Int
  Month : Int
  Day : Int
  deriving DecidableEq, Repr, Inhabited

def isLeapInt (y : Int) : Bool := y % 4 == 0 && (y % 100 != 0 || y % 400 == 0)
def daysInInt (y m : Int) : Int :=
  if m == 2 then (if isLeapInt y then 29 else 28) else if m == 4 || m == 6 || m == 9 || m == 11 then 30 else 31

/-- `Date.IsValid`: the normalised date equals the given one -/
def CivilDate.IsValid (d : CivilDate) : G Bool :=
  pure (decide (1 ≤ d.Month ∧ d.Month ≤ 12 ∧ 1 ≤ d.Day ∧ d.Day ≤ daysInInt d.Year d.Month))

def CivilDate.toModel (d : CivilDate) : Date := ⟨d.Year.toNat, d.Month.toNat, d.Day.toNat, true⟩
def CivilDate.ofModel (x : Date) : CivilDate := ⟨x.y, x.m, x.d⟩

/-- `Date.AddDays(n)` for a date of the years 0000–9999.  A result outside those years is represented by a date whose
year is -1 resp. 10000 (only the year of such a result is looked at: `civil2Date` rejects it); a receiver outside those
years is not in the fragment (run-time panic of the translation, never reached by the translated code). -/
def CivilDate.AddDays (d : CivilDate) (n : Int) : G CivilDate :=
  if 0 ≤ d.Year ∧ d.Year ≤ 9999 then
    match d.toModel.plusDays n with
    | some r => pure (CivilDate.ofModel r)
    | none => pure ⟨if n < 0 then -1 else 10000, 1, 1⟩
  else throw .panic

/-- a `time.Time` at midnight UTC of a civil date -/
structure GoTime where
  date : CivilDate
  deriving DecidableEq, Repr, Inhabited

/-- `Date.In(time.UTC)` -/
def CivilDate.In (d : CivilDate) (_loc : Unit) : G GoTime := pure ⟨d⟩

/-- `Time.Weekday()`: Sunday = 0 … Saturday = 6 -/
def GoTime.Weekday (t : GoTime) : G Int :=
  let w := t.date.toModel.weekday
  pure (if w == 7 then 0 else (w : Int))

/-- `Time.ISOWeek()` -/
def GoTime.ISOWeek (t : GoTime) : G (Int × Int) :=
  let r := t.date.toModel.isoWeek
  pure (r.1, (r.2 : Int))

/-- `strings.Count(s, sub)` for a one-character `sub` (other arguments: outside the fragment, counted as 0 occurrences
is NOT assumed — the translation panics) -/
def stringsCount (s sub : Str) : Int :=
  match sub with
  | [c] => ((s.filter (· == c)).length : Int)
  | _ => -1
/-- `strings.Contains(s, sub)` for a one-character `sub` -/
def stringsContains (s sub : Str) : Bool :=
  match sub with
  | [c] => s.contains c
  | _ => false

/-- `civil.ParseDate(s)` = `time.Parse("2006-01-02", s)`: four, two and two digits separated by `-`, a month 1–12 and a
day that exists in that month (Go reports "day out of range" otherwise); years 0000–9999 -/
def civilParseDate (s : Str) : G CivilDate :=
  match s with
  | [y1, y2, y3, y4, '-', m1, m2, '-', d1, d2] =>
    if [y1, y2, y3, y4, m1, m2, d1, d2].all isDigit then
      let y : Int := digitsVal [y1, y2, y3, y4]
      let m : Int := digitsVal [m1, m2]
      let d : Int := digitsVal [d1, d2]
      if 1 ≤ m ∧ m ≤ 12 ∧ 1 ≤ d ∧ d ≤ daysInInt y m then pure ⟨y, m, d⟩ else throw (.err "parsing time: out of range")
    else throw (.err "parsing time: cannot parse")
  | _ => throw (.err "parsing time: cannot parse")

/-- `strings.Split(s, sep)` for a one-character separator -/
def stringsSplit1 (s : Str) (c : Char) : List Str :=
  let rec go : Str → Str → List Str
    | [], cur => [cur.reverse]
    | x :: rest, cur => if x == c then cur.reverse :: go rest [] else go rest (x :: cur)
  go s []
def stringsSplit (s sep : Str) : G (List Str) :=
  match sep with
  | [c] => pure (stringsSplit1 s c)
  | _ => throw .panic      -- other separators are outside the fragment
def stringsTrimPrefix (s pre : Str) : Str := if pre.isPrefixOf s then s.drop pre.length else s

end KlogV.Go
