/-
Semantics of the Go fragment that `klogv extract` translates into Lean (KlogV/Gen/GoSrc.lean):
Go's `int` (64-bit two's complement, wrap-around), truncated division (a run-time panic on a zero divisor),
`(value, error)` results, `panic`, and the few library functions the translated code calls.
Hand-written and trusted (DESIGN.md §0.11).  Core Lean only.
-/
import KlogV.Model.Basic
namespace KlogV.Go

/-- How a Go call can end other than by returning a value without error. -/
inductive Exc where
  | err (msg : String)     -- a non-nil `error` result
  | panic                  -- `panic(...)` or a run-time panic
  deriving DecidableEq, Repr, Inhabited

/-- Every translated Go function returns in this monad. -/
abbrev G := Except Exc

/-- Wrap-around of Go's `int` (64-bit two's complement). -/
def wrap (x : Int) : Int := (x + 9223372036854775808) % 18446744073709551616 - 9223372036854775808

def inInt64 (x : Int) : Prop := -9223372036854775808 ≤ x ∧ x ≤ 9223372036854775807

theorem wrap_id {x : Int} (h : inInt64 x) : wrap x = x := by
  unfold inInt64 at h; unfold wrap; omega

/-- Go `string` values are modelled as lists of characters (the translated code only builds and compares them). -/
abbrev Str := List Char
def str (s : String) : Str := s.toList

class GAdd (α : Type) where gadd : α → α → α
instance : GAdd Int := ⟨fun a b => wrap (a + b)⟩
instance : GAdd Str := ⟨fun a b => a ++ b⟩
def add {α} [GAdd α] (a b : α) : α := GAdd.gadd a b
def sub (a b : Int) : Int := wrap (a - b)
def mul (a b : Int) : Int := wrap (a * b)
def neg (a : Int) : Int := wrap (-a)
/-- `a / b`: truncated towards zero, run-time panic for `b == 0`. -/
def div (a b : Int) : G Int := if b == 0 then throw .panic else pure (wrap (Int.tdiv a b))
/-- `a % b`: sign of the dividend, run-time panic for `b == 0`. -/
def mod (a b : Int) : G Int := if b == 0 then throw .panic else pure (Int.tmod a b)
def lt (a b : Int) : Bool := decide (a < b)
def le (a b : Int) : Bool := decide (a ≤ b)
def gt (a b : Int) : Bool := decide (a > b)
def ge (a b : Int) : Bool := decide (a ≥ b)

/-- `v, err := f(...)`: the value that comes with a non-nil error is the zero value (true of `safemath`; of
`strconv.Atoi` for syntax errors — for range errors klog panics before it looks at the value). -/
def try2 {α} [Inhabited α] (x : G α) : G (α × Option Exc) :=
  match x with
  | .ok a => pure (a, none)
  | .error (.err m) => pure (default, some (.err m))
  | .error .panic => throw .panic

class GNil (α : Type) where isNil : α → Bool
instance {α} : GNil (Option α) := ⟨Option.isNone⟩
instance {α} : GNil (List α) := ⟨List.isEmpty⟩
def isNil {α} [GNil α] (a : α) : Bool := GNil.isNil a

def len {α} (xs : List α) : Int := xs.length
/-- `xs[i]`: run-time panic when out of range. -/
def idx {α} (xs : List α) (i : Int) : G α :=
  if i < 0 then throw .panic else match xs[i.toNat]? with | some a => pure a | none => throw .panic

/-- `xs[lo:hi]` of a string (ASCII contents: the translated code slices only digit strings) or a slice: run-time panic
unless `0 ≤ lo ≤ hi ≤ len`. -/
def slice {α} (xs : List α) (lo hi : Int) : G (List α) :=
  if 0 ≤ lo ∧ lo ≤ hi ∧ hi ≤ xs.length then pure ((xs.drop lo.toNat).take (hi - lo).toNat) else throw .panic

class GToInt (α : Type) where toInt : α → Int
instance : GToInt Int := ⟨id⟩
def toInt {α} [GToInt α] (a : α) : Int := GToInt.toInt a

/-! ### Library functions -/

/-- `errors.New(msg)` as the error of a `(T, error)` result. -/
def errorsNew (msg : Str) : Exc := .err (String.ofList msg)

/-- `%d` -/
def fmtD (x : Int) : Str := if x < 0 then '-' :: natDigits x.natAbs else natDigits x.natAbs
/-- `%0<w>d`: zero padding between the sign and the digits up to width `w`. -/
def fmtD0 (w : Nat) (x : Int) : Str :=
  let ds := natDigits x.natAbs
  if x < 0 then '-' :: (List.replicate (w - 1 - ds.length) '0' ++ ds)
  else List.replicate (w - ds.length) '0' ++ ds
/-- `strconv.Itoa` -/
def itoa (x : Int) : Str := fmtD x
/-- `strings.Repeat(s, n)`: panics for a negative count. -/
def stringsRepeat (s : Str) (n : Int) : G Str :=
  if n < 0 then throw .panic else pure ((List.replicate n.toNat s).flatten)
def stringsTrimSuffix (s suf : Str) : Str :=
  if suf.isSuffixOf s then s.take (s.length - suf.length) else s

/-- `strconv.Atoi`: optional sign, decimal digits (underscores are not accepted in base 10), range of `int`. -/
def atoi (s : Str) : G Int :=
  let (negv, ds) := match s with | '-' :: r => (true, r) | '+' :: r => (false, r) | _ => (false, s)
  if ds.isEmpty || !ds.all isDigit then throw (.err "strconv.Atoi: invalid syntax") else
  let v : Int := digitsVal ds
  if negv then (if v ≤ 9223372036854775808 then pure (-v) else throw (.err "strconv.Atoi: value out of range"))
  else (if v ≤ 9223372036854775807 then pure v else throw (.err "strconv.Atoi: value out of range"))

/-- `safemath.Add` (github.com/jotaen/safemath v0.0.1): both operands and the sum within `[-(2^63-1), 2^63-1]`. -/
def safemathAdd (a b : Int) : G Int :=
  match safeAdd a b with | .ok v => pure v | _ => throw (.err "overflow")
def safemathMultiply (a b : Int) : G Int :=
  match safeMul a b with | .ok v => pure v | _ => throw (.err "overflow")

/-- `civil.Time{Hour, Minute}` with zero seconds and nanoseconds, and its `IsValid` (the normalised time equals the given one). -/
structure CivilTime where
  Hour : Int
  Minute : Int
  deriving DecidableEq, Repr, Inhabited
def CivilTime.IsValid (t : CivilTime) : G Bool :=
  pure (decide (0 ≤ t.Hour ∧ t.Hour < 24 ∧ 0 ≤ t.Minute ∧ t.Minute < 60))

/-- `float64` values of the translated code are small exact quotients (`float64(month) / 3`, `float64(len) / float64(n)` below 2⁵³); modelled as rationals. -/
structure F64 where
  num : Int
  den : Int
  deriving Repr, Inhabited
def f64OfInt (x : Int) : F64 := ⟨x, 1⟩
def fdiv (a b : F64) : F64 := ⟨a.num * b.den, a.den * b.num⟩
/-- `math.Ceil` -/
def mathCeil (a : F64) : F64 := ⟨-((-a.num) / a.den), 1⟩
/-- `int(f)` for an integral value -/
def intOfF64 (a : F64) : Int := Int.tdiv a.num a.den


/-- `make([]T, n)`: `n` zero values; run-time panic for a negative length -/
def makeSlice {α} [Inhabited α] (n : Int) : G (List α) :=
  if n < 0 then throw .panic else pure (List.replicate n.toNat default)
/-- `xs[i] = v`: run-time panic when out of range -/
def setIdx {α} (xs : List α) (i : Int) (v : α) : G (List α) :=
  if i < 0 ∨ i ≥ xs.length then throw .panic else pure (xs.set i.toNat v)
/-- the values of `i` in `for i := lo; i < hi; i++` -/
def intRange (lo hi : Int) : List Int := (List.range (hi - lo).toNat).map (fun (k : Nat) => lo + (k : Int))

end KlogV.Go
