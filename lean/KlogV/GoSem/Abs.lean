/-
Abstraction between the values of the translated Go code (KlogV/Gen/GoSrc.lean) and the values of the hand-written
model (KlogV/Model/Values.lean), and the reading of a `G` result as the model's three-way result.  Core Lean only.
-/
import KlogV.Gen.GoSrc
import KlogV.GoSem.AbsBase
import KlogV.Model.Values
import KlogV.Model.Commands
import KlogV.Model.ConfigFile
import KlogV.Lemmas.RegexModel4
namespace KlogV
open KlogV.Go

-- `optRes` (Model/Commands.lean) reads the model's `Option` (Go's `(T, error)`) as a three-way result.

def Time.toGo (t : Time) : GoSrc.time := ⟨t.h, t.min, t.shift, ⟨t.is24⟩⟩
def Dur.toGo (d : Dur) : GoSrc.duration := ⟨d.mins, ⟨d.forcePlus, d.zeroSign⟩⟩
/-- a computed duration (`NewDuration`): default format -/
def durOfMins (m : Int) : GoSrc.duration := ⟨m, ⟨false, 0⟩⟩

/-! The contract assumed of `re.FindStringSubmatch(s)` for a pattern that is anchored at both ends (package regexp:
"nil if there is no match; otherwise the text of the match followed by the text of each group, the empty string for a
group that did not participate"), spelled out for the two patterns the translated code uses. -/

/-- the contract of `timePattern.FindStringSubmatch` -/
def TimeFind (find : Str → List Str) : Prop :=
  (∀ (lt : Bool) (hd : List Char) (m1 m2 : Char) (ap : Option Bool) (gt : Bool),
      (hd.length = 1 ∨ hd.length = 2) → hd.all isDigit = true → isDigit m1 = true → isDigit m2 = true →
      let s := (if lt then ['<'] else []) ++ hd ++ [':'] ++ [m1, m2] ++ Time.apChars ap ++ (if gt then ['>'] else [])
      find s = [s, (if lt then ['<'] else []), hd, [m1, m2], Time.apChars ap, (if gt then ['>'] else [])]) ∧
  (∀ s, (∀ env, ¬ Rx.Matches env Rx.Expect.time (codes s)) → find s = [])

/-- the contract of `durationPattern.FindStringSubmatch` (groups 2 and 4 are the amounts with their unit letters) -/
def DurFind (find : Str → List Str) : Prop :=
  (∀ sg hd md : List Char, (sg = [] ∨ sg = ['-'] ∨ sg = ['+']) → hd.all isDigit = true → md.all isDigit = true →
      let s := sg ++ (if hd.isEmpty then [] else hd ++ ['h']) ++ (if md.isEmpty then [] else md ++ ['m'])
      find s = [s, sg, (if hd.isEmpty then [] else hd ++ ['h']), hd, (if md.isEmpty then [] else md ++ ['m']), md]) ∧
  (∀ s, (∀ env, ¬ Rx.Matches env Rx.Expect.duration (codes s)) → find s = [])

end KlogV
