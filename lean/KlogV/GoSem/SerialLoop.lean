/-
The block loop of the serial parser (klog/parser/engine/serial.go, `mapParse`), hand-transcribed over the translated
`ParseBlock`; `none` = the translated code panics or the fuel (one iteration per block; every block consumes at least one
byte) runs out.  Core Lean only.
-/
import KlogV.GoSem.AbsTxt
namespace KlogV
open KlogV.Go

def goSerialLoop : Nat → BStr → Int → List GoTxt.block → Option (List GoTxt.block)
  | 0, _, _, _ => none
  | fuel + 1, text, totalLines, acc =>
    match GoTxt.ParseBlock text totalLines with
    | .ok (some b, n) =>
      if n == 0 then some acc.reverse
      else goSerialLoop fuel (text.drop n.toNat) (totalLines + (b.lines.length : Int)) (b :: acc)
    | .ok (none, _) => some acc.reverse
    | .error _ => none

def goSerialBlocks (fuel : Nat) (text : BStr) (totalLines : Int) : Option (List GoTxt.block) :=
  goSerialLoop fuel text totalLines []

end KlogV
