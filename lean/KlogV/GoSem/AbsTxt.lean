/-
Abstraction between the values of the translated line / block layer (KlogV/Gen/GoTxt.lean) and the model's
(KlogV/Model/Lines.lean).  Core Lean only.
-/
import KlogV.Gen.GoTxt
import KlogV.GoSem.AbsBase
namespace KlogV
open KlogV.Go

def Line.toGo (l : Line) : GoTxt.Line := ⟨l.text, l.ending.bytes⟩

/-- what `ParseBlock(text, n)` returns according to the model: the first block of the text with the bytes it covers, or
no block and the whole (all-blank) text consumed -/
def firstBlock (t : Bytes) (n : Int) : Option GoTxt.block × Int :=
  match blocksOf t with
  | [] => (none, (t.length : Int))
  | b :: _ => (some ⟨n, b.map Line.toGo⟩, (countBytes b : Int))

end KlogV
