/-
Semantics of the library calls of the translated line / block layer, where a Go `string` is a sequence of BYTES:
`for i, c := range s` (UTF-8 decoding, U+FFFD of width 1 for a byte that starts no well-formed sequence),
`utf8.DecodeRuneInString`, `utf8.DecodeLastRuneInString`, `strings.HasPrefix` / `HasSuffix`.  The decoder is the model's
(KlogV/Model/Utf8.lean, which mirrors unicode/utf8).  Hand-written and trusted (DESIGN.md §0.11).  Core Lean only.
-/
import KlogV.GoSem.Prelude
import KlogV.Model.Utf8
namespace KlogV.Go

/-- a Go string as bytes -/
abbrev BStr := List UInt8
instance : GAdd BStr := ⟨fun a b => a ++ b⟩

/-- `utf8.DecodeRuneInString(s)`: (rune, width); `(RuneError, 0)` for the empty string, `(RuneError, 1)` for an invalid byte -/
def utf8DecodeRune (s : BStr) : Int × Int :=
  let r := decodeRune s
  ((r.1.toNat : Int), (r.2 : Int))

/-- the (byte offset, rune) pairs of `for i, c := range s`; fuelled by the length -/
def rangeStrAux : Nat → Nat → BStr → List (Int × Int)
  | 0, _, _ => []
  | _, _, [] => []
  | fuel + 1, off, bs =>
    let r := decodeRune bs
    ((off : Int), (r.1.toNat : Int)) :: rangeStrAux fuel (off + max r.2 1) (bs.drop (max r.2 1))
def rangeStr (s : BStr) : List (Int × Int) := rangeStrAux s.length 0 s

/-- widths of the runes of a string, in order -/
def runeWidths : Nat → BStr → List Nat
  | 0, _ => []
  | _, [] => []
  | fuel + 1, bs => let w := max (decodeRune bs).2 1; w :: runeWidths fuel (bs.drop w)

/-- `utf8.DecodeLastRuneInString(s)`, following unicode/utf8: an ASCII last byte is the rune; otherwise walk back over at
most three bytes to the nearest byte that is not a continuation byte (`b & 0xC0 != 0x80`), decode from there, and accept
the rune only if it ends exactly at the end of the string — else `(RuneError, 1)`; `(RuneError, 0)` for the empty string. -/
def utf8DecodeLastRune (s : BStr) : Int × Int :=
  let n := s.length
  match s.getLast? with
  | none => (0xFFFD, 0)
  | some lastB =>
    if lastB.toNat < 0x80 then ((lastB.toNat : Int), 1) else
    let lim := n - 4
    let isStart (i : Nat) : Bool := match s[i]? with | some b => (b.toNat &&& 0xC0) != 0x80 | none => false
    let cands := (List.range (n - 1 - lim)).map (fun k => n - 2 - k)
    let start : Nat := match cands.find? isStart with
      | some i => i
      | none => if lim = 0 then 0 else lim - 1
    let r := decodeRune (s.drop start)
    if start + r.2 = n then ((r.1.toNat : Int), (r.2 : Int)) else (0xFFFD, 1)

/-- `s[i]` of a string: the byte, as an integer; run-time panic when out of range -/
def idxByte (s : BStr) (i : Int) : G Int :=
  if i < 0 then throw .panic else match s[i.toNat]? with | some b => pure (b.toNat : Int) | none => throw .panic
/-- `utf8.RuneStart(b)`: not a continuation byte -/
def utf8RuneStart (b : Int) : Bool := b % 256 / 64 != 2

def utf8RuneCount (s : BStr) : Int := (rangeStr s).length

/-- `strings.Join(parts, sep)` -/
def stringsJoin {α} (parts : List (List α)) (sep : List α) : List α :=
  match parts with
  | [] => []
  | [p] => p
  | p :: q :: ps => p ++ sep ++ stringsJoin (q :: ps) sep
/-- `strings.Split(s, sep)` for a one-byte separator (other separators: outside the fragment, run-time panic of the translation) -/
def stringsSplitB1 (s : BStr) (c : UInt8) : List BStr :=
  let rec go : BStr → BStr → List BStr
    | [], cur => [cur.reverse]
    | x :: rest, cur => if x == c then cur.reverse :: go rest [] else go rest (x :: cur)
  go s []
def stringsSplitB (s sep : BStr) : G (List BStr) :=
  match sep with
  | [c] => pure (stringsSplitB1 s c)
  | _ => throw .panic

def stringsHasPrefix {α} [BEq α] (s pre : List α) : Bool := pre.isPrefixOf s
def stringsHasSuffix {α} [BEq α] (s suf : List α) : Bool := suf.isSuffixOf s

/-- `for i, x := range xs` over a slice -/
def enumSlice {α} (xs : List α) : List (Int × α) := (List.range xs.length).zip xs |>.map fun (i, x) => ((i : Int), x)

end KlogV.Go
