/-
Readings of the translated dates used by the end-to-end corollaries (KlogV/Props/GoSpec15.lean).  Core Lean only.
-/
import KlogV.GoSem.AbsCal
namespace KlogV.GoTie
open KlogV.Go

/-- a translated date of the calendar -/
def GoDateValid (x : GoCal.date) : Prop :=
  0 ≤ x.year ∧ x.year ≤ 9999 ∧ 1 ≤ x.month ∧ x.month ≤ 12 ∧ 1 ≤ x.day ∧ x.day ≤ daysInInt x.year x.month

/-- its day number (0000-01-01 ↦ 0) -/
def goDayNumber (x : GoCal.date) : Int := dayNumber ⟨x.year.toNat, x.month.toNat, x.day.toNat, true⟩

instance (x : GoCal.date) : Decidable (GoDateValid x) := by unfold GoDateValid; infer_instance

end KlogV.GoTie
