/-
The generic contract assumed of `(*regexp.Regexp).FindStringSubmatch` for a pattern that is anchored at both ends, in
terms of the marked language of the pattern (KlogV/Regex/Basic.lean: capture group `i` is delimited by `openSym i` and
`closeSym i`).  Core Lean only.
-/
import KlogV.Regex.Basic
import KlogV.GoSem.AbsBase
import KlogV.Lemmas.RegexModel4
namespace KlogV
open KlogV.Go KlogV.Rx

/-- the text of capture group `i` in a marked word: the code points between `openSym i` and the next `closeSym i`, the
markers of nested groups erased; empty when the group takes no part in the match -/
def groupText (m : List Sym) (i : Nat) : List Char :=
  ((((m.dropWhile (· != openSym i)).drop 1).takeWhile (· != closeSym i)).filter (· < maxRune)).map Char.ofNat

/-- package regexp: "FindStringSubmatch returns a slice of strings holding the text of the leftmost match of the regular
expression in s and the matches, if any, of its subexpressions. A return value of nil indicates no match." — for a
pattern anchored at both ends with `n` groups -/
def SubmatchSpec (env : Env) (re : Re) (n : Nat) (find : Str → List Str) : Prop :=
  ∀ s : Str,
    (∀ m, Matches env (mark re) m → erase m = codes s → find s = s :: (List.range n).map (fun i => groupText m (i + 1))) ∧
    ((¬ ∃ m, Matches env (mark re) m ∧ erase m = codes s) → find s = [])

end KlogV
