/-
Readings of the translated values used by the end-to-end corollaries (KlogV/Props/GoSpec.lean).  Core Lean only.
-/
import KlogV.GoSem.AbsCal
namespace KlogV.GoTie
open KlogV.Go

/-- minutes since midnight of the record's day, read off the translated value -/
def goTimeOffset (t : GoSrc.time) : Int := t.dayShift * 1440 + t.hour * 60 + t.minute

/-- a well-formed translated time -/
def GoTimeWF (t : GoSrc.time) : Prop :=
  0 ≤ t.hour ∧ t.hour < 24 ∧ 0 ≤ t.minute ∧ t.minute < 60 ∧ (t.dayShift = -1 ∨ t.dayShift = 0 ∨ t.dayShift = 1)

/-- a translated date of the calendar -/
def GoDateValid (x : GoCal.date) : Prop :=
  0 ≤ x.year ∧ x.year ≤ 9999 ∧ 1 ≤ x.month ∧ x.month ≤ 12 ∧ 1 ≤ x.day ∧ x.day ≤ daysInInt x.year x.month

/-- its day number (0000-01-01 ↦ 0) -/
def goDayNumber (x : GoCal.date) : Int := dayNumber ⟨x.year.toNat, x.month.toNat, x.day.toNat, true⟩

instance (t : GoSrc.time) : Decidable (GoTimeWF t) := by unfold GoTimeWF; infer_instance
instance (x : GoCal.date) : Decidable (GoDateValid x) := by unfold GoDateValid; infer_instance

end KlogV.GoTie
