/-
Readings of the translated time values used by the end-to-end corollaries (KlogV/Props/GoSpec16.lean).  Core Lean only.
-/
import KlogV.GoSem.Abs
namespace KlogV.GoTie
open KlogV.Go

/-- minutes since midnight of the record's day, read off the translated value -/
def goTimeOffset (t : GoSrc.time) : Int := t.dayShift * 1440 + t.hour * 60 + t.minute

/-- a well-formed translated time -/
def GoTimeWF (t : GoSrc.time) : Prop :=
  0 ≤ t.hour ∧ t.hour < 24 ∧ 0 ≤ t.minute ∧ t.minute < 60 ∧ (t.dayShift = -1 ∨ t.dayShift = 0 ∨ t.dayShift = 1)

instance (t : GoSrc.time) : Decidable (GoTimeWF t) := by unfold GoTimeWF; infer_instance

end KlogV.GoTie
