/- The contract of `datePattern.FindStringSubmatch` spelled out (derived from `SubmatchSpec` in Props/GoDateParse.lean). -/
import KlogV.GoSem.AbsCal
import KlogV.GoSem.RxSpec
namespace KlogV
open KlogV.Go

def DateFind (find : Str → List Str) : Prop :=
  (∀ y1 y2 y3 y4 a m1 m2 b d1 d2 : Char,
      [y1, y2, y3, y4, m1, m2, d1, d2].all isDigit = true → (a = '-' ∨ a = '/') → (b = '-' ∨ b = '/') →
      find [y1, y2, y3, y4, a, m1, m2, b, d1, d2] =
        [[y1, y2, y3, y4, a, m1, m2, b, d1, d2], [y1, y2, y3, y4], [m1, m2], [d1, d2]]) ∧
  (∀ s, (∀ env, ¬ Rx.Matches env Rx.Expect.date (codes s)) → find s = [])

end KlogV
