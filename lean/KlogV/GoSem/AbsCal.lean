/-
Abstraction between the values of the translated date / period code (KlogV/Gen/GoCal.lean) and the model's calendar
(KlogV/Model/Calendar.lean).  Core Lean only.
-/
import KlogV.Gen.GoCal
import KlogV.GoSem.AbsBase
import KlogV.Model.ConfigFile
namespace KlogV
open KlogV.Go

def Date.toGo (x : Date) : GoCal.date := ⟨x.y, x.m, x.d, ⟨x.dashes⟩⟩
def Period.toGo (p : Period) : GoCal.periodData := ⟨p.since.toGo, p.until_.toGo⟩

/-- shapes of the four period patterns (what `MatchString` of the four anchored regular expressions decides; the
translator tie Props/Rx/Periods.lean and `Regexes.year_shape` … `week_shape` relate them to the patterns in the code) -/
def yearShape (s : List Char) : Bool := s.length == 4 && s.all isDigit
def monthShape (s : List Char) : Bool :=
  match s with | [y1, y2, y3, y4, '-', m1, m2] => [y1, y2, y3, y4, m1, m2].all isDigit | _ => false
def quarterShape (s : List Char) : Bool :=
  match s with | [y1, y2, y3, y4, '-', 'Q', q] => [y1, y2, y3, y4, q].all isDigit | _ => false
def weekShape (s : List Char) : Bool :=
  match s with
  | y1 :: y2 :: y3 :: y4 :: '-' :: 'W' :: ws => [y1, y2, y3, y4].all isDigit && ws.all isDigit && (ws.length == 1 || ws.length == 2)
  | _ => false

/-- the dates the model's `periodFromPattern` builds for year, month and quarter patterns -/
def yearFromString (s : List Char) : Option Date :=
  match s with | [y1, y2, y3, y4] => if allDigits s then mkDate (digitsVal [y1, y2, y3, y4]) 1 1 else none | _ => none
def monthFromString (s : List Char) : Option Date :=
  match s with
  | [y1, y2, y3, y4, '-', m1, m2] =>
    if allDigits [y1, y2, y3, y4, m1, m2] then mkDate (digitsVal [y1, y2, y3, y4]) (digitsVal [m1, m2]) 1 else none
  | _ => none
def quarterFromString (s : List Char) : Option Date :=
  match s with
  | [y1, y2, y3, y4, '-', 'Q', q] =>
    if allDigits [y1, y2, y3, y4, q] && 1 ≤ digitVal q && digitVal q ≤ 4 then mkDate (digitsVal [y1, y2, y3, y4]) (digitVal q * 3) 1 else none
  | _ => none

end KlogV
