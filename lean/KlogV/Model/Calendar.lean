/-
Calendar arithmetic and periods: weekday, ISO week, quarter, PlusDays, week/month/quarter/year
periods, previous periods, bucket hashes, period patterns.
Mirrors klog/date.go (Weekday, WeekNumber, Quarter, PlusDays via civil/time) and
klog/service/period/*.go.  `none`/`.panic` mark the places where Go panics (dates outside
0000-01-01 … 9999-12-31).  Core Lean only.
-/
import KlogV.Model.Values
namespace KlogV

/-- Days from 0000-01-01 to the first of January of year `y` (proleptic Gregorian; also correct
for `y = -1` and `y = 10000`, which the ISO-week computation touches). -/
def daysBeforeYear (y : Int) : Int := 365 * y + (y + 3) / 4 - (y + 99) / 100 + (y + 399) / 400

def daysBeforeMonth (y m : Nat) : Nat :=
  ((List.range (m - 1)).map (fun i => daysIn y (i + 1))).sum

/-- Day number: 0000-01-01 ↦ 0. -/
def dayNumber (x : Date) : Int := daysBeforeYear x.y + daysBeforeMonth x.y x.m + x.d - 1

def nextDay (x : Date) : Date :=
  if x.d < daysIn x.y x.m then { x with d := x.d + 1 }
  else if x.m < 12 then { x with m := x.m + 1, d := 1 }
  else { x with y := x.y + 1, m := 1, d := 1 }

def prevDay (x : Date) : Date :=
  if x.d > 1 then { x with d := x.d - 1 }
  else if x.m > 1 then { x with m := x.m - 1, d := daysIn x.y (x.m - 1) }
  else { x with y := x.y - 1, m := 12, d := 31 }

def isFirstDay (x : Date) : Bool := x.y == 0 && x.m == 1 && x.d == 1
def isLastDay (x : Date) : Bool := x.y == 9999 && x.m == 12 && x.d == 31

def plusDaysFwd : Nat → Date → Option Date
  | 0, x => some x
  | n + 1, x => if isLastDay x then none else plusDaysFwd n (nextDay x)

def plusDaysBwd : Nat → Date → Option Date
  | 0, x => some x
  | n + 1, x => if isFirstDay x then none else plusDaysBwd n (prevDay x)

/-- `Date.PlusDays(n)`; `none` = Go panics (`UNREPRESENTABLE_DATE`). -/
def Date.plusDays (x : Date) (n : Int) : Option Date :=
  if n ≥ 0 then plusDaysFwd n.toNat x else plusDaysBwd (-n).toNat x

/-- `Date.Weekday()`: Monday = 1 … Sunday = 7.  0000-01-01 is a Saturday. -/
def weekdayOfNumber (dn : Int) : Nat := ((dn + 5) % 7).toNat + 1

def Date.weekday (x : Date) : Nat := weekdayOfNumber (dayNumber x)

/-- `Date.Quarter()` = ceil(month / 3) -/
def Date.quarter (x : Date) : Nat := (x.m + 2) / 3

/-- `Date.WeekNumber()` = Go's `ISOWeek()`: year and `yday/7 + 1` of the Thursday of the week.
The year can be -1 (for 0000-01-01/02) or 10000. -/
def Date.isoWeek (x : Date) : Int × Nat :=
  let dn := dayNumber x
  let th := dn + 4 - (x.weekday : Int)
  let y : Int := x.y
  let yy : Int := if th < daysBeforeYear y then y - 1 else if th ≥ daysBeforeYear (y + 1) then y + 1 else y
  (yy, ((th - daysBeforeYear yy) / 7).toNat + 1)

structure Period where
  since : Date
  until_ : Date
  deriving Repr, DecidableEq

inductive PeriodKind where
  | day | week | month | quarter | year
  deriving Repr, DecidableEq

/-- Walk back to Monday (at most 6 steps). -/
def toMonday : Nat → Date → Option Date
  | 0, x => some x
  | n + 1, x => if x.weekday == 1 then some x else (x.plusDays (-1)).bind (toMonday n)

def toSunday : Nat → Date → Option Date
  | 0, x => some x
  | n + 1, x => if x.weekday == 7 then some x else (x.plusDays 1).bind (toSunday n)

/-- `Week.Period()` -/
def weekPeriod (x : Date) : Option Period :=
  match toMonday 7 x, toSunday 7 x with
  | some s, some u => some ⟨s, u⟩
  | _, _ => none

/-- `Month.Period()` -/
def monthPeriod (x : Date) : Period :=
  ⟨{ x with d := 1, dashes := true }, { x with d := daysIn x.y x.m, dashes := true }⟩

/-- `Quarter.Period()` -/
def quarterPeriod (x : Date) : Period :=
  match x.quarter with
  | 1 => ⟨⟨x.y, 1, 1, true⟩, ⟨x.y, 3, 31, true⟩⟩
  | 2 => ⟨⟨x.y, 4, 1, true⟩, ⟨x.y, 6, 30, true⟩⟩
  | 3 => ⟨⟨x.y, 7, 1, true⟩, ⟨x.y, 9, 30, true⟩⟩
  | _ => ⟨⟨x.y, 10, 1, true⟩, ⟨x.y, 12, 31, true⟩⟩

/-- `Year.Period()` -/
def yearPeriod (x : Date) : Period := ⟨⟨x.y, 1, 1, true⟩, ⟨x.y, 12, 31, true⟩⟩

def periodOf (k : PeriodKind) (x : Date) : Option Period :=
  match k with
  | .day => some ⟨x, x⟩
  | .week => weekPeriod x
  | .month => some (monthPeriod x)
  | .quarter => some (quarterPeriod x)
  | .year => some (yearPeriod x)

/-- `Month.Previous()`: step back 25 days until the month changes (fuelled: 2 steps suffice). -/
def prevMonthDate : Nat → Nat → Date → Option Date
  | 0, _, _ => none
  | n + 1, m0, x => match x.plusDays (-25) with
    | none => none
    | some r => if r.m != m0 then some r else prevMonthDate n m0 r

/-- `Quarter.Previous()`: step back 80 days until the quarter changes. -/
def prevQuarterDate : Nat → Nat → Date → Option Date
  | 0, _, _ => none
  | n + 1, q0, x => match x.plusDays (-80) with
    | none => none
    | some r => if r.quarter != q0 then some r else prevQuarterDate n q0 r

/-- A date inside the previous period of the given kind; `none` = Go panics. -/
def previousDate (k : PeriodKind) (x : Date) : Option Date :=
  match k with
  | .day => x.plusDays (-1)
  | .week => x.plusDays (-7)
  | .month => prevMonthDate 4 x.m x
  | .quarter => prevQuarterDate 4 x.quarter x
  | .year => if x.y == 0 then none else some ⟨x.y - 1, 1, 1, true⟩

/-! ### Bucket hashes (`bitMask.populate`) on `uint32` -/

/-- bit widths `ceil(log2 max) + 1` for max = 31, 12, 53, 4, 10000.
Tied to the code by the regenerated table `KlogV.Gen.hashBits`. -/
def bitsDay : Nat := 6
def bitsMonth : Nat := 5
def bitsWeek : Nat := 7
def bitsQuarter : Nat := 3
def bitsYear : Nat := 15

def u32 (x : Int) : Nat := (x % 4294967296).toNat

def populate (acc : Nat × Nat) (value : Nat) (bits : Nat) : Nat × Nat :=
  ((acc.1 ||| (value <<< acc.2)) % 4294967296, acc.2 + bits)

def hashOf (k : PeriodKind) (x : Date) : Nat :=
  match k with
  | .day => (populate (populate (populate (0, 0) x.d bitsDay) x.m bitsMonth) x.y bitsYear).1
  | .week =>
    let (y, w) := x.isoWeek
    (populate (populate (0, 0) w bitsWeek) (u32 y) bitsYear).1
  | .month => (populate (populate (0, 0) x.m bitsMonth) x.y bitsYear).1
  | .quarter => (populate (populate (0, 0) x.quarter bitsQuarter) x.y bitsYear).1
  | .year => (populate (0, 0) x.y bitsYear).1

/-! ### Period patterns -/

def allDigits (cs : List Char) : Bool := cs.all isDigit

def mkDate (y m d : Nat) : Option Date :=
  let x : Date := ⟨y, m, d, true⟩
  if x.valid then some x else none

/-- `NewWeekFromString`: the date inside the week, `.err` for malformed/non-existent weeks,
`.panic` where Go's PlusDays panics. -/
def weekFromString (s : List Char) : Res Date :=
  match s with
  | y1 :: y2 :: y3 :: y4 :: '-' :: 'W' :: ws =>
    if !(allDigits [y1, y2, y3, y4] && allDigits ws && (ws.length == 1 || ws.length == 2)) then .err else
    let year := digitsVal [y1, y2, y3, y4]
    let week := digitsVal ws
    if week < 1 then .err else
    match mkDate year 7 1 with
    | none => .err
    | some ref0 =>
      match toMonday 7 ref0 with
      | none => .panic
      | some ref1 =>
        let w := ref1.isoWeek.2
        match ref1.plusDays (((week : Int) - w) * 7) with
        | none => .panic
        | some ref2 => if ref2.isoWeek.2 != week then .err else .ok ref2
  | _ => .err

/-- `NewPeriodFromPatternString`: tries year, month, quarter, week in this order. -/
def periodFromPattern (s : List Char) : Res Period :=
  -- year
  match (match s with
    | [y1, y2, y3, y4] => if allDigits s then (mkDate (digitsVal [y1, y2, y3, y4]) 1 1).map yearPeriod else none
    | _ => none) with
  | some p => .ok p
  | none =>
  -- month
  match (match s with
    | [y1, y2, y3, y4, '-', m1, m2] =>
      if allDigits [y1, y2, y3, y4, m1, m2] then (mkDate (digitsVal [y1, y2, y3, y4]) (digitsVal [m1, m2]) 1).map monthPeriod else none
    | _ => none) with
  | some p => .ok p
  | none =>
  -- quarter
  match (match s with
    | [y1, y2, y3, y4, '-', 'Q', q] =>
      if allDigits [y1, y2, y3, y4, q] && 1 ≤ digitVal q && digitVal q ≤ 4 then
        (mkDate (digitsVal [y1, y2, y3, y4]) (digitVal q * 3) 1).map quarterPeriod else none
    | _ => none) with
  | some p => .ok p
  | none =>
  match weekFromString s with
  | .ok d => (match weekPeriod d with | some p => .ok p | none => .panic)
  | .err => .err
  | .panic => .panic

end KlogV
