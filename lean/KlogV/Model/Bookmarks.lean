/-
The bookmark database: names, the name → path map, its JSON persistence.
Mirrors klog/app/bookmark.go and the read-modify-write cycle of klog/app/context.go.
-/
import KlogV.Model.Json
namespace KlogV

abbrev BName := List Char
abbrev BPath := List Char

/-- `NewName`: strip all leading `@`; empty means the default bookmark. -/
def newName (s : List Char) : BName :=
  let v := s.dropWhile (· == '@')
  if v.isEmpty then "default".toList else v

/-- the collection as an association list (at most one entry per name) -/
abbrev Bookmarks := List (BName × BPath)

def Bookmarks.get (bc : Bookmarks) (n : BName) : Option BPath := (bc.find? (·.1 == n)).map (·.2)

def Bookmarks.set (bc : Bookmarks) (n : BName) (p : BPath) : Bookmarks :=
  if bc.any (·.1 == n) then bc.map (fun kv => if kv.1 == n then (n, p) else kv) else bc ++ [(n, p)]

def Bookmarks.remove (bc : Bookmarks) (n : BName) : Option Bookmarks :=
  if bc.any (·.1 == n) then some (bc.filter (·.1 != n)) else none

def charsLe (a b : List Char) : Bool := !(b.map Char.toNat < a.map Char.toNat)

/-- `All()`: sorted by name -/
def Bookmarks.sorted (bc : Bookmarks) : Bookmarks :=
  bc.foldl (fun acc x =>
    let lo := acc.takeWhile (fun y => charsLe y.1 x.1)
    lo ++ [x] ++ acc.drop lo.length) []

/-- `ToJson()`: empty string for an empty collection, else an indented array plus newline -/
def Bookmarks.toJson (bc : Bookmarks) : List Char :=
  if bc.isEmpty then [] else
  (JVal.arr (bc.sorted.map (fun kv => .obj [("name".toList, .str kv.1), ("path".toList, .str kv.2)]))).pretty 0 ++ ['\n']

inductive BOp where
  | set (name : List Char) (path : BPath)     -- name as typed (with or without `@`, possibly empty)
  | unset (name : List Char)
  | clear
  deriving Repr

/-- one command on the decoded database: new database, or `none` = the command fails and
writes nothing -/
def Bookmarks.apply (bc : Bookmarks) : BOp → Option Bookmarks
  | .set n p => some (bc.set (newName n) p)
  | .unset n => bc.remove (newName n)
  | .clear => some []

end KlogV
