/-
The terminal rendering of parser errors: `Reflower.Reflow` and `PrettifyParsingError`.
Mirrors klog/app/cli/terminalformat/reflow.go and klog/app/cli/util/prettifier.go.
Text is a list of characters; Go measures `len(string)` in BYTES, hence `byteLen`.
-/
import KlogV.Model.Styler
import KlogV.Model.Document
import KlogV.Gen.ErrorTexts
namespace KlogV

/-- `len(s)` of a Go string holding these characters -/
def byteLen (s : List Char) : Nat := (s.map (fun c => (encodeChar c).length)).sum

/-- `strings.Split(s, sep)` for a one-character separator: always at least one piece -/
def splitOnChar (sep : Char) : List Char → List (List Char)
  | [] => [[]]
  | c :: r =>
    if c == sep then [] :: splitOnChar sep r
    else match splitOnChar sep r with
      | [] => [[c]]          -- unreachable
      | p :: ps => (c :: p) :: ps

/-- `strings.Join(parts, sep)` -/
def joinWith (sep : List Char) : List (List Char) → List Char
  | [] => []
  | [p] => p
  | p :: q :: ps => p ++ sep ++ joinWith sep (q :: ps)

/-- The word loop of `Reflow` for one paragraph. `done` = the finished lines, `cur` = the line
being filled (Go: `lines[nr]`), `pfx` = `currentLinePrefix`.  Before word `i` is placed, the
line is closed when `len(lines[nr]) + len(words[i+1]) > maxLength` (sic: the NEXT word). -/
def reflowWords (maxLen : Nat) (prefixes : List (List Char)) :
    List (List Char) → List (List Char) → List Char → List Char → List (List Char)
  | [], done, cur, _ => done ++ [cur]
  | w :: rest, done, cur, pfx =>
    let brk : Bool := match rest with
      | nxt :: _ => decide (byteLen cur + byteLen nxt > maxLen)
      | [] => false
    let done' := if brk then done ++ [cur] else done
    let cur' := if brk then [] else cur
    if cur'.isEmpty then
      let pfx' := (prefixes[done'.length]?).getD pfx
      reflowWords maxLen prefixes rest done' (pfx' ++ w) pfx'
    else
      reflowWords maxLen prefixes rest done' (cur' ++ [' '] ++ w) pfx

/-- `Reflower{maxLen, "\n"}.Reflow(text, prefixes)` -/
def reflow (maxLen : Nat) (prefixes : List (List Char)) (text : List Char) : List Char :=
  joinWith ['\n'] ((splitOnChar '\n' text).map (fun para =>
    joinWith ['\n'] (reflowWords maxLen prefixes (splitOnChar ' ' para) [] [] [])))

def INDENT : List Char := "    ".toList

/-- the message of an error: `title + ": " + details` (texts regenerated from the code) -/
def errMessage (c : ErrCode) : List Char :=
  (Gen.errorTitle c.name).toList ++ ": ".toList ++ (Gen.errorDetails c.name).toList

def tabsToSpaces (s : List Char) : List Char := s.map (fun c => if c == '\t' then ' ' else c)

/-- One error of `PrettifyParsingError`: header, quoted line, carets, reflowed message. `none`
where Go panics (no such line; negative position or length in `strings.Repeat`). -/
def prettyError (st : Styler) (origin : List Char) (e : GErr) : Option (List Char) :=
  match e.lineText with
  | none => none
  | some text =>
    if e.pos < 0 || e.len < 0 then none else
    let red : StyleProps := { color := .red }
    some (['\n'] ++
      st.format { color := .red, background := .red } ['['] ++
      st.format { color := .textInverse, background := .red } "SYNTAX ERROR".toList ++
      st.format { color := .red, background := .red } [']'] ++
      (st.seqs red ++ " in line ".toList ++ natDigits e.lineNumber ++ st.reset) ++
      (if origin.isEmpty then [] else st.seqs red ++ " of file ".toList ++ origin ++ st.reset) ++
      ['\n'] ++
      st.format { color := .textSubdued } (INDENT ++ tabsToSpaces (decodeGo text)) ++ ['\n'] ++
      st.format red (INDENT ++ List.replicate e.pos.toNat ' ' ++ List.replicate e.len.toNat '^') ++ ['\n'] ++
      st.format { color := .yellow } (reflow 80 [INDENT] (errMessage e.code)) ++ ['\n'])

/-- `PrettifyParsingError(errs, styler).Error()` -/
def prettyErrors (st : Styler) (origin : List Char) : List GErr → Option (List Char)
  | [] => some []
  | e :: es =>
    match prettyError st origin e, prettyErrors st origin es with
    | some a, some b => some (a ++ b)
    | _, _ => none

end KlogV
