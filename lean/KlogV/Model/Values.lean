/-
Value types of klog: Date, Time, Duration, Range — parsing, printing, arithmetic.
Mirrors klog/date.go, klog/time.go, klog/duration.go, klog/range.go.  Core Lean only.
-/
import KlogV.Model.Basic
namespace KlogV

/-! ## Date -/

structure Date where
  y : Nat
  m : Nat
  d : Nat
  dashes : Bool := true
  deriving DecidableEq, Repr, Inhabited

def isLeap (y : Nat) : Bool := y % 4 == 0 && (y % 100 != 0 || y % 400 == 0)

def daysIn (y m : Nat) : Nat :=
  if m == 2 then (if isLeap y then 29 else 28)
  else if m == 4 || m == 6 || m == 9 || m == 11 then 30 else 31

/-- A civil date klog can represent: years 0000–9999 of the proleptic Gregorian calendar. -/
def Date.valid (x : Date) : Bool :=
  x.y ≤ 9999 && 1 ≤ x.m && x.m ≤ 12 && 1 ≤ x.d && x.d ≤ daysIn x.y x.m

/-- `klog.NewDateFromString` -/
def Date.parse (s : List Char) : Option Date :=
  match s with
  | [y1, y2, y3, y4, s1, m1, m2, s2, d1, d2] =>
    if [y1, y2, y3, y4, m1, m2, d1, d2].all isDigit
        && (s1 == '-' || s1 == '/') && (s2 == '-' || s2 == '/') && s1 == s2 then
      let x : Date := ⟨digitsVal [y1, y2, y3, y4], digitsVal [m1, m2], digitsVal [d1, d2], s1 == '-'⟩
      if x.valid then some x else none
    else none
  | _ => none

/-- `Date.ToString()` -/
def Date.print (x : Date) : List Char :=
  let sep := if x.dashes then '-' else '/'
  pad4 x.y ++ [sep] ++ pad2 x.m ++ [sep] ++ pad2 x.d

def Date.sameDay (a b : Date) : Bool := a.y == b.y && a.m == b.m && a.d == b.d

/-- `Date.IsAfterOrEqual` -/
def Date.afterOrEqual (a b : Date) : Bool :=
  if a.y != b.y then a.y ≥ b.y else if a.m != b.m then a.m ≥ b.m else a.d ≥ b.d

/-! ## Time -/

structure Time where
  h : Nat
  min : Nat
  shift : Int     -- -1 yesterday, 0 today, +1 tomorrow
  is24 : Bool := true
  deriving DecidableEq, Repr, Inhabited

def Time.wf (t : Time) : Bool := t.h < 24 && t.min < 60 && (t.shift == -1 || t.shift == 0 || t.shift == 1)

/-- `klog.newTime`: folds `24:00` into `0:00` of the next day, then validates. -/
def Time.mk' (hour minute : Nat) (shift : Int) (is24 : Bool) : Option Time :=
  let (hour, shift) := if hour == 24 && minute == 0 && shift ≤ 0 then (0, shift + 1) else (hour, shift)
  if hour < 24 && minute < 60 then some ⟨hour, minute, shift, is24⟩ else none

/-- `klog.NewTimeFromString` -/
def Time.parse (s : List Char) : Option Time :=
  let (lt, s) := match s with | '<' :: r => (true, r) | _ => (false, s)
  let hd := s.takeWhile isDigit
  let s := s.dropWhile isDigit
  if hd.length < 1 || hd.length > 2 then none else
  match s with
  | ':' :: m1 :: m2 :: rest =>
    if !(isDigit m1 && isDigit m2) then none else
    let (ampm, rest) : Option Bool × List Char := match rest with
      | 'a' :: 'm' :: r => (some false, r)
      | 'p' :: 'm' :: r => (some true, r)
      | _ => (none, rest)
    let (gt, rest) := match rest with | '>' :: r => (true, r) | _ => (false, rest)
    if !rest.isEmpty || (lt && gt) then none else
    let hour := digitsVal hd
    let minute := digitsVal [m1, m2]
    let shift : Int := if lt then -1 else if gt then 1 else 0
    match ampm with
    | none => Time.mk' hour minute shift true
    | some pm =>
      if hour < 1 || hour > 12 then none else
      let hour := if !pm && hour == 12 then 0 else if pm && hour < 12 then hour + 12 else hour
      Time.mk' hour minute shift false
  | _ => none

/-- `Time.ToString()` -/
def Time.print (t : Time) : List Char :=
  let pre := if t.shift < 0 then ['<'] else []
  let suf := if t.shift > 0 then ['>'] else []
  let (hour, ampm) : Nat × List Char :=
    if t.is24 then (t.h, [])
    else if t.h == 12 then (12, ['p', 'm'])
    else if t.h > 12 then (t.h - 12, ['p', 'm'])
    else if t.h == 0 then (12, ['a', 'm'])
    else (t.h, ['a', 'm'])
  pre ++ natDigits hour ++ [':'] ++ pad2 t.min ++ ampm ++ suf

/-- `Time.MidnightOffset()` in minutes. -/
def Time.offset (t : Time) : Int :=
  if t.shift < 0 then (t.h : Int) * 60 + t.min - 1440
  else if t.shift > 0 then 1440 + (t.h : Int) * 60 + t.min
  else (t.h : Int) * 60 + t.min

/-- `Time.Plus(d)`: `none` is Go's `error`. -/
def Time.plus (t : Time) (d : Int) : Option Time :=
  let mins := t.offset + d
  if mins ≥ 2880 || mins < -1440 then none else
  let (shift, mins) : Int × Int :=
    if mins < 0 then (-1, 1440 + mins) else if mins > 1440 then (1, mins - 1440) else (0, mins)
  Time.mk' (mins / 60).toNat (mins % 60).toNat shift t.is24

def Time.afterOrEqual (a b : Time) : Bool := a.offset ≥ b.offset

/-! ## Duration -/

structure Dur where
  mins : Int
  forcePlus : Bool := false
  zeroSign : Int := 0
  deriving DecidableEq, Repr, Inhabited

/-- Digits ≥ 2^63 make `strconv.Atoi` fail, which `NewDurationFromString` turns into a panic. -/
def atoi (ds : List Char) : Res Int :=
  let v : Int := digitsVal ds
  if v ≤ maxInt then .ok v else .panic

/-- `klog.NewDurationFromString` -/
def Dur.parse (s : List Char) : Res Dur :=
  let (sign, signGiven, plus, s) : Int × Bool × Bool × List Char := match s with
    | '-' :: r => (-1, true, false, r)
    | '+' :: r => (1, true, true, r)
    | _ => (1, false, false, s)
  let d1 := s.takeWhile isDigit
  let r1 := s.dropWhile isDigit
  -- shapes accepted by `^([-+])?((\d+)h)?((\d+)m)?$`
  let shape : Option (List Char × List Char) :=   -- (hour digits, minute digits); [] = absent
    match d1, r1 with
    | [], _ => none
    | _, ['m'] => some ([], d1)
    | _, 'h' :: r2 =>
      let d2 := r2.takeWhile isDigit
      let r3 := r2.dropWhile isDigit
      (match d2, r3 with
        | [], [] => some (d1, [])
        | [], _ => none
        | _, ['m'] => some (d1, d2)
        | _, _ => none)
    | _, _ => none
  match shape with
  | none => .err
  | some (hd, md) =>
    match (if hd.isEmpty then Res.ok 0 else atoi hd), (if md.isEmpty then Res.ok 0 else atoi md) with
    | .ok h, .ok m =>
      if !hd.isEmpty && m ≥ 60 then .err else
      let zs : Int := if h == 0 && m == 0 && signGiven then sign else 0
      match safeMul (sign * h) 60 with
      | .ok hm => (match safeAdd hm (sign * m) with
        | .ok tot => .ok ⟨tot, plus, zs⟩
        | _ => .panic)
      | _ => .panic
    | _, _ => .panic

/-- `Duration.ToString()` -/
def Dur.print (d : Dur) : List Char :=
  if d.mins == 0 then
    (if d.zeroSign < 0 then ['-'] else if d.zeroSign > 0 then ['+'] else []) ++ ['0', 'm']
  else
    let a := d.mins.natAbs
    let hours := a / 60
    let minutes := a % 60
    (if d.mins < 0 then ['-'] else if d.forcePlus then ['+'] else [])
      ++ (if hours > 0 then natDigits hours ++ ['h'] else [])
      ++ (if minutes > 0 then natDigits minutes ++ ['m'] else [])

/-- `Duration.ToStringWithSign()` (for a parsed `+1h` this yields `++1h`, as in the code; klog only
calls it on computed durations, which never carry `ForcePlus`) -/
def Dur.printSigned (d : Dur) : List Char :=
  if d.mins > 0 then '+' :: d.print else d.print

/-! ## Entry values -/

inductive EntryVal where
  | range (s e : Time) (spaced : Bool)
  | dur (d : Dur)
  | openRange (s : Time) (spaced : Bool) (extraQ : Nat)
  deriving DecidableEq, Repr, Inhabited

/-- `Range.Duration()` / `Entry.Duration()` in minutes (open range counts 0). -/
def EntryVal.minutes : EntryVal → Int
  | .range s e _ => e.offset - s.offset
  | .dur d => d.mins
  | .openRange _ _ _ => 0

def EntryVal.print : EntryVal → List Char
  | .range s e spaced =>
    let sp := if spaced then [' '] else []
    s.print ++ sp ++ ['-'] ++ sp ++ e.print
  | .dur d => d.print
  | .openRange s spaced extra =>
    let sp := if spaced then [' '] else []
    s.print ++ sp ++ ['-'] ++ sp ++ List.replicate (1 + extra) '?'

end KlogV
