/-
Go's UTF-8 decoding (`[]rune(string)`, `for range string`): every byte that does not start a
well-formed sequence decodes to U+FFFD and has width 1.  Mirrors unicode/utf8.DecodeRune.
Also the encoder (`string([]rune)`).  Core Lean only.
-/
import KlogV.Model.Lines
namespace KlogV

def runeError : Char := Char.ofNat 0xFFFD

def isCont (b : UInt8) : Bool := 0x80 ≤ b && b ≤ 0xBF

/-- Decode one rune from the front: (character, width).  Width is 1 for invalid input. -/
def decodeRune (bs : Bytes) : Char × Nat :=
  match bs with
  | [] => (runeError, 0)
  | b0 :: rest =>
    let n0 := b0.toNat
    if n0 < 0x80 then (Char.ofNat n0, 1)
    else if n0 < 0xC2 || n0 > 0xF4 then (runeError, 1)
    else if n0 < 0xE0 then
      match rest with
      | b1 :: _ => if isCont b1 then (Char.ofNat ((n0 % 32) * 64 + b1.toNat % 64), 2) else (runeError, 1)
      | _ => (runeError, 1)
    else if n0 < 0xF0 then
      match rest with
      | b1 :: b2 :: _ =>
        let lo : Nat := if n0 == 0xE0 then 0xA0 else 0x80
        let hi : Nat := if n0 == 0xED then 0x9F else 0xBF
        if lo ≤ b1.toNat && b1.toNat ≤ hi && isCont b2 then
          (Char.ofNat ((n0 % 16) * 4096 + (b1.toNat % 64) * 64 + b2.toNat % 64), 3)
        else (runeError, 1)
      | _ => (runeError, 1)
    else
      match rest with
      | b1 :: b2 :: b3 :: _ =>
        let lo : Nat := if n0 == 0xF0 then 0x90 else 0x80
        let hi : Nat := if n0 == 0xF4 then 0x8F else 0xBF
        if lo ≤ b1.toNat && b1.toNat ≤ hi && isCont b2 && isCont b3 then
          (Char.ofNat ((n0 % 8) * 262144 + (b1.toNat % 64) * 4096 + (b2.toNat % 64) * 64 + b3.toNat % 64), 4)
        else (runeError, 1)
      | _ => (runeError, 1)

/-- `[]rune(s)`; fuelled by the length. -/
def decodeGoAux : Nat → Bytes → List Char
  | 0, _ => []
  | _, [] => []
  | fuel + 1, bs =>
    let (c, w) := decodeRune bs
    c :: decodeGoAux fuel (bs.drop (max w 1))

def decodeGo (bs : Bytes) : List Char := decodeGoAux bs.length bs

/-- `string(rune)`: UTF-8 encoding of one character. -/
def encodeChar (c : Char) : Bytes :=
  let n := c.toNat
  if n < 0x80 then [n.toUInt8]
  else if n < 0x800 then [(0xC0 + n / 64).toUInt8, (0x80 + n % 64).toUInt8]
  else if n < 0x10000 then [(0xE0 + n / 4096).toUInt8, (0x80 + n / 64 % 64).toUInt8, (0x80 + n % 64).toUInt8]
  else [(0xF0 + n / 262144).toUInt8, (0x80 + n / 4096 % 64).toUInt8, (0x80 + n / 64 % 64).toUInt8,
        (0x80 + n % 64).toUInt8]

def encode (cs : List Char) : Bytes := (cs.map encodeChar).flatten

end KlogV
