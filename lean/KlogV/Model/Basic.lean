/-
Shared basics of the model: three-way results (Go panics stay visible), decimal digits.
Core Lean only.
-/
namespace KlogV

/-- Outcome of a Go function that can return a value, return an `error`, or panic.
A panic is never defaulted away in the model. -/
inductive Res (α : Type) where
  | ok (a : α)
  | err
  | panic
  deriving Repr, DecidableEq, Inhabited

namespace Res
def map {α β} (f : α → β) : Res α → Res β
  | ok a => ok (f a) | err => err | panic => panic
def bind {α β} (r : Res α) (f : α → Res β) : Res β :=
  match r with | ok a => f a | err => err | panic => panic
def isOk {α} : Res α → Bool | ok _ => true | _ => false
instance : Monad Res where
  pure := ok
  bind := bind
end Res

/-- Largest magnitude of a Go `int` that klog's overflow-checked arithmetic accepts
(`safemath`: the range is symmetric, `[-(2^63-1), 2^63-1]`). -/
def maxInt : Int := 9223372036854775807

def inRange (x : Int) : Bool := -maxInt ≤ x && x ≤ maxInt

/-- `safemath.Add`, which klog turns into `panic("Integer overflow")`. -/
def safeAdd (a b : Int) : Res Int :=
  if inRange a && inRange b && inRange (a + b) then .ok (a + b) else .panic

def safeMul (a b : Int) : Res Int :=
  if inRange a && inRange b && inRange (a * b) then .ok (a * b) else .panic

def isDigit (c : Char) : Bool := '0' ≤ c && c ≤ '9'

def digitVal (c : Char) : Nat := c.toNat - '0'.toNat

/-- Value of a string of ASCII digits (most significant first). -/
def digitsVal (cs : List Char) : Nat := cs.foldl (fun acc c => acc * 10 + digitVal c) 0

def digitChar (n : Nat) : Char := Char.ofNat ('0'.toNat + n % 10)

/-- Decimal digits of a number, without leading zeros (`0` ↦ `"0"`); fuelled. -/
def natDigitsAux : Nat → Nat → List Char → List Char
  | 0, _, acc => acc
  | fuel + 1, n, acc =>
    if n < 10 then digitChar n :: acc else natDigitsAux fuel (n / 10) (digitChar n :: acc)

def natDigits (n : Nat) : List Char := natDigitsAux (n + 1) n []

def pad2 (n : Nat) : List Char := [digitChar (n / 10), digitChar n]
def pad4 (n : Nat) : List Char := [digitChar (n / 1000), digitChar (n / 100), digitChar (n / 10), digitChar n]

end KlogV
