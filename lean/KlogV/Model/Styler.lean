/-
Terminal styling: SGR sequences, the ANSI stripper, the styled text serialiser, tables.
Mirrors klog/app/cli/terminalformat/{style,util,table}.go and klog/app/text_serialiser.go.
The sequences of each colour theme are regenerated from the code (KlogV/Gen/Themes.lean).
-/
import KlogV.Model.Serialiser
import KlogV.Model.Tags
namespace KlogV

def ESC : Char := Char.ofNat 27

def isSeqBodyChar (c : Char) : Bool := isDigit c || c == ';'

/-- length of a match of `\x1b\[[\d;]+m` at the front of `s` (greedy body, then `m`) -/
def matchSeq (s : List Char) : Option Nat :=
  match s with
  | e :: '[' :: r =>
    if e != ESC then none else
    let body := r.takeWhile isSeqBodyChar
    if body.isEmpty then none else
    match r.drop body.length with
    | 'm' :: _ => some (2 + body.length + 1)
    | _ => none
  | _ => none

/-- `StripAllAnsiSequences` (fuelled by the length) -/
def stripAux : Nat → List Char → List Char
  | 0, s => s
  | _, [] => []
  | fuel + 1, c :: r =>
    match matchSeq (c :: r) with
    | some n => stripAux fuel ((c :: r).drop n)
    | none => c :: stripAux fuel r

def strip (s : List Char) : List Char := stripAux (s.length + 1) s

/-- the colours klog uses (`tf.Colour`) -/
inductive Colour where
  | unspecified | text | textSubdued | textInverse | green | red | yellow | blueDark | blueLight | purple
  deriving DecidableEq, Repr

structure StyleProps where
  color : Colour := .unspecified
  underlined : Bool := false
  bold : Bool := false
  background : Colour := .unspecified
  deriving DecidableEq, Repr

/-- A styler as far as the output is concerned: the prefix sequences for given properties, and
the reset sequence. -/
structure Styler where
  seqs : StyleProps → List Char
  reset : List Char

def Styler.format (s : Styler) (p : StyleProps) (text : List Char) : List Char := s.seqs p ++ text ++ s.reset

def noColour : Styler := ⟨fun _ => [], []⟩

/-- replace every tag match by `l ++ match ++ r` (`HashTagPattern.ReplaceAllStringFunc`) -/
def wrapTagsAux (u : UTab) (l r : List Char) : Nat → List Char → List Char
  | 0, s => s
  | _, [] => []
  | fuel + 1, c :: rest =>
    match matchTag u (c :: rest) with
    | some (_, n) => l ++ (c :: rest).take n ++ r ++ wrapTagsAux u l r fuel ((c :: rest).drop n)
    | none => c :: wrapTagsAux u l r fuel rest

def wrapTags (u : UTab) (l r : List Char) (s : List Char) : List Char := wrapTagsAux u l r (s.length + 1) s

/-- `TextSerialiser.Summary` for one line -/
def styledSummary (u : UTab) (st : Styler) (line : List Char) : List Char :=
  let summary : StyleProps := { color := .textSubdued }
  let tag : StyleProps := { color := .textSubdued, bold := true }
  st.format summary (wrapTags u (st.seqs tag) (st.reset ++ st.seqs summary) line)

def durColour (d : Dur) : Colour := if (d.printSigned).head? == some '-' then .red else .green

def styledValue (st : Styler) : EntryVal → List Char
  | .range s e sp => st.format { color := .blueDark } (EntryVal.range s e sp).print
  | .openRange s sp x => st.format { color := .blueLight } (EntryVal.openRange s sp x).print
  | .dur d => st.format { color := durColour d } d.print

def styledEntryLines (u : UTab) (st : Styler) (e : Entry) : List (List Char) :=
  let first := canonicalIndent ++ styledValue st e.val ++
    (match e.summary with
     | l :: _ => if l.isEmpty then [] else ' ' :: styledSummary u st l
     | [] => [])
  first :: (e.summary.drop 1).map (fun l => canonicalIndent ++ canonicalIndent ++ styledSummary u st l)

def styledRecordLines (u : UTab) (st : Styler) (r : Record) : List (List Char) :=
  let head := st.format { color := .text, underlined := true } r.date.print ++
    (if r.shouldMins != 0 then [' ', '('] ++ st.format { color := .purple } ((Dur.print ⟨r.shouldMins, false, 0⟩) ++ ['!']) ++ [')'] else [])
  head :: r.summary.map (styledSummary u st) ++ r.entries.flatMap (styledEntryLines u st)

def styledPrintRecords (u : UTab) (st : Styler) : List Record → List Char
  | [] => []
  | [r] => (styledRecordLines u st r).flatMap (· ++ ['\n'])
  | r :: rs => (styledRecordLines u st r).flatMap (· ++ ['\n']) ++ ['\n'] ++ styledPrintRecords u st rs

/-! ### Tables (`tf.Table`) -/

structure Cell where
  value : List Char
  fill : Bool := false
  right : Bool := false
  deriving Repr

/-- visible length of a cell: characters after stripping the sequences -/
def Cell.len (c : Cell) : Nat := (strip c.value).length

def columnWidths (ncols : Nat) (cells : List Cell) : List Nat :=
  (List.range ncols).map (fun col => ((cells.zipIdx.filter (fun (_, i) => i % ncols == col)).map (fun (c, _) => c.len)).foldl max 0)

def renderCell (w : Nat) (c : Cell) : List Char :=
  if c.fill then (List.replicate w c.value).flatten
  else
    let pad := List.replicate (w - c.len) ' '
    if c.right then pad ++ c.value else c.value ++ pad

/-- `Table.Collect`: rows of `ncols` cells, separated by `sep`, each row ended by a newline -/
def renderRows (ncols : Nat) (sep : List Char) (cells : List Cell) : List (List Char) :=
  let ws := columnWidths ncols cells
  let rec go (fuel : Nat) (cs : List Cell) : List (List Char) :=
    match fuel, cs with
    | 0, _ => []
    | _, [] => []
    | fuel + 1, cs =>
      let row := cs.take ncols
      (((row.zip ws).map (fun (c, w) => renderCell w c)).intersperse sep).flatten :: go fuel (cs.drop ncols)
  go cells.length cells

end KlogV
