/-
The configuration file: `app.NewConfig` (klog/app/config.go) with the INI reader it uses
(`genie.Parse`, an external library: modelled, not under test) and the readers of the seven
settings, incl. `service.NewRoundingFromString` (klog/service/rounding.go).
Works on bytes, as the Go code does (all delimiters are ASCII).  Core Lean only.
-/
import KlogV.Model.Warnings
import KlogV.Model.Utf8
namespace KlogV

/-! ### genie.Parse -/

def bytesOf (s : String) : Bytes := s.toUTF8.toList

/-- `strings.Replace(t, "\r\n", "\n", -1)` -/
def dropCrBeforeLf : Bytes → Bytes
  | [] => []
  | a :: rest =>
    match rest with
    | b :: _ => if a == CR && b == LF then dropCrBeforeLf rest else a :: dropCrBeforeLf rest
    | [] => [a]

/-- `strings.Split(t, "\n")` (always at least one piece) -/
def splitOnLf (t : Bytes) : List Bytes :=
  let rec go : Bytes → Bytes → List Bytes
    | [], cur => [cur.reverse]
    | b :: rest, cur => if b == LF then cur.reverse :: go rest [] else go rest (b :: cur)
  go t []

def trimRightBy (p : UInt8 → Bool) (l : Bytes) : Bytes := (l.reverse.dropWhile p).reverse

/-- split at the first `=` -/
def splitAtEq : Bytes → Option (Bytes × Bytes)
  | [] => none
  | b :: rest => if b == 61 then some ([], rest) else (splitAtEq rest).map fun (k, v) => (b :: k, v)

inductive IniLine where
  | skip
  | section (name : Bytes)
  | pair (key value : Bytes)
  | bad
  deriving Repr, DecidableEq

/-- one line of the INI text -/
def iniLine (l : Bytes) : IniLine :=
  if l.isEmpty || l.head? == some 35 || l.all isBlankByte then .skip
  else if l.head? == some 91 then
    let l := trimRightBy isBlankByte l
    if l.getLast? != some 93 then .bad else
    let name := (l.drop 1).dropLast
    if name.isEmpty || name.all isBlankByte || name.contains 91 || name.contains 93 then .bad else .section name
  else match splitAtEq l with
    | none => .bad
    | some (key, value) =>
      if key.getLast? != some SP then .bad else
      let key := trimRightBy (· == SP) key
      if key.contains SP || key.contains TAB then .bad else
      if (value != [] && value != [SP]) && value.head? != some SP then .bad else
      .pair key (if value.head? == some SP then value.drop 1 else value)

/-- `genie.Parse` followed by `Data.Get` for every key: the assignments of the unnamed section
in file order (the last one for a key wins); `none` = malformed syntax in some line. -/
def iniEntries (text : Bytes) : Option (List (Bytes × Bytes)) :=
  let rec go : List Bytes → Bool → List (Bytes × Bytes) → Option (List (Bytes × Bytes))
    | [], _, acc => some acc.reverse
    | l :: ls, top, acc =>
      match iniLine l with
      | .skip => go ls top acc
      | .section _ => go ls false acc
      | .pair k v => go ls top (if top then (k, v) :: acc else acc)
      | .bad => none
  go (splitOnLf (dropCrBeforeLf text)) true []

/-- `Data.Get(key)`: the last assignment, `[]` when there is none -/
def iniGet (es : List (Bytes × Bytes)) (key : String) : Bytes :=
  match es.reverse.find? (fun e => e.1 == bytesOf key) with
  | some e => e.2
  | none => []

/-! ### the settings -/

inductive ColourTheme where
  | dark | light | basic | noColour
  deriving Repr, DecidableEq

def ColourTheme.name : ColourTheme → String
  | .dark => "dark" | .light => "light" | .basic => "basic" | .noColour => "no_colour"

/-- `app.Config` (without `IsDebug`) -/
structure AppConfig where
  editor : Option Bytes := none
  colour : ColourTheme := .dark
  cpus : Nat := 1
  rounding : Option Nat := none
  should : Option Int := none
  dateDashes : Option Bool := none
  time24 : Option Bool := none
  noWarnings : Option Disabled := none
  deriving Repr, DecidableEq

def validRoundings : List Nat := [5, 10, 12, 15, 20, 30, 60]

/-- `strconv.Atoi` restricted to what matters here: optional sign, at least one digit -/
def atoiSigned (s : List Char) : Option Int :=
  let (neg, ds) : Bool × List Char := match s with
    | '-' :: r => (true, r)
    | '+' :: r => (false, r)
    | _ => (false, s)
  if ds.isEmpty || !ds.all isDigit then none else
  let v : Int := digitsVal ds
  if v > maxInt + (if neg then 1 else 0) then none else some (if neg then -v else v)

/-- `service.NewRoundingFromString` -/
def parseRounding (s : List Char) : Option Nat :=
  let r : Int :=
    if s == ['1', 'h'] then 60 else
    let s := if s.getLast? == some 'm' then s.dropLast else s
    (atoiSigned s).getD (-1)
  if r ≥ 0 && validRoundings.contains r.toNat then some r.toNat else none

def warnNames : List (String × Nat) :=
  [("UNCLOSED_OPEN_RANGE", 0), ("FUTURE_ENTRIES", 1), ("OVERLAPPING_RANGES", 2), ("MORE_THAN_24H", 3)]

def splitOnComma (t : Bytes) : List Bytes :=
  let rec go : Bytes → Bytes → List Bytes
    | [], cur => [cur.reverse]
    | b :: rest, cur => if b == 44 then cur.reverse :: go rest [] else go rest (b :: cur)
  go t []

/-- reader of `no_warnings` -/
def parseNoWarnings (v : Bytes) : Option Disabled :=
  let names := splitOnComma (v.filter (· != SP))
  names.foldl (fun acc n => acc.bind fun d =>
    match warnNames.find? (fun w => bytesOf w.1 == n) with
    | some (_, 0) => some { d with unclosed := true }
    | some (_, 1) => some { d with future := true }
    | some (_, 2) => some { d with overlapping := true }
    | some (_, _) => some { d with moreThan24h := true }
    | none => none) (some {})

/-- outcome of reading the configuration: `.bad key` names the setting that was refused
(`"syntax"` for a malformed file) -/
inductive CfgRes where
  | ok (c : AppConfig)
  | bad (key : String)
  | panic
  deriving Repr, DecidableEq

/-- `FromConfigFile.Apply`: the settings in the order of `CONFIG_FILE_ENTRIES`; an empty value is
the same as an absent setting; the first refused value aborts. -/
def applyConfigFile (text : Bytes) (c : AppConfig) : CfgRes :=
  match iniEntries text with
  | none => .bad "syntax"
  | some es =>
    let v := iniGet es
    let c := if v "editor" != [] then { c with editor := some (v "editor") } else c
    let colour : Option ColourTheme :=
      if v "colour_scheme" == [] then some c.colour
      else if v "colour_scheme" == bytesOf "dark" then some .dark
      else if v "colour_scheme" == bytesOf "no_colour" then some .noColour
      else if v "colour_scheme" == bytesOf "light" then some .light
      else if v "colour_scheme" == bytesOf "basic" then some .basic
      else none
    match colour with
    | none => .bad "colour_scheme"
    | some col =>
    let c := { c with colour := col }
    match (if v "default_rounding" == [] then some c.rounding else (parseRounding (decodeGo (v "default_rounding"))).map some) with
    | none => .bad "default_rounding"
    | some r =>
    let c := { c with rounding := r }
    let sv := v "default_should_total"
    let should : Res (Option Int) :=
      if sv == [] then .ok c.should else
      let sv := if sv.getLast? == some 33 then sv.dropLast else sv
      (Dur.parse (decodeGo sv)).map fun d => some d.mins
    match should with
    | .panic => .panic
    | .err => .bad "default_should_total"
    | .ok sh =>
    let c := { c with should := sh }
    let df := v "date_format"
    match (if df == [] then some c.dateDashes else if df == bytesOf "YYYY-MM-DD" then some (some true)
           else if df == bytesOf "YYYY/MM/DD" then some (some false) else none) with
    | none => .bad "date_format"
    | some dd =>
    let c := { c with dateDashes := dd }
    let tc := v "time_convention"
    match (if tc == [] then some c.time24 else if tc == bytesOf "24h" then some (some true)
           else if tc == bytesOf "12h" then some (some false) else none) with
    | none => .bad "time_convention"
    | some t24 =>
    let c := { c with time24 := t24 }
    let nw := v "no_warnings"
    match (if nw == [] then some c.noWarnings else (parseNoWarnings nw).map some) with
    | none => .bad "no_warnings"
    | some w => .ok { c with noWarnings := w }

/-- the environment variables klog looks at: set (non-empty) or not -/
structure EnvVars where
  noColor : Bool := false
  editor : Option Bytes := none     -- `some` = set to a non-empty value
  deriving Repr

/-- `app.NewConfig`: determined values, then the file, then the environment (which wins). -/
def newConfig (cpus : Nat) (env : EnvVars) (text : Bytes) : CfgRes :=
  match applyConfigFile text { cpus := cpus } with
  | .ok c =>
    let c := if env.noColor then { c with colour := .noColour } else c
    .ok (match env.editor with | some e => { c with editor := some e } | none => c)
  | r => r

end KlogV
