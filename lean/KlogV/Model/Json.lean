/-
JSON values and Go's `encoding/json` encoder (HTML escaping off), compact and indented.
Mirrors encoding/json's string escaping (`appendString`) and `Indent`.  Core Lean only.
-/
import KlogV.Model.Basic
namespace KlogV

inductive JVal where
  | null
  | num (n : Int)
  | str (s : List Char)
  | arr (xs : List JVal)
  | obj (kvs : List (List Char × JVal))
  deriving Repr, Inhabited

def hexLower (n : Nat) : Char := if n < 10 then Char.ofNat (48 + n) else Char.ofNat (87 + n)

/-- escape one character as Go does with `SetEscapeHTML(false)` -/
def jsonEscapeChar (c : Char) : List Char :=
  if c == '"' then ['\\', '"']
  else if c == '\\' then ['\\', '\\']
  else if c.toNat == 8 then ['\\', 'b']
  else if c.toNat == 12 then ['\\', 'f']
  else if c == '\n' then ['\\', 'n']
  else if c == '\r' then ['\\', 'r']
  else if c == '\t' then ['\\', 't']
  else if c.toNat < 0x20 then ['\\', 'u', '0', '0', hexLower (c.toNat / 16), hexLower (c.toNat % 16)]
  else if c.toNat == 0x2028 then "\\u2028".toList
  else if c.toNat == 0x2029 then "\\u2029".toList
  else [c]

def jsonString (s : List Char) : List Char := ['"'] ++ s.flatMap jsonEscapeChar ++ ['"']

def intDigits (n : Int) : List Char := if n < 0 then '-' :: natDigits n.natAbs else natDigits n.toNat

mutual
/-- compact encoding -/
def JVal.compact : JVal → List Char
  | .null => "null".toList
  | .num n => intDigits n
  | .str s => jsonString s
  | .arr xs => ['['] ++ compactList xs ++ [']']
  | .obj kvs => ['{'] ++ compactFields kvs ++ ['}']
def compactList : List JVal → List Char
  | [] => []
  | [x] => x.compact
  | x :: xs => x.compact ++ [','] ++ compactList xs
def compactFields : List (List Char × JVal) → List Char
  | [] => []
  | [(k, v)] => jsonString k ++ [':'] ++ v.compact
  | (k, v) :: kvs => jsonString k ++ [':'] ++ v.compact ++ [','] ++ compactFields kvs
end

def indentOf (n : Nat) : List Char := List.replicate (2 * n) ' '

mutual
/-- indented encoding (`SetIndent("", "  ")`): empty arrays/objects stay `[]` / `{}` -/
def JVal.pretty (d : Nat) : JVal → List Char
  | .null => "null".toList
  | .num n => intDigits n
  | .str s => jsonString s
  | .arr [] => ['[', ']']
  | .arr (x :: xs) => ['[', '\n'] ++ prettyList (d + 1) (x :: xs) ++ ['\n'] ++ indentOf d ++ [']']
  | .obj [] => ['{', '}']
  | .obj (kv :: kvs) => ['{', '\n'] ++ prettyFields (d + 1) (kv :: kvs) ++ ['\n'] ++ indentOf d ++ ['}']
def prettyList (d : Nat) : List JVal → List Char
  | [] => []
  | [x] => indentOf d ++ x.pretty d
  | x :: xs => indentOf d ++ x.pretty d ++ [',', '\n'] ++ prettyList d xs
def prettyFields (d : Nat) : List (List Char × JVal) → List Char
  | [] => []
  | [(k, v)] => indentOf d ++ jsonString k ++ [':', ' '] ++ v.pretty d
  | (k, v) :: kvs => indentOf d ++ jsonString k ++ [':', ' '] ++ v.pretty d ++ [',', '\n'] ++ prettyFields d kvs
end

end KlogV
